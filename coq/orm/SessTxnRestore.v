(* C33 - SessionTransaction._restore_snapshot characterised phase by phase (no invariant needed here:
   the hypotheses say which identity-map replacements cannot clash). *)
From Coq Require Import List ZArith Bool Arith Lia.
Import ListNotations.
From SAV.orm Require Import SessTxn SessTxnBase.
Open Scope nat_scope.

(* everything but the objects *)
Definition same_rest (s t : sess) : Prop :=
  eoc s = eoc t /\ nobj s = nobj t /\ snew s = snew t /\ sdel s = sdel t /\ stack s = stack t /\
  handles s = handles t /\ committed s = committed t /\ work s = work t /\ saves s = saves t /\ nfid s = nfid t.
Lemma same_rest_refl : forall s, same_rest s s.
Proof. intros; repeat split. Qed.
Lemma same_rest_trans : forall a b c, same_rest a b -> same_rest b c -> same_rest a c.
Proof. unfold same_rest. intros a b c H1 H2. intuition congruence. Qed.
Lemma same_rest_mod_obj : forall s o g, same_rest (mod_obj s o g) s.
Proof. intros; repeat split. Qed.

Lemma objs_mod_same : forall s o g, objs (mod_obj s o g) o = g (objs s o).
Proof. intros. unfold mod_obj, set_obj. cbn. apply updN_same. Qed.
Lemma objs_mod_other : forall s o g x, x <> o -> objs (mod_obj s o g) x = objs s x.
Proof. intros. unfold mod_obj, set_obj. cbn. apply updN_other; auto. Qed.

Lemma oin_o_in_false_idem : forall ob, o_in (o_in ob false) false = o_in ob false.
Proof. reflexivity. Qed.

(* im_other finds an object of the identity map, different from [o], stored under the key of [o] *)
Lemma im_other_some : forall st o o', im_other st o = Some o' ->
  o' < nobj st /\ o' <> o /\ oin (objs st o') = true /\ okey (objs st o') = okey (objs st o) /\ okey (objs st o) <> None.
Proof.
  intros st o o' H. unfold im_other in H. destruct (okey (objs st o)) as [k|] eqn:Ek; [|discriminate].
  apply find_some in H. destruct H as [H1 H2]. apply in_seq in H1.
  apply andb_prop in H2. destruct H2 as [H2 H3]. apply andb_prop in H2. destruct H2 as [H2 H4].
  unfold key_is in H3. destruct (okey (objs st o')) as [k'|] eqn:Ek'; [|discriminate].
  apply Z.eqb_eq in H3. subst. repeat split; auto; try lia; try discriminate.
  intros X. subst. rewrite Nat.eqb_refl in H2. discriminate.
Qed.
Lemma im_other_none : forall st o, im_other st o = None ->
  forall o', o' < nobj st -> o' <> o -> oin (objs st o') = true -> okey (objs st o') = okey (objs st o) -> okey (objs st o) = None.
Proof.
  intros st o H o' Hn Hne Hin Hk. unfold im_other in H. destruct (okey (objs st o)) as [k|] eqn:Ek; auto.
  exfalso. eapply find_none with (x := o') in H; [|apply in_seq; cbn; lia].
  destruct (Nat.eqb_spec o' o); [congruence|]. rewrite Hin in H. unfold key_is in H. rewrite Hk in H.
  cbn in H. rewrite Z.eqb_refl in H. discriminate.
Qed.

(* ------------------------------------------------------------------ phase 2: key switches *)
Section Phase2.
  Variables (E : list nat) (ks : list (nat * (Z * Z))) (st1 : sess).
  Definition P2 (x : nat) : obj :=
    match ks_find x ks with
    | Some (old, _) => if mem x E then objs st1 x else o_in (o_key (objs st1 x) (Some old)) true
    | None => objs st1 x
    end.
  (* the expunged objects are outside the identity map *)
  Hypothesis HE : forall x, mem x E = true -> oin (objs st1 x) = false.
  (* no two objects end up in the identity map under one key *)
  Hypothesis Hinj : forall x y, x < nobj st1 -> y < nobj st1 -> oin (P2 x) = true -> oin (P2 y) = true ->
    okey (P2 x) = okey (P2 y) -> okey (P2 x) <> None -> x = y.

  Definition I2 (done : list nat) (s : sess) : Prop :=
    same_rest s st1 /\
    (forall x, (mem x done = true \/ ks_find x ks = None) -> objs s x = P2 x) /\
    (forall x, mem x done = false -> ks_find x ks <> None ->
               objs s x = objs st1 x \/ objs s x = o_in (objs st1 x) false).

  Lemma phase2_step : forall done o s, I2 done s -> mem o done = false -> o < nobj st1 ->
    I2 (done ++ [o]) (restore_ks_one E ks o s).
  Proof.
    intros done o s [SR [H1 H2]] Hnd Hlt. unfold restore_ks_one.
    destruct (ks_find o ks) as [[old nw]|] eqn:Ek.
    2:{ split; [auto|]. split.
        - intros x [Hx|Hx]; auto. rewrite mem_app in Hx. apply orb_prop in Hx. destruct Hx as [Hx|Hx]; auto.
          cbn in Hx. rewrite orb_false_r in Hx. apply Nat.eqb_eq in Hx. subst. auto.
        - intros x Hx Hk. rewrite mem_app in Hx. apply orb_false_elim in Hx. destruct Hx. auto. }
    assert (Ho : objs s o = objs st1 o \/ objs s o = o_in (objs st1 o) false) by (apply H2; congruence).
    assert (Ndone : forall x, mem x (done ++ [o]) = mem x done || Nat.eqb x o).
    { intros x. rewrite mem_app. cbn. rewrite orb_false_r. reflexivity. }
    destruct (mem o E) eqn:EE.
    { (* expunged: transient again, nothing to restore *)
      split; [exact SR|]. split.
      + intros x Hx. destruct (Nat.eqb_spec x o).
        * subst. unfold P2. rewrite Ek, EE. destruct Ho as [Ho|Ho]; [exact Ho|]. rewrite Ho.
          pose proof (HE o EE) as X. destruct (objs st1 o); cbn in *; subst; reflexivity.
        * apply H1. rewrite Ndone in Hx. destruct Hx as [Hx|Hx]; auto.
          apply orb_prop in Hx. destruct Hx as [Hx|Hx]; auto. apply Nat.eqb_eq in Hx. congruence.
      + intros x Hx Hk. rewrite Ndone in Hx. apply orb_false_elim in Hx. destruct Hx as [Hx1 Hx2]. auto. }
    cbv zeta.
    remember (mod_obj (safe_discard o s) o (fun ob => o_key ob (Some old))) as s2 eqn:Es2.
    assert (Os2 : objs s2 o = o_key (o_in (objs st1 o) false) (Some old)).
    { subst s2. rewrite objs_mod_same. unfold safe_discard. rewrite objs_mod_same.
      destruct Ho as [Ho|Ho]; rewrite Ho; reflexivity. }
    assert (Os2' : forall x, x <> o -> objs s2 x = objs s x).
    { intros x Hx. subst s2. rewrite objs_mod_other by auto. unfold safe_discard. rewrite objs_mod_other; auto. }
    assert (SR2 : same_rest s2 st1). { eapply same_rest_trans; [|exact SR]. subst s2. repeat split. }
    destruct (Nat.eq_dec 0 0) as [_|]; [|congruence].
    - (* put back under the old key *)
      unfold im_replace.
      assert (P2o : P2 o = o_in (o_key (objs st1 o) (Some old)) true). { unfold P2. rewrite Ek, EE. reflexivity. }
      destruct (im_other s2 o) as [o'|] eqn:Eo.
      + destruct (im_other_some _ _ _ Eo) as [A [B [C [D F]]]].
        assert (Ho' : mem o' done = false /\ ks_find o' ks <> None).
        { destruct (mem o' done) eqn:Ed; [exfalso|].
          - assert (X : objs s o' = P2 o') by (apply H1; auto).
            rewrite Os2' in C, D by auto. rewrite X in C, D. rewrite Os2 in D.
            assert (o' = o); [|congruence].
            destruct SR2 as [_ [N2 _]]. apply Hinj; try lia; auto.
            * rewrite P2o. reflexivity.
            * rewrite P2o. rewrite D. reflexivity.
            * rewrite D. discriminate.
          - split; auto. intros Hk. assert (X : objs s o' = P2 o') by (apply H1; auto).
            rewrite Os2' in C, D by auto. rewrite X in C, D. rewrite Os2 in D.
            assert (o' = o); [|congruence].
            destruct SR2 as [_ [N2 _]]. apply Hinj; try lia; auto.
            * rewrite P2o. reflexivity.
            * rewrite P2o. rewrite D. reflexivity.
            * rewrite D. discriminate. }
        destruct Ho' as [Hd' Hk'].
        split; [eapply same_rest_trans; [|exact SR2]; repeat split|]. split.
        * intros x Hx. destruct (Nat.eqb_spec x o).
          -- subst. rewrite objs_mod_same. rewrite objs_mod_other by auto. rewrite Os2. rewrite P2o. reflexivity.
          -- assert (x <> o') as Hxo'.
             { intros X; subst. rewrite Ndone in Hx. destruct Hx as [Hx|Hx]; [|congruence].
               apply orb_prop in Hx. destruct Hx as [Hx|Hx]; [congruence|]. apply Nat.eqb_eq in Hx. congruence. }
             rewrite objs_mod_other by auto. rewrite objs_mod_other by auto. rewrite Os2' by auto.
             apply H1. rewrite Ndone in Hx. destruct Hx as [Hx|Hx]; auto.
             apply orb_prop in Hx. destruct Hx as [Hx|Hx]; auto. apply Nat.eqb_eq in Hx. congruence.
        * intros x Hx Hk. rewrite Ndone in Hx. apply orb_false_elim in Hx. destruct Hx as [Hx1 Hx2].
          apply Nat.eqb_neq in Hx2. rewrite objs_mod_other by auto.
          destruct (Nat.eqb_spec x o').
          -- subst. rewrite objs_mod_same. rewrite Os2' by auto. right.
             destruct (H2 o' Hd' Hk') as [Y|Y]; rewrite Y; reflexivity.
          -- rewrite objs_mod_other by auto. rewrite Os2' by auto. auto.
      + split; [eapply same_rest_trans; [|exact SR2]; repeat split|]. split.
        * intros x Hx. destruct (Nat.eqb_spec x o).
          -- subst. rewrite objs_mod_same. rewrite Os2. rewrite P2o. reflexivity.
          -- rewrite objs_mod_other by auto. rewrite Os2' by auto. apply H1.
             rewrite Ndone in Hx. destruct Hx as [Hx|Hx]; auto.
             apply orb_prop in Hx. destruct Hx as [Hx|Hx]; auto. apply Nat.eqb_eq in Hx. congruence.
        * intros x Hx Hk. rewrite Ndone in Hx. apply orb_false_elim in Hx. destruct Hx as [Hx1 Hx2].
          apply Nat.eqb_neq in Hx2. rewrite objs_mod_other by auto. rewrite Os2' by auto. auto.
  Qed.

  Lemma phase2_fold : forall todo done s, I2 done s -> NoDup (done ++ todo) ->
    (forall x, In x todo -> x < nobj st1) ->
    I2 (done ++ todo) (fold_left (fun s o => restore_ks_one E ks o s) todo s).
  Proof.
    induction todo as [|o todo IH]; intros done s HI Hnd Hlt; cbn [fold_left].
    - rewrite app_nil_r. exact HI.
    - replace (done ++ o :: todo) with ((done ++ [o]) ++ todo) by (rewrite <- app_assoc; reflexivity).
      apply IH.
      + apply phase2_step; auto.
        * destruct (mem o done) eqn:Em; auto. apply mem_In in Em. exfalso.
          apply NoDup_remove_2 in Hnd. apply Hnd. apply in_or_app. auto.
        * apply Hlt. left; auto.
      + rewrite <- app_assoc. exact Hnd.
      + intros x Hx. apply Hlt. right; auto.
  Qed.

  Lemma phase2_char : let s2 := fold_left (fun s o => restore_ks_one E ks o s) (all_objs st1) st1 in
    same_rest s2 st1 /\ forall x, x < nobj st1 \/ ks_find x ks = None -> objs s2 x = P2 x.
  Proof.
    intros s2.
    assert (HI : I2 [] st1).
    { split; [apply same_rest_refl|]. split.
      - intros x [Hx|Hx]; [discriminate|]. unfold P2. rewrite Hx. reflexivity.
      - intros; auto. }
    pose proof (phase2_fold (all_objs st1) [] st1 HI) as H. cbn [app] in H.
    destruct H as [SR [H1 _]].
    - apply seq_NoDup.
    - intros x Hx. apply in_seq in Hx. cbn in Hx. lia.
    - split; auto. intros x [Hx|Hx]; apply H1; auto. left. apply mem_In. apply in_seq. cbn. lia.
  Qed.
End Phase2.

(* ------------------------------------------------------------------ phase 3: reverted deletions *)
Section Phase3.
  Variables (st2 : sess) (todel : list nat).
  Definition P3 (x : nat) : obj :=
    if mem x todel then o_in (o_delf (objs st2 x) false) true else objs st2 x.
  Definition fin3 (x : nat) : Prop := oin (objs st2 x) = true \/ In x todel.
  Hypothesis Hok : forall x, In x todel -> x < nobj st2 /\ okey (objs st2 x) <> None /\ oatt (objs st2 x) = true.
  Hypothesis Hinj : forall x y, x < nobj st2 -> y < nobj st2 -> fin3 x -> fin3 y ->
    okey (objs st2 x) = okey (objs st2 y) -> okey (objs st2 x) <> None -> x = y.

  Definition I3 (done : list nat) (s : sess) : Prop :=
    eoc s = eoc st2 /\ nobj s = nobj st2 /\ snew s = snew st2 /\ stack s = stack st2 /\
    handles s = handles st2 /\ committed s = committed st2 /\ work s = work st2 /\ saves s = saves st2 /\ nfid s = nfid st2 /\
    sdel s = filter (fun x => negb (mem x done)) (sdel st2) /\
    (forall x, objs s x = if mem x done then P3 x else objs st2 x).

  Lemma filter_remm : forall o done l,
    remm o (filter (fun x => negb (mem x done)) l) = filter (fun x => negb (mem x (done ++ [o]))) l.
  Proof.
    intros o done l. unfold remm. induction l as [|a l IH]; cbn; auto.
    rewrite mem_app. cbn. rewrite orb_false_r.
    destruct (mem a done) eqn:E1; cbn.
    - exact IH.
    - destruct (Nat.eqb_spec o a); destruct (Nat.eqb_spec a o); try congruence; cbn; rewrite IH; reflexivity.
  Qed.

  Lemma phase3_step : forall done o s, I3 done s -> mem o done = false -> In o todel -> incl done todel ->
    exists s', update_impl_revert o s = (Ok, s') /\ I3 (done ++ [o]) s'.
  Proof.
    intros done o s HI Hnd Hin Hincl.
    destruct HI as [A1 [A2 [A3 [A4 [A5 [A6 [A7 [A8 [A9 [A10 A11]]]]]]]]]].
    destruct (Hok o Hin) as [Hlt [Hk Ha]].
    assert (Oo : objs s o = objs st2 o). { rewrite A11, Hnd. reflexivity. }
    unfold update_impl_revert. rewrite Oo.
    destruct (okey (objs st2 o)) as [k|] eqn:Ek; [|congruence].
    rewrite Ha. rewrite andb_false_r. cbn [negb].
    set (s1 := set_sdel (mod_obj s o (fun ob => o_delf ob false)) (remm o (sdel (mod_obj s o (fun ob => o_delf ob false))))).
    assert (O1 : objs s1 o = o_delf (objs st2 o) false).
    { unfold s1. cbn [objs set_sdel]. rewrite objs_mod_same, Oo. reflexivity. }
    assert (O1' : forall x, x <> o -> objs s1 x = objs s x).
    { intros x Hx. unfold s1. cbn [objs set_sdel]. rewrite objs_mod_other; auto. }
    assert (Hnone : im_other s1 o = None).
    { destruct (im_other s1 o) as [o'|] eqn:Eo; auto. exfalso.
      destruct (im_other_some _ _ _ Eo) as [B1 [B2 [B3 [B4 B5]]]].
      rewrite O1' in B3, B4 by auto. rewrite O1 in B4. rewrite A11 in B3, B4.
      assert (Hn1 : nobj s1 = nobj st2) by (unfold s1; cbn; auto).
      assert (o' = o); [|congruence]. apply Hinj; try lia.
      - destruct (mem o' done) eqn:Ed.
        + right. apply Hincl. apply mem_In. auto.
        + left. exact B3.
      - right. auto.
      - destruct (mem o' done) eqn:Ed.
        + unfold P3 in B4. destruct (mem o' todel); cbn in B4; rewrite B4; reflexivity.
        + rewrite B4. reflexivity.
      - destruct (mem o' done) eqn:Ed.
        + unfold P3 in B4. destruct (mem o' todel); cbn in B4; rewrite B4; cbn; rewrite Ek; discriminate.
        + rewrite B4. cbn. rewrite Ek. discriminate. }
    eexists. split; [reflexivity|].
    unfold im_replace. fold s1. rewrite Hnone.
    repeat split; cbn; auto.
    - rewrite A10. apply filter_remm.
    - intros x. rewrite mem_app. cbn. rewrite orb_false_r.
      destruct (Nat.eqb_spec x o).
      + subst. rewrite orb_true_r. unfold mod_obj, set_obj. cbn. rewrite updN_same.
        change (updN (objs s) o (o_delf (objs s o) false) o) with (objs (mod_obj s o (fun ob => o_delf ob false)) o).
        rewrite objs_mod_same, Oo. unfold P3. apply mem_In in Hin. rewrite Hin. reflexivity.
      + rewrite orb_false_r. unfold mod_obj, set_obj. cbn. rewrite !updN_other by auto. apply A11.
  Qed.

  Lemma phase3_fold : forall todo done s, I3 done s -> NoDup (done ++ todo) -> incl (done ++ todo) todel ->
    exists s', foldM update_impl_revert todo s = (Ok, s') /\ I3 (done ++ todo) s'.
  Proof.
    induction todo as [|o todo IH]; intros done s HI Hnd Hincl; cbn [foldM].
    - exists s. rewrite app_nil_r. split; auto.
    - destruct (phase3_step done o s HI) as [s1 [E1 HI1]].
      + destruct (mem o done) eqn:Em; auto. apply mem_In in Em. exfalso.
        apply NoDup_remove_2 in Hnd. apply Hnd. apply in_or_app. auto.
      + apply Hincl. apply in_or_app. right. left. auto.
      + intros x Hx. apply Hincl. apply in_or_app. auto.
      + rewrite (bind_ok _ _ _ _ E1).
        replace (done ++ o :: todo) with ((done ++ [o]) ++ todo) by (rewrite <- app_assoc; reflexivity).
        apply IH; auto.
        * rewrite <- app_assoc. exact Hnd.
        * rewrite <- app_assoc. exact Hincl.
  Qed.

  Lemma phase3_char : NoDup todel ->
    exists s3, foldM update_impl_revert todel st2 = (Ok, s3) /\ I3 todel s3.
  Proof.
    intros Hnd. apply (phase3_fold todel [] st2); auto.
    - repeat split; auto. induction (sdel st2) as [|a l IHl]; cbn; auto. f_equal. exact IHl.
    - intros x Hx; auto.
  Qed.
End Phase3.
