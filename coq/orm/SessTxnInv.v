(* C33 - the invariant behind "the session agrees with the database" (guarded region).  Definitions and
   the elementary facts about them. *)
From Coq Require Import List ZArith Bool Arith Lia.
Import ListNotations.
From SAV.orm Require Import SessTxn SessTxnBase SessTxnSpec.
Open Scope nat_scope.

(* loaded / remembered attribute values of one object against the row (k, v) it is bound to *)
Definition VA (ob : obj) (k v : Z) : Prop :=
  (ocid ob = None -> odid ob = None \/ odid ob = Some k) /\
  (forall old, ocid ob = Some old -> old = k /\ odid ob <> None) /\
  (ocv ob = None -> odv ob = None \/ odv ob = Some v) /\
  (forall old, ocv ob = Some (Some old) -> old = v) /\
  (ocv ob <> None -> odv ob <> None) /\
  (omod ob = false -> ocid ob = None /\ ocv ob = None).

(* objects [ob] (the first [n] are in use) against the table [W], with pending list [sn] and
   marked-for-deletion list [sd] *)
Record Good (ob : nat -> obj) (n : nat) (W : tbl) (sn sd : list nat) : Prop := mkGood {
  g_in : forall o, oin (ob o) = true ->
           o < n /\ oatt (ob o) = true /\ odelf (ob o) = false /\ okey (ob o) <> None;
  g_uniq : forall o1 o2 k, oin (ob o1) = true -> oin (ob o2) = true ->
           okey (ob o1) = Some k -> okey (ob o2) = Some k -> o1 = o2;
  g_pers : forall o k, o < n -> okey (ob o) = Some k -> oatt (ob o) = true -> odelf (ob o) = false ->
           oin (ob o) = true;
  g_rows : forall o k, oin (ob o) = true -> okey (ob o) = Some k -> exists v, W k = Some v /\ VA (ob o) k v;
  g_new : forall o, In o sn <-> (o < n /\ okey (ob o) = None /\ oatt (ob o) = true);
  g_newd : forall o, o < n -> okey (ob o) = None -> odelf (ob o) = false;    (* a keyless object is not "deleted" *)
  g_del : forall o, In o sd -> oin (ob o) = true;
  g_nodup : NoDup sn /\ NoDup sd;
  g_dels : forall o k, o < n -> okey (ob o) = Some k -> oatt (ob o) = true -> odelf (ob o) = true ->
           W k = None \/ exists o', oin (ob o') = true /\ okey (ob o') = Some k;
  (* an object in the deleted state was loaded when its DELETE was emitted *)
  g_delv : forall o, o < n -> okey (ob o) <> None -> oatt (ob o) = true -> odelf (ob o) = true ->
           odv (ob o) <> None /\ odid (ob o) <> None
}.

Definition GoodS (st : sess) : Prop := Good (objs st) (nobj st) (work st) (snew st) (sdel st).

(* [agrees] (the boolean of the theorem statement) follows from Good *)
Lemma loaded_is_opt : forall x v, (x = None \/ x = Some v) -> loaded_is x v = true.
Proof. intros x v [H|H]; subst; cbn; auto. apply Z.eqb_refl. Qed.

Lemma Good_agrees : forall st, GoodS st -> agrees st = true.
Proof.
  intros st G. unfold agrees. apply forallb_forall. intros o Ho.
  apply in_seq in Ho. cbn in Ho. destruct Ho as [_ Ho].
  unfold obj_agrees. destruct (okey (objs st o)) as [k|] eqn:Ek; auto.
  destruct (oatt (objs st o)) eqn:Ea; cbn; auto.
  destruct (odelf (objs st o)) eqn:Ed.
  - destruct (work st k) eqn:Ew; auto.
    destruct (g_dels _ _ _ _ _ G o k Ho Ek Ea Ed) as [H|[o' [H1 H2]]]; [congruence|].
    apply existsb_exists. exists o'.
    destruct (g_in _ _ _ _ _ G o' H1) as [A [B [C D]]]. split.
    + apply in_seq. cbn. lia.
    + assert (o' <> o). { intros X; subst. congruence. }
      destruct (Nat.eqb_spec o' o); [congruence|]. cbn.
      unfold is_persistent, key_is. rewrite H2, B, C. cbn. apply Z.eqb_refl.
  - pose proof (g_pers _ _ _ _ _ G o k Ho Ek Ea Ed) as Hin.
    destruct (g_rows _ _ _ _ _ G o k Hin Ek) as [v [Hw Hva]]. rewrite Hw.
    destruct (omod (objs st o)) eqn:Em; cbn; auto.
    destruct Hva as [V1 [V2 [V3 [V4 [V5 V6]]]]]. destruct (V6 Em) as [C1 C2].
    rewrite (loaded_is_opt _ _ (V1 C1)), (loaded_is_opt _ _ (V3 C2)). reflexivity.
Qed.

(* every object: a value that is not loaded has no remembered original either *)
Definition J (ob : nat -> obj) (n : nat) : Prop :=
  forall o, o < n ->
    (odv (ob o) = None -> odid (ob o) = None) /\ (ocid (ob o) <> None -> odid (ob o) <> None) /\
    (omod (ob o) = false -> ocid (ob o) = None /\ ocv (ob o) = None).

(* ------------------------------------------------------------------ snapshots *)
(* what a frame would restore: the objects and the table at the moment the frame began (ghost state) *)
Record ghost := mkGhost { gobjs : nat -> obj; gn : nat; gW : tbl }.

(* the state at the beginning of a frame is clean *)
Definition GClean (g : ghost) : Prop :=
  Good (gobjs g) (gn g) (gW g) [] [] /\
  (forall o, oin (gobjs g o) = true -> omod (gobjs g o) = false).

(* the identity a restore of frame [f] gives object [o] *)
Definition pkey (f : frame) (ob : nat -> obj) (o : nat) : option Z :=
  match ks_find o (fks f) with Some (old, _) => Some old | None => okey (ob o) end.
Definition pdelf (f : frame) (ob : nat -> obj) (sd : list nat) (o : nat) : bool :=
  if mem o (fdel f) || mem o sd then false else odelf (ob o).
Definition expunged (f : frame) (sn : list nat) (o : nat) : bool := mem o (fnew f) || mem o sn.

(* frame [f] with snapshot [g] against the "current" objects [ob] (first [n] in use), pending list [sn],
   marked-for-deletion list [sd] and table [W] *)
Record Rel (g : ghost) (f : frame) (ob : nat -> obj) (n : nat) (sn sd : list nat) (W : tbl) : Prop := mkRel {
  r_n : gn g <= n;
  r_exp : forall o, o < gn g -> expunged f sn o = true -> oatt (gobjs g o) = false;
  (* objects unattached then and now carry no obligation (the session does not know them) *)
  r_id : forall o, o < gn g -> expunged f sn o = false ->
            oatt (ob o) = oatt (gobjs g o) /\
            (oatt (gobjs g o) = true -> pkey f ob o = okey (gobjs g o) /\ pdelf f ob sd o = odelf (gobjs g o));
  r_fresh : forall o, gn g <= o -> o < n -> expunged f sn o = true \/ (oatt (ob o) = false /\ oin (ob o) = false);
  (* rows of objects the frame did not write are the rows of the snapshot *)
  r_row : forall o k, o < gn g -> expunged f sn o = false -> oin (gobjs g o) = true ->
            mem o (fdirty f) = false -> mem o (fdel f) = false -> okey (gobjs g o) = Some k -> W k = gW g k;
  (* objects deleted inside the frame keep the values they had *)
  r_delv : forall o k v, o < gn g -> expunged f sn o = false -> mem o (fdel f) = true ->
            mem o (fdirty f) = false -> omod (ob o) = false -> okey (gobjs g o) = Some k -> gW g k = Some v ->
            (odid (ob o) = None \/ odid (ob o) = Some k) /\ (odv (ob o) = None \/ odv (ob o) = Some v);
  r_ks : forall o old new, ks_find o (fks f) = Some (old, new) ->
            o < n /\ okey (ob o) = Some new /\ oatt (ob o) = true /\ (mem o (fnew f) = true \/ mem o (fdirty f) = true);
  r_del : forall o, mem o (fdel f) = true ->
            o < n /\ oin (ob o) = false /\ odelf (ob o) = true /\ oatt (ob o) = true /\ okey (ob o) <> None;
  r_lists : forall o, (mem o (fnew f) = true \/ mem o (fdirty f) = true) -> o < n;
  r_ksu : NoDup (map fst (fks f));
  (* what was flushed as dirty was in the identity map when the frame began, or is new in the frame *)
  r_dirty : forall o, mem o (fdirty f) = true -> mem o (fnew f) = true \/ (o < gn g /\ oin (gobjs g o) = true);
  (* objects in the deleted state when the frame began are only ever changed by attribute assignments,
     which mark them modified *)
  r_keep : forall o, o < gn g -> oatt (gobjs g o) = true -> oin (gobjs g o) = false -> omod (ob o) = false ->
            odid (ob o) = odid (gobjs g o) /\ odv (ob o) = odv (gobjs g o) /\ omod (gobjs g o) = false
}.

(* the state right after a restore of the frame whose snapshot is [g]: identities are those of the
   snapshot, loaded values are those of the snapshot or expired, nothing is modified *)
Record Approx (g : ghost) (ob : nat -> obj) (n : nat) : Prop := mkApprox {
  a_n : gn g <= n;
  a_id : forall o, o < gn g ->
           oatt (ob o) = oatt (gobjs g o) /\ oin (ob o) = oin (gobjs g o) /\
           (oatt (gobjs g o) = true -> okey (ob o) = okey (gobjs g o) /\ odelf (ob o) = odelf (gobjs g o));
  a_fresh : forall o, gn g <= o -> o < n -> oatt (ob o) = false /\ oin (ob o) = false;
  a_clean : forall o, oin (ob o) = true -> omod (ob o) = false;
  a_keep : forall o, o < gn g -> oatt (gobjs g o) = true -> oin (gobjs g o) = false -> omod (ob o) = false ->
            odid (ob o) = odid (gobjs g o) /\ odv (ob o) = odv (gobjs g o) /\ omod (gobjs g o) = false
}.

(* ------------------------------------------------------------------ the database side *)
(* [T] is the table "inside" the frame: the working table for the innermost frame, the snapshot of the
   next inner frame otherwise.  A frame without a connection has not seen a statement since it began. *)
Definition live_conn (f : frame) : bool := fconn f && fnested f && live_state (fstate f).
(* the savepoints the database holds: one per nested frame that has a connection and was not rolled back *)
Fixpoint entries (fs : list frame) (gs : list ghost) : list (nat * tbl) :=
  match fs, gs with
  | f :: fs', g :: gs' => if live_conn f then (fid f, gW g) :: entries fs' gs' else entries fs' gs'
  | _, _ => []
  end.
Fixpoint SnapOk (fs : list frame) (gs : list ghost) (T : tbl) (cm : tbl) : Prop :=
  match fs, gs with
  | [], [] => True
  | f :: fs', g :: gs' =>
      (if fconn f then (if fnested f then True else cm = gW g) else gW g = T) /\ SnapOk fs' gs' (gW g) cm
  | _, _ => False
  end.
Definition SavesOk (fs : list frame) (gs : list ghost) (T : tbl) (cm : tbl) (sv : list (nat * tbl)) : Prop :=
  sv = entries fs gs /\ SnapOk fs gs T cm.

(* frames: ids strictly decreasing outwards and below the counter, savepoint ids below the counter;
   only the innermost frame may be DEACTIVE, the others are ACTIVE; a frame with a connection has
   parents with connections; the outermost frame is the only one that is not nested *)
Fixpoint FramesOk (b : nat) (fs : list frame) : Prop :=
  match fs with
  | [] => True
  | f :: r => fid f < b /\ FramesOk (fid f) r /\
              (fnested f = true <-> r <> []) /\
              (fconn f = true -> forall f', In f' r -> fconn f' = true) /\
              (forall f', In f' r -> fstate f' = ACTIVE)
  end.
Definition head_ok (fs : list frame) : Prop :=
  match fs with [] => True | f :: _ => fstate f = ACTIVE \/ fstate f = DEACTIVE end.

(* the chain of snapshots: the innermost frame against the current state, every other frame against the
   snapshot of the next inner one *)
Fixpoint ChainG (gi : ghost) (fs : list frame) (gs : list ghost) : Prop :=
  match fs, gs with
  | [], [] => True
  | f :: fs', g :: gs' => GClean g /\ Rel g f (gobjs gi) (gn gi) [] [] (gW gi) /\ ChainG g fs' gs'
  | _, _ => False
  end.
Definition Chain (st : sess) (gs : list ghost) : Prop :=
  match stack st, gs with
  | [], [] => True
  | f :: fs', g :: gs' =>
      GClean g /\
      (match fstate f with
       | ACTIVE => Rel g f (objs st) (nobj st) (snew st) (sdel st) (work st)
       | _ => Approx g (objs st) (nobj st) /\ snew st = [] /\ sdel st = [] /\ work st = gW g
       end) /\ ChainG g fs' gs'
  | _, _ => False
  end.

