(* C51 - pickling and serializer round trips: the SQLAlchemy-specific codecs as executable models.
   (PARTIAL by design: the pickle machinery itself and class lookup by name are CPython's; they enter
   as Section variables with the hypothesis unpickle (pickle x) = x on plain data.)

   1. InstanceState.__getstate__/__setstate__  (orm/state.py): a dict codec driven by two KEY TABLES
      (which keys are written and when; which are read and how).  The tables of the real methods are
      extracted from their AST on every run (translate -> gen file) and must satisfy [codec_ok].
   2. PathRegistry.serialize/deserialize       (orm/path_registry.py)
   3. Row.__reduce__ / CursorResultMetaData.__getstate__, SimpleResultMetaData, FrozenResult
   4. ext.serializer persistent ids            (ext/serializer.py) over statement trees *)
From Coq Require Import List ZArith Bool String.
Import ListNotations.
Open Scope Z_scope.

(* ================= 2. load paths ================= *)
Inductive pelem := PMapper (c : Z) | PAlias (c : Z) | PProp (k : Z).
Definition path := list pelem.
Definition spath := list (Z * option Z).     (* [(class, property key or None)] *)

Definition cls_of (e : pelem) : Z := match e with PMapper c | PAlias c => c | PProp k => k end.
Fixpoint evens {A} (l : list A) : list A :=
  match l with [] => [] | [x] => [x] | x :: _ :: r => x :: evens r end.
Definition odds {A} (l : list A) : list A := match l with [] => [] | _ :: r => evens r end.

(* _serialize_path: zip(classes of the even positions, keys of the odd positions + (None,)) *)
Definition serialize (p : path) : spath :=
  combine (map cls_of (evens p)) (map (fun e => Some (cls_of e)) (odds p) ++ [None]).

(* _deserialize_path: chain of (mapper of class, property of that mapper | None), trailing None removed *)
Fixpoint chain (sp : spath) : list (option pelem) :=
  match sp with
  | [] => []
  | (c, Some k) :: r => Some (PMapper c) :: Some (PProp k) :: chain r
  | (c, None) :: r => Some (PMapper c) :: None :: chain r
  end.
Definition strip_last_none (l : list (option pelem)) : list (option pelem) :=
  match rev l with None :: r => rev r | _ => l end.
Definition deserialize (sp : spath) : option path :=
  fold_right (fun o acc => match o, acc with Some e, Some a => Some (e :: a) | _, _ => None end)
             (Some []) (strip_last_none (chain sp)).

Definition erase (e : pelem) : pelem := match e with PAlias c => PMapper c | x => x end.
Fixpoint wf_path_from (mapper_pos : bool) (p : path) : bool :=
  match p with
  | [] => true
  | PProp _ :: r => negb mapper_pos && wf_path_from true r
  | _ :: r => mapper_pos && wf_path_from false r
  end.
Definition wf_path (p : path) : bool := wf_path_from true p.
Definition alias_free (p : path) : bool :=
  forallb (fun e => match e with PAlias _ => false | _ => true end) p.

(* ================= 1. instance state ================= *)
Inductive sval :=
| Opaque (z : Z)                 (* any plain value, by canonical code (the harness hashes its repr) *)
| VPath (p : path)               (* a PathRegistry *)
| VSer (sp : spath).             (* its serialized form *)

Definition sval_eqb_opaque (a : sval) (z : Z) : bool := match a with Opaque y => y =? z | _ => false end.

Definition key := string.
Definition dict := list (key * sval).       (* latest binding first *)
Fixpoint lookup (k : key) (d : dict) : option sval :=
  match d with [] => None | (k', v) :: r => if String.eqb k k' then Some v else lookup k r end.

(* canonical codes of the defaults *)
Definition c_none : Z := 0.
Definition c_empty_dict : Z := 1.
Definition c_false : Z := 2.
Definition c_empty_set : Z := 3.
Definition c_empty_tuple : Z := 4.

(* value of getattr(state, k) when k is not in the instance's own attributes *)
Definition class_default (k : key) : sval :=
  if String.eqb k "load_path" then VPath []
  else if String.eqb k "modified" || String.eqb k "expired" then Opaque c_false
  else if String.eqb k "_pending_mutations" || String.eqb k "parents" || String.eqb k "info"
          || String.eqb k "callables" || String.eqb k "committed_state" then Opaque c_empty_dict
  else if String.eqb k "load_options" then Opaque c_empty_tuple
  else if String.eqb k "expired_attributes" then Opaque c_empty_set
  else Opaque c_none.

Definition getattr (s : dict) (k : key) : sval :=
  match lookup k s with Some v => v | None => class_default k end.

Inductive wmode := WAlways | WIfSet | WIfTruthy.
Inductive rmode := RRequired | RGet (dflt : Z) | RIfPresent.
Definition wtable := list (key * wmode).
Definition rtable := list (key * rmode).

(* the value transformations on the way out / in: only load_path has one *)
Definition enc (v : sval) : sval := match v with VPath p => VSer (serialize p) | x => x end.
Definition dec (v : sval) : option sval :=
  match v with
  | VSer sp => match deserialize sp with Some p => Some (VPath p) | None => None end
  | x => Some x
  end.
Definition norm (v : sval) : sval := match v with VPath p => VPath (map erase p) | x => x end.
Definition falsy (v : sval) : bool := match v with VPath [] => true | _ => false end.

Definition fires (s : dict) (k : key) (m : wmode) : bool :=
  match m with
  | WAlways => true
  | WIfSet => match lookup k s with Some _ => true | None => false end
  | WIfTruthy => negb (falsy (getattr s k))
  end.

(* __getstate__ : entries in table order, later ones override *)
Fixpoint getstate_from (w : wtable) (s : dict) (acc : dict) : dict :=
  match w with
  | [] => acc
  | (k, m) :: r => getstate_from r s (if fires s k m then (k, enc (getattr s k)) :: acc else acc)
  end.
Definition getstate (w : wtable) (s : dict) : dict := getstate_from w s [].

(* __setstate__ on a fresh state object; None = an exception (KeyError / undecodable path) *)
Fixpoint setstate_from (r : rtable) (d : dict) (acc : dict) : option dict :=
  match r with
  | [] => Some acc
  | (k, m) :: r' =>
      match m, lookup k d with
      | RRequired, None => None
      | RGet z, None => setstate_from r' d ((k, Opaque z) :: acc)
      | RIfPresent, None => setstate_from r' d acc
      | _, Some v => match dec v with Some v' => setstate_from r' d ((k, v') :: acc) | None => None end
      end
  end.
(* "if self.key: self.identity_token = self.key[2]": the harness encodes key[2] under "key_token" *)
Definition setstate (r : rtable) (d : dict) : option dict := setstate_from r d [].

Definition wkeys (w : wtable) : list key := map fst w.
Definition rkeys (r : rtable) : list key := map fst r.
Definition mem (k : key) (l : list key) : bool := existsb (String.eqb k) l.
Fixpoint nodup_keys (l : list key) : bool :=
  match l with [] => true | k :: r => negb (mem k r) && nodup_keys r end.
Definition always_written (w : wtable) (k : key) : bool :=
  existsb (fun e => String.eqb k (fst e) && match snd e with WAlways => true | _ => false end) w.
Definition only_truthy_for (w : wtable) (k : key) : bool :=
  forallb (fun e => negb (String.eqb k (fst e)) || match snd e with WIfTruthy => true | _ => false end) w.

(* the side condition on the two tables: every key written is read back and vice versa, a key read
   without a fallback is always written, and a fallback equals what the attribute would have been *)
Definition truthy_ok (w : wtable) : bool :=
  forallb (fun e => match snd e with WIfTruthy => falsy (class_default (fst e)) | _ => true end) w.
Definition codec_ok (w : wtable) (r : rtable) : bool :=
  nodup_keys (rkeys r) && truthy_ok w &&
  forallb (fun k => mem k (rkeys r)) (wkeys w) &&
  forallb (fun k => mem k (wkeys w)) (rkeys r) &&
  forallb (fun e => match snd e with
                    | RRequired => always_written w (fst e)
                    | RGet z => negb (existsb (fun e' => String.eqb (fst e) (fst e') &&
                                                         match snd e' with WIfTruthy => true | _ => false end) w)
                                && match class_default (fst e) with Opaque y => y =? z | _ => false end
                    | RIfPresent => true
                    end) r.

(* the tables of the modelled source (compared with the generated ones on every run) *)
Definition model_writes : wtable :=
  [("instance", WAlways); ("class_", WAlways); ("committed_state", WAlways); ("expired_attributes", WAlways);
   ("_pending_mutations", WIfSet); ("modified", WIfSet); ("expired", WIfSet); ("callables", WIfSet);
   ("key", WIfSet); ("parents", WIfSet); ("load_options", WIfSet); ("class_", WIfSet);
   ("expired_attributes", WIfSet); ("info", WIfSet); ("load_path", WIfTruthy); ("manager", WAlways)]%string.
Definition model_reads : rtable :=
  [("instance", RRequired); ("class_", RRequired); ("committed_state", RGet c_empty_dict);
   ("_pending_mutations", RGet c_empty_dict); ("parents", RGet c_empty_dict); ("modified", RGet c_false);
   ("expired", RGet c_false); ("info", RIfPresent); ("callables", RIfPresent);
   ("expired_attributes", RIfPresent); ("key", RIfPresent); ("load_options", RIfPresent);
   ("load_path", RIfPresent); ("manager", RRequired)]%string.

(* ================= 3. rows and frozen results ================= *)
Inductive rkey := KStr (z : Z) | KInt (z : Z) | KObj (z : Z).     (* str / int / Column or other object *)
Definition rkey_eqb (a b : rkey) : bool :=
  match a, b with
  | KStr x, KStr y | KInt x, KInt y | KObj x, KObj y => x =? y
  | _, _ => false
  end.
Record rowmd := mkMd { md_keys : list Z; md_keymap : list (rkey * nat) }.
Record row := mkRow { row_md : rowmd; row_data : list Z }.

Definition picklable_key (k : rkey) : bool := match k with KObj _ => false | _ => true end.
(* CursorResultMetaData.__getstate__ / __setstate__ *)
Definition md_roundtrip (m : rowmd) : rowmd :=
  mkMd (md_keys m) (filter (fun e => picklable_key (fst e)) (md_keymap m)).
(* Row.__reduce__ -> rowproxy_reconstructor(cls, {"_parent", "_data"}) *)
Definition row_roundtrip (r : row) : row := mkRow (md_roundtrip (row_md r)) (row_data r).

Fixpoint md_index (k : rkey) (km : list (rkey * nat)) : option nat :=
  match km with [] => None | (k', i) :: r => if rkey_eqb k k' then Some i else md_index k r end.
(* row._mapping[k] : None = KeyError / NoSuchColumnError *)
Definition row_get (r : row) (k : rkey) : option Z :=
  match md_index k (md_keymap (row_md r)) with Some i => nth_error (row_data r) i | None => None end.

Record frozen := mkFrozen { fr_md : rowmd; fr_scalars : bool; fr_data : list (list Z) }.
(* SimpleResultMetaData.__getstate__ keeps "_keys" and, per column, the extra lookup keys that are
   STRINGS (Column.key, table-qualified label); __setstate__ rebuilds the keymap from them: restricted
   to string keys the keymap is the one the frozen metadata had, every other key (Column objects) is gone.
   (The keymap handed to the model always contains the result keys themselves.) *)
Definition str_key (k : rkey) : bool := match k with KStr _ => true | _ => false end.
Definition simple_md_roundtrip (m : rowmd) : rowmd :=
  mkMd (md_keys m) (filter (fun e => str_key (fst e)) (md_keymap m)).
Definition frozen_roundtrip (f : frozen) : frozen :=
  mkFrozen (simple_md_roundtrip (fr_md f)) (fr_scalars f) (fr_data f).
(* FrozenResult.__call__().all() and .keys() *)
Definition thaw (f : frozen) : list Z * list (list Z) := (md_keys (fr_md f), fr_data f).
(* position a lookup key resolves to in the rows of the thawed result *)
Definition frozen_index (f : frozen) (k : rkey) : option nat := md_index k (md_keymap (fr_md f)).

(* ================= 4. ext.serializer ================= *)
Definition str := list Z.                          (* code points *)
Definition colon : Z := 58.
Definition newline : Z := 10.
Fixpoint str_eqb (a b : str) : bool :=
  match a, b with [] , [] => true | x :: a', y :: b' => (x =? y) && str_eqb a' b' | _, _ => false end.

Inductive leaf :=
| LTable (t : str)                 (* Table *)
| LColumn (t c : str)              (* Column attached to a Table *)
| LMapper (cls : Z)
| LProp (cls : Z) (k : str)        (* MapperProperty *)
| LSelectable (cls : Z).           (* Table annotated with its parent entity *)
Inductive stmt := SLeaf (l : leaf) | SNode (tag : Z) (ch : list stmt).

Definition s_table : str := [116; 97; 98; 108; 101].                       (* "table" *)
Definition s_column : str := [99; 111; 108; 117; 109; 110].                (* "column" *)
Definition s_mapper : str := [109; 97; 112; 112; 101; 114].                (* "mapper" *)
Definition s_mapperprop : str := s_mapper ++ [112; 114; 111; 112].         (* "mapperprop" *)
Definition s_mapper_selectable : str :=
  s_mapper ++ [95; 115; 101; 108; 101; 99; 116; 97; 98; 108; 101].          (* "mapper_selectable" *)

(* split at every occurrence of [c] (str.split) *)
Fixpoint split_on (c : Z) (s : str) : list str :=
  match s with
  | [] => [[]]
  | x :: r => if x =? c then [] :: split_on c r
              else match split_on c r with [] => [[x]] | h :: t => (x :: h) :: t end
  end.
(* the text before the first occurrence of c *)
Fixpoint upto (c : Z) (s : str) : str :=
  match s with [] => [] | x :: r => if x =? c then [] else x :: upto c r end.
Fixpoint after_first (c : Z) (s : str) : option str :=
  match s with [] => None | x :: r => if x =? c then Some r else after_first c r end.

Inductive lerr := ENoMatch | EUnpack | EKey.    (* returns None / ValueError / KeyError *)
Inductive lres (A : Type) := LOk (a : A) | LErr (e : lerr).
Arguments LOk {A} a.
Arguments LErr {A} e.

Section Serializer.
  Variable b64 : Z -> str.                (* b64encode(pickle.dumps(cls)) *)
  Variable unb64 : str -> option Z.       (* pickle.loads(b64decode(.)) *)
  Variable tables : list (str * list str).      (* metadata.tables: key -> column keys *)
  Variable props : Z -> list str.               (* class_mapper(cls).attrs keys *)

  (* Serializer.persistent_id *)
  Definition id_of (l : leaf) : str :=
    match l with
    | LTable t => s_table ++ colon :: t
    | LColumn t c => s_column ++ colon :: t ++ colon :: c
    | LMapper cls => s_mapper ++ colon :: b64 cls
    | LProp cls k => s_mapperprop ++ colon :: b64 cls ++ colon :: k
    | LSelectable cls => s_mapper_selectable ++ colon :: b64 cls
    end.

  Fixpoint find_table (t : str) (l : list (str * list str)) : option (list str) :=
    match l with [] => None | (k, cs) :: r => if str_eqb t k then Some cs else find_table t r end.
  Definition has_str (s : str) (l : list str) : bool := existsb (str_eqb s) l.

  (* Deserializer.persistent_load *)
  Definition load_id (id : str) : lres leaf :=
    match after_first colon id with
    | None => LErr ENoMatch
    | Some rest =>
        let ty := upto colon id in
        let args := rest in
        if str_eqb ty s_table then
          match find_table args tables with Some _ => LOk (LTable args) | None => LErr EKey end
        else if str_eqb ty s_column then
          match split_on colon args with
          | [t; c] => match find_table t tables with
                      | Some cs => if has_str c cs then LOk (LColumn t c) else LErr EKey
                      | None => LErr EKey
                      end
          | _ => LErr EUnpack
          end
        else if str_eqb ty s_mapper then
          match unb64 args with Some cls => LOk (LMapper cls) | None => LErr EKey end
        else if str_eqb ty s_mapperprop then
          match split_on colon args with
          | [m; k] => match unb64 m with
                      | Some cls => if has_str k (props cls) then LOk (LProp cls k) else LErr EKey
                      | None => LErr EKey
                      end
          | _ => LErr EUnpack
          end
        else if str_eqb ty s_mapper_selectable then
          match unb64 args with Some cls => LOk (LSelectable cls) | None => LErr EKey end
        else LErr ENoMatch
    end.

  (* dumps / loads over a statement: every persistent object becomes its id and is resolved again *)
  Inductive dumped := DId (id : str) | DNode (tag : Z) (ch : list dumped).
  Fixpoint dumps (s : stmt) : dumped :=
    match s with SLeaf l => DId (id_of l) | SNode t ch => DNode t (map dumps ch) end.
  Fixpoint loads (d : dumped) : lres stmt :=
    match d with
    | DId id => match load_id id with LOk l => LOk (SLeaf l) | LErr e => LErr e end
    | DNode t ch =>
        match (fix go (l : list dumped) : lres (list stmt) :=
                 match l with
                 | [] => LOk []
                 | x :: r => match loads x, go r with
                             | LOk a, LOk b => LOk (a :: b)
                             | LErr e, _ => LErr e
                             | _, LErr e => LErr e
                             end
                 end) ch with
        | LOk l => LOk (SNode t l)
        | LErr e => LErr e
        end
    end.

  Definition no_colon (s : str) : bool := forallb (fun x => negb (x =? colon)) s.
  (* the persistent object exists in the target environment and its names survive the id syntax
     (the id is split on ':'; since the regex is compiled with DOTALL newlines are harmless) *)
  Definition leaf_ok (l : leaf) : bool :=
    match l with
    | LTable t => match find_table t tables with Some _ => true | None => false end
    | LColumn t c => no_colon t && no_colon c &&
                     match find_table t tables with Some cs => has_str c cs | None => false end
    | LMapper _ | LSelectable _ => true
    | LProp cls k => no_colon k && has_str k (props cls)
    end.
  Fixpoint stmt_ok (s : stmt) : bool :=
    match s with SLeaf l => leaf_ok l | SNode _ ch => forallb stmt_ok ch end.
End Serializer.
