(* C43, 'fetch': the keys read from RETURNING are the identity keys (mapper order) of exactly the selected rows,
   for every order of the mapper's primary key; hence the synchronised objects are the updated rows. *)
From Coq Require Import List ZArith NArith Bool Lia.
Import ListNotations.
From SAV.sql Require Import Val3 Val3Proofs InList.
From SAV.orm Require Import Evaluator EvaluatorProofs EvaluatorSyncProofs FetchSync.

Lemma rr_lookup_returning m r c : In c m.(tpk) -> rr_lookup c (returning_row m r) = Some (r c).
Proof.
  unfold rr_lookup, returning_row. induction (tpk m) as [|c0 l IH]; intros H; [destruct H|].
  cbn [map find fst]. destruct (Nat.eqb c0 c) eqn:E.
  - apply Nat.eqb_eq in E. now subst.
  - destruct H as [H|H]; [subst; rewrite Nat.eqb_refl in E; discriminate|]. now apply IH.
Qed.

Lemma tuple_getter_returning m r cols : incl cols m.(tpk) ->
  tuple_getter cols (returning_row m r) = Some (map r cols).
Proof.
  unfold tuple_getter. induction cols as [|c cols IH]; intros H; [reflexivity|].
  cbn [map opt_all]. rewrite (rr_lookup_returning m r c) by (apply H; now left).
  rewrite IH by (intros x Hx; apply H; now right). reflexivity.
Qed.

(* every column of the identity key is a primary key column of the table: any order, any subset *)
Theorem interpret_returning_rows_mapper_order m rows :
  m.(sub_table) = false -> incl m.(mpk) m.(tpk) ->
  interpret_returning_rows m (map (returning_row m) rows) = map (identity_of m) rows.
Proof.
  intros Hs Hi. unfold interpret_returning_rows. rewrite Hs.
  replace (opt_all (map (tuple_getter (mpk m)) (map (returning_row m) rows))) with (Some (map (identity_of m) rows)); [reflexivity|].
  induction rows as [|r rows IH]; [reflexivity|].
  cbn [map opt_all]. rewrite (tuple_getter_returning m r (mpk m) Hi). now rewrite <- IH.
Qed.

Theorem fetch_keys_correct m ur crit db : m.(sub_table) = false -> incl m.(mpk) m.(tpk) ->
  fetch_keys m ur crit db = map (identity_of m) (filter (selected crit) db).
Proof.
  intros Hs Hi. unfold fetch_keys. destruct ur; [|reflexivity].
  now apply interpret_returning_rows_mapper_order.
Qed.

Lemma sv_eqb_refl v : sv_eqb v v = true.
Proof. destruct v; cbn [sv_eqb]; [reflexivity|apply Z.eqb_refl|apply text_eqb_refl]. Qed.
Lemma sv_eqb_eq a b : sv_eqb a b = true -> a = b.
Proof.
  destruct a, b; cbn [sv_eqb]; intros H; try discriminate; try reflexivity.
  - apply Z.eqb_eq in H. now subst.
  - apply text_eqb_eq in H. now subst.
Qed.
Lemma svl_eqb_refl l : svl_eqb l l = true.
Proof. induction l; cbn [svl_eqb]; [reflexivity|]. now rewrite sv_eqb_refl, IHl. Qed.
Lemma svl_eqb_eq a b : svl_eqb a b = true -> a = b.
Proof.
  revert b. induction a as [|x a IH]; intros [|y b] H; try discriminate; [reflexivity|].
  cbn [svl_eqb] in H. apply andb_true_iff in H as [H1 H2]. apply sv_eqb_eq in H1. apply IH in H2. now subst.
Qed.

Lemma sem_ext r r2 : (forall c, r c = r2 c) -> forall e, sem e r = sem e r2.
Proof.
  intros Heq. apply (ex_ind' (fun e => sem e r = sem e r2)).
  - intros c. cbn [sem]. apply Heq.
  - reflexivity.
  - reflexivity.
  - reflexivity.
  - reflexivity.
  - intros o a b Ha Hb. cbn [sem]. now rewrite Ha, Hb.
  - intros n a vs Ha. cbn [sem]. now rewrite Ha.
  - intros es H. rewrite !sem_and. f_equal. induction H as [|x es Hx H IH]; [reflexivity|]. cbn [and_sem]. now rewrite Hx, IH.
  - intros es H. rewrite !sem_or. f_equal. induction H as [|x es Hx H IH]; [reflexivity|]. cbn [or_sem]. now rewrite Hx, IH.
  - intros e He. cbn [sem]. now rewrite He.
  - intros e He. cbn [sem]. exact He.
  - reflexivity.
Qed.

(* rows of one table have distinct identity keys *)
Definition keys_distinct (m : mapping) (db : list row) : Prop :=
  forall r1 r2, In r1 db -> In r2 db -> identity_of m r1 = identity_of m r2 -> (forall c, r1 c = r2 c).

Theorem in_keys_iff_selected m ur crit db r :
  m.(sub_table) = false -> incl m.(mpk) m.(tpk) -> keys_distinct m db -> In r db ->
  in_keys m (fetch_keys m ur crit db) r = selected crit r.
Proof.
  intros Hs Hi Hd Hr. rewrite (fetch_keys_correct m ur crit db Hs Hi). unfold in_keys.
  destruct (selected crit r) eqn:E.
  - apply existsb_exists. exists (identity_of m r). split; [|apply svl_eqb_refl].
    apply in_map. apply filter_In. now split.
  - apply not_true_is_false. intros H. destruct (proj1 (existsb_exists _ _) H) as (k & Hk & He).
    apply svl_eqb_eq in He. apply in_map_iff in Hk as (r2 & Hk2 & Hr2). subst k. destruct (proj1 (filter_In _ _ _) Hr2) as [Hr2' Hs2].
    pose proof (Hd r r2 Hr Hr2' He) as Heq.
    assert (selected crit r = selected crit r2).
    { unfold selected. now rewrite (sem_ext r r2 Heq crit). }
    congruence.
Qed.

(* UPDATE with 'fetch': for ANY criterion the database can evaluate, the object agrees with its row afterwards
   (only the SET expressions are evaluated in Python) *)
Theorem fetch_update_in_sync sc m ur crit sets db r :
  m.(sub_table) = false -> incl m.(mpk) m.(tpk) -> keys_distinct m db -> In r db ->
  row_ok sc r -> targets_distinct sets = true -> forallb (set_ok sc r) sets = true ->
  exists o', fetch_update_obj sc m (fetch_keys m ur crit db) sets r = OOk o' /\
             forall c, o' c = obj_of (update_row crit sets r) c.
Proof.
  intros Hs Hi Hd Hr Hrow Ht Hok. unfold fetch_update_obj.
  rewrite (in_keys_iff_selected m ur crit db r Hs Hi Hd Hr). rewrite update_row_upd.
  destruct (selected crit r).
  - destruct (apply_sets_ok sc r sets Hrow Ht Hok) as (o' & Ho' & Hfin).
    exists o'. split; [exact Ho'|]. intros c. now rewrite (Hfin c).
  - exists (obj_of r). split; reflexivity.
Qed.

Theorem fetch_delete_in_sync m ur crit db r :
  m.(sub_table) = false -> incl m.(mpk) m.(tpk) -> keys_distinct m db -> In r db ->
  fetch_delete_obj m (fetch_keys m ur crit db) r = if delete_row crit r then DRemoved else DKeep (obj_of r).
Proof.
  intros Hs Hi Hd Hr. unfold fetch_delete_obj, delete_row.
  now rewrite (in_keys_iff_selected m ur crit db r Hs Hi Hd Hr).
Qed.

(* why the order matters: reading the RETURNING row in TABLE order for a mapper whose identity key is
   (u, g) on a table whose primary key is (g, u) yields the mirrored key - another object's identity *)
Example table_order_is_not_identity_order :
  let m := {| tpk := [0%nat; 1%nat]; mpk := [1%nat; 0%nat]; sub_table := false |} in
  let r1 : row := fun c => match c with 0%nat => SInt 1 | 1%nat => SInt 2 | _ => SNull end in
  let r2 : row := fun c => match c with 0%nat => SInt 2 | 1%nat => SInt 1 | _ => SNull end in
  tuple_getter m.(tpk) (returning_row m r1) = Some (identity_of m r2) /\
  identity_of m r1 <> identity_of m r2 /\
  interpret_returning_rows m [returning_row m r1] = [identity_of m r1].
Proof. cbv zeta. repeat split; try reflexivity. discriminate. Qed.
