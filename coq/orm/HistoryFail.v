(* C36 - proofs, part 7: an operation that raises must not change what the history reports as
   added / deleted.  True for every operation except [del a.x] (the defect); the model never takes
   one of its "unreachable" branches. *)
From Coq Require Import List NArith Bool Lia.
Import ListNotations.
From SAV.orm Require Import History HistorySpec HistoryProofs HistoryWf HistoryFrame HistoryOps HistoryTrack.
Open Scope N_scope.

Lemma changes_loadX : forall s s', loadX s s' -> changes (hist_x s') = changes (hist_x s).
Proof.
  intros s s' [C D]. rewrite !hist_x_eq, C. destruct D as [D|[N D]]; [rewrite D; reflexivity|].
  rewrite D, N. destruct (x_d s); reflexivity.
Qed.
Lemma changes_keepB : forall s s', keepB s s' -> changes (hist_b s') = changes (hist_b s).
Proof. intros s s' [C D]. rewrite !hist_b_eq, C, D. reflexivity. Qed.
Lemma changes_keepC : forall s s', keepC s s' -> changes (hist_c s') = changes (hist_c s).
Proof. intros s s' [C D]. rewrite !hist_c_eq, C, D. reflexivity. Qed.
Lemma changes_loadB : forall s s', loadB s s' -> changes (hist_b s') = changes (hist_b s).
Proof.
  intros s s' [K|(D & C & C' & v & D')]; [apply changes_keepB; exact K|].
  rewrite !hist_b_eq, C', D', D. destruct C as [-> | ->]; reflexivity.
Qed.
Lemma changes_loadC : forall s s', wf s -> loadC s s' -> changes (hist_c s') = changes (hist_c s).
Proof.
  intros s s' W [K|(D & C & C' & v & D')]; [apply changes_keepC; exact K|].
  rewrite !hist_c_eq, C', D', D. destruct C as [-> | ->]; reflexivity.
Qed.

Lemma changes_coll_event : forall s, coll_deleted s = false ->
  changes (hist_c (coll_event s)) = changes (hist_c s).
Proof.
  intros s G. rewrite !hist_c_eq. dstate s. unfold coll_event, mod_c, coll_deleted in *. cbn in *.
  destruct cd as [l|], cc; cbn; try reflexivity.
  - rewrite filter_nmemb_self. reflexivity.
  - destruct v; [reflexivity|discriminate].
Qed.

Lemma coll_deleted_loadC : forall s s', loadC s s' -> coll_deleted s = false -> coll_deleted s' = false.
Proof.
  unfold coll_deleted. intros s s' [[C D]|(D & C & C' & v & D')] G; [rewrite C, D; exact G|].
  rewrite C'. reflexivity.
Qed.

Lemma c_rem_fail : forall k o s s' e, c_rem k o s = (s', Fail e) -> s' = fst (coll_touch s).
Proof.
  intros k o s s' e. unfold c_rem. destruct (coll_touch s) as [s1 ok]. cbn [fst].
  destruct (negb ok); [intros H; inversion H; auto|].
  destruct k.
  - destruct (memb o (cur_coll s1)); intros H; inversion H; auto.
  - destruct (memb o (cur_coll s1)); intros H; inversion H; auto.
  - destruct (holder o (cur_coll s1)); [|intros H; inversion H; auto].
    destruct (v =? o); intros H; inversion H; auto.
Qed.

Lemma changes_before_pop : forall s, changes (hist_c (before_pop s)) = changes (hist_c s).
Proof.
  intros s. rewrite !hist_c_eq. dstate s. unfold before_pop, mod_c. cbn.
  destruct cd as [l|], cc; cbn; try reflexivity. rewrite filter_nmemb_self. reflexivity.
Qed.

Lemma dict_fail : forall k o s s' e, step k o s = (s', Fail e) -> dict_op o = true ->
  s' = fst (coll_touch s) \/ s' = before_pop (fst (coll_touch s)).
Proof.
  intros k o s s' e H DO. destruct o; try discriminate DO; cbn [step] in H;
    unfold c_pop, c_popitem, c_delkey, c_setdefault, c_update, c_clear in H;
    destruct (coll_touch s) as [s1 ok]; cbn [fst]; destruct (negb ok); try (inversion H; auto; fail).
  - destruct (holder o (cur_coll s1)); cbv iota in H; inversion H; auto.
  - destruct (holder o (cur_coll s1)); cbv iota in H; inversion H; auto.
  - destruct (last_of (cur_coll s1)); inversion H; auto.
  - destruct (holder o (cur_coll s1)); inversion H; auto.
  - destruct (same_key o (cur_coll s1)); inversion H.
  - destruct (cur_coll s1); inversion H.
Qed.

Lemma c_other_nofail : forall k o s s' e, wf s -> step k o s = (s', Fail e) ->
  match o with CAdd _ | CReplace _ | CDel | CGet => False | _ => True end.
Proof.
  intros k o s s' e W H. destruct o; auto; cbn [step] in H.
  - unfold c_add in H. pose proof (coll_touch_ok s W) as OK. destruct (coll_touch s) as [s1 ok].
    cbn in OK. subst ok. cbn in H. destruct k; [discriminate| |].
    + destruct (memb o (cur_coll s1)); discriminate.
    + destruct (same_key o (cur_coll s1)); discriminate.
  - unfold c_replace in H. destruct (get_c_off_cases s W) as [[old [E _]] _].
    destruct (get_c P_OFF s) as [s1 r]. cbn in E. subst r. discriminate.
  - unfold c_del in H. destruct (c_d s); discriminate.
  - unfold c_get in H. pose proof (coll_touch_ok s W) as OK. destruct (coll_touch s) as [s1 ok].
    cbn in OK. subst ok. discriminate.
Qed.

Theorem failed_op_keeps_changes : forall k o s s' e, wf s -> step k o s = (s', Fail e) ->
  changes (hist_x s') = changes (hist_x s) /\ changes (hist_b s') = changes (hist_b s) /\
  changes (hist_c s') = changes (hist_c s).
Proof.
  intros k o s s' e W H.
  assert (S' : s' = fst (step k o s)) by (rewrite H; reflexivity).
  destruct (dict_op o) eqn:DO.
  { assert (FR : c_frame s s').
    { rewrite S'. destruct o; try discriminate DO; cbn [step];
        [apply c_pop_frame|apply c_pop_frame|apply c_popitem_frame|apply c_delkey_frame
        |apply c_setdefault_frame|apply c_update_frame|apply c_clear_frame]. }
    destruct FR as (_ & X & B).
    split; [apply changes_loadX; exact X|split; [apply changes_keepB; exact B|]].
    destruct (coll_touch_frame s) as (_ & _ & _ & LC). pose proof (changes_loadC s _ W LC) as E0.
    destruct (dict_fail k o s s' e H DO) as [-> | ->]; [exact E0|].
    rewrite changes_before_pop. exact E0. }
  pose proof (c_other_nofail k o s s' e W H) as NF.
  destruct o; try contradiction; try discriminate DO.
  - (* SetX never fails *) cbn in H. discriminate.
  - (* DelX: the AttributeError is raised before anything is recorded *)
    cbn [step] in H. unfold del_x in H.
    destruct (negb (is_some (x_d s)) && negb (expired s) && negb (x_e s)); inversion H; subst; auto.
  - (* GetX *) subst s'. cbn [step]. rewrite read_fst. destruct (get_x_frame P_OFF s) as (_ & X & B & C).
    split; [apply changes_loadX; exact X|split; [apply changes_keepB; exact B|apply changes_keepC; exact C]].
  - (* SetB *) cbn in H. unfold set_b in H. destruct (get_b P_NO_FETCH_NO_INIT s). discriminate.
  - (* DelB *) destruct (del_b_frame s) as (_ & X & C). cbn [step] in *.
    split; [rewrite S'; apply changes_loadX; exact X|split; [|rewrite S'; apply changes_keepC; exact C]].
    rewrite !hist_b_eq. revert H. clear. dstate s. unfold del_b, get_b, get, loader_b, col_bid, load_expired,
      mod_b, commit_b, comm_of_gres, P_NO_FETCH_NO_INIT. brv; intros H; inversion H; subst; reflexivity.
  - (* GetB *) subst s'. cbn [step]. rewrite read_fst. destruct (get_b_frame P_OFF s) as (_ & X & B & C).
    split; [apply changes_loadX; exact X|split; [apply changes_loadB; exact B|apply changes_keepC; exact C]].
  - (* CRem *) destruct (c_rem_frame k o s) as (_ & X & B). cbn [step] in *.
    split; [rewrite S'; apply changes_loadX; exact X|split; [rewrite S'; apply changes_keepB; exact B|]].
    destruct (coll_touch_frame s) as (_ & _ & _ & LC).
    pose proof (changes_loadC s _ W LC) as E0.
    rewrite (c_rem_fail k o s s' e H). exact E0.
  - (* Flush *) cbn [step] in H. unfold flush in H.
    destruct (persistent s && negb (modified s)); [discriminate|].
    destruct (negb (persistent s)); discriminate.
  - (* Expire *) cbn [step] in H. unfold expire in H. destruct (negb (persistent s)); [|discriminate].
    inversion H; subst. auto.
Qed.

(* the former defect (repaired in 09dadee): a failing [del a.x] on a new object leaves it untouched *)
Theorem failed_del_keeps_state :
  let s := init ONew 0 0 [] in
  wf s /\ step KList DelX s = (s, Fail AttributeError) /\
  hist_x (fst (step KList DelX s)) = blank /\ modified (fst (step KList DelX s)) = false.
Proof. split; [apply init_wf|]. vm_compute. auto. Qed.

(* a flush never raises *)
Theorem flush_never_fails : forall s, failed (snd (flush s)) = false.
Proof. intros s. unfold flush. brk; reflexivity. Qed.

(* ---------- the model never takes an "unreachable" branch ---------- *)
Theorem step_never_unreachable : forall k o s, wf s -> snd (step k o s) <> Fail Unreachable.
Proof.
  intros k o s W. destruct o; cbn [step].
  - discriminate.
  - unfold del_x. brk; discriminate.
  - clear W. dstate s. unfold read, get_x, get, loader_x, load_expired, commit_x, P_OFF. brv; discriminate.
  - unfold set_b. destruct (get_b P_NO_FETCH_NO_INIT s). discriminate.
  - unfold del_b. destruct (get_b P_NO_FETCH_NO_INIT s). brk; discriminate.
  - clear W. dstate s. unfold read, get_b, get, loader_b, col_bid, load_expired, commit_b, P_OFF. brv; discriminate.
  - intros H. destruct (c_add k o s) as [s' r] eqn:E. cbn in H. subst r.
    apply (c_other_nofail k (CAdd o) s s' Unreachable W E).
  - intros H. destruct (c_rem k o s) as [s' r] eqn:E. cbn in H. subst r.
    revert E. unfold c_rem. pose proof (coll_touch_ok s W) as OK. destruct (coll_touch s) as [s1 ok].
    cbn in OK. subst ok. cbn. destruct k; brk; discriminate.
  - intros H. destruct (c_replace k l s) as [s' r] eqn:E. cbn in H. subst r.
    apply (c_other_nofail k (CReplace l) s s' Unreachable W E).
  - unfold c_del. destruct (c_d s); discriminate.
  - intros H. destruct (c_get s) as [s' r] eqn:E. cbn in H. subst r.
    apply (c_other_nofail k CGet s s' Unreachable W E).
  - unfold flush. brk; discriminate.
  - unfold expire. brk; discriminate.
  - unfold c_pop. pose proof (coll_touch_ok s W) as OK. destruct (coll_touch s) as [s1 ok]. cbn in OK. subst ok. cbn. brk; discriminate.
  - unfold c_pop. pose proof (coll_touch_ok s W) as OK. destruct (coll_touch s) as [s1 ok]. cbn in OK. subst ok. cbn. brk; discriminate.
  - unfold c_popitem. pose proof (coll_touch_ok s W) as OK. destruct (coll_touch s) as [s1 ok]. cbn in OK. subst ok. cbn. brk; discriminate.
  - unfold c_delkey. pose proof (coll_touch_ok s W) as OK. destruct (coll_touch s) as [s1 ok]. cbn in OK. subst ok. cbn. brk; discriminate.
  - unfold c_setdefault. pose proof (coll_touch_ok s W) as OK. destruct (coll_touch s) as [s1 ok]. cbn in OK. subst ok. cbn. brk; discriminate.
  - unfold c_update. pose proof (coll_touch_ok s W) as OK. destruct (coll_touch s) as [s1 ok]. cbn in OK. subst ok. cbn. discriminate.
  - unfold c_clear. pose proof (coll_touch_ok s W) as OK. destruct (coll_touch s) as [s1 ok]. cbn in OK. subst ok. cbn. brk; discriminate.
Qed.
