(* C31 - no dependency leads from a delete back to a save: the records reachable from a DELETE record in the
   final dependency set are deletes, post_update UPDATEs of surviving rows and the save-processors of
   post_update one-to-many relationships.  Hence an edge from a save record to a delete record (such as the
   (save_parent, child_action) edge added to _ManyToOneDP.per_state_dependencies by a8ba61d) lies on no
   cycle, for every graph. *)
From Coq Require Import List NArith Bool Lia.
Import ListNotations.
From SAV.util Require Import Topo TopoProofs.
From SAV.orm Require Import FlushOrder FlushOrderSpec FlushOrderBase FlushOrderCover.
Local Open Scope N_scope.

Definition dep_lo (g : graph) (i : N) : bool :=
  existsb (fun d => N.eqb (d_id d) i && d_post d && N.eqb (d_kind d) 0) (g_deps g).
Definition late (g : graph) (a : action) : bool :=
  match a with
  | DelAll _ | DelSt _ | PostAll _ false => true
  | ProcAll i false | ProcSt i false _ => dep_lo g i
  | _ => false
  end.
Definition rlate (k : N) (p : bool) (r : role) : bool :=
  match r with PDels | CDels | CPost | PPost => true | AfterSave => p && N.eqb k 0 | _ => false end.
Definition slate (k : N) (p c : bool) (x : srole) : bool :=
  match x with SDelP | SCPost | SPPost => true | SChild => c | SAfter => p && N.eqb k 0 | _ => false end.

Lemma prop_table_late : forallb (fun e => forallb (fun rr =>
    negb (rlate (fst (fst e)) (snd (fst e)) (fst rr)) || rlate (fst (fst e)) (snd (fst e)) (snd rr)) (snd e)) (t_prop std_tables) = true.
Proof. vm_compute. reflexivity. Qed.
Lemma state_table_late : forallb (fun e => match fst e with (k, p, i, c) => forallb (fun xy =>
    negb (slate k p c (fst xy)) || slate k p c (snd xy)) (snd e) end) (t_state std_tables) = true.
Proof. vm_compute. reflexivity. Qed.

Lemma prop_edges_late k p r1 r2 : In (r1, r2) (prop_edges std_tables k p) -> rlate k p r1 = true -> rlate k p r2 = true.
Proof. unfold prop_edges. destruct (find _ (t_prop std_tables)) as [e|] eqn:F; [|intros []]. intros H L.
  apply find_some in F. destruct F as [F1 F2]. apply andb_true_iff in F2. destruct F2 as [A B]. apply N.eqb_eq in A. apply eqb_prop in B.
  pose proof prop_table_late as T. rewrite forallb_forall in T. specialize (T e F1). rewrite forallb_forall in T. specialize (T _ H).
  rewrite A, B in T. simpl in T. rewrite L in T. exact T. Qed.
Lemma state_edges_late k p i c x y : In (x, y) (state_edges std_tables k p i c) -> slate k p c x = true -> slate k p c y = true.
Proof. unfold state_edges. destruct (find _ (t_state std_tables)) as [e|] eqn:F; [|intros []]. intros H L.
  apply find_some in F. destruct F as [F1 F2]. destruct e as [[[[k' p'] i'] c'] l]. simpl in F2, H.
  apply andb_true_iff in F2. destruct F2 as [F2 C]. apply andb_true_iff in F2. destruct F2 as [F2 I]. apply andb_true_iff in F2. destruct F2 as [A B].
  apply N.eqb_eq in A. apply eqb_prop in B, C. subst.
  pose proof state_table_late as T. rewrite forallb_forall in T. specialize (T _ F1). simpl in T. rewrite forallb_forall in T. specialize (T _ H).
  simpl in T. rewrite L in T. exact T. Qed.

Section Late.
Variables (g : graph) (cy : list N).
Hypothesis Hnd : NoDup (map d_id (g_deps g)).
Notation T := std_tables.

Lemma dep_lo_of d : In d (g_deps g) -> dep_lo g (d_id d) = d_post d && N.eqb (d_kind d) 0.
Proof. intros Hd. unfold dep_lo. destruct (d_post d && N.eqb (d_kind d) 0) eqn:E.
  - apply existsb_exists. exists d. split; [exact Hd|]. rewrite N.eqb_refl. exact E.
  - destruct (existsb _ (g_deps g)) eqn:X; [|reflexivity]. apply existsb_exists in X. destruct X as [d' [Hd' X]].
    apply andb_true_iff in X. destruct X as [X K]. apply andb_true_iff in X. destruct X as [I P]. apply N.eqb_eq in I.
    assert (d' = d) by (apply (dep_by_id g Hnd); assumption). subst d'. rewrite P, K in E. discriminate. Qed.

Lemma late_role d r : In d (g_deps g) -> late g (role_act d r) = rlate (d_kind d) (d_post d) r.
Proof. intros Hd. destruct r; cbn [late role_act rlate]; try reflexivity. apply dep_lo_of. exact Hd. Qed.

Lemma edges0_late a b : In (a, b) (edges0 T g) -> late g a = true -> late g b = true.
Proof. unfold edges0. intros H L. apply in_app_or in H. destruct H as [H|H].
  - apply in_map_iff in H. destruct H as [m [E _]]. inversion E; subst. discriminate.
  - apply in_flat_map in H. destruct H as [d [Hd H]]. unfold active in Hd. apply filter_In in Hd. destruct Hd as [Hd _].
    unfold dep_edges0 in H. apply in_map_iff in H. destruct H as [[r1 r2] [E H]]. inversion E; subst.
    rewrite (late_role d r1 Hd) in L. rewrite (late_role d r2 Hd). eapply prop_edges_late; eassumption. Qed.

(* the delete flag of a child action says whether it is a delete record *)
Lemma child_actions_flag d s ca a : In ca (child_actions g cy d s) -> fst ca = Some a -> late g a = snd ca.
Proof. unfold child_actions. destruct (incyc cy (SaveAll (d_child d))).
  - intros H E. apply in_map_iff in H. destruct H as [c [<- _]]. unfold child_action in E |- *. destruct c as [c|]; [|discriminate].
    destruct (N.eqb (role_of g c) 1); [inversion E; reflexivity|]. destruct (N.eqb (role_of g c) 2); [inversion E; reflexivity|discriminate].
  - intros [<-|[<-|[]]] E; inversion E; reflexivity. Qed.

Lemma srole_late d isdel s ca x a : In d (g_deps g) -> In ca (child_actions g cy d s) ->
  srole_act d isdel s (fst ca) x = Some a -> late g a = slate (d_kind d) (d_post d) (snd ca) x.
Proof. intros Hd Hca E. destruct x; simpl in E.
  - destruct isdel; inversion E. reflexivity.
  - destruct isdel; inversion E. reflexivity.
  - simpl. eapply child_actions_flag; eassumption.
  - destruct isdel; inversion E. cbn [late slate]. apply dep_lo_of. exact Hd.
  - destruct isdel; inversion E. reflexivity.
  - inversion E. reflexivity. - inversion E. reflexivity. - inversion E. reflexivity. - inversion E. reflexivity. Qed.

Lemma state_dep_edges_late d isdel s a b : In d (g_deps g) ->
  In (Some a, Some b) (state_dep_edges T g cy d isdel s) -> late g a = true -> late g b = true.
Proof. intros Hd H L. unfold state_dep_edges in H. destruct (sum_of g (d_id d) s); [contradiction|].
  apply in_flat_map in H. destruct H as [ca [Hca H]]. apply in_map_iff in H. destruct H as [[x y] [E H]]. simpl in E. inversion E.
  rewrite (srole_late d isdel s ca x a Hd Hca) in L by (first [assumption | symmetry; assumption]).
  rewrite (srole_late d isdel s ca y b Hd Hca) by (first [assumption | symmetry; assumption]). eapply state_edges_late; eassumption. Qed.

Lemma expand_edges_late c a b : In (Some a, Some b) (expand_edges T g cy c) -> late g a = true -> late g b = true.
Proof. destruct c; simpl; try contradiction; intros H L; apply in_app_or in H; destruct H as [H|H].
  - apply in_map_iff in H. destruct H as [s [E _]]. inversion E; subst. discriminate.
  - apply in_flat_map in H. destruct H as [d [Hd H]]. apply deps_of_in in Hd. destruct Hd as [Hd _].
    apply in_flat_map in H. destruct H as [s [_ H]]. eapply state_dep_edges_late; eassumption.
  - apply in_map_iff in H. destruct H as [s [E _]]. inversion E; subst. discriminate.
  - apply in_flat_map in H. destruct H as [d [Hd H]]. apply deps_of_in in Hd. destruct Hd as [Hd _].
    apply in_flat_map in H. destruct H as [s [_ H]]. eapply state_dep_edges_late; eassumption. Qed.

Lemma convert_late a x : In x (convert g a) -> late g x = late g a.
Proof. destruct a; simpl; try contradiction; intros H; apply in_map_iff in H; destruct H as [s [<- _]]; reflexivity. Qed.

(* every dependency of the final set that starts at a late record ends at a late record *)
Theorem final_edges_late a b : In (a, b) (final_edges T g cy) -> late g a = true -> late g b = true.
Proof. unfold final_edges. intros H L. apply in_flat_map in H. destruct H as [[oa ob] [He H]].
  destruct oa as [a0|]; [|contradiction]. destruct ob as [b0|]; [|contradiction].
  assert (Hab : late g a0 = true -> late g b0 = true).
  { unfold all_edges in He. apply in_app_or in He. destruct He as [He|He].
    - apply in_map_iff in He. destruct He as [[x y] [E He]]. inversion E; subst. apply edges0_late, He.
    - apply in_flat_map in He. destruct He as [c [_ He]]. eapply expand_edges_late; exact He. }
  unfold rewrite1 in H. destruct (amemb a0 _ || amemb b0 _ || (incyc cy a0 && incyc cy b0)); [contradiction|].
  destruct (incyc cy a0).
  - apply in_map_iff in H. destruct H as [x [E Hx]]. inversion E; subst. apply Hab. rewrite <- (convert_late _ _ Hx). exact L.
  - destruct (incyc cy b0).
    + apply in_map_iff in H. destruct H as [x [E Hx]]. inversion E; subst. rewrite (convert_late _ _ Hx). apply Hab, L.
    + destruct H as [H|[]]. inversion H; subst. apply Hab, L. Qed.

Inductive freach : action -> action -> Prop :=
| fr1 a b : In (a, b) (final_edges T g cy) -> freach a b
| frS a b c : In (a, b) (final_edges T g cy) -> freach b c -> freach a c.

Theorem late_closed a b : freach a b -> late g a = true -> late g b = true.
Proof. induction 1 as [a b H|a b c H _ IH]; intros L; [eapply final_edges_late; eassumption|].
  apply IH. eapply final_edges_late; eassumption. Qed.

(* an edge from a record that is not late (every save record) to a late one (every delete record) is on no cycle *)
Theorem save_to_delete_edge_on_no_cycle a b : late g a = false -> late g b = true -> ~ freach b a.
Proof. intros La Lb H. pose proof (late_closed _ _ H Lb). congruence. Qed.
End Late.
