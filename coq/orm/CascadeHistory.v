(* C39 - invariants of the cascade model over ALL operation histories (induction over the operation list):
   a row exists exactly for the objects in the persistent or detached state, and session.deleted contains only
   persistent objects - so "deleted at flush" and "row removed" coincide after every history. *)
From Coq Require Import List Bool Arith Lia.
From SAV.orm Require Import Cascade CascadeIterProofs CascadeOpsProofs CascadeFlushProofs.
Import ListNotations.

Definition has_row_state (x : status) : bool := match x with Persistent | Detached => true | _ => false end.

Definition Inv (s : state) : Prop :=
  (forall x, rowp s x = has_row_state (st s x)) /\ (forall x, marked s x = true -> st s x = Persistent).

Definition core_eq (a b : state) : Prop := st a = st b /\ rowp a = rowp b /\ marked a = marked b.
Lemma Inv_core_eq : forall a b, core_eq a b -> Inv b -> Inv a.
Proof. intros a b [E1 [E2 E3]] [I1 I2]. split; intros x; rewrite ?E1, ?E2, ?E3; auto. Qed.
Ltac inv_core := eapply Inv_core_eq; [repeat split; reflexivity|].

Lemma Inv_init : Inv init_state.
Proof. split; intros x; [reflexivity|discriminate]. Qed.

Lemma Inv_set_poison : forall s, Inv s -> Inv (set_poison s).
Proof. intros s H. inv_core. exact H. Qed.

(* ---- primitives ---- *)
Lemma Inv_sou_impl : forall s o, Inv s -> Inv (sou_impl s o).
Proof.
  intros s o [I1 I2]. unfold sou_impl. destruct (st s o) eqn:E.
  - split; intros x; cbn [st rowp marked set_st]; unfold upd; destruct (Nat.eqb x o) eqn:Ex.
    + apply Nat.eqb_eq in Ex. subst. rewrite I1, E. reflexivity.
    + apply I1.
    + apply Nat.eqb_eq in Ex. subst. intros M. apply I2 in M. congruence.
    + apply I2.
  - split; assumption.
  - split; intros x; cbn [st rowp marked set_marked]; [apply I1|]. unfold upd. destruct (Nat.eqb x o); [discriminate|apply I2].
  - apply Inv_set_poison. split; assumption.
  - split; intros x; cbn [st rowp marked set_st set_marked]; unfold upd; destruct (Nat.eqb x o) eqn:Ex.
    + apply Nat.eqb_eq in Ex. subst. rewrite I1, E. reflexivity.
    + apply I1.
    + discriminate.
    + apply I2.
  - apply Inv_set_poison. split; assumption.
Qed.

Lemma Inv_fold : forall (f : state -> nat -> state), (forall s o, Inv s -> Inv (f s o)) ->
  forall l s, Inv s -> Inv (fold_left f l s).
Proof. intros f H. induction l as [|c l IH]; intros s I; cbn [fold_left]; auto. Qed.

Lemma Inv_set_oos : forall s o v, Inv s -> Inv (set_oos s o v).
Proof. intros s o v H. inv_core. exact H. Qed.

Lemma Inv_sou_state : forall cfg s o, Inv s -> Inv (sou_state cfg s o).
Proof.
  intros cfg s o H. unfold sou_state. apply Inv_fold; [apply Inv_sou_impl|]. apply Inv_sou_impl, Inv_set_oos, H.
Qed.

Lemma Inv_expunge1 : forall s o, Inv s -> Inv (expunge1 s o).
Proof.
  intros s o [I1 I2]. unfold expunge1. destruct (st s o) eqn:E; try (split; assumption).
  - split; intros x; cbn [st rowp marked set_st]; unfold upd; destruct (Nat.eqb x o) eqn:Ex.
    + apply Nat.eqb_eq in Ex. subst. rewrite I1, E. reflexivity.
    + apply I1.
    + apply Nat.eqb_eq in Ex. subst. intros M. apply I2 in M. congruence.
    + apply I2.
  - split; intros x; cbn [st rowp marked set_st set_marked]; unfold upd; destruct (Nat.eqb x o) eqn:Ex.
    + apply Nat.eqb_eq in Ex. subst. rewrite I1, E. reflexivity.
    + apply I1.
    + discriminate.
    + apply I2.
  - split; intros x; cbn [st rowp marked set_st]; unfold upd; destruct (Nat.eqb x o) eqn:Ex.
    + apply Nat.eqb_eq in Ex. subst. rewrite I1, E. reflexivity.
    + apply I1.
    + apply Nat.eqb_eq in Ex. subst. intros M. apply I2 in M. congruence.
    + apply I2.
Qed.

Lemma Inv_expunge_all : forall cfg s o, Inv s -> Inv (expunge_all cfg s o).
Proof. intros cfg s o H. unfold expunge_all. apply Inv_fold; [apply Inv_expunge1|exact H]. Qed.

Lemma Inv_mark : forall s c, Inv s -> has_key s c = true -> was_deleted s c = false ->
  Inv (set_marked (match st s c with Detached => set_st s c Persistent | _ => s end) c true).
Proof.
  intros s c [I1 I2] K W. unfold has_key, was_deleted in *.
  destruct (st s c) eqn:E; try discriminate.
  - split; intros x; cbn [st rowp marked set_marked]; [apply I1|]. unfold upd. destruct (Nat.eqb x c) eqn:Ex; [|apply I2].
    apply Nat.eqb_eq in Ex. subst. intros _. exact E.
  - split; intros x; cbn [st rowp marked set_marked set_st]; unfold upd; destruct (Nat.eqb x c) eqn:Ex.
    + apply Nat.eqb_eq in Ex. subst. rewrite I1, E. reflexivity.
    + apply I1.
    + reflexivity.
    + apply I2.
Qed.

Lemma Inv_delete_impl_casc : forall s c, Inv s -> Inv (delete_impl_casc s c).
Proof.
  intros s c H. unfold delete_impl_casc. destruct (has_key s c) eqn:K; cbn [negb]; [|exact H].
  destruct (was_deleted s c) eqn:W; [apply Inv_set_poison; exact H|].
  destruct (marked s c); [exact H|]. apply Inv_mark; assumption.
Qed.

Lemma Inv_cond_expire : forall s x, Inv s -> Inv (cond_expire s x).
Proof.
  intros s x [I1 I2]. unfold cond_expire. destruct (has_key s x); [inv_core; split; assumption|].
  destruct (is_pending s x) eqn:P; [|split; assumption].
  unfold is_pending in P. split; intros y; cbn [st rowp marked set_st]; unfold upd; destruct (Nat.eqb y x) eqn:Ey.
  - apply Nat.eqb_eq in Ey. subst. rewrite I1. destruct (st s x); try discriminate; reflexivity.
  - apply I1.
  - apply Nat.eqb_eq in Ey. subst. intros M. apply I2 in M. rewrite M in P. discriminate.
  - apply I2.
Qed.

(* ---- attribute events ---- *)
Lemma Inv_casc_append_listener : forall cfg s p pr item k, Inv s -> Inv (casc_append_listener cfg s p pr item k).
Proof.
  intros. unfold casc_append_listener.
  destruct (attached s p && c_su (prop_casc cfg pr) && k && negb (in_session s item)); [apply Inv_sou_state|]; assumption.
Qed.
Lemma Inv_casc_remove_listener : forall cfg s p ri item, Inv s -> Inv (casc_remove_listener cfg s p ri item).
Proof.
  intros. unfold casc_remove_listener. destruct (c_do (fwd (getrel cfg ri)) && is_orphan cfg s item); [|assumption].
  destruct (attached s p && is_pending s item); [apply Inv_expunge_all|apply Inv_set_oos]; assumption.
Qed.
Lemma Inv_sethp_false : forall s c ri p, Inv s -> Inv (sethp_false s c ri p).
Proof.
  intros s c ri p H. unfold sethp_false. destruct (hp s c ri); try (inv_core; exact H).
  destruct (key_eqb s p0 p); [inv_core|]; exact H.
Qed.
Lemma Inv_mod_coll : forall s p ri, Inv s -> Inv (mod_coll s p ri).
Proof. intros s p ri H. unfold mod_coll. destruct (ccomm s p ri); inv_core; exact H. Qed.
Lemma Inv_mod_scalar : forall s c ri v, Inv s -> Inv (mod_scalar s c ri v).
Proof. intros s c ri v H. unfold mod_scalar. destruct (pcomm s c ri); inv_core; exact H. Qed.
Lemma Inv_set_coll : forall s p ri v, Inv s -> Inv (set_coll s p ri v).
Proof. intros. inv_core. assumption. Qed.
Lemma Inv_set_hp : forall s p ri v, Inv s -> Inv (set_hp s p ri v).
Proof. intros. inv_core. assumption. Qed.
Lemma Inv_set_par : forall s p ri v, Inv s -> Inv (set_par s p ri v).
Proof. intros. inv_core. assumption. Qed.
Lemma Inv_set_modf : forall s p v, Inv s -> Inv (set_modf s p v).
Proof. intros. inv_core. assumption. Qed.

Lemma Inv_detach_old : forall cfg s old ri c, Inv s -> Inv (detach_old cfg s old ri c).
Proof.
  intros. unfold detach_old. apply Inv_set_coll, Inv_mod_coll, Inv_casc_remove_listener, Inv_sethp_false. assumption.
Qed.
Lemma Inv_attach_new : forall s x ri c, Inv s -> Inv (attach_new s x ri c).
Proof. intros. unfold attach_new. apply Inv_set_coll, Inv_set_hp, Inv_mod_coll. assumption. Qed.

Lemma Inv_scalar_set : forall cfg s c ri v a b d, Inv s -> Inv (scalar_set cfg s c ri v a b d).
Proof.
  intros cfg s c ri v a b d H. unfold scalar_set. apply Inv_set_par, Inv_mod_scalar.
  destruct (opt_eqb (par s c ri) v); [exact H|].
  assert (Ha : Inv (match v with
                    | Some x => if a && attached s c && c_su (bk (getrel cfg ri)) && negb (in_session s x)
                                then sou_state cfg s x else s
                    | None => s end)).
  { destruct v as [x|]; [|exact H].
    destruct (a && attached s c && c_su (bk (getrel cfg ri)) && negb (in_session s x)); [apply Inv_sou_state|]; exact H. }
  set (sa := match v with Some x => _ | None => s end) in *.
  assert (Hb : Inv (match par s c ri with Some q => if b then detach_old cfg sa q ri c else sa | None => sa end)).
  { destruct (par s c ri); [|exact Ha]. destruct b; [apply Inv_detach_old|]; exact Ha. }
  destruct v as [x|]; [|exact Hb]. destruct d; [apply Inv_attach_new|]; exact Hb.
Qed.

Lemma Inv_op_append : forall cfg s p ri c, Inv s -> Inv (op_append cfg s p ri c).
Proof.
  intros cfg s p ri c H. unfold op_append. destruct (mem c (coll s p ri)); [exact H|].
  apply Inv_set_coll, Inv_set_hp, Inv_mod_coll.
  destruct (hasback (getrel cfg ri)); [apply Inv_scalar_set|]; apply Inv_casc_append_listener; exact H.
Qed.
Lemma Inv_op_remove : forall cfg s p ri c, Inv s -> Inv (op_remove cfg s p ri c).
Proof.
  intros cfg s p ri c H. unfold op_remove. destruct (negb (mem c (coll s p ri))); [exact H|].
  apply Inv_set_coll, Inv_mod_coll.
  match goal with |- Inv (if ?b then _ else _) => destruct b end;
    [apply Inv_scalar_set|]; apply Inv_casc_remove_listener, Inv_sethp_false; exact H.
Qed.
Lemma Inv_bulk_append : forall cfg p ri s m, Inv s -> Inv (bulk_append cfg p ri s m).
Proof.
  intros cfg p ri s m H. unfold bulk_append. apply Inv_set_coll, Inv_set_hp, Inv_set_modf.
  destruct (hasback (getrel cfg ri)); [apply Inv_scalar_set|]; apply Inv_casc_append_listener; exact H.
Qed.
Lemma Inv_bulk_remove : forall cfg p ri s m, Inv s -> Inv (bulk_remove cfg p ri s m).
Proof.
  intros cfg p ri s m H. unfold bulk_remove. apply Inv_set_modf.
  match goal with |- Inv (if ?b then _ else _) => destruct b end;
    [apply Inv_scalar_set|]; apply Inv_casc_remove_listener, Inv_sethp_false; exact H.
Qed.
Lemma Inv_op_replace : forall cfg s p ri cs, Inv s -> Inv (op_replace cfg s p ri cs).
Proof.
  intros cfg s p ri cs H. unfold op_replace. destruct (negb (nodupb cs)); [apply Inv_set_poison; exact H|].
  apply Inv_fold; [intros; apply Inv_bulk_remove; assumption|].
  apply Inv_fold; [intros; apply Inv_casc_append_listener; assumption|].
  apply Inv_fold.
  - intros a m Ha. destruct (mem m (filter (fun c => mem c cs) (coll s p ri))); [apply Inv_set_coll|apply Inv_bulk_append]; exact Ha.
  - apply Inv_set_coll, Inv_mod_coll, H.
Qed.

(* ---- session operations ---- *)
Lemma Inv_op_add : forall cfg s o, Inv s -> Inv (fst (op_add cfg s o)).
Proof. intros cfg s o H. unfold op_add. destruct (was_deleted s o); cbn [fst]; [exact H|apply Inv_sou_state, H]. Qed.
Lemma Inv_op_delete : forall cfg s o, Inv s -> Inv (fst (op_delete cfg s o)).
Proof.
  intros cfg s o H. unfold op_delete. destruct (has_key s o) eqn:K; cbn [negb fst]; [|exact H].
  destruct (was_deleted s o) eqn:W; cbn [fst]; [apply Inv_set_poison, H|].
  destruct (marked s o); cbn [fst]; [exact H|].
  apply Inv_fold; [apply Inv_delete_impl_casc|]. apply Inv_mark; assumption.
Qed.
Lemma Inv_op_expunge : forall cfg s o, Inv s -> Inv (fst (op_expunge cfg s o)).
Proof. intros cfg s o H. unfold op_expunge. destruct (negb (attached s o)); cbn [fst]; [exact H|apply Inv_expunge_all, H]. Qed.
Lemma Inv_op_expire : forall cfg s o, Inv s -> Inv (fst (op_expire cfg s o)).
Proof.
  intros cfg s o H. unfold op_expire. destruct (st s o); cbn [fst]; try exact H.
  apply Inv_fold; [apply Inv_cond_expire|exact H].
Qed.

(* ---- flush ---- *)
Lemma Inv_flush_top : forall cfg s, Inv s -> Inv (fst (flush_top cfg s)).
Proof.
  intros cfg s H. unfold flush_top. cbn [fst]. apply Inv_fold; [|exact H].
  intros a o Ha. destruct (top_expunge cfg s o); [apply Inv_expunge1|]; exact Ha.
Qed.

Lemma Inv_finalize1 : forall cfg u s o, Inv s -> Inv (finalize1 cfg u s o).
Proof.
  intros cfg u s o [I1 I2].
  destruct (finalize1_spec cfg u s o) as [F1 [F2 _]]. cbv zeta in F1, F2.
  assert (FM : forall x, marked (finalize1 cfg u s o) x = if Nat.eqb x o && is_del u o then false else marked s x).
  { intros x. unfold finalize1. destruct (is_del u o).
    - cbn [marked set_marked]. unfold upd. destruct (Nat.eqb x o); reflexivity.
    - rewrite andb_false_r.
      assert (G : forall l a, marked (fold_left (fun s ir => let '(ri, r) := ir in
                   let sa := if Nat.eqb (rp r) (cls cfg o) then set_ccomm s o ri None else s in
                   if Nat.eqb (rc r) (cls cfg o) && hasback r then set_pcomm sa o ri PCnone else sa) l a) = marked a).
      { induction l as [|[ri r] l IH]; intros a; cbn [fold_left]; [reflexivity|]. rewrite IH.
        destruct (Nat.eqb (rp r) (cls cfg o)), (Nat.eqb (rc r) (cls cfg o) && hasback r); reflexivity. }
      rewrite G. reflexivity. }
  split; intros x.
  - rewrite F1, F2. destruct (Nat.eqb x o); [destruct (is_del u o); reflexivity|apply I1].
  - rewrite FM, F1. destruct (Nat.eqb x o) eqn:E; cbn [andb].
    + destruct (is_del u o); [discriminate|reflexivity].
    + apply I2.
Qed.

Lemma Inv_flush_with : forall cfg procs s, Inv s -> Inv (fst (flush_with cfg procs s)).
Proof.
  intros cfg procs s H. unfold flush_with. pose proof (Inv_flush_top cfg s H) as H1.
  destruct (flush_top cfg s) as [s1 u0]. cbn [fst] in H1.
  destruct (order u0); cbn [fst]; [exact H1|].
  destruct (presort cfg s1 procs (presort_fuel cfg) u0) as [u|]; cbn [fst]; [|apply Inv_set_poison, H1].
  destruct (existsb (fun o => is_del u o && negb (has_key s1 o)) (order u)); cbn [fst]; [exact H1|].
  apply Inv_fold; [intros; apply Inv_finalize1; assumption|].
  assert (SC : same_core (fold_left (sync_rel cfg u) (indexed 0 (rels cfg)) s1) s1)
    by (apply fold_same_core; intros; apply same_core_sync_rel).
  destruct SC as [S1 [S2 [S3 _]]]. eapply Inv_core_eq; [|exact H1]. repeat split; assumption.
Qed.

Lemma Inv_step : forall cfg s o, Inv s -> Inv (fst (step cfg s o)).
Proof.
  intros cfg s o H. destruct o; cbn [step].
  - apply Inv_op_add, H.
  - apply Inv_op_delete, H.
  - apply Inv_op_expunge, H.
  - destruct (second_parent cfg s p ri c); cbn [fst]; [apply Inv_set_poison, H|apply Inv_op_append, H].
  - cbn [fst]. apply Inv_op_remove, H.
  - cbn [fst]. unfold op_setparent. apply Inv_scalar_set, H.
  - destruct (existsb (second_parent cfg s p ri) cs); cbn [fst]; [apply Inv_set_poison, H|apply Inv_op_replace, H].
  - apply Inv_flush_with, H.
  - apply Inv_op_expire, H.
Qed.

Theorem run_Inv : forall cfg ops, Inv (run cfg ops).
Proof.
  intros cfg ops. unfold run.
  assert (G : forall l s, Inv s -> Inv (fold_left (fun s o => fst (step cfg s o)) l s)).
  { induction l as [|o l IH]; intros s H; cbn [fold_left]; auto. apply IH, Inv_step, H. }
  apply G, Inv_init.
Qed.

Theorem run_rows_inv : forall cfg ops x,
  rowp (run cfg ops) x = has_row_state (st (run cfg ops) x) /\
  (marked (run cfg ops) x = true -> st (run cfg ops) x = Persistent).
Proof. intros cfg ops x. destruct (run_Inv cfg ops) as [I1 I2]. split; [apply I1|apply I2]. Qed.
