(* C44: what the UPDATE / DELETE statements of one flush do to the rows *)
From Coq Require Import List ZArith Bool Arith Lia.
Import ListNotations.
From SAV.orm Require Import Version VersionBase.
Open Scope Z_scope.

Section S.
Variable g : Z -> Z.
Hypothesis Hg : forall v, v < g v.

Definition mcount (w : rows) (l : ents) : nat :=
  length (filter (fun ke : Z * ent => matches w (fst ke) (ev (snd ke))) l).

Lemma matches_rset_other : forall w k r k' v, k' <> k -> matches (rset k r w) k' v = matches w k' v.
Proof. intros. unfold matches. rewrite lookup_rset_other by assumption. reflexivity. Qed.
Lemma matches_rdel_other : forall (w : rows) k k' v, k' <> k -> matches (rdel k w) k' v = matches w k' v.
Proof. intros. unfold matches. rewrite lookup_rdel_other by assumption. reflexivity. Qed.

Lemma lookup_none_neq : forall A k k' (a : A) l, lookup k l = None -> In (k', a) l -> k' <> k.
Proof.
  intros A k k' a l Hn Hin E. subst k'. revert Hn Hin.
  induction l as [|[k0 b] t IH]; cbn [lookup In]; [tauto|].
  destruct (Z.eqb_spec k0 k) as [->|N]; [discriminate|]. intros Hn [E|Hin]; [congruence|]. apply IH; assumption.
Qed.

(* counts against the rows before a statement on another key *)
Lemma mcount_ext : forall w w' (l : ents),
  (forall k e, In (k, e) l -> matches w' k (ev e) = matches w k (ev e)) -> mcount w' l = mcount w l.
Proof.
  unfold mcount. induction l as [|[k e] t IH]; intros H; cbn [filter fst snd]; [reflexivity|].
  rewrite (H k e (or_introl eq_refl)).
  assert (E : length (filter (fun ke : Z * ent => matches w' (fst ke) (ev (snd ke))) t)
            = length (filter (fun ke : Z * ent => matches w (fst ke) (ev (snd ke))) t)).
  { apply IH. intros k0 e0 Hin. apply H. right. exact Hin. }
  destruct (matches w k (ev e)); cbn [length]; rewrite E; reflexivity.
Qed.

(* ---------- UPDATE ---------- *)
Lemma run_updates_count : forall l w, distinct l -> snd (run_updates g w l) = mcount w l.
Proof.
  induction l as [|[k e] t IH]; intros w; cbn [run_updates distinct]; [reflexivity|]. intros [H1 H2].
  unfold sql_update. unfold mcount. cbn [filter fst snd]. fold (mcount w t).
  destruct (matches w k (ev e)) eqn:M.
  - destruct (run_updates g (rset k {| rx := pend_of e; rv := g (ev e) |} w) t) as [w2 n] eqn:R. cbn [snd length].
    f_equal. change n with (snd (w2, n)). rewrite <- R. rewrite IH by exact H2.
    apply mcount_ext. intros k0 e0 Hin. apply matches_rset_other. eapply lookup_none_neq; eassumption.
  - destruct (run_updates g w t) as [w2 n] eqn:R. cbn [snd]. change n with (snd (w2, n)). rewrite <- R. apply IH, H2.
Qed.

Lemma run_updates_lookup : forall l w k, distinct l ->
  lookup k (fst (run_updates g w l)) =
  match lookup k l with
  | Some e => if matches w k (ev e) then Some {| rx := pend_of e; rv := g (ev e) |} else lookup k w
  | None => lookup k w
  end.
Proof.
  induction l as [|[k0 e0] t IH]; intros w k; cbn [run_updates distinct lookup]; [reflexivity|]. intros [H1 H2].
  unfold sql_update. destruct (matches w k0 (ev e0)) eqn:M.
  - destruct (run_updates g (rset k0 {| rx := pend_of e0; rv := g (ev e0) |} w) t) as [w2 n] eqn:R. cbn [fst].
    change w2 with (fst (w2, n)). rewrite <- R. rewrite IH by exact H2.
    destruct (Z.eqb_spec k0 k) as [->|N].
    + rewrite H1. rewrite lookup_rset_same. rewrite M. unfold matches in M. destruct (lookup k w); [reflexivity|discriminate].
    + rewrite lookup_rset_other by congruence. destruct (lookup k t); [|reflexivity].
      rewrite matches_rset_other by congruence. reflexivity.
  - destruct (run_updates g w t) as [w2 n] eqn:R. cbn [fst]. change w2 with (fst (w2, n)). rewrite <- R.
    rewrite IH by exact H2. destruct (Z.eqb_spec k0 k) as [->|N]; [|reflexivity].
    rewrite H1, M. reflexivity.
Qed.

Lemma rows_le_rset : forall w k v p, matches w k v = true -> rows_le w (rset k {| rx := p; rv := g v |} w).
Proof.
  intros w k v p M k' b H. unfold matches in M. destruct (Z.eq_dec k' k) as [->|N].
  - rewrite lookup_rset_same in H. destruct (lookup k w) as [a|] eqn:L; [|discriminate].
    injection H as <-. exists a. split; [reflexivity|]. cbn [rv rx]. apply Z.eqb_eq in M. rewrite M.
    pose proof (Hg v). split; [lia|lia].
  - rewrite lookup_rset_other in H by exact N. exists b. split; [exact H|split; [lia|trivial]].
Qed.

Lemma rows_le_rdel : forall (w : rows) k, rows_le w (rdel k w).
Proof.
  intros w k k' b H. destruct (Z.eq_dec k' k) as [->|N].
  - rewrite lookup_rdel_same in H. discriminate.
  - rewrite lookup_rdel_other in H by exact N. exists b. split; [exact H|split; [lia|trivial]].
Qed.

Lemma run_updates_le : forall l w, rows_le w (fst (run_updates g w l)).
Proof.
  induction l as [|[k e] t IH]; intros w; cbn [run_updates]; [apply rows_le_refl|].
  unfold sql_update. destruct (matches w k (ev e)) eqn:M.
  - destruct (run_updates g _ t) as [w2 n] eqn:R. cbn [fst].
    eapply rows_le_trans; [apply rows_le_rset, M|]. change w2 with (fst (w2, n)). rewrite <- R. apply IH.
  - destruct (run_updates g w t) as [w2 n] eqn:R. cbn [fst]. change w2 with (fst (w2, n)). rewrite <- R. apply IH.
Qed.

(* ---------- DELETE ---------- *)
Lemma run_deletes_count : forall l w, distinct l -> snd (run_deletes w l) = mcount w l.
Proof.
  induction l as [|[k e] t IH]; intros w; cbn [run_deletes distinct]; [reflexivity|]. intros [H1 H2].
  unfold sql_delete. unfold mcount. cbn [filter fst snd]. fold (mcount w t).
  destruct (matches w k (ev e)) eqn:M.
  - destruct (run_deletes (rdel k w) t) as [w2 n] eqn:R. cbn [snd length].
    f_equal. change n with (snd (w2, n)). rewrite <- R. rewrite IH by exact H2.
    apply mcount_ext. intros k0 e0 Hin. apply matches_rdel_other. eapply lookup_none_neq; eassumption.
  - destruct (run_deletes w t) as [w2 n] eqn:R. cbn [snd]. change n with (snd (w2, n)). rewrite <- R. apply IH, H2.
Qed.

Lemma run_deletes_lookup : forall l w k, distinct l ->
  lookup k (fst (run_deletes w l)) =
  match lookup k l with
  | Some e => if matches w k (ev e) then None else lookup k w
  | None => lookup k w
  end.
Proof.
  induction l as [|[k0 e0] t IH]; intros w k; cbn [run_deletes distinct lookup]; [reflexivity|]. intros [H1 H2].
  unfold sql_delete. destruct (matches w k0 (ev e0)) eqn:M.
  - destruct (run_deletes (rdel k0 w) t) as [w2 n] eqn:R. cbn [fst].
    change w2 with (fst (w2, n)). rewrite <- R. rewrite IH by exact H2.
    destruct (Z.eqb_spec k0 k) as [->|N].
    + rewrite H1, M. apply lookup_rdel_same.
    + rewrite lookup_rdel_other by congruence. destruct (lookup k t); [|reflexivity].
      rewrite matches_rdel_other by congruence. reflexivity.
  - destruct (run_deletes w t) as [w2 n] eqn:R. cbn [fst]. change w2 with (fst (w2, n)). rewrite <- R.
    rewrite IH by exact H2. destruct (Z.eqb_spec k0 k) as [->|N]; [|reflexivity].
    rewrite H1, M. reflexivity.
Qed.

Lemma run_deletes_le : forall l w, rows_le w (fst (run_deletes w l)).
Proof.
  induction l as [|[k e] t IH]; intros w; cbn [run_deletes]; [apply rows_le_refl|].
  unfold sql_delete. destruct (matches w k (ev e)) eqn:M.
  - destruct (run_deletes _ t) as [w2 n] eqn:R. cbn [fst].
    eapply rows_le_trans; [apply rows_le_rdel|]. change w2 with (fst (w2, n)). rewrite <- R. apply IH.
  - destruct (run_deletes w t) as [w2 n] eqn:R. cbn [fst]. change w2 with (fst (w2, n)). rewrite <- R. apply IH.
Qed.

(* nothing matched: the rows are untouched (no distinctness needed) *)
Lemma run_updates_zero : forall l w, snd (run_updates g w l) = O -> fst (run_updates g w l) = w.
Proof.
  induction l as [|[k e] t IH]; intros w; cbn [run_updates]; [reflexivity|].
  unfold sql_update. destruct (matches w k (ev e)).
  - destruct (run_updates g _ t) as [w2 n]. cbn [snd]. discriminate.
  - destruct (run_updates g w t) as [w2 n] eqn:R. cbn [snd fst]. intros ->. change w2 with (fst (w2, O)). rewrite <- R.
    apply IH. rewrite R. reflexivity.
Qed.
Lemma run_deletes_zero : forall l w, snd (run_deletes w l) = O -> fst (run_deletes w l) = w.
Proof.
  induction l as [|[k e] t IH]; intros w; cbn [run_deletes]; [reflexivity|].
  unfold sql_delete. destruct (matches w k (ev e)).
  - destruct (run_deletes _ t) as [w2 n]. cbn [snd]. discriminate.
  - destruct (run_deletes w t) as [w2 n] eqn:R. cbn [snd fst]. intros ->. change w2 with (fst (w2, O)). rewrite <- R.
    apply IH. rewrite R. reflexivity.
Qed.

(* ---------- counting ---------- *)
Lemma filter_length_le' : forall A (f : A -> bool) l, (length (filter f l) <= length l)%nat.
Proof. induction l as [|a t IH]; cbn [filter length]; [lia|]. destruct (f a); cbn [length]; lia. Qed.

Lemma filter_full : forall A (f : A -> bool) l, length (filter f l) = length l -> forall x, In x l -> f x = true.
Proof.
  induction l as [|a t IH]; cbn [filter length In]; [tauto|]. intros H x [->|Hin].
  - destruct (f x); [reflexivity|]. pose proof (filter_length_le' A f t). lia.
  - apply IH; [|exact Hin]. destruct (f a); cbn [length] in H; [lia|]. pose proof (filter_length_le' A f t). lia.
Qed.

Lemma mcount_full : forall w l, mcount w l = length l -> forall k e, In (k, e) l -> matches w k (ev e) = true.
Proof. intros w l H k e Hin. apply (filter_full _ _ _ H (k, e) Hin). Qed.
End S.
