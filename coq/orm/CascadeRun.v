(* C39 - run_case : decode a history, run the cascade model, encode the observation.  Both sides are packed into
   few integers because the cost of a correspondence shard is dominated by parsing the literals.
   input  = [nobj; legacy bitmask; object classes packed base 4; [rel...]; [op...]]
            rel = rp + 8*rc + 64*fwdmask + 4096*hasback + 8192*backmask
            mask bits: 1 save-update, 2 merge, 4 expunge, 8 delete, 16 delete-orphan, 32 refresh-expire
            op  = code + 16*(a + 16*(b + 16*c)) :  0 add a | 1 delete a | 2 expunge a | 3 append parent a, rel b, child c
                  | 4 remove a b c | 5 set parent of child a, rel b, to c (15 = None)
                  | 6 replace: parent a, rel b, c = len + 16*(children packed base 16) | 7 flush | 9 expire a (terminal)
   output = two integers per op:  err + 4*(deleted-bitmask + 256*(statuses packed base 8))  and the extra
            (per-object row codes packed base 128 after a flush, expired bitmask after expire, else 0);
            (-9, 0) after a terminal op; (err, 0) for a raising flush/expire; then the final collections / parents *)
From Coq Require Import List Bool Arith ZArith.
From SAV.base Require Import Tree.
From SAV.orm Require Import Cascade.
Import ListNotations.

Definition zbit (m k : Z) : bool := Z.odd (m / k).
Definition casc_of_mask (m : Z) : casc :=
  mkCasc (zbit m 1) (zbit m 2) (zbit m 4) (zbit m 8) (zbit m 16) (zbit m 32).
Definition field (z d m : Z) : nat := Z.to_nat ((z / d) mod m).

Definition dec_rel (t : tree) : option rel :=
  match t with
  | I z => if (z <? 0)%Z then None
           else Some (mkRel (field z 1 8) (field z 8 8) (casc_of_mask ((z / 64) mod 64)) (zbit z 4096)
                            (casc_of_mask ((z / 8192) mod 64)))
  | _ => None
  end.

Fixpoint unpack (n : nat) (base z : Z) : list nat :=
  match n with 0 => [] | S n' => Z.to_nat (z mod base) :: unpack n' base (z / base) end.

Definition dec_op (t : tree) : option op :=
  match t with
  | I z =>
      if (z <? 0)%Z then None else
      let a := field z 16 16 in let b := field z 256 16 in let c := field z 4096 16 in
      match (z mod 16)%Z with
      | 0%Z => Some (OAdd a)
      | 1%Z => Some (ODelete a)
      | 2%Z => Some (OExpunge a)
      | 3%Z => Some (OAppend a b c)
      | 4%Z => Some (ORemove a b c)
      | 5%Z => Some (OSetParent a b (if Nat.eqb c 15 then None else Some c))
      | 6%Z => Some (OReplace a b (unpack c 16 (z / 65536)))
      | 7%Z => Some OFlush
      | 9%Z => Some (OExpire a)
      | _ => None
      end
  | _ => None
  end.

Definition st_code (x : status) : nat :=
  match x with Transient => 0 | Pending => 1 | Persistent => 2 | Deleted => 3 | Detached => 4 | DetDel => 4 end.

Definition pack (base : Z) (f : nat -> Z) (os : list nat) : Z :=
  fold_right (fun o acc => (f o + base * acc)%Z) 0%Z os.

Definition child_rels (cfg : config) (o : nat) : list nat :=
  flat_map (fun ir => if Nat.eqb (rc (snd ir)) (cls cfg o) then [fst ir] else []) (indexed 0 (rels cfg)).

Definition row_code (cfg : config) (s : state) (o : nat) : Z :=
  if rowp s o then
    Z.succ (pack (Z.of_nat (S (nobj cfg)))
                 (fun ri => match rowfk s o ri with Some p => Z.of_nat (S p) | None => 0%Z end) (child_rels cfg o))
  else 0%Z.

Definition b2z (b : bool) : Z := if b then 1%Z else 0%Z.
Definition step_code (cfg : config) (s : state) (err : nat) : Z :=
  (Z.of_nat err + 4 * (pack 2 (fun o => b2z (marked s o)) (objs cfg)
                       + 256 * pack 8 (fun o => Z.of_nat (st_code (st s o))) (objs cfg)))%Z.

Definition coll_code (cfg : config) (l : list nat) : Z := pack (Z.of_nat (S (nobj cfg))) (fun x => Z.of_nat (S x)) l.

Definition final_obs (cfg : config) (s : state) : list tree :=
  flat_map (fun o =>
     flat_map (fun ir => let '(ri, r) := ir in
        (if Nat.eqb (rp r) (cls cfg o)
         then [I (if expired s o then (-1)%Z else coll_code cfg (coll s o ri))] else [])
        ++ (if Nat.eqb (rc r) (cls cfg o) && hasback r
            then [I (if expired s o then (-1)%Z else coll_code cfg (olist (par s o ri)))] else []))
      (indexed 0 (rels cfg)))
   (objs cfg).

Definition is_terminal (o : op) : bool := match o with OFlush | OExpire _ => true | _ => false end.

(* [dead]: a terminal operation has been executed (expire, or a flush that raised) *)
Fixpoint run_ops (cfg : config) (s : state) (dead : bool) (ops : list op) : list tree * state :=
  match ops with
  | [] => ([], s)
  | o :: rest =>
      if dead then let '(r, s') := run_ops cfg s true rest in (I (-9)%Z :: I 0%Z :: r, s')
      else
        let '(s1, err) := step cfg s o in
        if poison s1 then let '(r, s') := run_ops cfg s1 true rest in (I (-7)%Z :: I 0%Z :: r, s')
        else if Nat.eqb err 0 then
          let extra := match o with
                       | OFlush => pack 128 (row_code cfg s1) (objs cfg)
                       | OExpire _ => pack 2 (fun x => b2z (expired s1 x)) (objs cfg)
                       | _ => 0%Z
                       end in
          let '(r, s') := run_ops cfg s1 (match o with OExpire _ => true | _ => false end) rest in
          (I (step_code cfg s1 err) :: I extra :: r, s')
        else if is_terminal o then
          let '(r, s') := run_ops cfg s1 true rest in (I (Z.of_nat err) :: I 0%Z :: r, s')
        else
          let '(r, s') := run_ops cfg s1 false rest in (I (step_code cfg s1 err) :: I 0%Z :: r, s')
  end.

Definition run_case (t : tree) : tree :=
  match t with
  | L [I n; I lg; I ocl; rs; ops] =>
      if (n <? 0)%Z || (8 <? n)%Z || (lg <? 0)%Z || (ocl <? 0)%Z then bad_input else
      match as_list_of dec_rel rs, as_list_of dec_op ops with
      | Some rels, Some ops =>
          let nobj := Z.to_nat n in
          let classes := unpack nobj 4 ocl in
          let cfg := mkCfg rels (fun k => zbit lg (2 ^ Z.of_nat k)) (fun o => nth o classes 0) nobj in
          let '(r, s) := run_ops cfg init_state false ops in L (r ++ final_obs cfg s)
      | _, _ => bad_input
      end
  | _ => bad_input
  end.
