(* C30 - model of what a flush writes (lib/sqlalchemy/orm/persistence.py _collect_insert_commands /
   _collect_update_commands / _collect_delete_commands, sync.py populate / clear, dependency.py
   process_saves / process_deletes of the three processors), as a state machine over an operation
   alphabet, and the spec side [rows_of_graph].  Definitions only.

   The model is HISTORY DRIVEN like the code: an UPDATE carries only attributes that were set since the
   last flush (committed_state) and whose value differs from the committed one; foreign keys are written
   only for relationship attributes with history (sync.populate / sync.clear), or cleared for the loaded
   children of a deleted parent; secondary rows follow the collection history (added -> INSERT,
   deleted -> DELETE).  It never recomputes rows from the current graph: that is the SPEC, and the
   theorems say the two agree. *)
From Coq Require Import List NArith ZArith Bool.
Import ListNotations.
Local Open Scope N_scope.

Definition trip := (N * N * N)%type.
Definition t3eqb (x y : trip) : bool :=
  N.eqb (fst (fst x)) (fst (fst y)) && N.eqb (snd (fst x)) (snd (fst y)) && N.eqb (snd x) (snd y).
Definition mem3 (x : trip) (l : list trip) : bool := existsb (t3eqb x) l.
Definition memN (x : N) (l : list N) : bool := existsb (N.eqb x) l.

(* relationship: kind 0 = foreign key held by class a referring to class b (many-to-one on a and/or
   one-to-many on b: [r_o2m] says whether the collection side exists), kind 1 = many-to-many *)
Record rel := { r_id : N; r_kind : N; r_a : N; r_b : N; r_o2m : bool }.

(* object states: 0 = not in the session (never added / deleted and flushed), 1 = pending,
   2 = persistent, 3 = persistent and marked deleted *)
Record obj := {
  o_id : N; o_cls : N; o_st : N;
  o_data : Z; o_dd : bool;            (* scalar attribute; set since the last flush *)
  o_par : list (N * N);               (* relationship -> current parent (absent = None) *)
  o_pd : list N                       (* relationships set since the last flush *)
}.
Record row := { w_cls : N; w_data : Z; w_fk : list (N * N) }.

Record state := {
  objs : list obj;
  pairs : list trip;                  (* current many-to-many members (rel, a, b) *)
  padd : list trip; pdel : list trip; (* collection history since the last flush *)
  rows : list (N * row);              (* the database: one row per object *)
  secs : list trip                    (* secondary rows *)
}.

Inductive op :=
| ONew (o cls : N) (v : Z)            (* o = cls(id=o, data=v); session.add(o) *)
| OData (o : N) (v : Z)               (* o.data = v *)
| OPar (r c : N) (p : option N)       (* c.<many-to-one> = p, or the equivalent collection operation *)
| OAdd (r a b : N) | ORem (r a b : N) (* many-to-many append / remove *)
| ODel (o : N)                        (* session.delete(o) *)
| OFlush.

(* ------------------------------------------------------------------ lookups *)
Definition get_obj (s : state) (i : N) : option obj := find (fun o => N.eqb (o_id o) i) (objs s).
Definition st_of (s : state) (i : N) : N := match get_obj s i with Some o => o_st o | None => 0 end.
Definition cls_of (s : state) (i : N) : option N := match get_obj s i with Some o => Some (o_cls o) | None => None end.
Definition get_rel (rs : list rel) (r : N) : option rel := find (fun x => N.eqb (r_id x) r) rs.
Fixpoint assoc {A} (k : N) (l : list (N * A)) : option A :=
  match l with [] => None | (k', v) :: t => if N.eqb k' k then Some v else assoc k t end.
Definition live (n : N) : bool := N.eqb n 1 || N.eqb n 2.          (* pending or persistent *)

Definition upd_obj (s : state) (i : N) (f : obj -> obj) : list obj :=
  map (fun o => if N.eqb (o_id o) i then f o else o) (objs s).
Definition set_objs (s : state) (l : list obj) : state :=
  {| objs := l; pairs := pairs s; padd := padd s; pdel := pdel s; rows := rows s; secs := secs s |}.

Definition set_assoc (k v : N) (l : list (N * N)) : list (N * N) := (k, v) :: filter (fun e => negb (N.eqb (fst e) k)) l.
Definition del_assoc (k : N) (l : list (N * N)) : list (N * N) := filter (fun e => negb (N.eqb (fst e) k)) l.
Definition opt_cls_is (s : state) (i c : N) : bool := match cls_of s i with Some c' => N.eqb c' c | None => false end.

(* ------------------------------------------------------------------ operations (everything but flush) *)
(* session.delete(o) is modelled when every reference to o is a flushed one (no pending child, no child
   re-pointed to o since the last flush) and every relationship referring to o's class has its
   collection side (otherwise the ORM documents that the children keep their foreign key) *)
Definition del_ok (rs : list rel) (s : state) (i : N) : bool :=
  forallb (fun c => negb (live (o_st c)) ||
     forallb (fun e => negb (N.eqb (snd e) i) ||
                (N.eqb (o_st c) 2 && negb (memN (fst e) (o_pd c)) &&
                 match get_rel rs (fst e) with Some r => r_o2m r | None => false end)) (o_par c))
          (objs s) &&
  negb (existsb (fun x => (N.eqb (snd (fst x)) i || N.eqb (snd x) i)) (padd s)) &&
  (* ... and o itself has not been re-parented since the last flush (an append to a collection cancels the
     delete for one flush: see the known finding) *)
  match get_obj s i with Some o => match o_pd o with [] => true | _ => false end | None => false end.

(* re-parenting is modelled when it creates no cycle among the current links and the links of the rows
   (the unit of work orders rows by both: with a cycle it raises CircularDependencyError; see C31) *)
Definition parents (s : state) (x : N) : list N :=
  match get_obj s x with Some o => map snd (o_par o) | None => [] end ++
  match assoc x (rows s) with Some w => map snd (w_fk w) | None => [] end.
Fixpoint reach (fuel : nat) (s : state) (x target : N) : bool :=
  N.eqb x target || match fuel with O => false | S f => existsb (fun p => reach f s p target) (parents s x) end.
Definition acyclic_with (s : state) (c : N) (p : option N) : bool :=
  match p with Some p' => negb (reach (S (length (objs s))) s p' c) | None => true end.

Definition step (rs : list rel) (s : state) (o : op) : state :=
  match o with
  | ONew i c v =>
      match get_obj s i with
      | Some _ => s
      | None => set_objs s (objs s ++ [{| o_id := i; o_cls := c; o_st := 1; o_data := v; o_dd := false; o_par := []; o_pd := [] |}])
      end
  | OData i v =>
      if live (st_of s i)
      then set_objs s (upd_obj s i (fun o => {| o_id := o_id o; o_cls := o_cls o; o_st := o_st o; o_data := v; o_dd := true;
                                                 o_par := o_par o; o_pd := o_pd o |}))
      else s
  | OPar r c p =>
      match get_rel rs r with
      | Some rr =>
          if negb (acyclic_with s c p) then s else
          if N.eqb (r_kind rr) 0 && live (st_of s c) && opt_cls_is s c (r_a rr)
             && match p with Some p' => live (st_of s p') && opt_cls_is s p' (r_b rr) | None => true end
          then set_objs s (upd_obj s c (fun o => {| o_id := o_id o; o_cls := o_cls o; o_st := o_st o; o_data := o_data o; o_dd := o_dd o;
                 o_par := match p with Some p' => set_assoc r p' (o_par o) | None => del_assoc r (o_par o) end;
                 o_pd := r :: o_pd o |}))
          else s
      | None => s
      end
  | OAdd r a b =>
      match get_rel rs r with
      | Some rr =>
          if N.eqb (r_kind rr) 1 && live (st_of s a) && live (st_of s b) && opt_cls_is s a (r_a rr) && opt_cls_is s b (r_b rr)
             && negb (mem3 (r, a, b) (pairs s))
          then {| objs := objs s; pairs := (r, a, b) :: pairs s;
                  padd := if mem3 (r, a, b) (pdel s) then padd s else (r, a, b) :: padd s;
                  pdel := filter (fun y => negb (t3eqb (r, a, b) y)) (pdel s);
                  rows := rows s; secs := secs s |}
          else s
      | None => s
      end
  | ORem r a b =>
      if mem3 (r, a, b) (pairs s) && live (st_of s a) && live (st_of s b)
      then {| objs := objs s; pairs := filter (fun y => negb (t3eqb (r, a, b) y)) (pairs s);
              padd := filter (fun y => negb (t3eqb (r, a, b) y)) (padd s);
              pdel := if mem3 (r, a, b) (padd s) then pdel s else (r, a, b) :: pdel s;
              rows := rows s; secs := secs s |}
      else s
  | ODel i =>
      if N.eqb (st_of s i) 2 && del_ok rs s i
      then set_objs s (upd_obj s i (fun o => {| o_id := o_id o; o_cls := o_cls o; o_st := 3; o_data := o_data o; o_dd := o_dd o;
                                                 o_par := o_par o; o_pd := o_pd o |}))
      else s
  | OFlush => s
  end.

(* ------------------------------------------------------------------ flush *)
(* sync.populate: the foreign key value a relationship attribute yields; a parent that is not (going to
   be) a row yields NULL *)
Definition fk_of (s : state) (par : list (N * N)) : list (N * N) :=
  filter (fun e => live (st_of s (snd e))) par.

(* the row of a persistent object after the flush, from its row before and its history *)
Definition upd_row (s : state) (o : obj) (w : row) : row :=
  {| w_cls := w_cls w;
     w_data := if o_dd o then o_data o else w_data w;         (* only attributes in committed_state *)
     w_fk :=
       (* relationships with history: sync.populate / sync.clear *)
       filter (fun e => memN (fst e) (o_pd o)) (fk_of s (o_par o)) ++
       (* the others keep the column, except that the loaded children of a deleted parent are cleared
          (_OneToManyDP.process_deletes) *)
       filter (fun e => negb (memN (fst e) (o_pd o)) && negb (N.eqb (st_of s (snd e)) 3)) (w_fk w) |}.

Definition flush_rows (s : state) : list (N * row) :=
  flat_map (fun o =>
    if N.eqb (o_st o) 1 then [(o_id o, {| w_cls := o_cls o; w_data := o_data o; w_fk := fk_of s (o_par o) |})]
    else if N.eqb (o_st o) 2 then match assoc (o_id o) (rows s) with Some w => [(o_id o, upd_row s o w)] | None => [] end
    else []) (objs s).

Definition dead_pair (s : state) (x : trip) : bool :=
  N.eqb (st_of s (snd (fst x))) 3 || N.eqb (st_of s (snd x)) 3.

Definition flush (s : state) : state :=
  {| objs := map (fun o => {| o_id := o_id o; o_cls := o_cls o;
                              o_st := if N.eqb (o_st o) 1 then 2 else if N.eqb (o_st o) 3 then 0 else o_st o;
                              o_data := o_data o; o_dd := false; o_par := o_par o; o_pd := [] |}) (objs s);
     pairs := filter (fun x => negb (dead_pair s x)) (pairs s);
     padd := []; pdel := [];
     rows := flush_rows s;
     (* secondary rows: DELETE for removed members and for the members of deleted objects, INSERT for added *)
     secs := filter (fun x => negb (dead_pair s x)) (padd s) ++
             filter (fun x => negb (mem3 x (pdel s)) && negb (dead_pair s x)) (secs s) |}.

Definition apply1 (rs : list rel) (s : state) (o : op) : state :=
  match o with OFlush => flush s | _ => step rs s o end.
Definition apply (rs : list rel) (s : state) (h : list op) : state := fold_left (apply1 rs) h s.

Definition empty : state := {| objs := []; pairs := []; padd := []; pdel := []; rows := []; secs := [] |}.

(* ------------------------------------------------------------------ spec: the rows of the graph *)
(* one row per object that is in the session and not deleted, with its current scalar value and, for
   every relationship, the identity of the current parent if that parent is such an object *)
Definition spec_row (s : state) (i : N) : option row :=
  match get_obj s i with
  | Some o => if live (o_st o)
              then Some {| w_cls := o_cls o; w_data := o_data o; w_fk := fk_of s (o_par o) |}
              else None
  | None => None
  end.
Definition rows_of_graph (s : state) : list (N * row) :=
  flat_map (fun o => match spec_row s (o_id o) with Some w => [(o_id o, w)] | None => [] end) (objs s).

(* spec: loading the database into a new session: every row becomes an object whose parent attributes
   are the referenced objects *)
Definition load (db : list (N * row)) : list (N * N * Z * list (N * N)) :=
  map (fun e => (fst e, w_cls (snd e), w_data (snd e), w_fk (snd e))) db.
Definition graph_of (s : state) : list (N * N * Z * list (N * N)) :=
  flat_map (fun o => if live (o_st o) then [(o_id o, o_cls o, o_data o, fk_of s (o_par o))] else []) (objs s).
