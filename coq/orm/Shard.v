(* C53 - horizontal sharding: executable model of a ShardedSession over n reference databases.

   Transcribes (lib/sqlalchemy/ext/horizontal_shard.py, orm/session.py, orm/loading.py, orm/persistence.py):
     ShardedSession._choose_shard_and_assign   -> [target]          (key token, preset token, shard_chooser)
     unit of work for one mapper (UPDATEs, then INSERTs in add order, each on the connection of the
       object's shard; DELETE on the shard of the identity token)                  -> [flush], [do_delete]
     execute_and_instances (one shard when a shard id is given by set_shard / bind argument /
       set_shard_id / the identity token of a get or refresh, otherwise every shard of execute_chooser,
       results merged in that order; IndexError on an empty list, before any autoflush) -> [do_query]
     loading._instance (identity key = (class, pk, identity token of the execution))   -> [load_row]
     ShardedSession._identity_lookup + Session._get_impl + loading._load_on_pk_identity -> [do_get]
     Session.refresh / loading._load_on_ident (identity token = key[2])                 -> [do_refresh]
   One mapped class T(pk, grp, val); pk is never modified.  The three choosers are Section variables:
   the theorems hold for ALL chooser functions. *)
From Coq Require Import List ZArith NArith Bool.
Import ListNotations.
Open Scope Z_scope.

Notation sid := N (only parsing).      (* shard identifier *)

Record row := mkRow { r_pk : Z; r_grp : Z; r_val : Z }.
Definition row_eqb (a b : row) : bool :=
  (r_pk a =? r_pk b) && (r_grp a =? r_grp b) && (r_val a =? r_val b).

(* ---------- n reference databases: one table per shard ---------- *)
Definition table := list row.
Definition dbs := sid -> table.
Definition upd (d : dbs) (s : sid) (t : table) : dbs := fun s' => if N.eqb s' s then t else d s'.

Definition has_pk (k : Z) (t : table) : bool := existsb (fun r => r_pk r =? k) t.
Definition find_pk (k : Z) (t : table) : option row := find (fun r => r_pk r =? k) t.
(* INSERT: the primary key constraint rejects a second row with the same pk (IntegrityError) *)
Definition sql_insert (r : row) (t : table) : option table :=
  if has_pk (r_pk r) t then None else Some (t ++ [r]).
(* UPDATE t SET grp=?, val=? WHERE pk = ? *)
Definition sql_update (r : row) (t : table) : table :=
  map (fun x => if r_pk x =? r_pk r then r else x) t.
(* DELETE FROM t WHERE pk = ? *)
Definition sql_delete (k : Z) (t : table) : table := filter (fun x => negb (r_pk x =? k)) t.

Fixpoint ins_sorted (r : row) (l : table) : table :=
  match l with
  | [] => [r]
  | x :: l' => if r_pk r <=? r_pk x then r :: l else x :: ins_sorted r l'
  end.
Definition sort_pk (l : table) : table := fold_right ins_sorted [] l.

Inductive qry := QAll | QGrp (g : Z) | QPk (k : Z) | QValGe (v : Z).
Definition qmatch (q : qry) (r : row) : bool :=
  match q with
  | QAll => true
  | QGrp g => r_grp r =? g
  | QPk k => r_pk r =? k
  | QValGe v => v <=? r_val r
  end.
(* SELECT pk, grp, val FROM t WHERE <q> ORDER BY pk *)
Definition sql_select (q : qry) (t : table) : table := sort_pk (filter (qmatch q) t).

(* ---------- session ---------- *)
Inductive life := Pending | Persistent | Gone.   (* Gone = deleted and flushed (later detached) *)
Definition life_eqb (a b : life) : bool :=
  match a, b with Pending, Pending | Persistent, Persistent | Gone, Gone => true | _, _ => false end.

Record inst := mkInst {
  i_cur : row;            (* current attribute values *)
  i_old : row;            (* values as loaded / last flushed (committed state) *)
  i_life : life;
  i_tok : option sid      (* InstanceState.identity_token; = key[2] once persistent *)
}.

(* SQL written by the unit of work; the [option sid] of an INSERT is the token the object carried
   before the flush (ghost information used by the routing theorem only) *)
Inductive write :=
| WIns (pre : option sid) (s : sid) (r : row)
| WUpd (s : sid) (r : row)
| WDel (s : sid) (k : Z).

Record sess := mkSess {
  insts : list inst;        (* every object the program has seen, by first appearance (object number) *)
  db : dbs;                 (* what the session's transaction sees *)
  committed : dbs;          (* what other connections see *)
  wlog : list write;        (* every INSERT/UPDATE/DELETE emitted so far, oldest first *)
  rlog : list sid           (* shard of every SELECT emitted so far *)
}.

Inductive err := EIntegrity | EMultiple | EInvalid | EIndex | ENoRow.
Inductive res (A : Type) := Ok (a : A) | Err (e : err).
Arguments Ok {A} a.
Arguments Err {A} e.

Definition apply_write (d : dbs) (w : write) : option dbs :=
  match w with
  | WIns _ s r => match sql_insert r (d s) with Some t => Some (upd d s t) | None => None end
  | WUpd s r => Some (upd d s (sql_update r (d s)))
  | WDel s k => Some (upd d s (sql_delete k (d s)))
  end.
Fixpoint apply_writes (ws : list write) (d : dbs) : res dbs :=
  match ws with
  | [] => Ok d
  | w :: r => match apply_write d w with Some d' => apply_writes r d' | None => Err EIntegrity end
  end.

Fixpoint upd_nth {A} (n : nat) (f : A -> A) (l : list A) : list A :=
  match l, n with
  | [], _ => []
  | x :: r, O => f x :: r
  | x :: r, S n' => x :: upd_nth n' f r
  end.

Fixpoint find_idx {A} (p : A -> bool) (l : list A) (n : nat) : option nat :=
  match l with
  | [] => None
  | x :: r => if p x then Some n else find_idx p r (S n)
  end.

Fixpoint dedup (l : list nat) : list nat :=
  match l with
  | [] => []
  | x :: r => x :: filter (fun y => negb (Nat.eqb y x)) (dedup r)
  end.

(* identity map: persistent objects keyed by (class, pk, identity token) *)
Definition is_key (k : Z) (t : sid) (i : inst) : bool :=
  match i_life i, i_tok i with
  | Persistent, Some t' => (r_pk (i_cur i) =? k) && N.eqb t' t
  | _, _ => false
  end.
Definition lookup (l : list inst) (k : Z) (t : sid) : option nat := find_idx (is_key k t) l 0.

(* loading._instance for one row fetched with identity token [t] *)
Definition load_row (t : sid) (l : list inst) (r : row) : list inst * nat :=
  match lookup l (r_pk r) t with
  | Some o => (l, o)
  | None => (l ++ [mkInst r r Persistent (Some t)], length l)
  end.
Fixpoint load_rows (t : sid) (l : list inst) (rs : list row) : list inst * list nat :=
  match rs with
  | [] => (l, [])
  | r :: rs' =>
      let (l1, o) := load_row t l r in
      let (l2, os) := load_rows t l1 rs' in (l2, o :: os)
  end.
(* iter_for_shard for every chosen shard, partial[0].merge( *partial[1:] ) *)
Fixpoint exec_shards (q : qry) (ss : list sid) (d : dbs) (l : list inst) : list inst * list nat :=
  match ss with
  | [] => (l, [])
  | s :: ss' =>
      let (l1, os1) := load_rows s l (sql_select q (d s)) in
      let (l2, os2) := exec_shards q ss' d l1 in (l2, os1 ++ os2)
  end.

(* one pass of the unit of work over the objects in object order *)
Definition step_fn := inst -> dbs -> res (inst * dbs * list write).
Fixpoint pass (f : step_fn) (l : list inst) (d : dbs) : res (list inst * dbs * list write) :=
  match l with
  | [] => Ok ([], d, [])
  | i :: r =>
      match f i d with
      | Err e => Err e
      | Ok (i', d1, w1) =>
          match pass f r d1 with
          | Err e => Err e
          | Ok (r', d2, w2) => Ok (i' :: r', d2, w1 ++ w2)
          end
      end
  end.

Inductive ret := RNone | ROids (os : list nat) | ROpt (o : option nat).

Inductive op :=
| OAdd (r : row) (pre : option sid)   (* session.add(T(...)); [pre]: identity_token set beforehand *)
| OSet (o : nat) (g v : Z)            (* obj.grp = g; obj.val = v *)
| OFlush
| OCommit
| ODelete (os : list nat)             (* session.flush(); session.delete(obj) for each; session.flush() *)
| OQuery (q : qry) (tgt : option sid) (legacy : bool)
    (* session.execute(select(T).where(q).order_by(T.pk)).scalars().all() [on one shard], or the legacy
       session.query(T).filter(q).order_by(T.pk).all(), which removes repeated entities (Query._iter: unique()) *)
| OGet (k : Z) (t : option sid)       (* session.get(T, k [, identity_token=t]) *)
| ORefresh (o : nat)                  (* session.refresh(obj) *)
| OMerge (r : row) (t : sid).         (* session.merge(<detached T(r) whose identity key carries token t>) *)

Section Choosers.
  Variable shard_chooser : row -> sid.
  Variable identity_chooser : Z -> list sid.
  Variable execute_chooser : qry -> list sid.

  (* ShardedSession._choose_shard_and_assign for an object without identity key *)
  Definition target (i : inst) : sid :=
    match i_tok i with Some t => t | None => shard_chooser (i_cur i) end.

  (* UPDATE pass: persistent objects with a net change; the shard is the key's token *)
  Definition flush_upd : step_fn := fun i d =>
    match i_life i, i_tok i with
    | Persistent, Some t =>
        if row_eqb (i_cur i) (i_old i) then Ok (i, d, [])
        else Ok (mkInst (i_cur i) (i_cur i) Persistent (Some t),
                 upd d t (sql_update (i_cur i) (d t)), [WUpd t (i_cur i)])
    | _, _ => Ok (i, d, [])
    end.
  (* INSERT pass: pending objects, each on the shard chosen for it *)
  Definition flush_ins : step_fn := fun i d =>
    match i_life i with
    | Pending =>
        let s := target i in
        match sql_insert (i_cur i) (d s) with
        | None => Err EIntegrity
        | Some t => Ok (mkInst (i_cur i) (i_cur i) Persistent (Some s), upd d s t,
                        [WIns (i_tok i) s (i_cur i)])
        end
    | _ => Ok (i, d, [])
    end.

  Definition flush (st : sess) : res sess :=
    match pass flush_upd (insts st) (db st) with
    | Err e => Err e
    | Ok (l1, d1, w1) =>
        match pass flush_ins l1 d1 with
        | Err e => Err e
        | Ok (l2, d2, w2) => Ok (mkSess l2 d2 (committed st) (wlog st ++ w1 ++ w2) (rlog st))
        end
    end.

  Definition do_commit (st : sess) : res sess :=
    match flush st with
    | Err e => Err e
    | Ok st1 => Ok (mkSess (insts st1) (db st1) (db st1) (wlog st1) (rlog st1))
    end.

  (* DELETE FROM t WHERE pk = ? for one persistent object, on the shard of its identity token *)
  Definition delete_one (st : sess) (o : nat) : res sess :=
    match nth_error (insts st) o with
    | Some i0 =>
        match i_life i0, i_tok i0 with
        | Persistent, Some t =>
            let k := r_pk (i_cur i0) in
            Ok (mkSess (upd_nth o (fun i => mkInst (i_cur i) (i_old i) Gone (i_tok i)) (insts st))
                       (upd (db st) t (sql_delete k (db st t))) (committed st)
                       (wlog st ++ [WDel t k]) (rlog st))
        | _, _ => Err EInvalid
        end
    | None => Err EInvalid
    end.
  Fixpoint delete_all (st : sess) (os : list nat) : res sess :=
    match os with
    | [] => Ok st
    | o :: r => match delete_one st o with Ok st' => delete_all st' r | Err e => Err e end
    end.
  Definition valid_del (st : sess) (o : nat) : bool :=
    match nth_error (insts st) o with
    | Some i => match i_life i, i_tok i with Persistent, Some _ => true | _, _ => false end
    | None => false
    end.
  (* several objects deleted in ONE flush: one DELETE per object (identity = (pk, token)) *)
  Definition do_delete (st : sess) (os : list nat) : res sess :=
    if forallb (valid_del st) os then
      match flush st with
      | Err e => Err e
      | Ok st1 => delete_all st1 (dedup os)
      end
    else Err EInvalid.

  Definition do_set (st : sess) (o : nat) (g v : Z) : res sess :=
    match nth_error (insts st) o with
    | Some i0 =>
        match i_life i0 with
        | Gone => Err EInvalid
        | _ => Ok (mkSess (upd_nth o (fun i => mkInst (mkRow (r_pk (i_cur i)) g v) (i_old i) (i_life i) (i_tok i))
                                  (insts st)) (db st) (committed st) (wlog st) (rlog st))
        end
    | None => Err EInvalid
    end.

  Definition shards_for (q : qry) (tgt : option sid) : list sid :=
    match tgt with Some s => [s] | None => execute_chooser q end.

  Definition do_query (st : sess) (q : qry) (tgt : option sid) : res (sess * list nat) :=
    match shards_for q tgt with
    | [] => Err EIndex
    | ss =>
        match flush st with
        | Err e => Err e
        | Ok st1 =>
            let (l, os) := exec_shards q ss (db st1) (insts st1) in
            Ok (mkSess l (db st1) (committed st1) (wlog st1) (rlog st1 ++ ss), os)
        end
    end.

  Fixpoint first_hit (l : list inst) (k : Z) (ts : list sid) : option nat :=
    match ts with
    | [] => None
    | t :: ts' => match lookup l k t with Some o => Some o | None => first_hit l k ts' end
    end.

  Definition do_get (st : sess) (k : Z) (tok : option sid) : res (sess * option nat) :=
    match (match tok with
           | Some t => lookup (insts st) k t
           | None => first_hit (insts st) k (identity_chooser k)
           end) with
    | Some o => Ok (st, Some o)
    | None =>
        match do_query st (QPk k) tok with
        | Err e => Err e
        | Ok (st2, os) =>
            match dedup os with
            | [] => Ok (st2, None)
            | [o] => Ok (st2, Some o)
            | _ => Err EMultiple
            end
        end
    end.

  Definition do_refresh (st : sess) (o : nat) : res sess :=
    match nth_error (insts st) o with
    | Some i0 =>
        match i_life i0, i_tok i0 with
        | Persistent, Some t =>
            (* _expire_state discards the object's unflushed changes, then autoflush, then the SELECT *)
            let l0 := upd_nth o (fun i => mkInst (i_old i) (i_old i) (i_life i) (i_tok i)) (insts st) in
            match flush (mkSess l0 (db st) (committed st) (wlog st) (rlog st)) with
            | Err e => Err e
            | Ok st1 =>
                match find_pk (r_pk (i_cur i0)) (db st1 t) with
                | Some r =>
                    Ok (mkSess (upd_nth o (fun i => mkInst r r (i_life i) (i_tok i)) (insts st1))
                               (db st1) (committed st1) (wlog st1) (rlog st1 ++ [t]))
                | None => Err ENoRow
                end
            end
        | _, _ => Err EInvalid
        end
    | None => Err EInvalid
    end.

  (* Session.merge(load=True) of a detached object with identity key (T, pk, t): autoflush; the target is
     the object under (pk, t) in the identity map, else get(T, pk, identity_token=t) (one SELECT on shard
     t), else a new pending instance; the given attribute values are copied onto the target *)
  Definition do_merge (st : sess) (r : row) (t : sid) : res (sess * option nat) :=
    match flush st with
    | Err e => Err e
    | Ok st1 =>
        match do_get st1 (r_pk r) (Some t) with
        | Err e => Err e
        | Ok (st2, Some o) =>
            match do_set st2 o (r_grp r) (r_val r) with
            | Ok st3 => Ok (st3, Some o)
            | Err e => Err e
            end
        | Ok (st2, None) =>
            Ok (mkSess (insts st2 ++ [mkInst r r Pending None]) (db st2) (committed st2) (wlog st2) (rlog st2),
                Some (length (insts st2)))
        end
    end.

  Definition step (st : sess) (o : op) : res (sess * ret) :=
    match o with
    | OAdd r pre =>
        Ok (mkSess (insts st ++ [mkInst r r Pending pre]) (db st) (committed st) (wlog st) (rlog st), RNone)
    | OSet n g v => match do_set st n g v with Ok s => Ok (s, RNone) | Err e => Err e end
    | OFlush => match flush st with Ok s => Ok (s, RNone) | Err e => Err e end
    | OCommit => match do_commit st with Ok s => Ok (s, RNone) | Err e => Err e end
    | ODelete n => match do_delete st n with Ok s => Ok (s, RNone) | Err e => Err e end
    | OQuery q tgt legacy =>
        match do_query st q tgt with
        | Ok (s, os) => Ok (s, ROids (if legacy then dedup os else os))
        | Err e => Err e
        end
    | OGet k t => match do_get st k t with Ok (s, r) => Ok (s, ROpt r) | Err e => Err e end
    | ORefresh n => match do_refresh st n with Ok s => Ok (s, RNone) | Err e => Err e end
    | OMerge r t => match do_merge st r t with Ok (s, o) => Ok (s, ROpt o) | Err e => Err e end
    end.

  (* a program: the run stops at the first error *)
  Fixpoint run (st : sess) (ops : list op) : res sess :=
    match ops with
    | [] => Ok st
    | o :: r => match step st o with Ok (st', _) => run st' r | Err e => Err e end
    end.
End Choosers.

Definition init (d : dbs) : sess := mkSess [] d d [] [].
