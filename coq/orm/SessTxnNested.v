(* C33 - Session.begin_nested under the whole invariant. *)
From Coq Require Import List ZArith Bool Arith Lia.
Import ListNotations.
From SAV.orm Require Import SessTxn SessTxnBase SessTxnSpec SessTxnInv SessTxnOps SessTxnRestore SessTxnRestore2
  SessTxnShift SessTxnStmts SessTxnFlush SessTxnDbInv SessTxnCore SessTxnFlushCore SessTxnTx SessTxnCommit SessTxnObjOps.
Open Scope nat_scope.

Lemma Core_handles : forall st gs h, Core st gs -> Core (set_handles st h) gs.
Proof.
  intros st gs h C. pose proof C as C0. destruct C as [G Jh D Ch Em].
  eapply Core_update; eauto; try (repeat split; reflexivity).
Qed.

(* a new savepoint frame on top of a clean session whose innermost transaction is ACTIVE *)
Lemma push_core : forall st gs p rest h, Core st gs -> stack st = p :: rest -> fstate p = ACTIVE -> is_clean st = true ->
  Core (set_handles (set_nfid (set_stack st (new_frame st true :: stack st)) (S (nfid st))) h) (ghost_of st :: gs).
Proof.
  intros st gs p rest h C Hs Hp Hcl. apply Core_handles.
  pose proof C as C0. destruct C as [G Jh D Ch Em].
  pose proof (ghost_of_clean st G Hcl) as GC.
  apply is_clean_spec in Hcl. destruct Hcl as [Hsn [Hsd Hmod]].
  destruct D as [D1 D2 D4 D5]. destruct D5 as [D5 D6].
  constructor.
  - exact G.
  - exact Jh.
  - constructor; cbn [stack nfid work committed saves set_nfid set_stack new_frame].
    + cbn [FramesOk]. unfold new_frame. cbn [fid fnested fconn fstate]. split; [lia|]. split; [exact D1|]. split.
      { split; [intros _; rewrite Hs; discriminate|reflexivity]. }
      split; [intros X; discriminate|].
      intros f' Hf'. rewrite Hs in Hf'. destruct Hf' as [X|X]; [subst; exact Hp|].
      rewrite Hs in D1. cbn in D1. destruct D1 as [_ [_ [_ [_ F]]]]. auto.
    + left. reflexivity.
    + intros H. apply D4. intros f' Hf'. apply H. right. exact Hf'.
    + split.
      * cbn [entries]. unfold live_conn, new_frame. cbn. exact D5.
      * cbn [SnapOk]. unfold new_frame. cbn [fconn]. split; [reflexivity|exact D6].
  - unfold Chain. cbn [stack objs nobj snew sdel work set_nfid set_stack]. unfold new_frame at 1. cbn [fstate].
    split; [exact GC|]. split.
    + rewrite Hsn, Hsd. apply Rel_fresh; auto.
    + unfold Chain in Ch. rewrite Hs in *. destruct gs as [|gp gs']; [destruct Ch|].
      destruct Ch as [A [B C]]. rewrite Hp in B. rewrite Hsn, Hsd in B. cbn [ChainG]. auto.
  - cbn. intros X. discriminate.
Qed.

Lemma op_nested_core : forall st gs r st', Core st gs -> do_op ONested st = (r, st') -> r <> Unmodelled ->
  exists gs', Core st' gs'.
Proof.
  intros st gs r st' C H Hr. cbn [do_op] in H.
  pose proof (Core_handles st gs (handles st ++ [None]) C) as C0.
  set (st0 := set_handles st (handles st ++ [None])) in *.
  destruct (autobegin_core st0 gs C0) as [gs1 [C1 _]].
  destruct (stack (autobegin st0)) as [|p rest] eqn:Es; [inversion H; subst; congruence|].
  destruct (check_prereq p M_begin) eqn:Ec; [inversion H; subst; eauto|].
  assert (Hp : fstate p = ACTIVE) by (unfold check_prereq in Ec; destruct (fstate p); cbn in Ec; try discriminate; reflexivity).
  apply bind_inv in H. destruct H as [[s2 [H1 H2]]|[H1 Hn]].
  - destruct (flush_core _ gs1 Ok s2 C1 H1) as [C2 P2]; [discriminate|].
    destruct P2 as (A1 & A2 & A3 & A4 & A5 & A6 & A7 & A8 & A9). destruct (A8 eq_refl) as [Cl [Hh Kg]].
    unfold hd_state in Hh. rewrite Es in Hh. destruct (stack s2) as [|p2 rest2] eqn:Es2; [discriminate|].
    inversion Hh as [Hp2]. inversion H2; subst r st'. eexists.
    apply (push_core s2 gs1 p2 rest2); auto. congruence.
  - destruct (flush_core _ gs1 r st' C1 H1 Hr) as [C2 _]. eauto.
Qed.
