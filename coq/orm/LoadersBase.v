(* C40 - generic list lemmas: lexicographic keys, insertion sort, first-occurrence uniquing,
   uniqueness of sorted duplicate-free lists, slice, chunks. *)
From Coq Require Import List ZArith Bool Lia Sorting.Sorted Permutation.
Import ListNotations.
From SAV.orm Require Import Loaders.
Open Scope Z_scope.

(* ---------------------------------------------------------------- lex_le *)
Lemma lex_le_refl : forall a, lex_le a a = true.
Proof. induction a as [|x a IH]; cbn [lex_le]; auto. rewrite Z.eqb_refl, IH. apply orb_true_r. Qed.

Lemma lex_le_total : forall a b, lex_le a b = true \/ lex_le b a = true.
Proof.
  induction a as [|x a IH]; intros [|y b]; cbn [lex_le]; auto.
  destruct (Z.ltb_spec x y); [left; reflexivity|].
  destruct (Z.ltb_spec y x); [right; reflexivity|].
  assert (x = y) by lia. subst y. rewrite Z.eqb_refl. cbn. apply IH.
Qed.

Lemma lex_le_trans : forall a b c, lex_le a b = true -> lex_le b c = true -> lex_le a c = true.
Proof.
  induction a as [|x a IH]; intros [|y b] [|z c]; cbn [lex_le]; auto; try discriminate.
  intros H1 H2.
  apply orb_true_iff in H1. apply orb_true_iff in H2. apply orb_true_iff.
  destruct H1 as [H1|H1], H2 as [H2|H2].
  - left. apply Z.ltb_lt in H1, H2. apply Z.ltb_lt. lia.
  - apply andb_true_iff in H2 as [E _]. apply Z.eqb_eq in E. subst. left; auto.
  - apply andb_true_iff in H1 as [E _]. apply Z.eqb_eq in E. subst. left; auto.
  - apply andb_true_iff in H1 as [E1 L1]. apply andb_true_iff in H2 as [E2 L2].
    apply Z.eqb_eq in E1, E2. subst. right. rewrite Z.eqb_refl. cbn. eapply IH; eauto.
Qed.

Lemma lex_le_antisym : forall a b, lex_le a b = true -> lex_le b a = true -> a = b.
Proof.
  induction a as [|x a IH]; intros [|y b]; cbn [lex_le]; auto; try discriminate.
  intros H1 H2. apply orb_true_iff in H1. apply orb_true_iff in H2.
  destruct H1 as [H1|H1], H2 as [H2|H2];
    try (apply Z.ltb_lt in H1); try (apply Z.ltb_lt in H2);
    try (apply andb_true_iff in H1 as [E1 L1]; apply Z.eqb_eq in E1);
    try (apply andb_true_iff in H2 as [E2 L2]; apply Z.eqb_eq in E2); try lia.
  subst. f_equal. auto.
Qed.

Lemma lex_le_app_same : forall k x y, lex_le (k ++ x) (k ++ y) = lex_le x y.
Proof.
  induction k as [|a k IH]; intros; cbn [app lex_le]; auto.
  rewrite Z.ltb_irrefl, Z.eqb_refl. cbn. apply IH.
Qed.

Lemma lex_le_app_len : forall ka kb x y, length ka = length kb ->
  lex_le (ka ++ x) (kb ++ y) = true -> lex_le ka kb = true.
Proof.
  induction ka as [|a ka IH]; intros [|b kb] x y HL H; cbn in HL; try discriminate; auto.
  cbn [app lex_le] in *. apply orb_true_iff in H. apply orb_true_iff. destruct H as [H|H]; auto.
  apply andb_true_iff in H as [E L]. right. rewrite E. cbn. eapply IH; eauto.
Qed.

Lemma lz_eqb_eq : forall a b, lz_eqb a b = true <-> a = b.
Proof.
  induction a as [|x a IH]; intros [|y b]; cbn [lz_eqb]; split; intro H; try discriminate; auto.
  - apply andb_true_iff in H as [E L]. apply Z.eqb_eq in E. apply IH in L. subst; auto.
  - inversion H; subst. rewrite Z.eqb_refl. cbn. apply IH; auto.
Qed.
Lemma lz_eqb_refl : forall a, lz_eqb a a = true.
Proof. intro; apply lz_eqb_eq; auto. Qed.
Lemma lz_eqb_neq : forall a b, lz_eqb a b = false <-> a <> b.
Proof.
  intros. split; intro H.
  - intro E. apply lz_eqb_eq in E. congruence.
  - destruct (lz_eqb a b) eqn:E; auto. apply lz_eqb_eq in E. contradiction.
Qed.

(* ---------------------------------------------------------------- sortedness *)
Section Sorting.
  Context {A : Type}.
  Variable key : A -> list Z.

  Definition kle (a b : A) : Prop := lex_le (key a) (key b) = true.
  Definition sorted (l : list A) : Prop := StronglySorted kle l.

  Lemma insert_by_in : forall x y l, In y (insert_by key x l) <-> y = x \/ In y l.
  Proof.
    induction l as [|z l IH]; cbn [insert_by]; [cbn; intuition|].
    destruct (lex_le (key x) (key z)); cbn [In]; [intuition|]. rewrite IH. intuition.
  Qed.

  Lemma sort_by_in : forall l y, In y (sort_by key l) <-> In y l.
  Proof.
    induction l as [|x l IH]; intro y; cbn; [tauto|].
    change (fold_right (insert_by key) [] l) with (sort_by key l).
    rewrite insert_by_in, IH. intuition.
  Qed.

  Lemma insert_by_perm : forall x l, Permutation (insert_by key x l) (x :: l).
  Proof.
    induction l as [|z l IH]; cbn [insert_by]; auto.
    destruct (lex_le (key x) (key z)); auto.
    eapply perm_trans; [apply perm_skip, IH|apply perm_swap].
  Qed.
  Lemma sort_by_perm : forall l, Permutation (sort_by key l) l.
  Proof.
    induction l as [|x l IH]; cbn; auto.
    change (fold_right (insert_by key) [] l) with (sort_by key l).
    eapply perm_trans; [apply insert_by_perm|]. auto.
  Qed.

  Lemma insert_by_sorted : forall x l, sorted l -> sorted (insert_by key x l).
  Proof.
    induction l as [|z l IH]; intro S; cbn [insert_by].
    - constructor; constructor.
    - inversion S as [|? ? S' F]; subst.
      destruct (lex_le (key x) (key z)) eqn:E.
      + constructor; auto. constructor; auto.
        eapply Forall_impl; [|exact F]. intros a Ha. unfold kle in *. eapply lex_le_trans; eauto.
      + constructor; [apply IH; auto|].
        apply Forall_forall. intros a Ha. apply insert_by_in in Ha as [->|Ha].
        * unfold kle. destruct (lex_le_total (key x) (key z)); congruence.
        * rewrite Forall_forall in F. auto.
  Qed.
  Lemma sort_by_sorted : forall l, sorted (sort_by key l).
  Proof.
    induction l as [|x l IH]; cbn; [constructor|].
    apply insert_by_sorted. exact IH.
  Qed.

  Lemma sorted_filter : forall f l, sorted l -> sorted (filter f l).
  Proof.
    induction l as [|x l IH]; intro S; cbn; [constructor|].
    inversion S as [|? ? S' F]; subst. destruct (f x); [|apply IH; auto].
    constructor; [apply IH; auto|]. apply Forall_forall. intros a Ha. apply filter_In in Ha as [Ha _].
    rewrite Forall_forall in F. auto.
  Qed.
  Lemma sorted_firstn : forall n l, sorted l -> sorted (firstn n l).
  Proof.
    induction n as [|n IH]; intros [|x l] S; cbn; try constructor.
    - inversion S; subst. apply IH; auto.
    - inversion S as [|? ? S' F]; subst. apply Forall_forall. intros a Ha.
      rewrite Forall_forall in F. apply F. clear -Ha. revert l Ha.
      induction n as [|n IHn]; intros [|b l] Ha; cbn in *; try contradiction. destruct Ha; auto.
  Qed.
  Lemma sorted_skipn : forall n l, sorted l -> sorted (skipn n l).
  Proof.
    induction n as [|n IH]; intros [|x l] S; cbn; auto. inversion S; subst. auto.
  Qed.
  Lemma sorted_slice : forall lim off l, sorted l -> sorted (slice lim off l).
  Proof.
    intros lim off l S. unfold slice.
    assert (S' : sorted (match off with Some n => skipn n l | None => l end)).
    { destruct off; auto using sorted_skipn. }
    destruct lim; auto using sorted_firstn.
  Qed.

  (* inserting below everything: at the front *)
  Lemma insert_by_front : forall x l, Forall (kle x) l -> insert_by key x l = x :: l.
  Proof. intros x [|z l] F; cbn; auto. inversion F; subst. unfold kle in *. rewrite H1. auto. Qed.

  Lemma filter_insert_by : forall f x l, sorted l ->
    filter f (insert_by key x l) = if f x then insert_by key x (filter f l) else filter f l.
  Proof.
    induction l as [|z l IH]; intro S.
    - cbn. destruct (f x); auto.
    - inversion S as [|? ? S' F]; subst. cbn [insert_by].
      destruct (lex_le (key x) (key z)) eqn:E.
      + cbn [filter]. destruct (f x) eqn:Fx; auto.
        destruct (f z) eqn:Fz.
        * cbn [insert_by]. rewrite E. auto.
        * symmetry. apply insert_by_front. apply Forall_forall. intros a Ha.
          apply filter_In in Ha as [Ha _]. rewrite Forall_forall in F.
          unfold kle in *. eapply lex_le_trans; eauto.
      + cbn [filter]. rewrite (IH S'). destruct (f z) eqn:Fz; destruct (f x) eqn:Fx; auto.
        cbn [insert_by]. rewrite E. auto.
  Qed.
  Lemma filter_sort_by : forall f l, filter f (sort_by key l) = sort_by key (filter f l).
  Proof.
    induction l as [|x l IH]; cbn; auto.
    change (fold_right (insert_by key) [] l) with (sort_by key l).
    rewrite filter_insert_by by apply sort_by_sorted. rewrite IH.
    destruct (f x); auto.
  Qed.

  Lemma sort_by_sorted_id : forall l, sorted l -> sort_by key l = l.
  Proof.
    induction l as [|x l IH]; intro S; cbn; auto. inversion S; subst.
    change (fold_right (insert_by key) [] l) with (sort_by key l). rewrite IH by auto.
    apply insert_by_front; auto.
  Qed.

  Lemma sorted_all_le : forall l, (forall a b, In a l -> In b l -> kle a b) -> sorted l.
  Proof.
    induction l as [|x l IH]; intro H; constructor.
    - apply IH. intros; apply H; cbn; auto.
    - apply Forall_forall. intros; apply H; cbn; auto.
  Qed.
End Sorting.

(* sort commutes with a key-preserving map *)
Lemma sort_by_map : forall {A B} (kb : B -> list Z) (g : A -> B) (l : list A),
  sort_by kb (map g l) = map g (sort_by (fun a => kb (g a)) l).
Proof.
  intros. induction l as [|x l IH]; cbn; auto.
  change (fold_right (insert_by kb) [] (map g l)) with (sort_by kb (map g l)).
  change (fold_right (insert_by (fun a => kb (g a))) [] l) with (sort_by (fun a => kb (g a)) l).
  rewrite IH. generalize (sort_by (fun a => kb (g a)) l). intro m.
  induction m as [|z m IHm]; cbn; auto. destruct (lex_le (kb (g x)) (kb (g z))); cbn; auto. rewrite IHm; auto.
Qed.

Lemma sort_by_ext : forall {A} (k1 k2 : A -> list Z) l, (forall a, In a l -> k1 a = k2 a) -> sort_by k1 l = sort_by k2 l.
Proof.
  intros A k1 k2 l. induction l as [|x l IH]; intro H; cbn; auto.
  change (fold_right (insert_by k1) [] l) with (sort_by k1 l).
  change (fold_right (insert_by k2) [] l) with (sort_by k2 l).
  rewrite <- IH by (intros; apply H; cbn; auto).
  assert (HS : forall a, In a (sort_by k1 l) -> k1 a = k2 a).
  { intros a Ha. apply H. right. exact (proj1 (sort_by_in k1 l a) Ha). }
  assert (Hx : k1 x = k2 x) by (apply H; cbn; auto).
  revert HS. generalize (sort_by k1 l). intro m. induction m as [|z m IHm]; intro HS; cbn; auto.
  rewrite Hx, (HS z) by (cbn; auto). destruct (lex_le (k2 x) (k2 z)); auto. f_equal. apply IHm. intros; apply HS; cbn; auto.
Qed.

Lemma sort_by_nokey : forall {A} (key : A -> list Z) l, (forall a, In a l -> key a = []) -> sort_by key l = l.
Proof.
  intros. apply sort_by_sorted_id. apply sorted_all_le. intros a b Ha Hb. unfold kle. rewrite (H a Ha). reflexivity.
Qed.

Lemma filter_all_id : forall {A} (f : A -> bool) l, (forall y, In y l -> f y = true) -> filter f l = l.
Proof. induction l as [|a l IH]; intro H; cbn; auto. rewrite (H a) by (cbn; auto). f_equal. apply IH. intros; apply H; cbn; auto. Qed.

(* ---------------------------------------------------------------- uniq *)
Section Uniq.
  Context {A : Type}.
  Variable key : A -> list Z.

  Definition other (x y : A) : bool := negb (lz_eqb (key y) (key x)).
  Lemma uniq_by_cons : forall x r, uniq_by key (x :: r) = x :: filter (other x) (uniq_by key r).
  Proof. reflexivity. Qed.

  Lemma uniq_by_in : forall l x, In x (uniq_by key l) -> In x l.
  Proof.
    induction l as [|a l IH]; intros x H; [contradiction|]. rewrite uniq_by_cons in H.
    destruct H as [->|H]; cbn; auto. apply filter_In in H as [H _]. auto.
  Qed.
  Lemma uniq_by_complete : forall l x, In x l -> exists y, In y (uniq_by key l) /\ key y = key x.
  Proof.
    induction l as [|a l IH]; intros x H; [contradiction|]. rewrite uniq_by_cons.
    destruct H as [->|H]; [exists x; cbn; auto|].
    destruct (IH x H) as [y [Hy Ky]].
    destruct (lz_eqb (key y) (key a)) eqn:E.
    - apply lz_eqb_eq in E. exists a. cbn. split; auto. congruence.
    - exists y. split; auto. right. apply filter_In. split; auto. unfold other. rewrite E. auto.
  Qed.
  Lemma uniq_by_nodup : forall l, NoDup (map key (uniq_by key l)).
  Proof.
    induction l as [|a l IH]; [constructor|]. rewrite uniq_by_cons. cbn. constructor.
    - intro Hin. apply in_map_iff in Hin as [y [Ky Hy]]. apply filter_In in Hy as [_ Hy].
      unfold other in Hy. rewrite Ky, lz_eqb_refl in Hy. discriminate.
    - clear -IH. induction (uniq_by key l) as [|b m IHm]; cbn; [constructor|].
      inversion IH; subst. destruct (other a b); cbn; auto. constructor; auto.
      intro Hin. apply H1. apply in_map_iff in Hin as [y [Ky Hy]]. apply filter_In in Hy as [Hy _].
      rewrite <- Ky. apply in_map; auto.
  Qed.

  Definition key_inj (l : list A) : Prop := forall a b, In a l -> In b l -> key a = key b -> a = b.
  Lemma uniq_by_in_iff : forall l, key_inj l -> forall x, In x (uniq_by key l) <-> In x l.
  Proof.
    intros l KI x. split; [apply uniq_by_in|]. intro H.
    destruct (uniq_by_complete l x H) as [y [Hy Ky]].
    assert (y = x) by (apply KI; auto using uniq_by_in). subst; auto.
  Qed.

  Lemma uniq_by_nodup_id : forall l, NoDup (map key l) -> uniq_by key l = l.
  Proof.
    induction l as [|a l IH]; intro ND; auto. inversion ND; subst. rewrite uniq_by_cons, IH by auto. f_equal.
    apply filter_all_id. intros y Hy. unfold other.
    destruct (lz_eqb (key y) (key a)) eqn:E; auto. apply lz_eqb_eq in E. exfalso. apply H1. rewrite <- E. apply in_map; auto.
  Qed.
  Lemma uniq_by_idem : forall l, uniq_by key (uniq_by key l) = uniq_by key l.
  Proof. intro. apply uniq_by_nodup_id. apply uniq_by_nodup. Qed.

  Lemma filter_comm : forall (f g : A -> bool) l, filter f (filter g l) = filter g (filter f l).
  Proof. induction l as [|a l IH]; cbn; auto. destruct (f a) eqn:Fa, (g a) eqn:Ga; cbn; rewrite ?Fa, ?Ga, IH; auto. Qed.

  Lemma uniq_by_filter : forall f, (forall a b, key a = key b -> f a = f b) ->
    forall l, uniq_by key (filter f l) = filter f (uniq_by key l).
  Proof.
    intros f Hf. induction l as [|a l IH]; auto. cbn [filter]. destruct (f a) eqn:Fa.
    - rewrite !uniq_by_cons. cbn [filter]. rewrite Fa, IH. f_equal. apply filter_comm.
    - rewrite uniq_by_cons. cbn [filter]. rewrite Fa, IH. rewrite (filter_comm f (other a)).
      symmetry. apply filter_all_id. intros y Hy.
      apply filter_In in Hy as [_ Fy]. unfold other. destruct (lz_eqb (key y) (key a)) eqn:E; auto.
      apply lz_eqb_eq in E. rewrite (Hf y a E) in Fy. congruence.
  Qed.

  Lemma uniq_by_sorted : forall (k2 : A -> list Z) l, sorted k2 l -> sorted k2 (uniq_by key l).
  Proof.
    induction l as [|a l IH]; intro S; [constructor|]. inversion S as [|? ? S' F]; subst. rewrite uniq_by_cons.
    constructor.
    - apply sorted_filter. auto.
    - rewrite Forall_forall in *. intros y Hy. apply filter_In in Hy as [Hy _]. apply uniq_by_in in Hy. auto.
  Qed.

  Lemma firstn_filter_in : forall (g : A -> bool) n m y, In y (firstn n m) -> g y = true -> In y (firstn n (filter g m)).
  Proof.
    induction n as [|n IH]; intros [|b m] y H G; cbn in *; try contradiction.
    destruct H as [->|H].
    - rewrite G. cbn; auto.
    - destruct (g b); [right; apply IH; auto|].
      specialize (IH m y H G). destruct (filter g m) as [|c m']; cbn in *; [destruct n; auto|].
      destruct n; cbn in *; [contradiction|]. destruct IH as [->|IH']; auto. right.
      clear -IH'. revert m' IH'. induction n as [|n IHn]; intros [|d m'] H; cbn in *; try contradiction.
      destruct H as [->|H]; auto.
  Qed.

  (* LIMIT n after DISTINCT covers LIMIT n before it *)
  Lemma firstn_uniq_covers : forall l n x, In x (firstn n l) -> exists y, In y (firstn n (uniq_by key l)) /\ key y = key x.
  Proof.
    induction l as [|a l IH]; intros [|n] x H; cbn [firstn] in H; try contradiction.
    rewrite uniq_by_cons. cbn [firstn]. destruct H as [->|H]; [exists x; cbn; auto|].
    destruct (IH n x H) as [y [Hy Ky]].
    destruct (lz_eqb (key y) (key a)) eqn:E.
    - apply lz_eqb_eq in E. exists a. cbn. split; auto. congruence.
    - exists y. split; auto. right. apply firstn_filter_in; auto. unfold other. rewrite E. auto.
  Qed.
End Uniq.

Lemma uniq_by_map : forall {A B} (kb : B -> list Z) (g : A -> B) (l : list A),
  uniq_by kb (map g l) = map g (uniq_by (fun a => kb (g a)) l).
Proof.
  intros. induction l as [|x l IH]; auto. cbn [map]. rewrite !uniq_by_cons, IH. cbn [map]. f_equal.
  generalize (uniq_by (fun a => kb (g a)) l). intro m. unfold other. induction m as [|z m IHm]; auto.
  cbn [map filter]. destruct (lz_eqb (kb (g z)) (kb (g x))); cbn [negb map]; rewrite IHm; auto.
Qed.

Lemma uniq_by_ext : forall {A} (k1 k2 : A -> list Z) l, (forall a b, In a l -> In b l -> lz_eqb (k1 a) (k1 b) = lz_eqb (k2 a) (k2 b)) ->
  uniq_by k1 l = uniq_by k2 l.
Proof.
  intros A k1 k2. induction l as [|x l IH]; intro H; auto. rewrite !uniq_by_cons. f_equal.
  rewrite <- IH by (intros; apply H; cbn; auto).
  apply filter_ext_in. intros y Hy. unfold other. f_equal. apply H; cbn; auto. right. eapply uniq_by_in; eauto.
Qed.

(* ---------------------------------------------------------------- set equality, uniqueness of sorted lists *)
Definition eqset {A} (l1 l2 : list A) : Prop := forall x, In x l1 <-> In x l2.

Lemma eqset_refl : forall {A} (l : list A), eqset l l.
Proof. intros A l x; tauto. Qed.
Lemma eqset_sym : forall {A} (l1 l2 : list A), eqset l1 l2 -> eqset l2 l1.
Proof. intros A l1 l2 H x. specialize (H x). tauto. Qed.
Lemma eqset_trans : forall {A} (l1 l2 l3 : list A), eqset l1 l2 -> eqset l2 l3 -> eqset l1 l3.
Proof. intros A l1 l2 l3 H1 H2 x. specialize (H1 x). specialize (H2 x). tauto. Qed.
Lemma eqset_flat_map : forall {A B} (f : A -> list B) l1 l2, eqset l1 l2 -> eqset (flat_map f l1) (flat_map f l2).
Proof. intros A B f l1 l2 H x. rewrite !in_flat_map. split; intros [y [Hy Hx]]; exists y; split; auto; apply H; auto. Qed.
Lemma eqset_filter : forall {A} (f : A -> bool) l1 l2, eqset l1 l2 -> eqset (filter f l1) (filter f l2).
Proof. intros A f l1 l2 H x. rewrite !filter_In. specialize (H x). tauto. Qed.
Lemma eqset_map : forall {A B} (f : A -> B) l1 l2, eqset l1 l2 -> eqset (map f l1) (map f l2).
Proof. intros A B f l1 l2 H x. rewrite !in_map_iff. split; intros [y [Hy Hx]]; exists y; split; auto; apply H; auto. Qed.
Lemma eqset_sort_by : forall {A} (key : A -> list Z) l, eqset (sort_by key l) l.
Proof. intros A key l x. apply sort_by_in. Qed.
Lemma eqset_nil : forall {A} (l : list A), eqset l [] -> l = [].
Proof. intros A [|a l] H; auto. exfalso. apply (H a). cbn; auto. Qed.

Lemma sorted_unique : forall {A} (key : A -> list Z) (l1 l2 : list A),
  sorted key l1 -> sorted key l2 -> NoDup l1 -> NoDup l2 -> eqset l1 l2 ->
  (forall a b, In a l1 -> In b l1 -> key a = key b -> a = b) -> l1 = l2.
Proof.
  intros A key. induction l1 as [|a r1 IH]; intros l2 S1 S2 N1 N2 E KI.
  - symmetry. apply eqset_nil. apply eqset_sym; auto.
  - destruct l2 as [|b r2]; [exfalso; apply (E a); cbn; auto|].
    inversion S1 as [|? ? S1' F1]; inversion S2 as [|? ? S2' F2]; subst.
    inversion N1; inversion N2; subst. rewrite Forall_forall in F1, F2.
    assert (Hab : a = b).
    { assert (Hb : In b (a :: r1)) by (apply E; cbn; auto).
      assert (Ha : In a (b :: r2)) by (apply E; cbn; auto).
      destruct Hb as [Hb|Hb]; auto. destruct Ha as [Ha|Ha]; auto.
      apply KI; cbn; auto. apply lex_le_antisym; [apply F1|apply F2]; auto. }
    subst b. f_equal. apply IH; auto.
    + intro x. split; intro Hx.
      * assert (Hx' : In x (a :: r2)) by (apply E; cbn; auto). destruct Hx'; auto. subst. contradiction.
      * assert (Hx' : In x (a :: r1)) by (apply E; cbn; auto). destruct Hx'; auto. subst. contradiction.
    + intros; apply KI; cbn; auto.
Qed.

Lemma nodup_alleq_unique : forall {A} (l1 l2 : list A), NoDup l1 -> NoDup l2 -> eqset l1 l2 ->
  (forall a b, In a l1 -> In b l1 -> a = b) -> l1 = l2.
Proof.
  intros A l1 l2 N1 N2 E H.
  assert (L : forall l : list A, NoDup l -> (forall a b, In a l -> In b l -> a = b) -> l = [] \/ exists a, l = [a]).
  { intros [|a [|b l]] N Hl; auto; [right; eexists; eauto|].
    exfalso. inversion N; subst. apply H2. rewrite (Hl a b); cbn; auto. }
  assert (H2 : forall a b, In a l2 -> In b l2 -> a = b) by (intros; apply H; apply E; auto).
  destruct (L l1 N1 H) as [->|[a ->]], (L l2 N2 H2) as [->|[b ->]]; auto.
  - exfalso. apply (E b). cbn; auto.
  - exfalso. apply (E a). cbn; auto.
  - f_equal. apply H; [cbn; auto|apply E; cbn; auto].
Qed.

Lemma NoDup_map_key : forall {A B} (f : A -> B) l, NoDup (map f l) -> NoDup l.
Proof. intros A B f l. apply NoDup_map_inv. Qed.

Lemma sorted_map : forall {A B} (ka : A -> list Z) (kb : B -> list Z) (g : A -> B) l,
  sorted ka l -> (forall a b, In a l -> In b l -> kle ka a b -> kle kb (g a) (g b)) -> sorted kb (map g l).
Proof.
  intros A B ka kb g. induction l as [|x l IH]; intros S H; cbn; [constructor|].
  inversion S as [|? ? S' F]; subst. constructor.
  - apply IH; auto. intros; apply H; cbn; auto.
  - apply Forall_forall. intros y Hy. apply in_map_iff in Hy as [z [<- Hz]].
    rewrite Forall_forall in F. apply H; cbn; auto.
Qed.

(* ---------------------------------------------------------------- slice, chunks *)
Lemma slice_map : forall {A B} (f : A -> B) lim off l, slice lim off (map f l) = map f (slice lim off l).
Proof.
  intros. unfold slice. destruct off, lim; rewrite ?skipn_map, ?firstn_map; auto.
Qed.
Lemma firstn_in : forall {A} n (l : list A) x, In x (firstn n l) -> In x l.
Proof. induction n as [|n IH]; intros [|a l] x H; cbn in *; try contradiction. destruct H; auto. Qed.
Lemma skipn_in : forall {A} n (l : list A) x, In x (skipn n l) -> In x l.
Proof. induction n as [|n IH]; intros [|a l] x H; cbn in *; auto. Qed.
Lemma slice_in : forall {A} lim off (l : list A) x, In x (slice lim off l) -> In x l.
Proof.
  intros A lim off l x H. unfold slice in H.
  assert (H0 : In x (match off with Some n => skipn n l | None => l end)).
  { destruct lim; auto. eapply firstn_in; eauto. }
  destruct off; auto. eapply skipn_in; eauto.
Qed.
Lemma slice_none : forall {A} (l : list A), slice None None l = l.
Proof. reflexivity. Qed.

Lemma chunks_fuel_concat : forall {A} fuel n (l : list A), (1 <= n)%nat -> (length l <= fuel)%nat ->
  concat (chunks_fuel fuel n l) = l.
Proof.
  induction fuel as [|f IH]; intros n l Hn Hl.
  - destruct l; cbn in *; auto. lia.
  - destruct l as [|a l]; auto. cbn [chunks_fuel concat]. rewrite IH; auto.
    + apply firstn_skipn.
    + rewrite skipn_length. cbn [length] in *. lia.
Qed.
Lemma chunks_concat : forall {A} n (l : list A), (1 <= n)%nat -> concat (chunks n l) = l.
Proof. intros. apply chunks_fuel_concat; auto. Qed.

(* lookups in association lists all of whose entries are right *)
Lemma lookup_key_all : forall {B} (G : Z -> list B) assoc k,
  (forall p, In p assoc -> snd p = G (fst p)) -> (exists p, In p assoc /\ fst p = k) ->
  lookup_key assoc (Some k) = G k.
Proof.
  intros B G assoc k Hall [p [Hp Hk]]. unfold lookup_key.
  destruct (find (fun p => fst p =? k) assoc) as [q|] eqn:E.
  - apply find_some in E as [Hq E]. apply Z.eqb_eq in E. rewrite (Hall q Hq). congruence.
  - exfalso. eapply find_none in E; eauto. rewrite Hk, Z.eqb_refl in E. discriminate.
Qed.

Lemma somes_in : forall {A} (l : list (option A)) x, In x (somes l) <-> In (Some x) l.
Proof.
  induction l as [|[a|] l IH]; intro x; cbn; [tauto| |].
  - rewrite IH. split; intros [H|H]; auto; left; congruence.
  - rewrite IH. split; [auto|]. intros [H|H]; auto. discriminate.
Qed.

Lemma memZ_in : forall x l, memZ x l = true <-> In x l.
Proof.
  intros. unfold memZ. rewrite existsb_exists. split.
  - intros [y [Hy E]]. apply Z.eqb_eq in E. subst; auto.
  - intro H. exists x. split; auto. apply Z.eqb_refl.
Qed.

Lemma dedupeZ_in : forall l x, In x (dedupeZ l) <-> In x l.
Proof.
  intros. unfold dedupeZ. apply uniq_by_in_iff. intros a b _ _ H. congruence.
Qed.
