(* C39 - orm/util.py CascadeOptions.__new__ / from_string : option names -> the six flags.
   Option names are numbered 0 save-update, 1 merge, 2 expunge, 3 delete, 4 delete-orphan, 5 refresh-expire,
   6 all, 7 none.  The three tables are parameters so that the run-time translator (specs/c39.py) can
   instantiate them with what it reads from the source. *)
From Coq Require Import List Bool Arith.
From SAV.orm Require Import Cascade.
Import ListNotations.

Definition all_cascades : list nat := [0; 1; 2; 3; 4; 5; 6; 7].
Definition all_minus : list nat := [4; 6; 7].             (* all_cascades.difference(["all","none","delete-orphan"]) *)
Definition flag_names : list nat := [0; 1; 2; 3; 4; 5].   (* save_update, merge, expunge, delete, delete_orphan, refresh_expire *)

(* result: None = ArgumentError (invalid option), Some (flags, warning "delete-orphan requires delete") *)
Definition norm_values (allc minus vs : list nat) : list nat :=
  let add_w_all := filter (fun v => negb (mem v minus)) allc in
  let v1 := if mem 6 vs then vs ++ add_w_all else vs in       (* if "all" in values: values.update(_add_w_all_cascades) *)
  let v2 := if mem 7 v1 then [] else v1 in                    (* if "none" in values: values.clear() *)
  filter (fun v => negb (Nat.eqb v 6)) v2.                    (* values.discard("all") *)

Definition parse_with (allc minus flags : list nat) (vs : list nat) : option (casc * bool) :=
  if existsb (fun v => negb (mem v allc)) vs then None
  else
    let v3 := norm_values allc minus vs in
    let f k := mem (nth k flags 99) v3 in
    let c := mkCasc (f 0) (f 1) (f 2) (f 3) (f 4) (f 5) in
    Some (c, c_do c && negb (c_dl c)).

Definition parse_options : list nat -> option (casc * bool) := parse_with all_cascades all_minus flag_names.

Fixpoint list_eqb (a b : list nat) : bool :=
  match a, b with
  | [], [] => true
  | x :: a', y :: b' => Nat.eqb x y && list_eqb a' b'
  | _, _ => false
  end.
Definition opts_tables_ok (allc minus flags : list nat) : bool :=
  list_eqb allc all_cascades && list_eqb minus all_minus && list_eqb flags flag_names.
