(* C42: what the tables written by [store] contain; sorting; generic list facts *)
From Coq Require Import List ZArith Bool Arith Lia Permutation Sorted.
Import ListNotations.
From SAV.orm Require Import Poly PolyTree.

Definition wf_objs (h : hier) (objs : list sobj) : Prop :=
  NoDup (map s_pk objs) /\ forall o, In o objs -> s_cls o < length h.

(* ---------- generic ---------- *)
Lemma find_keyed : forall (A : Type) (g : nat -> A) (l : list nat) (t : nat),
  find (fun p : nat * A => Nat.eqb (fst p) t) (map (fun x => (x, g x)) l) =
  if memn t l then Some (t, g t) else None.
Proof.
  intros A g l t. induction l as [|x l IH]; [reflexivity|].
  cbn [map find fst]. unfold memn. cbn [existsb].
  destruct (Nat.eqb x t) eqn:E.
  - apply Nat.eqb_eq in E. subst. rewrite Nat.eqb_refl. reflexivity.
  - rewrite Nat.eqb_sym, E. cbn [orb]. exact IH.
Qed.

Lemma filter_map_swap : forall (A B : Type) (f : A -> B) (P : B -> bool) (l : list A),
  filter P (map f l) = map f (filter (fun x => P (f x)) l).
Proof.
  intros. induction l as [|x l IH]; [reflexivity|]. cbn [map filter].
  destruct (P (f x)); cbn [map]; rewrite IH; reflexivity.
Qed.

Lemma filter_ext_in' : forall (A : Type) (P Q : A -> bool) (l : list A),
  (forall x, In x l -> P x = Q x) -> filter P l = filter Q l.
Proof.
  intros A P Q l H. induction l as [|x l IH]; [reflexivity|]. cbn [filter].
  rewrite (H x (or_introl eq_refl)). rewrite IH; [reflexivity|].
  intros y Hy. apply H. right. exact Hy.
Qed.

Lemma filter_all : forall (A : Type) (P : A -> bool) (l : list A),
  (forall x, In x l -> P x = true) -> filter P l = l.
Proof.
  intros A P l H. induction l as [|x l IH]; [reflexivity|]. cbn [filter].
  rewrite (H x (or_introl eq_refl)). f_equal. apply IH. intros y Hy. apply H. right. exact Hy.
Qed.

Lemma Permutation_filter' : forall (A : Type) (P : A -> bool) (l l' : list A),
  Permutation l l' -> Permutation (filter P l) (filter P l').
Proof.
  intros A P l l' H. induction H.
  - constructor.
  - cbn [filter]. destruct (P x); [constructor|]; exact IHPermutation.
  - cbn [filter]. destruct (P x), (P y); try apply Permutation_refl; try constructor; try apply Permutation_refl.
  - eapply Permutation_trans; eassumption.
Qed.

(* ---------- ORDER BY id ---------- *)
Lemma insert_row_perm : forall r l, Permutation (insert_row r l) (r :: l).
Proof.
  intros r l. induction l as [|x l IH]; [apply Permutation_refl|]. cbn [insert_row].
  destruct (Z.leb (rpk r) (rpk x)); [apply Permutation_refl|].
  eapply Permutation_trans; [apply perm_skip; exact IH | apply perm_swap].
Qed.

Lemma sort_rows_perm : forall l, Permutation (sort_rows l) l.
Proof.
  induction l as [|x l IH]; [constructor|]. cbn [sort_rows fold_right].
  eapply Permutation_trans; [apply insert_row_perm|]. constructor. exact IH.
Qed.

Definition row_le (a b : row) : Prop := (rpk a <= rpk b)%Z.

Lemma insert_row_sorted : forall r l, StronglySorted row_le l -> StronglySorted row_le (insert_row r l).
Proof.
  intros r l H. induction H as [|x l Hs IH Hall].
  - cbn. constructor; constructor.
  - cbn [insert_row]. destruct (Z.leb (rpk r) (rpk x)) eqn:E.
    + apply Z.leb_le in E. constructor; [constructor; assumption|].
      constructor; [exact E|]. rewrite Forall_forall in *. intros y Hy. specialize (Hall y Hy).
      unfold row_le in *. lia.
    + apply Z.leb_gt in E. constructor; [exact IH|].
      rewrite Forall_forall in *. intros y Hy.
      apply (Permutation_in _ (insert_row_perm r l)) in Hy. destruct Hy as [Hy|Hy].
      * subst. unfold row_le. lia.
      * apply Hall. exact Hy.
Qed.

Lemma sort_rows_sorted : forall l, StronglySorted row_le (sort_rows l).
Proof.
  induction l as [|x l IH]; [constructor|]. cbn [sort_rows fold_right]. apply insert_row_sorted. exact IH.
Qed.

Lemma filter_sorted : forall (P : row -> bool) l, StronglySorted row_le l -> StronglySorted row_le (filter P l).
Proof.
  intros P l H. induction H as [|x l Hs IH Hall]; [constructor|]. cbn [filter].
  destruct (P x); [|exact IH]. constructor; [exact IH|].
  rewrite Forall_forall in *. intros y Hy. apply filter_In in Hy. apply Hall. tauto.
Qed.

Lemma sorted_map_pk : forall l, StronglySorted row_le l -> StronglySorted Z.le (map rpk l).
Proof.
  intros l H. induction H as [|x l Hs IH Hall]; [constructor|]. cbn [map]. constructor; [exact IH|].
  rewrite Forall_forall in *. intros y Hy. apply in_map_iff in Hy. destruct Hy as [z [Hz Hin]]. subst.
  apply Hall. exact Hin.
Qed.

(* ---------- store ---------- *)
Section Store.
Variable h : hier.
Hypothesis Hwf : wf_hier h.
Variable objs : list sobj.
Hypothesis Hobjs : wf_objs h objs.

Definition objs_of (t : nat) : list sobj := filter (fun o => isa h (s_cls o) t) objs.

Lemma tbl_store : forall t,
  tbl (store h objs) t =
  if joined h t && Nat.ltb t (length h) then map (mkrow h t) (objs_of t) else [].
Proof.
  intros t. unfold tbl, store.
  rewrite (find_keyed _ (fun t => map (mkrow h t) (filter (fun o => isa h (s_cls o) t) objs))).
  destruct (memn t (filter (joined h) (seq 0 (length h)))) eqn:E.
  - apply memn_In in E. apply filter_In in E. destruct E as [Hs Hj]. apply in_seq in Hs.
    rewrite Hj. assert (Nat.ltb t (length h) = true) by (apply Nat.ltb_lt; lia). rewrite H. reflexivity.
  - destruct (joined h t && Nat.ltb t (length h)) eqn:E2; [|reflexivity].
    apply andb_true_iff in E2. destruct E2 as [Hj Hl]. apply Nat.ltb_lt in Hl.
    assert (memn t (filter (joined h) (seq 0 (length h))) = true).
    { apply memn_In. apply filter_In. split; [apply in_seq; lia | exact Hj]. }
    congruence.
Qed.

Lemma find_row_absent : forall (mk : sobj -> row) (P : sobj -> bool) (l : list sobj) pk,
  (forall o, rpk (mk o) = s_pk o) -> ~ In pk (map s_pk l) ->
  find_row (map mk (filter P l)) pk = None.
Proof.
  intros mk P l pk Hmk Hn. induction l as [|x l IH]; [reflexivity|].
  cbn [filter]. cbn [map] in Hn. destruct (P x).
  - cbn [map]. unfold find_row. cbn [find]. rewrite Hmk.
    destruct (Z.eqb (s_pk x) pk) eqn:E.
    + apply Z.eqb_eq in E. exfalso. apply Hn. left. exact E.
    + apply IH. intros H. apply Hn. right. exact H.
  - apply IH. intros H. apply Hn. right. exact H.
Qed.

Lemma find_row_store : forall (mk : sobj -> row) (P : sobj -> bool) (l : list sobj) o,
  (forall o, rpk (mk o) = s_pk o) -> NoDup (map s_pk l) -> In o l ->
  find_row (map mk (filter P l)) (s_pk o) = if P o then Some (mk o) else None.
Proof.
  intros mk P l o Hmk Hnd Hin. induction l as [|x l IH]; [destruct Hin|].
  cbn [map] in Hnd. inversion Hnd as [|? ? Hx Hnd']; subst.
  destruct Hin as [Hin|Hin].
  - subst x. cbn [filter]. destruct (P o).
    + cbn [map]. unfold find_row. cbn [find]. rewrite Hmk, Z.eqb_refl. reflexivity.
    + apply find_row_absent; assumption.
  - assert (Hne : s_pk x <> s_pk o).
    { intros E. apply Hx. rewrite E. apply in_map. exact Hin. }
    cbn [filter]. destruct (P x).
    + cbn [map]. unfold find_row. cbn [find]. rewrite Hmk.
      destruct (Z.eqb (s_pk x) (s_pk o)) eqn:E; [apply Z.eqb_eq in E; contradiction|].
      apply IH; assumption.
    + apply IH; assumption.
Qed.

Lemma find_row_tbl : forall t o, In o objs ->
  find_row (tbl (store h objs) t) (s_pk o) =
  if joined h t && Nat.ltb t (length h) && isa h (s_cls o) t then Some (mkrow h t o) else None.
Proof.
  intros t o Hin. rewrite tbl_store. destruct (joined h t && Nat.ltb t (length h)); [|reflexivity].
  cbn [andb]. unfold objs_of.
  apply (find_row_store (mkrow h t) (fun o => isa h (s_cls o) t) objs o); [reflexivity | apply Hobjs | exact Hin].
Qed.

Lemma has_row_store : forall t o, In o objs ->
  has_row (store h objs) t (s_pk o) = joined h t && Nat.ltb t (length h) && isa h (s_cls o) t.
Proof.
  intros t o Hin. unfold has_row. rewrite (find_row_tbl t o Hin).
  destruct (joined h t && Nat.ltb t (length h) && isa h (s_cls o) t); reflexivity.
Qed.

Lemma assoc_v_map : forall (f : nat -> option Z) (l : list nat) a, In a l ->
  assoc_v (map (fun a => (a, f a)) l) a = f a.
Proof.
  intros f l a Hin. unfold assoc_v. induction l as [|x l IH]; [destruct Hin|].
  cbn [map find fst]. destruct (Nat.eqb x a) eqn:E.
  - apply Nat.eqb_eq in E. subst. reflexivity.
  - destruct Hin as [Hin|Hin]; [subst; rewrite Nat.eqb_refl in E; discriminate|]. apply IH. exact Hin.
Qed.

Lemma db_get_store : forall o a, In o objs -> isa h (s_cls o) a = true ->
  db_get (store h objs) (owner h a) (s_pk o) a = s_val o a.
Proof.
  intros o a Hin Ha. unfold db_get. rewrite (find_row_tbl (owner h a) o Hin).
  assert (Hc : s_cls o < length h) by (apply Hobjs; exact Hin).
  assert (Ho : isa h (s_cls o) (owner h a) = true).
  { apply isa_trans with a; [exact Hwf | exact Ha | apply isa_owner; exact Hwf]. }
  rewrite (owner_is_joined h Hwf a), Ho.
  assert (Hl : Nat.ltb (owner h a) (length h) = true).
  { apply Nat.ltb_lt. pose proof (isa_le h Hwf _ _ Ho). lia. }
  rewrite Hl. cbn [andb]. unfold mkrow. cbn [rvals].
  apply assoc_v_map. apply filter_In. split.
  - apply in_path_isa; assumption.
  - apply Nat.eqb_refl.
Qed.

Lemma tbl0_store : tbl (store h objs) 0 = map (mkrow h 0) objs.
Proof.
  rewrite tbl_store. destruct Hwf as (Hlen & Hj & _). rewrite Hj.
  assert (Nat.ltb 0 (length h) = true) by (apply Nat.ltb_lt; exact Hlen). rewrite H. cbn [andb].
  unfold objs_of. rewrite filter_all; [reflexivity|].
  intros o Ho. apply isa_root; [exact Hwf | apply Hobjs; exact Ho].
Qed.

End Store.
