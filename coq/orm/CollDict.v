(* C38 - model of orm/collections.py::_dict_decorators (KeyFuncDict / any dict-based collection
   class) and the builtin dict.  A dict is an association list with unique keys in insertion
   order (observable through popitem() and iteration). *)
From Coq Require Import List ZArith Bool.
Import ListNotations.
From SAV.base Require Import PySlice.
From SAV.orm Require Import CollBase.
Open Scope Z_scope.

Notation key := Z (only parsing).
Definition pydict := list (key * item).

(* the positional argument of update() *)
Inductive dupd :=
| UNone                       (* omitted *)
| UMap (m : pydict)           (* a mapping (has .keys()) *)
| UPairs (p : list (key * item)).   (* an iterable of (key, value) pairs, keys may repeat *)

Inductive dop :=
| DSetItem (k : key) (v : item)
| DDelItem (k : key)
| DClear
| DPop (k : key) (dflt : option item)
| DPopItem
| DSetDefault (k : key) (v : item)
| DUpdate (u : dupd) (kw : pydict)
| DIor (m : pydict).          (* d |= m *)

(* ---------- builtin dict ---------- *)
Fixpoint d_get (k : key) (d : pydict) : option item :=
  match d with
  | [] => None
  | (k', v) :: r => if Z.eqb k k' then Some v else d_get k r
  end.
Definition d_has (k : key) (d : pydict) : bool :=
  match d_get k d with Some _ => true | None => false end.
(* d[k] = v : an existing key keeps its position *)
Fixpoint d_set (k : key) (v : item) (d : pydict) : pydict :=
  match d with
  | [] => [(k, v)]
  | (k', v') :: r => if Z.eqb k k' then (k, v) :: r else (k', v') :: d_set k v r
  end.
Definition d_del (k : key) (d : pydict) : pydict := filter (fun kv => negb (Z.eqb k (fst kv))) d.
Definition d_update (d : pydict) (kvs : list (key * item)) : pydict :=
  fold_left (fun acc kv => d_set (fst kv) (snd kv) acc) kvs d.
Definition d_values (d : pydict) : list item := map snd d.
(* last inserted item *)
Definition d_last (d : pydict) : option (key * item) :=
  match rev d with [] => None | kv :: _ => Some kv end.

Definition upd_pairs (u : dupd) : list (key * item) :=
  match u with UNone => [] | UMap m => m | UPairs p => p end.

Definition py_dict_op (d : pydict) (op : dop) : res retv * pydict :=
  match op with
  | DSetItem k v => (Ok RNone, d_set k v d)
  | DDelItem k => if d_has k d then (Ok RNone, d_del k d) else (Raise KeyError, d)
  | DClear => (Ok RNone, [])
  | DPop k dflt =>
      match d_get k d, dflt with
      | Some v, _ => (Ok (RItem v), d_del k d)
      | None, Some v => (Ok (RItem v), d)
      | None, None => (Raise KeyError, d)
      end
  | DPopItem =>
      match d_last d with
      | None => (Raise KeyError, d)
      | Some (k, v) => (Ok (RPair k v), d_del k d)
      end
  | DSetDefault k v =>
      match d_get k d with
      | Some v' => (Ok (RItem v'), d)
      | None => (Ok (RItem v), d_set k v d)
      end
  | DUpdate u kw => (Ok RNone, d_update (d_update d (upd_pairs u)) kw)
  | DIor m => (Ok RSelf, d_update d m)
  end.

(* ---------- the instrumented dict ---------- *)
Definition DM := M pydict.

(* __setitem__: if key in self: __del(self, self[key], ..);  value = __set(..);  fn(self, key, value) *)
Definition sa_dsetitem (k : key) (v : item) : DM unit :=
  d <- get ;;
  (match d_get k d with Some old => fire (ERem old) | None => ret tt end) ;;;
  fire (EAdd v) ;;;
  put (d_set k v d).

(* __delitem__: if key in self: __del(self, self[key], ..);  fn(self, key) *)
Definition sa_ddelitem (k : key) : DM unit :=
  d <- get ;;
  (match d_get k d with Some old => fire (ERem old) | None => ret tt end) ;;;
  lift (fun d => if d_has k d then Ok (tt, d_del k d) else Raise KeyError).

(* clear: for key in self: __del(self, self[key], None, key);  fn(self) *)
Definition sa_dclear : DM unit :=
  d <- get ;;
  for_each (d_values d) (fun v => fire (ERem v)) ;;;
  put [].

(* pop: __before_pop(self); _to_del = key in self
        item = fn(self, key) | fn(self, key, default)
        if _to_del: __del(self, item, None, key);  return item *)
Definition sa_dpop (k : key) (dflt : option item) : DM item :=
  d <- get ;;
  let to_del := d_has k d in
  it <- lift (fun d => match d_get k d, dflt with
                       | Some v, _ => Ok (v, d_del k d)
                       | None, Some v => Ok (v, d)
                       | None, None => Raise KeyError
                       end) ;;
  (if to_del then fire (ERem it) else ret tt) ;;;
  ret it.

(* popitem: __before_pop(self); item = fn(self); __del(self, item[1], None, 1); return item *)
Definition sa_dpopitem : DM (key * item) :=
  kv <- lift (fun d => match d_last d with
                       | None => Raise KeyError
                       | Some kv => Ok (kv, d_del (fst kv) d)
                       end) ;;
  fire (ERem (snd kv)) ;;;
  ret kv.

(* setdefault(key, default):
     if key not in self: self.__setitem__(key, default); return default
     else: value = self.__getitem__(key)
           if value is default: __set_wo_mutation(self, value, None)
           return value *)
Definition sa_dsetdefault (k : key) (v : item) : DM item :=
  d <- get ;;
  match d_get k d with
  | None => sa_dsetitem k v ;;; ret v
  | Some v' => (if Z.eqb v' v then fire (ESame v') else ret tt) ;;; ret v'
  end.

(* one step of update():
     if key not in self or self[key] is not value: self[key] = value
     else: __set_wo_mutation(self, value, None) *)
Definition sa_dupdate1 (kv : key * item) : DM unit :=
  d <- get ;;
  match d_get (fst kv) d with
  | Some v' => if Z.eqb v' (snd kv) then fire (ESame (snd kv)) else sa_dsetitem (fst kv) (snd kv)
  | None => sa_dsetitem (fst kv) (snd kv)
  end.

(* update(__other=NO_ARG, **kw): the positional mapping / pairs first, then the keywords *)
Definition sa_dupdate (u : dupd) (kw : pydict) : DM unit :=
  for_each (upd_pairs u) sa_dupdate1 ;;;
  for_each kw sa_dupdate1.

Definition sa_dict_op (op : dop) : DM retv :=
  match op with
  | DSetItem k v => sa_dsetitem k v ;;; ret RNone
  | DDelItem k => sa_ddelitem k ;;; ret RNone
  | DClear => sa_dclear ;;; ret RNone
  | DPop k dflt => it <- sa_dpop k dflt ;; ret (RItem it)
  | DPopItem => kv <- sa_dpopitem ;; ret (RPair (fst kv) (snd kv))
  | DSetDefault k v => it <- sa_dsetdefault k v ;; ret (RItem it)
  | DUpdate u kw => sa_dupdate u kw ;;; ret RNone
  | DIor m => sa_dupdate (UMap m) [] ;;; ret RSelf            (* __ior__: self.update(other); return self *)
  end.

Definition sa_dict_run1 (d : pydict) (op : dop) : res retv * pydict * list ev :=
  match sa_dict_op op (d, []) with (r, (d', g)) => (r, d', g) end.

Fixpoint sa_dict_run (ops : list dop) (s : st pydict) : list (res retv) * st pydict :=
  match ops with
  | [] => ([], s)
  | op :: r => match sa_dict_op op s with
               | (x, s') => let '(xs, s'') := sa_dict_run r s' in (x :: xs, s'')
               end
  end.
Fixpoint py_dict_run (ops : list dop) (d : pydict) : list (res retv) * pydict :=
  match ops with
  | [] => ([], d)
  | op :: r => match py_dict_op d op with
               | (x, d') => let '(xs, d'') := py_dict_run r d' in (x :: xs, d'')
               end
  end.

(* well-formed dict: unique keys *)
Definition d_wf (d : pydict) : Prop := NoDup (map fst d).
