(* C50 - witnesses for the regions excluded by the guards (each is reproduced on the implementation
   by the check). *)
From Coq Require Import List ZArith Bool Arith.
Import ListNotations.
From SAV.base Require Import PySlice.
From SAV.orm Require Import CollBase CollList CollSet CollDict OrderingList OrderingListProofs AssocProxy AssocProxyProofs.
Open Scope Z_scope.

(* an attached ordering list of three new entities, count_from = 0 *)
Definition ol3 (roa : bool) : ol := fold_left (ol_append 0 roa) [0; 1; 2] ol_empty.
Definition show (s : ol) : list (Z * option Z) := map (fun e => (e, pos s e)) (items s).

(* l[-1] = e7 : repaired by 60dfe78 (was: the negative index stored as the position, (7, Some (-1))) *)
Lemma setitem_negative_fixed :
  ol_guard false (ol3 false) (OSetItem (-1) 7) = true /\
  show (snd (ol_step 0 false true (ol3 false) (OSetItem (-1) 7))) = [(0, Some 0); (1, Some 1); (7, Some 2)].
Proof. vm_compute. split; reflexivity. Qed.

(* the inherited sort / reverse / *= never touch the positions *)
Lemma reverse_refuted :
  ol_guard false (ol3 false) OReverse = false /\
  show (snd (ol_step 0 false true (ol3 false) OReverse)) = [(2, Some 2); (1, Some 1); (0, Some 0)].
Proof. vm_compute. split; reflexivity. Qed.
Lemma sort_refuted :
  let s := snd (ol_step 0 false true (ol3 false) (OInsert 0 9)) in   (* entity 9 first: [9;0;1;2] *)
  ol_guard false s OSort = false /\
  show (snd (ol_step 0 false true s OSort)) = [(0, Some 1); (1, Some 2); (2, Some 3); (9, Some 0)].
Proof. vm_compute. split; reflexivity. Qed.
Lemma imul_refuted :
  ol_guard false (ol3 false) (OIMul 2) = false /\
  show (snd (ol_step 0 false true (ol3 false) (OIMul 2))) =
    [(0, Some 0); (1, Some 1); (2, Some 2); (0, Some 0); (1, Some 1); (2, Some 2)].
Proof. vm_compute. split; reflexivity. Qed.

(* reorder_on_append = False (the default): an entity that already has a position keeps it *)
Lemma append_positioned_refuted :
  let s := snd (ol_step 0 false true (ol3 false) (ORemove 0)) in
  ol_guard false s (OAppend 0) = false /\
  show (snd (ol_step 0 false true s (OAppend 0))) = [(1, Some 0); (2, Some 1); (0, Some 0)].
Proof. vm_compute. split; reflexivity. Qed.
(* ... with reorder_on_append = True it is renumbered *)
Lemma append_positioned_roa :
  let s := snd (ol_step 0 true true (ol3 true) (ORemove 0)) in
  show (snd (ol_step 0 true true s (OAppend 0))) = [(1, Some 0); (2, Some 1); (0, Some 2)].
Proof. vm_compute. reflexivity. Qed.

(* the class's own slice loop (bare instance): l[1:3] = [e8, e9] reads entities[1], entities[2] *)
Lemma bare_setslice_refuted :
  let r := ol_step 0 false false (ol3 false) (OSetSlice (mkslice (Some 1) (Some 3) None) [8; 9]) in
  fst r = Raise IndexError /\ show (snd r) = [(0, Some 0); (9, Some 1); (2, Some 2)] /\
  py_setslice [0; 1; 2] (mkslice (Some 1) (Some 3) None) [8; 9] = Ok [0; 8; 9].
Proof. vm_compute. repeat split; reflexivity. Qed.
(* the same assignment on an attached list goes through the collections wrapper and is right *)
Lemma attached_setslice_ok :
  show (snd (ol_step 0 false true (ol3 false) (OSetSlice (mkslice (Some 1) (Some 3) None) [8; 9])))
  = [(0, Some 0); (8, Some 1); (9, Some 2)].
Proof. vm_compute. reflexivity. Qed.

(* ---- proxies ---- *)
Definition px3 : px := pl_extend px_empty [1; 2; 3].

(* p[1:10] = [7] and p[-2:] = [7] : repaired by 99130b4 (was: IndexError after deleting two members) *)
Lemma proxy_setslice_fixed :
  let sl := mkslice (Some 1) (Some 10) None in
  pl_guard px3 (PSetSlice sl [7]) = true /\
  fst (pl_step px3 (PSetSlice sl [7])) = POk /\
  to_list (snd (pl_step px3 (PSetSlice sl [7]))) = [1; 7] /\
  plop_ref (to_list px3) (PSetSlice sl [7]) = (POk, [1; 7]).
Proof. vm_compute. repeat split; reflexivity. Qed.
Lemma proxy_setslice_negative_fixed :
  let sl := mkslice (Some (-2)) None None in
  pl_guard px3 (PSetSlice sl [7]) = true /\
  (fst (pl_step px3 (PSetSlice sl [7])), to_list (snd (pl_step px3 (PSetSlice sl [7])))) = (POk, [1; 7]) /\
  plop_ref (to_list px3) (PSetSlice sl [7]) = (POk, [1; 7]).
Proof. vm_compute. repeat split; reflexivity. Qed.
(* p *= -1 leaves the proxy unchanged, a list is emptied *)
Lemma proxy_imul_negative_refuted :
  pl_guard px3 (PIMul (-1)) = false /\
  to_list (snd (pl_step px3 (PIMul (-1)))) = [1; 2; 3] /\
  plop_ref (to_list px3) (PIMul (-1)) = (POk, []).
Proof. vm_compute. repeat split; reflexivity. Qed.

Definition pd1 : px := pd_setitem px_empty 0 5.
(* d.pop(key, default) with an absent key: repaired by f24ff68 (was: AttributeError, the getter applied to
   the default) *)
Lemma proxy_dict_pop_default_fixed :
  pd_guard pd1 (DPop 3 (Some 7)) = true /\
  pd_step pd1 (DPop 3 (Some 7)) = (DOk (Some 7), pd1) /\
  pdop_ref (to_dict pd1) (DPop 3 (Some 7)) = (DOk (Some 7), [(0, 5)]).
Proof. vm_compute. repeat split; reflexivity. Qed.

(* examples: the hypotheses of the guarded theorems are satisfiable *)
Lemma ol_guarded_example :
  let ops := [OAppend 7; OInsert 0 8; OSetSlice (mkslice (Some 1) (Some 3) None) [20; 21; 22]; ODelItem (-1);
              OSetItem 0 30; OExtend [31; 32]; OPop None; ORemove 20; ODelSlice (mkslice None None (Some 2)); OReorder] in
  ol_guarded 0 false true ops (ol3 false) = true /\
  show (ol_run 0 false true ops (ol3 false)) = [(21, Some 0); (2, Some 1)].
Proof. vm_compute. split; reflexivity. Qed.

Lemma wf_px3 : wf px3.
Proof. apply (extend_view [1; 2; 3] px_empty wf_empty). Qed.
