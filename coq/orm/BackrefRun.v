(* C37 - executable entry point for the correspondence check.

   input   L [I kind; L [I persistent; L pairs; L unloaded]; L ops]
             kind 0 one-to-many/many-to-one, 1 one-to-one, 2 many-to-many
             pairs  L [I x; I y]  initial relationship rows (side A object x, side B object y), sorted
             unloaded  side B objects whose scalar attribute is expired (persistent objects only)
             op     L (I code :: args):  side A  0 append x y | 1 remove x y | 2 insert x i y | 3 pop x i
                    | 4 del x[i] | 5 x[i]=y | 6 x[i:j]=ys | 7 x = ys (bulk) | 8 x.attr = y | 9 del x.attr
                    side B  10 y.attr = x | 11 del y.attr | 12 append y x | 13 remove y x | 14 y = xs (bulk)
                    15 status rows   flush + expire_all + read both sides; [rows] is what the flush
                       left in the foreign key column / association table (input from the trace)
                    16 status rows   flush + commit + load (not terminal)
                    17 x / 18 y      del x.attr / del y.attr on a collection side
   output  one entry per operation: L [I rc; L sideA; L sideB]   rc 0 | 1 AttributeError
           | 3 ValueError | 5 IndexError | 77 out of fuel (never); cells: members, or L [I v]
           (0 None, -1 expired, -2 absent); reload: L [I 0; pairs seen from side A; pairs seen from B] *)
From Coq Require Import List ZArith NArith Bool.
Import ListNotations.
From SAV.base Require Import Tree.
From SAV.orm Require Import Backref BackrefSpec.

Definition as_rkind (t : tree) : option rkind :=
  match t with I 0%Z => Some O2M | I 1%Z => Some O2O | I 2%Z => Some M2M | _ => None end.

Definition objs : list N := [1; 2; 3]%N.

Definition of_cell (c : cell) : tree :=
  match c with
  | CAbsent => L [I (-2)%Z]
  | CUnl => L [I (-1)%Z]
  | CVal v => L [of_N v]
  | CList l => of_list of_N l
  end.
(* a collection side that is not in the dict reads as an empty collection *)
Definition of_side (r : rkind) (s : st) (sd : side) (o : N) : tree :=
  match kind_of r sd with
  | Coll => of_list of_N (coll_of s sd o)
  | Scal => of_cell (cells s sd o)
  end.
Definition of_state (r : rkind) (s : st) : list tree :=
  [L (map (of_side r s SA) objs); L (map (of_side r s SB) objs)].
Definition of_exn (e : exn) : Z := match e with AttributeError => 1 | ValueError => 3 | IndexError => 5 end.

(* a user operation is a list of primitives, computed from the current state (slices) *)
Inductive uop := UPrim (p : prim) | USlice (sd : side) (o : N) (i j : nat) (vs : list N).

Fixpoint slice_dels (r : rkind) (n : nat) (sd : side) (o : N) (i : nat) (s : st) : res :=
  match n with
  | O => Ok s
  | S m => if Nat.ltb i (length (coll_of s sd o))
           then bind (step_prim r (PDelItem sd o i) s) (slice_dels r m sd o i)
           else slice_dels r m sd o i s
  end.
Fixpoint slice_ins (r : rkind) (sd : side) (o : N) (i : nat) (vs : list N) (s : st) : res :=
  match vs with
  | [] => Ok s
  | v :: rest => bind (step_prim r (PInsert sd o i v) s) (slice_ins r sd o (S i) rest)
  end.
Definition step_uop (r : rkind) (u : uop) (s : st) : res :=
  match u with
  | UPrim p => step_prim r p s
  | USlice sd o i j vs =>
      let n := length (coll_of s sd o) in
      let i' := Nat.min i n in let j' := Nat.min (Nat.max j i') n in
      bind (slice_dels r (j' - i') sd o i' s) (slice_ins r sd o i' vs)
  end.

Definition as_uop (t : tree) : option uop :=
  match t with
  | L [I 0%Z; x; y] => match as_N x, as_N y with Some a, Some b => Some (UPrim (PAppend SA a b)) | _, _ => None end
  | L [I 1%Z; x; y] => match as_N x, as_N y with Some a, Some b => Some (UPrim (PRemove SA a b)) | _, _ => None end
  | L [I 2%Z; x; i; y] => match as_N x, as_nat i, as_N y with
                          | Some a, Some k, Some b => Some (UPrim (PInsert SA a k b)) | _, _, _ => None end
  | L [I 3%Z; x; i] => match as_N x, as_nat i with Some a, Some k => Some (UPrim (PPop SA a k)) | _, _ => None end
  | L [I 4%Z; x; i] => match as_N x, as_nat i with Some a, Some k => Some (UPrim (PDelItem SA a k)) | _, _ => None end
  | L [I 5%Z; x; i; y] => match as_N x, as_nat i, as_N y with
                          | Some a, Some k, Some b => Some (UPrim (PSetItem SA a k b)) | _, _, _ => None end
  | L [I 6%Z; x; i; j; ys] => match as_N x, as_nat i, as_nat j, as_list_of as_N ys with
                              | Some a, Some k, Some m, Some l => Some (USlice SA a k m l) | _, _, _, _ => None end
  | L [I 7%Z; x; ys] => match as_N x, as_list_of as_N ys with
                        | Some a, Some l => Some (UPrim (PReplace SA a l)) | _, _ => None end
  | L [I 8%Z; x; y] => match as_N x, as_N y with Some a, Some b => Some (UPrim (PSet SA a b)) | _, _ => None end
  | L [I 9%Z; x] => option_map (fun a => UPrim (PDel SA a)) (as_N x)
  | L [I 10%Z; y; x] => match as_N y, as_N x with Some a, Some b => Some (UPrim (PSet SB a b)) | _, _ => None end
  | L [I 11%Z; y] => option_map (fun a => UPrim (PDel SB a)) (as_N y)
  | L [I 12%Z; y; x] => match as_N y, as_N x with Some a, Some b => Some (UPrim (PAppend SB a b)) | _, _ => None end
  | L [I 13%Z; y; x] => match as_N y, as_N x with Some a, Some b => Some (UPrim (PRemove SB a b)) | _, _ => None end
  | L [I 17%Z; x] => option_map (fun a => UPrim (PDelColl SA a)) (as_N x)
  | L [I 18%Z; y] => option_map (fun a => UPrim (PDelColl SB a)) (as_N y)
  | L [I 14%Z; y; xs] => match as_N y, as_list_of as_N xs with
                         | Some a, Some l => Some (UPrim (PReplace SB a l)) | _, _ => None end
  | _ => None
  end.

(* ---- reload: both sides are read back from the same rows ---- *)
Definition as_pair (t : tree) : option (N * N) := as_pair_of as_N as_N t.
Definition of_pair (p : N * N) : tree := L [of_N (fst p); of_N (snd p)].
Definition first_only (k : skind) (l : list N) : list N :=
  match k, l with Scal, x :: _ => [x] | _, _ => l end.
Definition reload_side (r : rkind) (sd : side) (rows : list (N * N)) (o : N) : list N :=
  first_only (kind_of r sd)
    (match sd with
     | SA => map snd (filter (fun p => N.eqb (fst p) o) rows)
     | SB => map fst (filter (fun p => N.eqb (snd p) o) rows)
     end).
Fixpoint ins_pair (p : N * N) (l : list (N * N)) : list (N * N) :=
  match l with
  | [] => [p]
  | q :: t => if (N.ltb (fst p) (fst q) || (N.eqb (fst p) (fst q) && N.leb (snd p) (snd q)))%bool
              then p :: l else q :: ins_pair p t
  end.
Definition sort_pairs (l : list (N * N)) : list (N * N) := fold_right ins_pair [] l.
Definition reload_view (r : rkind) (sd : side) (rows : list (N * N)) : list (N * N) :=
  sort_pairs (flat_map (fun o => map (fun v => match sd with SA => (o, v) | SB => (v, o) end)
                                     (reload_side r sd rows o)) objs).

Definition init_state (r : rkind) (pers : bool) (rel : list (N * N)) (unl : list N) : st :=
  let dflt := fun sd => match kind_of r sd with Coll => CList [] | Scal => if pers then CVal 0 else CAbsent end in
  let put (s : st) (sd : side) (o v : N) :=
    match kind_of r sd with
    | Coll => set_cell s sd o (CList (coll_of s sd o ++ [v]))
    | Scal => set_cell s sd o (CVal v)
    end in
  let s0 := mkst pers (fun _ => dflt SA) (fun _ => dflt SB) in
  let s1 := fold_left (fun s p => put (put s SA (fst p) (snd p)) SB (snd p) (fst p)) rel s0 in
  fold_left (fun s y => set_cell s SB y CUnl) unl s1.

Fixpoint run_ops (r : rkind) (ops : list tree) (s : st) : list tree :=
  match ops with
  | [] => []
  | L [I 15%Z; I status; trows] :: _ =>
      match as_list_of as_pair trows with
      | Some rows =>
          if (status =? 0)%Z
          then [L [I 0%Z; of_list of_pair (reload_view r SA rows); of_list of_pair (reload_view r SB rows)]]
          else [L [I status; L []; L []]]
      | None => [bad_input]
      end
  | L [I 16%Z; I status; trows] :: rest =>
      (* flush + commit + load every collection side: the rows are input; the run goes on *)
      match as_list_of as_pair trows with
      | Some rows =>
          if (status =? 0)%Z
          then let s1 := reload r rows in L (I 0%Z :: of_state r s1) :: run_ops r rest s1
          else [L [I status; L []; L []]]
      | None => [bad_input]
      end
  | t :: rest =>
      match as_uop t with
      | None => [bad_input]
      | Some u =>
          match step_uop r u s with
          | Ok s1 => L (I 0%Z :: of_state r s1) :: run_ops r rest s1
          | Err e s1 => L (I (of_exn e) :: of_state r s1) :: run_ops r rest s1
          | OutOfFuel => [L [I 77%Z]]
          end
      end
  end.

Definition run_case (t : tree) : tree :=
  match t with
  | L [tk; L [tp; trel; tunl]; L ops] =>
    match as_rkind tk, as_bool tp, as_list_of as_pair trel, as_list_of as_N tunl with
    | Some r, Some pers, Some rel, Some unl => L (run_ops r ops (init_state r pers rel unl))
    | _, _, _, _ => bad_input
    end
  | _ => bad_input
  end.
