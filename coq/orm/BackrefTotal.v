(* C37 - proofs, part 6: the fuel of the model always suffices for the user-level operations
   (for every relationship kind, every state, duplicates and unloaded cells included). *)
From Coq Require Import List NArith Bool Lia Arith.
Import ListNotations.
From SAV.orm Require Import Backref BackrefSpec BackrefBase BackrefO2M.
Open Scope N_scope.

Lemma bind_total : forall r f, r <> OutOfFuel -> (forall s, f s <> OutOfFuel) -> bind r f <> OutOfFuel.
Proof. intros [s|e s|] f H K; cbn; [apply K|discriminate|congruence]. Qed.

Lemma swallow_total : forall r,
  r <> OutOfFuel ->
  match r with
  | Ok s0 => Ok s0
  | Err AttributeError s1 => Err AttributeError s1
  | Err ValueError s1 => Ok s1
  | Err IndexError s1 => Ok s1
  | OutOfFuel => OutOfFuel
  end <> OutOfFuel.
Proof. intros [s|[] s|] H; try discriminate; congruence. Qed.

Ltac tot :=
  try (change (0 =? 0) with true; cbv iota);
  lazymatch goal with
  | |- Ok _ <> OutOfFuel => discriminate
  | |- Err _ _ <> OutOfFuel => discriminate
  | |- bind _ _ <> OutOfFuel => apply bind_total; [tot | intros ?; tot]
  | |- (if ?c then _ else _) <> OutOfFuel => destruct c; tot
  | |- match ?x with _ => _ end <> OutOfFuel =>
      let T := type of x in
      lazymatch T with
      | res => first
               [ apply swallow_total; tot
               | let H := fresh "H" in
                 assert (H : x <> OutOfFuel) by tot;
                 destruct x as [?|[] ?|]; try (exfalso; apply H; reflexivity); tot ]
      | _ => destruct x; tot
      end
  | |- _ => idtac
  end.


Lemma call_total_coll : forall r sd o v s, kind_of r sd = Coll ->
  run_call r (KCollAppend sd o v None) s <> OutOfFuel /\
  run_call r (KCollRemove sd o v None) s <> OutOfFuel /\
  run_call r (KFireAppend sd o v None) s <> OutOfFuel /\
  run_call r (KFireRemove sd o v None) s <> OutOfFuel /\
  run_call r (KFireAppend sd o v (tok_bulk r sd)) s <> OutOfFuel /\
  run_call r (KFireRemove sd o v (tok_bulk r sd)) s <> OutOfFuel.
Proof.
  intros r sd o v s K. unfold run_call, FUEL.
  destruct r, sd; try discriminate K; (split; [|split; [|split; [|split; [|split]]]]); ev; tot.
Qed.

Lemma call_total_scal : forall r sd o v s, kind_of r sd = Scal ->
  run_call r (KScalarSet sd o v None None false) s <> OutOfFuel /\
  (forall old, run_call r (KRemoveEvent sd o old (tok_remove sd)) s <> OutOfFuel).
Proof.
  intros r sd o v s K. unfold run_call, FUEL.
  destruct r, sd; try discriminate K; (split; [|intros old]); ev; tot.
Qed.

Definition skind_eqb (a b : skind) : bool := match a, b with Scal, Scal | Coll, Coll => true | _, _ => false end.
Definition prim_kinded (r : rkind) (p : prim) : bool :=
  match p with
  | PAppend sd _ _ | PRemove sd _ _ | PInsert sd _ _ _ | PPop sd _ _ | PDelItem sd _ _
  | PSetItem sd _ _ _ | PReplace sd _ _ | PDelColl sd _ => skind_eqb (kind_of r sd) Coll
  | PSet sd _ _ | PDel sd _ => skind_eqb (kind_of r sd) Scal
  end.

Lemma bulk_appends_total : forall r sd o cs vs s, kind_of r sd = Coll ->
  bulk_appends r sd o cs vs s <> OutOfFuel.
Proof.
  intros r sd o cs vs. induction vs as [|v rest IH]; intros s K; cbn [bulk_appends]; [discriminate|].
  apply bind_total; [|intros s1; apply IH; exact K].
  destruct (memb v cs); [discriminate|]. apply (call_total_coll r sd o v s K).
Qed.
Lemma bulk_removes_total : forall r sd o vs s, kind_of r sd = Coll ->
  bulk_removes r sd o vs s <> OutOfFuel.
Proof.
  intros r sd o vs. induction vs as [|v rest IH]; intros s K; cbn [bulk_removes]; [discriminate|].
  apply bind_total; [|intros s1; apply IH; exact K]. apply (call_total_coll r sd o v s K).
Qed.

Lemma clear_total : forall r sd o l s, kind_of r sd = Coll -> clear_with_event r sd o l s <> OutOfFuel.
Proof.
  intros r sd o l. induction l as [|v rest IH]; intros s K; cbn [clear_with_event]; [discriminate|].
  apply bind_total; [|intros s1; apply IH; exact K]. apply (call_total_coll r sd o v s K).
Qed.

Theorem step_prim_total : forall r p s, prim_kinded r p = true -> step_prim r p s <> OutOfFuel.
Proof.
  intros r p s K. destruct p as [sd o v|sd o v|sd o i v|sd o i|sd o i|sd o i v|sd o vs|sd o v|sd o|sd o];
    cbn [prim_kinded] in K; cbn [step_prim];
    (assert (KK : kind_of r sd = Coll \/ kind_of r sd = Scal) by (destruct (kind_of r sd); auto));
    (assert (KC : skind_eqb (kind_of r sd) Coll = true -> kind_of r sd = Coll) by (destruct (kind_of r sd); [discriminate|reflexivity]));
    (assert (KS : skind_eqb (kind_of r sd) Scal = true -> kind_of r sd = Scal) by (destruct (kind_of r sd); [reflexivity|discriminate])).
  - apply (call_total_coll r sd o v s (KC K)).
  - apply (call_total_coll r sd o v s (KC K)).
  - apply bind_total; [apply (call_total_coll r sd o v s (KC K))|intros; discriminate].
  - destruct (nth_error (coll_of s sd o) i); [|discriminate]. apply (call_total_coll r sd o n _ (KC K)).
  - destruct (nth_error (coll_of s sd o) i); [|discriminate].
    apply bind_total; [apply (call_total_coll r sd o n s (KC K))|intros; discriminate].
  - destruct (nth_error (coll_of s sd o) i); [|discriminate].
    apply bind_total; [apply (call_total_coll r sd o n s (KC K))|intros s1].
    apply bind_total; [apply (call_total_coll r sd o v s1 (KC K))|intros; discriminate].
  - apply bind_total; [apply bulk_appends_total; exact (KC K)|intros s1; apply bulk_removes_total; exact (KC K)].
  - apply (call_total_scal r sd o v s (KS K)).
  - apply bind_total; [apply (call_total_scal r sd o 0 s (KS K))|intros s1].
    destruct (cells s1 sd o); try discriminate. destruct (scalar_old s sd o); try discriminate;
      destruct (persistent s); discriminate.
  - destruct (cells s sd o); try discriminate.
    apply bind_total; [apply clear_total; exact (KC K)|intros; discriminate].
Qed.
