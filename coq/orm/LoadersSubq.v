(* C40 - subquery loads reach the related rows of every entity at the end of the eager chain of the
   statement they re-issue - except in the DISTINCT/OFFSET defect region. *)
From Coq Require Import List ZArith Bool Lia Sorting.Sorted Permutation.
Import ListNotations.
From SAV.orm Require Import Loaders LoadersBase LoadersJoin LoadersStmt LoadersSrc LoadersOne LoadersAttach.
Open Scope Z_scope.

Definition is_pjoin (p : upred) : bool := match p with PJoin _ => true | _ => false end.
Definition offset_pos (o : option nat) : bool := match o with Some (S _) => true | _ => false end.

(* the region in which re-issuing the user's statement with DISTINCT changes the OFFSET window:
   many-to-one first relationship (DISTINCT is added), no DISTINCT/GROUP BY of the user's own,
   a duplicating JOIN (along a one-to-many relationship), and a positive OFFSET *)
Definition dup_join (u : uquery) (jstep : option step) : bool :=
  match u_pred u, jstep with PJoin _, Some s => is_down s | _, _ => false end.
Definition defect (u : uquery) (jstep : option step) (first : step) : bool :=
  negb (is_down first) && negb (u_dedup u) && dup_join u jstep && offset_pos (u_offset u).

Lemma user_heads : forall u t0 f, stmt_heads (SrcUser u t0 f) = map (fun r => (None, r)) (run_user u t0 f).
Proof.
  intros. unfold stmt_heads, run_user. cbn [src_limit src_offset src_order src_distinct src_group src_base].
  fold (u_dedup u). set (b := u_base u t0 f). set (i := fun r : row => (@None Z, r)).
  rewrite <- slice_map. f_equal.
  assert (E : (if u_dedup u then uniq_by tagged_id (map i b) else map i b) = map i (if u_dedup u then uniq_by idkey b else b)).
  { destruct (u_dedup u); auto. rewrite uniq_by_map. apply f_equal. apply uniq_by_ext. intros x y _ _. reflexivity. }
  rewrite E. rewrite (sort_by_map (hkey (u_order u)) i). reflexivity.
Qed.

Lemma u_base_table : forall u t0 f r, In r (u_base u t0 f) -> In r t0.
Proof.
  intros u t0 f r H. unfold u_base in H. destruct (u_pred u) as [|k|k|k]; auto.
  - apply filter_In in H; tauto.
  - destruct f as [s|]; auto. apply in_flat_map in H as [p [Hp H]]. apply in_map_iff in H as [c [<- _]]. auto.
  - destruct f as [s|]; auto. apply filter_In in H; tauto.
Qed.
Lemma flat_map_sub_wf : forall (g : row -> list row) t0, wf_table t0 ->
  (forall p, g p = [] \/ g p = [p]) -> wf_table (flat_map g t0).
Proof.
  unfold wf_table. intros g. induction t0 as [|a t0 IH]; intros N Hg; cbn; [constructor|].
  change (map rid (a :: t0)) with (rid a :: map rid t0) in N. inversion N as [|? ? Hn Hd]; subst.
  destruct (Hg a) as [->| ->]; cbn; auto. constructor; auto.
  intro Hin. apply Hn. apply in_map_iff in Hin as [x [E Hx]]. apply in_flat_map in Hx as [y [Hy Hx]].
  destruct (Hg y) as [Ey|Ey]; rewrite Ey in Hx; [contradiction|]. destruct Hx as [<-|[]]. rewrite <- E. apply in_map; auto.
Qed.

Lemma u_base_wf : forall u t0 f, wf_table t0 -> (forall s, f = Some s -> wf_step s) -> dup_join u f = false ->
  wf_table (u_base u t0 f).
Proof.
  intros u t0 f W Wj P. unfold u_base. unfold dup_join in P. destruct (u_pred u) as [|k|k|k]; auto.
  - apply wf_table_filter; auto.
  - destruct f as [s|]; auto. apply flat_map_sub_wf; auto. intro p.
    set (l := filter (fun c => linked s p c && (k <=? rval c)) (st_table s)).
    assert (KU : st_kind s = Up) by (unfold is_down in P; destruct (st_kind s); auto; discriminate).
    assert (WS : wf_step s) by auto.
    assert (N : NoDup l) by (apply NoDup_filter; apply wf_table_nodup; apply WS).
    assert (AE : forall a b, In a l -> In b l -> a = b).
    { intros a b Ha Hb. apply filter_In in Ha as [Ha La]. apply filter_In in Hb as [Hb Lb].
      apply andb_true_iff in La as [La _]. apply andb_true_iff in Lb as [Lb _]. eapply (up_matches_eq s p); eauto. }
    destruct l as [|x [|y l']]; cbn; auto.
    exfalso. inversion N; subst. apply H1. rewrite (AE x y); cbn; auto.
  - destruct f; auto. apply wf_table_filter; auto.
Qed.

Lemma uniq_idkey_id : forall l, wf_table l -> uniq_by idkey l = l.
Proof.
  intros l W. apply uniq_by_nodup_id. unfold wf_table in W. revert W. induction l as [|a l IH]; intro N; [constructor|].
  change (map idkey (a :: l)) with (idkey a :: map idkey l). change (map rid (a :: l)) with (rid a :: map rid l) in N.
  inversion N as [|? ? Hn Hd]; subst. constructor; auto. intro Hin. apply Hn. apply in_map_iff in Hin as [x [E Hx]].
  apply in_map_iff. exists x. split; auto. unfold idkey in E. congruence.
Qed.

Lemma uniq_sort_comm : forall o t0 b, o <> ONone -> wf_table t0 -> (forall r, In r b -> In r t0) ->
  sort_by (rkey o) (uniq_by idkey b) = uniq_by idkey (sort_by (rkey o) b).
Proof.
  intros o t0 b Ho W Hb.
  assert (KI : key_inj idkey b).
  { intros x y Hx Hy E. unfold idkey in E. inversion E. eapply table_id_inj; eauto. }
  assert (KI2 : key_inj idkey (sort_by (rkey o) b)).
  { intros x y Hx Hy. apply sort_by_in in Hx, Hy. apply KI; auto. }
  apply (sorted_unique (rkey o)).
  - apply sort_by_sorted.
  - apply uniq_by_sorted. apply sort_by_sorted.
  - eapply Permutation_NoDup; [apply Permutation_sym, sort_by_perm|]. eapply NoDup_map_inv. apply uniq_by_nodup.
  - eapply NoDup_map_inv. apply uniq_by_nodup.
  - intro x. rewrite sort_by_in, !uniq_by_in_iff, sort_by_in; auto. tauto.
  - intros x y Hx Hy E. apply sort_by_in in Hx, Hy. apply uniq_by_in in Hx, Hy.
    eapply table_id_inj; eauto. eapply rkey_inj; eauto.
Qed.

Lemma run_user_table : forall u t0 f r, In r (run_user u t0 f) -> In r t0.
Proof.
  intros u t0 f r H. unfold run_user in H. apply slice_in in H. apply sort_by_in in H.
  destruct (u_dedup u); [apply uniq_by_in in H|]; eapply u_base_table; eauto.
Qed.

(* outside the defect region the DISTINCT re-issue still yields every row the user's statement yields *)
Lemma user_distinct_covers : forall u t0 f first e, wf_table t0 -> u_order u <> ONone ->
  (forall s, f = Some s -> wf_step s) ->
  defect u f first = false -> In e (run_user u t0 f) ->
  In e (run_user (if negb (is_down first) then set_distinct u else u) t0 f).
Proof.
  intros u t0 f first e W Ho Wj D H. destruct (is_down first) eqn:K; cbn [negb]; auto.
  unfold defect in D. rewrite K in D. cbn [negb andb] in D.
  assert (Hb : u_base (set_distinct u) t0 f = u_base u t0 f) by reflexivity.
  unfold run_user in *. rewrite Hb. cbn [set_distinct u_limit u_offset u_order].
  assert (Hd : u_dedup (set_distinct u) = true) by reflexivity. rewrite Hd.
  set (b := u_base u t0 f) in *.
  destruct (u_dedup u) eqn:DD; auto. cbn [negb andb] in D.
  destruct (dup_join u f) eqn:PJ.
  - cbn [andb] in D.
    assert (TB : forall r, In r b -> In r t0) by (intros; eapply u_base_table; eauto).
    rewrite (uniq_sort_comm (u_order u) t0 b) by auto.
    assert (OFF : forall l : list row, slice (u_limit u) (u_offset u) l = match u_limit u with Some n => firstn n l | None => l end).
    { intro l. unfold slice. destruct (u_offset u) as [[|n]|]; auto. discriminate. }
    rewrite OFF in *.
    assert (KI : key_inj idkey (sort_by (rkey (u_order u)) b)).
    { intros x y Hx Hy E. apply sort_by_in in Hx, Hy. unfold idkey in E. inversion E. eapply table_id_inj; eauto. }
    destruct (u_limit u) as [n|].
    + destruct (firstn_uniq_covers idkey _ n e H) as [y [Hy Ky]].
      assert (y = e); [|subst; auto].
      apply KI; auto.
      * apply firstn_in in Hy. apply uniq_by_in in Hy. auto.
      * apply firstn_in in H. auto.
    + apply uniq_by_in_iff; auto.
  - rewrite uniq_idkey_id; auto. apply u_base_wf; auto.
Qed.

(* ---------------------------------------------------------------- reachability through the inner joins *)
Lemma ireach_reach : forall chain s l x e' t, In x l -> In e' (reach chain x) -> In t (matches s e') ->
  In t (ireach l (chain ++ [s])).
Proof.
  induction chain as [|c cr IH]; intros s l x e' t Hx He Ht.
  - cbn in He. destruct He as [<-|[]]. cbn. unfold ireach. cbn. apply in_flat_map. eauto.
  - cbn [reach] in He. apply in_flat_map in He as [m [Hm He]]. cbn [app]. rewrite ireach_cons.
    eapply IH; eauto. apply in_flat_map. exists x. split; auto.
Qed.

Definition not_subq (src : source) : Prop := match src with SrcSubq _ _ _ => False | _ => True end.

(* the first inner join of a subquery load of a non-subquery statement covers the matches of every
   primary row of that statement *)
Lemma rows1_covers : forall src c h m, not_subq src -> src_step_ok src ->
  (forall u t0 f, src = SrcUser u t0 f -> defect u f c = false) ->
  In h (stmt_heads src) -> In m (matches c (snd h)) -> In m (subq_rows1 src c).
Proof.
  intros src c h m NS OK Hsafe Hh Hm.
  assert (H0 : In (snd h) (subq_rows0 src c)).
  { destruct src as [u t0 f|s k|s ks|? ? ?]; try contradiction.
    - cbn [subq_rows0]. rewrite user_heads in Hh. apply in_map_iff in Hh as [r [<- Hr]]. cbn [snd].
      destruct OK as [W [Ho Wj]]. apply user_distinct_covers; auto. eapply Hsafe; eauto.
    - cbn [subq_rows0]. apply in_map. apply stmt_heads_base; auto.
    - cbn [subq_rows0]. apply in_map. apply stmt_heads_base; auto. }
  apply filter_In in Hm as [Hm Lm]. unfold linked in Lm. apply okey_eqb_true in Lm as [k [Pk Ck]].
  unfold subq_rows1. apply in_flat_map. exists k. split.
  - unfold subq_keys.
    assert (In k (somes (map (parent_key (st_kind c)) (subq_rows0 src c)))).
    { apply somes_in. rewrite <- Pk. apply in_map; auto. }
    destruct (_ && _); auto. apply dedupeZ_in; auto.
  - apply filter_In. split; auto. unfold match_key. rewrite Ck. cbn. apply Z.eqb_refl.
Qed.

Lemma last_step_snoc : forall f r s, last_step f (r ++ [s]) = s.
Proof. intros. unfold last_step. apply last_last. Qed.

Lemma mk_subq_last : forall src chain s, match mk_subq src chain s with SrcSubq _ f r => last_step f r = s | _ => False end.
Proof.
  intros [u t0 f|s0 k|s0 ks|orig f r] chain s; cbn [mk_subq].
  1-3: destruct chain as [|c1 cr]; [reflexivity|apply last_step_snoc].
  rewrite app_assoc. apply last_step_snoc.
Qed.

Lemma subq_cover_nil : forall src s h t, not_subq src -> src_step_ok src ->
  (forall u t0 f, src = SrcUser u t0 f -> defect u f s = false) ->
  In h (stmt_heads src) -> In t (matches s (snd h)) -> In t (ireach (subq_rows1 src s) []).
Proof. intros. unfold ireach. cbn [fold_left]. eapply rows1_covers; eauto. Qed.

Lemma subq_cover_cons : forall src c1 cr s h e' t, not_subq src -> src_step_ok src ->
  (forall u t0 f, src = SrcUser u t0 f -> defect u f c1 = false) ->
  In h (stmt_heads src) -> In e' (reach (c1 :: cr) (snd h)) -> In t (matches s e') ->
  In t (ireach (subq_rows1 src c1) (cr ++ [s])).
Proof.
  intros src c1 cr s h e' t NS OK Hsafe Hh Hr Ht. cbn [reach] in Hr. apply in_flat_map in Hr as [m [Hm Hr]].
  eapply ireach_reach; eauto. eapply rows1_covers; eauto.
Qed.

(* Lemma F: the subquery load for step [s] beneath the statement (src, chain) contains every row related
   to an entity at the end of that statement's chain *)
Lemma subq_cover : forall nestf src chain s e' t, nest_covers nestf -> Forall wf_step chain -> src_step_ok src ->
  (forall u t0 f c1, src = SrcUser u t0 f -> hd_error (chain ++ [s]) = Some c1 -> defect u f c1 = false) ->
  In e' (frontier chain (eval_stmt nestf src chain)) -> In t (matches s e') ->
  match mk_subq src chain s with
  | SrcSubq orig f r => In t (ireach (subq_rows1 orig f) r)
  | _ => False
  end.
Proof.
  intros nestf src chain s e' t NC WF OK Hsafe He Ht.
  apply frontier_in in He as [h [Hh Hr]]; auto.
  assert (Gen : not_subq src ->
     match chain with
     | [] => In t (ireach (subq_rows1 src s) [])
     | c1 :: cr => In t (ireach (subq_rows1 src c1) (cr ++ [s]))
     end).
  { intro NS. destruct chain as [|c1 cr].
    - cbn in Hr. destruct Hr as [<-|[]]. eapply subq_cover_nil; eauto.
    - eapply subq_cover_cons; eauto. }
  destruct src as [u t0 f|s0 k|s0 ks|orig f r].
  4: { cbn [mk_subq]. rewrite ireach_app.
       apply stmt_heads_base in Hh. rewrite src_base_subq in Hh. apply in_map_iff in Hh as [x [Ex Hx]].
       eapply ireach_reach; eauto. rewrite <- Ex in Hr. exact Hr. }
  all: cbn [mk_subq]; specialize (Gen I); destruct chain; exact Gen.
Qed.
