(* C33 - after a restore, the enclosing frame's relation holds against the restored state; the relation
   of a fresh frame against the state it begins in. *)
From Coq Require Import List ZArith Bool Arith Lia.
Import ListNotations.
From SAV.orm Require Import SessTxn SessTxnBase SessTxnSpec SessTxnInv SessTxnOps.
Open Scope nat_scope.

Lemma Rel_shift : forall gp fp g ob n,
  GClean gp -> GClean g ->
  Rel gp fp (gobjs g) (gn g) [] [] (gW g) ->
  Approx g ob n -> Good ob n (gW g) [] [] ->
  Rel gp fp ob n [] [] (gW g).
Proof.
  intros gp fp g ob n GCp GC L A G.
  destruct A as [A_n A_id A_fresh A_clean A_keep].
  pose proof L as L0.
  destruct L as [r_n0 r_exp0 r_id0 r_fresh0 r_row0 r_delv0 r_ks0 r_del0 r_lists0 r_ksu0 r_dirty0 r_keep0].
  assert (Hn : gn gp <= gn g) by exact r_n0.
  constructor.
  - lia.
  - exact r_exp0.
  - intros o Ho He. destruct (r_id0 o Ho He) as [X1 X2]. destruct (A_id o) as [B1 [B2 B3]]; [lia|].
    split; [congruence|]. intros Ha. destruct (X2 Ha) as [Y1 Y2].
    assert (Ha' : oatt (gobjs g o) = true) by congruence. destruct (B3 Ha') as [B4 B5].
    unfold pkey, pdelf in *. rewrite B4, B5. auto.
  - intros o H1 H2. destruct (Nat.lt_ge_cases o (gn g)) as [Hg|Hg].
    + destruct (r_fresh0 o H1 Hg) as [X|[X1 X2]]; auto. right.
      destruct (A_id o Hg) as [B1 [B2 _]]. split; congruence.
    + right. apply A_fresh; auto.
  - exact r_row0.
  - intros o k v Ho He Hd Hdi Hm Hk Hw.
    destruct (r_del0 o Hd) as [D1 [D2 [D3 [D4 D5]]]].
    destruct (A_keep o D1 D4 D2 Hm) as [K1 [K2 K3]]. rewrite K1, K2. eapply r_delv0; eauto.
  - intros o old nw Hk. destruct (r_ks0 o old nw Hk) as [X1 [X2 [X3 X4]]].
    destruct (A_id o X1) as [B1 [B2 B3]]. rewrite X3 in B1. destruct (B3 X3) as [B4 B5].
    repeat split; try congruence. lia.
  - intros o Hd. destruct (r_del0 o Hd) as [D1 [D2 [D3 [D4 D5]]]].
    destruct (A_id o D1) as [B1 [B2 B3]]. destruct (B3 D4) as [B4 B5].
    repeat split; try congruence. lia.
  - intros o H. specialize (r_lists0 o H). lia.
  - exact r_ksu0.
  - exact r_dirty0.
  - intros o Ho Ha Hi Hm.
    assert (Hig : oin (gobjs g o) = false).
    { eapply (Rel_notin gp fp (gobjs g) (gn g) [] [] (gW g)); eauto. apply (proj1 GC). }
    assert (Hag : oatt (gobjs g o) = true).
    { destruct (expunged fp [] o) eqn:Ee.
      - pose proof (r_exp0 o Ho Ee). congruence.
      - destruct (r_id0 o Ho Ee) as [X1 _]. congruence. }
    destruct (A_keep o) as [K1 [K2 K3]]; auto; [lia|].
    destruct (r_keep0 o Ho Ha Hi K3) as [L1 [L2 L3]]. repeat split; congruence.
Qed.

(* a frame that has recorded nothing, against the (clean) state it began in *)
Definition ghost_of (st : sess) : ghost := mkGhost (objs st) (nobj st) (work st).

Lemma Rel_fresh : forall g f ob n W,
  fnew f = [] -> fdel f = [] -> fdirty f = [] -> fks f = [] ->
  gobjs g = ob -> gn g = n -> (forall k, W k = gW g k) ->
  Rel g f ob n [] [] W.
Proof.
  intros g f ob n W E1 E2 E3 E4 Eo En EW.
  constructor; unfold expunged, pkey, pdelf; rewrite ?E1, ?E2, ?E3, ?E4; cbn; subst; auto; try discriminate; try lia;
    try (intros; lia); try (intros o [X|X]; discriminate); try (intros; discriminate); try constructor.
Qed.
