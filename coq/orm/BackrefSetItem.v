(* C37 - proofs, part 5: index assignment  l[i] = v  (remove event for the old member, append event
   for the new one, then the store) preserves the invariants. *)
From Coq Require Import List NArith Bool Lia Arith.
Import ListNotations.
From SAV.orm Require Import Backref BackrefSpec BackrefBase BackrefO2M BackrefM2M.
Open Scope N_scope.

Lemma set_at_char : forall i v l e, nth_error l i = Some e -> NoDup l ->
  forall x, In x (set_at i v l) <-> x = v \/ In x (remove1 e l).
Proof.
  intros i v l e E ND x. rewrite (set_at_In i v l e x E ND), (remove1_In x e l ND). tauto.
Qed.

(* ---------- many-to-many ---------- *)
Lemma m2m_setitem : forall s sd o i v, inv_m2m s -> o <> 0 -> v <> 0 ->
  (~ In v (coll_of s sd o) \/ nth_error (coll_of s sd o) i = Some v \/ nth_error (coll_of s sd o) i = None) ->
  exists s', (step_prim M2M (PSetItem sd o i v) s = Ok s' \/ step_prim M2M (PSetItem sd o i v) s = Err IndexError s')
             /\ inv_m2m s'.
Proof.
  intros s sd o i v I O V G. destruct (inv_m2m_sd s sd I) as (A & N1 & _ & Z1 & _). unfold step_prim.
  destruct (nth_error (coll_of s sd o) i) as [e|] eqn:E; [|exists s; auto].
  assert (IN : In e (coll_of s sd o)) by (eapply nth_error_In; eauto).
  assert (EZ : e <> 0) by (intros ->; apply (Z1 o IN)).
  unfold run_call, FUEL. rewrite exec_fire_remove. unfold tok_remove.
  rewrite (fire_remove_m2m 6 s sd o e (sd, TRemove) EZ (or_introl eq_refl)). cbn [bind].
  rewrite exec_fire_append.
  assert (T : tok_append M2M sd = (sd, TAppend)) by (destruct sd; reflexivity). rewrite T.
  rewrite (fire_append_m2m 6 _ sd o v (sd, TAppend) V (or_introl eq_refl)). cbn [bind].
  eexists. split; [left; reflexivity|].
  rewrite attach_m_coll, detach_m_coll.
  set (l := coll_of s sd o) in *.
  (* the same cells as: delete position i, then insert v *)
  set (D := set_cell (detach_m s sd o e) sd o (CList (remove1 e l))).
  assert (ID : inv_m2m D).
  { apply m2m_del; auto; [apply remove1_NoDup; apply N1|intros x; apply remove1_In; apply N1]. }
  assert (NV : ~ In v (coll_of D sd o)).
  { unfold D. rewrite coll_set_same. rewrite remove1_In by apply N1. intros [H K].
    destruct G as [G|[G|G]]; [contradiction| |discriminate]. injection G as G. congruence. }
  pose proof (m2m_add D sd o v (set_at i v l) ID O V NV) as AD.
  eapply inv_m2m_ext; [|apply AD].
  - unfold attach_m, D. rewrite (coll_set_other_side _ sd o _ (other sd) v (other_neq sd)).
    destruct sd; split; intros x; cbn; unfold upd; destruct (x =? o); reflexivity.
  - eapply set_at_NoDup; eauto; try apply N1. destruct G as [G|[G|G]]; [left; exact G|right; congruence|discriminate].
  - intros x. unfold D. rewrite coll_set_same. apply set_at_char; auto. apply N1.
Qed.

(* ---------- one-to-many ---------- *)
Lemma unparent_coll : forall s p c p', coll_of (unparent s p c) SA p' = coll_of s SA p'.
Proof.
  intros. unfold unparent. destruct (sb s c) as [| |w|]; try reflexivity.
  destruct (w =? p); [apply coll_set_other_side; discriminate|reflexivity].
Qed.

Lemma attach_child_ignores_own_coll : forall U p v l0,
  (forall q, sb U v = CVal q -> q <> p) ->
  same_cells (set_cell (attach_child (set_cell U SA p (CList l0)) p v) SA p (CList l0))
             (set_cell (attach_child U p v) SA p (CList l0)).
Proof.
  intros U p v l0 H. unfold attach_child, old_parent, scalar_old. cbn [cells]. rewrite sb_set_A.
  destruct (sb U v) as [| |q|] eqn:Q; cbn [oldv_is real_obj];
    try (split; intros x; cbn; unfold upd; destruct (x =? p); reflexivity).
  destruct (p =? q) eqn:PQ.
  - apply N.eqb_eq in PQ. subst. exfalso. apply (H q eq_refl). reflexivity.
  - destruct q as [|q']; [split; intros x; cbn; unfold upd; destruct (x =? p); reflexivity|].
    unfold detach. rewrite (coll_set_other_obj U SA p (CList l0) (N.pos q')) by (intros E; rewrite E in PQ; rewrite N.eqb_refl in PQ; discriminate).
    apply N.eqb_neq in PQ.
    destruct (memb v (coll_of U SA (N.pos q'))); split; intros x; cbn; unfold upd;
      destruct (x =? p) eqn:XP; try reflexivity.
Qed.

Lemma o2m_setitem : forall s p i v, inv_o2m s -> p <> 0 -> v <> 0 ->
  (~ In v (coll_of s SA p) \/ nth_error (coll_of s SA p) i = Some v \/ nth_error (coll_of s SA p) i = None) ->
  exists s', (step_prim O2M (PSetItem SA p i v) s = Ok s' \/ step_prim O2M (PSetItem SA p i v) s = Err IndexError s')
             /\ inv_o2m s'.
Proof.
  intros s p i v I P V G. unfold step_prim.
  destruct (nth_error (coll_of s SA p) i) as [e|] eqn:E; [|exists s; auto].
  assert (IN : In e (coll_of s SA p)) by (eapply nth_error_In; eauto).
  assert (EZ : e <> 0) by (intros ->; apply (o2m_nonzero s I p IN)).
  unfold run_call, FUEL. rewrite exec_fire_remove. unfold tok_remove.
  rewrite (fire_remove_o2m 6 s p e EZ P); [|apply has_dupes_NoDup; apply (o2m_nodup s I)|apply (o2m_loaded s I)].
  cbn [bind]. rewrite exec_fire_append. cbn [tok_append kind_of].
  rewrite (fire_append_o2m 2 _ p v (SA, TAppend) V (or_introl eq_refl)). cbn [bind].
  eexists. split; [left; reflexivity|].
  rewrite attach_child_coll_same, unparent_coll.
  set (l := coll_of s SA p) in *. set (U := unparent s p e).
  set (D := set_cell U SA p (CList (remove1 e l))).
  assert (ID : inv_o2m D).
  { apply unparent_then_remove; auto; [apply remove1_NoDup; apply (o2m_nodup s I)|
      intros x; apply remove1_In; apply (o2m_nodup s I)]. }
  assert (NV : ~ In v (coll_of D SA p)).
  { unfold D. rewrite coll_set_same. rewrite remove1_In by apply (o2m_nodup s I). intros [H K].
    destruct G as [G|[G|G]]; [contradiction| |discriminate]. injection G as G. congruence. }
  pose proof (attach_then_add D p v (set_at i v l) ID P V) as AD.
  assert (HU : forall q, sb U v = CVal q -> q <> p).
  { intros q Hq ->. unfold U, unparent in Hq.
    assert (SE : sb s e = CVal p) by (apply (o2m_agree s I p e); exact IN).
    rewrite SE, N.eqb_refl in Hq. destruct (N.eq_dec v e) as [->|NE].
    - rewrite sb_set_B_same in Hq. injection Hq as Hq. congruence.
    - rewrite sb_set_B_other in Hq by exact NE.
      destruct G as [G|[G|G]]; [|injection G as G; congruence|discriminate].
      apply G. apply (o2m_agree s I p v). auto. }
  eapply inv_o2m_ext.
  2:{ apply AD.
      - eapply set_at_NoDup; eauto; [apply (o2m_nodup s I)|].
        destruct G as [G|[G|G]]; [left; exact G|right; congruence|discriminate].
      - intros x. unfold D. rewrite coll_set_same.
        rewrite (set_at_char i v l e E (o2m_nodup s I p) x), remove1_In by apply (o2m_nodup s I).
        split; [intros [->|[H K]]; [left; reflexivity|]|intros [->|[[H K] _]]; [left; reflexivity|right; tauto]].
        destruct (N.eq_dec x v) as [->|NE]; [left; reflexivity|right; tauto]. }
  (* same cells *)
  unfold D.
  pose proof (attach_child_ignores_own_coll U p v (remove1 e l) HU) as SC.
  destruct SC as [SA1 SB1]. split; intros x.
  - specialize (SA1 x). cbn in *. unfold upd in *. destruct (x =? p); [reflexivity|exact SA1].
  - specialize (SB1 x). cbn in *. exact SB1.
Qed.
