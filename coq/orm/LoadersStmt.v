(* C40 - what a statement returns: whichever of the two statement forms (_compound_eager_statement /
   _simple_statement) is chosen, the rows are an ordered version of
   (the statement's own primary rows) LEFT OUTER JOIN (the eager chain),
   PROVIDED the subquery wrap is applied at least where _should_nest_selectable asks for it. *)
From Coq Require Import List ZArith Bool Lia Sorting.Sorted.
Import ListNotations.
From SAV.orm Require Import Loaders LoadersBase LoadersJoin.
Open Scope Z_scope.

(* the primary rows of a statement: FROM/WHERE -> DISTINCT/GROUP BY -> ORDER BY -> LIMIT/OFFSET *)
Definition stmt_heads (src : source) : list tagged :=
  slice (src_limit src) (src_offset src)
    (sort_by (hkey (src_order src))
       (if src_distinct src || src_group src then uniq_by tagged_id (src_base src) else src_base src)).

Definition nest_covers (nestf : nest_fn) : Prop :=
  forall a b c d e f g, should_nest a b c d e f g = true -> nestf a b c d e f g = true.

Lemma should_nest_covers : nest_covers should_nest.
Proof. intros a b c d e f g H; exact H. Qed.

Lemma uniq_by_extk : forall {A} (k1 k2 : A -> list Z) l, (forall a, k1 a = k2 a) -> uniq_by k1 l = uniq_by k2 l.
Proof. intros. apply uniq_by_ext. intros a b _ _. rewrite !H. auto. Qed.

Lemma nodup_alleq_single : forall {A} (l : list A), NoDup l -> (forall a b, In a l -> In b l -> a = b) -> l <> [] ->
  exists m, l = [m].
Proof.
  intros A [|a [|b l]] N H NE; [contradiction|eauto|].
  exfalso. inversion N; subst. apply H2. rewrite (H a b); cbn; auto.
Qed.

Lemma ljoin1_up_single : forall s l, wf_step s -> is_down s = false -> exists m, ljoin1 s l = [m].
Proof.
  intros s [p|] WS K; cbn [ljoin1]; [|eauto]. fold (matches s p).
  destruct (matches s p) as [|m ms] eqn:E; [eauto|].
  assert (KU : st_kind s = Up) by (unfold is_down in K; destruct (st_kind s); auto; discriminate).
  destruct (nodup_alleq_single (matches s p)) as [m' Em].
  - apply matches_nodup; auto.
  - intros a b Ha Hb. apply filter_In in Ha as [Ha La]. apply filter_In in Hb as [Hb Lb].
    eapply (up_matches_eq s p); eauto.
  - rewrite E; discriminate.
  - rewrite <- E, Em. cbn. eauto.
Qed.

Lemma ljoin_chain_up_single : forall chain, Forall wf_step chain -> existsb is_down chain = false ->
  forall l, exists t, ljoin_chain chain l = [t] /\ tail_key chain t = [].
Proof.
  induction chain as [|s rest IH]; intros WF K l; cbn [ljoin_chain].
  - exists []. auto.
  - inversion WF; subst. cbn in K. apply orb_false_iff in K as [K1 K2].
    destruct (ljoin1_up_single s l H1 K1) as [m Em]. rewrite Em. cbn [flat_map].
    destruct (IH H2 K2 m) as [t [Et Tk]]. rewrite Et. cbn. exists (m :: t). split; auto.
    cbn [tail_key]. rewrite Tk.
    assert (st_order s = ONone).
    { destruct H1 as [_ H1]. unfold is_down in K1. destruct (st_kind s); auto; discriminate. }
    rewrite H. reflexivity.
Qed.

Definition phi (chain : list step) (h : tagged) : jrow := (h, hd [] (ljoin_chain chain (Some (snd h)))).

Lemma ljoin_rows_up : forall chain, Forall wf_step chain -> existsb is_down chain = false ->
  forall l, ljoin_rows chain l = map (phi chain) l.
Proof.
  intros chain WF K. induction l as [|h l IH]; auto. unfold ljoin_rows in *. cbn [flat_map map]. rewrite IH.
  unfold phi at 2. destruct (ljoin_chain_up_single chain WF K (Some (snd h))) as [t [Et _]]. rewrite Et. reflexivity.
Qed.
Lemma jkey_phi : forall o0 chain, Forall wf_step chain -> existsb is_down chain = false ->
  forall h, jkey o0 chain (phi chain h) = hkey o0 h.
Proof.
  intros o0 chain WF K h. unfold jkey, phi, jhead, jtail, hkey. cbn [fst snd].
  destruct (ljoin_chain_up_single chain WF K (Some (snd h))) as [t [Et Tk]]. rewrite Et. cbn [hd]. rewrite Tk. apply app_nil_r.
Qed.

Lemma eval_stmt_char : forall nestf src chain, nest_covers nestf -> Forall wf_step chain ->
  sorted (jkey (src_order src) chain) (eval_stmt nestf src chain) /\
  eqset (eval_stmt nestf src chain) (ljoin_rows chain (stmt_heads src)).
Proof.
  intros nestf src chain NC WF. unfold eval_stmt, stmt_heads. cbv zeta.
  set (o0 := src_order src). set (b := src_base src).
  destruct (stmt_nests nestf src chain) eqn:EN.
  - (* compound: wrapped *)
    split; [apply sort_by_sorted|apply eqset_sort_by].
  - (* simple *)
    assert (SN : should_nest (negb (is_nil chain)) (existsb is_down chain) (is_some (src_limit src))
                   (is_some (src_offset src)) (src_distinct src) false (src_group src) = false).
    { destruct (should_nest _ _ _ _ _ _ _) eqn:E; auto. apply NC in E. unfold stmt_nests in EN. congruence. }
    destruct (existsb is_down chain) eqn:MR.
    + (* a collection is joined: no wrap means no LIMIT/OFFSET/DISTINCT/GROUP BY *)
      assert (NE : is_nil chain = false) by (destruct chain; auto; discriminate).
      unfold should_nest in SN. rewrite NE in SN. cbn [negb] in SN. rewrite !andb_true_r in SN.
      apply orb_false_iff in SN as [SN SG]. apply orb_false_iff in SN as [SN _]. apply orb_false_iff in SN as [SN SD].
      apply orb_false_iff in SN as [SL SO].
      rewrite SD, SG. cbn [orb].
      destruct (src_limit src); [discriminate|]. destruct (src_offset src); [discriminate|].
      rewrite !slice_none. split; [apply sort_by_sorted|].
      eapply eqset_trans; [apply eqset_sort_by|]. unfold ljoin_rows. apply eqset_flat_map.
      apply eqset_sym, eqset_sort_by.
    + (* only scalars are joined (or nothing): one row per primary row, LIMIT commutes *)
      rewrite !(ljoin_rows_up chain WF MR).
      match goal with |- context [sort_by (jkey o0 chain) ?X] =>
        assert (DG : X = map (phi chain) (if src_distinct src || src_group src then uniq_by tagged_id b else b)) end.
      { destruct chain as [|c0 chain'].
        - assert (P : forall h, phi [] h = (h, [])) by reflexivity.
          assert (U1 : uniq_by jrow_id (map (phi []) b) = map (phi []) (uniq_by tagged_id b)).
          { rewrite uniq_by_map. f_equal. apply uniq_by_extk. intro a. rewrite P. unfold jrow_id. cbn. apply app_nil_r. }
          assert (U2 : forall l, uniq_by (fun x => tagged_id (fst x)) (map (phi []) l) = map (phi []) (uniq_by tagged_id l)).
          { intro l. rewrite uniq_by_map. f_equal. }
          destruct (src_distinct src), (src_group src); cbn [orb]; rewrite ?U1, ?U2, ?uniq_by_idem; auto.
        - unfold should_nest in SN. cbn [is_nil negb] in SN.
          apply orb_false_iff in SN as [SN SG]. apply orb_false_iff in SN as [SN _]. apply orb_false_iff in SN as [_ SD].
          rewrite SD, SG. reflexivity. }
      rewrite DG. rewrite sort_by_map.
      rewrite (sort_by_ext (fun a => jkey o0 chain (phi chain a)) (hkey o0)) by (intros; apply jkey_phi; auto).
      rewrite slice_map. split; [|apply eqset_refl].
      eapply sorted_map; [apply sorted_slice, sort_by_sorted|].
      intros x y _ _ Hk. unfold kle in *. rewrite !jkey_phi; auto.
Qed.
