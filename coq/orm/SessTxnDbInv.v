(* C33 - the database side of the invariant: every frame's restore point is its snapshot table. *)
From Coq Require Import List ZArith Bool Arith Lia.
Import ListNotations.
From SAV.orm Require Import SessTxn SessTxnBase SessTxnSpec SessTxnInv.
Open Scope nat_scope.

(* what the database invariant looks at in a frame *)
Definition skel (f : frame) : nat * bool * tstate * bool := (fid f, fnested f, fstate f, fconn f).

Lemma skel_in : forall fs fs', map skel fs = map skel fs' ->
  forall x', In x' fs' -> exists x, In x fs /\ skel x = skel x'.
Proof.
  induction fs as [|a fs IH]; intros [|a' fs'] E; try discriminate; intros x' Hx; [contradiction|].
  cbn in E. injection E as E1 E2 E3 E4 E5. destruct Hx as [Hx|Hx].
  - subst x'. exists a. split; [left; reflexivity|unfold skel; congruence].
  - destruct (IH fs' E5 x' Hx) as [x [X1 X2]]. exists x. split; [right; exact X1|exact X2].
Qed.

Lemma entries_skel : forall fs fs' gs, map skel fs = map skel fs' -> entries fs gs = entries fs' gs.
Proof.
  induction fs as [|f fs IH]; intros fs' gs E; destruct fs' as [|f' fs']; try discriminate; auto.
  cbn in E. injection E as E1 E2 E3 E4 E5. destruct gs as [|g gs]; auto.
  cbn [entries]. unfold live_conn. rewrite E1, E2, E3, E4. rewrite (IH fs' gs E5). reflexivity.
Qed.
Lemma SnapOk_skel : forall fs fs' gs T cm, map skel fs = map skel fs' -> SnapOk fs gs T cm -> SnapOk fs' gs T cm.
Proof.
  induction fs as [|f fs IH]; intros fs' gs T cm E H; destruct fs' as [|f' fs']; try discriminate; auto.
  cbn in E. injection E as E1 E2 E3 E4 E5. destruct gs as [|g gs]; [exact H|].
  cbn [SnapOk] in *. rewrite <- E4, <- E2. destruct H as [A B]. split; eauto.
Qed.
Lemma SavesOk_skel : forall fs fs' gs T cm sv, map skel fs = map skel fs' ->
  SavesOk fs gs T cm sv -> SavesOk fs' gs T cm sv.
Proof.
  intros fs fs' gs T cm sv E [A B]. split.
  - rewrite <- (entries_skel fs fs' gs E). exact A.
  - eapply SnapOk_skel; eauto.
Qed.

Lemma FramesOk_skel : forall fs fs' b, map skel fs = map skel fs' -> FramesOk b fs -> FramesOk b fs'.
Proof.
  induction fs as [|f fs IH]; intros fs' b E H; destruct fs' as [|f' fs']; try discriminate; auto.
  pose proof E as E0. cbn in E. inversion E as [[E1 E2 E3 E4 E5]]. cbn [FramesOk] in *.
  destruct H as [A [B [C [D F]]]]. rewrite <- E1, <- E2, <- E4.
  pose proof (skel_in fs fs' E5) as Hin.
  split; [exact A|]. split; [eapply IH; eauto|]. split; [|split].
  - destruct C as [C1 C2]. split; intros X.
    + specialize (C1 X). intros Y. subst fs'. destruct fs; [congruence|discriminate].
    + apply C2. intros Y. subst fs. destruct fs'; [congruence|discriminate].
  - intros X x' Hx. destruct (Hin x' Hx) as [x [X1 X2]]. specialize (D X x X1). unfold skel in X2. congruence.
  - intros x' Hx. destruct (Hin x' Hx) as [x [X1 X2]]. specialize (F x X1). unfold skel in X2. congruence.
Qed.

(* when the innermost frame has a connection the "inside" table is irrelevant *)
Lemma SavesOk_T : forall f fs g gs T T' cm sv, fconn f = true ->
  SavesOk (f :: fs) (g :: gs) T cm sv -> SavesOk (f :: fs) (g :: gs) T' cm sv.
Proof. intros f fs g gs T T' cm sv H [A B]. split; auto. cbn [SnapOk] in *. rewrite H in *. exact B. Qed.

Lemma FramesOk_lt : forall fs b f, FramesOk b fs -> In f fs -> fid f < b.
Proof.
  induction fs as [|a fs IH]; intros b f H Hin; [contradiction|].
  cbn in H. destruct H as [A [B _]]. destruct Hin as [Hin|Hin]; [subst; auto|].
  specialize (IH _ _ B Hin). lia.
Qed.
Lemma FramesOk_weaken : forall fs b b', FramesOk b fs -> b <= b' -> FramesOk b' fs.
Proof. destruct fs as [|f fs]; intros b b' H Hb; auto. cbn in *. destruct H as [A B]. split; [lia|exact B]. Qed.

(* ------------------------------------------------------------------ the database invariant *)
Definition all_noconn (fs : list frame) : Prop := forall f, In f fs -> fconn f = false.

Record DbOk (st : sess) (gs : list ghost) : Prop := mkDbOk {
  d_frames : FramesOk (nfid st) (stack st);
  d_head : head_ok (stack st);
  d_noconn : all_noconn (stack st) -> work st = committed st;
  d_saves : SavesOk (stack st) gs (work st) (committed st) (saves st)
}.

(* a change that the database invariant does not see *)
Lemma DbOk_ext : forall st st' gs,
  map skel (stack st') = map skel (stack st) -> nfid st' = nfid st -> saves st' = saves st ->
  work st' = work st -> committed st' = committed st -> DbOk st gs -> DbOk st' gs.
Proof.
  intros st st' gs E1 E2 E3 E4 E5 D. destruct D as [D1 D2 D4 D5]. constructor.
  - rewrite E2. eapply FramesOk_skel; [symmetry; exact E1|exact D1].
  - unfold head_ok in *. destruct (stack st') as [|f' r'], (stack st) as [|f r]; try discriminate; auto.
    cbn in E1. injection E1 as A1 A2 A3 A4 A5. rewrite A3. exact D2.
  - intros H. rewrite E4, E5. apply D4. intros f Hf.
    destruct (skel_in (stack st') (stack st) E1 f Hf) as [f' [X1 X2]]. specialize (H f' X1). unfold skel in X2. congruence.
  - rewrite E3, E4, E5. eapply SavesOk_skel; [symmetry; exact E1|exact D5].
Qed.

(* with a connection on the innermost frame the working table may change freely *)
Lemma DbOk_work : forall st st' gs f rest,
  stack st = f :: rest -> fconn f = true ->
  map skel (stack st') = map skel (stack st) -> nfid st' = nfid st -> saves st' = saves st ->
  committed st' = committed st -> DbOk st gs -> DbOk st' gs.
Proof.
  intros st st' gs f rest Hs Hc E1 E2 E3 E5 D. destruct D as [D1 D2 D4 D5]. constructor.
  - rewrite E2. eapply FramesOk_skel; [symmetry; exact E1|exact D1].
  - unfold head_ok in *. destruct (stack st') as [|f' r'], (stack st) as [|f0 r0]; try discriminate; auto.
    cbn in E1. injection E1 as A1 A2 A3 A4 A5. rewrite A3. exact D2.
  - intros H. exfalso. rewrite Hs in E1. destruct (stack st') as [|f' r']; [discriminate|].
    cbn in E1. injection E1 as A1 A2 A3 A4 A5. specialize (H f' (or_introl eq_refl)). congruence.
  - rewrite E3, E5. rewrite Hs in *. destruct (stack st') as [|f' r'] eqn:Es'; [discriminate|].
    destruct gs as [|g gs']; [destruct D5 as [_ []]|].
    eapply SavesOk_T with (T := work st).
    + cbn in E1. injection E1 as A1 A2 A3 A4 A5. congruence.
    + eapply SavesOk_skel; [symmetry; exact E1|exact D5].
Qed.

(* provisioning: every frame gets its connection; savepoints are taken with the current table, which is
   the snapshot of every frame that had no connection yet *)
Definition lists_of (f : frame) := (fnew f, fdel f, fdirty f, fks f, frbexc f, fid f, fnested f, fstate f).

Lemma entries_noconn : forall f fs g gs, fconn f = false -> entries (f :: fs) (g :: gs) = entries fs gs.
Proof. intros. cbn. unfold live_conn. rewrite H. reflexivity. Qed.

Lemma provision_fs_ok : forall fs gs wk cm b,
  FramesOk b fs -> (forall f, In f fs -> fstate f = ACTIVE) ->
  SnapOk fs gs wk cm -> (all_noconn fs -> wk = cm) ->
  exists fs', provision_fs fs wk (entries fs gs) = (None, fs', entries fs' gs) /\
    map lists_of fs' = map lists_of fs /\
    (forall f, In f fs' -> fconn f = true) /\
    SnapOk fs' gs wk cm.
Proof.
  induction fs as [|f fs IH]; intros gs wk cm b HF HA HS HN.
  - exists []. cbn. repeat split; auto; try (intros f []).
  - cbn [provision_fs]. unfold check_prereq. rewrite (HA f (or_introl eq_refl)).
    change (prereq_ok M_conn_for_bind ACTIVE) with true. cbv iota.
    destruct gs as [|g gs]; [destruct HS|].
    cbn [FramesOk] in HF. destruct HF as [F1 [F2 [F3 [F4 F5]]]].
    destruct (fconn f) eqn:Ec.
    + exists (f :: fs). split; [reflexivity|]. split; [reflexivity|]. split; [|exact HS].
      intros f' [X|X]; [subst; auto|apply F4; auto].
    + cbn [SnapOk] in HS. rewrite Ec in HS. destruct HS as [S1 S2].
      assert (P2 : forall f', In f' fs -> fstate f' = ACTIVE) by (intros f' Hf'; apply HA; right; auto).
      assert (P3 : SnapOk fs gs wk cm) by (rewrite <- S1; exact S2).
      assert (P4 : all_noconn fs -> wk = cm).
      { intros Hn. apply HN. intros f' [X|X]; [subst; auto|apply Hn; auto]. }
      destruct (IH gs wk cm (fid f) F2 P2 P3 P4) as [fs' [E1 [E2 [E3 E5]]]].
      rewrite (entries_noconn f fs g gs Ec). rewrite E1.
      exists (f_conn f true :: fs'). split.
      * cbn [entries]. unfold live_conn. cbn [fconn fnested fstate fid f_conn]. rewrite (HA f (or_introl eq_refl)). cbn [live_state].
        rewrite andb_true_r. cbn [andb]. destruct (fnested f); [rewrite S1|]; reflexivity.
      * split; [cbn; rewrite E2; reflexivity|]. split; [intros f' [X|X]; [subst; reflexivity|auto]|].
        cbn [SnapOk fconn f_conn fnested]. destruct (fnested f) eqn:En.
        -- split; auto. rewrite S1. exact E5.
        -- destruct F3 as [_ F3].
           assert (fs = []). { destruct fs; auto. exfalso. assert (X : false = true) by (apply F3; discriminate). discriminate. }
           subst fs. cbn in E1. injection E1 as X1 X2. subst fs'. destruct gs; [|destruct P3].
           split; [|exact I]. rewrite S1. symmetry. apply HN. intros f' [X|[]]. subst f'. exact Ec.
Qed.

(* the database goes back to the restore point of the innermost frame, which becomes DEACTIVE *)
Lemma head_rollback_ok : forall st g gs' f rest, DbOk st (g :: gs') -> stack st = f :: rest ->
  live_state (fstate f) = true ->
  exists s1, head_db_rollback st = (Ok, s1) /\ work s1 = gW g /\ DbOk (set_head_state DEACTIVE s1) (g :: gs') /\
    objs s1 = objs st /\ nobj s1 = nobj st /\ snew s1 = snew st /\ sdel s1 = sdel st /\ stack s1 = stack st /\
    committed s1 = committed st /\ nfid s1 = nfid st /\ eoc s1 = eoc st /\ handles s1 = handles st.
Proof.
  intros st g gs' f rest D Hs Hl. destruct D as [D1 D2 D4 [D5 D6]].
  unfold head_db_rollback. rewrite Hs. rewrite Hs in D5, D6. cbn [entries SnapOk] in D5, D6.
  unfold live_conn in D5. rewrite Hl in D5. rewrite andb_true_r in D5.
  assert (Hstk : forall s, stack s = f :: rest -> stack (set_head_state DEACTIVE s) = f_state f DEACTIVE :: rest).
  { intros s Hss. unfold set_head_state. destruct (upd_head_fields s (fun f0 => f_state f0 DEACTIVE)) as [_ [_ [_ [_ [_ [_ [_ [_ [_ [_ X]]]]]]]]]].
    rewrite X, Hss. reflexivity. }
  assert (Hent : forall gsx, entries (f_state f DEACTIVE :: rest) (g :: gsx) = entries rest gsx).
  { intros gsx. cbn [entries]. unfold live_conn. cbn. rewrite !andb_false_r. reflexivity. }
  destruct (fconn f) eqn:Ec.
  - destruct (fnested f) eqn:En.
    + cbn [andb] in D5. unfold db_rollback_to. rewrite D5. cbn [drop_to]. rewrite Nat.eqb_refl.
      eexists. split; [reflexivity|]. cbn [work set_db]. split; [reflexivity|]. split; [|repeat split; auto].
      destruct (upd_head_fields (set_db st (committed st) (gW g) (entries rest gs')) (fun f0 => f_state f0 DEACTIVE))
        as [X0 [X1 [X2 [X3 [X4 [X5 [X6 [X7 [X8 [X9 X10]]]]]]]]]].
      constructor.
      * unfold set_head_state. rewrite X9, X10. cbn. rewrite Hs. rewrite Hs in D1. cbn [FramesOk] in *. exact D1.
      * unfold set_head_state. rewrite X10. cbn. rewrite Hs. cbn. auto.
      * intros Hn. exfalso. unfold set_head_state in Hn. rewrite X10 in Hn. cbn in Hn. rewrite Hs in Hn.
        specialize (Hn _ (or_introl eq_refl)). cbn in Hn. congruence.
      * unfold set_head_state. rewrite X10, X7, X6, X8. cbn [stack work committed saves set_db]. rewrite Hs.
        split; [rewrite Hent; reflexivity|]. cbn [SnapOk fconn fnested f_state]. rewrite Ec, En. exact D6.
    + cbn [andb] in D5. destruct D6 as [A B].
      eexists. split; [reflexivity|]. cbn [work db_rollback set_db]. split; [exact A|]. split; [|repeat split; auto].
      destruct (upd_head_fields (db_rollback st) (fun f0 => f_state f0 DEACTIVE)) as [X0 [X1 [X2 [X3 [X4 [X5 [X6 [X7 [X8 [X9 X10]]]]]]]]]].
      constructor.
      * unfold set_head_state. rewrite X9, X10. cbn. rewrite Hs. rewrite Hs in D1. cbn [FramesOk] in *. exact D1.
      * unfold set_head_state. rewrite X10. cbn. rewrite Hs. cbn. auto.
      * intros Hn. exfalso. unfold set_head_state in Hn. rewrite X10 in Hn. cbn in Hn. rewrite Hs in Hn.
        specialize (Hn _ (or_introl eq_refl)). cbn in Hn. congruence.
      * unfold set_head_state. rewrite X10, X7, X6, X8. cbn [stack work committed saves db_rollback set_db]. rewrite Hs.
        split.
        -- rewrite Hent.
           rewrite Hs in D1. cbn in D1. destruct D1 as [_ [_ [[_ X] _]]].
           assert (rest = []). { destruct rest; auto. exfalso. assert (Y : fnested f = true) by (apply X; discriminate). congruence. }
           subst rest. reflexivity.
        -- cbn [SnapOk fconn fnested f_state]. rewrite Ec, En. split; auto.
  - cbn [andb] in D5. destruct D6 as [A B]. eexists. split; [reflexivity|]. split; [symmetry; exact A|]. split; [|repeat split; auto].
    destruct (upd_head_fields st (fun f0 => f_state f0 DEACTIVE)) as [X0 [X1 [X2 [X3 [X4 [X5 [X6 [X7 [X8 [X9 X10]]]]]]]]]].
    constructor.
    + unfold set_head_state. rewrite X9, X10. rewrite Hs. rewrite Hs in D1. cbn [FramesOk] in *. exact D1.
    + unfold set_head_state. rewrite X10. rewrite Hs. cbn. auto.
    + intros Hn. unfold set_head_state. rewrite X7, X6. apply D4. rewrite Hs. intros f' [Y|Y]; [subst; auto|].
      apply Hn. unfold set_head_state. rewrite X10, Hs. right; auto.
    + unfold set_head_state. rewrite X10, X7, X6, X8. rewrite Hs.
      split; [rewrite Hent; exact D5|]. cbn [SnapOk fconn fnested f_state]. rewrite Ec. split; auto.
Qed.
