(* C40 - the spec side of the derived statements (lazy, selectin, subquery loads): the tag group of a
   parent key is the parent's related rows, in relationship order. *)
From Coq Require Import List ZArith Bool Lia Sorting.Sorted Permutation.
Import ListNotations.
From SAV.orm Require Import Loaders LoadersBase LoadersJoin LoadersStmt LoadersSrc LoadersOne.
Open Scope Z_scope.

Lemma linked_match : forall s e k c, parent_key (st_kind s) e = Some k -> linked s e c = match_key s k c.
Proof. intros. unfold linked, match_key. rewrite H. reflexivity. Qed.
Lemma related_none : forall s e, parent_key (st_kind s) e = None -> related s e = [].
Proof.
  intros s e H. unfold related. replace (filter (linked s e) (st_table s)) with (@nil row); auto.
  symmetry. induction (st_table s) as [|c l IH]; cbn; auto. unfold linked at 1. rewrite H. cbn. auto.
Qed.
Lemma related_match : forall s e k, parent_key (st_kind s) e = Some k ->
  related s e = sort_by (rkey (st_order s)) (filter (match_key s k) (st_table s)).
Proof. intros. unfold related. f_equal. apply filter_ext. intro c. apply linked_match; auto. Qed.

Lemma wf_table_filter : forall f t, wf_table t -> wf_table (filter f t).
Proof.
  unfold wf_table. induction t as [|a t IH]; intro N; cbn; auto. inversion N; subst.
  destruct (f a); cbn; auto. constructor; auto. intro Hin. apply H1. apply in_map_iff in Hin as [x [E Hx]].
  apply filter_In in Hx as [Hx _]. rewrite <- E. apply in_map; auto.
Qed.
Lemma wf_table_perm : forall t t', Permutation t t' -> wf_table t -> wf_table t'.
Proof. unfold wf_table. intros. eapply Permutation_NoDup; [apply Permutation_map; eauto|auto]. Qed.
Lemma wf_table_sort : forall k t, wf_table t -> wf_table (sort_by k t).
Proof. intros. eapply wf_table_perm; [apply Permutation_sym, sort_by_perm|auto]. Qed.

Definition tau (tagfn : row -> option Z) (r : row) : tagged := (tagfn r, r).

Lemma uniq_tau_id : forall tagfn l, wf_table l -> uniq_by tagged_id (map (tau tagfn) l) = map (tau tagfn) l.
Proof.
  intros tagfn l W. apply uniq_by_nodup_id. rewrite map_map. unfold wf_table in W.
  revert W. induction l as [|a l IH]; intro N; cbn; [constructor|]. inversion N; subst. constructor; auto.
  intro Hin. apply H1. apply in_map_iff in Hin as [x [E Hx]]. apply tagged_id_inv in E as [_ E]. cbn in E.
  rewrite <- E. apply in_map; auto.
Qed.

(* sources without DISTINCT/LIMIT whose base is a tagged sub-table *)
Lemma simple_src_sel : forall src tagfn B path t,
  src_distinct src = false -> src_group src = false -> src_limit src = None -> src_offset src = None ->
  src_base src = map (tau tagfn) B -> wf_table B ->
  sel t (spec_out src path) =
  map (graph_of path) (sort_by (rkey (src_order src)) (filter (fun r => otag_eqb (tagfn r) t) B)).
Proof.
  intros src tagfn B path t HD HG HL HO HB W. rewrite spec_out_sel. unfold stmt_heads.
  rewrite HD, HG, HL, HO, HB. cbn [orb]. rewrite slice_none.
  rewrite (sort_by_map (hkey (src_order src)) (tau tagfn)).
  rewrite (sort_by_ext (fun a => hkey (src_order src) (tau tagfn a)) (rkey (src_order src))) by reflexivity.
  rewrite uniq_tau_id by (apply wf_table_sort; auto).
  rewrite filter_map_swap. rewrite map_map. cbn [tau fst snd].
  rewrite filter_sort_by. reflexivity.
Qed.

Lemma lazy_sel_none : forall s k path, wf_step s ->
  sel None (spec_out (SrcLazy s k) path) =
  map (graph_of path) (sort_by (rkey (st_order s)) (filter (match_key s k) (st_table s))).
Proof.
  intros s k path [W _].
  rewrite (simple_src_sel (SrcLazy s k) (fun _ => None) (filter (match_key s k) (st_table s))); auto.
  - cbn [src_order]. f_equal. f_equal. apply filter_all_id. auto.
  - apply wf_table_filter; auto.
Qed.
Lemma lazy_sel_some : forall s k path t, wf_step s -> t <> None -> sel t (spec_out (SrcLazy s k) path) = [].
Proof.
  intros s k path t [W _] Ht.
  rewrite (simple_src_sel (SrcLazy s k) (fun _ => None) (filter (match_key s k) (st_table s))); auto.
  - replace (filter (fun _ : row => otag_eqb None t) (filter (match_key s k) (st_table s))) with (@nil row); auto.
    symmetry. destruct t; [|contradiction]. cbn. induction (filter (match_key s k) (st_table s)); auto.
  - apply wf_table_filter; auto.
Qed.

Definition in_chunk (s : step) (ks : list Z) (c : row) : bool :=
  match child_key (st_kind s) c with Some x => memZ x ks | None => false end.

Lemma in_sel : forall s ks k path, wf_step s -> In k ks ->
  sel (Some k) (spec_out (SrcIn s ks) path) =
  map (graph_of path) (sort_by (rkey (st_order s)) (filter (match_key s k) (st_table s))).
Proof.
  intros s ks k path [W _] Hk.
  rewrite (simple_src_sel (SrcIn s ks) (child_key (st_kind s)) (filter (in_chunk s ks) (st_table s))); auto.
  - cbn [src_order]. f_equal. f_equal. rewrite filter_filter_imp.
    + apply filter_ext. intro c. unfold match_key. destruct (child_key (st_kind s) c); cbn; auto. apply Z.eqb_sym.
    + intros c _ Hc. unfold in_chunk. destruct (child_key (st_kind s) c) as [x|]; [|discriminate]. cbn in Hc.
      apply Z.eqb_eq in Hc. subst. apply memZ_in; auto.
  - apply wf_table_filter; auto.
Qed.

(* ---------------------------------------------------------------- subquery load: the tag group *)
Lemma subq_sel : forall orig first rest k path,
  let tgt := last_step first rest in
  wf_step tgt ->
  (forall c, In c (st_table tgt) -> match_key tgt k c = true -> In c (ireach (subq_rows1 orig first) rest)) ->
  sel (Some k) (spec_out (SrcSubq orig first rest) path) =
  map (graph_of path) (sort_by (rkey (st_order tgt)) (filter (match_key tgt k) (st_table tgt))).
Proof.
  intros orig first rest k path tgt WS Hcover.
  set (R := ireach (subq_rows1 orig first) rest).
  assert (HR : forall c, In c R -> In c (st_table tgt)).
  { intros c Hc. unfold R in Hc. eapply ireach_table; [|exact Hc]. apply subq_rows1_table. }
  rewrite spec_out_sel. unfold stmt_heads. cbn [src_distinct src_group src_limit src_offset src_order orb].
  rewrite slice_none, src_base_subq. fold tgt. fold R.
  set (tf := child_key (st_kind tgt)).
  change (fun r => (tf r, r)) with (tau tf).
  set (pt := fun h : tagged => otag_eqb (fst h) (Some k)).
  assert (Prespect : forall a b : tagged, tagged_id a = tagged_id b -> pt a = pt b).
  { intros a b Eab. unfold pt. rewrite (tagged_id_tag a b Eab). auto. }
  rewrite <- (uniq_by_filter tagged_id pt Prespect).
  rewrite filter_sort_by, filter_map_swap.
  rewrite (sort_by_map (hkey (st_order tgt)) (tau tf)).
  rewrite (sort_by_ext (fun a => hkey (st_order tgt) (tau tf a)) (rkey (st_order tgt))) by reflexivity.
  rewrite uniq_by_map, map_map. cbn [tau snd].
  change (fun x : row => graph_of path x) with (graph_of path). apply f_equal.
  set (Rk := filter (fun a => pt (tau tf a)) R).
  set (X := uniq_by (fun a => tagged_id (tau tf a)) (sort_by (rkey (st_order tgt)) Rk)).
  set (Y := sort_by (rkey (st_order tgt)) (filter (match_key tgt k) (st_table tgt))).
  destruct WS as [WT WK].
  assert (HRk : forall c, In c Rk <-> In c (st_table tgt) /\ match_key tgt k c = true).
  { intro c. unfold Rk. rewrite filter_In. unfold pt, tau, tf. cbn [fst]. unfold match_key.
    split.
    - intros [Hc Hm]. split; auto. destruct (child_key (st_kind tgt) c); cbn in *; [|discriminate]. rewrite Z.eqb_sym; auto.
    - intros [Hc Hm]. split; [apply Hcover; auto|]. destruct (child_key (st_kind tgt) c); cbn in *; [|discriminate]. rewrite Z.eqb_sym; auto. }
  assert (KI : key_inj (fun a => tagged_id (tau tf a)) (sort_by (rkey (st_order tgt)) Rk)).
  { intros a b Ha Hb Eab. apply sort_by_in in Ha, Hb. apply HRk in Ha as [Ha _]. apply HRk in Hb as [Hb _].
    apply tagged_id_inv in Eab as [_ Eab]. eapply table_id_inj; eauto. }
  assert (HX : forall c, In c X <-> In c (st_table tgt) /\ match_key tgt k c = true).
  { intro c. unfold X. rewrite uniq_by_in_iff by exact KI. rewrite sort_by_in. apply HRk. }
  assert (HY : forall c, In c Y <-> In c (st_table tgt) /\ match_key tgt k c = true).
  { intro c. unfold Y. rewrite sort_by_in, filter_In. tauto. }
  assert (NX : NoDup X) by (eapply NoDup_map_inv; apply uniq_by_nodup).
  assert (NY : NoDup Y).
  { unfold Y. eapply Permutation_NoDup; [apply Permutation_sym, sort_by_perm|]. apply NoDup_filter. apply wf_table_nodup; auto. }
  assert (EXY : eqset X Y) by (intro c; rewrite HX, HY; tauto).
  destruct (st_kind tgt) eqn:K.
  - apply (sorted_unique (rkey (st_order tgt))); auto.
    + unfold X. apply uniq_by_sorted. apply sort_by_sorted.
    + unfold Y. apply sort_by_sorted.
    + intros a b Ha Hb Eab. apply HX in Ha as [Ha _]. apply HX in Hb as [Hb _].
      eapply table_id_inj; eauto. eapply rkey_inj; eauto.
  - apply nodup_alleq_unique; auto. intros a b Ha Hb. apply HX in Ha as [Ha Ma]. apply HX in Hb as [Hb Mb].
    unfold match_key in Ma, Mb. rewrite K in Ma, Mb. cbn in Ma, Mb. apply Z.eqb_eq in Ma, Mb.
    eapply table_id_inj; eauto. congruence.
Qed.
