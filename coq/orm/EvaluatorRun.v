(* executable entry point for the correspondence check of C43 *)
From Coq Require Import List ZArith NArith Bool.
Import ListNotations.
From SAV.base Require Import Tree.
From SAV.sql Require Import Val3 InList.
From SAV.orm Require Import Evaluator FetchSync.
Open Scope Z_scope.

(* the mapped class of the harness: x, y Integer; s, t String *)
Definition sc0 : schema := fun c => match c with 0%nat | 1%nat => TyInt | _ => TyStr end.

(* ---- decoding ---- *)
Definition as_sv (t : tree) : option sv :=
  match t with
  | L [I 0] => Some SNull
  | L [I 1; I z] => Some (SInt z)
  | L (I 2 :: cs) => option_map SText (Tree.all_some (map as_N cs))
  | _ => None
  end.
Definition as_sty (t : tree) : option sty :=
  match t with I 0 => Some TyInt | I 1 => Some TyStr | I 2 => Some TyBool | I 3 => Some TyNull | _ => None end.
Definition as_binop (z : Z) : option binop :=
  match z with
  | 0 => Some OAdd | 1 => Some OSub | 2 => Some OMul | 3 => Some OMod
  | 4 => Some OLt | 5 => Some OLe | 6 => Some ONe | 7 => Some OGt | 8 => Some OGe | 9 => Some OEq
  | 10 => Some OIs | 11 => Some OIsNot | 12 => Some OConcat | 13 => Some OStartsWith | 14 => Some OEndsWith
  | 15 => Some OOther
  | _ => None
  end.

Fixpoint as_ex (t : tree) {struct t} : option ex :=
  match t with
  | L [I 0; c] => option_map ECol (as_nat c)
  | L [I 1; ty; v] => match as_sty ty, as_sv v with Some a, Some b => Some (ELit a b) | _, _ => None end
  | L [I 2] => Some ENull
  | L [I 3] => Some ETrue
  | L [I 4] => Some EFalse
  | L [I 5; I o; a; b] =>
      match as_binop o, as_ex a, as_ex b with Some o', Some a', Some b' => Some (EBin o' a' b') | _, _, _ => None end
  | L [I 6; n; a; L vs] =>
      match as_bool n, as_ex a, Tree.all_some (map as_sv vs) with
      | Some n', Some a', Some vs' => Some (EIn n' a' vs') | _, _, _ => None end
  | L [I 7; L es] =>
      option_map EAnd ((fix go (l : list tree) : option (list ex) :=
                          match l with
                          | [] => Some []
                          | x :: r => match as_ex x, go r with Some x', Some r' => Some (x' :: r') | _, _ => None end
                          end) es)
  | L [I 8; L es] =>
      option_map EOr ((fix go (l : list tree) : option (list ex) :=
                         match l with
                         | [] => Some []
                         | x :: r => match as_ex x, go r with Some x', Some r' => Some (x' :: r') | _, _ => None end
                         end) es)
  | L [I 9; a] => option_map ENot (as_ex a)
  | L [I 10; a] => option_map EGroup (as_ex a)
  | L [I 11] => Some EOther
  | _ => None
  end.

Definition as_row (t : tree) : option row :=
  match as_list_of as_sv t with
  | Some l => Some (fun c => nth c l SNull)
  | None => None
  end.
Definition as_set (t : tree) : option (nat * ex) := as_pair_of as_nat as_ex t.

(* ---- encoding ---- *)
Definition of_sv' (v : sv) : tree :=
  match v with SNull => L [I 0] | SInt z => L [I 1; I z] | SText s => L (I 2 :: map of_N s) end.
Definition of_pyv (v : pyv) : tree :=
  match v with
  | VNone => L [I 0] | VBool b => L [I 1; of_bool b] | VInt z => L [I 2; I z]
  | VStr s => L (I 3 :: map of_N s) | VExp => L [I 4]
  end.
Definition of_exn (e : pyexn) : Z :=
  match e with Unevaluatable => 1 | PyTypeError => 2 | PyZeroDivisionError => 3 | PyAttributeError => 4 end.
Definition of_pyres (r : pyres) : tree :=
  match r with POk v => L [I 0; of_pyv v] | PRaise e => L [I 1; I (of_exn e)] end.
Definition of_attr (a : attr) : tree :=
  match a with Loaded v => L [I 0; of_sv' v] | Expired => L [I 1] | Marker => L [I 2] end.
Definition ncols : nat := 4.
Definition of_obj (o : obj) : tree := L (map (fun c => of_attr (o c)) (seq 0 ncols)).
Definition of_row (r : row) : tree := L (map (fun c => of_sv' (r c)) (seq 0 ncols)).

Definition expire_cols (cols : list nat) (o : obj) : obj :=
  fun c => if existsb (Nat.eqb c) cols then Expired else o c.

(* the bulk operation over the objects of the session, in identity-map order:
   first _get_matched_objects_on_criteria (an exception leaves the session as it was), then the
   per-object application (an exception stops it) *)
Fixpoint all_matched (sc : schema) (crit : ex) (os : list obj) : option pyexn :=
  match os with
  | [] => None
  | o :: r => match matched sc crit o with MRaise e => Some e | _ => all_matched sc crit r end
  end.
(* the loop of _apply_update_set_values_to_objects over the matched objects, with its "to_expire" variable *)
Fixpoint update_all_st (sc : schema) (crit : ex) (sets : list (nat * ex)) (pre : list nat) (os : list obj)
  : list obj * option pyexn :=
  match os with
  | [] => ([], None)
  | o :: r =>
      match matched sc crit o with
      | Matched _ =>
          match apply_sets_st sc sets pre o with
          | (OOk o', pre') => let (r', e) := update_all_st sc crit sets pre' r in (o' :: r', e)
          | (ORaise e, _) => (o :: r, Some e)
          end
      | NotMatched => let (r', e) := update_all_st sc crit sets pre r in (o :: r', e)
      | MRaise e => (o :: r, Some e)
      end
  end.
Definition update_all (sc : schema) (crit : ex) (sets : list (nat * ex)) (os : list obj) : list obj * option pyexn :=
  update_all_st sc crit sets (uneval_targets sc sets) os.

(* session entry after a DELETE: 0 = kept (with attributes) / 1 = removed *)
Definition of_dres (d : dres) (o : obj) : tree :=
  match d with DKeep o' => L [I 0; of_obj o'] | DRemoved => L [I 1] | DRaise _ => L [I 0; of_obj o] end.

(* ---- the composite primary key family: mapped class with primary key columns 0..k-1 (Integer, table
   order), role (String, column k), level (Integer, column k+1) and mapper primary_key = mpk ---- *)
Definition sck (k : nat) : schema := fun c => if Nat.eqb c k then TyStr else TyInt.
Definition of_obj_n (n : nat) (o : obj) : tree := L (map (fun c => of_attr (o c)) (seq 0 n)).
Definition of_row_n (n : nat) (r : row) : tree := L (map (fun c => of_sv' (r c)) (seq 0 n)).
Fixpoint fetch_update_all_st (sc : schema) (m : mapping) (keys : list (list sv)) (sets : list (nat * ex)) (pre : list nat)
  (rows : list row) : list obj * option pyexn :=
  match rows with
  | [] => ([], None)
  | r :: rest =>
      if in_keys m keys r then
        match apply_sets_st sc sets pre (obj_of r) with
        | (OOk o', pre') => let (os, e) := fetch_update_all_st sc m keys sets pre' rest in (o' :: os, e)
        | (ORaise e, _) => (map obj_of (r :: rest), Some e)
        end
      else let (os, e) := fetch_update_all_st sc m keys sets pre rest in (obj_of r :: os, e)
  end.
Definition fetch_update_all (sc : schema) (m : mapping) (keys : list (list sv)) (sets : list (nat * ex)) (rows : list row) :=
  fetch_update_all_st sc m keys sets (uneval_targets sc sets) rows.

(* input  L [9; strategy; op; k; mpk; crit; sets; rows]
     strategy 0 'evaluate', 1 'fetch' (RETURNING), 2 'fetch' on a dialect without RETURNING (SELECT of the
     primary keys before the statement), 3 'auto';  op 0 UPDATE / 1 DELETE
   output L [status; session; db]  (per object / row, in table primary key order) *)
Definition run_pk_case (strat op : Z) (k : nat) (mpk0 : list nat) (crit : ex) (sets : list (nat * ex)) (rows : list row) : tree :=
  let sc := sck k in
  let n := (k + 2)%nat in
  let m := {| tpk := seq 0 k; mpk := mpk0; sub_table := false |} in
  let os := map obj_of rows in
  let same_sess := L (map (fun o => L [I 0; of_obj_n n o]) os) in
  let same_db := L (map (fun r => L [I 0; of_row_n n r]) rows) in
  let use_eval := Z.eqb strat 0 || (Z.eqb strat 3 && check sc crit) in
  if Z.eqb strat 0 && negb (check sc crit) then L [I 1; same_sess; same_db]
  else if Z.eqb op 0 then
    let db := L (map (fun r => L [I 0; of_row_n n (update_row crit sets r)]) rows) in
    if use_eval then
      match all_matched sc crit os with
      | Some e => L [I (of_exn e); same_sess; db]
      | None => let (os', e) := update_all sc crit sets os in
                L [I (match e with Some x => of_exn x | None => 0 end); L (map (fun o => L [I 0; of_obj_n n o]) os'); db]
      end
    else
      let keys := fetch_keys m (negb (Z.eqb strat 2)) crit rows in
      let (os', e) := fetch_update_all sc m keys sets rows in
      L [I (match e with Some x => of_exn x | None => 0 end); L (map (fun o => L [I 0; of_obj_n n o]) os'); db]
  else
    let db := L (map (fun r => if delete_row crit r then L [I 1] else L [I 0; of_row_n n r]) rows) in
    let enc d o := match d with DKeep o' => L [I 0; of_obj_n n o'] | DRemoved => L [I 1] | DRaise _ => L [I 0; of_obj_n n o] end in
    if use_eval then
      match all_matched sc crit os with
      | Some e => L [I (of_exn e); same_sess; db]
      | None => L [I 0; L (map (fun o => enc (delete_obj sc crit o) o) os); db]
      end
    else
      let keys := fetch_keys m (negb (Z.eqb strat 2)) crit rows in
      L [I 0; L (map (fun r => enc (fetch_delete_obj m keys r) (obj_of r)) rows); db].

(* input  L [op; crit; sets; rows; expire; validate]
     op 0: UPDATE .. SET sets WHERE crit   1: DELETE WHERE crit   (synchronize_session='evaluate')
     rows: the table (one mapped object per row, loaded in the session); expire: attributes expired on
     every object before the statement; validate = 1: crit and sets are in the typed fragment, the SQL
     side (SELECT crit per row, rows after the statement) is compared with [sem] as well
   output L [evals; sems; status; session; db]
     evals: _EvaluatorCompiler.process(crit)(obj) per object    sems: SELECT crit per row
     status: 0 or the code of the exception raised by session.execute
     session: per object  [0; attrs] / [1] (removed)             db: per row  [0; values] / [1] (deleted) *)
Definition run_case (t : tree) : tree :=
  match t with
  | L [I 9; I strat; I op; tk; tmpk; tcrit; tsets; trows] =>
      match as_nat tk, as_list_of as_nat tmpk, as_ex tcrit, as_list_of as_set tsets, as_list_of as_row trows with
      | Some k, Some mpk0, Some crit, Some sets, Some rows => run_pk_case strat op k mpk0 crit sets rows
      | _, _, _, _, _ => bad_input
      end
  | L [I op; tcrit; tsets; trows; texp; I validate] =>
      match as_ex tcrit, as_list_of as_set tsets, as_list_of as_row trows, as_list_of as_nat texp with
      | Some crit, Some sets, Some rows, Some exp =>
          let os := map (fun r => expire_cols exp (obj_of r)) rows in
          let evals := L (map (fun o => of_pyres (ev sc0 crit o)) os) in
          let sems := if Z.eqb validate 1 then L (map (fun r => of_sv' (sem crit r)) rows) else L [] in
          let unchanged_db := if Z.eqb validate 1 then L (map (fun r => L [I 0; of_row r]) rows) else L [] in
          let unchanged_sess := L (map (fun o => L [I 0; of_obj o]) os) in
          if negb (check sc0 crit) then
            (* _do_pre_synchronize_evaluate raises before the statement is executed *)
            L [evals; sems; I 1; unchanged_sess; unchanged_db]
          else if Z.eqb op 0 then
            let db := if Z.eqb validate 1 then L (map (fun r => L [I 0; of_row (update_row crit sets r)]) rows) else L [] in
            match all_matched sc0 crit os with
            | Some e => L [evals; sems; I (of_exn e); unchanged_sess; db]
            | None =>
                let (os', e) := update_all sc0 crit sets os in
                L [evals; sems; I (match e with Some x => of_exn x | None => 0 end);
                   L (map (fun o => L [I 0; of_obj o]) os'); db]
            end
          else if Z.eqb op 1 then
            let db := if Z.eqb validate 1
                      then L (map (fun r => if delete_row crit r then L [I 1] else L [I 0; of_row r]) rows) else L [] in
            match all_matched sc0 crit os with
            | Some e => L [evals; sems; I (of_exn e); unchanged_sess; db]
            | None => L [evals; sems; I 0; L (map (fun o => of_dres (delete_obj sc0 crit o) o) os); db]
            end
          else bad_input
      | _, _, _, _ => bad_input
      end
  | _ => bad_input
  end.
