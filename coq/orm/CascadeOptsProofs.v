(* C39 - properties of the CascadeOptions parser *)
From Coq Require Import List Bool Arith Lia.
From SAV.orm Require Import Cascade CascadeOpts.
Import ListNotations.

Lemma list_eqb_eq : forall a b, list_eqb a b = true -> a = b.
Proof.
  induction a as [|x a IH]; destruct b as [|y b]; simpl; intros H; try discriminate; auto.
  apply andb_true_iff in H. destruct H as [H1 H2]. apply Nat.eqb_eq in H1. f_equal; auto.
Qed.

Lemma parse_with_tables_ok : forall a m f, opts_tables_ok a m f = true ->
  forall vs, parse_with a m f vs = parse_options vs.
Proof.
  intros a m f H vs. unfold opts_tables_ok in H.
  apply andb_true_iff in H. destruct H as [H H3]. apply andb_true_iff in H. destruct H as [H1 H2].
  apply list_eqb_eq in H1. apply list_eqb_eq in H2. apply list_eqb_eq in H3. subst. reflexivity.
Qed.

Lemma mem_In : forall x l, mem x l = true <-> In x l.
Proof.
  intros x l. unfold mem. rewrite existsb_exists. split.
  - intros [y [Hy He]]. apply Nat.eqb_eq in He. subst. exact Hy.
  - intros H. exists x. split; auto. apply Nat.eqb_refl.
Qed.

Lemma mem_app : forall x a b, mem x (a ++ b) = mem x a || mem x b.
Proof. intros. unfold mem. apply existsb_app. Qed.

Lemma mem_filter : forall x f l, mem x (filter f l) = mem x l && f x.
Proof.
  intros x f l. induction l as [|y l IH]; simpl; auto.
  destruct (f y) eqn:Fy; simpl.
  - rewrite IH. destruct (Nat.eqb x y) eqn:E; simpl; auto. apply Nat.eqb_eq in E. subst. rewrite Fy.
    destruct (mem y l); reflexivity.
  - rewrite IH. destruct (Nat.eqb x y) eqn:E; simpl; auto. apply Nat.eqb_eq in E. subst. rewrite Fy.
    rewrite andb_false_r. reflexivity.
Qed.

Definition valid (vs : list nat) : Prop := forall v, In v vs -> v <= 7.

Lemma valid_dec : forall vs, existsb (fun v => negb (mem v all_cascades)) vs = false <-> valid vs.
Proof.
  intros vs. split.
  - intros H v Hv. destruct (existsb (fun v0 => negb (mem v0 all_cascades)) vs) eqn:E; try discriminate.
    assert (Hm : mem v all_cascades = true).
    { destruct (mem v all_cascades) eqn:M; auto.
      assert (existsb (fun v0 => negb (mem v0 all_cascades)) vs = true).
      { apply existsb_exists. exists v. split; auto. rewrite M. reflexivity. }
      congruence. }
    apply mem_In in Hm. simpl in Hm. lia.
  - intros H. destruct (existsb (fun v => negb (mem v all_cascades)) vs) eqn:E; auto.
    apply existsb_exists in E. destruct E as [v [Hv Hn]]. specialize (H v Hv).
    assert (mem v all_cascades = true).
    { apply mem_In. simpl. lia. }
    rewrite H0 in Hn. discriminate.
Qed.

(* an invalid name raises ArgumentError, and only that *)
Theorem opts_invalid_iff : forall vs, parse_options vs = None <-> exists v, In v vs /\ v > 7.
Proof.
  intros vs. unfold parse_options, parse_with.
  destruct (existsb (fun v => negb (mem v all_cascades)) vs) eqn:E.
  - split; auto. intros _. apply existsb_exists in E. destruct E as [v [Hv Hn]]. exists v. split; auto.
    destruct (le_gt_dec v 7) as [Hle|]; auto.
    assert (mem v all_cascades = true) by (apply mem_In; simpl; lia). rewrite H in Hn. discriminate.
  - split; [discriminate|]. intros [v [Hv Hgt]]. apply valid_dec in E. specialize (E v Hv). lia.
Qed.

(* the flags of a valid option list, stated by membership *)
Definition flag_spec (vs : list nat) (k : nat) : bool :=
  if mem 7 vs then false
  else if mem 6 vs then (if Nat.eqb k 4 then mem 4 vs else true)
  else mem k vs.

Lemma flag_general : forall vs k, k <= 5 ->
  mem k (norm_values all_cascades all_minus vs) = flag_spec vs k.
Proof.
  intros vs k Hk. unfold norm_values. cbv zeta. unfold flag_spec.
  assert (Hadd : filter (fun v => negb (mem v all_minus)) all_cascades = [0; 1; 2; 3; 5]) by reflexivity.
  rewrite Hadd.
  destruct (mem 6 vs) eqn:M6.
  - rewrite mem_app. replace (mem 7 [0; 1; 2; 3; 5]) with false by reflexivity. rewrite orb_false_r.
    destruct (mem 7 vs) eqn:M7; [reflexivity|].
    rewrite mem_filter, mem_app.
    assert (k = 0 \/ k = 1 \/ k = 2 \/ k = 3 \/ k = 4 \/ k = 5) as Hc by lia.
    destruct Hc as [Hc|[Hc|[Hc|[Hc|[Hc|Hc]]]]]; subst k; simpl; rewrite ?orb_true_r, ?orb_false_r, ?andb_true_r; reflexivity.
  - destruct (mem 7 vs) eqn:M7; [reflexivity|].
    rewrite mem_filter.
    assert (k = 0 \/ k = 1 \/ k = 2 \/ k = 3 \/ k = 4 \/ k = 5) as Hc by lia.
    destruct Hc as [Hc|[Hc|[Hc|[Hc|[Hc|Hc]]]]]; subst k; simpl; rewrite ?andb_true_r; reflexivity.
Qed.

Theorem opts_flags : forall vs, valid vs ->
  parse_options vs =
  Some (mkCasc (flag_spec vs 0) (flag_spec vs 1) (flag_spec vs 2) (flag_spec vs 3) (flag_spec vs 4) (flag_spec vs 5),
        flag_spec vs 4 && negb (flag_spec vs 3)).
Proof.
  intros vs Hv. unfold parse_options, parse_with. apply valid_dec in Hv. rewrite Hv.
  change (nth 0 flag_names 99) with 0. change (nth 1 flag_names 99) with 1. change (nth 2 flag_names 99) with 2.
  change (nth 3 flag_names 99) with 3. change (nth 4 flag_names 99) with 4. change (nth 5 flag_names 99) with 5.
  cbv zeta.
  rewrite (flag_general vs 0), (flag_general vs 1), (flag_general vs 2), (flag_general vs 3),
          (flag_general vs 4), (flag_general vs 5) by lia.
  reflexivity.
Qed.

(* "all" = every cascade except delete-orphan; "none" clears everything; plain names are memberships *)
Theorem opts_all : forall vs, valid vs -> In 6 vs -> ~ In 7 vs ->
  exists w, parse_options vs = Some (mkCasc true true true true (mem 4 vs) true, w).
Proof.
  intros vs Hv H6 H7. rewrite (opts_flags vs Hv). unfold flag_spec.
  apply mem_In in H6. rewrite H6.
  destruct (mem 7 vs) eqn:M7; [apply mem_In in M7; contradiction|]. simpl. eexists. reflexivity.
Qed.
Theorem opts_none : forall vs, valid vs -> In 7 vs -> parse_options vs = Some (no_casc, false).
Proof.
  intros vs Hv H7. rewrite (opts_flags vs Hv). unfold flag_spec. apply mem_In in H7. rewrite H7. reflexivity.
Qed.
Theorem opts_plain : forall vs, valid vs -> ~ In 6 vs -> ~ In 7 vs ->
  parse_options vs = Some (mkCasc (mem 0 vs) (mem 1 vs) (mem 2 vs) (mem 3 vs) (mem 4 vs) (mem 5 vs),
                           mem 4 vs && negb (mem 3 vs)).
Proof.
  intros vs Hv H6 H7. rewrite (opts_flags vs Hv). unfold flag_spec.
  destruct (mem 7 vs) eqn:M7; [apply mem_In in M7; contradiction|].
  destruct (mem 6 vs) eqn:M6; [apply mem_In in M6; contradiction|]. reflexivity.
Qed.
(* the warning is raised exactly when delete-orphan is configured without delete *)
Theorem opts_warning_iff : forall vs c w, parse_options vs = Some (c, w) -> w = (c_do c && negb (c_dl c)).
Proof.
  intros vs c w H. unfold parse_options, parse_with in H.
  destruct (existsb (fun v => negb (mem v all_cascades)) vs); [discriminate|]. inversion H. reflexivity.
Qed.
(* every one of the 64 flag combinations is expressible *)
Theorem opts_every_combination : forall c : casc, exists vs, valid vs /\ exists w, parse_options vs = Some (c, w).
Proof.
  intros [a b c d e f].
  exists ((if a then [0] else []) ++ (if b then [1] else []) ++ (if c then [2] else []) ++ (if d then [3] else [])
          ++ (if e then [4] else []) ++ (if f then [5] else [])).
  split.
  - intros v Hv. destruct a, b, c, d, e, f; simpl in Hv; intuition lia.
  - destruct a, b, c, d, e, f; eexists; vm_compute; reflexivity.
Qed.
