(* C33 - the object-level operations (attribute assignment, add, delete, attribute refresh) under the
   whole invariant. *)
From Coq Require Import List ZArith Bool Arith Lia.
Import ListNotations.
From SAV.orm Require Import SessTxn SessTxnBase SessTxnSpec SessTxnInv SessTxnOps SessTxnRestore SessTxnRestore2
  SessTxnShift SessTxnStmts SessTxnFlush SessTxnDbInv SessTxnCore SessTxnFlushCore SessTxnTx SessTxnCommit.
Open Scope nat_scope.

(* replacing the attribute part of one object *)
Lemma core_set_attrs : forall st gs o x, Core st gs -> head_usable st = true -> o < nobj st ->
  same_id x (objs st o) ->
  (oin (objs st o) = true -> forall k v, okey (objs st o) = Some k -> work st k = Some v -> VA x k v) ->
  (okey x <> None -> oatt x = true -> odelf x = true -> odv x <> None /\ odid x <> None) ->
  ((odv x = None -> odid x = None) /\ (ocid x <> None -> odid x <> None) /\ (omod x = false -> ocid x = None /\ ocv x = None)) ->
  (oin (objs st o) = true \/ omod x = true \/ (odid x = odid (objs st o) /\ odv x = odv (objs st o) /\ omod x = omod (objs st o))) ->
  (stack st = [] -> oin (objs st o) = true -> omod x = false) ->
  Core (set_obj st o x) gs.
Proof.
  intros st gs o x C Hu Ho Hid Hva Hdv Hj Hrel Hidle. pose proof C as C0. destruct C as [G Jh D Ch Em].
  eapply Core_update; eauto.
  - repeat split; reflexivity.
  - unfold GoodS. cbn [objs nobj work snew sdel set_obj set_objs]. apply Good_upd; auto.
  - cbn [objs nobj set_obj set_objs]. apply J_upd; auto.
  - intros g f rest gs' Hs Hg Hf R. cbn [objs nobj work snew sdel set_obj set_objs].
    apply Rel_upd; auto. unfold Chain in Ch. rewrite Hs, Hg in Ch. tauto.
  - intros f rest Hs Hf. exfalso. apply Hf. eapply head_usable_active; eauto.
  - intros Hs. specialize (Em Hs). apply is_clean_spec in Em. destruct Em as [E1 [E2 E3]].
    apply is_clean_spec. cbn [objs nobj snew sdel set_obj set_objs]. repeat split; auto.
    intros o' Ho' Hi. unfold updN in *. destruct (Nat.eqb_spec o' o).
    + subst o'. destruct Hid as [_ [_ [_ I4]]]. apply Hidle; auto. congruence.
    + apply E3; auto.
Qed.

(* autobegin commutes with changes of the objects *)
Lemma autobegin_set_obj : forall st o x, autobegin (set_obj st o x) = set_obj (autobegin st) o x.
Proof. intros st o x. unfold autobegin. cbn [stack set_obj set_objs]. destruct (stack st); reflexivity. Qed.

Lemma head_usable_autobegin : forall st, head_usable st = true -> head_usable (autobegin st) = true.
Proof. intros st H. unfold autobegin, head_usable in *. destruct (stack st) eqn:E; cbn; rewrite ?E; auto. Qed.

(* the invariant sees the objects only pointwise *)
Lemma Core_objs_ext : forall st gs ob', Core st gs -> head_usable st = true -> (forall x, ob' x = objs st x) -> Core (set_objs st ob') gs.
Proof.
  intros st gs ob' C Hu H. pose proof C as C0. destruct C as [G Jh D Ch Em].
  assert (Hs : forall x, objs st x = ob' x) by (intros; symmetry; apply H).
  eapply Core_update; eauto.
  - repeat split; reflexivity.
  - unfold GoodS. cbn. eapply Good_obj_ext; eauto.
  - cbn. eapply J_obj_ext; eauto.
  - intros g f rest gs' S1 S2 S3 R. cbn. eapply Rel_obj_ext; eauto.
  - intros f rest S1 S2. exfalso. apply S2. eapply head_usable_active; eauto.
  - intros S1. specialize (Em S1). apply is_clean_spec in Em. destruct Em as [E1 [E2 E3]].
    apply is_clean_spec. cbn. repeat split; auto. intros o Ho Hi. rewrite H in *. auto.
Qed.

Lemma any_modified_true : forall st, any_modified st = true ->
  exists o, o < nobj st /\ oin (objs st o) = true /\ omod (objs st o) = true.
Proof.
  intros st H. unfold any_modified in H. apply existsb_exists in H. destruct H as [o [Ho H]].
  apply in_seq in Ho. apply andb_prop in H. exists o. split; [lia|exact H].
Qed.

(* an attribute assignment: the new attribute values [y], then InstanceState._modified_event *)
Lemma core_modify : forall st gs o y, Core st gs -> head_usable st = true -> o < nobj st ->
  omod y = omod (objs st o) ->
  same_id (o_mod y true) (objs st o) ->
  (oin (objs st o) = true -> forall k v, okey (objs st o) = Some k -> work st k = Some v -> VA (o_mod y true) k v) ->
  (okey y <> None -> oatt y = true -> odelf y = true -> odv y <> None /\ odid y <> None) ->
  ((odv y = None -> odid y = None) /\ (ocid y <> None -> odid y <> None)) ->
  exists gs', Core (modified_event o (set_obj st o y)) gs'.
Proof.
  intros st gs o y C Hu Ho Hm Hid Hva Hdv [Hj1 Hj2].
  set (z := o_mod y true) in *.
  assert (Hz : forall st0 gs0, Core st0 gs0 -> head_usable st0 = true -> objs st0 = objs st -> nobj st0 = nobj st -> work st0 = work st ->
            (stack st0 = [] -> oin (objs st o) = false) -> Core (set_obj st0 o z) gs0).
  { intros st0 gs0 C0 Hu0 E1 E2 E3 Hidle. apply core_set_attrs; auto; rewrite ?E1, ?E2, ?E3; auto.
    - repeat split; cbn; auto; discriminate.
    - intros S1 S2. rewrite (Hidle S1) in S2. discriminate. }
  assert (Hclean0 : stack st = [] -> forall o', o' < nobj st -> oin (objs st o') = true -> omod (objs st o') = false).
  { intros S1. pose proof (c_empty _ _ C S1) as X. apply is_clean_spec in X. tauto. }
  unfold modified_event. cbn [objs set_obj set_objs]. rewrite updN_same.
  destruct (omod y) eqn:Ey.
  - (* already modified *)
    assert (Eyz : y = z). { unfold z. destruct y; cbn in *; subst; reflexivity. }
    exists gs. rewrite Eyz. apply (Hz st gs); auto.
    intros S1. destruct (oin (objs st o)) eqn:Ei; auto. rewrite (Hclean0 S1 o Ho Ei) in Hm. discriminate.
  - (* first modification *)
    assert (Hext : forall s0, objs s0 = objs st -> forall x, updN (updN (objs s0) o y) o z x = updN (objs s0) o z x).
    { intros s0 E x. unfold updN. destruct (Nat.eqb x o); reflexivity. }
    assert (Hst2 : forall s0 gs0, Core (set_obj s0 o z) gs0 -> head_usable s0 = true -> objs s0 = objs st ->
              Core (mod_obj (set_obj s0 o y) o (fun ob => o_mod ob true)) gs0).
    { intros s0 gs0 C0 Hu0 E.
      assert (X : mod_obj (set_obj s0 o y) o (fun ob => o_mod ob true) = set_objs (set_obj s0 o z) (updN (updN (objs s0) o y) o z)).
      { unfold mod_obj, set_obj. cbn [objs set_objs]. rewrite updN_same. reflexivity. }
      rewrite X. apply Core_objs_ext; auto. intros x. cbn [objs set_obj set_objs]. apply Hext; auto. }
    destruct (stack st) as [|f0 r0] eqn:Es.
    + (* no transaction yet *)
      destruct (oatt y && negb (oin y && any_modified (set_obj st o y))) eqn:Eab.
      * destruct (autobegin_core st gs C) as [gs1 [C1 [_ A1]]].
        exists gs1.
        assert (X : autobegin (mod_obj (set_obj st o y) o (fun ob => o_mod ob true)) =
                    mod_obj (set_obj (autobegin st) o y) o (fun ob => o_mod ob true)).
        { unfold mod_obj. rewrite !autobegin_set_obj. cbn [objs set_obj set_objs]. unfold autobegin. rewrite Es. reflexivity. }
        rewrite X.
        assert (Eo : objs (autobegin st) = objs st) by (unfold autobegin; rewrite Es; reflexivity).
        apply Hst2; auto; [|apply head_usable_autobegin; exact Hu].
        apply Hz; auto.
        -- apply head_usable_autobegin; exact Hu.
        -- unfold autobegin; rewrite Es; reflexivity.
        -- unfold autobegin; rewrite Es; reflexivity.
        -- unfold autobegin. rewrite Es. cbn. discriminate.
      * exists gs. apply Hst2; auto. apply Hz; auto. intros _.
        destruct (oin (objs st o)) eqn:Ei; auto. exfalso.
        destruct Hid as [_ [I2 [_ I4]]]. cbn in I2, I4.
        destruct (g_in _ _ _ _ _ (c_good _ _ C) o Ei) as [_ [Ha _]].
        rewrite I2, Ha, I4, Ei in Eab. cbn [andb] in Eab. apply negb_false_iff in Eab.
        destruct (any_modified_true _ Eab) as [o' [H1 [H2 H3]]]. cbn [objs nobj set_obj set_objs] in *.
        unfold updN in *. destruct (Nat.eqb_spec o' o).
        -- subst o'. congruence.
        -- rewrite (Hclean0 eq_refl o' H1 H2) in H3. discriminate.
    + exists gs.
      assert (Hab : forall s, stack s = f0 :: r0 -> autobegin s = s) by (intros s E; unfold autobegin; rewrite E; reflexivity).
      assert (R1 : Core (mod_obj (set_obj st o y) o (fun ob => o_mod ob true)) gs).
      { apply Hst2; auto. apply Hz; auto. rewrite Es. discriminate. }
      destruct (oatt y && negb (oin y && any_modified (set_obj st o y))); [rewrite Hab|]; auto.
Qed.

(* ------------------------------------------------------------------ connection and attribute refresh *)
Lemma sess_eta : forall st, set_db (set_stack st (stack st)) (committed st) (work st) (saves st) = st.
Proof. intros st. destruct st; reflexivity. Qed.

Lemma provision_any_core : forall st gs f rest r st', Core st gs -> stack st = f :: rest -> provision st = (r, st') ->
  Core st' gs /\ objs st' = objs st /\ nobj st' = nobj st /\ snew st' = snew st /\ sdel st' = sdel st /\ work st' = work st /\
  committed st' = committed st /\ nfid st' = nfid st /\ eoc st' = eoc st /\ handles st' = handles st /\
  map lists_of (stack st') = map lists_of (stack st) /\ r <> Unmodelled /\
  (r = Ok -> fstate f = ACTIVE).
Proof.
  intros st gs f rest r st' C Hs H.
  destruct (Core_head_state st gs f rest C Hs) as [Hf|Hf].
  - destruct (provision_core st gs f rest C Hs Hf) as [sp [Ep [Cp [P1 [P2 [P3 [P4 [P5 [P6 [P7 [P8 [P9 [P10 P11]]]]]]]]]]]]].
    rewrite Ep in H. inversion H; subst r st'. split; [exact Cp|]. repeat split; auto; discriminate.
  - unfold provision in H. rewrite Hs in H. cbn [provision_fs] in H.
    assert (E : check_prereq f M_conn_for_bind = Some (prereq_error f)) by (unfold check_prereq; rewrite Hf; reflexivity).
    rewrite E in H. inversion H; subst r st'. rewrite <- Hs. rewrite sess_eta.
    split; [exact C|]. repeat split; auto; try discriminate; try (intros X; discriminate).
Qed.

Lemma connection_core : forall st gs r st', Core st gs -> connection st = (r, st') ->
  exists gs', Core st' gs' /\ objs st' = objs st /\ nobj st' = nobj st /\ snew st' = snew st /\ sdel st' = sdel st /\
    committed st' = committed st /\ eoc st' = eoc st /\ handles st' = handles st /\ r <> Unmodelled /\
    (r = Ok -> head_usable st' = true /\ stack st' <> [] /\ (stack st <> [] -> work st' = work st) /\ (stack st = [] -> work st' = work st)).
Proof.
  intros st gs r st' C H. unfold connection in H. rewrite (bind_ok _ _ _ (autobegin st)) in H by reflexivity.
  destruct (autobegin_core st gs C) as [gs1 [C1 [A1 A2]]].
  assert (Hne : exists f rest, stack (autobegin st) = f :: rest).
  { unfold autobegin. destruct (stack st) eqn:E; cbn; eauto. }
  destruct Hne as [f [rest Hs1]].
  destruct (provision_any_core _ _ f rest r st' C1 Hs1 H) as (C2 & B1 & B2 & B3 & B4 & B5 & B6 & B7 & B8 & B9 & B10 & B11 & B12).
  assert (Eo : objs (autobegin st) = objs st /\ nobj (autobegin st) = nobj st /\ snew (autobegin st) = snew st /\
               sdel (autobegin st) = sdel st /\ committed (autobegin st) = committed st /\ eoc (autobegin st) = eoc st /\
               handles (autobegin st) = handles st /\ work (autobegin st) = work st).
  { unfold autobegin. destruct (stack st); repeat split; reflexivity. }
  destruct Eo as (E1 & E2 & E3 & E4 & E5 & E6 & E7 & E8).
  exists gs1. split; [exact C2|]. repeat split; try congruence.
  - specialize (B12 H0). unfold head_usable. rewrite Hs1 in B10. destruct (stack st') as [|f' r'] eqn:Es'; [reflexivity|].
    cbn in B10. injection B10 as Q1 Q2 Q3 Q4 Q5 Q6 Q7 Q8 Q9. rewrite Q8, B12. reflexivity.
  - rewrite Hs1 in B10. destruct (stack st'); [discriminate|discriminate].
Qed.

Lemma load_row_core : forall st gs o r st', Core st gs -> head_usable st = true -> stack st <> [] -> o < nobj st ->
  oatt (objs st o) = true -> load_row o st = (r, st') -> r <> Unmodelled ->
  Core st' gs /\ nobj st' = nobj st /\ stack st' = stack st /\ handles st' = handles st /\ eoc st' = eoc st /\
  committed st' = committed st /\
  (r = Ok -> odid (objs st' o) <> None /\ odv (objs st' o) <> None).
Proof.
  intros st gs o r st' C Hu Hne Ho Ha H Hr. unfold load_row in H.
  destruct (okey (objs st o)) as [k|] eqn:Ek; [|inversion H; subst; congruence].
  destruct (work st k) as [v|] eqn:Ew.
  2:{ inversion H; subst. split; [exact C|]. repeat split; auto; intros X; discriminate. }
  inversion H; subst r st'. clear H.
  change (o_exp (o_dv (o_did (objs st o) (match ocid (objs st o), odid (objs st o) with None, None => Some k | _, d => d end))
                      (match ocv (objs st o), odv (objs st o) with None, None => Some v | _, d => d end)) false)
    with (loaded (objs st o) k v).
  pose proof (c_good _ _ C) as G. pose proof (c_j _ _ C o Ho) as Jo.
  assert (Hcv : ocv (objs st o) <> None -> odv (objs st o) <> None).
  { destruct (oin (objs st o)) eqn:Ei.
    - destruct (g_rows _ _ _ _ _ G o k Ei Ek) as [v' [_ [_ [_ [_ [_ [V5 _]]]]]]]. exact V5.
    - intros _. destruct (odelf (objs st o)) eqn:Ed.
      + apply (g_delv _ _ _ _ _ G o); auto. congruence.
      + rewrite (g_pers _ _ _ _ _ G o k Ho Ek Ha Ed) in Ei. discriminate. }
  split; [|cbn [nobj stack handles eoc committed objs set_obj set_objs];
            split; [reflexivity|]; split; [reflexivity|]; split; [reflexivity|]; split; [reflexivity|]; split; [reflexivity|]].
  - apply core_set_attrs; auto.
    + repeat split.
    + intros Ei k' v' Hk' Hw'. assert (k' = k) by congruence. subst k'. assert (v' = v) by congruence. subst v'.
      destruct (g_rows _ _ _ _ _ G o k Ei Ek) as [v' [Hv' Hva]]. assert (v' = v) by congruence. subst v'.
      apply loaded_VA; auto.
    + intros _ _ Hd. destruct (g_delv _ _ _ _ _ G o Ho) as [D1 D2]; auto; try congruence.
      unfold loaded. cbn. destruct (ocid (objs st o)), (odid (objs st o)), (ocv (objs st o)), (odv (objs st o)); split; congruence.
    + apply loaded_J; auto.
    + destruct (oin (objs st o)) eqn:Ei; [left; reflexivity|right; right].
      destruct (odelf (objs st o)) eqn:Ed.
      * destruct (g_delv _ _ _ _ _ G o Ho) as [D1 D2]; auto; try congruence.
        unfold loaded. cbn. destruct (ocid (objs st o)), (odid (objs st o)), (ocv (objs st o)), (odv (objs st o)); repeat split; congruence.
      * rewrite (g_pers _ _ _ _ _ G o k Ho Ek Ha Ed) in Ei. discriminate.
    + intros X. congruence.
  - intros _. rewrite updN_same. unfold loaded. cbn. destruct Jo as [J1 [J2 J3]].
    destruct (ocid (objs st o)) eqn:E1, (odid (objs st o)) eqn:E2, (ocv (objs st o)) eqn:E3, (odv (objs st o)) eqn:E4;
      split; try discriminate; try (exfalso; apply J2; [discriminate|reflexivity]); try (exfalso; apply Hcv; [discriminate|reflexivity]);
      try (specialize (J1 eq_refl); discriminate).
Qed.

(* InstanceState._load_expired outside the flush: autoflush, connection, SELECT *)
Lemma load_expired_core : forall st gs o r st', Core st gs -> o < nobj st -> load_expired o st = (r, st') -> r <> Unmodelled ->
  exists gs', Core st' gs' /\ nobj st' = nobj st /\ handles st' = handles st /\ eoc st' = eoc st /\ committed st' = committed st /\
    (r = Ok -> head_usable st' = true /\ odid (objs st' o) <> None /\ odv (objs st' o) <> None).
Proof.
  intros st gs o r st' C Ho H Hr. unfold load_expired in H.
  destruct (oatt (objs st o)) eqn:Ea; cbn [negb] in H.
  2:{ inversion H; subst. exists gs. split; [exact C|]. repeat split; auto; try (intros X; discriminate); try discriminate. }
  apply bind_inv in H. destruct H as [[s1 [H1 H]]|[H1 Hn]].
  2:{ destruct (flush_core st gs r st' C H1 Hr) as [C1 (A1 & A2 & A3 & A4 & A5 & A6 & _)].
      exists gs. split; [exact C1|]. repeat split; auto; try congruence. }
  destruct (flush_core st gs Ok s1 C H1) as [C1 (A1 & A2 & A3 & A4 & A5 & A6 & _)]; [discriminate|].
  assert (Ho1 : o < nobj s1) by lia.
  apply bind_inv in H. destruct H as [[s2 [H2 H]]|[H2 Hn]].
  2:{ destruct (connection_core s1 gs r st' C1 H2) as [gs2 (C2 & B1 & B2 & B3 & B4 & B5 & B6 & B7 & B8 & B9)].
      exists gs2. split; [exact C2|]. repeat split; try congruence. }
  destruct (connection_core s1 gs Ok s2 C1 H2) as [gs2 (C2 & B1 & B2 & B3 & B4 & B5 & B6 & B7 & B8 & B9)].
  destruct (B9 eq_refl) as [Hu2 [Hne2 _]].
  unfold load_row_attached in H. destruct (oatt (objs s2 o)) eqn:Ea2; [|inversion H; subst; congruence].
  destruct (load_row_core s2 gs2 o r st' C2 Hu2 Hne2) as (C3 & D1 & D2 & D3 & D4 & D5 & D6); auto; try congruence.
  exists gs2. split; [exact C3|]. repeat split; try congruence.
  - unfold head_usable in *. rewrite D2. exact Hu2.
  - apply D6; auto.
  - apply D6; auto.
Qed.

(* ------------------------------------------------------------------ the operations *)
Lemma op_load_core : forall st gs o r st', Core st gs -> do_op (OLoad o) st = (r, st') -> r <> Unmodelled ->
  exists gs', Core st' gs'.
Proof.
  intros st gs o r st' C H Hr. cbn [do_op] in H.
  destruct (Nat.ltb_spec o (nobj st)); cbn [negb] in H; [|inversion H; subst; congruence].
  destruct (odv (objs st o)); [inversion H; subst; eauto|].
  destruct (load_expired_core st gs o r st' C H0 H Hr) as [gs' [C' _]]. eauto.
Qed.

Lemma op_setv_core : forall st gs o v r st', Core st gs -> head_usable st = true -> do_op (OSetV o v) st = (r, st') ->
  r <> Unmodelled -> exists gs', Core st' gs'.
Proof.
  intros st gs o v r st' C Hu H Hr. cbn [do_op] in H.
  destruct (Nat.ltb_spec o (nobj st)); cbn [negb] in H; [|inversion H; subst; congruence].
  inversion H; subst r st'. clear H.
  pose proof (c_good _ _ C) as G. destruct (c_j _ _ C o H0) as [J1 [J2 J3]].
  unfold mod_obj. apply (core_modify st gs o); auto.
  - repeat split.
  - intros Ei k v0 Ek Ew. destruct (g_rows _ _ _ _ _ G o k Ei Ek) as [v1 [Hv1 Hva]].
    assert (v1 = v0) by congruence. subst v1. destruct Hva as [V1 [V2 [V3 [V4 [V5 V6]]]]].
    unfold VA. cbn. split; [exact V1|]. split; [exact V2|]. split.
    { intros X. destruct (ocv (objs st o)); discriminate. }
    split.
    { intros old X. destruct (ocv (objs st o)) as [c|] eqn:Ec; [apply V4; congruence|].
      inversion X. destruct (V3 eq_refl) as [Y|Y]; congruence. }
    split; [intros _; discriminate|intros X; discriminate].
  - cbn. intros K A D. split; [discriminate|]. apply (g_delv _ _ _ _ _ G o); auto.
  - cbn. split; [intros X; discriminate|exact J2].
Qed.

Lemma op_setpk_core : forall st gs o pk r st', Core st gs -> head_usable st = true -> do_op (OSetPK o pk) st = (r, st') ->
  r <> Unmodelled -> exists gs', Core st' gs'.
Proof.
  intros st gs o pk r st' C Hu H Hr. cbn [do_op] in H.
  destruct (Nat.ltb_spec o (nobj st)); cbn [negb] in H; [|inversion H; subst; congruence].
  apply bind_inv in H.
  (* the state at the assignment: the primary key attribute is loaded or was assigned before *)
  assert (Step : forall s1 gs1, Core s1 gs1 -> head_usable s1 = true -> o < nobj s1 ->
            needs_pk_load (objs s1 o) = false \/ odid (objs s1 o) <> None ->
            exists gs', Core (modified_event o (mod_obj s1 o (fun ob =>
                     o_did (o_cid ob (match ocid ob with None => odid ob | c => c end)) (Some pk)))) gs').
  { intros s1 gs1 C1 Hu1 Ho1 Hl.
    pose proof (c_good _ _ C1) as G. destruct (c_j _ _ C1 o Ho1) as [J1 [J2 J3]].
    assert (Hdid : odid (objs s1 o) <> None).
    { destruct Hl as [Hl|Hl]; auto. unfold needs_pk_load in Hl.
      destruct (ocid (objs s1 o)) eqn:E1; [apply J2; discriminate|]. destruct (odid (objs s1 o)); [discriminate|discriminate]. }
    assert (Hdv : odv (objs s1 o) <> None) by (intros X; apply Hdid; auto).
    unfold mod_obj. apply (core_modify s1 gs1 o); auto.
    - repeat split.
    - intros Ei k v0 Ek Ew. destruct (g_rows _ _ _ _ _ G o k Ei Ek) as [v1 [Hv1 Hva]].
      assert (v1 = v0) by congruence. subst v1. destruct Hva as [V1 [V2 [V3 [V4 [V5 V6]]]]].
      unfold VA. cbn. split.
      { intros X. destruct (ocid (objs s1 o)); [discriminate|]. congruence. }
      split.
      { intros old X. split; [|discriminate]. destruct (ocid (objs s1 o)) as [c|] eqn:Ec.
        - apply (V2 old). congruence.
        - destruct (V1 eq_refl) as [Y|Y]; congruence. }
      split; [exact V3|]. split; [exact V4|]. split; [exact V5|intros X; discriminate].
    - cbn. intros K A D. split; [|discriminate]. apply (g_delv _ _ _ _ _ G o); auto.
    - cbn. split; [intros X; congruence|intros _; discriminate]. }
  destruct (needs_pk_load (objs st o)) eqn:En.
  - destruct H as [[s1 [H1 H]]|[H1 Hn]].
    + destruct (load_expired_core st gs o Ok s1 C H0 H1) as [gs1 (C1 & N1 & _ & _ & _ & L)]; [discriminate|].
      destruct (L eq_refl) as [Hu1 [Hd1 _]]. inversion H; subst r st'.
      apply (Step s1 gs1); auto. lia.
    + destruct (load_expired_core st gs o r st' C H0 H1 Hr) as [gs1 [C1 _]]. eauto.
  - destruct H as [[s1 [H1 H]]|[H1 Hn]]; inversion H1; subst.
    + inversion H; subst r st'. apply (Step s1 gs); auto.
    + congruence.
Qed.

(* the marked-for-deletion list only matters through pdelf, and only for objects whose flag is set *)
Lemma Rel_sdel : forall g f ob n sn sd sd' W, Rel g f ob n sn sd W ->
  (forall x, mem x sd' = mem x sd \/ odelf (ob x) = false) -> Rel g f ob n sn sd' W.
Proof.
  intros g f ob n sn sd sd' W R H. destruct R as [r1 r2 r3 r4 r5 r6 r7 r8 r9 r9' r10 r11]. constructor; auto.
  intros o A B. destruct (r3 o A B) as [X Y]. split; auto. intros Ha. destruct (Y Ha) as [Y1 Y2]. split; auto.
  rewrite <- Y2. unfold pdelf. destruct (H o) as [E|E]; [rewrite E; reflexivity|].
  rewrite E. destruct (mem o (fdel f) || mem o sd'), (mem o (fdel f) || mem o sd); reflexivity.
Qed.

Lemma persistent_in : forall st gs o k, Core st gs -> o < nobj st -> okey (objs st o) = Some k -> oatt (objs st o) = true ->
  odelf (objs st o) = false -> oin (objs st o) = true /\ im_other st o = None.
Proof.
  intros st gs o k C Ho Ek Ea Ed. pose proof (c_good _ _ C) as G.
  assert (Hi : oin (objs st o) = true) by (apply (g_pers _ _ _ _ _ G o k); auto).
  split; auto. destruct (im_other st o) as [o'|] eqn:E; auto.
  destruct (im_other_some _ _ _ E) as [A1 [A2 [A3 [A4 A5]]]]. exfalso. apply A2.
  apply (g_uniq _ _ _ _ _ G o' o k); auto. congruence.
Qed.

(* a change of session._deleted on a persistent object, the head transaction ACTIVE *)
Lemma core_set_sdel : forall st gs sd' f rest, Core st gs -> stack st = f :: rest -> fstate f = ACTIVE ->
  NoDup sd' -> (forall x, In x sd' -> oin (objs st x) = true) ->
  (forall x, mem x sd' = mem x (sdel st) \/ odelf (objs st x) = false) ->
  Core (set_sdel st sd') gs.
Proof.
  intros st gs sd' f rest C Hs Hf Hnd Hin Hm. pose proof C as C0. destruct C as [G Jh D Ch Em].
  eapply Core_update; eauto.
  - repeat split; reflexivity.
  - unfold GoodS. cbn [objs nobj work snew sdel set_sdel].
    destruct G as [g1 g2 g3 g4 g5 g5' g6 g6' g7 g8]. constructor; auto. split; [apply g6'|exact Hnd].
  - intros g0 f0 rest0 gs0 S1 S2 S3 R. cbn [objs nobj work snew sdel set_sdel]. eapply Rel_sdel; eauto.
  - intros f0 rest0 S1 S2. exfalso. apply S2. congruence.
  - intros S1. congruence.
Qed.

Lemma op_new_core : forall st gs pk v r st', Core st gs -> head_usable st = true -> do_op (ONew pk v) st = (r, st') ->
  r <> Unmodelled -> exists gs', Core st' gs'.
Proof.
  intros st gs pk v r st' C Hu H Hr. cbn [do_op] in H.
  pose proof (core_new_transient st gs pk v C Hu) as C1.
  set (s1 := set_nobj (set_obj st (nobj st) (new_obj pk v)) (S (nobj st))) in *.
  assert (Hu1 : head_usable s1 = true) by exact Hu.
  unfold save_or_update in H. cbn [objs s1 set_nobj set_obj set_objs] in H. rewrite updN_same in H. cbn [okey new_obj] in H.
  destruct (autobegin_core s1 gs C1) as [gs2 [C2 [A1 A2]]].
  assert (Hne : exists f rest, stack (autobegin s1) = f :: rest /\ fstate f = ACTIVE).
  { destruct (stack s1) as [|f rest] eqn:Es.
    - destruct (A2 eq_refl) as [f [X1 [X2 _]]]. exists f, []. auto.
    - destruct (A1 ltac:(discriminate)) as [_ X]. rewrite X. exists f, rest. split; auto. eapply head_usable_active; eauto. }
  destruct Hne as [f [rest [Hs2 Hf2]]].
  assert (Eo : objs (autobegin s1) = objs s1 /\ nobj (autobegin s1) = nobj s1 /\ snew (autobegin s1) = snew s1).
  { unfold autobegin. destruct (stack s1); repeat split; reflexivity. }
  destruct Eo as (E1 & E2 & E3).
  assert (Hnin : mem (nobj st) (snew (autobegin s1)) = false).
  { destruct (mem (nobj st) (snew (autobegin s1))) eqn:E; auto. apply mem_In in E. rewrite E3 in E.
    apply (g_new _ _ _ _ _ (c_good _ _ C)) in E. lia. }
  rewrite Hnin in H. inversion H; subst r st'. exists gs2.
  apply (core_make_pending (autobegin s1) gs2 (nobj st) f rest); auto.
  - rewrite E2. cbn. lia.
  - rewrite E1. cbn. rewrite updN_same. reflexivity.
  - rewrite E1. cbn. rewrite updN_same. reflexivity.
  - rewrite E1. cbn. rewrite updN_same. reflexivity.
Qed.

Lemma autobegin_active : forall st gs, Core st gs -> head_usable st = true ->
  exists gs1 f rest, Core (autobegin st) gs1 /\ stack (autobegin st) = f :: rest /\ fstate f = ACTIVE /\
    objs (autobegin st) = objs st /\ nobj (autobegin st) = nobj st /\ snew (autobegin st) = snew st /\ sdel (autobegin st) = sdel st.
Proof.
  intros st gs C Hu. destruct (autobegin_core st gs C) as [gs2 [C2 [A1 A2]]].
  assert (Eo : objs (autobegin st) = objs st /\ nobj (autobegin st) = nobj st /\ snew (autobegin st) = snew st /\ sdel (autobegin st) = sdel st).
  { unfold autobegin. destruct (stack st); repeat split; reflexivity. }
  destruct (stack st) as [|f rest] eqn:Es.
  - destruct (A2 eq_refl) as [f [X1 [X2 _]]]. exists gs2, f, []. split; [exact C2|]. split; [exact X1|]. split; [exact X2|]. exact Eo.
  - destruct (A1 ltac:(discriminate)) as [_ X]. exists gs2, f, rest. rewrite X in *.
    split; [exact C2|]. split; [exact Es|]. split; [eapply head_usable_active; eauto|]. exact Eo.
Qed.

Lemma op_add_core : forall st gs o r st', Core st gs -> guard st (OAdd o) = true -> do_op (OAdd o) st = (r, st') ->
  r <> Unmodelled -> exists gs', Core st' gs'.
Proof.
  intros st gs o r st' C Hg H Hr. unfold guard in Hg. apply andb_prop in Hg. destruct Hg as [Hu Hg].
  cbn [do_op] in H. destruct (Nat.ltb_spec o (nobj st)); [|inversion H; subst; congruence].
  destruct (autobegin_active st gs C Hu) as (gs1 & f & rest & C1 & Hs1 & Hf1 & E1 & E2 & E3 & E4).
  pose proof (c_good _ _ C1) as G1. pose proof (c_j _ _ C1) as J1.
  assert (Hu1 : head_usable (autobegin st) = true) by (apply head_usable_autobegin; exact Hu).
  unfold save_or_update in H. destruct (okey (objs st o)) as [k|] eqn:Ek.
  - (* an object with an identity key *)
    unfold update_impl in H. destruct (odelf (objs st o)) eqn:Ed; [inversion H; subst; eauto|].
    destruct (oatt (objs st o)) eqn:Ea; cbn [negb] in H; [|inversion H; subst; congruence].
    destruct (persistent_in (autobegin st) gs1 o k C1) as [Hi Hoth]; try congruence.
    set (s2 := set_sdel (autobegin st) (remm o (sdel (autobegin st)))) in *.
    assert (C2 : Core s2 gs1).
    { apply (core_set_sdel (autobegin st) gs1 _ f rest); auto.
      - unfold remm. apply NoDup_filter. apply (g_nodup _ _ _ _ _ G1).
      - intros x Hx. apply (g_del _ _ _ _ _ G1). apply mem_In in Hx. rewrite mem_remm in Hx. apply andb_prop in Hx.
        apply mem_In. tauto.
      - intros x. rewrite mem_remm. destruct (Nat.eqb_spec o x); [subst; right; congruence|left; reflexivity]. }
    unfold im_add in H. cbn [objs s2 set_sdel] in H. rewrite E1, Ek in H.
    assert (Hoth2 : im_other s2 o = None) by exact Hoth. rewrite Hoth2 in H.
    inversion H; subst r st'. exists gs1. unfold mod_obj. apply core_set_attrs; auto;
      unfold s2; cbn [objs nobj work stack set_sdel].
    + lia.
    + repeat split; cbn; auto.
    + intros _ k' v' K W.
      destruct (g_rows _ _ _ _ _ G1 o k' Hi K) as [v1 [V1 V2]]. assert (v1 = v') by congruence. subst. exact V2.
    + cbn. intros _ _ X. congruence.
    + cbn. apply (J1 o); lia.
    + intros X. congruence.
  - (* no identity key: transient (becomes pending) or already pending *)
    clear Hg. assert (Hg : odelf (objs st o) = false) by (apply (g_newd _ _ _ _ _ (c_good _ _ C) o); auto).
    destruct (mem o (snew (autobegin st))) eqn:Em.
    + inversion H; subst r st'. exists gs1. unfold mod_obj.
      assert (Hin : In o (snew (autobegin st))) by (apply mem_In; exact Em).
      apply (g_new _ _ _ _ _ G1) in Hin. destruct Hin as [A1 [A2 A3]].
      assert (Hni : oin (objs (autobegin st) o) = false).
      { destruct (oin (objs (autobegin st) o)) eqn:Ei; auto. destruct (g_in _ _ _ _ _ G1 o Ei) as [_ [_ [_ X]]]. congruence. }
      apply core_set_attrs; auto.
      * repeat split; cbn; auto.
      * intros X. congruence.
      * cbn. apply (J1 o); auto.
      * intros X. congruence.
    + inversion H; subst r st'. exists gs1.
      apply (core_make_pending (autobegin st) gs1 o f rest); auto; try congruence.
      destruct (oatt (objs (autobegin st) o)) eqn:Ea; auto. exfalso.
      assert (X : In o (snew (autobegin st))). { apply (g_new _ _ _ _ _ G1). repeat split; auto; congruence. }
      apply mem_In in X. congruence.
Qed.

Lemma op_del_core : forall st gs o r st', Core st gs -> guard st (ODel o) = true -> do_op (ODel o) st = (r, st') ->
  r <> Unmodelled -> exists gs', Core st' gs'.
Proof.
  intros st gs o r st' C Hg H Hr. unfold guard in Hg. apply andb_prop in Hg. destruct Hg as [Hu Hg]. apply negb_true_iff in Hg.
  cbn [do_op] in H. destruct (Nat.ltb_spec o (nobj st)); cbn [negb] in H; [|inversion H; subst; congruence].
  destruct (okey (objs st o)) as [k|] eqn:Ek; [|inversion H; subst; eauto].
  destruct (oatt (objs st o)) eqn:Ea; cbn [negb] in H; [|inversion H; subst; congruence].
  destruct (autobegin_active st gs C Hu) as (gs1 & f & rest & C1 & Hs1 & Hf1 & E1 & E2 & E3 & E4).
  pose proof (c_good _ _ C1) as G1. pose proof (c_j _ _ C1) as J1.
  assert (Hu1 : head_usable (autobegin st) = true) by (apply head_usable_autobegin; exact Hu).
  destruct (mem o (sdel (autobegin st))) eqn:Em; [inversion H; subst; eauto|].
  destruct (persistent_in (autobegin st) gs1 o k C1) as [Hi Hoth]; try congruence.
  unfold bind, im_add in H. rewrite E1, Ek in H. rewrite Hoth in H. cbn [lift] in H. inversion H; subst r st'. clear H.
  exists gs1.
  set (s2 := mod_obj (autobegin st) o (fun ob => o_in ob true)).
  assert (C2 : Core s2 gs1).
  { unfold s2, mod_obj. apply core_set_attrs; auto.
    - lia.
    - repeat split; cbn; auto.
    - intros _ k' v' K W. destruct (g_rows _ _ _ _ _ G1 o k' Hi K) as [v1 [V1 V2]]. assert (v1 = v') by congruence. subst. exact V2.
    - cbn. intros _ _ X. congruence.
    - cbn. apply (J1 o); lia.
    - intros X; congruence. }
  assert (Eo2 : forall x, odelf (objs s2 x) = odelf (objs (autobegin st) x) /\ oin (objs s2 x) = oin (objs (autobegin st) x)).
  { intros x. unfold s2, mod_obj. cbn. unfold updN. destruct (Nat.eqb_spec x o); subst; cbn; auto. }
  apply (core_set_sdel s2 gs1 _ f rest); auto.
  - apply NoDup_snoc; [apply (g_nodup _ _ _ _ _ G1)|]. intros X. apply mem_In in X. cbn in X. congruence.
  - intros x Hx. destruct (Eo2 x) as [_ B]. rewrite B. apply in_app_or in Hx. destruct Hx as [Hx|[Hx|[]]].
    + apply (g_del _ _ _ _ _ G1). exact Hx.
    + subst. exact Hi.
  - intros x. cbn [sdel s2 mod_obj set_obj set_objs]. rewrite mem_app. cbn.
    destruct (Nat.eqb_spec x o); [subst; right; rewrite updN_same; cbn; congruence|left; apply orb_false_r].
Qed.
