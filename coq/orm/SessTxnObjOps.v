(* C33 - the object-level operations (attribute assignment, add, delete, attribute refresh) under the
   whole invariant. *)
From Coq Require Import List ZArith Bool Arith Lia.
Import ListNotations.
From SAV.orm Require Import SessTxn SessTxnBase SessTxnSpec SessTxnInv SessTxnOps SessTxnRestore SessTxnRestore2
  SessTxnShift SessTxnStmts SessTxnFlush SessTxnDbInv SessTxnCore SessTxnFlushCore SessTxnTx SessTxnCommit.
Open Scope nat_scope.

(* replacing the attribute part of one object *)
Lemma core_set_attrs : forall st gs o x, Core st gs -> head_usable st = true -> o < nobj st ->
  same_id x (objs st o) ->
  (oin (objs st o) = true -> forall k v, okey (objs st o) = Some k -> work st k = Some v -> VA x k v) ->
  (okey x <> None -> oatt x = true -> odelf x = true -> odv x <> None /\ odid x <> None) ->
  ((odv x = None -> odid x = None) /\ (ocid x <> None -> odid x <> None) /\ (omod x = false -> ocid x = None /\ ocv x = None)) ->
  (oin (objs st o) = true \/ omod x = true \/ (odid x = odid (objs st o) /\ odv x = odv (objs st o) /\ omod x = omod (objs st o))) ->
  (stack st = [] -> oin (objs st o) = true -> omod x = false) ->
  Core (set_obj st o x) gs.
Proof.
  intros st gs o x C Hu Ho Hid Hva Hdv Hj Hrel Hidle. pose proof C as C0. destruct C as [G Jh D Ch Em].
  eapply Core_update; eauto.
  - repeat split; reflexivity.
  - unfold GoodS. cbn [objs nobj work snew sdel set_obj set_objs]. apply Good_upd; auto.
  - cbn [objs nobj set_obj set_objs]. apply J_upd; auto.
  - intros g f rest gs' Hs Hg Hf R. cbn [objs nobj work snew sdel set_obj set_objs].
    apply Rel_upd; auto. unfold Chain in Ch. rewrite Hs, Hg in Ch. tauto.
  - intros f rest Hs Hf. exfalso. apply Hf. eapply head_usable_active; eauto.
  - intros Hs. specialize (Em Hs). apply is_clean_spec in Em. destruct Em as [E1 [E2 E3]].
    apply is_clean_spec. cbn [objs nobj snew sdel set_obj set_objs]. repeat split; auto.
    intros o' Ho' Hi. unfold updN in *. destruct (Nat.eqb_spec o' o).
    + subst o'. destruct Hid as [_ [_ [_ I4]]]. apply Hidle; auto. congruence.
    + apply E3; auto.
Qed.

(* autobegin commutes with changes of the objects *)
Lemma autobegin_set_obj : forall st o x, autobegin (set_obj st o x) = set_obj (autobegin st) o x.
Proof. intros st o x. unfold autobegin. cbn [stack set_obj set_objs]. destruct (stack st); reflexivity. Qed.

Lemma head_usable_autobegin : forall st, head_usable st = true -> head_usable (autobegin st) = true.
Proof. intros st H. unfold autobegin, head_usable in *. destruct (stack st) eqn:E; cbn; rewrite ?E; auto. Qed.

(* the invariant sees the objects only pointwise *)
Lemma Core_objs_ext : forall st gs ob', Core st gs -> head_usable st = true -> (forall x, ob' x = objs st x) -> Core (set_objs st ob') gs.
Proof.
  intros st gs ob' C Hu H. pose proof C as C0. destruct C as [G Jh D Ch Em].
  assert (Hs : forall x, objs st x = ob' x) by (intros; symmetry; apply H).
  eapply Core_update; eauto.
  - repeat split; reflexivity.
  - unfold GoodS. cbn. eapply Good_obj_ext; eauto.
  - cbn. eapply J_obj_ext; eauto.
  - intros g f rest gs' S1 S2 S3 R. cbn. eapply Rel_obj_ext; eauto.
  - intros f rest S1 S2. exfalso. apply S2. eapply head_usable_active; eauto.
  - intros S1. specialize (Em S1). apply is_clean_spec in Em. destruct Em as [E1 [E2 E3]].
    apply is_clean_spec. cbn. repeat split; auto. intros o Ho Hi. rewrite H in *. auto.
Qed.

Lemma any_modified_true : forall st, any_modified st = true ->
  exists o, o < nobj st /\ oin (objs st o) = true /\ omod (objs st o) = true.
Proof.
  intros st H. unfold any_modified in H. apply existsb_exists in H. destruct H as [o [Ho H]].
  apply in_seq in Ho. apply andb_prop in H. exists o. split; [lia|exact H].
Qed.

(* an attribute assignment: the new attribute values [y], then InstanceState._modified_event *)
Lemma core_modify : forall st gs o y, Core st gs -> head_usable st = true -> o < nobj st ->
  omod y = omod (objs st o) ->
  same_id (o_mod y true) (objs st o) ->
  (oin (objs st o) = true -> forall k v, okey (objs st o) = Some k -> work st k = Some v -> VA (o_mod y true) k v) ->
  (okey y <> None -> oatt y = true -> odelf y = true -> odv y <> None /\ odid y <> None) ->
  ((odv y = None -> odid y = None) /\ (ocid y <> None -> odid y <> None)) ->
  exists gs', Core (modified_event o (set_obj st o y)) gs'.
Proof.
  intros st gs o y C Hu Ho Hm Hid Hva Hdv [Hj1 Hj2].
  set (z := o_mod y true) in *.
  assert (Hz : forall st0 gs0, Core st0 gs0 -> head_usable st0 = true -> objs st0 = objs st -> nobj st0 = nobj st -> work st0 = work st ->
            (stack st0 = [] -> oin (objs st o) = false) -> Core (set_obj st0 o z) gs0).
  { intros st0 gs0 C0 Hu0 E1 E2 E3 Hidle. apply core_set_attrs; auto; rewrite ?E1, ?E2, ?E3; auto.
    - repeat split; cbn; auto; discriminate.
    - intros S1 S2. rewrite (Hidle S1) in S2. discriminate. }
  assert (Hclean0 : stack st = [] -> forall o', o' < nobj st -> oin (objs st o') = true -> omod (objs st o') = false).
  { intros S1. pose proof (c_empty _ _ C S1) as X. apply is_clean_spec in X. tauto. }
  unfold modified_event. cbn [objs set_obj set_objs]. rewrite updN_same.
  destruct (omod y) eqn:Ey.
  - (* already modified *)
    assert (Eyz : y = z). { unfold z. destruct y; cbn in *; subst; reflexivity. }
    exists gs. rewrite Eyz. apply (Hz st gs); auto.
    intros S1. destruct (oin (objs st o)) eqn:Ei; auto. rewrite (Hclean0 S1 o Ho Ei) in Hm. discriminate.
  - (* first modification *)
    assert (Hext : forall s0, objs s0 = objs st -> forall x, updN (updN (objs s0) o y) o z x = updN (objs s0) o z x).
    { intros s0 E x. unfold updN. destruct (Nat.eqb x o); reflexivity. }
    assert (Hst2 : forall s0 gs0, Core (set_obj s0 o z) gs0 -> head_usable s0 = true -> objs s0 = objs st ->
              Core (mod_obj (set_obj s0 o y) o (fun ob => o_mod ob true)) gs0).
    { intros s0 gs0 C0 Hu0 E.
      assert (X : mod_obj (set_obj s0 o y) o (fun ob => o_mod ob true) = set_objs (set_obj s0 o z) (updN (updN (objs s0) o y) o z)).
      { unfold mod_obj, set_obj. cbn [objs set_objs]. rewrite updN_same. reflexivity. }
      rewrite X. apply Core_objs_ext; auto. intros x. cbn [objs set_obj set_objs]. apply Hext; auto. }
    destruct (stack st) as [|f0 r0] eqn:Es.
    + (* no transaction yet *)
      destruct (oatt y && negb (oin y && any_modified (set_obj st o y))) eqn:Eab.
      * destruct (autobegin_core st gs C) as [gs1 [C1 [_ A1]]].
        exists gs1.
        assert (X : autobegin (mod_obj (set_obj st o y) o (fun ob => o_mod ob true)) =
                    mod_obj (set_obj (autobegin st) o y) o (fun ob => o_mod ob true)).
        { unfold mod_obj. rewrite !autobegin_set_obj. cbn [objs set_obj set_objs]. unfold autobegin. rewrite Es. reflexivity. }
        rewrite X.
        assert (Eo : objs (autobegin st) = objs st) by (unfold autobegin; rewrite Es; reflexivity).
        apply Hst2; auto; [|apply head_usable_autobegin; exact Hu].
        apply Hz; auto.
        -- apply head_usable_autobegin; exact Hu.
        -- unfold autobegin; rewrite Es; reflexivity.
        -- unfold autobegin; rewrite Es; reflexivity.
        -- unfold autobegin. rewrite Es. cbn. discriminate.
      * exists gs. apply Hst2; auto. apply Hz; auto. intros _.
        destruct (oin (objs st o)) eqn:Ei; auto. exfalso.
        destruct Hid as [_ [I2 [_ I4]]]. cbn in I2, I4.
        destruct (g_in _ _ _ _ _ (c_good _ _ C) o Ei) as [_ [Ha _]].
        rewrite I2, Ha, I4, Ei in Eab. cbn [andb] in Eab. apply negb_false_iff in Eab.
        destruct (any_modified_true _ Eab) as [o' [H1 [H2 H3]]]. cbn [objs nobj set_obj set_objs] in *.
        unfold updN in *. destruct (Nat.eqb_spec o' o).
        -- subst o'. congruence.
        -- rewrite (Hclean0 eq_refl o' H1 H2) in H3. discriminate.
    + exists gs.
      assert (Hab : forall s, stack s = f0 :: r0 -> autobegin s = s) by (intros s E; unfold autobegin; rewrite E; reflexivity).
      assert (R1 : Core (mod_obj (set_obj st o y) o (fun ob => o_mod ob true)) gs).
      { apply Hst2; auto. apply Hz; auto. rewrite Es. discriminate. }
      destruct (oatt y && negb (oin y && any_modified (set_obj st o y))); [rewrite Hab|]; auto.
Qed.

(* ------------------------------------------------------------------ connection and attribute refresh *)
Lemma sess_eta : forall st, set_db (set_stack st (stack st)) (committed st) (work st) (saves st) = st.
Proof. intros st. destruct st; reflexivity. Qed.

Lemma provision_any_core : forall st gs f rest r st', Core st gs -> stack st = f :: rest -> provision st = (r, st') ->
  Core st' gs /\ objs st' = objs st /\ nobj st' = nobj st /\ snew st' = snew st /\ sdel st' = sdel st /\ work st' = work st /\
  committed st' = committed st /\ nfid st' = nfid st /\ eoc st' = eoc st /\ handles st' = handles st /\
  map lists_of (stack st') = map lists_of (stack st) /\ r <> Unmodelled /\
  (r = Ok -> fstate f = ACTIVE).
Proof.
  intros st gs f rest r st' C Hs H.
  destruct (Core_head_state st gs f rest C Hs) as [Hf|Hf].
  - destruct (provision_core st gs f rest C Hs Hf) as [sp [Ep [Cp [P1 [P2 [P3 [P4 [P5 [P6 [P7 [P8 [P9 [P10 P11]]]]]]]]]]]]].
    rewrite Ep in H. inversion H; subst r st'. split; [exact Cp|]. repeat split; auto; discriminate.
  - unfold provision in H. rewrite Hs in H. cbn [provision_fs] in H.
    assert (E : check_prereq f M_conn_for_bind = Some (prereq_error f)) by (unfold check_prereq; rewrite Hf; reflexivity).
    rewrite E in H. inversion H; subst r st'. rewrite <- Hs. rewrite sess_eta.
    split; [exact C|]. repeat split; auto; try discriminate; try (intros X; discriminate).
Qed.

Lemma connection_core : forall st gs r st', Core st gs -> connection st = (r, st') ->
  exists gs', Core st' gs' /\ objs st' = objs st /\ nobj st' = nobj st /\ snew st' = snew st /\ sdel st' = sdel st /\
    committed st' = committed st /\ eoc st' = eoc st /\ handles st' = handles st /\ r <> Unmodelled /\
    (r = Ok -> head_usable st' = true /\ stack st' <> [] /\ (stack st <> [] -> work st' = work st) /\ (stack st = [] -> work st' = work st)).
Proof.
  intros st gs r st' C H. unfold connection in H. rewrite (bind_ok _ _ _ (autobegin st)) in H by reflexivity.
  destruct (autobegin_core st gs C) as [gs1 [C1 [A1 A2]]].
  assert (Hne : exists f rest, stack (autobegin st) = f :: rest).
  { unfold autobegin. destruct (stack st) eqn:E; cbn; eauto. }
  destruct Hne as [f [rest Hs1]].
  destruct (provision_any_core _ _ f rest r st' C1 Hs1 H) as (C2 & B1 & B2 & B3 & B4 & B5 & B6 & B7 & B8 & B9 & B10 & B11 & B12).
  assert (Eo : objs (autobegin st) = objs st /\ nobj (autobegin st) = nobj st /\ snew (autobegin st) = snew st /\
               sdel (autobegin st) = sdel st /\ committed (autobegin st) = committed st /\ eoc (autobegin st) = eoc st /\
               handles (autobegin st) = handles st /\ work (autobegin st) = work st).
  { unfold autobegin. destruct (stack st); repeat split; reflexivity. }
  destruct Eo as (E1 & E2 & E3 & E4 & E5 & E6 & E7 & E8).
  exists gs1. split; [exact C2|]. repeat split; try congruence.
  - specialize (B12 H0). unfold head_usable. rewrite Hs1 in B10. destruct (stack st') as [|f' r'] eqn:Es'; [reflexivity|].
    cbn in B10. injection B10 as Q1 Q2 Q3 Q4 Q5 Q6 Q7 Q8 Q9. rewrite Q8, B12. reflexivity.
  - rewrite Hs1 in B10. destruct (stack st'); [discriminate|discriminate].
Qed.

Lemma load_row_core : forall st gs o r st', Core st gs -> head_usable st = true -> stack st <> [] -> o < nobj st ->
  oatt (objs st o) = true -> load_row o st = (r, st') -> r <> Unmodelled ->
  Core st' gs /\ nobj st' = nobj st /\ stack st' = stack st /\ handles st' = handles st /\ eoc st' = eoc st /\
  committed st' = committed st /\
  (r = Ok -> odid (objs st' o) <> None /\ odv (objs st' o) <> None).
Proof.
  intros st gs o r st' C Hu Hne Ho Ha H Hr. unfold load_row in H.
  destruct (okey (objs st o)) as [k|] eqn:Ek; [|inversion H; subst; congruence].
  destruct (work st k) as [v|] eqn:Ew.
  2:{ inversion H; subst. split; [exact C|]. repeat split; auto; intros X; discriminate. }
  inversion H; subst r st'. clear H.
  change (o_exp (o_dv (o_did (objs st o) (match ocid (objs st o), odid (objs st o) with None, None => Some k | _, d => d end))
                      (match ocv (objs st o), odv (objs st o) with None, None => Some v | _, d => d end)) false)
    with (loaded (objs st o) k v).
  pose proof (c_good _ _ C) as G. pose proof (c_j _ _ C o Ho) as Jo.
  assert (Hcv : ocv (objs st o) <> None -> odv (objs st o) <> None).
  { destruct (oin (objs st o)) eqn:Ei.
    - destruct (g_rows _ _ _ _ _ G o k Ei Ek) as [v' [_ [_ [_ [_ [_ [V5 _]]]]]]]. exact V5.
    - intros _. destruct (odelf (objs st o)) eqn:Ed.
      + apply (g_delv _ _ _ _ _ G o); auto. congruence.
      + rewrite (g_pers _ _ _ _ _ G o k Ho Ek Ha Ed) in Ei. discriminate. }
  split; [|cbn [nobj stack handles eoc committed objs set_obj set_objs];
            split; [reflexivity|]; split; [reflexivity|]; split; [reflexivity|]; split; [reflexivity|]; split; [reflexivity|]].
  - apply core_set_attrs; auto.
    + repeat split.
    + intros Ei k' v' Hk' Hw'. assert (k' = k) by congruence. subst k'. assert (v' = v) by congruence. subst v'.
      destruct (g_rows _ _ _ _ _ G o k Ei Ek) as [v' [Hv' Hva]]. assert (v' = v) by congruence. subst v'.
      apply loaded_VA; auto.
    + intros _ _ Hd. destruct (g_delv _ _ _ _ _ G o Ho) as [D1 D2]; auto; try congruence.
      unfold loaded. cbn. destruct (ocid (objs st o)), (odid (objs st o)), (ocv (objs st o)), (odv (objs st o)); split; congruence.
    + apply loaded_J; auto.
    + destruct (oin (objs st o)) eqn:Ei; [left; reflexivity|right; right].
      destruct (odelf (objs st o)) eqn:Ed.
      * destruct (g_delv _ _ _ _ _ G o Ho) as [D1 D2]; auto; try congruence.
        unfold loaded. cbn. destruct (ocid (objs st o)), (odid (objs st o)), (ocv (objs st o)), (odv (objs st o)); repeat split; congruence.
      * rewrite (g_pers _ _ _ _ _ G o k Ho Ek Ha Ed) in Ei. discriminate.
    + intros X. congruence.
  - intros _. rewrite updN_same. unfold loaded. cbn. destruct Jo as [J1 [J2 J3]].
    destruct (ocid (objs st o)) eqn:E1, (odid (objs st o)) eqn:E2, (ocv (objs st o)) eqn:E3, (odv (objs st o)) eqn:E4;
      split; try discriminate; try (exfalso; apply J2; [discriminate|reflexivity]); try (exfalso; apply Hcv; [discriminate|reflexivity]);
      try (specialize (J1 eq_refl); discriminate).
Qed.

(* InstanceState._load_expired outside the flush: autoflush, connection, SELECT *)
Lemma load_expired_core : forall st gs o r st', Core st gs -> o < nobj st -> load_expired o st = (r, st') -> r <> Unmodelled ->
  exists gs', Core st' gs' /\ nobj st' = nobj st /\ handles st' = handles st /\ eoc st' = eoc st /\ committed st' = committed st /\
    (r = Ok -> head_usable st' = true /\ odid (objs st' o) <> None /\ odv (objs st' o) <> None).
Proof.
  intros st gs o r st' C Ho H Hr. unfold load_expired in H.
  destruct (oatt (objs st o)) eqn:Ea; cbn [negb] in H.
  2:{ inversion H; subst. exists gs. split; [exact C|]. repeat split; auto; try (intros X; discriminate). }
  apply bind_inv in H. destruct H as [[s1 [H1 H]]|[H1 Hn]].
  2:{ destruct (flush_core st gs r st' C H1 Hr) as [C1 (A1 & A2 & A3 & A4 & A5 & A6 & _)].
      exists gs. split; [exact C1|]. repeat split; auto. intros X; congruence. }
  destruct (flush_core st gs Ok s1 C H1) as [C1 (A1 & A2 & A3 & A4 & A5 & A6 & _)]; [discriminate|].
  assert (Ho1 : o < nobj s1) by lia.
  apply bind_inv in H. destruct H as [[s2 [H2 H]]|[H2 Hn]].
  2:{ destruct (connection_core s1 gs r st' C1 H2) as [gs2 (C2 & B1 & B2 & B3 & B4 & B5 & B6 & B7 & B8 & B9)].
      exists gs2. split; [exact C2|]. repeat split; try congruence. }
  destruct (connection_core s1 gs Ok s2 C1 H2) as [gs2 (C2 & B1 & B2 & B3 & B4 & B5 & B6 & B7 & B8 & B9)].
  destruct (B9 eq_refl) as [Hu2 [Hne2 _]].
  unfold load_row_attached in H. destruct (oatt (objs s2 o)) eqn:Ea2; [|inversion H; subst; congruence].
  destruct (load_row_core s2 gs2 o r st' C2 Hu2 Hne2) as (C3 & D1 & D2 & D3 & D4 & D5 & D6); auto; try congruence.
  exists gs2. split; [exact C3|]. repeat split; try congruence.
  - unfold head_usable in *. rewrite D2. exact Hu2.
  - apply D6; auto.
  - apply D6; auto.
Qed.
