(* C34 - queries return the mapped objects, get of a present unexpired object emits no SQL;
   histories on which the identity map and the objects' own view of their identity disagree *)
From Coq Require Import List ZArith Bool Arith Lia.
Import ListNotations.
From SAV.orm Require Import IdMap IdMapSpec IdMapLemmas IdMapProofs.
Open Scope Z_scope.

Lemma imap_add_obj : forall o st k h, imap st k h -> imap (add_obj o st) k h.
Proof. intros o st k h [x [H1 H2]]. exists x. split; auto. unfold add_obj. simpl.
  rewrite nth_error_app1; auto. apply nth_error_Some. congruence. Qed.

Lemma load_row_mapped : forall k st, imap (fst (load_row k st)) k (snd (load_row k st)).
Proof.
  intros k st. unfold load_row. destruct (holder k st) eqn:Eh; simpl; [apply holder_some; auto|].
  eexists. split; [unfold add_obj; simpl; rewrite nth_error_app2 by lia; rewrite Nat.sub_diag; reflexivity|].
  simpl. split; [reflexivity|destruct k; reflexivity].
Qed.
Lemma load_row_keeps : forall k st k' h, imap st k' h -> imap (fst (load_row k st)) k' h.
Proof. intros. unfold load_row. destruct (holder k st); simpl; auto. apply imap_add_obj; auto. Qed.
Lemma load_rows_keeps : forall tok pks st k' h, imap st k' h -> imap (fst (load_rows tok pks st)) k' h.
Proof.
  induction pks as [|k r IH]; intros st k' h H; simpl; auto.
  pose proof (load_row_keeps (k, tok) st k' h H) as H1. destruct (load_row (k, tok) st) as [st1 x]. simpl in H1.
  specialize (IH st1 k' h H1). destruct (load_rows tok r st1). simpl in *. auto.
Qed.
(* row by row: the object returned for the row with primary key [pk] is the one mapped under (pk, token) *)
Lemma load_rows_mapped : forall tok pks st,
  Forall2 (fun pk h => imap (fst (load_rows tok pks st)) (pk, tok) h) pks (snd (load_rows tok pks st)).
Proof.
  induction pks as [|k r IH]; intros st; simpl; [constructor|].
  pose proof (load_row_mapped (k, tok) st) as H1. destruct (load_row (k, tok) st) as [st1 x]. simpl in H1.
  specialize (IH st1). pose proof (load_rows_keeps tok r st1 (k, tok) x H1) as H2.
  destruct (load_rows tok r st1) as [st2 hs]. simpl in *. constructor; auto.
Qed.

Theorem query_returns_mapped : forall e tok st,
  rerr (do_query e tok st) = 0 ->
  exists rws, Forall2 (fun pk h => imap (rst (do_query e tok st)) (pk, tok) h) rws (robjs (do_query e tok st)).
Proof.
  intros e tok st. unfold do_query. destruct (sql e st) as [[st1 c] rws].
  destruct (Z.eqb c 0); simpl; [|intros; exists []; constructor].
  intros _. exists (sort_z rws). pose proof (load_rows_mapped tok (sort_z rws) st1) as H.
  destruct (load_rows tok (sort_z rws) st1). simpl in *. exact H.
Qed.

Lemma mapped_is_holder : forall st k h, functional st -> imap st k h -> holder k st = Some h.
Proof.
  intros st k h HU Hm. destruct (holder k st) as [h'|] eqn:E.
  - apply holder_some in E. f_equal. apply (HU k h' h); auto.
  - exfalso. eapply holder_none; eauto.
Qed.

(* Session.get of an identity whose object is in the map and not expired: that object, no SQL, nothing changes *)
Theorem get_present_unexpired : forall e k st h,
  functional st -> imap st k h -> eexp e h = false ->
  do_get e k st = mkRes st 0 [h] true.
Proof. intros e k st h HU Hm He. unfold do_get. rewrite (mapped_is_holder st k h HU Hm), He. reflexivity. Qed.

(* ---- witnesses ------------------------------------------------------------------------------------------- *)
Definition env_of (rws : list Z) (expired modified : bool) : env :=
  mkEnv rws (fun _ => expired) (fun _ => expired) (fun _ => true) (fun _ => modified).

(* s.add(o1); s.commit(); s.delete(o1); s.add(o0) with the same primary key; s.get(A, 1):
   the autoflush inside get moves o1 to "deleted" and maps o0; get used to return o1 (repaired in /repo 69ec57b),
   now it returns the mapped object o0 *)
Definition h_get_stale : list (env * op) :=
  [(env_of [] false false, Add 1); (env_of [] false false, Commit); (env_of [1] true false, Delete 1);
   (env_of [1] true false, Add 0)].
Lemma get_after_row_switch : let st := run h_get_stale (init true [1; 1]) in
  let r := step (env_of [1] true false) (Get 1 0) st in
  rerr r = 0 /\ robjs r = [0%nat] /\ holder (1, 0) (rst r) = Some 0%nat /\ persistent (get (rst r) 1) = false.
Proof. vm_compute. repeat split; reflexivity. Qed.

(* a primary key change is flushed, the object is expunged, the transaction is rolled back:
   _restore_snapshot puts the detached object back into the identity map *)
Definition h_detached_mapped : list (env * op) :=
  [(env_of [] false false, Add 0); (env_of [] false false, Commit); (env_of [1] false false, PkSet 0 2);
   (env_of [1] false true, Flush); (env_of [2] false false, Expunge 0); (env_of [2] false false, Rollback)].
Lemma detached_mapped : let st := run h_detached_mapped (init false [1]) in
  mapped_attached st = false /\ iimap (get st 0) = true /\ osess (get st 0) = false /\ bad st = true.
Proof. vm_compute. repeat split; reflexivity. Qed.

(* the row of a persistent object disappears behind the session's back, a new object with the same
   primary key is flushed: two persistent objects with one identity, one of them not in the map *)
Definition h_row_vanished : list (env * op) :=
  [(env_of [1] false false, Query 0 0); (env_of [] false false, Add 0); (env_of [] false false, Flush)].
Lemma row_vanished : let st := run h_row_vanished (init true [1]) in
  one_persistent_per_key st = false /\ persistent_mapped st = false /\ bad st = true.
Proof. vm_compute. repeat split; reflexivity. Qed.

(* two pending objects with the primary key of a persistent object that is deleted in the same flush:
   both are "row switches", both become persistent under the same identity (no [stop] here: the
   implementation's choice of which one stays mapped depends on set iteration order) *)
Lemma double_row_switch :
  let e := env_of [] false false in let e1 := env_of [1] false false in
  let s1 := rst (step e Commit (rst (step e (Add 0) (init true [1; 1; 1])))) in
  let s2 := rst (step e1 (Add 2) (rst (step e1 (Add 1) (rst (step e1 (Delete 0) s1))))) in
  let st := rst (step e1 Flush s2) in
  one_persistent_per_key st = false /\ persistent_mapped st = false /\ bad st = true.
Proof. vm_compute. repeat split; reflexivity. Qed.

(* a history through loads and mutations on which everything is consistent *)
Definition h_good : list (env * op) :=
  [(env_of [1; 2] false false, Query 0 0); (env_of [1; 2] false false, Get 1 7); (env_of [1; 2] false false, PkSet 1 3);
   (env_of [1; 2] false true, Flush); (env_of [1; 3] false false, Query 1 0); (env_of [1; 3] false false, Rollback);
   (env_of [1; 2] true false, Get 2 0); (env_of [1; 2] false false, Delete 2); (env_of [1; 2] false false, Commit);
   (env_of [1] false false, Merge 0)].
Lemma good_consistent : let st := run h_good (init true [5]) in
  mapped_attached st = true /\ persistent_mapped st = true /\ one_persistent_per_key st = true /\
  length (objs st) = 4%nat /\ bad st = false.
Proof. vm_compute. repeat split; reflexivity. Qed.
