(* C35 - Session.flush under its guard *)
From Coq Require Import List ZArith Bool Arith Lia.
Import ListNotations.
From SAV.orm Require Import Lifecycle LifecycleSpec LifecycleLemmas LifecycleInv LifecycleRestore.
Open Scope Z_scope.

(* during a flush, relative to the sets taken at its start: dk = "was in session._deleted",
   nk = "was in session._new" *)
Definition Pf (o : obj) (dk nk : bool) : bool :=
  objinvb (Some false) o && implb dk (isdel o) && implb (isdel o) dk && implb nk (inew o).
Definition postB (o : obj) : bool := objinvb (Some false) o && negb (isdel o).

Lemma holder_from_some : forall k l n ex, holder_from k n l = Some ex ->
  exists o, nth_error l (ex - n) = Some o /\ (n <= ex)%nat /\ iimap o = true.
Proof.
  induction l as [|a l IH]; simpl; intros n ex H; [discriminate|].
  destruct (iimap a && Z.eqb (pk a) k) eqn:E.
  - inversion H; subst. exists a. rewrite Nat.sub_diag. apply andb_prop in E as [E _]. auto.
  - apply IH in H as [o [H1 [H2 H3]]]. exists o. split; [|split; auto; lia].
    replace (ex - n)%nat with (S (ex - S n)) by lia. exact H1.
Qed.
Lemma holder_some : forall k st ex, holder k st = Some ex -> iimap (get st ex) = true.
Proof. intros k st ex H. apply holder_from_some in H as [o [H1 [_ H3]]]. rewrite Nat.sub_0_r in H1.
  rewrite (get_nth _ _ _ H1). exact H3. Qed.

Lemma wad_step_ok : forall (b dk nk : bool) o,
  Pf o dk nk && (if b then iimap o && negb (isdel o) else true) = true ->
  let f := if b then newly_deleted_obj true o else (o, []) in
  Pf (fst f) dk nk = true /\ wfob (snd f) = true.
Proof. intros b dk nk o. destruct b, dk, nk; obj_cases. Qed.

Lemma organize_fst : forall e d st p r, fst (organize e d st (p :: r)) =
  if inew (get st p) then fst (organize e d (fst (organize_one e d st p)) r) else fst (organize e d st r).
Proof. intros. simpl. destruct (inew (get st p)); auto. destruct (organize_one e d st p).
  simpl. destruct (organize e d s r). reflexivity. Qed.

Lemma organize_one_inv : forall e (d0 n0 : nat -> bool) st p,
  tx st = Some false -> SP (fun k o => Pf o (d0 k) (n0 k)) st -> wf (slog st) ->
  match holder (pk (get st p)) st with
  | Some ex => negb (eexp e ex && negb (memz (pk (get st p)) (rows e)) && isdel (get st ex))
  | None => true
  end = true ->
  let st' := fst (organize_one e d0 st p) in
  SP (fun k o => Pf o (d0 k) (n0 k)) st' /\ wf (slog st') /\ tx st' = Some false.
Proof.
  intros e d0 n0 st p Htx HP Hw Hg. unfold organize_one.
  destruct (holder (pk (get st p)) st) as [ex|] eqn:Eh; simpl; auto.
  destruct (eexp e ex && negb (memz (pk (get st p)) (rows e))) eqn:Ew; simpl; auto.
  simpl in Hg. apply negb_true_iff in Hg.
  assert (Hh : has_tx st = true) by (unfold has_tx; rewrite Htx; reflexivity). rewrite Hh.
  pose proof (holder_some _ _ _ Eh) as Him.
  assert (HP2 : SP (fun k o => Pf o (d0 k) (n0 k) && (if Nat.eqb k ex then iimap o && negb (isdel o) else true)) st).
  { apply (SP_get (fun k o => Pf o (d0 k) (n0 k)) (fun o => iimap o && negb (isdel o))); auto.
    rewrite Him, Hg. reflexivity. }
  destruct (pass_spec _ (fun k o => Pf o (d0 k) (n0 k)) (only ex (newly_deleted_obj true)) st HP2) as [A B].
  { intros k o Hp. unfold only. apply (wad_step_ok (Nat.eqb k ex)). exact Hp. }
  split; [exact A|]. split; [auto|]. rewrite app_all_tx. exact Htx.
Qed.

Lemma organize_inv : forall e (d0 n0 : nat -> bool) ps st,
  tx st = Some false -> SP (fun k o => Pf o (d0 k) (n0 k)) st -> wf (slog st) ->
  organize_ok e d0 st ps = true ->
  let st' := fst (organize e d0 st ps) in
  SP (fun k o => Pf o (d0 k) (n0 k)) st' /\ wf (slog st') /\ tx st' = Some false.
Proof.
  induction ps as [|p r IH]; intros st Htx HP Hw Hg; [simpl; auto|].
  cbv zeta. rewrite organize_fst. simpl in Hg.
  destruct (inew (get st p)); [|apply IH; auto].
  apply andb_prop in Hg as [G1 G2].
  destruct (organize_one_inv e d0 n0 st p Htx HP Hw G1) as [A [B C]].
  apply IH; auto.
Qed.

(* finalize_flush_changes *)
Lemma finalize_passA_ok : forall (dk nk : bool) o, Pf o dk nk = true ->
  let f := if dk then newly_deleted_obj true o else (o, []) in
  postB (fst f) && implb nk (inew (fst f)) = true /\ wfob (snd f) = true.
Proof. intros dk nk o. destruct dk, nk; obj_cases. Qed.

Lemma register_step_ok : forall (b m nk : bool) kz o,
  postB o && (if b || m then implb nk (inew o) else true) && (if b then nk else true) = true ->
  let f := if b then register_obj true o else if iimap o && Z.eqb (pk o) kz then (set_iimap false o, []) else (o, []) in
  postB (fst f) && (if negb b && m then implb nk (inew (fst f)) else true) = true /\ wfob (snd f) = true.
Proof. intros b m nk kz o. destruct b, m, nk; destruct (Z.eqb (pk o) kz); obj_cases. Qed.

Lemma register_fold : forall (n0 : nat -> bool) l st,
  tx st = Some false -> NoDup l ->
  SP (fun k o => postB o && (if memn k l then implb (n0 k) (inew o) else true)) st -> wf (slog st) ->
  let st' := fold_left (fun st i => if n0 i then register_one st i else st) l st in
  SP (fun _ => postB) st' /\ wf (slog st') /\ tx st' = Some false.
Proof.
  induction l as [|i r IH]; intros st Htx Hnd HP Hw; simpl.
  - split; [|auto]. eapply SP_weaken; [exact HP|]. intros k o H. simpl in H. rewrite andb_true_r in H. exact H.
  - inversion Hnd as [|? ? Hni Hnd']; subst.
    assert (Hnotin : forall k, memn k r = true -> Nat.eqb k i = false).
    { intros k Hk. destruct (Nat.eqb_spec k i); auto. subst. exfalso. apply Hni.
      unfold memn in Hk. apply existsb_exists in Hk as [x [Hx Hx2]]. apply Nat.eqb_eq in Hx2. subst. auto. }
    destruct (n0 i) eqn:En.
    + unfold register_one.
      assert (Hh : has_tx st = true) by (unfold has_tx; rewrite Htx; reflexivity). rewrite Hh.
      set (f := replacing i (pk (get st i)) (register_obj true)).
      destruct (pass_spec _ (fun k o => postB o && (if negb (Nat.eqb k i) && memn k r then implb (n0 k) (inew o) else true)) f st HP) as [A B].
      { intros k o Hp. unfold f, replacing. apply (register_step_ok (Nat.eqb k i) (memn k r) (n0 k)).
        simpl in Hp. rewrite Hp. destruct (Nat.eqb_spec k i); [subst; exact En|reflexivity]. }
      apply IH; auto.
      * rewrite app_all_tx. auto.
      * eapply SP_weaken; [exact A|]. intros k o H. simpl in H.
        destruct (memn k r) eqn:Em; [rewrite (Hnotin k Em) in H; exact H|].
        rewrite andb_false_r in H. exact H.
    + apply IH; auto. eapply SP_weaken; [exact HP|]. intros k o H. simpl in H.
      destruct (memn k r) eqn:Em; [rewrite orb_true_r in H; exact H|].
      destruct (Nat.eqb k i); simpl in H; [apply andb_prop in H as [H _]; rewrite H; reflexivity|exact H].
Qed.

Lemma finalize_inv : forall st0 st,
  tx st = Some false -> SP (fun k o => Pf o (isdel (get st0 k)) (inew (get st0 k))) st -> wf (slog st) ->
  Inv (finalize st0 st).
Proof.
  intros st0 st Htx HP Hw. unfold finalize.
  assert (Hh : has_tx st = true) by (unfold has_tx; rewrite Htx; reflexivity). rewrite Hh.
  set (fA := fun (i : nat) (o : obj) => if isdel (get st0 i) then newly_deleted_obj true o else (o, [])).
  destruct (pass_spec _ (fun k o => postB o && implb (inew (get st0 k)) (inew o)) fA st HP) as [A B].
  { intros k o Hp. unfold fA. apply finalize_passA_ok. exact Hp. }
  destruct (register_fold (fun i => inew (get st0 i)) (all_idx st0) (app_all fA st)) as [C [D E]]; auto.
  - rewrite app_all_tx. auto.
  - apply seq_NoDup.
  - eapply SP_weaken; [exact A|]. intros k o H. simpl in H. apply andb_prop in H as [H1 H2]. rewrite H1, H2.
    destruct (memn k (all_idx st0)); reflexivity.
  - split; [|exact D]. rewrite E. eapply SP_weaken; [exact C|]. intros k o H. simpl in H.
    apply andb_prop in H as [H _]. exact H.
Qed.

Lemma objinv_deact : forall t o, objinvb t o = true -> t <> None -> objinvb (Some true) o = true.
Proof. intros t o H Ht. destruct t as [[]|]; [exact H| |congruence]. revert H. obj_cases. Qed.

Lemma flush_start_ok : forall o, objinvb (Some false) o = true -> Pf o (isdel o) (inew o) = true.
Proof. obj_cases. Qed.

Lemma is_deact_false_tx : forall st, has_tx st = true -> is_deact st = false -> tx st = Some false.
Proof. intros st. unfold has_tx, is_deact. destruct (tx st) as [[]|]; auto; discriminate. Qed.

Lemma flush_inv : forall e st, Inv st -> flush_guard e st = true -> Inv (fst (fst (flush e st))).
Proof.
  intros e st HI G. unfold flush. unfold flush_guard in G.
  destruct (is_clean st (emod e)); [exact HI|].
  set (st0 := autobegin st) in *.
  pose proof (autobegin_inv st HI) as HI0. fold st0 in HI0.
  destruct (is_deact st0) eqn:Ed; [exact HI0|].
  assert (Htx0 : tx st0 = Some false) by (apply is_deact_false_tx; auto; apply autobegin_has_tx).
  destruct HI0 as [H1 H2]. rewrite Htx0 in H1.
  apply andb_prop in G as [G1 G2].
  assert (HP0 : SP (fun k o => Pf o (isdel (get st0 k)) (inew (get st0 k))) st0).
  { intros k o Hk. rewrite (get_nth _ _ _ Hk). apply flush_start_ok. eapply H1; eauto. }
  destruct (organize_inv e (fun d => isdel (get st0 d)) (fun d => inew (get st0 d)) (all_idx st0) st0 Htx0 HP0 H2 G1)
    as [A [B C]].
  destruct (organize e (fun d => isdel (get st0 d)) st0 (all_idx st0)) as [st1 rsw] eqn:Eo. simpl in A, B, C.
  destruct (flush_db e st0 rsw).
  - apply finalize_inv; auto.
  - assert (HPd : SP (fun _ => objinvb (Some true)) (set_tx (Some true) st1)).
    { apply SP_set_tx. eapply SP_weaken; [exact A|]. intros k o H. simpl in H. unfold Pf in H.
      apply andb_prop in H as [H _]. apply andb_prop in H as [H _]. apply andb_prop in H as [H _].
      eapply objinv_deact; [exact H|discriminate]. }
    destruct (restore_inv (set_tx (Some true) st1) eq_refl HPd G2 B) as [R1 [R2 R3]].
    destruct (restore_snapshot (set_tx (Some true) st1)) as [st2 c2]. simpl in *.
    split; [rewrite R3; exact R1|exact R2].
Qed.
