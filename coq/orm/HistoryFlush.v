(* C36 - proofs, part 6: flush resets the history and persists the current values (outside the
   two defective regions), with the witnesses of the defects. *)
From Coq Require Import List NArith Bool Lia.
Import ListNotations.
From SAV.orm Require Import History HistorySpec HistoryProofs HistoryWf HistoryFrame.
Open Scope N_scope.

Lemma finish_flush_proj : forall s, let s' := finish_flush s in
  x_c s' = NoHist /\ b_c s' = NoHist /\ c_c s' = NoHist /\ modified s' = false /\
  db_x s' = db_x s /\ db_b s' = db_b s /\ db_c s' = flush_dbc s /\
  x_d s' = x_d s /\ b_d s' = b_d s /\ c_d s' = c_d s.
Proof.
  intros s. unfold finish_flush. generalize (flush_dbc s). intros l. dstate s. cbn.
  destruct xd, bdd; cbn; repeat split; reflexivity.
Qed.

Lemma flush_resets : forall s s' r, wf s -> flush s = (s', Done r) ->
  x_c s' = NoHist /\ b_c s' = NoHist /\ c_c s' = NoHist /\ modified s' = false.
Proof.
  intros s s' r W. unfold flush.
  destruct (persistent s && negb (modified s)) eqn:NOOP.
  { intros H; inversion H; subst. apply andb_true_iff in NOOP. destruct NOOP as [_ M].
    apply negb_true_iff in M. destruct (wf_unmod s' W M) as (A & B & C). auto. }
  destruct (negb (persistent s)).
  - intros H; inversion H; subst. destruct (finish_flush_proj (insert_row (sync_b s) s)) as (A & B & C & D & _). auto.
  - intros H; inversion H; subst. destruct (finish_flush_proj (update_row (sync_b s) s)) as (A & B & C & D & _). auto.
Qed.

Lemma clean_changes : forall s, x_c s = NoHist -> b_c s = NoHist -> c_c s = NoHist ->
  changes (hist_x s) = ([], []) /\ changes (hist_b s) = ([], []) /\ changes (hist_c s) = ([], []).
Proof.
  intros s X B C. rewrite hist_x_eq, hist_b_eq, hist_c_eq, X, B, C.
  destruct (x_d s), (b_d s), (c_d s); cbn; auto.
Qed.

(* ---------- what flush writes ---------- *)
Lemma sync_b_clean : forall s, b_c s = NoHist -> sync_b s = None.
Proof. intros s C. unfold sync_b. rewrite hist_b_eq, C. destruct (b_d s); reflexivity. Qed.

Lemma sync_b_exp : forall s, wf s -> opt_or (sync_b s) (db_b s) = exp_b s.
Proof.
  intros s W. unfold exp_b. destruct (b_c s) as [| | |p] eqn:C; cbn [is_nohist].
  - rewrite sync_b_clean by exact C. reflexivity.
  - destruct (b_d s) as [v|] eqn:D.
    + symmetry. apply sync_b_spec; assumption.
    + unfold sync_b. rewrite hist_b_eq, C, D. cbn. apply (wf_b_nv s W C).
  - destruct (b_d s) as [v|] eqn:D.
    + symmetry. apply sync_b_spec; assumption.
    + unfold sync_b. rewrite hist_b_eq, C, D. reflexivity.
  - destruct (b_d s) as [v|] eqn:D.
    + symmetry. apply sync_b_spec; assumption.
    + unfold sync_b. rewrite hist_b_eq, C, D. unfold from_object. cbn. destruct p; reflexivity.
Qed.

Lemma upd_x_exp : forall s, wf s -> opt_or (upd_x s) (db_x s) = exp_x s.
Proof.
  intros s W. unfold upd_x, exp_x.
  destruct (x_c s) as [| | |p] eqn:C; cbn [is_nohist opt_or]; try reflexivity.
  destruct (opt_or (x_d s) 0 =? p) eqn:E; [|reflexivity]. apply N.eqb_eq in E. rewrite E.
  cbn. symmetry. eapply wf_x_comm; eauto.
Qed.

Lemma flush_dbc_exp : forall s, wf s ->
  coll_deleted s = false ->
  same_set (flush_dbc s) (exp_c s).
Proof.
  intros s W G o. unfold coll_deleted in G. rewrite (flush_dbc_spec s W o). unfold exp_c.
  destruct (c_c s) as [| | |p] eqn:C; cbn [is_nohist].
  - destruct (c_d s); tauto.
  - destruct (wf_c_kind s W) as [_ H]. rewrite (H C). destruct (c_d s); cbn; tauto.
  - destruct (wf_c_kind s W); congruence.
  - destruct (c_d s) as [l|] eqn:D; [tauto|]. cbn. destruct p; [|discriminate].
    pose proof (wf_c_comm s W [] C o). cbn in H. tauto.
Qed.

Lemma insert_row_proj : forall nb s, let s1 := insert_row nb s in
  db_x s1 = opt_or (x_d s) 0 /\ db_b s1 = opt_or nb 0 /\
  c_d s1 = c_d s /\ c_c s1 = c_c s /\ db_c s1 = db_c s.
Proof. intros nb s. dstate s. cbn. auto. Qed.

Lemma insert_x_exp : forall s, wf s -> persistent s = false -> opt_or (x_d s) 0 = exp_x s.
Proof.
  intros s W P. destruct (wf_new s W P) as (X0 & _). unfold exp_x.
  destruct (x_c s) eqn:C; cbn [is_nohist]; try reflexivity.
  destruct (x_d s) as [v|] eqn:D; cbn; [|congruence]. eapply wf_x_clean; eauto.
Qed.

Theorem flush_persists_guarded : forall s, wf s -> flush_guard s = true ->
  exists s', flush s = (s', Done (RDb (exp_x s) (exp_b s) (db_c s'))) /\
             db_x s' = exp_x s /\ db_b s' = exp_b s /\ same_set (db_c s') (exp_c s).
Proof.
  intros s W G2. unfold flush_guard in G2. apply negb_true_iff in G2. unfold flush.
  destruct (persistent s && negb (modified s)) eqn:NOOP.
  { apply andb_true_iff in NOOP. destruct NOOP as [_ M]. apply negb_true_iff in M.
    destruct (wf_unmod s W M) as (A & B & C). exists s. unfold db_ret, exp_x, exp_b, exp_c.
    rewrite A, B, C. cbn. repeat split; auto. }
  destruct (negb (persistent s)) eqn:NP.
  - apply negb_true_iff in NP.
    destruct (finish_flush_proj (insert_row (sync_b s) s)) as (_ & _ & _ & _ & DX & DB & DC & _).
    destruct (insert_row_proj (sync_b s) s) as (IX & IB & ICD & ICC & IDC).
    assert (EX : db_x (finish_flush (insert_row (sync_b s) s)) = exp_x s).
    { rewrite DX, IX. apply insert_x_exp; assumption. }
    assert (EB : db_b (finish_flush (insert_row (sync_b s) s)) = exp_b s).
    { rewrite DB, IB. rewrite <- (sync_b_exp s W). destruct (wf_new s W NP) as (_ & B0 & _). rewrite B0. reflexivity. }
    eexists. split; [|split; [exact EX|split; [exact EB|]]].
    + unfold db_ret. rewrite EX, EB. reflexivity.
    + rewrite DC, (flush_dbc_ext s _ ICD ICC IDC). apply flush_dbc_exp; assumption.
  - apply negb_false_iff in NP.
    destruct (finish_flush_proj (update_row (sync_b s) s)) as (_ & _ & _ & _ & DX & DB & DC & _).
    destruct (update_row_proj (sync_b s) s) as (_ & _ & UB & UCD & UCC & UDC & _ & _ & UX & _).
    assert (EX : db_x (finish_flush (update_row (sync_b s) s)) = exp_x s).
    { rewrite DX, UX. apply upd_x_exp; assumption. }
    assert (EB : db_b (finish_flush (update_row (sync_b s) s)) = exp_b s).
    { rewrite DB, UB. apply sync_b_exp; assumption. }
    eexists. split; [|split; [exact EX|split; [exact EB|]]].
    + unfold db_ret. rewrite EX, EB. reflexivity.
    + rewrite DC, (flush_dbc_ext s _ UCD UCC UDC). apply flush_dbc_exp; assumption.
Qed.

(* ---------- the former defect (repaired in f879cdb): a deleted column attribute persists as NULL ---------- *)
Theorem flush_after_del_persists_null :
  let s := fst (run KList [DelX] (init OLoaded 5 1 [1; 2])) in
  wf s /\ hist_x s = ([], [], [5]) /\ snd (flush s) = Done (RDb 0 1 [1; 2]).
Proof. split; [apply run_wf, init_wf|]. vm_compute. auto. Qed.

(* ---------- the remaining defect ---------- *)

Theorem flush_after_coll_del_keeps_rows :
  let s := fst (run KList [CDel] (init OLoaded 5 1 [1; 2])) in
  wf s /\ snd (c_get s) = Done (RColl None) /\ exp_c s = [] /\ hist_c s = blank /\
  snd (flush s) = Done (RDb 5 1 [1; 2]).
Proof. split; [apply run_wf, init_wf|]. vm_compute. auto. Qed.
