(* C33 - the whole invariant and its preservation by the object operations. *)
From Coq Require Import List ZArith Bool Arith Lia.
Import ListNotations.
From SAV.orm Require Import SessTxn SessTxnBase SessTxnSpec SessTxnInv SessTxnOps SessTxnShift SessTxnDbInv.
Open Scope nat_scope.

Record Core (st : sess) (gs : list ghost) : Prop := mkCore {
  c_good : GoodS st;
  c_j : J (objs st) (nobj st);
  c_db : DbOk st gs;
  c_chain : Chain st gs;
  c_empty : stack st = [] -> is_clean st = true
}.
Definition Inv (st : sess) : Prop := exists gs, Core st gs.

Lemma is_clean_spec : forall st, is_clean st = true <->
  (snew st = [] /\ sdel st = [] /\ forall o, o < nobj st -> oin (objs st o) = true -> omod (objs st o) = false).
Proof.
  intros st. unfold is_clean, any_modified. split.
  - intros H. apply andb_prop in H. destruct H as [H H3]. apply andb_prop in H. destruct H as [H1 H2].
    split; [destruct (snew st); [auto|discriminate]|]. split; [destruct (sdel st); [auto|discriminate]|].
    intros o Ho Hi. apply negb_true_iff in H1.
    destruct (omod (objs st o)) eqn:E; auto.
    assert (X : existsb (fun o => oin (objs st o) && omod (objs st o)) (all_objs st) = true).
    { apply existsb_exists. exists o. split; [apply in_seq; cbn; lia|]. rewrite Hi, E. reflexivity. }
    congruence.
  - intros [H1 [H2 H3]]. rewrite H1, H2. cbn. rewrite !andb_true_r. apply negb_true_iff.
    destruct (existsb _ _) eqn:E; auto. apply existsb_exists in E. destruct E as [o [Ho E]].
    apply in_seq in Ho. apply andb_prop in E. destruct E as [E1 E2].
    assert (X : omod (objs st o) = false) by (apply H3; auto; lia). congruence.
Qed.

(* the snapshot of a clean state *)
Lemma ghost_of_clean : forall st, GoodS st -> is_clean st = true -> GClean (ghost_of st).
Proof.
  intros st G Hc. apply is_clean_spec in Hc. destruct Hc as [H1 [H2 H3]].
  unfold GClean, ghost_of. cbn. split.
  - unfold GoodS in G. rewrite H1, H2 in G. exact G.
  - intros o Ho. apply H3; auto. destruct (g_in _ _ _ _ _ G o Ho). auto.
Qed.

Lemma autobegin_core : forall st gs, Core st gs ->
  exists gs', Core (autobegin st) gs' /\ (stack st <> [] -> gs' = gs /\ autobegin st = st) /\
    (stack st = [] -> exists f, stack (autobegin st) = [f] /\ fstate f = ACTIVE /\ gs' = [ghost_of st]).
Proof.
  intros st gs C. unfold autobegin. destruct (stack st) as [|f0 r0] eqn:Es.
  2:{ exists gs. split; [exact C|]. split; [auto|intros X; discriminate]. }
  destruct C as [G Jh D Ch Em]. specialize (Em Es).
  exists [ghost_of st]. split; [|split; [intros X; congruence|intros _; eexists; split; [reflexivity|split; reflexivity]]].
  destruct D as [D1 D2 D4 D5]. rewrite Es in *.
  assert (GC : GClean (ghost_of st)) by (apply ghost_of_clean; auto).
  constructor; auto.
  - constructor; cbn.
    + repeat split; auto; try lia; try (intros X; congruence); try (intros f' []);
        try (intros X; exfalso; apply X; reflexivity).
    + left. reflexivity.
    + intros _. apply D4. intros f' [].
    + destruct D5 as [A B]. split; [|cbn; split; auto].
      cbn. destruct gs; cbn in A; exact A.
  - unfold Chain. cbn. split; auto. split; [|destruct gs; exact I].
    apply is_clean_spec in Em. destruct Em as [H1 [H2 _]]. rewrite H1, H2.
    apply Rel_fresh; auto.
Qed.

(* ------------------------------------------------------------------ changes that leave stack and database alone *)
Definition same_sd (st st' : sess) : Prop :=
  stack st' = stack st /\ nfid st' = nfid st /\ saves st' = saves st /\ work st' = work st /\ committed st' = committed st.

Lemma Core_update : forall st st' gs, Core st gs -> same_sd st st' ->
  GoodS st' -> J (objs st') (nobj st') ->
  (forall g f rest gs', stack st = f :: rest -> gs = g :: gs' -> fstate f = ACTIVE ->
     Rel g f (objs st) (nobj st) (snew st) (sdel st) (work st) ->
     Rel g f (objs st') (nobj st') (snew st') (sdel st') (work st)) ->
  (forall f rest, stack st = f :: rest -> fstate f <> ACTIVE ->
     objs st' = objs st /\ nobj st' = nobj st /\ snew st' = snew st /\ sdel st' = sdel st) ->
  (stack st = [] -> is_clean st' = true) ->
  Core st' gs.
Proof.
  intros st st' gs C [S1 [S2 [S3 [S4 S5]]]] G' J' HR HD HE. destruct C as [G Jh D Ch Em].
  constructor; auto.
  - eapply DbOk_ext; [rewrite S1; reflexivity|exact S2|exact S3|exact S4|exact S5|exact D].
  - unfold Chain in *. rewrite S1. destruct (stack st) as [|f rest] eqn:Es; [exact Ch|].
    destruct gs as [|g gs']; [exact Ch|]. destruct Ch as [C1 [C2 C3]]. split; auto. split; auto.
    destruct (fstate f) eqn:Ef.
    + rewrite S4. eapply HR; eauto.
    + destruct (HD f rest eq_refl) as [A [B [C D']]]; [congruence|]. rewrite A, B, C, D', S4. exact C2.
    + destruct (HD f rest eq_refl) as [A [B [C D']]]; [congruence|]. rewrite A, B, C, D', S4. exact C2.
    + destruct (HD f rest eq_refl) as [A [B [C D']]]; [congruence|]. rewrite A, B, C, D', S4. exact C2.
    + destruct (HD f rest eq_refl) as [A [B [C D']]]; [congruence|]. rewrite A, B, C, D', S4. exact C2.
  - rewrite S1. exact HE.
Qed.

(* the head frame is ACTIVE and the chain gives its relation *)
Lemma Core_head : forall st gs f rest, Core st gs -> stack st = f :: rest -> fstate f = ACTIVE ->
  exists g gs', gs = g :: gs' /\ GClean g /\ Rel g f (objs st) (nobj st) (snew st) (sdel st) (work st).
Proof.
  intros st gs f rest C Hs Hf. destruct C as [_ _ _ Ch _]. unfold Chain in Ch. rewrite Hs in Ch.
  destruct gs as [|g gs']; [contradiction|]. destruct Ch as [A [B _]]. rewrite Hf in B. eauto.
Qed.

(* ------------------------------------------------------------------ object operations *)
Lemma head_usable_active : forall st f rest, head_usable st = true -> stack st = f :: rest -> fstate f = ACTIVE.
Proof.
  intros st f rest H Hs. unfold head_usable in H. rewrite Hs in H. destruct (fstate f); cbn in H; try discriminate; reflexivity.
Qed.

(* a new transient object *)
Lemma core_new_transient : forall st gs pk v, Core st gs -> head_usable st = true ->
  Core (set_nobj (set_obj st (nobj st) (new_obj pk v)) (S (nobj st))) gs.
Proof.
  intros st gs pk v C Hu. pose proof C as C0. destruct C as [G Jh D Ch Em].
  remember (nobj st) as n eqn:En.
  assert (U : forall x, x <> n -> updN (objs st) n (new_obj pk v) x = objs st x) by (intros; apply updN_other; auto).
  assert (Un : updN (objs st) n (new_obj pk v) n = new_obj pk v) by apply updN_same.
  assert (Hout : oin (objs st n) = false).
  { destruct (oin (objs st n)) eqn:E; auto. destruct (g_in _ _ _ _ _ G n E). lia. }
  eapply Core_update; eauto.
  - repeat split; reflexivity.
  - (* Good *)
    unfold GoodS. cbn [objs nobj work snew sdel set_nobj set_obj set_objs]. rewrite <- ?En.
    destruct G as [g1 g2 g3 g4 g5 g5' g6 g6' g7 g8]. constructor.
    + intros o H. destruct (Nat.eqb_spec o n); [subst o; rewrite Un in H; discriminate|]. rewrite U in * by auto.
      destruct (g1 o H) as [A B]. split; [lia|auto].
    + intros o1 o2 k H1 H2 K1 K2. destruct (Nat.eqb_spec o1 n); [subst o1; rewrite Un in H1; discriminate|].
      destruct (Nat.eqb_spec o2 n); [subst o2; rewrite Un in H2; discriminate|]. rewrite U in * by auto. eauto.
    + intros o k Hn Hk Ha Hd. destruct (Nat.eqb_spec o n); [subst o; rewrite Un in Hk; discriminate|].
      rewrite U in * by auto. apply (g3 o k); auto. lia.
    + intros o k H Hk. destruct (Nat.eqb_spec o n); [subst o; rewrite Un in H; discriminate|]. rewrite U in * by auto. eauto.
    + intros o. destruct (Nat.eqb_spec o n).
      * subst o. rewrite Un. split.
        -- intros H. apply g5 in H. lia.
        -- intros [_ [_ H]]. discriminate.
      * rewrite U by auto. rewrite g5. split; intros [A B]; split; auto; lia.
    + intros o Ho Hk. destruct (Nat.eqb_spec o n); [subst o; rewrite Un; reflexivity|]. rewrite U in * by auto. apply g5'; auto; lia.
    + intros o H. destruct (Nat.eqb_spec o n); [subst o; apply g6 in H; congruence|]. rewrite U by auto. auto.
    + exact g6'.
    + intros o k Hn Hk Ha Hd. destruct (Nat.eqb_spec o n); [subst o; rewrite Un in Hk; discriminate|]. rewrite U in * by auto.
      destruct (g7 o k) as [X|[o' [X Y]]]; auto; [lia|]. right. exists o'.
      destruct (Nat.eqb_spec o' n); [subst o'; congruence|]. rewrite U by auto. auto.
    + intros o Hn Hk Ha Hd. destruct (Nat.eqb_spec o n); [subst o; rewrite Un in Ha; discriminate|]. rewrite U in * by auto.
      apply g8; auto. lia.
  - cbn [objs nobj set_nobj set_obj set_objs]. rewrite <- ?En. intros o Ho.
    destruct (Nat.eqb_spec o n); [subst o; rewrite Un; cbn; repeat split; intros; congruence|]. rewrite U by auto. apply Jh. lia.
  - (* the frame *)
    intros g f rest gs' Hs Hg Hf R. cbn [objs nobj snew sdel set_nobj set_obj set_objs]. rewrite <- ?En.
    destruct R as [r1 r2 r3 r4 r5 r6 r7 r8 r9 r9' r10 r11].
    assert (Hlt : forall o, o < gn g -> o <> n) by (intros; lia).
    constructor; auto.
    + lia.
    + intros o Ho He. destruct (r3 o Ho He) as [A B]. unfold pkey, pdelf in *. rewrite U by (apply Hlt; auto). auto.
    + intros o H1 H2. destruct (Nat.eqb_spec o n); [subst o; rewrite Un; right; auto|]. rewrite U by auto. apply r4; auto. lia.
    + intros o k v0 Ho. rewrite U by (apply Hlt; auto). apply r6; auto.
    + intros o old nw H. destruct (r7 o old nw H) as [A [B [C E]]]. rewrite U by lia. repeat split; auto; lia.
    + intros o H. destruct (r8 o H) as [A B]. rewrite U by lia. split; [lia|auto].
    + intros o H. specialize (r9 o H). lia.
    + intros o Ho. rewrite U by (apply Hlt; auto). apply r11; auto.
  - intros f rest Hs Hne. exfalso. apply Hne. eapply head_usable_active; eauto.
  - intros Hs. specialize (Em Hs). apply is_clean_spec in Em. destruct Em as [E1 [E2 E3]].
    apply is_clean_spec. cbn [objs nobj snew sdel set_nobj set_obj set_objs]. rewrite <- ?En. repeat split; auto.
    intros o Ho Hi. destruct (Nat.eqb_spec o n); [subst o; rewrite Un in Hi; discriminate|]. rewrite U in * by auto.
    apply E3; auto. lia.
Qed.

Lemma NoDup_snoc : forall (l : list nat) o, NoDup l -> ~ In o l -> NoDup (l ++ [o]).
Proof.
  induction l as [|a l IH]; intros o H Hn; cbn.
  - constructor; auto.
  - inversion H; subst. constructor.
    + intros X. apply in_app_or in X. destruct X as [X|[X|[]]]; [contradiction|subst; apply Hn; left; auto].
    + apply IH; auto. intros X; apply Hn; right; auto.
Qed.

(* a transient object becomes pending *)
Lemma core_make_pending : forall st gs o f rest, Core st gs -> stack st = f :: rest -> fstate f = ACTIVE ->
  o < nobj st -> okey (objs st o) = None -> oatt (objs st o) = false -> odelf (objs st o) = false ->
  Core (mod_obj (set_snew st (snew st ++ [o])) o (fun ob => o_att ob true)) gs.
Proof.
  intros st gs o f rest C Hs Hf Ho Hk Ha Hd. pose proof C as C0. destruct C as [G Jh D Ch Em].
  set (ob' := updN (objs st) o (o_att (objs st o) true)).
  assert (U : forall x, x <> o -> ob' x = objs st x) by (intros; apply updN_other; auto).
  assert (Uo : ob' o = o_att (objs st o) true) by apply updN_same.
  assert (Hnin : ~ In o (snew st)). { intros X. apply (g_new _ _ _ _ _ G) in X. destruct X as [_ [_ X]]. congruence. }
  assert (Hoin : oin (objs st o) = false).
  { destruct (oin (objs st o)) eqn:E; auto. destruct (g_in _ _ _ _ _ G o E) as [_ [_ [_ X]]]. congruence. }
  assert (Hid : forall x, okey (ob' x) = okey (objs st x) /\ odelf (ob' x) = odelf (objs st x) /\ oin (ob' x) = oin (objs st x) /\
                          (x <> o -> oatt (ob' x) = oatt (objs st x)) /\ oatt (ob' o) = true /\
                          odid (ob' x) = odid (objs st x) /\ odv (ob' x) = odv (objs st x) /\ omod (ob' x) = omod (objs st x) /\
                          ocid (ob' x) = ocid (objs st x) /\ ocv (ob' x) = ocv (objs st x)).
  { intros x. destruct (Nat.eqb_spec x o).
    - subst. rewrite Uo. cbn. repeat split; auto. intros X; congruence.
    - rewrite U by auto. rewrite Uo. repeat split; auto. }
  eapply Core_update; eauto.
  - repeat split; reflexivity.
  - unfold GoodS. cbn [objs nobj work snew sdel mod_obj set_obj set_objs set_snew]. fold ob'.
    destruct G as [g1 g2 g3 g4 g5 g5' g6 g6' g7 g8]. constructor.
    + intros x H. destruct (Hid x) as [A [B [C [E [F _]]]]]. rewrite C in H. rewrite A, B.
      destruct (g1 x H) as [X1 [X2 [X3 X4]]]. repeat split; auto.
      destruct (Nat.eqb_spec x o); [subst; auto|]. rewrite E; auto.
    + intros x1 x2 k H1 H2 K1 K2. destruct (Hid x1) as [A1 [_ [C1 _]]]. destruct (Hid x2) as [A2 [_ [C2 _]]].
      rewrite C1 in H1. rewrite C2 in H2. rewrite A1 in K1. rewrite A2 in K2. eauto.
    + intros x k Hn Hkx Hax Hdx. destruct (Hid x) as [A [B [C [E _]]]]. rewrite A in Hkx. rewrite B in Hdx. rewrite C.
      destruct (Nat.eqb_spec x o); [subst; congruence|]. rewrite E in Hax by auto. eauto.
    + intros x k H Hkx. destruct (Hid x) as [A [B [C [E [F [V1 [V2 [V3 [V4 V5]]]]]]]]]. rewrite C in H. rewrite A in Hkx.
      destruct (g4 x k H Hkx) as [v [X Y]]. exists v. split; auto. unfold VA in *. rewrite V1, V2, V3, V4, V5. exact Y.
    + intros x. rewrite in_app_iff. destruct (Hid x) as [A [_ [_ [E [F _]]]]]. rewrite A.
      destruct (Nat.eqb_spec x o).
      * subst. rewrite F. split; [intros _; auto|intros _; right; left; auto].
      * rewrite E by auto. rewrite g5. split; [intros [X|[X|[]]]; [auto|congruence]|intros X; left; auto].
    + intros x Hx Hkx. destruct (Hid x) as [A [B _]]. rewrite B. rewrite A in Hkx. auto.
    + intros x Hx. destruct (Hid x) as [_ [_ [C _]]]. rewrite C. auto.
    + destruct g6' as [N1 N2]. split; auto. apply NoDup_snoc; auto.
    + intros x k Hn Hkx Hax Hdx. destruct (Hid x) as [A [B [C [E _]]]]. rewrite A in Hkx. rewrite B in Hdx.
      destruct (Nat.eqb_spec x o); [subst; congruence|]. rewrite E in Hax by auto.
      destruct (g7 x k Hn Hkx Hax Hdx) as [X|[x' [X Y]]]; auto. right. exists x'.
      destruct (Hid x') as [A' [_ [C' _]]]. rewrite A', C'. auto.
    + intros x Hn Hkx Hax Hdx. destruct (Hid x) as [A [B [C [E [F [V1 [V2 _]]]]]]]. rewrite A in Hkx. rewrite B in Hdx. rewrite V1, V2.
      destruct (Nat.eqb_spec x o); [subst; congruence|]. rewrite E in Hax by auto. auto.
  - cbn [objs nobj mod_obj set_obj set_objs set_snew]. fold ob'. intros x Hx.
    destruct (Hid x) as [_ [_ [_ [_ [_ [V1 [V2 [V3 [V4 V5]]]]]]]]]. rewrite V1, V2, V3, V4, V5. apply Jh; auto.
  - intros g f' rest' gs' Hs' Hg Hf' R. cbn [objs nobj snew sdel mod_obj set_obj set_objs set_snew]. fold ob'.
    assert (Hex : forall x, expunged f' (snew st ++ [o]) x = expunged f' (snew st) x || Nat.eqb x o).
    { intros x. unfold expunged. rewrite mem_app. cbn. rewrite orb_false_r. rewrite orb_assoc. reflexivity. }
    destruct R as [r1 r2 r3 r4 r5 r6 r7 r8 r9 r9' r10 r11].
    assert (Hsig : o < gn g -> oatt (gobjs g o) = false).
    { intros Hg'. destruct (expunged f' (snew st) o) eqn:E; [apply r2; auto|]. destruct (r3 o Hg' E) as [A _]. congruence. }
    constructor; auto.
    + intros x Hx He. rewrite Hex in He. destruct (Nat.eqb_spec x o); [subst; auto|]. rewrite orb_false_r in He. auto.
    + intros x Hx He. rewrite Hex in He. apply orb_false_elim in He. destruct He as [He Hne]. apply Nat.eqb_neq in Hne.
      destruct (r3 x Hx He) as [A B]. unfold pkey, pdelf in *. rewrite U by auto. auto.
    + intros x H1 H2. rewrite Hex. destruct (Nat.eqb_spec x o); [left; apply orb_true_r|]. rewrite orb_false_r, U by auto. auto.
    + intros x k Hx He. rewrite Hex in He. apply orb_false_elim in He. destruct He as [He Hne]. apply Nat.eqb_neq in Hne. eauto.
    + intros x k v Hx He. rewrite Hex in He. apply orb_false_elim in He. destruct He as [He Hne]. apply Nat.eqb_neq in Hne.
      rewrite U by auto. eauto.
    + intros x old nw H. destruct (r7 x old nw H) as [A [B [C E]]]. destruct (Nat.eqb_spec x o); [subst; congruence|]. rewrite U by auto. auto.
    + intros x H. destruct (r8 x H) as [A [B [C [E F]]]]. destruct (Nat.eqb_spec x o); [subst; congruence|]. rewrite U by auto. auto.
    + intros x Hx Hax Hix Hm. destruct (Nat.eqb_spec x o); [subst; rewrite (Hsig Hx) in Hax; discriminate|]. rewrite U in * by auto. auto.
  - intros f' rest' Hs' Hne. rewrite Hs in Hs'. inversion Hs'; subst. congruence.
  - intros X. congruence.
Qed.
