(* C31 - basic lemmas: the action numbering, membership in the final dependency set / item set of the
   model, layers of the topological sort *)
From Coq Require Import List NArith Bool Lia Permutation Arith.
Import ListNotations.
From SAV.util Require Import Topo Cycles TopoRun TopoProofs TopoCycle TopoExtra CyclesSound CyclesComplete CyclesExact.
From SAV.orm Require Import FlushOrder FlushOrderSpec.
Local Open Scope N_scope.

(* ---------------------------------------------------------------- small list facts *)
Lemma In_dedup x l : In x (dedup l) <-> In x l.
Proof. induction l as [|a l IH]; simpl; [tauto|]. destruct (memb a (dedup l)) eqn:M.
  - apply memb_In in M. split; [intros H; right; apply IH, H|]. intros [->|H]; [exact M|apply IH, H].
  - simpl. rewrite IH. tauto. Qed.

Lemma NoDup_dedup l : NoDup (dedup l).
Proof. induction l as [|a l IH]; simpl; [constructor|]. destruct (memb a (dedup l)) eqn:M; [exact IH|].
  constructor; [apply memb_false; exact M|exact IH]. Qed.

(* ---------------------------------------------------------------- the numbering *)
Lemma b2n_inj a b : b2n a = b2n b -> a = b.
Proof. destruct a, b; simpl; intros H; try reflexivity; discriminate. Qed.
Lemma b2n_le b : b2n b <= 1.
Proof. destruct b; simpl; lia. Qed.

Definition coarse (a : action) : bool :=
  match a with SaveAll _ | DelAll _ | ProcAll _ _ => true | _ => false end.

Ltac bcases := repeat match goal with b : bool |- _ => destruct b end; unfold b2n, K in *.

Lemma code_SaveAll m a : code a = code (SaveAll m) -> a = SaveAll m.
Proof. destruct a; unfold code; intros H; bcases; try lia. f_equal; lia. Qed.
Lemma code_DelAll m a : code a = code (DelAll m) -> a = DelAll m.
Proof. destruct a; unfold code; intros H; bcases; try lia. f_equal; lia. Qed.
Lemma code_ProcAll d b a : code a = code (ProcAll d b) -> a = ProcAll d b.
Proof. destruct a; unfold code; intros H; bcases; try lia; f_equal; lia. Qed.
Lemma code_PostAll m b a : code a = code (PostAll m b) -> a = PostAll m b.
Proof. destruct a; unfold code; intros H; bcases; try lia; f_equal; lia. Qed.
Lemma code_SaveSt s a : code a = code (SaveSt s) -> a = SaveSt s.
Proof. destruct a; unfold code; intros H; bcases; try lia. f_equal; lia. Qed.
Lemma code_DelSt s a : code a = code (DelSt s) -> a = DelSt s.
Proof. destruct a; unfold code; intros H; bcases; try lia. f_equal; lia. Qed.

Lemma amemb_In a l : In a l -> amemb a l = true.
Proof. intros H. unfold amemb. apply memb_In. apply in_map. exact H. Qed.
Lemma amemb_true a l : amemb a l = true -> exists b, In b l /\ code b = code a.
Proof. unfold amemb. intros H. apply memb_In in H. apply in_map_iff in H. destruct H as [b [H1 H2]].
  exists b. split; assumption. Qed.


Lemma mod7 q r : r < 7 -> (7 * q + r) mod 7 = r.
Proof. intros H. rewrite N.add_comm, N.mul_comm. rewrite N.mod_add by lia. apply N.mod_small. exact H. Qed.

Lemma shape_fine cy a : cyc_shape cy = true -> incyc cy a = true -> coarse a = true.
Proof. intros Hs Hi. unfold incyc in Hi. apply memb_In in Hi. unfold cyc_shape in Hs.
  rewrite forallb_forall in Hs. specialize (Hs _ Hi). apply N.ltb_lt in Hs.
  destruct a; unfold code in Hs; try reflexivity; rewrite mod7 in Hs by lia; lia. Qed.

Lemma shape_SaveSt cy s : cyc_shape cy = true -> incyc cy (SaveSt s) = false.
Proof. intros H. destruct (incyc cy (SaveSt s)) eqn:E; [|reflexivity]. apply (shape_fine _ _ H) in E. discriminate. Qed.
Lemma shape_DelSt cy s : cyc_shape cy = true -> incyc cy (DelSt s) = false.
Proof. intros H. destruct (incyc cy (DelSt s)) eqn:E; [|reflexivity]. apply (shape_fine _ _ H) in E. discriminate. Qed.
Lemma shape_PostAll cy m b : cyc_shape cy = true -> incyc cy (PostAll m b) = false.
Proof. intros H. destruct (incyc cy (PostAll m b)) eqn:E; [|reflexivity]. apply (shape_fine _ _ H) in E. discriminate. Qed.
Lemma shape_ProcSt cy d b s : cyc_shape cy = true -> incyc cy (ProcSt d b s) = false.
Proof. intros H. destruct (incyc cy (ProcSt d b s)) eqn:E; [|reflexivity]. apply (shape_fine _ _ H) in E. discriminate. Qed.

(* ---------------------------------------------------------------- disabled records *)
Lemma disabled_is_ProcAll g cy a : amemb a (disabled g cy) = true -> exists d b, a = ProcAll d b.
Proof. intros H. apply amemb_true in H. destruct H as [b [H1 H2]]. unfold disabled in H1.
  apply in_flat_map in H1. destruct H1 as [c [_ H1]].
  destruct c; simpl in H1; try contradiction; apply in_map_iff in H1; destruct H1 as [d [<- _]];
    symmetry in H2; apply code_ProcAll in H2; eauto. Qed.

Lemma not_disabled g cy a : (forall d b, a <> ProcAll d b) -> amemb a (disabled g cy) = false.
Proof. intros H. destruct (amemb a (disabled g cy)) eqn:E; [|reflexivity].
  apply disabled_is_ProcAll in E. destruct E as [d [b ->]]. exfalso. eapply H. reflexivity. Qed.

(* ---------------------------------------------------------------- final edges *)
Definition FE T g cy := final_edges T g cy.
Definition FI g cy := final_items g cy.

Lemma FE_intro T g cy e x : In e (all_edges T g cy) -> In x (rewrite1 g cy (disabled g cy) e) -> In x (final_edges T g cy).
Proof. intros H1 H2. unfold final_edges. apply in_flat_map. exists e. split; assumption. Qed.

Definition clean g cy a := amemb a (disabled g cy) = false.

Lemma rw_keep g cy a b : clean g cy a -> clean g cy b -> incyc cy a = false -> incyc cy b = false ->
  In (a, b) (rewrite1 g cy (disabled g cy) (Some a, Some b)).
Proof. unfold clean, rewrite1. intros H1 H2 H3 H4. rewrite H1, H2, H3, H4. simpl. left. reflexivity. Qed.
Lemma rw_left g cy a b x : clean g cy a -> clean g cy b -> incyc cy a = true -> incyc cy b = false ->
  In x (convert g a) -> In (x, b) (rewrite1 g cy (disabled g cy) (Some a, Some b)).
Proof. unfold clean, rewrite1. intros H1 H2 H3 H4 H. rewrite H1, H2, H3, H4. simpl. apply in_map_iff. exists x. split; [reflexivity|exact H]. Qed.
Lemma rw_right g cy a b x : clean g cy a -> clean g cy b -> incyc cy a = false -> incyc cy b = true ->
  In x (convert g b) -> In (a, x) (rewrite1 g cy (disabled g cy) (Some a, Some b)).
Proof. unfold clean, rewrite1. intros H1 H2 H3 H4 H. rewrite H1, H2, H3, H4. simpl. apply in_map_iff. exists x. split; [reflexivity|exact H]. Qed.

Lemma all_edges_0 T g cy a b : In (a, b) (edges0 T g) -> In (Some a, Some b) (all_edges T g cy).
Proof. intros H. unfold all_edges. apply in_or_app. left. apply in_map_iff. exists (a, b). split; [reflexivity|exact H]. Qed.
Lemma all_edges_x T g cy c e : In c (actions0 g) -> incyc cy c = true -> In e (expand_edges T g cy c) ->
  In e (all_edges T g cy).
Proof. intros H1 H2 H3. unfold all_edges. apply in_or_app. right. apply in_flat_map. exists c. split; [|exact H3].
  unfold cyc_actions. apply filter_In. split; assumption. Qed.

(* an edge of a dependency processor's per-property table *)
Lemma edges0_dep T g d r1 r2 : In d (g_deps g) -> d_active d = true ->
  In (r1, r2) (prop_edges T (d_kind d) (d_post d)) -> In (role_act d r1, role_act d r2) (edges0 T g).
Proof. intros Hd Ha Hr. unfold edges0. apply in_or_app. right. apply in_flat_map. exists d. split.
  - unfold active. apply filter_In. split; assumption.
  - unfold dep_edges0. apply in_map_iff. exists (r1, r2). split; [reflexivity|exact Hr]. Qed.

Lemma actions0_dep g d a : In d (g_deps g) -> d_active d = true -> In a (dep_actions0 d) -> In a (actions0 g).
Proof. intros Hd Ha H. unfold actions0. apply in_or_app. right. apply in_flat_map. exists d. split; [|exact H].
  unfold active. apply filter_In. split; assumption. Qed.

(* ---------------------------------------------------------------- final items *)
Lemma FI_0 g cy a : In a (actions0 g) -> clean g cy a -> incyc cy a = false -> In a (final_items g cy).
Proof. intros H1 H2 H3. unfold final_items. apply filter_In. split; [apply in_or_app; left; exact H1|].
  unfold clean in H2. rewrite H2, H3. reflexivity. Qed.
Lemma FI_x g cy c a : In c (actions0 g) -> incyc cy c = true -> In a (expand_acts g cy c) ->
  clean g cy a -> incyc cy a = false -> In a (final_items g cy).
Proof. intros H0 H1 H2 H3 H4. unfold final_items. apply filter_In. split.
  - apply in_or_app; right. apply in_flat_map. exists c. split; [|exact H2]. unfold cyc_actions. apply filter_In. split; assumption.
  - unfold clean in H3. rewrite H3, H4. reflexivity. Qed.

(* ---------------------------------------------------------------- layers *)
Lemma lidx_notin r n : ~ In n (concat r) -> lidx r n = None.
Proof. induction r as [|l r IH]; simpl; intros H; [reflexivity|].
  destruct (memb n l) eqn:M; [exfalso; apply H, in_or_app; left; apply memb_In, M|].
  rewrite IH; [reflexivity|]. intros Hc. apply H, in_or_app. right. exact Hc. Qed.

Lemma lidx_in r n : In n (concat r) -> exists k, lidx r n = Some k.
Proof. induction r as [|l r IH]; simpl; intros H; [contradiction|].
  destruct (memb n l) eqn:M; [eauto|]. apply in_app_or in H. destruct H as [H|H]; [apply memb_In in H; congruence|].
  destruct (IH H) as [k ->]. eauto. Qed.

Lemma nodup_app_disj {A} (l r : list A) x : NoDup (l ++ r) -> In x l -> In x r -> False.
Proof. induction l as [|a l IH]; simpl; intros Hn Hl Hr; [contradiction|]. inversion Hn; subst.
  destruct Hl as [->|Hl]; [apply H1, in_or_app; right; exact Hr|apply IH; assumption]. Qed.

Lemma nodup_app_r {A} (l r : list A) : NoDup (l ++ r) -> NoDup r.
Proof. induction l as [|a l IH]; simpl; intros H; [exact H|]. inversion H; subst. apply IH. assumption. Qed.

(* strict layer order as an inequality of layer indices *)
Lemma earlier_lidx r p c : NoDup (concat r) -> earlier r p c ->
  exists i j, lidx r p = Some i /\ lidx r c = Some j /\ (i < j)%nat.
Proof.
  intros Hn [r1 [L [r2 [-> [Hc Hp]]]]]. revert Hn Hp. induction r1 as [|l r1 IH]; simpl; intros Hn Hp; [contradiction|].
  assert (Hcr : In c (concat (r1 ++ L :: r2))).
  { rewrite concat_app. simpl. apply in_or_app. right. apply in_or_app. left. exact Hc. }
  assert (Mc : memb c l = false).
  { apply memb_false. intros Hcl. exact (nodup_app_disj _ _ _ Hn Hcl Hcr). }
  rewrite Mc. apply in_app_or in Hp. destruct Hp as [Hp|Hp].
  - assert (Mp : memb p l = true) by (apply memb_In; exact Hp). rewrite Mp.
    destruct (lidx_in _ _ Hcr) as [k Hk]. rewrite Hk. exists O, (S k). repeat split; lia.
  - assert (Hn2 : NoDup (concat (r1 ++ L :: r2))) by (eapply nodup_app_r; exact Hn).
    destruct (IH Hn2 Hp) as [i [j [H1 [H2 H3]]]].
    assert (Mp : memb p l = false).
    { apply memb_false. intros Hpl. apply (nodup_app_disj _ _ _ Hn Hpl).
      rewrite concat_app. apply in_or_app. left. exact Hp. }
    rewrite Mp, H1, H2. exists (S i), (S j). repeat split; lia.
Qed.
