(* C35 - _restore_snapshot under its guard *)
From Coq Require Import List ZArith Bool Arith Lia.
Import ListNotations.
From SAV.orm Require Import Lifecycle LifecycleSpec LifecycleLemmas LifecycleInv.
Open Scope Z_scope.

Definition rokb (o : obj) : bool :=
  implb (itnew o || inew o) (osess o && negb (odel o)) && implb (itdel o || isdel o) (okey o && osess o && odel o).
Definition postb (o : obj) : bool := objinvb (Some true) o && negb (isdel o).
Definition extrab (o : obj) : bool := implb (itdel o || isdel o) (okey o && osess o && odel o).

Lemma restore_ok_SP : forall st, restore_ok st = true -> SP (fun _ => rokb) st.
Proof. intros st H k o Hk. unfold restore_ok in H. rewrite forallb_forall in H.
  apply H. eapply nth_error_In; eauto. Qed.

Lemma SP_and : forall (p q : nat -> obj -> bool) st, SP p st -> SP q st -> SP (fun k o => p k o && q k o) st.
Proof. intros p q st H1 H2 k o Hk. rewrite (H1 k o Hk), (H2 k o Hk). reflexivity. Qed.

Lemma restore_pass1_ok : forall o, objinvb (Some true) o && rokb o = true ->
  postb (fst (restore_expunge_obj true o)) && extrab (fst (restore_expunge_obj true o)) = true /\
  wfob (snd (restore_expunge_obj true o)) = true.
Proof. obj_cases. Qed.

Lemma autobegin_some : forall st b, tx st = Some b -> autobegin st = st.
Proof. intros. unfold autobegin. rewrite H. reflexivity. Qed.

Lemma revert_step_ok : forall (b m : bool) kz o,
  postb o && (if b || m then extrab o else true) && (if b then itdel o || isdel o else true) = true ->
  let f := if b then revert_obj o else if iimap o && Z.eqb (pk o) kz then (set_iimap false o, []) else (o, []) in
  postb (fst f) && (if negb b && m then extrab (fst f) else true) = true /\ wfob (snd f) = true.
Proof. intros b m kz o. destruct b, m; destruct (Z.eqb (pk o) kz); obj_cases. Qed.

Lemma get_out_of_range : forall st i, (length (objs st) <= i)%nat -> get st i = dflt.
Proof. intros. unfold get. apply nth_overflow. auto. Qed.

Definition revF (i : nat) (st : state) : state * Z :=
  if itdel (get st i) || isdel (get st i) then revert_impl i st else (st, 0).

Lemma revert_fold : forall l st,
  tx st = Some true -> NoDup l ->
  SP (fun k o => postb o && (if memn k l then extrab o else true)) st -> wf (slog st) ->
  SP (fun _ => postb) (fst (fold_err revF l st)) /\ wf (slog (fst (fold_err revF l st))) /\
  tx (fst (fold_err revF l st)) = Some true.
Proof.
  induction l as [|i r IH]; intros st Htx Hnd HP Hw; simpl.
  - split; [|auto]. eapply SP_weaken; [exact HP|]. intros k o H. simpl in H. rewrite andb_true_r in H. exact H.
  - inversion Hnd as [|? ? Hni Hnd']; subst.
    assert (Hnotin : forall k, memn k r = true -> Nat.eqb k i = false).
    { intros k Hk. destruct (Nat.eqb_spec k i); auto. subst. exfalso. apply Hni.
      unfold memn in Hk. apply existsb_exists in Hk as [x [Hx Hx2]]. apply Nat.eqb_eq in Hx2. subst. auto. }
    destruct (itdel (get st i) || isdel (get st i)) eqn:Efl.
    + (* the state is flagged: revert it *)
      assert (Hi : (i < length (objs st))%nat).
      { destruct (Nat.ltb_spec i (length (objs st))) as [|H]; [assumption|]. exfalso.
        rewrite (get_out_of_range st i H) in Efl. discriminate. }
      pose proof (SP_elim _ st i HP Hi) as Hpi. simpl in Hpi. rewrite Nat.eqb_refl in Hpi. simpl in Hpi.
      assert (Hk : okey (get st i) = true /\ osess (get st i) = true /\ odel (get st i) = true).
      { revert Hpi Efl. unfold postb, extrab. generalize (get st i). obj_cases. }
      destruct Hk as [K1 [K2 K3]].
      set (f := replacing i (pk (get st i)) revert_obj).
      assert (Hrev : revF i st = (app_all f st, 0)).
      { unfold revF. rewrite Efl. unfold revert_impl. rewrite K1, K2, K3. simpl.
        rewrite (autobegin_some st true Htx). reflexivity. }
      rewrite Hrev. replace (Z.eqb 0 0) with true by reflexivity.
      assert (HP2 : SP (fun k o => postb o && (if Nat.eqb k i || memn k r then extrab o else true) &&
                                   (if Nat.eqb k i then itdel o || isdel o else true)) st).
      { apply (SP_get (fun k o => postb o && (if Nat.eqb k i || memn k r then extrab o else true))
                      (fun o => itdel o || isdel o)); auto. }
      destruct (pass_spec _ (fun k o => postb o && (if negb (Nat.eqb k i) && memn k r then extrab o else true)) f st HP2) as [A B].
      { intros k o Hp. unfold f, replacing. apply (revert_step_ok (Nat.eqb k i) (memn k r)). exact Hp. }
      apply IH; auto.
      * rewrite app_all_tx. auto.
      * eapply SP_weaken; [exact A|]. intros k o H. simpl in H.
        destruct (memn k r) eqn:Em; [rewrite (Hnotin k Em) in H; exact H|].
        rewrite andb_false_r in H. exact H.
    + (* not flagged *)
      assert (Hrev : revF i st = (st, 0)) by (unfold revF; rewrite Efl; reflexivity).
      rewrite Hrev. replace (Z.eqb 0 0) with true by reflexivity.
      apply IH; auto. eapply SP_weaken; [exact HP|]. intros k o H. simpl in H.
      destruct (memn k r) eqn:Em; [rewrite orb_true_r in H; exact H|].
      destruct (Nat.eqb k i); simpl in H; [apply andb_prop in H as [H _]; rewrite H; reflexivity|exact H].
Qed.

Lemma memn_seq : forall n k, memn k (seq 0 n) = Nat.ltb k n.
Proof.
  intros. unfold memn. destruct (Nat.ltb_spec k n).
  - apply existsb_exists. exists k. split; [apply in_seq; lia|apply Nat.eqb_refl].
  - destruct (existsb (Nat.eqb k) (seq 0 n)) eqn:E; auto.
    apply existsb_exists in E as [x [Hx Hx2]]. apply Nat.eqb_eq in Hx2. subst. apply in_seq in Hx. lia.
Qed.


(* the snapshot restore of a transaction that has been marked deactive *)
Lemma restore_inv : forall st,
  tx st = Some true -> SP (fun _ => objinvb (Some true)) st -> restore_ok st = true -> wf (slog st) ->
  SP (fun _ => objinvb (Some true)) (fst (restore_snapshot st)) /\ wf (slog (fst (restore_snapshot st))) /\
  tx (fst (restore_snapshot st)) = Some true.
Proof.
  intros st Htx HP Hg Hw. unfold restore_snapshot.
  assert (Hh : has_tx st = true) by (unfold has_tx; rewrite Htx; reflexivity). rewrite Hh.
  set (st1 := app_all (fun _ => restore_expunge_obj true) st).
  destruct (pass_spec (fun _ o => objinvb (Some true) o && rokb o) (fun _ o => postb o && extrab o)
              (fun _ => restore_expunge_obj true) st) as [A B].
  { apply SP_and; auto. apply restore_ok_SP; auto. }
  { intros k o Hp. apply restore_pass1_ok; auto. }
  fold st1 in A, B.
  assert (Htx1 : tx st1 = Some true) by (unfold st1; rewrite app_all_tx; auto).
  destruct (revert_fold (all_idx st1) st1 Htx1) as [C [D E]]; auto.
  - apply seq_NoDup.
  - eapply SP_weaken; [exact A|]. intros k o H. simpl in H. apply andb_prop in H as [H1 H2].
    rewrite H1, H2. destruct (memn k (all_idx st1)); reflexivity.
  - split; [|auto]. eapply SP_weaken; [exact C|]. intros k o H. simpl in H. apply andb_prop in H as [H _]. exact H.
Qed.
