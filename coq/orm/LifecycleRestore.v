(* C35 - _restore_snapshot under its guard *)
From Coq Require Import List ZArith Bool Arith Lia.
Import ListNotations.
From SAV.orm Require Import Lifecycle LifecycleSpec LifecycleLemmas LifecycleInv.
Open Scope Z_scope.

Definition rokb (o : obj) : bool :=
  implb (itnew o || inew o) (osess o && negb (odel o) && negb (itdel o)) && implb (itdel o || isdel o) (okey o && osess o).
(* the invariant of a deactive transaction without "session._deleted is in the identity map": while the
   deletions are reverted one by one, identity_map.replace() may evict a state that is still marked *)
Definition postb (o : obj) : bool :=
  implb (inew o) (negb (okey o) && osess o) && implb (iimap o) (okey o && osess o && negb (odel o)) &&
  implb (negb (okey o)) (negb (odel o)).
Definition extrab (o : obj) : bool := implb (itdel o || isdel o) (okey o && osess o).

Lemma restore_ok_SP : forall st, restore_ok st = true -> SP (fun _ => rokb) st.
Proof. intros st H k o Hk. unfold restore_ok in H. rewrite forallb_forall in H.
  apply H. eapply nth_error_In; eauto. Qed.

Lemma SP_and : forall (p q : nat -> obj -> bool) st, SP p st -> SP q st -> SP (fun k o => p k o && q k o) st.
Proof. intros p q st H1 H2 k o Hk. rewrite (H1 k o Hk), (H2 k o Hk). reflexivity. Qed.

Lemma restore_pass1_ok : forall o, objinvb (Some true) o && rokb o = true ->
  postb (fst (restore_expunge_obj true o)) && extrab (fst (restore_expunge_obj true o)) = true /\
  wfob (snd (restore_expunge_obj true o)) = true.
Proof. obj_cases. Qed.

Lemma post_done : forall o, postb o && negb (isdel o) = true -> objinvb (Some true) o = true.
Proof. obj_cases. Qed.

Lemma autobegin_some : forall st b, tx st = Some b -> autobegin st = st.
Proof. intros. unfold autobegin. rewrite H. reflexivity. Qed.

(* [b]: this is the state being reverted; [m]: it is still to be visited *)
Lemma revert_step_ok : forall (b m : bool) kz o,
  postb o && (if b || m then extrab o else negb (isdel o)) && (if b then itdel o || isdel o else true) = true ->
  let f := if b then revert_obj o else if iimap o && Z.eqb (pk o) kz then (set_iimap false o, []) else (o, []) in
  postb (fst f) && (if negb b && m then extrab (fst f) else negb (isdel (fst f))) = true /\ wfob (snd f) = true.
Proof. intros b m kz o. destruct b, m; destruct (Z.eqb (pk o) kz); obj_cases. Qed.

Lemma get_out_of_range : forall st i, (length (objs st) <= i)%nat -> get st i = dflt.
Proof. intros. unfold get. apply nth_overflow. auto. Qed.

Definition revF (i : nat) (st : state) : state * Z :=
  if itdel (get st i) || isdel (get st i) then revert_impl i st else (st, 0).

Lemma revert_fold : forall l st,
  tx st = Some true -> NoDup l ->
  SP (fun k o => postb o && (if memn k l then extrab o else negb (isdel o))) st -> wf (slog st) ->
  SP (fun _ o => postb o && negb (isdel o)) (fst (fold_err revF l st)) /\ wf (slog (fst (fold_err revF l st))) /\
  tx (fst (fold_err revF l st)) = Some true.
Proof.
  induction l as [|i r IH]; intros st Htx Hnd HP Hw; simpl.
  - split; auto.
  - inversion Hnd as [|? ? Hni Hnd']; subst.
    assert (Hnotin : forall k, memn k r = true -> Nat.eqb k i = false).
    { intros k Hk. destruct (Nat.eqb_spec k i); auto. subst. exfalso. apply Hni.
      unfold memn in Hk. apply existsb_exists in Hk as [x [Hx Hx2]]. apply Nat.eqb_eq in Hx2. subst. auto. }
    destruct (itdel (get st i) || isdel (get st i)) eqn:Efl.
    + (* the state is flagged: revert it *)
      assert (Hi : (i < length (objs st))%nat).
      { destruct (Nat.ltb_spec i (length (objs st))) as [|H]; [assumption|]. exfalso.
        rewrite (get_out_of_range st i H) in Efl. discriminate. }
      pose proof (SP_elim _ st i HP Hi) as Hpi. simpl in Hpi. rewrite Nat.eqb_refl in Hpi. simpl in Hpi.
      assert (Hk : okey (get st i) = true /\ osess (get st i) = true).
      { revert Hpi Efl. unfold postb, extrab. generalize (get st i). obj_cases. }
      destruct Hk as [K1 K2].
      set (f := replacing i (pk (get st i)) revert_obj).
      assert (Hrev : revF i st = (app_all f st, 0)).
      { unfold revF. rewrite Efl. unfold revert_impl. rewrite K1, K2. simpl. rewrite andb_false_r.
        rewrite (autobegin_some st true Htx). reflexivity. }
      rewrite Hrev. replace (Z.eqb 0 0) with true by reflexivity.
      assert (HP2 : SP (fun k o => postb o && (if Nat.eqb k i || memn k r then extrab o else negb (isdel o)) &&
                                   (if Nat.eqb k i then itdel o || isdel o else true)) st).
      { apply (SP_get (fun k o => postb o && (if Nat.eqb k i || memn k r then extrab o else negb (isdel o)))
                      (fun o => itdel o || isdel o)); auto. }
      destruct (pass_spec _ (fun k o => postb o && (if negb (Nat.eqb k i) && memn k r then extrab o else negb (isdel o))) f st HP2) as [A B].
      { intros k o Hp. unfold f, replacing. apply (revert_step_ok (Nat.eqb k i) (memn k r)). exact Hp. }
      apply IH; auto.
      * rewrite app_all_tx. auto.
      * eapply SP_weaken; [exact A|]. intros k o H. simpl in H.
        destruct (memn k r) eqn:Em; [rewrite (Hnotin k Em) in H; exact H|].
        rewrite andb_false_r in H. exact H.
    + (* not flagged: nothing to revert, and it is not marked *)
      assert (Hrev : revF i st = (st, 0)) by (unfold revF; rewrite Efl; reflexivity).
      rewrite Hrev. replace (Z.eqb 0 0) with true by reflexivity.
      apply IH; auto.
      assert (HP2 : SP (fun k o => postb o && (if Nat.eqb k i || memn k r then extrab o else negb (isdel o)) &&
                                   (if Nat.eqb k i then negb (itdel o || isdel o) else true)) st).
      { apply (SP_get (fun k o => postb o && (if Nat.eqb k i || memn k r then extrab o else negb (isdel o)))
                      (fun o => negb (itdel o || isdel o))); auto. rewrite Efl. reflexivity. }
      eapply SP_weaken; [exact HP2|]. intros k o H. simpl in H.
      destruct (memn k r) eqn:Em; [rewrite orb_true_r in H; apply andb_prop in H as [H _]; exact H|].
      rewrite orb_false_r in H. destruct (Nat.eqb k i); [|apply andb_prop in H as [H _]; exact H].
      revert H. obj_cases.
Qed.

Lemma memn_seq : forall n k, memn k (seq 0 n) = Nat.ltb k n.
Proof.
  intros. unfold memn. destruct (Nat.ltb_spec k n).
  - apply existsb_exists. exists k. split; [apply in_seq; lia|apply Nat.eqb_refl].
  - destruct (existsb (Nat.eqb k) (seq 0 n)) eqn:E; auto.
    apply existsb_exists in E as [x [Hx Hx2]]. apply Nat.eqb_eq in Hx2. subst. apply in_seq in Hx. lia.
Qed.


(* the snapshot restore of a transaction that has been marked deactive *)
Lemma restore_inv : forall st,
  tx st = Some true -> SP (fun _ => objinvb (Some true)) st -> restore_ok st = true -> wf (slog st) ->
  SP (fun _ => objinvb (Some true)) (fst (restore_snapshot st)) /\ wf (slog (fst (restore_snapshot st))) /\
  tx (fst (restore_snapshot st)) = Some true.
Proof.
  intros st Htx HP Hg Hw. unfold restore_snapshot.
  assert (Hh : has_tx st = true) by (unfold has_tx; rewrite Htx; reflexivity). rewrite Hh.
  set (st1 := app_all (fun _ => restore_expunge_obj true) st).
  destruct (pass_spec (fun _ o => objinvb (Some true) o && rokb o) (fun _ o => postb o && extrab o)
              (fun _ => restore_expunge_obj true) st) as [A B].
  { apply SP_and; auto. apply restore_ok_SP; auto. }
  { intros k o Hp. apply restore_pass1_ok; auto. }
  fold st1 in A, B.
  assert (Htx1 : tx st1 = Some true) by (unfold st1; rewrite app_all_tx; auto).
  destruct (revert_fold (all_idx st1) st1 Htx1) as [C [D E]]; auto.
  - apply seq_NoDup.
  - intros k o Hk. pose proof (A k o Hk) as H. simpl in H.
    assert (Hm : memn k (all_idx st1) = true).
    { unfold all_idx. rewrite memn_seq. apply Nat.ltb_lt. apply nth_error_Some. congruence. }
    rewrite Hm. exact H.
  - split; [|auto]. eapply SP_weaken; [exact C|]. intros k o H. apply post_done; auto.
Qed.
