(* C34 - specification side: what "at most one object per identity" means on a state of the model *)
From Coq Require Import List ZArith Bool Arith.
Import ListNotations.
From SAV.orm Require Import IdMap.

Definition is_some {A} (o : option A) : bool := match o with Some _ => true | None => false end.

(* the identity map as a partial function from identity keys to objects *)
Definition imap (st : state) (k : key) (i : nat) : Prop :=
  exists o, nth_error (objs st) i = Some o /\ iimap o = true /\ okey o = Some k.

(* inspect(obj).persistent with this session *)
Definition persistent (o : obj) : bool := is_some (okey o) && osess o && negb (odel o).

(* functional: a key is mapped to at most one object *)
Definition functional (st : state) : Prop := forall k i j, imap st k i -> imap st k j -> i = j.

(* per object: pending objects have no key, mapped objects have one *)
Definition jb (o : obj) : bool := implb (inew o) (negb (is_some (okey o))) && implb (iimap o) (is_some (okey o)).
Definition SP (p : nat -> obj -> bool) (st : state) : Prop :=
  forall k o, nth_error (objs st) k = Some o -> p k o = true.
Definition Inv (st : state) : Prop := SP (fun _ => jb) st /\ functional st.

(* key_consistent, both directions, as boolean state predicates (used by guards, oracles and examples) *)
Definition mapped_attached (st : state) : bool := forallb (fun o => implb (iimap o) (osess o)) (objs st).
Definition persistent_mapped (st : state) : bool := forallb (fun o => implb (persistent o) (iimap o)) (objs st).
Fixpoint one_persistent_per_key_from (l : list obj) : bool :=
  match l with
  | [] => true
  | o :: r => negb (persistent o && existsb (fun o' => persistent o' && okey_eqb (okey o') (okey o)) r)
              && one_persistent_per_key_from r
  end.
Definition one_persistent_per_key (st : state) : bool := one_persistent_per_key_from (objs st).
