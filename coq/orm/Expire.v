(* C46: expired and refreshed attributes reflect the database.

   Executable model of the attribute state of persistent instances in ONE Session (autoflush off) over a
   database that a second connection may change between any two operations.  Transcribes
     orm/state.py    InstanceState._expire            (all keys leave the dict, committed_state cleared, modified reset)
                     InstanceState._expire_attributes (named keys only: dict / committed_state entries dropped)
                     InstanceState._load_expired      (toload = expired_attributes & unmodified; expired_attributes.clear())
                     InstanceState._commit / _commit_all_states
     orm/loading.py  _load_scalar_attributes / _load_on_ident with refresh_state + only_load_props (ONE SELECT; the
                     listed attributes are overwritten, then _commit(keys))
     orm/session.py  expire / expire_all / refresh (expire, then load exactly the named attributes; an empty name list
                     means all) / commit (flush; _register_persistent reads the primary key attribute of every flushed
                     state, loading it when expired; commit-time expire-all under expire_on_commit) / rollback
     populate_existing (every identity-mapped instance fully overwritten, pending changes discarded)
   Attribute 0 is the primary key attribute.  [oval] is state.dict, [orig] is state.committed_state (None = key
   absent, Some o = the value before the first pending change, o = None for NO_VALUE), [oexp] is
   state.expired_attributes, [omod] is state.modified.

   Reference database (trusted, validated against SQLite/WAL on every run): committed rows with a change counter; the
   session's transaction reads from the snapshot taken at its first statement; an UPDATE from an outdated snapshot
   fails ("database is locked"); rows are never inserted or deleted. *)
From Coq Require Import List ZArith NArith Bool Arith.
Import ListNotations.
Open Scope Z_scope.

Definition rowsf := Z -> nat -> Z.

Record obj := { oval : nat -> option Z; orig : nat -> option (option Z); oexp : nat -> bool; omod : bool;
                oatt : bool  (* the instance is attached to the session (persistent), else detached *) }.
Record state := { gen : N; com : rowsf; snap : option (N * rowsf); tx : bool; objs : Z -> obj }.

Inductive op :=
| Read (k : Z) (a : nat) | SetA (k : Z) (a : nat) (v : Z)
| Expire (k : Z) (ns : list nat) | ExpireAll | Refresh (k : Z) (ns : list nat)
| Commit | Rollback | PopEx
| Ext (k : Z) (a : nat) (v : Z)
| PopExCols (ns : list nat)   (* populate_existing query whose rows carry the primary key and the columns ns only *)
| Expunge (k : Z) | Add (k : Z).
Inductive res := RUnit | RVal (v : option Z) | RBusy | RErr.

Definition isnone {A} (o : option A) : bool := match o with None => true | Some _ => false end.
Definition mem (a : nat) (l : list nat) : bool := existsb (Nat.eqb a) l.
Definition optZ_eqb (x y : option Z) : bool :=
  match x, y with Some a, Some b => Z.eqb a b | None, None => true | _, _ => false end.

(* rows the session's transaction sees *)
Definition view (s : state) : rowsf := match snap s with Some (_, r) => r | None => com s end.
(* a statement is executed: the session is in a transaction that holds a snapshot *)
Definition begin_read (s : state) : state :=
  {| gen := gen s; com := com s;
     snap := match snap s with Some x => Some x | None => Some (gen s, com s) end;
     tx := true; objs := objs s |}.

Definition expire_full (o : obj) : obj :=
  {| oval := fun _ => None; orig := fun _ => None; oexp := fun _ => true; omod := false; oatt := oatt o |}.
Definition expire_attrs (ns : list nat) (o : obj) : obj :=
  {| oval := fun a => if mem a ns then None else oval o a;
     orig := fun a => if mem a ns then None else orig o a;
     oexp := fun a => if mem a ns then true else oexp o a;
     omod := omod o; oatt := oatt o |}.
Definition expire_obj (ns : list nat) (o : obj) : obj :=
  match ns with [] => expire_full o | _ => expire_attrs ns o end.

(* _load_expired + load_scalar_attributes: the expired attributes without pending change get the row's values *)
Definition loaded_obj (r : nat -> Z) (o : obj) : obj :=
  {| oval := fun a => if oexp o a && isnone (orig o a) then Some (r a) else oval o a;
     orig := orig o; oexp := fun _ => false; omod := omod o; oatt := oatt o |}.
(* refresh: exactly the named attributes (all when the list is empty) are overwritten *)
Definition refreshed_obj (ns : list nat) (r : nat -> Z) (o : obj) : obj :=
  match ns with
  | [] => {| oval := fun a => Some (r a); orig := fun _ => None; oexp := fun _ => false; omod := false; oatt := oatt o |}
  | _ => {| oval := fun a => if mem a ns then Some (r a) else oval o a;
            orig := fun a => if mem a ns then None else orig o a;
            oexp := fun a => if mem a ns then false else oexp o a;
            omod := omod o; oatt := oatt o |}
  end.
(* populate_existing from rows that carry only the primary key attribute and the columns ns: the attributes in the
   row are overwritten, the others are discarded and marked expired; pending changes are dropped *)
Definition in_row (ns : list nat) (a : nat) : bool := Nat.eqb a 0 || mem a ns.
Definition populated_obj (ns : list nat) (r : nat -> Z) (o : obj) : obj :=
  {| oval := fun a => if in_row ns a then Some (r a) else None; orig := fun _ => None;
     oexp := fun a => negb (in_row ns a); omod := false; oatt := oatt o |}.
(* _commit_all_states after a flush *)
Definition finalized (o : obj) : obj :=
  {| oval := oval o; orig := fun _ => None; oexp := fun a => oexp o a && isnone (oval o a); omod := false; oatt := oatt o |}.

Definition upd_obj (s : state) (k : Z) (o : obj) : Z -> obj := fun k' => if Z.eqb k' k then o else objs s k'.
Definition with_objs (s : state) (f : Z -> obj) : state :=
  {| gen := gen s; com := com s; snap := snap s; tx := tx s; objs := f |}.

Definition netch (o : obj) (a : nat) : bool :=
  match orig o a with Some old => negb (optZ_eqb old (oval o a)) | None => false end.

Section M.
Variable eoc : bool.          (* Session.expire_on_commit *)
Variable pks : list Z.        (* primary keys of the instances in the identity map *)
Variable attrs : list nat.    (* the mapped column attributes (0 = primary key attribute) *)

Definition changed (o : obj) : bool := oatt o && omod o && existsb (netch o) attrs.
(* session-wide operations reach the attached instances only *)
Definition att (f : obj -> obj) (o : obj) : obj := if oatt o then f o else o.
Definition any_changed (s : state) : bool := existsb (fun k => changed (objs s k)) pks.

Definition rolled_back (s : state) : state :=
  {| gen := gen s; com := com s; snap := None; tx := false; objs := fun k => att expire_full (objs s k) |}.

Definition commit (s : state) : state * res :=
  let r := view s in
  let busy := any_changed s && match snap s with Some (g, _) => negb (N.eqb g (gen s)) | None => false end in
  if busy then (rolled_back s, RBusy)
  else
    let wrote := any_changed s in
    let com' := fun k a =>
      if wrote && changed (objs s k) && netch (objs s k) a
      then match oval (objs s k) a with Some v => v | None => com s k a end
      else com s k a in
    let fin := fun k =>
      let o := objs s k in
      let o1 := if omod o then finalized (if isnone (oval o 0%nat) then loaded_obj (r k) o else o) else o in
      if oatt o then (if eoc then expire_full o1 else o1) else o in
    ({| gen := if wrote then N.succ (gen s) else gen s; com := com'; snap := None; tx := false; objs := fin |}, RUnit).

Definition step (o : op) (s : state) : state * res :=
  match o with
  | Read k a =>
      match oval (objs s k) a with
      | Some v => (s, RVal (Some v))
      | None =>
          if oatt (objs s k) then
            let s1 := begin_read s in
            let ob := loaded_obj (view s1 k) (objs s k) in
            (with_objs s1 (upd_obj s k ob), RVal (oval ob a))
          else (s, RErr)   (* DetachedInstanceError *)
      end
  | SetA k a v =>
      let ob := objs s k in
      let ob' := {| oval := fun b => if Nat.eqb b a then Some v else oval ob b;
                    orig := fun b => if Nat.eqb b a
                                     then match orig ob a with Some x => Some x | None => Some (oval ob a) end
                                     else orig ob b;
                    oexp := oexp ob; omod := true; oatt := oatt ob |} in
      ({| gen := gen s; com := com s; snap := snap s; tx := tx s || oatt ob; objs := upd_obj s k ob' |}, RUnit)
  | Expire k ns =>
      if oatt (objs s k) then (with_objs s (upd_obj s k (expire_obj ns (objs s k))), RUnit)
      else (s, RErr)   (* InvalidRequestError: not persistent within this Session *)
  | ExpireAll => (with_objs s (fun k => att expire_full (objs s k)), RUnit)
  | Refresh k ns =>
      if oatt (objs s k) then
        let s1 := begin_read s in
        (with_objs s1 (upd_obj s k (refreshed_obj ns (view s1 k) (expire_obj ns (objs s k)))), RUnit)
      else (s, RErr)
  | Commit => commit s
  | Rollback => if tx s then (rolled_back s, RUnit) else (s, RUnit)
  | PopEx =>
      let s1 := begin_read s in
      (with_objs s1 (fun k => att (refreshed_obj [] (view s1 k)) (objs s k)), RUnit)
  | Ext k a v =>
      ({| gen := N.succ (gen s);
          com := fun k' a' => if Z.eqb k' k && Nat.eqb a' a then v else com s k' a';
          snap := snap s; tx := tx s; objs := objs s |}, RUnit)
  | PopExCols ns =>
      let s1 := begin_read s in
      (with_objs s1 (fun k => att (populated_obj ns (view s1 k)) (objs s k)), RUnit)
  | Expunge k =>
      let ob := objs s k in
      if oatt ob
      then (with_objs s (upd_obj s k {| oval := oval ob; orig := orig ob; oexp := oexp ob; omod := omod ob; oatt := false |}), RUnit)
      else (s, RErr)
  | Add k =>
      let ob := objs s k in
      ({| gen := gen s; com := com s; snap := snap s; tx := true;
          objs := upd_obj s k {| oval := oval ob; orig := orig ob; oexp := oexp ob; omod := omod ob; oatt := true |} |}, RUnit)
  end.

Fixpoint run (l : list op) (s : state) : state :=
  match l with [] => s | o :: r => run r (fst (step o s)) end.

(* the session has loaded every instance with get() in a fresh transaction *)
Definition init (r0 : rowsf) : state :=
  {| gen := 0; com := r0; snap := Some (0%N, r0); tx := true;
     objs := fun k => {| oval := fun a => Some (r0 k a); orig := fun _ => None; oexp := fun _ => false; omod := false;
                         oatt := true |} |}.
Definition reach (r0 : rowsf) (s : state) : Prop := exists l, s = run l (init r0).

(* number of SELECT statements an operation emits (observation only) *)
Definition count (f : Z -> bool) : nat := length (filter f pks).
Definition selects (o : op) (s : state) (r : res) : nat :=
  match o with
  | Read k a => if isnone (oval (objs s k) a) && oatt (objs s k) then 1 else 0
  | Refresh k _ => if oatt (objs s k) then 1 else 0
  | PopEx | PopExCols _ => 1
  | Commit =>
      match r with
      | RBusy => count (fun k => changed (objs s k) && isnone (oval (objs s k) 0%nat))
      | _ => count (fun k => oatt (objs s k) && omod (objs s k) && isnone (oval (objs s k) 0%nat))
      end
  | _ => 0
  end%nat.
End M.
