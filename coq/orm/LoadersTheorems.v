(* C40 - top-level statements *)
From Coq Require Import List ZArith Bool Lia Sorting.Sorted Permutation.
Import ListNotations.
From SAV.orm Require Import Loaders LoadersBase LoadersJoin LoadersStmt LoadersSrc LoadersOne LoadersAttach LoadersSubq LoadersMain.
Open Scope Z_scope.

(* well-formed data and query: primary keys unique; the root query and every collection totally ordered
   (relationship order_by ends in the primary key), many-to-one relationships carry no order_by *)
Definition wf_query (u : uquery) (t0 : list row) (jstep : option step) (path : list step) : Prop :=
  wf_table t0 /\ u_order u <> ONone /\ (forall s, jstep = Some s -> wf_step s) /\ Forall wf_step path.

(* excludes exactly the region of the DISTINCT/OFFSET defect of subquery loading *)
Definition guard (u : uquery) (jstep : option step) (path : list step) (asg : list strategy) : bool :=
  negb (root_subq asg && match path with c1 :: _ => defect u jstep c1 | [] => false end).

Lemma user_spec_sel_none : forall u t0 f path,
  sel None (spec_out (SrcUser u t0 f) path) = map (graph_of path) (uniq_by idkey (run_user u t0 f)).
Proof.
  intros. rewrite spec_out_sel, user_heads. set (i := fun r : row => (@None Z, r)).
  assert (E : uniq_by tagged_id (map i (run_user u t0 f)) = map i (uniq_by idkey (run_user u t0 f))).
  { rewrite uniq_by_map. apply f_equal. apply uniq_by_ext. intros x y _ _. reflexivity. }
  rewrite E. rewrite filter_map_swap. cbn [i fst]. rewrite filter_all_id by auto. rewrite map_map. reflexivity.
Qed.
Lemma user_spec_sel_some : forall u t0 f path t, t <> None -> sel t (spec_out (SrcUser u t0 f) path) = [].
Proof.
  intros u t0 f path t Ht. rewrite spec_out_sel, user_heads.
  assert (H : forall l : list tagged, (forall h, In h l -> fst h = None) -> filter (fun h => otag_eqb (fst h) t) l = []).
  { induction l as [|a l IH]; intro H; cbn; auto. rewrite (H a) by (cbn; auto). destruct t; [|contradiction]. cbn. apply IH. intros; apply H; cbn; auto. }
  rewrite H; [reflexivity|]. intros h Hh. apply uniq_by_in in Hh. apply in_map_iff in Hh as [r [<- _]]. reflexivity.
Qed.

(* ---------------------------------------------------------------- the main statement *)
Theorem all_strategies_agree : forall nestf asg u t0 jstep path,
  nest_covers nestf -> wf_query u t0 jstep path -> length asg = length path -> guard u jstep path asg = true ->
  load nestf asg u t0 jstep path = load_spec u t0 jstep path.
Proof.
  intros nestf asg u t0 jstep path NC [W [Ho [Wj WP]]] HL G. unfold load, load_spec.
  assert (F : Forall2 tagwise_eq (load_wave nestf false asg path [SrcUser u t0 jstep] [])
                      (map (fun src => spec_out src ([] ++ path)) [SrcUser u t0 jstep])).
  { apply (load_wave_correct nestf NC asg false path [SrcUser u t0 jstep] [] t0); auto.
    - constructor; [|constructor]. cbn. auto.
    - intros _ RS u' t0' f' c1 [E|[]] Hhd. inversion E; subst. cbn [app] in Hhd.
      unfold guard in G. rewrite RS in G. destruct path as [|c path']; [discriminate|]. cbn in Hhd. inversion Hhd; subst.
      cbn in G. destruct (defect u' f' c1); auto; discriminate. }
  cbn [map app] in F. inversion F as [|r ? rs ? TE F']; subst. inversion F'; subst. cbn [concat]. rewrite app_nil_r.
  rewrite sel_all_none.
  - rewrite TE. apply user_spec_sel_none.
  - intros t Ht. rewrite TE. apply user_spec_sel_some; auto.
Qed.

(* with the statement nesting of the implementation *)
Corollary all_strategies_agree_impl : forall asg u t0 jstep path,
  wf_query u t0 jstep path -> length asg = length path -> guard u jstep path asg = true ->
  load should_nest asg u t0 jstep path = load_spec u t0 jstep path.
Proof. intros. apply all_strategies_agree; auto. apply should_nest_covers. Qed.

Lemma guard_no_root_subq : forall u jstep path asg, root_subq asg = false -> guard u jstep path asg = true.
Proof. intros. unfold guard. rewrite H. reflexivity. Qed.

Lemma root_subq_repeat_joined : forall n, root_subq (repeat SJoined n) = false.
Proof. induction n; cbn; auto. Qed.

Theorem joined_eq_spec : forall u t0 jstep path, wf_query u t0 jstep path ->
  load should_nest (repeat SJoined (length path)) u t0 jstep path = load_spec u t0 jstep path.
Proof.
  intros. apply all_strategies_agree_impl; auto; [apply repeat_length|].
  apply guard_no_root_subq. apply root_subq_repeat_joined.
Qed.

Theorem lazy_eq_spec : forall u t0 jstep path, wf_query u t0 jstep path ->
  load should_nest (repeat SLazy (length path)) u t0 jstep path = load_spec u t0 jstep path.
Proof.
  intros. apply all_strategies_agree_impl; auto; [apply repeat_length|].
  apply guard_no_root_subq. destruct (length path); reflexivity.
Qed.

Theorem immediate_eq_spec : forall u t0 jstep path, wf_query u t0 jstep path ->
  load should_nest (repeat SImmediate (length path)) u t0 jstep path = load_spec u t0 jstep path.
Proof.
  intros. apply all_strategies_agree_impl; auto; [apply repeat_length|].
  apply guard_no_root_subq. destruct (length path); reflexivity.
Qed.

(* any chunk sizes >= 1 (the strategy carries chunk size - 1), different per level *)
Theorem selectin_eq_spec : forall (chunks_minus_1 : list nat) u t0 jstep path, wf_query u t0 jstep path ->
  length chunks_minus_1 = length path ->
  load should_nest (map SSelectin chunks_minus_1) u t0 jstep path = load_spec u t0 jstep path.
Proof.
  intros cs u t0 jstep path W HL. apply all_strategies_agree_impl; auto; [rewrite map_length; auto|].
  apply guard_no_root_subq. destruct cs; reflexivity.
Qed.

Theorem subquery_eq_spec_guarded : forall u t0 jstep path, wf_query u t0 jstep path ->
  guard u jstep path (repeat SSubquery (length path)) = true ->
  load should_nest (repeat SSubquery (length path)) u t0 jstep path = load_spec u t0 jstep path.
Proof. intros. apply all_strategies_agree_impl; auto. apply repeat_length. Qed.

(* ---------------------------------------------------------------- key lemma, one level *)
Theorem left_join_group_roundtrip : forall s attach o0 (H : list tagged) rows,
  wf_step s -> tag_inj H -> o0 <> ONone -> sorted (hkey o0) H ->
  eqset rows (ljoin_rows [s] H) -> sorted (jkey o0 [s]) rows ->
  proc [s] attach rows =
  map (fun h => (fst h, Node (snd h) (map (fun c => Node c (attach c)) (related s (snd h))))) (uniq_by tagged_id H).
Proof.
  intros s attach o0 H rows WS TI Ho SH E S.
  rewrite (proc_correct [s] attach o0 H rows); auto.
Qed.

(* ---------------------------------------------------------------- the wrap is necessary *)
Definition never_nest : nest_fn := fun _ _ _ _ _ _ _ => false.

Definition w_parents : list row := [mkRow 1 None None 0; mkRow 2 None None 0].
Definition w_children : list row := [mkRow 1 (Some 1) None 0; mkRow 2 (Some 1) None 0; mkRow 3 (Some 2) None 0].
Definition w_step : step := mkStep Down OId 1 w_children.
Definition w_query : uquery := mkU PAll false false OId (Some 1%nat) None.

Theorem limit_commutes_only_with_wrap_refuted :
  exists u t0 jstep path, wf_query u t0 jstep path /\
    load never_nest [SJoined] u t0 jstep path <> load_spec u t0 jstep path.
Proof.
  exists w_query, w_parents, None, [w_step]. split.
  - split; [|split; [|split]].
    + unfold wf_table. cbn. repeat constructor; cbn; intuition; discriminate.
    + discriminate.
    + intros s E. discriminate E.
    + constructor; [|constructor]. split; [|cbn; discriminate].
      unfold wf_table. cbn. repeat constructor; cbn; intuition; discriminate.
  - vm_compute. intro H. discriminate H.
Qed.

(* ---------------------------------------------------------------- the subquery DISTINCT/OFFSET defect *)
Definition d_roots : list row := [mkRow 1 None (Some 1) 0; mkRow 2 None (Some 2) 0].
Definition d_targets : list row := [mkRow 1 None None 0; mkRow 2 None None 0].
Definition d_side : list row := [mkRow 1 (Some 1) None 0; mkRow 2 (Some 1) None 0; mkRow 3 (Some 2) None 0].
Definition d_step : step := mkStep Up ONone 1 d_targets.
Definition d_jstep : step := mkStep Down OId 50 d_side.
Definition d_query : uquery := mkU (PJoin 0) false false OId (Some 1%nat) (Some 1%nat).

Theorem subquery_m2o_distinct_offset_refuted :
  exists u t0 jstep path, wf_query u t0 jstep path /\ guard u jstep path [SSubquery] = false /\
    load should_nest [SSubquery] u t0 jstep path <> load_spec u t0 jstep path /\
    load should_nest [SSelectin 0] u t0 jstep path = load_spec u t0 jstep path.
Proof.
  exists d_query, d_roots, (Some d_jstep), [d_step]. split; [|split; [reflexivity|split]].
  - split; [|split; [|split]].
    + unfold wf_table. cbn. repeat constructor; cbn; intuition; discriminate.
    + discriminate.
    + intros s E. inversion E; subst. split; [|cbn; discriminate].
      unfold wf_table. cbn. repeat constructor; cbn; intuition; discriminate.
    + constructor; [|constructor]. split; [|reflexivity].
      unfold wf_table. cbn. repeat constructor; cbn; intuition; discriminate.
  - vm_compute. intro H. discriminate H.
  - vm_compute. reflexivity.
Qed.

(* ---------------------------------------------------------------- facts about the plan *)
Lemma plan_wave_joined : forall nestf n steps srcs chain, length steps = n ->
  plan_wave nestf false (repeat SJoined n) steps srcs chain = map (fun src => (src, chain ++ steps)) srcs.
Proof.
  induction n as [|n IH]; intros steps srcs chain HL.
  - destruct steps; [|discriminate]. cbn. rewrite app_nil_r. auto.
  - destruct steps as [|s steps]; [discriminate|]. cbn [repeat plan_wave effective]. rewrite IH by (cbn in HL; lia).
    rewrite <- app_assoc. reflexivity.
Qed.
(* all-joined: exactly one statement, carrying the whole path as its eager chain *)
Theorem plan_joined_single_statement : forall nestf u t0 jstep path,
  plan nestf (repeat SJoined (length path)) u t0 jstep path = [(SrcUser u t0 jstep, path)].
Proof. intros. unfold plan. rewrite plan_wave_joined; auto. Qed.

Lemma chunks_fuel_bounds : forall {A} fuel n (l ch : list A), (1 <= n)%nat -> In ch (chunks_fuel fuel n l) ->
  ch <> [] /\ (length ch <= n)%nat.
Proof.
  induction fuel as [|f IH]; intros n l ch Hn H; cbn in H; [contradiction|].
  destruct l as [|a l]; [contradiction|]. destruct H as [<-|H]; [|eapply IH; eauto].
  split; [destruct n; [lia|cbn; discriminate]|apply firstn_le_length].
Qed.
(* IN-chunking: the chunks partition the keys in order, each non-empty and of at most n keys *)
Theorem chunks_partition : forall {A} n (l : list A), (1 <= n)%nat ->
  concat (chunks n l) = l /\ forall ch, In ch (chunks n l) -> ch <> [] /\ (length ch <= n)%nat.
Proof. intros. split; [apply chunks_concat; auto|intros; eapply chunks_fuel_bounds; eauto]. Qed.

Theorem should_nest_spec : forall e m l o d don g,
  should_nest e m l o d don g = true <-> e = true /\ ((l = true \/ o = true) /\ m = true \/ d = true \/ don = true \/ g = true).
Proof. intros [] [] [] [] [] [] []; cbn; intuition congruence. Qed.
