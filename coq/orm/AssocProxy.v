(* C50 - model of ext/associationproxy.py::_AssociationList / _AssociationSet / _AssociationDict.

   A proxy collection is a VIEW  map getter intermediaries  of the underlying relationship
   collection [col] (an instrumented list / set / keyed dict, which behaves as the builtin - C38);
   `creator(value)` makes a new intermediary object, `setter(obj, value)` stores into an existing
   one.  Intermediaries are numbered in creation order.  Definitions only. *)
From Coq Require Import List ZArith Bool Arith.
Import ListNotations.
From SAV.base Require Import PySlice.
From SAV.orm Require Import CollBase CollList CollSet CollDict.
Local Open Scope nat_scope.

Record px := mkPx {
  col : list nat;            (* the underlying collection: intermediary ids *)
  pkey : nat -> Z;           (* the key attribute of an intermediary (dict proxies) *)
  pval : nat -> Z;           (* the proxied attribute *)
  nxt : nat                  (* intermediaries created so far *)
}.

Definition updf (f : nat -> Z) (k : nat) (v : Z) : nat -> Z := fun j => if Nat.eqb j k then v else f j.

Definition create (s : px) (k v : Z) : px * nat :=
  (mkPx (col s) (updf (pkey s) (nxt s) k) (updf (pval s) (nxt s) v) (S (nxt s)), nxt s).
Definition with_col (s : px) (c : list nat) : px := mkPx c (pkey s) (pval s) (nxt s).
Definition set_val (s : px) (o : nat) (v : Z) : px := mkPx (col s) (pkey s) (updf (pval s) o v) (nxt s).

(* the views *)
Definition to_list (s : px) : list Z := map (pval s) (col s).
Definition to_dict (s : px) : pydict := map (fun o => (pkey s o, pval s o)) (col s).

(* ------------------------------------------------------------------ list proxy *)
Inductive plop :=
| PAppend (v : Z) | PExtend (vs : list Z) | PInsert (i : Z) (v : Z) | PPop (oi : option Z)
| PRemove (v : Z) | PSetItem (i : Z) (v : Z) | PSetSlice (sl : pyslice) (vs : list Z)
| PDelItem (i : Z) | PDelSlice (sl : pyslice) | PClear | PIAdd (vs : list Z) | PIMul (n : Z)
| PReverse | PSort
| PAssign (vs : list Z).          (* obj.proxy = vs : _bulk_replace = self.clear(); self.extend(values) *)

(* results: exceptions of the builtin plus NotImplementedError *)
Inductive pres := POk | PRaise (e : pyexn) | PNotImpl.

(* append: item = self._create(value); col.append(item) *)
Definition pl_append (s : px) (v : Z) : px :=
  let '(s1, o) := create s 0%Z v in with_col s1 (col s1 ++ [o]).
(* extend: for v in values: self.append(v) *)
Definition pl_extend (s : px) (vs : list Z) : px := fold_left pl_append vs s.
(* insert: self.col[index:index] = [self._create(value)] *)
Definition pl_insert (s : px) (i v : Z) : px :=
  let '(s1, o) := create s 0%Z v in with_col s1 (py_insert (col s1) i o).
(* del self[i]  =  del self.col[i] *)
Definition pl_delitem (s : px) (i : Z) : pres * px :=
  match py_delitem (col s) i with
  | Ok c => (POk, with_col s c)
  | Raise e => (PRaise e, s)
  end.
(* index of the first member whose value equals v *)
Fixpoint find_val (f : nat -> Z) (v : Z) (c : list nat) (k : nat) : option nat :=
  match c with
  | [] => None
  | o :: r => if Z.eqb (f o) v then Some k else find_val f v r (S k)
  end.

(* __setitem__ with a slice (as repaired by 99130b4):
     start, stop, step = index.indices(len(self))
     rng = list(range(start, stop, step))
     sized_value = list(value)
     if step == 1:
         for i in rng: del self[start]
         i = start
         for item in sized_value: self.insert(i, item); i += 1
     else:
         if len(sized_value) != len(rng): raise ValueError
         for i, item in zip(rng, sized_value): self._set(self.col[i], item) *)
Fixpoint pl_del_loop (n : nat) (start : Z) (s : px) : pres * px :=
  match n with
  | O => (POk, s)
  | S n' => match pl_delitem s start with
            | (POk, s') => pl_del_loop n' start s'
            | r => r
            end
  end.
Fixpoint pl_ins_loop (p : Z) (vs : list Z) (s : px) : px :=
  match vs with
  | [] => s
  | v :: r => pl_ins_loop (p + 1)%Z r (pl_insert s p v)
  end.
Fixpoint pl_set_loop (ivs : list (Z * Z)) (s : px) : pres * px :=
  match ivs with
  | [] => (POk, s)
  | (i, v) :: r => match py_getitem (col s) i with
                   | Ok o => pl_set_loop r (set_val s o v)
                   | Raise e => (PRaise e, s)
                   end
  end.
Definition pl_setslice (s : px) (sl : pyslice) (vs : list Z) : pres * px :=
  match adjust sl (zlen (col s)) with
  | Raise e => (PRaise e, s)
  | Ok (start, stop, step) =>
      let rng := range start stop step in
      if Z.eqb step 1 then
        match pl_del_loop (length rng) start s with
        | (POk, s') => (POk, pl_ins_loop start vs s')
        | r => r
        end
      else if Nat.eqb (length vs) (length rng) then pl_set_loop (combine rng vs) s
      else (PRaise ValueError, s)
  end.

Definition pl_clear (s : px) : px := with_col s [].      (* del self.col[0:len(self.col)] *)

Definition pl_step (s : px) (o : plop) : pres * px :=
  match o with
  | PAppend v => (POk, pl_append s v)
  | PExtend vs | PIAdd vs => (POk, pl_extend s vs)
  | PInsert i v => (POk, pl_insert s i v)
  | PPop oi =>                                      (* self.getter(self.col.pop(index)) *)
      match py_pop (col s) (match oi with Some i => i | None => (-1)%Z end) with
      | Ok (_, c) => (POk, with_col s c)
      | Raise e => (PRaise e, s)
      end
  | PRemove v =>                                    (* first i with self[i] == value: del self.col[i] *)
      match find_val (pval s) v (col s) 0 with
      | Some k => (POk, with_col s (del_nth k (col s)))
      | None => (PRaise ValueError, s)
      end
  | PSetItem i v =>                                 (* self._set(self.col[index], value) *)
      match py_getitem (col s) i with
      | Ok o => (POk, set_val s o v)
      | Raise e => (PRaise e, s)
      end
  | PSetSlice sl vs => pl_setslice s sl vs
  | PDelItem i => pl_delitem s i
  | PDelSlice sl =>
      match py_delslice (col s) sl with
      | Ok c => (POk, with_col s c)
      | Raise e => (PRaise e, s)
      end
  | PClear => (POk, pl_clear s)
  | PIMul n =>
      (* if n == 0: self.clear()  elif n > 1: self.extend(list(self) * (n - 1)) *)
      if Z.eqb n 0 then (POk, pl_clear s)
      else if (1 <? n)%Z then (POk, pl_extend s (py_imul (to_list s) (n - 1)%Z))
      else (POk, s)
  | PReverse | PSort => (PNotImpl, s)
  | PAssign vs => (POk, pl_extend (pl_clear s) vs)
  end.

(* the builtin list under the same operation *)
Definition plop_ref (l : list Z) (o : plop) : pres * list Z :=
  let of_py (r : res retv * list Z) := match r with (Ok _, l') => (POk, l') | (Raise e, l') => (PRaise e, l') end in
  match o with
  | PAppend v => of_py (py_list_op l (LAppend v))
  | PExtend vs => of_py (py_list_op l (LExtend (VList vs)))
  | PIAdd vs => of_py (py_list_op l (LIAdd (VList vs)))
  | PInsert i v => of_py (py_list_op l (LInsert i v))
  | PPop oi => of_py (py_list_op l (LPop oi))
  | PRemove v => of_py (py_list_op l (LRemove v))
  | PSetItem i v => of_py (py_list_op l (LSetItem i v))
  | PSetSlice sl vs => of_py (py_list_op l (LSetSlice sl (VList vs)))
  | PDelItem i => of_py (py_list_op l (LDelItem i))
  | PDelSlice sl => of_py (py_list_op l (LDelSlice sl))
  | PClear => of_py (py_list_op l LClear)
  | PIMul n => of_py (py_list_op l (LIMul n))
  | PReverse => (POk, rev l)
  | PSort => (POk, l)      (* placeholder: sort is documented as unsupported on the proxy *)
  | PAssign vs => (POk, vs)          (* l = vs *)
  end.

(* where the list proxy is known not to be the builtin: *= with a negative count;
   reverse / sort (documented: not supported) *)
Definition pl_guard (s : px) (o : plop) : bool :=
  match o with
  | PIMul k => (0 <=? k)%Z
  | PReverse | PSort => false
  | _ => true
  end.

(* ------------------------------------------------------------------ set proxy *)
(* col is an instrumented set of intermediaries; invariant: the proxied values are distinct *)
Fixpoint find_member (f : nat -> Z) (v : Z) (c : list nat) : option nat :=
  match c with
  | [] => None
  | o :: r => if Z.eqb (f o) v then Some o else find_member f v r
  end.
Definition ps_mem (s : px) (v : Z) : bool :=
  match find_member (pval s) v (col s) with Some _ => true | None => false end.
(* add: if value not in self: self.col.add(self._create(value)) *)
Definition ps_add (s : px) (v : Z) : px :=
  if ps_mem s v then s else let '(s1, o) := create s 0%Z v in with_col s1 (col s1 ++ [o]).
(* discard: for member in self.col: if self._get(member) == value: self.col.discard(member); break *)
Definition ps_discard (s : px) (v : Z) : px :=
  match find_member (pval s) v (col s) with
  | Some o => with_col s (filter (fun x => negb (Nat.eqb x o)) (col s))
  | None => s
  end.
Definition ps_remove (s : px) (v : Z) : pres * px :=
  if ps_mem s v then (POk, ps_discard s v) else (PRaise KeyError, s).
Fixpoint ps_remove_all (vs : list Z) (s : px) : pres * px :=
  match vs with
  | [] => (POk, s)
  | v :: r => match ps_remove s v with (POk, s') => ps_remove_all r s' | x => x end
  end.

Section SetOrd.
Variable ord : list Z -> list Z.     (* iteration order of builtin sets *)

Definition pset_items (a : sarg) : option (list Z) :=
  match a with ASet v => Some (ord v) | AList v => Some v | _ => None end.

(* intersection_update / symmetric_difference_update:
     want, have = self.<op>(other), set(self);  remove, add = have - want, want - have
     for value in remove: self.remove(value);  for value in add: self.add(value) *)
Definition ps_want (f : list Z -> list Z -> list Z) (s : px) (o : list Z) : pres * px :=
  let have := to_list s in
  let want := f have o in
  match ps_remove_all (ord (set_diff have want)) s with
  | (POk, s') => (POk, fold_left ps_add (ord (set_diff want have)) s')
  | x => x
  end.

Definition ps_step (s : px) (o : sop) : pres * px :=
  let bulk (a : sarg) (k : list Z -> pres * px) :=
      match pset_items a with Some vs => k vs | None => (PRaise TypeError, s) end in
  let inplace (a : sarg) (k : list Z -> pres * px) :=
      match a with ASet _ => bulk a k | _ => (PNotImpl, s) end in      (* _set_binops_check_strict *)
  match o with
  | SAdd v => (POk, ps_add s v)
  | SDiscard v => (POk, ps_discard s v)
  | SRemove v => ps_remove s v
  | SPop => match col s with                      (* member = self.col.pop(): the builtin's choice *)
            | [] => (PRaise KeyError, s)
            | o :: r => (POk, with_col s r)
            end
  | SClear => (POk, with_col s [])
  | SUpdate a => bulk a (fun vs => (POk, fold_left ps_add vs s))
  | SDiffUpdate a => bulk a (fun vs => (POk, fold_left ps_discard vs s))
  | SInterUpdate a => bulk a (ps_want set_inter s)
  | SSymDiffUpdate a => bulk a (ps_want set_symdiff s)
  | SIor a => inplace a (fun vs => (POk, fold_left ps_add vs s))
  | SIsub a => inplace a (fun vs => (POk, fold_left ps_discard vs s))
  | SIand a => inplace a (ps_want set_inter s)
  | SIxor a => inplace a (ps_want set_symdiff s)
  end.

Definition psop_ref (l : list Z) (o : sop) : pres * list Z :=
  match py_set_op ord l o with
  | (Ok RNotImpl, l') => (PNotImpl, l')
  | (Ok _, l') => (POk, l')
  | (Raise e, l') => (PRaise e, l')
  end.
End SetOrd.

(* obj.proxy = values  (_AssociationSet._bulk_replace):
     existing = set(self); constants = existing & values; additions = values - constants
     removals = existing - constants
     for member in values: if member in additions: self.add(member) elif member in constants: self.add(member)
     for member in removals: self.remove(member) *)
Definition ps_assign (s : px) (vs : list Z) : px :=
  let existing := to_list s in
  let s1 := fold_left ps_add vs s in
  fold_left ps_discard (filter (fun x => negb (mem x vs)) existing) s1.

(* ------------------------------------------------------------------ dict proxy *)
(* col is a dict keyed on the intermediary's key attribute *)
Fixpoint find_key (f : nat -> Z) (k : Z) (c : list nat) : option nat :=
  match c with
  | [] => None
  | o :: r => if Z.eqb (f o) k then Some o else find_key f k r
  end.
(* __setitem__: if key in self.col: self._set(self.col[key], key, value)
                else: self.col[key] = self._create(key, value) *)
Definition pd_setitem (s : px) (k v : Z) : px :=
  match find_key (pkey s) k (col s) with
  | Some o => set_val s o v
  | None => let '(s1, o) := create s k v in with_col s1 (col s1 ++ [o])
  end.
Definition pd_del (s : px) (k : Z) : px :=
  with_col s (filter (fun o => negb (Z.eqb (pkey s o) k)) (col s)).

(* results of the dict proxy: a value, or an exception *)
Inductive pdres := DOk (r : option Z) | DRaise (e : pyexn).

Definition pd_step (s : px) (o : dop) : pdres * px :=
  match o with
  | DSetItem k v => (DOk None, pd_setitem s k v)
  | DDelItem k => match find_key (pkey s) k (col s) with
                  | Some _ => (DOk None, pd_del s k)
                  | None => (DRaise KeyError, s)
                  end
  | DClear => (DOk None, with_col s [])
  | DPop k dflt =>
      (* as repaired by f24ff68:
         if key not in self.col: return self.col.pop(key, default?)     - the default, or KeyError
         return self._get(self.col.pop(key)) *)
      match find_key (pkey s) k (col s), dflt with
      | Some o, _ => (DOk (Some (pval s o)), pd_del s k)
      | None, Some v => (DOk (Some v), s)
      | None, None => (DRaise KeyError, s)
      end
  | DPopItem =>
      match rev (col s) with
      | [] => (DRaise KeyError, s)
      | o :: _ => (DOk (Some (pval s o)), pd_del s (pkey s o))
      end
  | DSetDefault k v =>
      (* if key not in self.col: self.col[key] = self._create(key, default); return default
         else: return self[key] *)
      match find_key (pkey s) k (col s) with
      | Some o => (DOk (Some (pval s o)), s)
      | None => (DOk (Some v), pd_setitem s k v)
      end
  | DUpdate u kw =>
      (* up = {}; up.update(args, kwargs); for key, value in up.items(): self[key] = value *)
      let up := d_update (d_update [] (upd_pairs u)) kw in
      (DOk None, fold_left (fun acc kv => pd_setitem acc (fst kv) (snd kv)) up s)
  | DIor m => (DRaise TypeError, s)               (* no __ior__ on MutableMapping *)
  end.

Definition pdop_ref (d : pydict) (o : dop) : pdres * pydict :=
  match py_dict_op d o with
  | (Ok (RItem x), d') => (DOk (Some x), d')
  | (Ok (RPair _ x), d') => (DOk (Some x), d')
  | (Ok _, d') => (DOk None, d')
  | (Raise e, d') => (DRaise e, d')
  end.

(* `d |= m` does not exist on the proxy (MutableMapping has no __ior__) *)
Definition pd_guard (s : px) (o : dop) : bool :=
  match o with
  | DIor _ => false
  | _ => true
  end.

(* obj.proxy = mapping  (_AssociationDict._bulk_replace):
     existing = set(self); constants = existing & keys(values); additions = keys(values) - constants
     removals = existing - constants
     for key, member in values.items(): self[key] = member        (additions AND constants)
     for key in removals: del self[key] *)
Definition pd_assign (s : px) (m : pydict) : px :=
  let existing := map fst (to_dict s) in
  let s1 := fold_left (fun acc kv => pd_setitem acc (fst kv) (snd kv)) m s in
  fold_left pd_del (filter (fun k => negb (mem k (map fst m))) existing) s1.

Definition px_empty : px := mkPx [] (fun _ => 0%Z) (fun _ => 0%Z) 0.
