(* C38 - proofs about the instrumented list (orm/CollList.v) *)
From Coq Require Import List ZArith Bool Lia ZifyBool Permutation Arith.
Import ListNotations.
From SAV.base Require Import PySlice PySliceProofs.
From SAV.orm Require Import CollBase CollList CollProofs.
Open Scope Z_scope.

Local Notation acc := (accounted (fun l : list item => l) (fun _ => True)).

Lemma acc_intro : forall T (m : LM T),
  (forall s r s', m s = (r, s') -> forall x, bal (fun l : list item => l) x s' = bal (fun l => l) x s) ->
  acc m.
Proof. intros T m H s r s' _ E. split; [exact I|]. apply (H _ _ _ E). Qed.

Ltac inv H := inversion H; subst; clear H.

(* ====================================================================================== *)
(* 1. event accounting                                                                      *)
(* ====================================================================================== *)
Lemma acc_b_getitem : forall i, acc (b_getitem i).
Proof. intro i. unfold b_getitem. apply (acc_lift_ro _ _ _ _ (fun l => py_getitem l i)). Qed.

Lemma acc_sa_append : forall x, acc (sa_append x).
Proof.
  intro x. apply acc_intro. intros [l g] r s' H z. unfold sa_append, bind, fire, b_upd, lift in H. cbn [fst snd] in H.
  inv H. unfold bal. cbn [fst snd]. rewrite countZ_app, net_app, countZ_cons, countZ_nil.
  cbn [net ev_delta]. liaif.
Qed.

Lemma acc_sa_insert : forall i x, acc (sa_insert i x).
Proof.
  intros i x. apply acc_intro. intros [l g] r s' H z. unfold sa_insert, bind, fire, b_upd, lift in H. cbn [fst snd] in H.
  inv H. unfold bal. cbn [fst snd]. unfold py_insert.
  rewrite <- (countZ_perm z _ _ (insert_perm _ _ l x)), net_app, countZ_cons.
  cbn [net ev_delta]. liaif.
Qed.

Lemma acc_sa_setitem : forall i x, acc (sa_setitem i x).
Proof.
  intros i x. apply acc_intro. intros [l g] r s' H z.
  unfold sa_setitem, bind, b_getitem, fire, b_upd, lift in H. cbn [fst snd] in H.
  unfold py_getitem, py_setitem in H.
  destruct (norm_index i (zlen l)) as [n|] eqn:En; [|inv H; reflexivity].
  destruct (nth_error l n) as [y|] eqn:Ey; [|inv H; reflexivity].
  cbn [fst snd] in H. rewrite En in H. inv H. unfold bal. cbn [fst snd].
  pose proof (countZ_perm z _ _ (nth_error_perm_set _ n l y x Ey)) as P.
  rewrite !countZ_cons in P. rewrite !net_app. cbn [net ev_delta]. liaif.
Qed.

Lemma acc_sa_delitem : forall i, acc (sa_delitem i).
Proof.
  intro i. apply acc_intro. intros [l g] r s' H z.
  unfold sa_delitem, bind, b_getitem, fire, b_upd, lift in H. cbn [fst snd] in H.
  unfold py_getitem, py_delitem in H.
  destruct (norm_index i (zlen l)) as [n|] eqn:En; [|inv H; reflexivity].
  destruct (nth_error l n) as [y|] eqn:Ey; [|inv H; reflexivity].
  cbn [fst snd] in H. rewrite En in H. inv H. unfold bal. cbn [fst snd].
  pose proof (countZ_perm z _ _ (nth_error_perm_del _ n l y Ey)) as P.
  rewrite !countZ_cons in P. rewrite !net_app. cbn [net ev_delta]. liaif.
Qed.

Lemma acc_sa_pop : forall i, acc (sa_pop i).
Proof.
  intro i. apply acc_intro. intros [l g] r s' H z. unfold sa_pop, bind, fire, lift, ret in H. cbn [fst snd] in H.
  unfold py_pop in H.
  destruct (norm_index i (zlen l)) as [n|] eqn:En; [|inv H; reflexivity].
  destruct (nth_error l n) as [y|] eqn:Ey; [|inv H; reflexivity].
  cbn [fst snd] in H. inv H. unfold bal. cbn [fst snd].
  pose proof (countZ_perm z _ _ (nth_error_perm_del _ n l y Ey)) as P.
  rewrite !countZ_cons in P. rewrite !net_app. cbn [net ev_delta]. liaif.
Qed.

Lemma acc_sa_clear : acc sa_clear.
Proof.
  apply acc_intro. intros [l g] r s' H z. unfold sa_clear, bind, get, put in H. cbn [fst snd] in H.
  rewrite (for_each_fire_map _ _ ERem) in H. cbn [fst snd] in H. inv H.
  unfold bal. cbn [fst snd]. rewrite net_app, net_map_rem, countZ_nil. lia.
Qed.

Lemma acc_sa_delslice : forall sl, acc (sa_delslice sl).
Proof.
  intro sl. apply acc_intro. intros [l g] r s' H z. unfold sa_delslice, bind, b_upd, lift in H. cbn [fst snd] in H.
  destruct (py_getslice l sl) as [items|e] eqn:Eg; [|inv H; reflexivity].
  rewrite (for_each_fire_map _ _ ERem) in H. cbn [fst snd] in H.
  destruct (py_delslice l sl) as [d|e] eqn:Ed.
  - inv H. unfold bal. cbn [fst snd].
    rewrite (countZ_perm z _ _ (getslice_delslice_perm _ _ _ _ _ Eg Ed)).
    rewrite countZ_app, net_app, net_map_rem. lia.
  - apply getslice_delslice_same_error in Ed. congruence.
Qed.

Lemma acc_del_loop : forall n start, acc (del_loop n start).
Proof.
  induction n; intro start; cbn [del_loop]; [apply acc_ret|].
  apply acc_bind; [apply acc_get|]. intro l. apply acc_bind.
  - destruct (start <? zlen l); [apply acc_sa_delitem|apply acc_ret].
  - intros _. apply IHn.
Qed.

Lemma acc_ins_loop : forall v pos, acc (ins_loop pos v).
Proof.
  induction v; intro pos; cbn [ins_loop]; [apply acc_ret|].
  apply acc_bind; [apply acc_sa_insert|]. intros _. apply IHv.
Qed.

Lemma acc_set_loop : forall ivs, acc (set_loop ivs).
Proof.
  induction ivs as [|[i x] r IH]; cbn [set_loop]; [apply acc_ret|].
  apply acc_bind; [apply acc_sa_setitem|]. intros _. exact IH.
Qed.

Lemma acc_sa_setslice : forall sl v, acc (sa_setslice sl v).
Proof.
  intros sl v. unfold sa_setslice. apply acc_bind; [apply acc_get|]. intro l.
  apply acc_bind; [apply (acc_lift_ro _ _ _ _ (fun _ => adjust sl (zlen l)))|].
  intros [[start stop] step].
  assert (A1 : acc (match materialise l v with
                    | None => raise TypeError
                    | Some w => del_loop (length (range start stop step)) start ;;; ins_loop start w
                    end)).
  { destruct (materialise l v); [|apply acc_raise].
    apply acc_bind; [apply acc_del_loop|intros _; apply acc_ins_loop]. }
  destruct (step =? 1).
  - destruct v; try exact A1. apply acc_ret.
  - destruct (materialise l v); [|apply acc_raise].
    destruct (Nat.eqb _ _); [apply acc_set_loop|apply acc_raise].
Qed.

Lemma acc_sa_extend : forall v, acc (sa_extend v).
Proof.
  intro v. unfold sa_extend. apply acc_bind; [apply acc_get|]. intro l.
  destruct (materialise l v); [|apply acc_raise]. apply acc_for_each. apply acc_sa_append.
Qed.

Lemma remove_first_perm : forall x l l', remove_first x l = Some l' -> Permutation l (x :: l').
Proof.
  induction l as [|y l IH]; cbn [remove_first]; intros l' H; [discriminate|].
  destruct (Z.eqb_spec x y).
  - inv H. reflexivity.
  - destruct (remove_first x l) as [r|]; [|discriminate]. inv H.
    rewrite perm_swap. constructor. apply IH. reflexivity.
Qed.

Lemma remove_first_mem : forall x l, mem x l = true -> exists l', remove_first x l = Some l'.
Proof.
  induction l as [|y l IH]; cbn [remove_first mem existsb]; intro H; [discriminate|].
  destruct (Z.eqb_spec x y); [eauto|]. cbn [orb] in H. destruct (IH H) as [l' E].
  rewrite E. eauto.
Qed.

Lemma remove_first_absent : forall x l, mem x l = false -> remove_first x l = None.
Proof.
  induction l as [|y l IH]; cbn [remove_first mem existsb]; intro H; [reflexivity|].
  destruct (Z.eqb_spec x y); [discriminate|]. cbn [orb] in H. rewrite (IH H). reflexivity.
Qed.

Lemma acc_sa_remove : forall x, acc (sa_remove x).
Proof.
  intro x. apply acc_intro. intros [l g] r s' H z.
  unfold sa_remove, bind, get, b_upd, lift, py_remove in H. cbn [fst snd] in H.
  destruct (mem x l) eqn:E; unfold fire, ret in H; cbn [fst snd] in H.
  - destruct (remove_first_mem _ _ E) as [r' E']. rewrite E' in H. inv H.
    unfold bal. cbn [fst snd].
    pose proof (countZ_perm z _ _ (remove_first_perm _ _ _ E')) as P. rewrite countZ_cons in P.
    rewrite net_app. cbn [net ev_delta]. liaif.
  - rewrite (remove_first_absent _ _ E) in H. inv H. reflexivity.
Qed.

Lemma acc_then_ret : forall T (m : LM T) (rv : retv), acc m -> acc (m ;;; ret rv).
Proof. intros. apply acc_bind; [assumption|]. intros _. apply acc_ret. Qed.

(* every operation except *= keeps the balance, whatever it returns or raises *)
Lemma acc_list_op : forall op, (forall n, op <> LIMul n) -> acc (sa_list_op op).
Proof.
  intros op H2. destruct op; cbn [sa_list_op]; try apply acc_then_ret.
  - apply acc_sa_append.
  - apply acc_sa_remove.
  - apply acc_sa_insert.
  - apply acc_sa_setitem.
  - apply acc_sa_setslice.
  - apply acc_sa_delitem.
  - apply acc_sa_delslice.
  - apply acc_sa_extend.
  - apply acc_sa_extend.
  - apply acc_bind; [apply acc_sa_pop|]. intro. apply acc_ret.
  - apply acc_sa_clear.
  - exfalso. eapply H2. reflexivity.
  - unfold b_upd. apply acc_lift_perm. intros c t c' _ H. inv H. split; [exact I|apply Permutation_rev].
  - apply acc_bind; [apply (acc_lift_ro _ _ _ _ (fun l => py_getslice l sl))|]. intro. apply acc_ret.
Qed.

Lemma py_imul_1 : forall (l : list item), py_imul l 1 = l.
Proof. intro l. unfold py_imul. cbn. apply app_nil_r. Qed.

Theorem list_op_accounted : forall op l g r l' g',
  list_acct_guard l op = true ->
  sa_list_op op (l, g) = (r, (l', g')) ->
  forall x, countZ x l' - countZ x l = net x g' - net x g.
Proof.
  intros op l g r l' g' Hg H x.
  assert (D : (exists n, op = LIMul n) \/ (forall n, op <> LIMul n)).
  { destruct op; try (right; intros; discriminate); eauto. }
  destruct D as [[n ->]|D2].
  - cbn [sa_list_op] in H. unfold bind, b_upd, lift, ret in H. cbn [fst snd] in H. inv H.
    cbn [list_acct_guard] in Hg. destruct (n =? 1) eqn:E1.
    + assert (n = 1) by lia. subst. rewrite py_imul_1. lia.
    + destruct l; [|discriminate]. unfold py_imul. destruct (n <=? 0); [cbn; lia|].
      replace (concat (repeat [] (Z.to_nat n))) with (@nil Z); [cbn; lia|].
      induction (Z.to_nat n); cbn; auto.
  - destruct (acc_list_op op D2 _ _ _ I H) as [_ B]. specialize (B x).
    unfold bal in B. cbn [fst snd] in B. lia.
Qed.

(* ====================================================================================== *)
(* 2. contents / result / exception = the builtin list                                      *)
(* ====================================================================================== *)
Lemma zlen_app : forall (a b : list item), zlen (a ++ b) = zlen a + zlen b.
Proof. intros. unfold zlen. rewrite app_length. lia. Qed.
Lemma zlen_cons : forall (x : item) l, zlen (x :: l) = 1 + zlen l.
Proof. intros. unfold zlen. cbn [length]. lia. Qed.
Lemma zlen_nonneg : forall (l : list item), 0 <= zlen l.
Proof. intros. unfold zlen. lia. Qed.

Lemma del_nth_mid : forall (a : list item) x c, del_nth (length a) (a ++ x :: c) = a ++ c.
Proof. induction a; intros; cbn [length app del_nth]; [reflexivity|]. rewrite IHa. reflexivity. Qed.

Lemma nth_error_mid : forall (a : list item) x c, nth_error (a ++ x :: c) (length a) = Some x.
Proof. intros. rewrite nth_error_app2 by lia. rewrite Nat.sub_diag. reflexivity. Qed.

Lemma norm_index_mid : forall (a : list item) x c,
  norm_index (zlen a) (zlen (a ++ x :: c)) = Some (length a).
Proof.
  intros. rewrite norm_index_nonneg.
  - unfold zlen. rewrite Nat2Z.id. reflexivity.
  - rewrite zlen_app, zlen_cons. pose proof (zlen_nonneg a). pose proof (zlen_nonneg c). lia.
Qed.

(* del self[start] at a known split *)
Lemma sa_delitem_mid : forall a x c g,
  sa_delitem (zlen a) (a ++ x :: c, g) = (Ok tt, (a ++ c, g ++ [ERem x])).
Proof.
  intros. unfold sa_delitem, bind, b_getitem, fire, b_upd, lift. cbn [fst snd].
  unfold py_getitem, py_delitem. rewrite norm_index_mid, nth_error_mid. cbn [fst snd].
  rewrite norm_index_mid, del_nth_mid. reflexivity.
Qed.

(* for i in range(start, stop): if len(self) > start: del self[start] *)
Lemma del_loop_split : forall b a c g,
  del_loop (length b) (zlen a) (a ++ b ++ c, g) = (Ok tt, (a ++ c, g ++ map ERem b)).
Proof.
  induction b as [|x b IH]; intros a c g; cbn [length del_loop map app].
  - unfold ret. rewrite app_nil_r. reflexivity.
  - unfold bind at 1. unfold get at 1. cbn [fst snd].
    assert (E : zlen a <? zlen (a ++ x :: b ++ c) = true).
    { rewrite zlen_app, zlen_cons. pose proof (zlen_nonneg (b ++ c)). lia. }
    rewrite E. unfold bind at 1. rewrite sa_delitem_mid. rewrite IH.
    rewrite <- app_assoc. reflexivity.
Qed.

Lemma sa_insert_mid : forall a x c g,
  sa_insert (zlen a) x (a ++ c, g) = (Ok tt, (a ++ x :: c, g ++ [EAdd x])).
Proof.
  intros. unfold sa_insert, bind, fire, b_upd, lift. cbn [fst snd]. unfold py_insert, insert_pos.
  pose proof (zlen_nonneg a). pose proof (zlen_nonneg c).
  destruct (zlen a <? 0) eqn:E; [lia|]. rewrite zlen_app.
  replace (Z.min (zlen a) (zlen a + zlen c)) with (zlen a) by lia.
  unfold zlen at 1 2. rewrite Nat2Z.id.
  rewrite firstn_app, firstn_all, Nat.sub_diag, skipn_app, skipn_all, Nat.sub_diag.
  cbn [firstn skipn app]. rewrite app_nil_r. reflexivity.
Qed.

(* for i, item in enumerate(value): self.insert(i + start, item) *)
Lemma ins_loop_split : forall w a c g,
  ins_loop (zlen a) w (a ++ c, g) = (Ok tt, (a ++ w ++ c, g ++ map EAdd w)).
Proof.
  induction w as [|x w IH]; intros a c g; cbn [ins_loop map app].
  - unfold ret. rewrite app_nil_r. reflexivity.
  - unfold bind at 1. rewrite sa_insert_mid.
    replace (zlen a + 1) with (zlen (a ++ [x])) by (rewrite zlen_app; reflexivity).
    replace (a ++ x :: c) with ((a ++ [x]) ++ c) by (rewrite <- app_assoc; reflexivity).
    rewrite IH. rewrite <- !app_assoc. reflexivity.
Qed.

Lemma sa_setitem_in : forall l i x g, 0 <= i < zlen l ->
  exists y, nth_error l (Z.to_nat i) = Some y /\
    sa_setitem i x (l, g) = (Ok tt, (set_nth (Z.to_nat i) x l, g ++ [ERem y; EAdd x])).
Proof.
  intros l i x g Hi.
  destruct (nth_error l (Z.to_nat i)) as [y|] eqn:Ey.
  - exists y. split; [reflexivity|].
    unfold sa_setitem, bind, b_getitem, fire, b_upd, lift. cbn [fst snd].
    unfold py_getitem, py_setitem. rewrite (norm_index_nonneg i (zlen l) Hi), Ey. cbn [fst snd].
    rewrite (norm_index_nonneg i (zlen l) Hi). rewrite <- app_assoc. reflexivity.
  - apply nth_error_None in Ey. unfold zlen in Hi. lia.
Qed.

(* for i, item in zip(rng, value): self.__setitem__(i, item) *)
Lemma set_loop_assign : forall ivs l g, (forall iv, In iv ivs -> 0 <= fst iv < zlen l) ->
  exists g', set_loop ivs (l, g) = (Ok tt, (assign_at l ivs, g')).
Proof.
  induction ivs as [|[i x] r IH]; intros l g Hb; cbn [set_loop].
  - eexists. reflexivity.
  - destruct (sa_setitem_in l i x g (Hb (i, x) (or_introl eq_refl))) as [y [_ E]].
    unfold bind at 1. rewrite E.
    destruct (IH (set_nth (Z.to_nat i) x l) (g ++ [ERem y; EAdd x])) as [g' E'].
    + intros iv Hin. unfold zlen. rewrite set_nth_length. apply Hb. right. assumption.
    + exists g'. rewrite E'. reflexivity.
Qed.

Lemma for_each_append : forall w l g,
  for_each w sa_append (l, g) = (Ok tt, (l ++ w, g ++ map EAdd w)).
Proof.
  induction w as [|x w IH]; intros; cbn [for_each map].
  - unfold ret. rewrite !app_nil_r. reflexivity.
  - unfold bind at 1. unfold sa_append at 1. unfold bind, fire, b_upd, lift. cbn [fst snd].
    rewrite IH. rewrite <- !app_assoc. reflexivity.
Qed.

Lemma skipn_skipn' : forall (n m : nat) (l : list item), skipn n (skipn m l) = skipn (m + n) l.
Proof.
  intros n m. revert n. induction m; intros n l; [reflexivity|].
  destruct l; cbn [skipn plus]; [apply skipn_nil|apply IHm].
Qed.

(* the three-way split of a list at a step-1 slice *)
Lemma slice_split : forall (l : list item) start stop, 0 <= start <= zlen l -> 0 <= stop <= zlen l ->
  let n := length (range start stop 1) in
  exists a b c, l = a ++ b ++ c /\ zlen a = start /\ length b = n /\
    a = firstn (Z.to_nat start) l /\ c = skipn (Z.to_nat (Z.max start stop)) l.
Proof.
  intros l start stop Hs Hp n.
  assert (Hn : n = Z.to_nat (Z.max 0 (stop - start))).
  { unfold n. rewrite range_length, slicelen_step1. reflexivity. }
  set (s := Z.to_nat start).
  exists (firstn s l), (firstn n (skipn s l)), (skipn n (skipn s l)).
  unfold zlen in *. repeat split.
  - rewrite firstn_skipn, firstn_skipn. reflexivity.
  - rewrite firstn_length. lia.
  - rewrite firstn_length, skipn_length. lia.
  - rewrite skipn_skipn'. f_equal. lia.
Qed.

Definition sa_setslice_body (l : list item) (start stop step : Z) (v : value) : LM unit :=
  if step =? 1 then
    match v with
    | VSelf => ret tt
    | _ =>
      match materialise l v with
      | None => raise TypeError
      | Some w => del_loop (length (range start stop step)) start ;;; ins_loop start w
      end
    end
  else
    match materialise l v with
    | None => raise TypeError
    | Some w =>
        let rng := range start stop step in
        if Nat.eqb (length w) (length rng) then set_loop (combine rng w) else raise ValueError
    end.

Lemma sa_setslice_unfold : forall sl v l g,
  sa_setslice sl v (l, g) =
  match adjust sl (zlen l) with
  | Raise e => (Raise e, (l, g))
  | Ok (start, stop, step) => sa_setslice_body l start stop step v (l, g)
  end.
Proof.
  intros. unfold sa_setslice, sa_setslice_body, bind, get, lift. cbn [fst snd].
  destruct (adjust sl (zlen l)) as [[[start stop] step]|e]; reflexivity.
Qed.

(* what the builtin does, in the same shape *)
Definition py_setslice_res (l : list item) (sl : pyslice) (v : value) : res unit * list item :=
  match adjust sl (zlen l) with
  | Raise e => (Raise e, l)
  | Ok _ => match materialise l v with
            | None => (Raise TypeError, l)
            | Some w => match py_setslice l sl w with
                        | Ok l' => (Ok tt, l')
                        | Raise e => (Raise e, l)
                        end
            end
  end.

Lemma step1_seq : forall w (l : list item) g start stop,
  0 <= start <= zlen l -> 0 <= stop <= zlen l ->
  exists g', (del_loop (length (range start stop 1)) start ;;; ins_loop start w) (l, g) =
    (Ok tt, (firstn (Z.to_nat start) l ++ w ++ skipn (Z.to_nat (Z.max start stop)) l, g')).
Proof.
  intros w l g start stop Hs Hp.
  destruct (slice_split l start stop Hs Hp) as [a [b [c [El [Ea [Eb [Fa Fc]]]]]]].
  rewrite <- Fa, <- Fc. clear Fa Fc. rewrite El. rewrite <- Eb, <- Ea.
  unfold bind. rewrite del_loop_split, ins_loop_split. eexists. reflexivity.
Qed.

Lemma sa_setslice_eq : forall sl v l g, list_eq_guard l (LSetSlice sl v) = true ->
  exists g', sa_setslice sl v (l, g) =
             (fst (py_setslice_res l sl v), (snd (py_setslice_res l sl v), g')).
Proof.
  intros sl v l g Hg. rewrite sa_setslice_unfold. unfold py_setslice_res.
  destruct (adjust sl (zlen l)) as [[[start stop] step]|e] eqn:Ha; [|eexists; reflexivity].
  destruct (adjust_bounds _ _ _ _ _ (zlen_nonneg l) Ha) as [Hs0 [Hpos Hneg]].
  unfold py_setslice. rewrite Ha. unfold sa_setslice_body.
  destruct (step =? 1) eqn:E1.
  - assert (step = 1) by lia. subst step. destruct (Hpos ltac:(lia)) as [Bs Bp].
    destruct v as [w|w| |]; cbn [materialise fst snd].
    + apply step1_seq; assumption.
    + apply step1_seq; assumption.
    + cbn [list_eq_guard] in Hg. rewrite Ha in Hg. cbn [Z.eqb Pos.eqb] in Hg.
      apply andb_prop in Hg. destruct Hg as [G1 G2].
      assert (start = 0) by lia. assert (Z.max start stop = zlen l) by lia. subst start.
      rewrite H0. unfold zlen. rewrite Nat2Z.id, skipn_all. cbn [Z.to_nat firstn app].
      rewrite app_nil_r. eexists. reflexivity.
    + eexists. reflexivity.
  - destruct (materialise l v) as [w|]; cbn [fst snd]; [|eexists; reflexivity].
    destruct (Nat.eqb (length w) (length (range start stop step))) eqn:El.
    + destruct (set_loop_assign (combine (range start stop step) w) l g) as [g' E].
      { intros [i x] Hin. apply in_combine_l in Hin. cbn [fst].
        eapply range_in_bounds; eauto using zlen_nonneg. }
      exists g'. rewrite E. reflexivity.
    + eexists. reflexivity.
Qed.

(* same result and same contents (the event log is not compared here) *)
Definition agrees {C} (r : res retv * st C) (p : res retv * C) : Prop :=
  fst r = fst p /\ fst (snd r) = snd p.

Theorem list_op_eq_python : forall op l g, list_eq_guard l op = true ->
  agrees (sa_list_op op (l, g)) (py_list_op l op).
Proof.
  intros op l g Hg. unfold agrees.
  destruct op; cbn [sa_list_op py_list_op].
  - (* append *) unfold sa_append, bind, fire, b_upd, lift, ret. cbn. auto.
  - (* remove *) unfold sa_remove, bind, get, b_upd, lift. cbn [fst snd].
    destruct (mem x l); unfold fire, ret; cbn [fst snd]; destruct (py_remove l x); cbn; auto.
  - (* insert *) unfold sa_insert, bind, fire, b_upd, lift, ret. cbn. auto.
  - (* setitem *) unfold sa_setitem, bind, b_getitem, fire, b_upd, lift, ret. cbn [fst snd].
    unfold py_getitem, py_setitem.
    destruct (norm_index i (zlen l)) as [n|] eqn:En; [|cbn; auto].
    destruct (nth_error l n) eqn:Ey.
    + cbn [fst snd]. rewrite En. cbn. auto.
    + apply nth_error_None in Ey. pose proof (norm_index_lt _ _ _ _ En). lia.
  - (* setslice *)
    destruct (sa_setslice_eq sl v l g Hg) as [g' E]. unfold bind. rewrite E.
    unfold py_setslice_res.
    destruct (adjust sl (zlen l)) as [t|e]; [|cbn; auto].
    destruct (materialise l v) as [w|]; [|cbn; auto].
    destruct (py_setslice l sl w); cbn; auto.
  - (* delitem *) unfold sa_delitem, bind, b_getitem, fire, b_upd, lift, ret. cbn [fst snd].
    unfold py_getitem, py_delitem.
    destruct (norm_index i (zlen l)) as [n|] eqn:En; [|cbn; auto].
    destruct (nth_error l n) eqn:Ey.
    + cbn [fst snd]. rewrite En. cbn. auto.
    + apply nth_error_None in Ey. pose proof (norm_index_lt _ _ _ _ En). lia.
  - (* delslice *) unfold sa_delslice, bind, b_upd, lift. cbn [fst snd].
    destruct (py_getslice l sl) as [items|e] eqn:Eg.
    + rewrite (for_each_fire_map _ _ ERem). cbn [fst snd].
      destruct (py_delslice l sl) eqn:Ed; cbn; auto.
    + apply getslice_delslice_same_error in Eg. rewrite Eg. cbn. auto.
  - (* extend *) unfold sa_extend, bind, get. cbn [fst snd].
    destruct (materialise l v) as [w|]; [|cbn; auto]. rewrite for_each_append. cbn. auto.
  - (* += *) unfold sa_extend, bind, get. cbn [fst snd].
    destruct (materialise l v) as [w|]; [|cbn; auto]. rewrite for_each_append. cbn. auto.
  - (* pop *) unfold sa_pop, bind, fire, lift, ret. cbn [fst snd].
    destruct (py_pop l _) as [[x l']|e]; cbn; auto.
  - (* clear *) unfold sa_clear, bind, get, put. cbn [fst snd].
    rewrite (for_each_fire_map _ _ ERem). cbn. auto.
  - (* *= *) unfold bind, b_upd, lift, ret. cbn. auto.
  - (* reverse *) unfold bind, b_upd, lift, ret. cbn. auto.
  - (* read *) unfold bind, lift, ret. cbn [fst snd]. destruct (py_getslice l sl); cbn; auto.
Qed.

(* ====================================================================================== *)
(* 3. histories                                                                             *)
(* ====================================================================================== *)
(* the guard holds at every step of the instrumented run *)
Fixpoint sa_guarded (gd : list item -> lop -> bool) (ops : list lop) (s : st (list item)) : bool :=
  match ops with
  | [] => true
  | op :: r => gd (fst s) op && sa_guarded gd r (snd (sa_list_op op s))
  end.

Theorem list_history_eq_python : forall ops l g,
  all_guard list_eq_guard ops l = true ->
  fst (sa_list_run ops (l, g)) = fst (py_list_run ops l) /\
  fst (snd (sa_list_run ops (l, g))) = snd (py_list_run ops l).
Proof.
  induction ops as [|op r IH]; intros l g Hg; cbn [sa_list_run py_list_run]; [auto|].
  cbn [all_guard] in Hg. apply andb_prop in Hg. destruct Hg as [G1 G2].
  destruct (list_op_eq_python op l g G1) as [A1 A2].
  destruct (sa_list_op op (l, g)) as [x [l1 g1]]. cbn [fst snd] in A1, A2.
  destruct (py_list_op l op) as [y l2]. cbn [fst snd] in *. subst.
  destruct (IH l2 g1 G2) as [B1 B2].
  destruct (sa_list_run r (l2, g1)) as [xs s'']. destruct (py_list_run r l2) as [ys l''].
  cbn [fst snd] in *. subst. auto.
Qed.

Theorem list_history_accounted : forall ops l g,
  sa_guarded list_acct_guard ops (l, g) = true ->
  forall x, let '(_, (l', g')) := sa_list_run ops (l, g) in
            countZ x l' - countZ x l = net x g' - net x g.
Proof.
  induction ops as [|op r IH]; intros l g Hg x; cbn [sa_list_run]; [lia|].
  cbn [sa_guarded fst] in Hg. apply andb_prop in Hg. destruct Hg as [G1 G2].
  destruct (sa_list_op op (l, g)) as [rv [l1 g1]] eqn:E. cbn [snd] in G2.
  pose proof (list_op_accounted op l g rv l1 g1 G1 E x) as A.
  specialize (IH l1 g1 G2 x). destruct (sa_list_run r (l1, g1)) as [xs [l2 g2]]. lia.
Qed.

(* slice assignment of anything but the collection itself (list, tuple, iterator, non-iterable):
   no guard for any start / stop / step *)
Corollary list_slice_assignment_eq_python : forall start stop step v l g, v <> VSelf ->
  let op := LSetSlice (mkslice start stop step) v in
  fst (sa_list_op op (l, g)) = fst (py_list_op l op) /\
  fst (snd (sa_list_op op (l, g))) = snd (py_list_op l op).
Proof.
  intros start stop step v l g Hv. apply list_op_eq_python.
  destruct v; try reflexivity. congruence.
Qed.
