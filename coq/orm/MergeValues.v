(* C45 - the merge result is the instance of the identity map; its column values are the loaded source values,
   unloaded source attributes leave the target untouched (existing value / value loaded from the row / absent). *)
From Coq Require Import List Bool Arith ZArith Lia.
From SAV.orm Require Import Merge MergeProofs.
Import ListNotations.

(* ---------- well-formed session states ---------- *)
Record wf (s : mstate) : Prop := mkWf {
  wf_boundA : forall pk t, idA s pk = Some t -> t < next s;
  wf_boundB : forall pk t, idB s pk = Some t -> t < next s;
  wf_sep : forall pa pb ta tb, idA s pa = Some ta -> idB s pb = Some tb -> ta <> tb;
  wf_blank : forall x k, next s <= x -> cols s x k = None
}.

Lemma wf_m0 : wf m0.
Proof. constructor; intros; try discriminate; reflexivity. Qed.

Section Root.
Variable t : nat.   (* the target of the root source *)

(* [t] is allocated and is not an instance of class B *)
Definition P (s : mstate) : Prop := t < next s /\ forall pk, idB s pk <> Some t.
(* a step that leaves the identity map of A and the columns of [t] alone *)
Definition R (s s' : mstate) : Prop := P s -> P s' /\ idA s' = idA s /\ forall k, cols s' t k = cols s t k.

Lemma R_refl : forall s, R s s.
Proof. intros s H. auto. Qed.
Lemma R_trans : forall a b c, R a b -> R b c -> R a c.
Proof.
  intros a b c H1 H2 Pa. destruct (H1 Pa) as [Pb [I1 C1]]. destruct (H2 Pb) as [Pc [I2 C2]].
  split; [exact Pc|]. split; [congruence|]. intros k. rewrite C2. apply C1.
Qed.
(* steps that touch neither next, idA, idB nor any column *)
Lemma R_frame : forall s s', next s' = next s -> idA s' = idA s -> idB s' = idB s -> cols s' = cols s -> R s s'.
Proof.
  intros s s' N A B C [P1 P2]. split; [split; [rewrite N; exact P1|rewrite B; exact P2]|]. split; [exact A|]. intros k. rewrite C. reflexivity.
Qed.

Lemma upd2_other : forall A (f : nat -> nat -> A) a b v x y, x <> a -> upd2 f a b v x y = f x y.
Proof. intros. unfold upd2. destruct (Nat.eqb x a) eqn:E; [apply Nat.eqb_eq in E; contradiction|reflexivity]. Qed.

Lemma R_inc_sql : forall s, R s (inc_sql s).
Proof. intros. apply R_frame; reflexivity. Qed.

Lemma R_load_B : forall cfg s pk row, R s (fst (load_B cfg s pk row)).
Proof.
  intros cfg s pk row. unfold load_B. destruct (idB s pk); [apply R_refl|]. cbn [alloc fst].
  intros [P1 P2]. split; [split|split].
  - cbn [next set_idB set_cols set_tkey set_next]. lia.
  - intros pk'. cbn [idB set_idB set_cols set_tkey set_next]. unfold upd. destruct (Nat.eqb pk' pk).
    + intros E. inversion E. lia.
    + apply P2.
  - reflexivity.
  - intros k. cbn [cols set_idB set_cols set_tkey set_next]. rewrite !upd2_other by lia. reflexivity.
Qed.

Lemma R_get_B : forall cfg s pk, R s (fst (get_B cfg s pk)).
Proof.
  intros cfg s pk. unfold get_B. destruct (idB s pk); [apply R_refl|].
  destruct (assoc pk (rowsB cfg)) as [row|]; [|apply R_inc_sql].
  pose proof (R_load_B cfg (inc_sql s) pk row) as H. destruct (load_B cfg (inc_sql s) pk row) as [s1 t1]. cbn [fst] in *.
  eapply R_trans; [apply R_inc_sql|exact H].
Qed.

Lemma R_lazy_bs : forall cfg s t0, R s (lazy_bs cfg s t0).
Proof.
  intros cfg s t0. unfold lazy_bs. destruct (bs s t0); [apply R_refl|].
  destruct (tkey s t0) as [pk|]; [|apply R_frame; reflexivity].
  assert (G : forall rows a l, R a (fst (fold_left (fun sl r => let '(s, l) := sl in
                  match fst (snd r) with
                  | Some a => if Nat.eqb a pk then let '(s', c) := load_B cfg s (fst r) (snd r) in (s', l ++ [c]) else (s, l)
                  | None => (s, l) end) rows (a, l)))).
  { induction rows as [|r rows IH]; intros a l; cbn [fold_left]; [apply R_refl|].
    destruct (fst (snd r)) as [a0|]; [|apply IH]. destruct (Nat.eqb a0 pk); [|apply IH].
    pose proof (R_load_B cfg a (fst r) (snd r)) as H. destruct (load_B cfg a (fst r) (snd r)) as [s' c]. cbn [fst] in H.
    eapply R_trans; [exact H|apply IH]. }
  specialize (G (rowsB cfg) (inc_sql s) []).
  destruct (fold_left _ (rowsB cfg) (inc_sql s, [])) as [s1 l]. cbn [fst] in G.
  eapply R_trans; [apply R_inc_sql|]. eapply R_trans; [exact G|]. apply R_frame; reflexivity.
Qed.

Lemma R_set_parent : forall s c newp b chk, R s (set_parent s c newp b chk).
Proof.
  intros s c newp b chk.
  assert (F : next (set_parent s c newp b chk) = next s /\ idA (set_parent s c newp b chk) = idA s /\
              idB (set_parent s c newp b chk) = idB s /\ cols (set_parent s c newp b chk) = cols s).
  { unfold set_parent.
    repeat match goal with
           | |- context [match ?x with _ => _ end] => destruct x
           end; repeat split; reflexivity. }
  destruct F as [F1 [F2 [F3 F4]]]. apply R_frame; assumption.
Qed.

Lemma R_coll_set : forall cfg s t0 new, R s (coll_set cfg s t0 new).
Proof.
  intros cfg s t0 new. unfold coll_set.
  set (s1 := set_bs (set_modf (match bscomm s t0 with None => set_bscomm s t0 (Some (match bs s t0 with Some l => l | None => [] end)) | Some _ => s end) t0 true) t0 (Some [])).
  assert (R1 : R s s1). { apply R_frame; unfold s1; destruct (bscomm s t0); reflexivity. }
  assert (G1 : forall (f : mstate -> nat -> mstate) l a, (forall a m, R a (f a m)) -> R a (fold_left f l a)).
  { intros f. induction l as [|m l IH]; intros a H; cbn [fold_left]; [apply R_refl|]. eapply R_trans; [apply H|apply IH; exact H]. }
  eapply R_trans; [exact R1|]. eapply R_trans; apply G1.
  - intros a m. cbv zeta.
    set (a' := if mem m (filter (fun c => mem c new) (match bs s t0 with Some l => l | None => [] end)) then a
               else if hb cfg then set_parent a m (Some t0) true None else a).
    apply (R_trans a a'); [|apply R_frame; reflexivity]. unfold a'.
    destruct (mem m (filter (fun c => mem c new) (match bs s t0 with Some l => l | None => [] end))); [apply R_refl|].
    destruct (hb cfg); [apply R_set_parent|apply R_refl].
  - intros a m. destruct (mem m (filter (fun c => mem c new) (match bs s t0 with Some l => l | None => [] end))); [apply R_refl|].
    destruct (hb cfg); [apply R_set_parent|apply R_refl].
Qed.

Lemma R_commit_all : forall s c, R s (commit_all s c).
Proof. intros. apply R_frame; reflexivity. Qed.

(* column writes on an instance other than [t] *)
Lemma R_merge_col_other : forall load s c k v, c <> t -> R s (merge_col load s c k v).
Proof.
  intros load s c k v Hc. destruct v as [|x]; cbn [merge_col]; [apply R_refl|].
  intros [P1 P2]. destruct load.
  - unfold set_col. split; [split|split].
    + destruct (ccomm s c k); exact P1.
    + destruct (ccomm s c k); exact P2.
    + destruct (ccomm s c k); reflexivity.
    + intros k0. destruct (ccomm s c k); cbn [cols set_cols set_modf set_ccomm]; rewrite upd2_other by auto; reflexivity.
  - split; [split; [exact P1|exact P2]|]. split; [reflexivity|]. intros k0. cbn [cols set_cols]. rewrite upd2_other by auto. reflexivity.
Qed.

(* one child *)
Definition ctx_ok (ctx : mctx) : Prop := forall pk c, assoc pk (cmap ctx) = Some c -> c <> t.

Lemma R_merge_B : forall cfg load root sbs s ctx dest j s' ctx' dest',
  merge_B cfg load root sbs (Some (s, ctx, dest)) j = Some (s', ctx', dest') ->
  P s -> ctx_ok ctx -> (P s' /\ idA s' = idA s /\ forall k, cols s' t k = cols s t k) /\ ctx_ok ctx'.
Proof.
  intros cfg load root sbs s ctx dest j s' ctx' dest' H Ps Hctx. cbn [merge_B] in H.
  destruct (assoc j (memo ctx)) as [t0|].
  { inversion H; subst. split; [apply R_refl; exact Ps|exact Hctx]. }
  destruct (nth_error sbs j) as [src|].
  2:{ inversion H; subst. split; [|exact Hctx]. apply (R_frame s (set_poison s)); try reflexivity. exact Ps. }
  destruct (negb (sb_detached src) && negb load); [discriminate|].
  (* target resolution *)
  set (res := match match sb_pk src with Some pk => idB s pk | None => None end with
              | Some t0 => (s, Some t0)
              | None => match sb_pk src with
                        | Some pk => match assoc pk (cmap ctx) with
                                     | Some t0 => (s, Some t0)
                                     | None => if negb load then
                                                 let '(sa, t0) := alloc s in (set_idB (set_tkey sa t0 (Some pk)) pk (Some t0), Some t0)
                                               else get_B cfg s pk
                                     end
                        | None => (s, None)
                        end
              end) in *.
  assert (Res : (P (fst res) /\ idA (fst res) = idA s /\ forall k, cols (fst res) t k = cols s t k) /\
                (forall c, snd res = Some c -> c <> t)).
  { unfold res. destruct Ps as [P1 P2]. destruct (sb_pk src) as [pk|].
    - destruct (idB s pk) as [t0|] eqn:Ib.
      + cbn [fst snd]. split; [split; [split; assumption|split; [reflexivity|reflexivity]]|]. intros c E. inversion E; subst. intros F. subst. eapply P2; eauto.
      + destruct (assoc pk (cmap ctx)) as [t0|] eqn:Ic.
        * cbn [fst snd]. split; [split; [split; assumption|split; reflexivity]|]. intros c E. inversion E; subst. eapply Hctx; eauto.
        * destruct load; cbn [negb].
          { pose proof (R_get_B cfg s pk (conj P1 P2)) as G. split; [exact G|].
            intros c E. unfold get_B in *. rewrite Ib in *. destruct (assoc pk (rowsB cfg)) as [row|]; [|discriminate].
            unfold load_B in *. cbn [idB inc_sql] in *. rewrite Ib in *. cbn [alloc snd] in E. inversion E. cbn [next inc_sql]. lia. }
          { cbn [alloc fst snd]. split; [split; [split|split]|].
            - cbn [next set_idB set_tkey set_next]. lia.
            - intros pk'. cbn [idB set_idB set_tkey set_next]. unfold upd. destruct (Nat.eqb pk' pk); [intros E; inversion E; lia|apply P2].
            - reflexivity.
            - reflexivity.
            - intros c E. inversion E. lia. }
    - cbn [fst snd]. split; [split; [split; assumption|split; reflexivity]|]. intros c E. discriminate. }
  destruct res as [s1 tgt]. cbn [fst snd] in Res. destruct Res as [[P1 [A1 C1]] Htgt].
  set (al := match tgt with Some t0 => (s1, t0) | None => let '(sa, t0) := alloc s1 in (set_pending sa t0, t0) end) in *.
  assert (Al : (P (fst al) /\ idA (fst al) = idA s /\ forall k, cols (fst al) t k = cols s t k) /\ snd al <> t).
  { unfold al. destruct tgt as [t0|].
    - cbn [fst snd]. split; [split; [exact P1|split; assumption]|]. apply Htgt. reflexivity.
    - cbn [alloc fst snd]. destruct P1 as [Q1 Q2]. split; [split; [split|split]|].
      + cbn [next set_pending set_next]. lia.
      + exact Q2.
      + exact A1.
      + exact C1.
      + lia. }
  destruct al as [s2 tc]. cbn [fst snd] in Al. destruct Al as [[P2 [A2 C2]] Hne].
  inversion H; subst; clear H.
  set (s3 := match sb_pk src with Some pk => merge_col load s2 tc 0 (SV (zpk pk)) | None => s2 end).
  assert (R3 : R s2 s3). { unfold s3. destruct (sb_pk src); [apply R_merge_col_other; exact Hne|apply R_refl]. }
  set (s4 := merge_col load s3 tc 1 (sb_v src)).
  assert (R4 : R s3 s4) by (apply R_merge_col_other; exact Hne).
  set (s5 := if hb cfg && mb cfg && negb load then
               match sb_a src with BPunloaded => s4 | BPnone => set_par s4 tc (Some None) | BPparent => set_par s4 tc (Some (Some root)) end
             else s4).
  assert (R5 : R s4 s5).
  { unfold s5. destruct (hb cfg && mb cfg && negb load); [|apply R_refl]. destruct (sb_a src); [apply R_refl| |]; apply R_frame; reflexivity. }
  assert (R6 : R s5 (if load then s5 else commit_all s5 tc)) by (destruct load; [apply R_refl|apply R_commit_all]).
  pose proof (R_trans _ _ _ R3 (R_trans _ _ _ R4 (R_trans _ _ _ R5 R6)) P2) as [P6 [A6 C6]].
  split.
  - split; [exact P6|]. split; [transitivity (idA s2); [exact A6|exact A2]|].
    intros k. transitivity (cols s2 t k); [apply C6|apply C2].
  - intros pk c. cbn [cmap]. destruct (sb_pk src) as [pk0|]; [|apply Hctx]. rewrite assoc_cons.
    destruct (Nat.eqb pk pk0); [intros E; inversion E; subst; exact Hne|apply Hctx].
Qed.

Lemma R_fold_merge_B : forall cfg load root sbs js s ctx dest s' ctx' dest',
  fold_left (merge_B cfg load root sbs) js (Some (s, ctx, dest)) = Some (s', ctx', dest') ->
  P s -> ctx_ok ctx -> P s' /\ idA s' = idA s /\ forall k, cols s' t k = cols s t k.
Proof.
  intros cfg load root sbs. induction js as [|j js IH]; intros s ctx dest s' ctx' dest' H Ps Hc; cbn [fold_left] in H.
  - inversion H; subst. auto.
  - destruct (merge_B cfg load root sbs (Some (s, ctx, dest)) j) as [[[s1 ctx1] dest1]|] eqn:E.
    + destruct (R_merge_B _ _ _ _ _ _ _ _ _ _ _ E Ps Hc) as [[P1 [A1 C1]] Hc1].
      destruct (IH _ _ _ _ _ _ H P1 Hc1) as [P2 [A2 C2]]. split; [exact P2|]. split; [congruence|]. intros k. rewrite C2. apply C1.
    + exfalso. clear -H. induction js; cbn [fold_left] in H; [discriminate|auto].
Qed.
End Root.

(* ---------- the value a column has on the target before the source values are copied ---------- *)
Definition base_col (cfg : mconfig) (load : bool) (s : mstate) (src : srcA) (k : nat) : option (option Z) :=
  match sa_pk src with
  | Some pk =>
      match idA s pk with
      | Some e => cols s e k                                     (* the instance the session already holds *)
      | None => if load then
                  match assoc pk (rowsA cfg) with
                  | Some row => Some (match k with 0 => zpk pk | 1 => fst row | _ => snd row end)   (* loaded by Session.get *)
                  | None => None                                 (* no row: a new pending instance *)
                  end
                else None                                        (* load=False: a new empty instance *)
      end
  | None => None
  end.

Definition copied (v : sattr (option Z)) (base : option (option Z)) : option (option Z) :=
  match v with SV x => Some x | SU => base end.

Lemma cols_merge_col_same : forall load s t k v k',
  cols (merge_col load s t k v) t k' = if Nat.eqb k' k then copied v (cols s t k) else cols s t k'.
Proof.
  intros load s t k v k'. destruct v as [|x]; cbn [merge_col copied].
  - destruct (Nat.eqb k' k) eqn:E; [apply Nat.eqb_eq in E; subst|]; reflexivity.
  - destruct load.
    + unfold set_col. destruct (ccomm s t k); cbn [cols set_cols set_modf set_ccomm]; unfold upd2; rewrite Nat.eqb_refl; cbn [andb];
        destruct (Nat.eqb k' k); reflexivity.
    + cbn [cols set_cols]. unfold upd2. rewrite Nat.eqb_refl. cbn [andb]. destruct (Nat.eqb k' k); reflexivity.
Qed.

(* merge_returns_identity_instance + merged_values_eq_loaded_source_values (columns of the merged object) *)
Theorem merge_identity_and_values : forall cfg load sbs s src s' t,
  wf s -> merge_A cfg load sbs s src = Some (s', t) ->
  (* identity *)
  (forall pk, sa_pk src = Some pk ->
     (forall e, idA s pk = Some e -> t = e) /\
     (load = false \/ idA s pk <> None \/ assoc pk (rowsA cfg) <> None -> idA s' pk = Some t)) /\
  (* values *)
  cols s' t 1 = copied (sa_x src) (base_col cfg load s src 1) /\
  cols s' t 2 = copied (sa_y src) (base_col cfg load s src 2).
Proof.
  intros cfg load sbs s src s' t W H. unfold merge_A in H.
  destruct (negb (sa_detached src) && negb load); [discriminate|].
  (* target resolution *)
  set (res := match match sa_pk src with Some pk => idA s pk | None => None end with
              | Some t0 => (s, Some t0)
              | None => match sa_pk src with
                        | Some pk => if negb load then
                                       let '(sa, t0) := alloc s in (set_idA (set_tkey sa t0 (Some pk)) pk (Some t0), Some t0)
                                     else get_A cfg s pk
                        | None => (s, None)
                        end
              end) in *.
  set (al := match snd res with Some t0 => (fst res, t0) | None => let '(sa, t0) := alloc (fst res) in (set_pending sa t0, t0) end).
  assert (Hal : (let '(s1, tgt) := res in match tgt with Some t0 => (s1, t0) | None => let '(sa, t0) := alloc s1 in (set_pending sa t0, t0) end) = al).
  { unfold al. destruct res as [s1 tgt]. reflexivity. }
  (* facts about the resolved target *)
  assert (F : let s2 := fst al in let t0 := snd al in
              P t0 s2 /\
              (forall pk, sa_pk src = Some pk ->
                 (forall e, idA s pk = Some e -> t0 = e) /\
                 (load = false \/ idA s pk <> None \/ assoc pk (rowsA cfg) <> None -> idA s2 pk = Some t0)) /\
              (forall k, k <= 2 -> cols s2 t0 k = base_col cfg load s src k)).
  { unfold al, res, base_col. destruct W as [WA WB WS WBl]. destruct (sa_pk src) as [pk|].
    - destruct (idA s pk) as [e|] eqn:Ia.
      + cbn [fst snd]. split; [split; [eapply WA; eauto|intros pk' F; eapply WS; eauto]|]. split; [|reflexivity].
        intros pk0 E. inversion E; subst. split; [intros e0 E0; congruence|intros _; exact Ia].
      + destruct load; cbn [negb].
        * unfold get_A. rewrite Ia. destruct (assoc pk (rowsA cfg)) as [row|] eqn:Ar.
          { unfold load_A. cbn [alloc fst snd]. split; [split|split].
            - cbn [next set_idA set_cols set_tkey set_next inc_sql]. lia.
            - intros pk' F. cbn [idB set_idA set_cols set_tkey set_next inc_sql] in F. apply WB in F. cbn in F. lia.
            - intros pk0 E. inversion E; subst. split; [intros e0 E0; congruence|]. intros _.
              cbn [idA set_idA]. unfold upd. rewrite Nat.eqb_refl. reflexivity.
            - intros k Hk2. cbn [cols set_idA set_cols set_tkey set_next inc_sql next]. unfold upd2. rewrite !Nat.eqb_refl. cbn [andb].
              destruct k as [|[|[|k]]]; cbn [Nat.eqb]; try reflexivity. lia. }
          { cbn [alloc fst snd]. split; [split|split].
            - cbn [next set_pending set_next inc_sql]. lia.
            - intros pk' F. cbn [idB set_pending set_next inc_sql] in F. apply WB in F. cbn in F. lia.
            - intros pk0 E. inversion E; subst. split; [intros e0 E0; congruence|]. intros [F|[F|F]]; [discriminate|contradiction|contradiction].
            - intros k Hk2. cbn [cols set_pending set_next inc_sql next]. apply WBl. lia. }
        * cbn [alloc fst snd]. split; [split|split].
          { cbn [next set_idA set_tkey set_next]. lia. }
          { intros pk' F. cbn [idB set_idA set_tkey set_next] in F. apply WB in F. cbn in F. lia. }
          { intros pk0 E. inversion E; subst. split; [intros e0 E0; congruence|]. intros _.
            cbn [idA set_idA]. unfold upd. rewrite Nat.eqb_refl. reflexivity. }
          { intros k Hk2. cbn [cols set_idA set_tkey set_next]. apply WBl. lia. }
    - cbn [alloc fst snd]. split; [split|split].
      + cbn [next set_pending set_next]. lia.
      + intros pk' F. cbn [idB set_pending set_next] in F. apply WB in F. cbn in F. lia.
      + intros pk0 E. discriminate.
      + intros k Hk2. cbn [cols set_pending set_next]. apply WBl. lia. }
  clear Hal. cbv zeta in F. clearbody res. destruct res as [s1 tgt]. cbv iota beta in H.
  change (match tgt with Some t1 => (s1, t1) | None => let '(sa, t2) := alloc s1 in (set_pending sa t2, t2) end) with al in H.
  clearbody al. destruct al as [s2 t0]. cbn [fst snd] in F. destruct F as [P2 [Fid Fcols]].
  set (s3 := match sa_pk src with Some pk => merge_col load s2 t0 0 (SV (zpk pk)) | None => s2 end) in *.
  set (s4 := merge_col load (merge_col load s3 t0 1 (sa_x src)) t0 2 (sa_y src)) in *.
  (* the columns of t0 right after the column properties were merged *)
  assert (C4 : cols s4 t0 1 = copied (sa_x src) (base_col cfg load s src 1) /\
               cols s4 t0 2 = copied (sa_y src) (base_col cfg load s src 2)).
  { unfold s4. rewrite !cols_merge_col_same. cbn [Nat.eqb].
    assert (C3 : forall k, k <> 0 -> cols s3 t0 k = cols s2 t0 k).
    { intros k Hk. unfold s3. destruct (sa_pk src); [|reflexivity]. rewrite cols_merge_col_same.
      destruct (Nat.eqb k 0) eqn:E; [apply Nat.eqb_eq in E; contradiction|reflexivity]. }
    rewrite !C3 by discriminate. rewrite !Fcols by lia. split; reflexivity. }
  assert (Fr4 : P t0 s4 /\ idA s4 = idA s2).
  { unfold s4, s3. destruct P2 as [Q1 Q2].
    assert (G : forall a k v, (t0 < next a /\ forall pk, idB a pk <> Some t0) ->
                (t0 < next (merge_col load a t0 k v) /\ forall pk, idB (merge_col load a t0 k v) pk <> Some t0) /\
                idA (merge_col load a t0 k v) = idA a).
    { intros a k v Ha. destruct v as [|x]; cbn [merge_col]; [auto|]. destruct load; [unfold set_col; destruct (ccomm a t0 k)|]; auto. }
    destruct (sa_pk src) as [pk|].
    - destruct (G s2 0 (SV (zpk pk)) (conj Q1 Q2)) as [G1 I1]. destruct (G _ 1 (sa_x src) G1) as [G2 I2].
      destruct (G _ 2 (sa_y src) G2) as [G3 I3]. split; [exact G3|congruence].
    - destruct (G s2 1 (sa_x src) (conj Q1 Q2)) as [G2 I2]. destruct (G _ 2 (sa_y src) G2) as [G3 I3]. split; [exact G3|congruence]. }
  destruct Fr4 as [P4 A4].
  (* the relationship part and the final commit leave idA and the columns of t0 alone *)
  assert (Fin : forall s7, (match sa_bs src with
                  | SV js => if mf cfg then
                               match fold_left (merge_B cfg load t0 sbs) js (Some (if load then lazy_bs cfg s4 t0 else s4, mkCtx [] [], [])) with
                               | None => None
                               | Some (s6, _, dest) => Some (if load then coll_set cfg s6 t0 dest else set_bs s6 t0 (Some dest))
                               end
                             else Some s4
                  | SU => Some s4 end) = Some s7 ->
                idA s7 = idA s4 /\ forall k, cols s7 t0 k = cols s4 t0 k).
  { intros s7 E. destruct (sa_bs src) as [|js]; [inversion E; subst; auto|].
    destruct (mf cfg); [|inversion E; subst; auto].
    set (s5 := if load then lazy_bs cfg s4 t0 else s4) in *.
    assert (R5 : R t0 s4 s5) by (unfold s5; destruct load; [apply R_lazy_bs|apply R_refl]).
    destruct (R5 P4) as [P5 [A5 C5]].
    destruct (fold_left (merge_B cfg load t0 sbs) js (Some (s5, mkCtx [] [], []))) as [[[s6 ctx6] dest]|] eqn:Fo; [|discriminate].
    assert (Hc0 : ctx_ok t0 (mkCtx [] [])) by (intros pk c E0; discriminate).
    destruct (R_fold_merge_B t0 _ _ _ _ _ _ _ _ _ _ _ Fo P5 Hc0) as [P6 [A6 C6]].
    inversion E; subst; clear E.
    assert (R7 : R t0 s6 (if load then coll_set cfg s6 t0 dest else set_bs s6 t0 (Some dest))).
    { destruct load; [apply R_coll_set|apply R_frame; reflexivity]. }
    destruct (R7 P6) as [_ [A7 C7]]. split; [congruence|]. intros k. rewrite C7, C6, C5. reflexivity. }
  destruct (match sa_bs src with SV js => _ | SU => Some s4 end) as [s7|] eqn:E7; [|discriminate].
  destruct (Fin s7 eq_refl) as [A7 C7].
  inversion H; subst; clear H.
  assert (Last : idA (if load then s7 else commit_all s7 t) = idA s7 /\
                 forall k, cols (if load then s7 else commit_all s7 t) t k = cols s7 t k) by (destruct load; split; reflexivity).
  destruct Last as [A8 C8].
  split; [|rewrite !C8, !C7; exact C4].
  intros pk Hpk. destruct (Fid pk Hpk) as [F1 F2]. split; [exact F1|]. intros Hc. rewrite A8, A7, A4. apply F2, Hc.
Qed.
