(* C30 - proofs for the composite natural key model: after a flush at the end of any history the child rows
   carry the CURRENT key of their parent in every column, for keys of any number of columns *)
From Coq Require Import List NArith ZArith Bool Lia.
Import ListNotations.
From SAV.orm Require Import FlushSync.
Local Open Scope N_scope.

(* the heart: "no synchronize pair has a deleted history" means the key is unchanged - for ANY number of pairs *)
Lemma source_modified_false old new : length old = length new -> source_modified old new = false -> old = new.
Proof. revert new. induction old as [|o os IH]; intros [|n ns] L H; simpl in *; try reflexivity; try discriminate.
  destruct (Z.eqb o n) eqn:E; simpl in H; [|discriminate]. apply Z.eqb_eq in E. subst. f_equal. apply IH; [lia|exact H]. Qed.
Lemma source_modified_true old new : source_modified old new = true -> old <> new.
Proof. revert new. induction old as [|o os IH]; intros [|n ns] H; simpl in *; try discriminate.
  destruct (Z.eqb o n) eqn:E; simpl in H.
  - intros X. inversion X. apply (IH ns H). assumption.
  - intros X. inversion X. subst. rewrite Z.eqb_refl in E. discriminate. Qed.

(* looking at the first pair only is NOT enough (this is what a seeded change did) *)
Definition first_pair_only (old new : list Z) : bool :=
  match old, new with o :: _, n :: _ => negb (Z.eqb o n) | _, _ => false end.
Lemma first_pair_only_insufficient : exists old new, length old = length new /\ first_pair_only old new = false /\ old <> new.
Proof. exists [1%Z; 2%Z], [1%Z; 3%Z]. repeat split. discriminate. Qed.

Lemma lassoc_map {A} (f : chd -> A) l i : NoDup (map c_id l) ->
  lassoc i (map (fun c => (c_id c, f c)) l) = match find (fun c => N.eqb (c_id c) i) l with Some c => Some (f c) | None => None end.
Proof. induction l as [|a l IH]; simpl; intros Hn; [reflexivity|]. inversion Hn; subst.
  destruct (N.eqb (c_id a) i); [reflexivity|apply IH; assumption]. Qed.

Lemma find_app' {A} (f : A -> bool) l1 l2 : find f (l1 ++ l2) = match find f l1 with Some x => Some x | None => find f l2 end.
Proof. induction l1 as [|a l1 IH]; simpl; [reflexivity|]. destruct (f a); [reflexivity|exact IH]. Qed.

Lemma find_map_id (f : par -> par) l i : (forall p, p_id (f p) = p_id p) ->
  find (fun p => N.eqb (p_id p) i) (map f l) = match find (fun p => N.eqb (p_id p) i) l with Some p => Some (f p) | None => None end.
Proof. intros Hf. induction l as [|a l IH]; simpl; [reflexivity|]. rewrite Hf. destruct (N.eqb (p_id a) i); [reflexivity|exact IH]. Qed.
Lemma find_map_cid (f : chd -> chd) l i : (forall c, c_id (f c) = c_id c) ->
  find (fun c => N.eqb (c_id c) i) (map f l) = match find (fun c => N.eqb (c_id c) i) l with Some c => Some (f c) | None => None end.
Proof. intros Hf. induction l as [|a l IH]; simpl; [reflexivity|]. rewrite Hf. destruct (N.eqb (c_id a) i); [reflexivity|exact IH]. Qed.

Lemma nodup_snoc (l : list N) x : NoDup l -> ~ In x l -> NoDup (l ++ [x]).
Proof. induction l as [|a l IH]; simpl; intros Hn Hx; [constructor; [intros []|constructor]|]. inversion Hn; subst.
  constructor; [|apply IH; tauto]. intros X. apply in_app_or in X. destruct X as [X|[X|[]]]; [contradiction|]. apply Hx. left. symmetry. exact X. Qed.

(* the key of the parent's row *)
Definition committed_fk (s : nstate) (p : option N) : option (list Z) :=
  match p with Some p' => match get_par s p' with Some x => Some (p_old x) | None => None end | None => None end.

Record NInv (s : nstate) : Prop := {
  n_nodup : NoDup (map c_id (chds s));
  n_st : forall c, In c (chds s) -> c_st c = 1 \/ c_st c = 2;
  n_len : forall p, In p (pars s) -> length (p_key p) = length (p_old p);
  n_ref : forall c, In c (chds s) -> forall p', c_par c = Some p' ->
            exists x, get_par s p' = Some x /\ (c_pd c = false -> c_st c = 2 -> p_st x = 2);
  n_row : forall c, In c (chds s) -> c_st c = 2 -> c_pd c = false -> lassoc (c_id c) (crow s) = Some (committed_fk s (c_par c))
}.

Lemma ninv_empty : NInv nempty.
Proof. constructor; simpl; try (intros; contradiction). constructor. Qed.


Lemma set_nth_length j v l : length (set_nth j v l) = length l.
Proof. revert j. induction l as [|a l IH]; intros [|j]; simpl; auto. Qed.

Lemma get_par_in s i x : get_par s i = Some x -> In x (pars s) /\ p_id x = i.
Proof. unfold get_par. intros H. apply find_some in H. destruct H as [A B]. apply N.eqb_eq in B. auto. Qed.

Lemma ninv_step n s o : NInv s -> NInv (nstep n s o).
Proof.
  intros Hi. destruct o as [i k|i|c p|p j v|]; simpl; try exact Hi.
  - (* NewP *)
    destruct (get_par s i) eqn:G; [exact Hi|]. destruct (Nat.eqb (length k) n && key_free s i k); [|exact Hi].
    assert (Hg : forall q x, get_par s q = Some x ->
              get_par {| pars := pars s ++ [{| p_id := i; p_st := 1; p_key := k; p_old := k |}]; chds := chds s; prow := prow s; crow := crow s |} q = Some x).
    { intros q x H. unfold get_par in *. simpl. rewrite find_app', H. reflexivity. }
    constructor; simpl.
    + apply (n_nodup _ Hi).
    + apply (n_st _ Hi).
    + intros p Hp. apply in_app_or in Hp. destruct Hp as [Hp|[<-|[]]]; [apply (n_len _ Hi), Hp|reflexivity].
    + intros c Hc p' Hp. destruct (n_ref _ Hi c Hc p' Hp) as [x [A B]]. exists x. split; [apply Hg, A|exact B].
    + intros c Hc S D. rewrite (n_row _ Hi c Hc S D). f_equal. unfold committed_fk. destruct (c_par c) as [p'|] eqn:E; [|reflexivity].
      destruct (n_ref _ Hi c Hc p' E) as [x [A _]]. rewrite A, (Hg _ _ A). reflexivity.
  - (* NewC *)
    destruct (get_chd s i) eqn:G; [exact Hi|].
    assert (Hni : ~ In i (map c_id (chds s))).
    { intros X. apply in_map_iff in X. destruct X as [c [E Hc]]. unfold get_chd in G.
      pose proof (find_none _ _ G c Hc) as F. simpl in F. rewrite E, N.eqb_refl in F. discriminate. }
    constructor; simpl.
    + rewrite map_app. simpl. apply nodup_snoc; [apply (n_nodup _ Hi)|exact Hni].
    + intros c Hc. apply in_app_or in Hc. destruct Hc as [Hc|[<-|[]]]; [apply (n_st _ Hi), Hc|left; reflexivity].
    + apply (n_len _ Hi).
    + intros c Hc p' Hp. apply in_app_or in Hc. destruct Hc as [Hc|[<-|[]]]; [apply (n_ref _ Hi c Hc p' Hp)|discriminate].
    + intros c Hc S D. apply in_app_or in Hc. destruct Hc as [Hc|[<-|[]]]; [apply (n_row _ Hi c Hc S D)|discriminate].
  - (* SetPar *)
    destruct (get_chd s c) eqn:G; [|exact Hi].
    destruct (match p with Some p' => match get_par s p' with Some _ => true | None => false end | None => true end) eqn:Pe; [|exact Hi].
    constructor; simpl.
    + rewrite map_map. erewrite map_ext; [apply (n_nodup _ Hi)|]. intros x. destruct (N.eqb (c_id x) c); reflexivity.
    + intros x Hx. apply in_map_iff in Hx. destruct Hx as [x0 [E Hx]]. destruct (N.eqb (c_id x0) c); subst x; simpl; apply (n_st _ Hi x0 Hx).
    + apply (n_len _ Hi).
    + intros x Hx p' Hp. apply in_map_iff in Hx. destruct Hx as [x0 [E Hx]]. destruct (N.eqb (c_id x0) c); subst x.
      * simpl in Hp. subst p. destruct (get_par s p') as [y|] eqn:Gy; [|discriminate]. exists y. split; [exact Gy|]. simpl. discriminate.
      * apply (n_ref _ Hi x0 Hx p' Hp).
    + intros x Hx S D. apply in_map_iff in Hx. destruct Hx as [x0 [E Hx]]. destruct (N.eqb (c_id x0) c); subst x; [simpl in D; discriminate|].
      apply (n_row _ Hi x0 Hx S D).
  - (* SetKey *)
    destruct (get_par s p) as [x|] eqn:G; [|exact Hi]. destruct (Nat.ltb j n && key_free s p (set_nth j v (p_key x))); [|exact Hi].
    set (f := fun y => if N.eqb (p_id y) p
                        then {| p_id := p_id y; p_st := p_st y; p_key := set_nth j v (p_key y);
                                p_old := if N.eqb (p_st y) 1 then set_nth j v (p_key y) else p_old y |} else y).
    assert (Hf : forall y, p_id (f y) = p_id y) by (intros y; unfold f; destruct (N.eqb (p_id y) p); reflexivity).
    assert (Hst : forall y, p_st (f y) = p_st y) by (intros y; unfold f; destruct (N.eqb (p_id y) p); reflexivity).
    assert (Hg : forall q, get_par {| pars := map f (pars s); chds := chds s; prow := prow s; crow := crow s |} q =
                           match get_par s q with Some y => Some (f y) | None => None end).
    { intros q. unfold get_par. simpl. apply find_map_id, Hf. }
    constructor; simpl.
    + apply (n_nodup _ Hi).
    + apply (n_st _ Hi).
    + intros y Hy. apply in_map_iff in Hy. destruct Hy as [y0 [<- Hy]]. pose proof (n_len _ Hi y0 Hy) as L. unfold f.
      destruct (N.eqb (p_id y0) p); [|exact L]. simpl. destruct (N.eqb (p_st y0) 1); [reflexivity|]. rewrite set_nth_length. exact L.
    + intros c Hc p' Hp. destruct (n_ref _ Hi c Hc p' Hp) as [y [A B]]. exists (f y). split; [rewrite Hg, A; reflexivity|]. rewrite Hst. exact B.
    + intros c Hc S D. rewrite (n_row _ Hi c Hc S D). f_equal. unfold committed_fk. destruct (c_par c) as [p'|] eqn:E; [|reflexivity].
      destruct (n_ref _ Hi c Hc p' E) as [y [A B]]. rewrite Hg, A. f_equal. unfold f. destruct (N.eqb (p_id y) p); [|reflexivity]. simpl.
      rewrite (B D S). reflexivity.
Qed.

Definition fpar (p : par) : par := {| p_id := p_id p; p_st := 2; p_key := p_key p; p_old := p_key p |}.
Lemma get_par_flush s q : get_par (nflush s) q = match get_par s q with Some y => Some (fpar y) | None => None end.
Proof. unfold get_par. simpl. apply (find_map_id fpar). reflexivity. Qed.
Lemma fk_from_flush s p : fk_from (nflush s) p = fk_from s p.
Proof. unfold fk_from. destruct p as [p'|]; [|reflexivity]. rewrite get_par_flush. destruct (get_par s p'); reflexivity. Qed.

(* one flush: the rows become the rows of the graph *)
Theorem nflush_spec s : NInv s -> prow (nflush s) = spec_prow (nflush s) /\ crow (nflush s) = spec_crow (nflush s).
Proof.
  intros Hi. split.
  - unfold spec_prow. simpl. rewrite map_map. reflexivity.
  - unfold spec_crow. simpl. rewrite map_map. apply map_ext_in. intros c Hc. simpl. f_equal. rewrite fk_from_flush.
    destruct (N.eqb (c_st c) 1 || c_pd c) eqn:E; [reflexivity|]. apply orb_false_iff in E. destruct E as [E1 E2].
    assert (S2 : c_st c = 2) by (destruct (n_st _ Hi c Hc) as [X|X]; [rewrite X in E1; discriminate|exact X]).
    pose proof (n_row _ Hi c Hc S2 E2) as R. rewrite R. unfold committed_fk, fk_from.
    destruct (c_par c) as [p'|] eqn:Ep; [|reflexivity].
    destruct (n_ref _ Hi c Hc p' Ep) as [x [A B]]. rewrite A. rewrite (B E2 S2). simpl.
    destruct (source_modified (p_old x) (p_key x)) eqn:M; [reflexivity|].
    apply get_par_in in A. destruct A as [A _]. f_equal. apply source_modified_false; [symmetry; apply (n_len _ Hi x A)|exact M].
Qed.

Lemma find_nodup_c l c : NoDup (map c_id l) -> In c l -> find (fun x => N.eqb (c_id x) (c_id c)) l = Some c.
Proof. induction l as [|a l IH]; simpl; intros Hn Hc; [contradiction|]. inversion Hn; subst.
  destruct Hc as [->|Hc]; [rewrite N.eqb_refl; reflexivity|]. destruct (N.eqb (c_id a) (c_id c)) eqn:E; [|apply IH; assumption].
  apply N.eqb_eq in E. exfalso. apply H1. rewrite E. apply in_map, Hc. Qed.

Lemma ninv_flush s : NInv s -> NInv (nflush s).
Proof. intros Hi. destruct (nflush_spec s Hi) as [_ C]. constructor; simpl.
  - rewrite map_map. apply (n_nodup _ Hi).
  - intros c Hc. apply in_map_iff in Hc. destruct Hc as [c0 [<- _]]. right. reflexivity.
  - intros p Hp. apply in_map_iff in Hp. destruct Hp as [p0 [<- _]]. reflexivity.
  - intros c Hc p' Hp. apply in_map_iff in Hc. destruct Hc as [c0 [<- Hc]]. simpl in Hp.
    destruct (n_ref _ Hi c0 Hc p' Hp) as [x [A _]]. exists (fpar x). split; [rewrite get_par_flush, A; reflexivity|reflexivity].
  - intros c Hc _ _. change (lassoc (c_id c) (crow (nflush s)) = Some (committed_fk (nflush s) (c_par c))). rewrite C.
    unfold spec_crow. rewrite (lassoc_map (fun c => fk_from (nflush s) (c_par c))) by (simpl; rewrite map_map; apply (n_nodup _ Hi)).
    assert (F : find (fun x => N.eqb (c_id x) (c_id c)) (chds (nflush s)) = Some c).
    { apply find_nodup_c; [simpl; rewrite map_map; apply (n_nodup _ Hi)|exact Hc]. }
    rewrite F. f_equal. unfold fk_from, committed_fk. destruct (c_par c) as [p'|]; [|reflexivity]. rewrite get_par_flush.
    destruct (get_par s p'); reflexivity.
Qed.

Theorem ninv_history n : forall h s, NInv s -> NInv (napply n s h).
Proof. induction h as [|o h IH]; intros s Hi; [exact Hi|]. simpl. apply IH. destruct o; try (apply ninv_step; exact Hi). apply ninv_flush, Hi. Qed.

(* after a flush at the end of ANY history, for keys of ANY number of columns: the parent rows carry the
   current keys and every child row carries, in every column, the current key of its parent (or NULL) *)
Theorem key_change_writes_graph_main : forall n h, let s := nflush (napply n nempty h) in
  prow s = spec_prow s /\ crow s = spec_crow s.
Proof. intros n h s. apply nflush_spec. apply ninv_history, ninv_empty. Qed.
