(* C53 - several objects deleted in one flush: exactly the rows of the deleted identities (pk, token)
   disappear, each from its own shard - whatever other shards hold the same primary key *)
From Coq Require Import List ZArith NArith Bool Lia.
Import ListNotations.
From SAV.orm Require Import Shard ShardDb ShardInv ShardFlush ShardLoad ShardOps.
Open Scope Z_scope.

Lemma nth_upd_same : forall {A} (f : A -> A) l n y, nth_error l n = Some y -> nth_error (upd_nth n f l) n = Some (f y).
Proof. induction l as [|a l IH]; intros [|n] y H; simpl in *; try discriminate; auto. now injection H as ->. Qed.
Lemma nth_upd_other : forall {A} (f : A -> A) l n o, o <> n -> nth_error (upd_nth n f l) o = nth_error l o.
Proof. induction l as [|a l IH]; intros [|n] [|o] H; simpl in *; auto; try congruence. Qed.

(* the DELETE statement emitted for object number o *)
Definition del_of (st : sess) (o : nat) : list write :=
  match nth_error (insts st) o with
  | Some i => match i_tok i with Some t => [WDel t (r_pk (i_cur i))] | None => [] end
  | None => []
  end.

(* object o's identity is (pk of x, s) *)
Definition is_identity (st : sess) (o : nat) (s : N) (k : Z) : Prop :=
  exists i, nth_error (insts st) o = Some i /\ i_tok i = Some s /\ r_pk (i_cur i) = k.

Lemma delete_one_spec : forall st o st', delete_one st o = Ok st' ->
  exists i0 t, nth_error (insts st) o = Some i0 /\ i_life i0 = Persistent /\ i_tok i0 = Some t /\
    insts st' = upd_nth o (fun i => mkInst (i_cur i) (i_old i) Gone (i_tok i)) (insts st) /\
    db st' = upd (db st) t (sql_delete (r_pk (i_cur i0)) (db st t)) /\
    wlog st' = wlog st ++ [WDel t (r_pk (i_cur i0))] /\ rlog st' = rlog st /\ committed st' = committed st.
Proof.
  intros st o st' H. unfold delete_one in H.
  destruct (nth_error (insts st) o) as [i0|] eqn:En; [|discriminate].
  destruct (i_life i0) eqn:El; try discriminate. destruct (i_tok i0) as [t|] eqn:Et; [|discriminate].
  injection H as <-. exists i0, t. simpl. repeat split; auto.
Qed.

(* identities are untouched by a delete (only the lifecycle of the deleted object changes) *)
Lemma delete_one_identity : forall st o st' o' s k, delete_one st o = Ok st' ->
  (is_identity st' o' s k <-> is_identity st o' s k).
Proof.
  intros st o st' o' s k H. destruct (delete_one_spec _ _ _ H) as [i0 [t [En [_ [_ [Hi _]]]]]].
  unfold is_identity. rewrite Hi. destruct (Nat.eq_dec o' o) as [->|Hne].
  - rewrite (nth_upd_same _ _ _ _ En). rewrite En. split; intros [i [Hn Hp]]; injection Hn as <-; eexists; split; eauto.
  - now rewrite nth_upd_other.
Qed.

Lemma delete_one_del_of : forall st o st' o', delete_one st o = Ok st' -> del_of st' o' = del_of st o'.
Proof.
  intros st o st' o' H. destruct (delete_one_spec _ _ _ H) as [i0 [t [En [_ [_ [Hi _]]]]]].
  unfold del_of. rewrite Hi. destruct (Nat.eq_dec o' o) as [->|Hne].
  - rewrite (nth_upd_same _ _ _ _ En), En. reflexivity.
  - now rewrite nth_upd_other.
Qed.

Lemma delete_one_db : forall st o st' s x, delete_one st o = Ok st' ->
  (In x (db st' s) <-> In x (db st s) /\ ~ is_identity st o s (r_pk x)).
Proof.
  intros st o st' s x H. destruct (delete_one_spec _ _ _ H) as [i0 [t [En [_ [Et [_ [Hd _]]]]]]].
  rewrite Hd. unfold is_identity. destruct (N.eq_dec s t) as [->|Hne].
  - rewrite upd_same, in_delete. split.
    + intros [Hx Hk]. split; auto. intros [i [Hn [_ Hp]]]. rewrite En in Hn. injection Hn as Hi. subst i. congruence.
    + intros [Hx Hn]. split; auto. intros Hk. apply Hn. exists i0. auto.
  - rewrite upd_other by auto. split; [|tauto]. intros Hx. split; auto.
    intros [i [Hn [Ht _]]]. rewrite En in Hn. injection Hn as Hi. subst i. congruence.
Qed.

Lemma delete_all_spec : forall os st st', delete_all st os = Ok st' ->
  wlog st' = wlog st ++ flat_map (del_of st) os /\ rlog st' = rlog st /\ committed st' = committed st /\
  (forall o s k, is_identity st' o s k <-> is_identity st o s k) /\
  (forall s x, In x (db st' s) <-> In x (db st s) /\ ~ exists o, In o os /\ is_identity st o s (r_pk x)).
Proof.
  induction os as [|o os IH]; simpl; intros st st' H.
  - injection H as <-. rewrite app_nil_r. split; [reflexivity|]. split; [reflexivity|]. split; [reflexivity|].
    split; [intros; reflexivity|]. intros s x. split; [intros Hx; split; auto; intros [o [[] _]] | tauto].
  - destruct (delete_one st o) as [s1|] eqn:E; [|discriminate].
    destruct (IH _ _ H) as [Hw [Hr [Hc [Hid Hdb]]]].
    destruct (delete_one_spec _ _ _ E) as [i0 [t [En [_ [Et [_ [_ [Hw1 [Hr1 Hc1]]]]]]]]].
    split; [|split; [congruence|split; [congruence|split]]].
    + rewrite Hw, Hw1, <- app_assoc. f_equal. f_equal.
      * unfold del_of. now rewrite En, Et.
      * apply flat_map_ext. intros o'. exact (delete_one_del_of _ _ _ o' E).
    + intros o' s k. rewrite Hid. exact (delete_one_identity _ _ _ o' s k E).
    + intros s x. rewrite Hdb, (delete_one_db _ _ _ s x E). split.
      * intros [[Hx Hn1] Hn2]. split; auto. intros [o' [[<-|Ho'] Hi]]; [tauto|].
        apply Hn2. exists o'. split; auto. now apply (delete_one_identity _ _ _ o' s (r_pk x) E).
      * intros [Hx Hn]. split; [split; auto|].
        -- intros Hi. apply Hn. exists o. auto.
        -- intros [o' [Ho' Hi]]. apply Hn. exists o'. split; auto.
           now apply (delete_one_identity _ _ _ o' s (r_pk x) E).
Qed.
