(* C41 - ORM queries return the rows their relational meaning specifies.
   Executable model (definitions only).  Three layers:
     1. a small Core query language with 3-valued logic and its evaluation        ([cq], [core_exec])
     2. what the ORM does with a query over mapped entities: compile the ORM constructs to that language
        ([orm_to_core]: join along a relationship -> JOIN ON primaryjoin (single-table criterion of an
        of_type() target inside the ON clause), any()/has() -> correlated EXISTS, contains() -> comparison of
        the parent key with the child's foreign-key *value* as a bind parameter, of_type().any() -> the
        single-table criterion inside the EXISTS), execute, assemble each row into entities through the
        identity map ([assemble]), legacy Query de-duplication ([orm_exec]), Query.count()/exists()
     3. the relational meaning of the ORM query, stated on the object graph without SQL    ([meaning])
   Schema: P(id, x) --children/parent--< C(id, pid -> P.id NULL-able, y, kind); Sub is the single-table
   subclass of C with polymorphic identity 1. *)
From Coq Require Import List ZArith Bool Arith.
Import ListNotations.
From SAV.sql Require Import Val3.

Definition val := option Z.                     (* SQL integer or NULL *)

Record prow := { p_id : Z; p_x : val }.
Record crow := { c_id : Z; c_pid : val; c_y : val; c_kind : Z }.
(* [ns]: the rows of the self-referential table node(id, parent_id -> node.id NULL-able, data), stored in the
   shape of a child row: c_id = id, c_pid = parent_id, c_y = data (c_kind unused) *)
Record db := { ps : list prow; cs : list crow; ns : list crow; pn : list (Z * Z) }.
(* [pn]: association table pn(p_id, n_id) of the bidirectional many-to-many  P.tags <-> Node.holders *)

(* ================= 1. Core ================= *)
Inductive cmpop := OEq | ONe | OLt | OLe | OGt | OGe.
Definition cmpZ (o : cmpop) (a b : Z) : bool :=
  match o with
  | OEq => Z.eqb a b | ONe => negb (Z.eqb a b) | OLt => Z.ltb a b
  | OLe => Z.leb a b | OGt => Z.ltb b a | OGe => Z.leb b a
  end.
Definition cmp3 (o : cmpop) (a b : val) : tv :=
  match a, b with Some x, Some y => tv_of_bool (cmpZ o x y) | _, _ => TU end.

Inductive tab := TabP | TabC | TabN | TabA.
Inductive col := ColId | ColX | ColPid | ColY | ColKind.
(* a row of either table; columns a table does not have are NULL; the all-NULL row is the outer-join filler *)
Record grow := { g_id : val; g_x : val; g_pid : val; g_y : val; g_kind : val }.
Definition null_row : grow := {| g_id := None; g_x := None; g_pid := None; g_y := None; g_kind := None |}.
Definition grow_p (p : prow) : grow :=
  {| g_id := Some (p_id p); g_x := p_x p; g_pid := None; g_y := None; g_kind := None |}.
Definition grow_c (c : crow) : grow :=
  {| g_id := Some (c_id c); g_x := None; g_pid := c_pid c; g_y := c_y c; g_kind := Some (c_kind c) |}.
Definition grow_a (a : Z * Z) : grow :=      (* association row: g_id = p_id, g_pid = n_id *)
  {| g_id := Some (fst a); g_x := None; g_pid := Some (snd a); g_y := None; g_kind := None |}.
Definition gcol (r : grow) (c : col) : val :=
  match c with ColId => g_id r | ColX => g_x r | ColPid => g_pid r | ColY => g_y r | ColKind => g_kind r end.
Definition rows_of (d : db) (t : tab) : list grow :=
  match t with
  | TabP => map grow_p (ps d) | TabC => map grow_c (cs d) | TabN => map grow_c (ns d) | TabA => map grow_a (pn d)
  end.

Definition env := list (nat * grow).            (* alias -> row, innermost first *)
Fixpoint lookup (e : env) (a : nat) : grow :=
  match e with [] => null_row | (b, r) :: e' => if Nat.eqb a b then r else lookup e' a end.

Inductive ex := ECol (alias : nat) (c : col) | EConst (v : val).
Definition eeval (e : env) (x : ex) : val :=
  match x with ECol a c => gcol (lookup e a) c | EConst v => v end.

Inductive bx :=
| BTrue
| BCmp (o : cmpop) (a b : ex)
| BIsNull (a : ex)
| BInList (a : ex) (l : list Z)
| BAnd (a b : bx) | BOr (a b : bx) | BNot (a : bx)
| BExists (t : tab) (alias : nat) (w : bx)                       (* EXISTS (SELECT 1 FROM t AS alias WHERE w) *)
| BInSub (a : ex) (t : tab) (alias : nat) (c : col) (w : bx).    (* a IN (SELECT alias.c FROM t AS alias WHERE w) *)

(* x IN (v1, .., vn) under 3VL *)
Definition in3 (x : val) (vs : list val) : tv :=
  match x with
  | None => match vs with [] => TF | _ => TU end
  | Some z =>
    if existsb (fun v => match v with Some y => Z.eqb z y | None => false end) vs then TT
    else if existsb (fun v => match v with None => true | Some _ => false end) vs then TU else TF
  end.

Fixpoint beval (d : db) (e : env) (b : bx) : tv :=
  match b with
  | BTrue => TT
  | BCmp o x y => cmp3 o (eeval e x) (eeval e y)
  | BIsNull x => match eeval e x with None => TT | Some _ => TF end
  | BInList x l => in3 (eeval e x) (map Some l)
  | BAnd x y => and3 (beval d e x) (beval d e y)
  | BOr x y => or3 (beval d e x) (beval d e y)
  | BNot x => not3 (beval d e x)
  | BExists t a w => tv_of_bool (existsb (fun r => is_true (beval d ((a, r) :: e) w)) (rows_of d t))
  | BInSub x t a c w =>
    in3 (eeval e x) (map (fun r => gcol r c) (filter (fun r => is_true (beval d ((a, r) :: e) w)) (rows_of d t)))
  end.

Record fromitem := { f_outer : bool; f_tab : tab; f_alias : nat; f_on : bx }.
Record sel := { s_tab : tab; s_alias : nat; s_joins : list fromitem; s_where : bx;
                s_cols : list ex; s_order : list ex }.

Definition is_nilg (l : list grow) : bool := match l with [] => true | _ => false end.
(* one JOIN / LEFT OUTER JOIN step of the nested-loop semantics *)
Definition join_step (d : db) (envs : list env) (f : fromitem) : list env :=
  flat_map (fun e =>
    let ms := filter (fun r => is_true (beval d ((f_alias f, r) :: e) (f_on f))) (rows_of d (f_tab f)) in
    if f_outer f && is_nilg ms then [(f_alias f, null_row) :: e]
    else map (fun r => (f_alias f, r) :: e) ms) envs.
Definition sel_envs (d : db) (s : sel) : list env :=
  filter (fun e => is_true (beval d e (s_where s)))
         (fold_left (join_step d) (s_joins s) (map (fun r => [(s_alias s, r)]) (rows_of d (s_tab s)))).
(* result rows with their ORDER BY key *)
Definition krow := (list val * list val)%type.
Definition sel_rows (d : db) (s : sel) : list krow :=
  map (fun e => (map (eeval e) (s_order s), map (eeval e) (s_cols s))) (sel_envs d s).

(* ORDER BY: NULLs first, lexicographic; stable insertion sort *)
Definition val_leb (a b : val) : bool :=
  match a, b with None, _ => true | Some _, None => false | Some x, Some y => Z.leb x y end.
Definition val_eqb (a b : val) : bool :=
  match a, b with None, None => true | Some x, Some y => Z.eqb x y | _, _ => false end.
Fixpoint key_leb (a b : list val) : bool :=
  match a, b with
  | [], _ => true
  | _ :: _, [] => false
  | x :: a', y :: b' => if val_eqb x y then key_leb a' b' else val_leb x y
  end.
Fixpoint insert_k (r : krow) (l : list krow) : list krow :=
  match l with
  | [] => [r]
  | x :: l' => if key_leb (fst r) (fst x) then r :: l else x :: insert_k r l'
  end.
Definition order_rows (l : list krow) : list (list val) := map snd (fold_right insert_k [] l).

Fixpoint row_eqb (a b : list val) : bool :=
  match a, b with
  | [], [] => true
  | x :: a', y :: b' => val_eqb x y && row_eqb a' b'
  | _, _ => false
  end.
Definition mem_row (r : list val) (l : list (list val)) : bool := existsb (row_eqb r) l.
(* first occurrences, in order (UNION; legacy Query.all()) *)
Fixpoint dedup_rows (l : list (list val)) (seen : list (list val)) : list (list val) :=
  match l with
  | [] => []
  | r :: l' => if mem_row r seen then dedup_rows l' seen else r :: dedup_rows l' (r :: seen)
  end.

(* SELECT key, count(cnt) .. GROUP BY key: groups in order of first occurrence; count ignores NULL *)
Definition count_nonnull (k : val) (l : list (val * val)) : Z :=
  Z.of_nat (length (filter (fun kv => val_eqb (fst kv) k && match snd kv with Some _ => true | None => false end) l)).
Fixpoint group_keys (l : list (val * val)) (seen : list val) : list val :=
  match l with
  | [] => []
  | (k, _) :: l' => if existsb (val_eqb k) seen then group_keys l' seen else k :: group_keys l' (k :: seen)
  end.
Definition group_count (l : list (val * val)) : list krow :=
  map (fun k => ([k], [k; Some (count_nonnull k l)])) (group_keys l []).

Inductive cq :=
| CSel (s : sel)
| CGroup (s : sel) (key cnt : ex)          (* SELECT key, count(cnt) FROM .. WHERE .. GROUP BY key ORDER BY key *)
| CUnion (a b : sel)                       (* SELECT id FROM (a UNION b) ORDER BY id; a, b select (id, x) *)
| CUnionW (a b : sel) (post : bx).         (* SELECT id FROM (a UNION b) AS u WHERE post ORDER BY id; a, b select all
                                              columns of c; post sees the union row under alias 0 *)

Definition grow_of_vals (r : list val) : grow :=
  match r with
  | [i; p; y; k] => {| g_id := i; g_x := None; g_pid := p; g_y := y; g_kind := k |}
  | _ => null_row
  end.
Definition kv_of (d : db) (s : sel) (key cnt : ex) : list (val * val) :=
  map (fun e => (eeval e key, eeval e cnt)) (sel_envs d s).
Definition core_rows (d : db) (q : cq) : list krow :=
  match q with
  | CSel s => sel_rows d s
  | CGroup s key cnt => group_count (kv_of d s key cnt)
  | CUnion a b =>
    map (fun r => (firstn 1 r, firstn 1 r)) (dedup_rows (map snd (sel_rows d a) ++ map snd (sel_rows d b)) [])
  | CUnionW a b post =>
    map (fun r => (firstn 1 r, firstn 1 r))
        (filter (fun r => is_true (beval d [(0, grow_of_vals r)] post))
                (dedup_rows (map snd (sel_rows d a) ++ map snd (sel_rows d b)) []))
  end.
Definition core_exec (d : db) (q : cq) : list (list val) := order_rows (core_rows d q).

(* ================= 2. the ORM ================= *)
(* column criterion on the value column of one entity (x of P, y of C) *)
Inductive sx := STrue | SCmp (o : cmpop) (k : Z) | SNull | SAnd (a b : sx) | SOr (a b : sx) | SNot (a : sx).
Inductive pcrit :=
| PS (s : sx)                (* criterion on P.x *)
| PAny (s : sx)              (* P.children.any(crit on C.y) *)
| PAnySub (s : sx)           (* P.children.of_type(Sub).any(crit on Sub.y) *)
| PContains (cid : Z)        (* P.children.contains(<the C object with this id>) *)
| PExists (s : sx)           (* exists().where(C.pid == P.id, crit) written by hand *)
| PIn (s : sx)               (* P.id.in_(select(C.pid).where(crit)) *)
| PTagAny (s : sx)           (* many-to-many: P.tags.any(crit on Node.data) *)
| PTagNested (s : sx)        (* P.tags.any(Node.holders.any(crit on P.x)): nested across the shared association table *)
| PAnd (a b : pcrit) | POr (a b : pcrit) | PNot (a : pcrit).
Inductive ccrit :=
| CS (s : sx)                (* criterion on C.y *)
| CHas (s : sx)              (* C.parent.has(crit on P.x) *)
| CNoParent                  (* C.parent == None  (many-to-one compared with None; negated: != None) *)
| CHasAny (s : sx)           (* C.parent.has(P.children.any(crit on C.y)): nested, coming back to C *)
| CAnd (a b : ccrit) | COr (a b : ccrit) | CNot (a : ccrit).
(* criteria on the self-referential entity Node: Node.children.any(..) / Node.parent.has(..); the keyword forms
   any(data=k) / has(data=k) are the same criteria as the expression forms with data == k *)
Inductive ncrit :=
| NS (s : sx) | NAny (s : sx) | NHas (s : sx)
| NAnd (a b : ncrit) | NOr (a b : ncrit) | NNot (a : ncrit).
Inductive target := TgC | TgAlias | TgSub | TgSubOn.
(* join(P.children) | join(P.children.of_type(aliased(C))) | join(P.children.of_type(Sub))
   | join(Sub, P.id == Sub.pid): hand-written ON clause, _ORMJoin adds the single-table criterion of the target *)
Inductive colmode := BothEnt | EntCol | ColEnt.     (* select(P, T) | select(P, T.y) | select(P.x, T) *)
Inductive oq :=
| QP (c : pcrit)                                          (* select(P).where(c) *)
| QC (c : ccrit)                                          (* select(C).where(c) *)
| QJoinPC (outer : bool) (t : target) (sp sc : sx) (m : colmode)   (* select(..).join(P.children -> T).where(sp, sc) *)
| QJoinCP (outer : bool) (sc sp : sx)                     (* select(C, P).join(C.parent).where(sc, sp) *)
| QGroup (sc : sx)                                        (* select(P, count(C.id)).outerjoin(P.children).where(sc).group_by(P.id) *)
| QUnion (a b : pcrit)                                    (* select(aliased(P, union(select(P).where(a), select(P).where(b)))) *)
| QN (c : ncrit)                                          (* select(Node).where(c) *)
| QUnionC (a b : sx) (post : ccrit)
(* legacy query(C).filter(a).union(query(C).filter(b)).filter(post) / select(aliased(C, union.subquery())).where(post) *)
| QSibs (vals : bool) (sc : sx).
(* select(Sub, SubA).where(Sub.pid == SubA.pid, sc on SubA.y): the single-table subclass twice as separate FROM
   entities (class + aliased(), or two aliases); vals: select(Sub.id, SubA.id) instead of the entities *)

Fixpoint tr_sx (a : nat) (c : col) (s : sx) : bx :=
  match s with
  | STrue => BTrue
  | SCmp o k => BCmp o (ECol a c) (EConst (Some k))
  | SNull => BIsNull (ECol a c)
  | SAnd x y => BAnd (tr_sx a c x) (tr_sx a c y)
  | SOr x y => BOr (tr_sx a c x) (tr_sx a c y)
  | SNot x => BNot (tr_sx a c x)
  end.

(* the object handed to contains(): its foreign key attribute as loaded from the database *)
Definition find_child (d : db) (cid : Z) : option crow := find (fun c => Z.eqb (c_id c) cid) (cs d).
Definition fk_of (d : db) (cid : Z) : val := match find_child d cid with Some c => c_pid c | None => None end.

Definition sub_alias : nat := 2.                 (* alias used inside EXISTS / IN subqueries *)
(* relationship primaryjoin  p.id = c.pid *)
Definition pj (pa ca : nat) : bx := BCmp OEq (ECol pa ColId) (ECol ca ColPid).
(* Sub._single_table_criterion :  c.kind IN (1) *)
Definition sub_crit (ca : nat) : bx := BInList (ECol ca ColKind) [1%Z].

(* join of p (alias pa) and node (alias na) through the association row (alias aa) *)
Definition aj (pa na aa : nat) : bx :=
  BAnd (BCmp OEq (ECol pa ColId) (ECol aa ColId)) (BCmp OEq (ECol na ColId) (ECol aa ColPid)).

Fixpoint tr_pcrit (d : db) (pa : nat) (c : pcrit) : bx :=
  match c with
  | PS s => tr_sx pa ColX s
  | PAny s => BExists TabC sub_alias (BAnd (pj pa sub_alias) (tr_sx sub_alias ColY s))
  | PAnySub s => BExists TabC sub_alias (BAnd (pj pa sub_alias) (BAnd (sub_crit sub_alias) (tr_sx sub_alias ColY s)))
  | PContains cid => BCmp OEq (ECol pa ColId) (EConst (fk_of d cid))
  | PExists s => BExists TabC sub_alias (BAnd (BCmp OEq (ECol sub_alias ColPid) (ECol pa ColId)) (tr_sx sub_alias ColY s))
  | PIn s => BInSub (ECol pa ColId) TabC sub_alias ColPid (tr_sx sub_alias ColY s)
  (* EXISTS (SELECT 1 FROM node, pn WHERE p.id = pn.p_id AND node.id = pn.n_id AND crit) *)
  | PTagAny s => BExists TabN 2 (BExists TabA 3 (BAnd (aj pa 2 3) (tr_sx 2 ColY s)))
  (* .. AND EXISTS (SELECT 1 FROM p, pn WHERE node.id = pn.n_id AND p.id = pn.p_id AND crit): the inner p and pn
     are FROM elements of the inner SELECT, they do not correlate to the enclosing ones *)
  | PTagNested s =>
    BExists TabN 2 (BExists TabA 3 (BAnd (aj pa 2 3) (BExists TabP 4 (BExists TabA 5 (BAnd (aj 4 2 5) (tr_sx 4 ColX s))))))
  | PAnd x y => BAnd (tr_pcrit d pa x) (tr_pcrit d pa y)
  | POr x y => BOr (tr_pcrit d pa x) (tr_pcrit d pa y)
  | PNot x => BNot (tr_pcrit d pa x)
  end.
Fixpoint tr_ccrit (ca : nat) (c : ccrit) : bx :=
  match c with
  | CS s => tr_sx ca ColY s
  | CHas s => BExists TabP sub_alias (BAnd (BCmp OEq (ECol sub_alias ColId) (ECol ca ColPid)) (tr_sx sub_alias ColX s))
  | CNoParent => BIsNull (ECol ca ColPid)          (* adapt_criterion_to_null: c.pid IS NULL, negation IS NOT NULL *)
  | CHasAny s =>
    BExists TabP 2 (BAnd (BCmp OEq (ECol 2 ColId) (ECol ca ColPid))
                         (BExists TabC 3 (BAnd (BCmp OEq (ECol 2 ColId) (ECol 3 ColPid)) (tr_sx 3 ColY s))))
  | CAnd x y => BAnd (tr_ccrit ca x) (tr_ccrit ca y)
  | COr x y => BOr (tr_ccrit ca x) (tr_ccrit ca y)
  | CNot x => BNot (tr_ccrit ca x)
  end.

(* the EXISTS target of a self-referential relationship is an anonymous alias of the table (alias 2) *)
Fixpoint tr_ncrit (na : nat) (c : ncrit) : bx :=
  match c with
  | NS s => tr_sx na ColY s
  | NAny s => BExists TabN sub_alias (BAnd (BCmp OEq (ECol na ColId) (ECol sub_alias ColPid)) (tr_sx sub_alias ColY s))
  | NHas s => BExists TabN sub_alias (BAnd (BCmp OEq (ECol sub_alias ColId) (ECol na ColPid)) (tr_sx sub_alias ColY s))
  | NAnd x y => BAnd (tr_ncrit na x) (tr_ncrit na y)
  | NOr x y => BOr (tr_ncrit na x) (tr_ncrit na y)
  | NNot x => BNot (tr_ncrit na x)
  end.

Definition sel_sibs (sc : sx) : sel :=
  {| s_tab := TabC; s_alias := 0;
     s_joins := [ {| f_outer := false; f_tab := TabC; f_alias := 1; f_on := BTrue |} ];     (* FROM c, c AS c_1 *)
     s_where := BAnd (BAnd (BCmp OEq (ECol 0 ColPid) (ECol 1 ColPid)) (tr_sx 1 ColY sc))
                     (BAnd (sub_crit 0) (sub_crit 1));       (* one discriminator criterion per entity *)
     s_cols := [ECol 0 ColId; ECol 1 ColId]; s_order := [ECol 0 ColId; ECol 1 ColId] |}.

Definition on_pc (t : target) : bx :=
  match t with TgSub | TgSubOn => BAnd (pj 0 1) (sub_crit 1) | _ => pj 0 1 end.
Definition cols_pc (m : colmode) : list ex :=
  match m with
  | BothEnt => [ECol 0 ColId; ECol 1 ColId]
  | EntCol => [ECol 0 ColId; ECol 1 ColY]
  | ColEnt => [ECol 0 ColX; ECol 1 ColId]
  end.
Definition sel_p (w : bx) (cols : list ex) : sel :=
  {| s_tab := TabP; s_alias := 0; s_joins := []; s_where := w; s_cols := cols; s_order := [ECol 0 ColId] |}.
Definition sel_pc (outer : bool) (on w : bx) (cols : list ex) : sel :=
  {| s_tab := TabP; s_alias := 0;
     s_joins := [ {| f_outer := outer; f_tab := TabC; f_alias := 1; f_on := on |} ];
     s_where := w; s_cols := cols; s_order := [ECol 0 ColId; ECol 1 ColId] |}.

Definition sel_call (w : bx) : sel :=
  {| s_tab := TabC; s_alias := 0; s_joins := []; s_where := w;
     s_cols := [ECol 0 ColId; ECol 0 ColPid; ECol 0 ColY; ECol 0 ColKind]; s_order := [ECol 0 ColId] |}.

Definition orm_to_core (d : db) (q : oq) : cq :=
  match q with
  | QP c => CSel (sel_p (tr_pcrit d 0 c) [ECol 0 ColId])
  | QC c => CSel {| s_tab := TabC; s_alias := 0; s_joins := []; s_where := tr_ccrit 0 c;
                    s_cols := [ECol 0 ColId]; s_order := [ECol 0 ColId] |}
  | QJoinPC outer t sp sc m =>
    CSel (sel_pc outer (on_pc t) (BAnd (tr_sx 0 ColX sp) (tr_sx 1 ColY sc)) (cols_pc m))
  | QJoinCP outer sc sp =>
    CSel {| s_tab := TabC; s_alias := 0;
            s_joins := [ {| f_outer := outer; f_tab := TabP; f_alias := 1;
                            f_on := BCmp OEq (ECol 1 ColId) (ECol 0 ColPid) |} ];
            s_where := BAnd (tr_sx 0 ColY sc) (tr_sx 1 ColX sp);
            s_cols := [ECol 0 ColId; ECol 1 ColId]; s_order := [ECol 0 ColId] |}
  | QGroup sc => CGroup (sel_pc true (pj 0 1) (tr_sx 1 ColY sc) []) (ECol 0 ColId) (ECol 1 ColId)
  | QUnion a b => CUnion (sel_p (tr_pcrit d 0 a) [ECol 0 ColId; ECol 0 ColX])
                         (sel_p (tr_pcrit d 0 b) [ECol 0 ColId; ECol 0 ColX])
  | QN c => CSel {| s_tab := TabN; s_alias := 0; s_joins := []; s_where := tr_ncrit 0 c;
                    s_cols := [ECol 0 ColId]; s_order := [ECol 0 ColId] |}
  | QSibs _ sc => CSel (sel_sibs sc)
  | QUnionC a b post => CUnionW (sel_call (tr_sx 0 ColY a)) (sel_call (tr_sx 0 ColY b)) (tr_ccrit 0 post)
  end.

(* which result columns are entities (of which identity class), which are plain values *)
Inductive ckind := KEnt (t : tab) | KVal.
Definition col_kinds (q : oq) : list ckind :=
  match q with
  | QP _ => [KEnt TabP] | QC _ => [KEnt TabC]
  | QJoinPC _ _ _ _ BothEnt => [KEnt TabP; KEnt TabC]
  | QJoinPC _ _ _ _ EntCol => [KEnt TabP; KVal]
  | QJoinPC _ _ _ _ ColEnt => [KVal; KEnt TabC]
  | QJoinCP _ _ _ => [KEnt TabC; KEnt TabP]
  | QGroup _ => [KEnt TabP; KVal]
  | QUnion _ _ => [KEnt TabP]
  | QN _ => [KEnt TabN]
  | QUnionC _ _ _ => [KEnt TabC]
  | QSibs false _ => [KEnt TabC; KEnt TabC]
  | QSibs true _ => [KVal; KVal]
  end.

(* loading._instance: the identity map of the Session; a row whose primary key is NULL gives None *)
Inductive item := IEnt (oid : nat) (pk : Z) | INone | IVal (v : val).
Definition idmap := list ((tab * Z) * nat).
Definition tab_eqb (a b : tab) : bool :=
  match a, b with TabP, TabP | TabC, TabC | TabN, TabN | TabA, TabA => true | _, _ => false end.
Definition im_find (m : idmap) (t : tab) (pk : Z) : option nat :=
  match find (fun e => tab_eqb (fst (fst e)) t && Z.eqb (snd (fst e)) pk) m with
  | Some e => Some (snd e) | None => None end.
Definition asm_item (m : idmap) (k : ckind) (v : val) : idmap * item :=
  match k, v with
  | KVal, _ => (m, IVal v)
  | KEnt _, None => (m, INone)
  | KEnt t, Some pk =>
    match im_find m t pk with
    | Some o => (m, IEnt o pk)
    | None => (m ++ [((t, pk), length m)], IEnt (length m) pk)
    end
  end.
Fixpoint asm_row (m : idmap) (ks : list ckind) (r : list val) : idmap * list item :=
  match ks, r with
  | k :: ks', v :: r' =>
    let '(m1, i) := asm_item m k v in let '(m2, is) := asm_row m1 ks' r' in (m2, i :: is)
  | _, _ => (m, [])
  end.
Fixpoint assemble (m : idmap) (ks : list ckind) (rows : list (list val)) : list (list item) :=
  match rows with
  | [] => []
  | r :: rows' => let '(m1, is) := asm_row m ks r in is :: assemble m1 ks rows'
  end.

Definition item_eqb (a b : item) : bool :=
  match a, b with
  | IEnt o _, IEnt o' _ => Nat.eqb o o'          (* objects are compared by identity *)
  | INone, INone => true
  | IVal v, IVal v' => val_eqb v v'
  | _, _ => false
  end.
Fixpoint items_eqb (a b : list item) : bool :=
  match a, b with
  | [], [] => true
  | x :: a', y :: b' => item_eqb x y && items_eqb a' b'
  | _, _ => false
  end.
Fixpoint unique_items (l seen : list (list item)) : list (list item) :=
  match l with
  | [] => []
  | r :: l' => if existsb (items_eqb r) seen then unique_items l' seen else r :: unique_items l' (r :: seen)
  end.

(* session.execute(select(..)).all()   /   legacy  session.query(..).all()  (Result.unique() is applied) *)
Definition orm_exec (d : db) (q : oq) (legacy : bool) : list (list item) :=
  let rows := assemble [] (col_kinds q) (core_exec d (orm_to_core d q)) in
  if legacy then unique_items rows [] else rows.
(* SELECT count( * ) FROM (<the statement>) AS anon_1   /   SELECT EXISTS (<the statement>) *)
Definition orm_count (d : db) (q : oq) : nat := length (core_exec d (orm_to_core d q)).
Definition orm_exists (d : db) (q : oq) : bool :=
  match core_exec d (orm_to_core d q) with [] => false | _ => true end.

(* ---- LIMIT / OFFSET on the statement (Query.limit().offset(), Select.limit().offset()) ---- *)
Definition slice {A : Type} (off : nat) (lim : option nat) (l : list A) : list A :=
  match lim with Some n => firstn n (skipn off l) | None => skipn off l end.
Definition orm_exec_sl (d : db) (q : oq) (off : nat) (lim : option nat) (legacy : bool) : list (list item) :=
  let rows := assemble [] (col_kinds q) (slice off lim (core_exec d (orm_to_core d q))) in
  if legacy then unique_items rows [] else rows.
(* Query.count(): SELECT count( * ) FROM (<statement with its LIMIT / OFFSET>) AS anon_1 *)
Definition orm_count_sl (d : db) (q : oq) (off : nat) (lim : option nat) : nat :=
  length (slice off lim (core_exec d (orm_to_core d q))).
Definition orm_exists_sl (d : db) (q : oq) (off : nat) (lim : option nat) : bool :=
  match slice off lim (core_exec d (orm_to_core d q)) with [] => false | _ => true end.

Definition item_val (i : item) : val := match i with IEnt _ pk => Some pk | INone => None | IVal v => v end.

(* ================= 3. relational meaning on the object graph ================= *)
Fixpoint sxeval (s : sx) (v : val) : tv :=
  match s with
  | STrue => TT
  | SCmp o k => cmp3 o v (Some k)
  | SNull => match v with None => TT | Some _ => TF end
  | SAnd a b => and3 (sxeval a v) (sxeval b v)
  | SOr a b => or3 (sxeval a v) (sxeval b v)
  | SNot a => not3 (sxeval a v)
  end.
(* c is in p.children / p is c.parent *)
Definition child_of (c : crow) (p : prow) : bool :=
  match c_pid c with Some v => Z.eqb v (p_id p) | None => false end.
Definition is_sub (c : crow) : bool := Z.eqb (c_kind c) 1.

(* the association row a links parent p and node n *)
Definition link (a : Z * Z) (p : prow) (n : crow) : bool := Z.eqb (p_id p) (fst a) && Z.eqb (c_id n) (snd a).

Fixpoint peval (d : db) (p : prow) (c : pcrit) : tv :=
  match c with
  | PS s => sxeval s (p_x p)
  | PAny s => tv_of_bool (existsb (fun c => child_of c p && is_true (sxeval s (c_y c))) (cs d))
  | PAnySub s => tv_of_bool (existsb (fun c => child_of c p && (is_sub c && is_true (sxeval s (c_y c)))) (cs d))
  | PContains cid => tv_of_bool (match find_child d cid with Some c => child_of c p | None => false end)
  | PExists s => tv_of_bool (existsb (fun c => child_of c p && is_true (sxeval s (c_y c))) (cs d))
  | PIn s => in3 (Some (p_id p)) (map c_pid (filter (fun c => is_true (sxeval s (c_y c))) (cs d)))
  | PTagAny s =>
    tv_of_bool (existsb (fun n => existsb (fun a => link a p n && is_true (sxeval s (c_y n))) (pn d)) (ns d))
  | PTagNested s =>
    tv_of_bool (existsb (fun n => existsb (fun a => link a p n &&
      existsb (fun p' => existsb (fun a' => link a' p' n && is_true (sxeval s (p_x p'))) (pn d)) (ps d)) (pn d)) (ns d))
  | PAnd a b => and3 (peval d p a) (peval d p b)
  | POr a b => or3 (peval d p a) (peval d p b)
  | PNot a => not3 (peval d p a)
  end.
Fixpoint ceval (d : db) (c : crow) (k : ccrit) : tv :=
  match k with
  | CS s => sxeval s (c_y c)
  | CHas s => tv_of_bool (existsb (fun p => child_of c p && is_true (sxeval s (p_x p))) (ps d))
  | CNoParent => match c_pid c with None => TT | Some _ => TF end
  | CHasAny s =>
    tv_of_bool (existsb (fun p => child_of c p &&
                  existsb (fun c' => child_of c' p && is_true (sxeval s (c_y c'))) (cs d)) (ps d))
  | CAnd a b => and3 (ceval d c a) (ceval d c b)
  | COr a b => or3 (ceval d c a) (ceval d c b)
  | CNot a => not3 (ceval d c a)
  end.

(* m is in n.children / n is m.parent *)
Definition nchild (m n : crow) : bool :=
  match c_pid m with Some v => Z.eqb v (c_id n) | None => false end.
Fixpoint neval (d : db) (n : crow) (c : ncrit) : tv :=
  match c with
  | NS s => sxeval s (c_y n)
  | NAny s => tv_of_bool (existsb (fun m => nchild m n && is_true (sxeval s (c_y m))) (ns d))
  | NHas s => tv_of_bool (existsb (fun m => nchild n m && is_true (sxeval s (c_y m))) (ns d))
  | NAnd a b => and3 (neval d n a) (neval d n b)
  | NOr a b => or3 (neval d n a) (neval d n b)
  | NNot a => not3 (neval d n a)
  end.
Definition same_parent (a b : crow) : bool :=
  match c_pid a, c_pid b with Some x, Some y => Z.eqb x y | _, _ => false end.
Definition pairs_cc (d : db) : list (crow * crow) := flat_map (fun a => map (fun b => (a, b)) (cs d)) (cs d).

Definition tgt_ok (t : target) (c : crow) : bool := match t with TgSub | TgSubOn => is_sub c | _ => true end.
Definition oc_id (c : option crow) : val := match c with Some c => Some (c_id c) | None => None end.
Definition oc_y (c : option crow) : val := match c with Some c => c_y c | None => None end.
Definition op_id (p : option prow) : val := match p with Some p => Some (p_id p) | None => None end.
Definition op_x (p : option prow) : val := match p with Some p => p_x p | None => None end.
Definition is_nilc (l : list crow) : bool := match l with [] => true | _ => false end.
Definition is_nilp (l : list prow) : bool := match l with [] => true | _ => false end.

(* pairs (p, c) with c in p.children [of the target type]; (p, None) for an outer join without partner *)
Definition pairs_pc (d : db) (outer : bool) (t : target) : list (prow * option crow) :=
  flat_map (fun p =>
    let ms := filter (fun c => child_of c p && tgt_ok t c) (cs d) in
    if outer && is_nilc ms then [(p, None)] else map (fun c => (p, Some c)) ms) (ps d).
Definition pairs_cp (d : db) (outer : bool) : list (crow * option prow) :=
  flat_map (fun c =>
    let ms := filter (fun p => child_of c p) (ps d) in
    if outer && is_nilp ms then [(c, None)] else map (fun p => (c, Some p)) ms) (cs d).

Definition pc_cols (m : colmode) (pc : prow * option crow) : list val :=
  match m with
  | BothEnt => [Some (p_id (fst pc)); oc_id (snd pc)]
  | EntCol => [Some (p_id (fst pc)); oc_y (snd pc)]
  | ColEnt => [p_x (fst pc); oc_id (snd pc)]
  end.

Definition cvals (c : crow) : list val := [Some (c_id c); c_pid c; c_y c; Some (c_kind c)].
Definition crow_of_vals (r : list val) : crow :=
  match r with
  | [Some i; p; y; Some k] => {| c_id := i; c_pid := p; c_y := y; c_kind := k |}
  | _ => {| c_id := 0; c_pid := None; c_y := None; c_kind := 0 |}
  end.

Definition meaning_rows (d : db) (q : oq) : list krow :=
  match q with
  | QP c => map (fun p => ([Some (p_id p)], [Some (p_id p)])) (filter (fun p => is_true (peval d p c)) (ps d))
  | QC k => map (fun c => ([Some (c_id c)], [Some (c_id c)])) (filter (fun c => is_true (ceval d c k)) (cs d))
  | QJoinPC outer t sp sc m =>
    map (fun pc => ([Some (p_id (fst pc)); oc_id (snd pc)], pc_cols m pc))
        (filter (fun pc => is_true (and3 (sxeval sp (p_x (fst pc))) (sxeval sc (oc_y (snd pc))))) (pairs_pc d outer t))
  | QJoinCP outer sc sp =>
    map (fun cp => ([Some (c_id (fst cp))], [Some (c_id (fst cp)); op_id (snd cp)]))
        (filter (fun cp => is_true (and3 (sxeval sc (c_y (fst cp))) (sxeval sp (op_x (snd cp))))) (pairs_cp d outer))
  | QGroup sc =>
    group_count (map (fun pc => (Some (p_id (fst pc)), oc_id (snd pc)))
                     (filter (fun pc => is_true (sxeval sc (oc_y (snd pc)))) (pairs_pc d true TgC)))
  | QUnion a b =>
    map (fun r => (firstn 1 r, firstn 1 r))
        (dedup_rows (map (fun p => [Some (p_id p); p_x p]) (filter (fun p => is_true (peval d p a)) (ps d)) ++
                     map (fun p => [Some (p_id p); p_x p]) (filter (fun p => is_true (peval d p b)) (ps d))) [])
  | QN c => map (fun n => ([Some (c_id n)], [Some (c_id n)])) (filter (fun n => is_true (neval d n c)) (ns d))
  | QUnionC a b post =>
    map (fun r => (firstn 1 r, firstn 1 r))
        (filter (fun r => is_true (ceval d (crow_of_vals r) post))
                (dedup_rows (map cvals (filter (fun c => is_true (sxeval a (c_y c))) (cs d)) ++
                             map cvals (filter (fun c => is_true (sxeval b (c_y c))) (cs d))) []))
  | QSibs _ sc =>
    map (fun ab => ([Some (c_id (fst ab)); Some (c_id (snd ab))], [Some (c_id (fst ab)); Some (c_id (snd ab))]))
        (filter (fun ab => (same_parent (fst ab) (snd ab) && is_true (sxeval sc (c_y (snd ab)))) &&
                           (is_sub (fst ab) && is_sub (snd ab))) (pairs_cc d))
  end.
Definition meaning (d : db) (q : oq) : list (list val) := order_rows (meaning_rows d q).

(* every child handed to contains() exists and has a parent (a NULL foreign key makes the comparison UNKNOWN) *)
Fixpoint contains_ok (d : db) (c : pcrit) : bool :=
  match c with
  | PContains cid => match find_child d cid with Some c => match c_pid c with Some _ => true | None => false end | None => false end
  | PAnd a b | POr a b => contains_ok d a && contains_ok d b
  | PNot a => contains_ok d a
  | _ => true
  end.
Definition query_ok (d : db) (q : oq) : bool :=
  match q with QP c => contains_ok d c | QUnion a b => contains_ok d a && contains_ok d b | _ => true end.
