(* C47 - T1: the entry points that reach Session._autoflush.

   The translator (specs/c47.py) scans orm/session.py, context.py, strategies.py, query.py and loading.py and
   emits, for every function, the names it references out of a fixed vocabulary ([_autoflush] counts only
   when CALLED).  For every documented entry point this file fixes the call chain through which it reaches
   a function that calls [_autoflush]; [chain_valid] checks each link of the chain in the extracted table. *)
From Coq Require Import List String Bool.
Import ListNotations.
Open Scope string_scope.

Definition table := list (string * list string).
Fixpoint refs_of (t : table) (q : string) : list string :=
  match t with [] => [] | (q', r) :: rest => if String.eqb q q' then r else refs_of rest q end.
Definition mem (x : string) (l : list string) : bool := existsb (String.eqb x) l.

(* a chain: functions as (qualified name, simple name) *)
Definition chain := list (string * string).
Fixpoint chain_valid (t : table) (ch : chain) : bool :=
  match ch with
  | [] => false
  | [(q, _)] => mem "_autoflush" (refs_of t q)
  | (q, _) :: (((_, n) :: _) as rest) => mem n (refs_of t q) && chain_valid t rest
  end.

Inductive entry :=
| E_orm_select     (* Session.execute of an ORM select *)
| E_core_stmt      (* Session.execute of a Core statement *)
| E_scalars        (* Session.scalars *)
| E_get            (* Session.get of an absent identity *)
| E_lazy_load      (* many-to-one lazy load (use_get) *)
| E_collection     (* relationship collection load *)
| E_refresh        (* Session.refresh *)
| E_query.         (* legacy Query *)
Definition documented : list entry :=
  [E_orm_select; E_core_stmt; E_scalars; E_get; E_lazy_load; E_collection; E_refresh; E_query].

Definition f_execute := ("session.Session.execute", "execute").
Definition f_internal := ("session.Session._execute_internal", "_execute_internal").
Definition f_pre := ("context._ORMCompileState.orm_pre_session_exec", "orm_pre_session_exec").
Definition f_pk := ("loading._load_on_pk_identity", "_load_on_pk_identity").
Definition f_lfs := ("strategies._LazyLoader._load_for_state", "_load_for_state").
Definition f_emit := ("strategies._LazyLoader._emit_lazyload", "_emit_lazyload").

Definition chain_of (e : entry) : option chain :=
  Some match e with
  | E_orm_select => [f_execute; f_internal; f_pre]
  | E_core_stmt => [f_execute; f_internal]
  | E_scalars => [("session.Session.scalars", "scalars"); f_internal; f_pre]
  | E_get => [("session.Session.get", "get"); f_pk; f_execute; f_internal; f_pre]
  | E_lazy_load => [f_lfs; f_emit; f_pk; f_execute; f_internal; f_pre]
  | E_collection => [f_lfs; f_emit; f_execute; f_internal; f_pre]
  | E_refresh => [("session.Session.refresh", "refresh")]
  | E_query => [("query.Query._iter", "_iter"); f_execute; f_internal; f_pre]
  end.

Definition covers (t : table) : bool :=
  forallb (fun e => match chain_of e with Some ch => chain_valid t ch | None => false end) documented.

Lemma entry_points_total : forall t, covers t = true ->
  forall e, In e documented -> exists ch, chain_of e = Some ch /\ chain_valid t ch = true.
Proof.
  intros t H e He. unfold covers in H. rewrite forallb_forall in H. specialize (H e He).
  destruct (chain_of e) as [ch|]; [|discriminate]. exists ch. auto.
Qed.

(* every function that calls _autoflush directly *)
Definition direct_sites (t : table) : list string :=
  map fst (filter (fun p => mem "_autoflush" (snd p)) t).
Definition expected_direct_sites : list string :=
  [ "context._AutoflushOnlyORMCompileState.orm_pre_session_exec";
    "context._ORMCompileState.orm_pre_session_exec";
    "loading.merge_frozen_result"; "loading.merge_result";
    "session.Session._execute_internal"; "session.Session.merge"; "session.Session.merge_all";
    "session.Session.refresh" ].
