(* C40 - facts about statement sources: which table their rows come from, how they are tagged, and what
   their tag groups are (the spec side of lazy / selectin / subquery loads). *)
From Coq Require Import List ZArith Bool Lia Sorting.Sorted.
Import ListNotations.
From SAV.orm Require Import Loaders LoadersBase LoadersJoin LoadersStmt.
Open Scope Z_scope.

(* ---------------------------------------------------------------- tag selection *)
Definition otag_eqb (a b : option Z) : bool :=
  match a, b with Some x, Some y => x =? y | None, None => true | _, _ => false end.
Lemma otag_eqb_eq : forall a b, otag_eqb a b = true <-> a = b.
Proof.
  intros [x|] [y|]; cbn; split; intro H; try discriminate; auto.
  - apply Z.eqb_eq in H. congruence.
  - inversion H. apply Z.eqb_refl.
Qed.
Lemma otag_eqb_refl : forall a, otag_eqb a a = true.
Proof. intro. apply otag_eqb_eq. auto. Qed.

Definition sel {B} (t : option Z) (l : list (option Z * B)) : list B :=
  map snd (filter (fun x => otag_eqb (fst x) t) l).
Definition tagwise_eq {B} (r1 r2 : list (option Z * B)) : Prop := forall t, sel t r1 = sel t r2.

Lemma with_tag_sel : forall {B} k (r : list (option Z * B)), with_tag k r = sel (Some k) r.
Proof.
  intros. unfold with_tag, sel. apply f_equal. apply filter_ext. intros [t b]. destruct t; reflexivity.
Qed.

Lemma sel_all_none : forall {B} (r : list (option Z * B)), (forall t, t <> None -> sel t r = []) -> map snd r = sel None r.
Proof.
  intros B r H. unfold sel. f_equal. symmetry. apply filter_all_id. intros [t b] Hy. cbn.
  destruct t as [k|]; auto. exfalso. specialize (H (Some k)). unfold sel in H.
  assert (In b (map snd (filter (fun x => otag_eqb (fst x) (Some k)) r))).
  { apply in_map_iff. exists (Some k, b). split; auto. apply filter_In. split; auto. cbn. apply Z.eqb_refl. }
  rewrite H in H0; [contradiction|discriminate].
Qed.

Lemma sel_map : forall {A B} (g : A -> B) (tg : A -> option Z) t (l : list A),
  sel t (map (fun h => (tg h, g h)) l) = map g (filter (fun h => otag_eqb (tg h) t) l).
Proof.
  intros. unfold sel. induction l as [|a l IH]; cbn; auto. destruct (otag_eqb (tg a) t); cbn; rewrite IH; auto.
Qed.

(* ---------------------------------------------------------------- tables and tags of sources *)
Definition src_table (src : source) : list row :=
  match src with
  | SrcUser _ t0 _ => t0
  | SrcLazy s _ | SrcIn s _ => st_table s
  | SrcSubq _ f r => st_table (last_step f r)
  end.
Definition src_tagfn (src : source) (r : row) : option Z :=
  match src with
  | SrcUser _ _ _ | SrcLazy _ _ => None
  | SrcIn s _ => child_key (st_kind s) r
  | SrcSubq _ f r' => child_key (st_kind (last_step f r')) r
  end.
Definition src_step_ok (src : source) : Prop :=
  match src with
  | SrcUser u t0 f => wf_table t0 /\ u_order u <> ONone /\ (forall s, f = Some s -> wf_step s)
  | SrcLazy s _ | SrcIn s _ => wf_step s
  | SrcSubq _ f r => wf_step (last_step f r)
  end.

(* the inner-join reach of a subquery load *)
Definition ireach (l : list row) (steps : list step) : list row :=
  fold_left (fun ls s => flat_map (fun l => filter (linked s l) (st_table s)) ls) steps l.

Definition subq_rows0 (orig : source) (first : step) : list row :=
  match orig with
  | SrcUser u t0 f => run_user (if negb (is_down first) then set_distinct u else u) t0 f
  | _ => map snd (src_base orig)
  end.
Definition subq_keys (orig : source) (first : step) : list Z :=
  let ks := somes (map (parent_key (st_kind first)) (subq_rows0 orig first)) in
  if negb (is_down first) && negb (match orig with SrcUser u _ _ => u_rowlimit u | _ => false end)
  then dedupeZ ks else ks.
Definition subq_rows1 (orig : source) (first : step) : list row :=
  flat_map (fun k => filter (match_key first k) (st_table first)) (subq_keys orig first).

Lemma src_base_subq : forall orig first rest,
  src_base (SrcSubq orig first rest) =
  map (fun r => (child_key (st_kind (last_step first rest)) r, r)) (ireach (subq_rows1 orig first) rest).
Proof. intros. destruct orig; reflexivity. Qed.

Lemma ireach_app : forall l a b, ireach l (a ++ b) = ireach (ireach l a) b.
Proof. intros. unfold ireach. apply fold_left_app. Qed.

Lemma last_cons_default : forall {A} (l : list A) a d, last (a :: l) d = last l a.
Proof. induction l as [|b l IH]; intros; auto. cbn [last] in *. destruct l; auto. Qed.

Lemma ireach_cons : forall l s rest, ireach l (s :: rest) = ireach (flat_map (fun l0 => filter (linked s l0) (st_table s)) l) rest.
Proof. reflexivity. Qed.

Lemma ireach_table : forall rest first l, (forall x, In x l -> In x (st_table first)) ->
  forall x, In x (ireach l rest) -> In x (st_table (last_step first rest)).
Proof.
  unfold last_step. induction rest as [|s rest IH]; intros first l Hl x Hx.
  - cbn in *. auto.
  - rewrite ireach_cons in Hx. rewrite last_cons_default. eapply IH; [|exact Hx].
    intros y Hy. apply in_flat_map in Hy as [z [_ Hy]]. apply filter_In in Hy. tauto.
Qed.

Lemma subq_rows1_table : forall orig first x, In x (subq_rows1 orig first) -> In x (st_table first).
Proof. intros orig first x H. unfold subq_rows1 in H. apply in_flat_map in H as [k [_ H]]. apply filter_In in H. tauto. Qed.

Lemma src_base_spec : forall src h, In h (src_base src) -> In (snd h) (src_table src) /\ fst h = src_tagfn src (snd h).
Proof.
  intros [u t0 f|s k|s ks|orig first rest] h H.
  - cbn [src_base] in H. apply in_map_iff in H as [r [<- Hr]]. cbn. split; auto.
    unfold u_base in Hr. destruct (u_pred u) as [|k|k|k]; auto.
    + apply filter_In in Hr; tauto.
    + destruct f as [s|]; auto. apply in_flat_map in Hr as [p [Hp Hr]]. apply in_map_iff in Hr as [c [<- _]]. auto.
    + destruct f as [s|]; auto. apply filter_In in Hr; tauto.
  - cbn [src_base] in H. apply in_map_iff in H as [r [<- Hr]]. cbn. split; auto. apply filter_In in Hr; tauto.
  - cbn [src_base] in H. apply in_map_iff in H as [r [<- Hr]]. cbn. split; auto. apply filter_In in Hr; tauto.
  - rewrite src_base_subq in H. apply in_map_iff in H as [r [<- Hr]]. cbn [fst snd src_table src_tagfn]. split; auto.
    eapply ireach_table; [|exact Hr]. apply subq_rows1_table.
Qed.

Lemma stmt_heads_base : forall src h, In h (stmt_heads src) -> In h (src_base src).
Proof.
  intros src h H. unfold stmt_heads in H. apply slice_in in H. apply sort_by_in in H.
  destruct (src_distinct src || src_group src); auto. apply uniq_by_in in H. auto.
Qed.

Lemma src_table_wf : forall src, src_step_ok src -> wf_table (src_table src).
Proof. intros [u t0 f|s k|s ks|orig first rest] H; cbn in *; try tauto; destruct H; auto. Qed.

Lemma src_base_tag_inj : forall src, src_step_ok src ->
  forall a b, In a (src_base src) -> In b (src_base src) -> rid (snd a) = rid (snd b) -> a = b.
Proof.
  intros src OK a b Ha Hb E. apply src_base_spec in Ha as [Ha Ta]. apply src_base_spec in Hb as [Hb Tb].
  assert (snd a = snd b) by (eapply table_id_inj; eauto using src_table_wf).
  destruct a as [ta ra], b as [tb rb]. cbn in *. subst. auto.
Qed.
Lemma stmt_heads_tag_inj : forall src, src_step_ok src -> tag_inj (stmt_heads src).
Proof. intros src OK a b Ha Hb E. eapply src_base_tag_inj; eauto using stmt_heads_base. Qed.

Lemma stmt_heads_sorted : forall src, sorted (hkey (src_order src)) (stmt_heads src).
Proof. intro. unfold stmt_heads. apply sorted_slice. apply sort_by_sorted. Qed.

(* within one tag group the primary order is total, or the group is a single row *)
Lemma src_group_ok : forall src, src_step_ok src ->
  src_order src <> ONone \/
  (forall a b, In a (src_base src) -> In b (src_base src) -> fst a = fst b -> a = b).
Proof.
  intros src OK.
  assert (G : forall s, wf_step s -> st_order s <> ONone \/ st_kind s = Up).
  { intros s [_ W]. destruct (st_kind s); auto. }
  destruct src as [u t0 f|s k|s ks|orig first rest]; cbn [src_order src_step_ok] in *.
  - left. tauto.
  - destruct (G s OK) as [?|KU]; auto. right. intros a b Ha Hb _. apply (src_base_tag_inj (SrcLazy s k)); auto.
    cbn [src_base] in Ha, Hb. apply in_map_iff in Ha as [ra [<- Ha]]. apply in_map_iff in Hb as [rb [<- Hb]].
    apply filter_In in Ha as [_ Ha]. apply filter_In in Hb as [_ Hb]. unfold match_key in *. rewrite KU in *. cbn in *.
    apply Z.eqb_eq in Ha, Hb. congruence.
  - destruct (G s OK) as [?|KU]; auto. right. intros a b Ha Hb E. apply (src_base_tag_inj (SrcIn s ks)); auto.
    cbn [src_base] in Ha, Hb. apply in_map_iff in Ha as [ra [<- Ha]]. apply in_map_iff in Hb as [rb [<- Hb]].
    cbn in *. rewrite KU in E. cbn in E. congruence.
  - destruct (G _ OK) as [?|KU]; auto. right. intros a b Ha Hb E. apply (src_base_tag_inj (SrcSubq orig first rest)); auto.
    rewrite src_base_subq in Ha, Hb. apply in_map_iff in Ha as [ra [<- Ha]]. apply in_map_iff in Hb as [rb [<- Hb]].
    cbn in *. rewrite KU in E. cbn in E. congruence.
Qed.
