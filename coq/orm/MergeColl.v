(* C45 - the merged collection: one member per source member, in order; a member whose key can be persistent is
   the identity-map instance of that key. *)
From Coq Require Import List Bool Arith ZArith Lia.
From SAV.orm Require Import Merge MergeProofs MergeValues MergeWf.
Import ListNotations.

(* identity-map entries of class B are never removed or replaced *)
Definition idB_mono (s s' : mstate) : Prop := forall pk c, idB s pk = Some c -> idB s' pk = Some c.
Lemma idB_mono_refl : forall s, idB_mono s s. Proof. intros s pk c H; exact H. Qed.
Lemma idB_mono_trans : forall a b c, idB_mono a b -> idB_mono b c -> idB_mono a c.
Proof. intros a b c H1 H2 pk x H. auto. Qed.
Lemma idB_mono_eq : forall s s', idB s' = idB s -> idB_mono s s'.
Proof. intros s s' E pk c H. rewrite E. exact H. Qed.

Lemma idB_mono_load_B : forall cfg s pk row, idB_mono s (fst (load_B cfg s pk row)) /\
  idB (fst (load_B cfg s pk row)) pk = Some (snd (load_B cfg s pk row)).
Proof.
  intros cfg s pk row. unfold load_B. destruct (idB s pk) as [t|] eqn:Ib.
  - cbn [fst snd]. split; [apply idB_mono_refl|exact Ib].
  - cbn [alloc fst snd]. split.
    + intros pk' c H. cbn [idB set_idB set_cols set_tkey set_next]. unfold upd.
      destruct (Nat.eqb pk' pk) eqn:E; [apply Nat.eqb_eq in E; subst; congruence|exact H].
    + cbn [idB set_idB]. unfold upd. rewrite Nat.eqb_refl. reflexivity.
Qed.

Lemma idB_mono_get_B : forall cfg s pk, idB_mono s (fst (get_B cfg s pk)) /\
  (forall c, snd (get_B cfg s pk) = Some c -> idB (fst (get_B cfg s pk)) pk = Some c) /\
  (snd (get_B cfg s pk) = None -> assoc pk (rowsB cfg) = None /\ idB (fst (get_B cfg s pk)) = idB s).
Proof.
  intros cfg s pk. unfold get_B. destruct (idB s pk) as [t|] eqn:Ib.
  - cbn [fst snd]. split; [apply idB_mono_refl|]. split; [intros c E; inversion E; subst; exact Ib|discriminate].
  - destruct (assoc pk (rowsB cfg)) as [row|] eqn:Ar.
    + destruct (idB_mono_load_B cfg (inc_sql s) pk row) as [L1 L2].
      destruct (load_B cfg (inc_sql s) pk row) as [s1 t1]. cbn [fst snd] in *.
      split; [exact L1|]. split; [intros c E; inversion E; subst; exact L2|discriminate].
    + cbn [fst snd]. split; [apply idB_mono_eq; reflexivity|]. split; [discriminate|]. intros _. split; reflexivity.
Qed.

Lemma idB_mono_lazy_bs : forall cfg s t, idB_mono s (lazy_bs cfg s t).
Proof.
  intros cfg s t. unfold lazy_bs. destruct (bs s t); [apply idB_mono_refl|].
  destruct (tkey s t) as [pk|]; [|apply idB_mono_eq; reflexivity].
  assert (G : forall rows a l, idB_mono a (fst (fold_left (fun sl r => let '(s, l) := sl in
                  match fst (snd r) with
                  | Some a => if Nat.eqb a pk then let '(s', c) := load_B cfg s (fst r) (snd r) in (s', l ++ [c]) else (s, l)
                  | None => (s, l) end) rows (a, l)))).
  { induction rows as [|r rows IH]; intros a l; cbn [fold_left]; [apply idB_mono_refl|].
    destruct (fst (snd r)) as [a0|]; [|apply IH]. destruct (Nat.eqb a0 pk); [|apply IH].
    destruct (idB_mono_load_B cfg a (fst r) (snd r)) as [L1 _].
    destruct (load_B cfg a (fst r) (snd r)) as [s' c]. cbn [fst] in L1. eapply idB_mono_trans; [exact L1|apply IH]. }
  specialize (G (rowsB cfg) (inc_sql s) []). destruct (fold_left _ (rowsB cfg) (inc_sql s, [])) as [s1 l]. cbn [fst] in G.
  intros pk' c H. cbn [idB set_bs]. apply G. exact H.
Qed.

Lemma idB_merge_col_eq : forall load s t k v, idB (merge_col load s t k v) = idB s.
Proof. intros. destruct v; cbn [merge_col]; [reflexivity|]. destruct load; [unfold set_col; destruct (ccomm s t k)|]; reflexivity. Qed.

(* can the key resolve to a persistent instance ? *)
Definition persistable (cfg : mconfig) (load : bool) (s : mstate) (pk : nat) : Prop :=
  load = false \/ idB s pk <> None \/ assoc pk (rowsB cfg) <> None.

(* conflict-map entries are identity-map entries, except pending copies of keys without a row *)
Definition cmap_inv (cfg : mconfig) (load : bool) (s : mstate) (ctx : mctx) : Prop :=
  forall pk c, assoc pk (cmap ctx) = Some c ->
    idB s pk = Some c \/ (idB s pk = None /\ load = true /\ assoc pk (rowsB cfg) = None).

Lemma rows_none_stable_load_B : forall cfg s pk row pk', assoc pk' (rowsB cfg) = None -> assoc pk (rowsB cfg) = Some row ->
  idB s pk' = None -> idB (fst (load_B cfg s pk row)) pk' = None.
Proof.
  intros cfg s pk row pk' Hn Hr Hi. unfold load_B. destruct (idB s pk); [exact Hi|]. cbn [alloc fst idB set_idB set_cols set_tkey set_next].
  unfold upd. destruct (Nat.eqb pk' pk) eqn:E; [apply Nat.eqb_eq in E; subst; congruence|exact Hi].
Qed.

(* one child: the appended target *)
Lemma persistable_mono : forall cfg load s0 s pk, idB_mono s0 s -> persistable cfg load s0 pk -> persistable cfg load s pk.
Proof.
  intros cfg load s0 s pk M [H|[H|H]]; [left; exact H| |right; right; exact H].
  right. left. destruct (idB s0 pk) as [c|] eqn:E; [|contradiction]. rewrite (M pk c E). discriminate.
Qed.

Lemma merge_B_target : forall cfg load root sbs s0 s ctx dest j s' ctx' dest',
  merge_B cfg load root sbs (Some (s, ctx, dest)) j = Some (s', ctx', dest') ->
  idB_mono s0 s -> nth_error sbs j <> None ->
  cmap_inv cfg load s ctx -> (forall j0 t0, assoc j0 (memo ctx) = Some t0 -> forall b pk, nth_error sbs j0 = Some b -> sb_pk b = Some pk ->
                              persistable cfg load s0 pk -> idB s pk = Some t0) ->
  idB_mono s s' /\ cmap_inv cfg load s' ctx' /\
  (exists c, dest' = dest ++ [c] /\
     (forall b pk, nth_error sbs j = Some b -> sb_pk b = Some pk -> persistable cfg load s0 pk -> idB s' pk = Some c)) /\
  (forall j0 t0, assoc j0 (memo ctx') = Some t0 -> forall b pk, nth_error sbs j0 = Some b -> sb_pk b = Some pk ->
     persistable cfg load s0 pk -> idB s' pk = Some t0).
Proof.
  intros cfg load root sbs s0 s ctx dest j s' ctx' dest' H M0 Hvalid Hcm Hmemo. cbn [merge_B] in H.
  destruct (assoc j (memo ctx)) as [t0|] eqn:Em.
  { inversion H; subst. split; [apply idB_mono_refl|]. split; [exact Hcm|]. split; [|exact Hmemo].
    exists t0. split; [reflexivity|]. intros b pk Hb Hp Hper. eapply Hmemo; eauto. }
  destruct (nth_error sbs j) as [src|] eqn:En.
  2:{ exfalso. apply Hvalid. reflexivity. }
  destruct (negb (sb_detached src) && negb load); [discriminate|].
  set (res := match match sb_pk src with Some pk => idB s pk | None => None end with
              | Some t0 => (s, Some t0)
              | None => match sb_pk src with
                        | Some pk => match assoc pk (cmap ctx) with
                                     | Some t0 => (s, Some t0)
                                     | None => if negb load then
                                                 let '(sa, t0) := alloc s in (set_idB (set_tkey sa t0 (Some pk)) pk (Some t0), Some t0)
                                               else get_B cfg s pk
                                     end
                        | None => (s, None)
                        end
              end) in *.
  (* facts about the resolution *)
  assert (Res : idB_mono s (fst res) /\
                (forall pk, sb_pk src = Some pk ->
                   (forall c, snd res = Some c -> idB (fst res) pk = Some c \/ (idB (fst res) pk = None /\ load = true /\ assoc pk (rowsB cfg) = None)) /\
                   (snd res = None -> idB (fst res) pk = None /\ load = true /\ assoc pk (rowsB cfg) = None) /\
                   (forall c, snd res = Some c -> persistable cfg load s pk -> idB (fst res) pk = Some c)) /\
                (forall pk', assoc pk' (rowsB cfg) = None -> load = true -> idB s pk' = None -> idB (fst res) pk' = None)).
  { unfold res. destruct (sb_pk src) as [pk|] eqn:Epk.
    - destruct (idB s pk) as [t0|] eqn:Ib.
      + cbn [fst snd]. split; [apply idB_mono_refl|]. split; [|auto]. intros pk0 E0. inversion E0; subst pk0.
        split; [intros c E; inversion E; subst; left; exact Ib|]. split; [discriminate|]. intros c E _. inversion E; subst. exact Ib.
      + destruct (assoc pk (cmap ctx)) as [t0|] eqn:Ic.
        * cbn [fst snd]. split; [apply idB_mono_refl|]. split; [|auto]. intros pk0 E0. inversion E0; subst pk0.
          split; [intros c E; inversion E; subst; apply Hcm; exact Ic|]. split; [discriminate|].
          intros c E Hper. inversion E; subst. destruct (Hcm pk c Ic) as [Q|[Q1 [Q2 Q3]]]; [exact Q|].
          destruct Hper as [Hp|[Hp|Hp]]; [congruence|contradiction|contradiction].
        * destruct load; cbn [negb].
          { destruct (idB_mono_get_B cfg s pk) as [G1 [G2 G3]]. split; [exact G1|]. split.
            - intros pk0 E0. inversion E0; subst pk0. split; [intros c E; left; apply G2; exact E|]. split.
              + intros E. destruct (G3 E) as [Q1 Q2]. split; [rewrite Q2; exact Ib|]. split; [reflexivity|exact Q1].
              + intros c E _. apply G2. exact E.
            - intros pk' Hn _ Hi. unfold get_B. rewrite Ib. destruct (assoc pk (rowsB cfg)) as [row|] eqn:Ar; [|exact Hi].
              pose proof (rows_none_stable_load_B cfg (inc_sql s) pk row pk' Hn Ar Hi) as X.
              destruct (load_B cfg (inc_sql s) pk row). exact X. }
          { cbn [alloc fst snd]. split.
            - intros pk' c Hc. cbn [idB set_idB set_tkey set_next]. unfold upd. destruct (Nat.eqb pk' pk) eqn:E; [apply Nat.eqb_eq in E; subst; congruence|exact Hc].
            - split; [|intros pk' _ F; discriminate]. intros pk0 E0. inversion E0; subst pk0.
              assert (X : idB (set_idB (set_tkey (set_next s (S (next s))) (next s) (Some pk)) pk (Some (next s))) pk = Some (next s)).
              { cbn [idB set_idB]. unfold upd. rewrite Nat.eqb_refl. reflexivity. }
              split; [intros c E; inversion E; subst; left; exact X|]. split; [discriminate|]. intros c E _. inversion E; subst. exact X. }
    - cbn [fst snd]. split; [apply idB_mono_refl|]. split; [intros pk0 E0; discriminate|auto]. }
  clearbody res. destruct res as [s1 tgt]. cbn [fst snd] in Res. destruct Res as [M1 [Rk Rn]].
  set (al := match tgt with Some t1 => (s1, t1) | None => let '(sa, t2) := alloc s1 in (set_pending sa t2, t2) end) in *.
  assert (Al : idB (fst al) = idB s1 /\ (forall c, tgt = Some c -> snd al = c)).
  { unfold al. destruct tgt; cbn [alloc fst snd]; split; try reflexivity; intros c E; inversion E; reflexivity. }
  clearbody al. destruct al as [s2 tc]. cbn [fst snd] in Al. destruct Al as [I2 T2].
  inversion H; subst; clear H.
  (* the remaining steps do not touch idB *)
  assert (Fin : forall X, X = (if load then
                   (if hb cfg && mb cfg && negb load then match sb_a src with BPunloaded => merge_col load (match sb_pk src with Some pk => merge_col load s2 tc 0 (SV (zpk pk)) | None => s2 end) tc 1 (sb_v src) | BPnone => set_par (merge_col load (match sb_pk src with Some pk => merge_col load s2 tc 0 (SV (zpk pk)) | None => s2 end) tc 1 (sb_v src)) tc (Some None) | BPparent => set_par (merge_col load (match sb_pk src with Some pk => merge_col load s2 tc 0 (SV (zpk pk)) | None => s2 end) tc 1 (sb_v src)) tc (Some (Some root)) end else merge_col load (match sb_pk src with Some pk => merge_col load s2 tc 0 (SV (zpk pk)) | None => s2 end) tc 1 (sb_v src))
                 else commit_all (if hb cfg && mb cfg && negb load then match sb_a src with BPunloaded => merge_col load (match sb_pk src with Some pk => merge_col load s2 tc 0 (SV (zpk pk)) | None => s2 end) tc 1 (sb_v src) | BPnone => set_par (merge_col load (match sb_pk src with Some pk => merge_col load s2 tc 0 (SV (zpk pk)) | None => s2 end) tc 1 (sb_v src)) tc (Some None) | BPparent => set_par (merge_col load (match sb_pk src with Some pk => merge_col load s2 tc 0 (SV (zpk pk)) | None => s2 end) tc 1 (sb_v src)) tc (Some (Some root)) end else merge_col load (match sb_pk src with Some pk => merge_col load s2 tc 0 (SV (zpk pk)) | None => s2 end) tc 1 (sb_v src)) tc) ->
                idB X = idB s1).
  { intros X EX. subst X. rewrite <- I2.
    assert (A : forall a, idB (match sb_pk src with Some pk => merge_col load a tc 0 (SV (zpk pk)) | None => a end) = idB a).
    { intros a. destruct (sb_pk src); [apply idB_merge_col_eq|reflexivity]. }
    destruct load; cbn [negb]; rewrite ?andb_false_r, ?andb_true_r.
    - rewrite idB_merge_col_eq. apply A.
    - cbn [idB commit_all]. destruct (hb cfg && mb cfg); [destruct (sb_a src)|]; cbn [idB set_par]; rewrite idB_merge_col_eq; apply A. }
  match goal with |- idB_mono s ?X /\ _ => specialize (Fin X eq_refl); set (sf := X) in * end.
  assert (Msf : idB_mono s sf) by (intros pk c Hc; rewrite Fin; apply M1; exact Hc).
  split; [exact Msf|]. split; [|split].
  - (* cmap_inv *)
    intros pk c E. cbn [cmap] in E. rewrite Fin.
    assert (Old : assoc pk (cmap ctx) = Some c -> idB s1 pk = Some c \/ (idB s1 pk = None /\ load = true /\ assoc pk (rowsB cfg) = None)).
    { intros E0. destruct (Hcm pk c E0) as [Q|[Q1 [Q2 Q3]]]; [left; apply M1; exact Q|right]. split; [apply Rn; assumption|auto]. }
    destruct (sb_pk src) as [pk0|] eqn:Epk; [|apply Old; exact E].
    rewrite assoc_cons in E. destruct (Nat.eqb pk pk0) eqn:Eq; [|apply Old; exact E].
    apply Nat.eqb_eq in Eq. subst pk0. inversion E; subst c. destruct (Rk pk eq_refl) as [K1 [K2 K3]].
    destruct tgt as [c0|]; [rewrite (T2 c0 eq_refl); apply K1; reflexivity|]. right. apply K2. reflexivity.
  - exists tc. split; [reflexivity|]. intros b pk Hb Hp Hper0. inversion Hb; subst b. rewrite Fin.
    pose proof (persistable_mono cfg load s0 s pk M0 Hper0) as Hper.
    destruct (Rk pk Hp) as [K1 [K2 K3]]. destruct tgt as [c0|].
    + rewrite (T2 c0 eq_refl). apply K3; [reflexivity|exact Hper].
    + exfalso. destruct (K2 eq_refl) as [Q1 [Q2 Q3]]. destruct Hper as [Hx|[Hx|Hx]]; [congruence| |contradiction].
      apply Hx. destruct (idB s pk) eqn:Ib; [|reflexivity]. apply M1 in Ib. congruence.
  - intros j0 t0 E b pk Hb Hp Hper0. pose proof (persistable_mono cfg load s0 s pk M0 Hper0) as Hper.
    cbn [memo] in E. rewrite assoc_cons in E. destruct (Nat.eqb j0 j) eqn:Ej.
    + apply Nat.eqb_eq in Ej. subst j0. inversion E; subst t0. rewrite En in Hb. inversion Hb; subst b. rewrite Fin.
      destruct (Rk pk Hp) as [K1 [K2 K3]]. destruct tgt as [c0|].
      * rewrite (T2 c0 eq_refl). apply K3; [reflexivity|exact Hper].
      * exfalso. destruct (K2 eq_refl) as [Q1 [Q2 Q3]]. destruct Hper as [Hx|[Hx|Hx]]; [congruence| |contradiction].
        apply Hx. destruct (idB s pk) eqn:Ib; [|reflexivity]. apply M1 in Ib. congruence.
    + apply Msf. eapply Hmemo; eauto.
Qed.
