(* C46: proofs about the attribute-state model *)
From Coq Require Import List ZArith NArith Bool Arith Lia.
Import ListNotations.
From SAV.orm Require Import Expire.
Open Scope Z_scope.

(* attached to the session, no pending change, and either expired or holding the value the session's open transaction sees *)
Definition synced (s : state) (k : Z) (a : nat) : Prop :=
  oatt (objs s k) = true /\ orig (objs s k) a = None /\
  (oval (objs s k) a = None \/ (snap s <> None /\ oval (objs s k) a = Some (view s k a))).
(* a pending (unflushed) change with value v *)
Definition pending (s : state) (k : Z) (a : nat) (v : Z) : Prop :=
  orig (objs s k) a <> None /\ oval (objs s k) a = Some v.
(* well-formedness: what is not in the dict is marked expired and has no pending change *)
Definition wf (s : state) : Prop :=
  forall k a, oval (objs s k) a = None -> oexp (objs s k) a = true /\ orig (objs s k) a = None.

Definition named (ns : list nat) (a : nat) : bool := match ns with [] => true | _ => mem a ns end.

(* operations after which attribute a of instance k must read as the database's value *)
Definition expires (eoc : bool) (o : op) (s : state) (k : Z) (a : nat) : Prop :=
  oatt (objs s k) = true /\
  match o with
  | Expire k' ns | Refresh k' ns => k' = k /\ named ns a = true
  | ExpireAll | PopEx | PopExCols _ => True
  | Commit => eoc = true
  | Rollback => tx s = true
  | _ => False
  end.
(* operations that do not end the guarantee *)
Definition keeps (eoc : bool) (k : Z) (a : nat) (o : op) : Prop :=
  match o with
  | SetA k' a' _ => ~ (k' = k /\ a' = a)
  | Commit => eoc = true
  | Expunge k' => k' <> k
  | _ => True
  end.
(* operations that leave a pending change of (k, a) alone *)
Definition undisturbed (k : Z) (a : nat) (o : op) : Prop :=
  match o with
  | SetA k' a' _ => ~ (k' = k /\ a' = a)
  | Expire k' ns | Refresh k' ns => k' <> k \/ named ns a = false
  | Read _ _ | Ext _ _ _ | Expunge _ | Add _ => True
  | ExpireAll | Commit | Rollback | PopEx | PopExCols _ => False
  end.

Lemma view_begin_read : forall s, view (begin_read s) = view s.
Proof. intros s. unfold view, begin_read. cbn [snap com]. destruct (snap s) as [[g r]|]; reflexivity. Qed.
Lemma snap_begin_read : forall s, snap (begin_read s) <> None.
Proof. intros s. unfold begin_read. cbn [snap]. destruct (snap s); discriminate. Qed.
Lemma view_with_objs : forall s f, view (with_objs s f) = view s.
Proof. reflexivity. Qed.

Lemma named_cases : forall ns a, named ns a = true -> ns = [] \/ (ns <> [] /\ mem a ns = true).
Proof. intros [|n t] a H; [left; reflexivity|right; split; [discriminate|exact H]]. Qed.

Lemma expire_obj_named : forall ns o a, named ns a = true ->
  oval (expire_obj ns o) a = None /\ orig (expire_obj ns o) a = None /\ oexp (expire_obj ns o) a = true.
Proof.
  intros [|n t] o a H; cbn [expire_obj expire_full expire_attrs oval orig oexp]; [repeat split|].
  cbn [named] in H. rewrite H. repeat split.
Qed.
Lemma expire_obj_unnamed : forall ns o a, named ns a = false ->
  oval (expire_obj ns o) a = oval o a /\ orig (expire_obj ns o) a = orig o a /\ oexp (expire_obj ns o) a = oexp o a /\
  omod (expire_obj ns o) = omod o.
Proof.
  intros [|n t] o a H; [discriminate|]. cbn [expire_obj expire_attrs oval orig oexp omod]. cbn [named] in H. rewrite H. repeat split.
Qed.
Lemma refreshed_named : forall ns r o a, named ns a = true ->
  oval (refreshed_obj ns r o) a = Some (r a) /\ orig (refreshed_obj ns r o) a = None /\ oexp (refreshed_obj ns r o) a = false.
Proof.
  intros [|n t] r o a H; cbn [refreshed_obj oval orig oexp]; [repeat split|]. cbn [named] in H. rewrite H. repeat split.
Qed.
Lemma refreshed_unnamed : forall ns r o a, named ns a = false ->
  oval (refreshed_obj ns r o) a = oval o a /\ orig (refreshed_obj ns r o) a = orig o a /\ oexp (refreshed_obj ns r o) a = oexp o a /\
  omod (refreshed_obj ns r o) = omod o.
Proof.
  intros [|n t] r o a H; [discriminate|]. cbn [refreshed_obj oval orig oexp omod]. cbn [named] in H. rewrite H. repeat split.
Qed.

Lemma upd_obj_same : forall s k o, upd_obj s k o k = o.
Proof. intros. unfold upd_obj. rewrite Z.eqb_refl. reflexivity. Qed.
Lemma upd_obj_other : forall s k o k', k' <> k -> upd_obj s k o k' = objs s k'.
Proof. intros. unfold upd_obj. destruct (Z.eqb_spec k' k); [contradiction|reflexivity]. Qed.

Lemma oatt_expire_obj : forall ns o, oatt (expire_obj ns o) = oatt o.
Proof. intros [|n t] o; reflexivity. Qed.
Lemma oatt_refreshed : forall ns r o, oatt (refreshed_obj ns r o) = oatt o.
Proof. intros [|n t] r o; reflexivity. Qed.
Lemma att_true : forall f o, oatt o = true -> att f o = f o.
Proof. intros f o H. unfold att. rewrite H. reflexivity. Qed.
Lemma att_false : forall f o, oatt o = false -> att f o = o.
Proof. intros f o H. unfold att. rewrite H. reflexivity. Qed.

Section P.
Variables (eoc : bool) (pks : list Z) (attrs : list nat).
Notation stepT := (step eoc pks attrs).
Notation runT := (run eoc pks attrs).

(* ---------- well-formedness ---------- *)
Lemma wf_init : forall r0, wf (init r0).
Proof. intros r0 k a. cbn. discriminate. Qed.

Lemma wf_att_expire : forall s, wf s -> forall k a,
  oval (att expire_full (objs s k)) a = None ->
  oexp (att expire_full (objs s k)) a = true /\ orig (att expire_full (objs s k)) a = None.
Proof.
  intros s W k a. unfold att. destruct (oatt (objs s k)); [intros _; cbn; split; reflexivity|apply W].
Qed.

Lemma wf_step : forall o s, wf s -> wf (fst (stepT o s)).
Proof.
  intros o s W. destruct o as [k a|k a v|k ns| |k ns| | | |k a v|ns|k|k]; cbn [step].
  - destruct (oval (objs s k) a) eqn:E; cbn [fst]; [exact W|].
    destruct (oatt (objs s k)); cbn [fst]; [|exact W].
    intros k' a'. cbn [with_objs objs]. unfold upd_obj. destruct (Z.eqb_spec k' k) as [->|N]; [|apply W].
    cbn [loaded_obj oval oexp orig]. destruct (oexp (objs s k) a' && isnone (orig (objs s k) a')) eqn:C; [discriminate|].
    intros H. destruct (W k a' H) as [A B]. rewrite A, B in C. discriminate.
  - cbn [fst]. intros k' a'. cbn [objs]. unfold upd_obj. destruct (Z.eqb_spec k' k) as [->|N]; [|apply W].
    cbn [oval oexp orig]. destruct (Nat.eqb_spec a' a); [discriminate|]. apply W.
  - destruct (oatt (objs s k)); cbn [fst]; [|exact W].
    intros k' a'. cbn [with_objs objs]. unfold upd_obj. destruct (Z.eqb_spec k' k) as [->|N]; [|apply W].
    destruct (named ns a') eqn:Nm.
    + destruct (expire_obj_named ns (objs s k) a' Nm) as [A [B C]]. intros _. split; assumption.
    + destruct (expire_obj_unnamed ns (objs s k) a' Nm) as [A [B [C _]]]. rewrite A, B, C. apply W.
  - cbn [fst]. intros k' a'. cbn [with_objs objs]. apply wf_att_expire, W.
  - destruct (oatt (objs s k)); cbn [fst]; [|exact W].
    intros k' a'. cbn [with_objs objs]. unfold upd_obj. destruct (Z.eqb_spec k' k) as [->|N]; [|apply W].
    destruct (named ns a') eqn:Nm.
    + destruct (refreshed_named ns (view (begin_read s) k) (expire_obj ns (objs s k)) a' Nm) as [A _]. rewrite A. discriminate.
    + destruct (refreshed_unnamed ns (view (begin_read s) k) (expire_obj ns (objs s k)) a' Nm) as [A [B [C _]]].
      destruct (expire_obj_unnamed ns (objs s k) a' Nm) as [A' [B' [C' _]]]. rewrite A, B, C, A', B', C'. apply W.
  - unfold commit. destruct (any_changed pks attrs s && _); cbn [fst].
    + intros k' a'. cbn [rolled_back objs]. apply wf_att_expire, W.
    + intros k' a'. cbn [objs]. destruct (oatt (objs s k')); [|apply W].
      destruct eoc; [intros _; cbn; split; reflexivity|].
      destruct (omod (objs s k')) eqn:M; [|apply W].
      destruct (isnone (oval (objs s k') 0%nat)); cbn [finalized loaded_obj oval oexp orig].
      * destruct (oexp (objs s k') a' && isnone (orig (objs s k') a')) eqn:C; [discriminate|].
        intros H. destruct (W k' a' H) as [A B]. rewrite A, B in C. discriminate.
      * intros H. destruct (W k' a' H) as [A B]. rewrite A, H. split; reflexivity.
  - destruct (tx s); cbn [fst]; [|exact W]. intros k' a'. cbn [rolled_back objs]. apply wf_att_expire, W.
  - cbn [fst]. intros k' a'. cbn [with_objs objs]. unfold att. destruct (oatt (objs s k')); [cbn; discriminate|apply W].
  - cbn [fst]. exact W.
  - cbn [fst]. intros k' a'. cbn [with_objs objs]. unfold att. destruct (oatt (objs s k')); [|apply W].
    cbn [populated_obj oval oexp orig]. destruct (in_row ns a'); [discriminate|intros _; split; reflexivity].
  - destruct (oatt (objs s k)); cbn [fst]; [|exact W].
    intros k' a'. cbn [with_objs objs]. unfold upd_obj. destruct (Z.eqb_spec k' k) as [->|N]; [|apply W]. cbn [oval oexp orig]. apply W.
  - cbn [fst]. intros k' a'. cbn [objs]. unfold upd_obj. destruct (Z.eqb_spec k' k) as [->|N]; [|apply W]. cbn [oval oexp orig]. apply W.
Qed.

Lemma wf_run : forall l s, wf s -> wf (runT l s).
Proof. induction l as [|o t IH]; intros s W; cbn [run]; [exact W|]. apply IH, wf_step, W. Qed.

(* ---------- clause 1: establish / preserve / use ---------- *)
Lemma synced_expired : forall s k a, oatt (objs s k) = true -> orig (objs s k) a = None -> oval (objs s k) a = None -> synced s k a.
Proof. intros s k a A B C. split; [exact A|split; [exact B|left; exact C]]. Qed.

Lemma expires_synced : forall o s k a, expires eoc o s k a -> synced (fst (stepT o s)) k a.
Proof.
  intros o s k a [HA H]. destruct o as [k' a'|k' a' v|k' ns| |k' ns| | | |k' a' v|ns|k'|k']; try contradiction; cbn [step].
  - destruct H as [-> Nm]. rewrite HA. cbn [fst]. unfold synced. cbn [with_objs objs]. rewrite upd_obj_same.
    destruct (expire_obj_named ns (objs s k) a Nm) as [A [B _]]. rewrite oatt_expire_obj.
    split; [exact HA|split; [exact B|left; exact A]].
  - cbn [fst]. apply synced_expired; cbn [with_objs objs]; rewrite (att_true _ _ HA); [exact HA|reflexivity|reflexivity].
  - destruct H as [-> Nm]. rewrite HA. cbn [fst]. unfold synced. rewrite view_with_objs. cbn [with_objs objs snap]. rewrite upd_obj_same.
    destruct (refreshed_named ns (view (begin_read s) k) (expire_obj ns (objs s k)) a Nm) as [A [B _]].
    rewrite oatt_refreshed, oatt_expire_obj.
    split; [exact HA|split; [exact B|right]]. split; [apply snap_begin_read|exact A].
  - subst eoc. unfold commit. destruct (any_changed pks attrs s && _); cbn [fst].
    + apply synced_expired; cbn [rolled_back objs]; rewrite (att_true _ _ HA); [exact HA|reflexivity|reflexivity].
    + apply synced_expired; cbn [objs]; rewrite HA; [|reflexivity|reflexivity].
      cbn [expire_full oatt]. destruct (omod (objs s k)); [|exact HA].
      destruct (isnone (oval (objs s k) 0%nat)); cbn [finalized loaded_obj oatt]; exact HA.
  - rewrite H. cbn [fst]. apply synced_expired; cbn [rolled_back objs]; rewrite (att_true _ _ HA); [exact HA|reflexivity|reflexivity].
  - cbn [fst]. unfold synced. rewrite view_with_objs. cbn [with_objs objs snap]. rewrite (att_true _ _ HA).
    cbn [refreshed_obj oval orig oatt].
    split; [exact HA|split; [reflexivity|right]]. split; [apply snap_begin_read|reflexivity].
  - cbn [fst]. unfold synced. rewrite view_with_objs. cbn [with_objs objs snap]. rewrite (att_true _ _ HA).
    cbn [populated_obj oval orig oatt]. split; [exact HA|split; [reflexivity|]].
    destruct (in_row ns a); [right; split; [apply snap_begin_read|reflexivity]|left; reflexivity].
Qed.

Lemma keeps_synced : forall o s k a, keeps eoc k a o -> synced s k a -> synced (fst (stepT o s)) k a.
Proof.
  intros o s k a K [SA [S1 S2]].
  destruct o as [k' a'|k' a' v|k' ns| |k' ns| | | |k' a' v|ns|k'|k']; cbn [keeps] in K; cbn [step].
  - (* read *)
    destruct (oval (objs s k') a'); cbn [fst]; [split; [exact SA|split; assumption]|].
    destruct (oatt (objs s k')) eqn:HA'; cbn [fst]; [|split; [exact SA|split; assumption]].
    unfold synced. rewrite view_with_objs, view_begin_read. cbn [with_objs objs snap].
    unfold upd_obj. destruct (Z.eqb_spec k k') as [->|N].
    + cbn [loaded_obj oval orig oatt]. split; [exact SA|]. split; [exact S1|]. rewrite S1. cbn [isnone]. rewrite andb_true_r.
      destruct (oexp (objs s k') a).
      * right. split; [apply snap_begin_read|reflexivity].
      * destruct S2 as [E|[E1 E2]]; [left; exact E|right]. split; [apply snap_begin_read|exact E2].
    + split; [exact SA|]. split; [exact S1|]. destruct S2 as [E|[E1 E2]]; [left; exact E|right]. split; [apply snap_begin_read|exact E2].
  - (* set of another attribute *)
    cbn [fst]. unfold synced, view. cbn [objs snap com]. fold (view s). unfold upd_obj.
    destruct (Z.eqb_spec k k') as [->|N]; [|split; [exact SA|split; assumption]].
    cbn [oval orig oatt]. destruct (Nat.eqb_spec a a') as [->|Na]; [exfalso; apply K; split; reflexivity|].
    split; [exact SA|split; assumption].
  - (* expire *)
    destruct (oatt (objs s k')) eqn:HA'; cbn [fst]; [|split; [exact SA|split; assumption]].
    unfold synced. rewrite view_with_objs. cbn [with_objs objs snap]. unfold upd_obj.
    destruct (Z.eqb_spec k k') as [->|N]; [|split; [exact SA|split; assumption]].
    rewrite oatt_expire_obj. split; [exact SA|].
    destruct (named ns a) eqn:Nm.
    + destruct (expire_obj_named ns (objs s k') a Nm) as [A [B _]]. split; [exact B|left; exact A].
    + destruct (expire_obj_unnamed ns (objs s k') a Nm) as [A [B _]]. rewrite A, B. split; assumption.
  - apply (expires_synced ExpireAll). split; [exact SA|exact I].
  - (* refresh *)
    destruct (oatt (objs s k')) eqn:HA'; cbn [fst]; [|split; [exact SA|split; assumption]].
    unfold synced. rewrite view_with_objs, view_begin_read. cbn [with_objs objs snap]. unfold upd_obj.
    destruct (Z.eqb_spec k k') as [->|N].
    + rewrite oatt_refreshed, oatt_expire_obj. split; [exact SA|].
      destruct (named ns a) eqn:Nm.
      * destruct (refreshed_named ns (view s k') (expire_obj ns (objs s k')) a Nm) as [A [B _]].
        split; [exact B|right]. split; [apply snap_begin_read|]. rewrite A. reflexivity.
      * destruct (refreshed_unnamed ns (view s k') (expire_obj ns (objs s k')) a Nm) as [A [B _]].
        destruct (expire_obj_unnamed ns (objs s k') a Nm) as [A' [B' _]]. rewrite A, B, A', B'.
        split; [exact S1|]. destruct S2 as [E|[E1 E2]]; [left; exact E|right]. split; [apply snap_begin_read|exact E2].
    + split; [exact SA|]. split; [exact S1|]. destruct S2 as [E|[E1 E2]]; [left; exact E|right]. split; [apply snap_begin_read|exact E2].
  - apply (expires_synced Commit). split; [exact SA|exact K].
  - destruct (tx s) eqn:T; cbn [fst]; [|split; [exact SA|split; assumption]].
    pose proof (expires_synced Rollback s k a (conj SA T)) as X. cbn [step] in X. rewrite T in X. exact X.
  - apply (expires_synced PopEx). split; [exact SA|exact I].
  - (* external update: an open snapshot does not move; without one the attribute is expired *)
    cbn [fst]. unfold synced, view. cbn [objs snap com]. split; [exact SA|]. split; [exact S1|].
    destruct S2 as [E|[E1 E2]]; [left; exact E|right]. split; [exact E1|].
    unfold view in E2. destruct (snap s) as [[g r]|]; [exact E2|contradiction].
  - apply (expires_synced (PopExCols ns)). split; [exact SA|exact I].
  - (* expunge of another instance *)
    destruct (oatt (objs s k')); cbn [fst]; [|split; [exact SA|split; assumption]].
    unfold synced. rewrite view_with_objs. cbn [with_objs objs snap]. rewrite upd_obj_other by exact (not_eq_sym K).
    split; [exact SA|split; assumption].
  - (* add *)
    cbn [fst]. unfold synced, view. cbn [objs snap com]. fold (view s). unfold upd_obj.
    destruct (Z.eqb_spec k k') as [->|N]; [|split; [exact SA|split; assumption]].
    cbn [oval orig oatt]. split; [reflexivity|split; assumption].
Qed.

Lemma read_synced : forall s k a, wf s -> synced s k a ->
  snd (stepT (Read k a) s) = RVal (Some (view s k a)).
Proof.
  intros s k a W [SA [S1 S2]]. cbn [step]. destruct (oval (objs s k) a) as [v|] eqn:E; cbn [snd].
  - destruct S2 as [X|[_ X]]; [discriminate|]. rewrite X. reflexivity.
  - rewrite SA. cbn [snd]. destruct (W k a E) as [A B]. cbn [loaded_obj oval]. rewrite A, B. cbn [isnone andb].
    rewrite view_begin_read. reflexivity.
Qed.

Theorem synced_run : forall l s k a, Forall (keeps eoc k a) l -> synced s k a -> synced (runT l s) k a.
Proof.
  induction l as [|o t IH]; intros s k a F S; cbn [run]; [exact S|]. inversion F as [|? ? K Ft]; subst.
  apply IH; [exact Ft|]. apply keeps_synced; assumption.
Qed.

(* ---------- clause 2: pending changes that were not expired ---------- *)
Lemma undisturbed_pending : forall o s k a v, undisturbed k a o -> pending s k a v -> pending (fst (stepT o s)) k a v.
Proof.
  intros o s k a v U [P1 P2].
  destruct o as [k' a'|k' a' v'|k' ns| |k' ns| | | |k' a' v'|ns|k'|k']; cbn [undisturbed] in U; try contradiction; cbn [step].
  - destruct (oval (objs s k') a'); cbn [fst]; [split; assumption|].
    destruct (oatt (objs s k')); cbn [fst]; [|split; assumption].
    unfold pending. cbn [with_objs objs]. unfold upd_obj. destruct (Z.eqb_spec k k') as [->|N]; [|split; assumption].
    cbn [loaded_obj oval orig]. split; [exact P1|]. destruct (orig (objs s k') a); [|contradiction].
    cbn [isnone]. rewrite andb_false_r. exact P2.
  - cbn [fst]. unfold pending. cbn [objs]. unfold upd_obj. destruct (Z.eqb_spec k k') as [->|N]; [|split; assumption].
    cbn [oval orig]. destruct (Nat.eqb_spec a a') as [->|Na]; [exfalso; apply U; split; reflexivity|]. split; assumption.
  - destruct (oatt (objs s k')); cbn [fst]; [|split; assumption].
    unfold pending. cbn [with_objs objs]. unfold upd_obj. destruct (Z.eqb_spec k k') as [->|N]; [|split; assumption].
    destruct U as [U|U]; [contradiction|]. destruct (expire_obj_unnamed ns (objs s k') a U) as [A [B _]]. rewrite A, B. split; assumption.
  - destruct (oatt (objs s k')); cbn [fst]; [|split; assumption].
    unfold pending. cbn [with_objs objs]. unfold upd_obj. destruct (Z.eqb_spec k k') as [->|N]; [|split; assumption].
    destruct U as [U|U]; [contradiction|].
    destruct (refreshed_unnamed ns (view (begin_read s) k') (expire_obj ns (objs s k')) a U) as [A [B _]].
    destruct (expire_obj_unnamed ns (objs s k') a U) as [A' [B' _]]. rewrite A, B, A', B'. split; assumption.
  - cbn [fst]. split; assumption.
  - destruct (oatt (objs s k')); cbn [fst]; [|split; assumption].
    unfold pending. cbn [with_objs objs]. unfold upd_obj. destruct (Z.eqb_spec k k') as [->|N]; [|split; assumption].
    cbn [oval orig]. split; assumption.
  - cbn [fst]. unfold pending. cbn [objs]. unfold upd_obj. destruct (Z.eqb_spec k k') as [->|N]; [|split; assumption].
    cbn [oval orig]. split; assumption.
Qed.

Lemma read_pending : forall s k a v, pending s k a v ->
  stepT (Read k a) s = (s, RVal (Some v)).
Proof. intros s k a v [_ P2]. cbn [step]. rewrite P2. reflexivity. Qed.

Theorem pending_run : forall l s k a v, Forall (undisturbed k a) l -> pending s k a v -> pending (runT l s) k a v.
Proof.
  induction l as [|o t IH]; intros s k a v F P; cbn [run]; [exact P|]. inversion F as [|? ? U Ft]; subst.
  apply IH; [exact Ft|]. apply undisturbed_pending; assumption.
Qed.

(* ---------- clause 3: refresh overwrites exactly the named attributes of exactly the named instance ---------- *)
Theorem refresh_exact : forall s k ns, oatt (objs s k) = true ->
  let s' := fst (stepT (Refresh k ns) s) in
  (forall a, named ns a = true ->
     oval (objs s' k) a = Some (view s k a) /\ orig (objs s' k) a = None /\ oexp (objs s' k) a = false) /\
  (forall a, named ns a = false ->
     oval (objs s' k) a = oval (objs s k) a /\ orig (objs s' k) a = orig (objs s k) a /\
     oexp (objs s' k) a = oexp (objs s k) a /\ omod (objs s' k) = omod (objs s k)) /\
  (forall k', k' <> k -> objs s' k' = objs s k') /\
  com s' = com s /\ gen s' = gen s /\ view s' = view s /\ snap s' <> None /\
  selects pks attrs (Refresh k ns) s (snd (stepT (Refresh k ns) s)) = 1%nat.
Proof.
  intros s k ns HA. cbn [step selects]. rewrite HA. cbn [fst snd]. cbv zeta. cbn [with_objs objs com gen snap].
  rewrite upd_obj_same. split; [|split; [|split; [|split; [|split; [|split; [|split]]]]]].
  - intros a Nm. destruct (refreshed_named ns (view (begin_read s) k) (expire_obj ns (objs s k)) a Nm) as [A [B C]].
    rewrite A, B, C, view_begin_read. repeat split.
  - intros a Nm. destruct (refreshed_unnamed ns (view (begin_read s) k) (expire_obj ns (objs s k)) a Nm) as [A [B [C D]]].
    destruct (expire_obj_unnamed ns (objs s k) a Nm) as [A' [B' [C' D']]]. rewrite A, B, C, D, A', B', C', D'. repeat split.
  - intros k' N. apply upd_obj_other, N.
  - reflexivity.
  - reflexivity.
  - apply view_begin_read.
  - apply snap_begin_read.
  - reflexivity.
Qed.

(* a populate_existing query whose rows lack some loaded columns: what is in the row is overwritten, what is not is
   discarded and expired, pending changes included - nothing keeps an old value *)
Theorem popex_cols_exact : forall s ns k, oatt (objs s k) = true ->
  let s' := fst (stepT (PopExCols ns) s) in
  forall a, orig (objs s' k) a = None /\
    (in_row ns a = true -> oval (objs s' k) a = Some (view s k a)) /\
    (in_row ns a = false -> oval (objs s' k) a = None /\ oexp (objs s' k) a = true).
Proof.
  intros s ns k HA. cbn [step fst]. cbv zeta. cbn [with_objs objs]. rewrite (att_true _ _ HA). intros a.
  cbn [populated_obj oval orig oexp]. rewrite view_begin_read. split; [reflexivity|].
  split; intros E; rewrite E; [reflexivity|split; reflexivity].
Qed.
End P.
