(* C36 - attribute history: executable model (definitions only).

   One mapped object [a] with
     x   plain column attribute            (_ScalarAttributeImpl, active_history = False)
     bid foreign-key column of b           (only its loaded/expired status matters; value = db_b)
     b   many-to-one relationship          (_ScalarObjectAttributeImpl, lazy="select", use_get)
     cs  one-to-many collection            (_CollectionAttributeImpl; list / set / keyed dict)
   Transcribed from lib/sqlalchemy/orm/attributes.py (get, set, delete, the fire_..._event methods, the History.from_... constructors),
   orm/state.py (_modified_event, _commit, _commit_all_states, _expire, _load_expired),
   orm/collections.py (list/set/dict decorators, bulk_replace), orm/strategies.py (_LazyLoader
   ._load_for_state: identity-map lookup without SQL), orm/persistence.py (_collect_update_commands)
   and orm/dependency.py (process_saves of many-to-one and one-to-many).
   Values are N: 0 is Python None, scalars and object identities are positive.
   The Session has autoflush off; every related object is persistent and present in the identity
   map; there is a single parent object.                                                        *)
From Coq Require Import List NArith Bool.
Import ListNotations.
Open Scope N_scope.

Definition val := N.

(* an entry of InstanceState.committed_state: absent / NO_VALUE / PASSIVE_NO_RESULT / a value *)
Inductive comm (A : Type) : Type := NoHist | CNoValue | CNoResult | CVal (v : A).
Arguments NoHist {A}. Arguments CNoValue {A}. Arguments CNoResult {A}. Arguments CVal {A} v.

Inductive exn := AttributeError | KeyError | ValueError | InvalidRequestError | Unreachable.

Inductive ret :=
| RNone
| RVal (v : val)
| RColl (c : option (list val))               (* a.__dict__.get("cs") after reading a.cs *)
| RDb (x b : val) (c : list val).             (* database row after a flush *)
Inductive outcome := Done (r : ret) | Fail (e : exn).

Record st : Type := mkst {
  persistent : bool;
  modified : bool;
  expired : bool;
  x_d : option val;
  x_c : comm val;
  x_e : bool;
  id_e : bool;
  bid_d : bool;
  bid_e : bool;
  b_d : option val;
  b_c : comm val;
  c_d : option (list val);
  c_c : comm (list val);
  db_x : val;
  db_b : val;
  db_c : list val
}.

Definition set_persistent (v : bool) (s : st) : st :=
  mkst v (modified s) (expired s) (x_d s) (x_c s) (x_e s) (id_e s) (bid_d s) (bid_e s) (b_d s) (b_c s) (c_d s) (c_c s) (db_x s) (db_b s) (db_c s).
Definition set_modified (v : bool) (s : st) : st :=
  mkst (persistent s) v (expired s) (x_d s) (x_c s) (x_e s) (id_e s) (bid_d s) (bid_e s) (b_d s) (b_c s) (c_d s) (c_c s) (db_x s) (db_b s) (db_c s).
Definition set_expired (v : bool) (s : st) : st :=
  mkst (persistent s) (modified s) v (x_d s) (x_c s) (x_e s) (id_e s) (bid_d s) (bid_e s) (b_d s) (b_c s) (c_d s) (c_c s) (db_x s) (db_b s) (db_c s).
Definition set_x_d (v : option val) (s : st) : st :=
  mkst (persistent s) (modified s) (expired s) v (x_c s) (x_e s) (id_e s) (bid_d s) (bid_e s) (b_d s) (b_c s) (c_d s) (c_c s) (db_x s) (db_b s) (db_c s).
Definition set_x_c (v : comm val) (s : st) : st :=
  mkst (persistent s) (modified s) (expired s) (x_d s) v (x_e s) (id_e s) (bid_d s) (bid_e s) (b_d s) (b_c s) (c_d s) (c_c s) (db_x s) (db_b s) (db_c s).
Definition set_x_e (v : bool) (s : st) : st :=
  mkst (persistent s) (modified s) (expired s) (x_d s) (x_c s) v (id_e s) (bid_d s) (bid_e s) (b_d s) (b_c s) (c_d s) (c_c s) (db_x s) (db_b s) (db_c s).
Definition set_id_e (v : bool) (s : st) : st :=
  mkst (persistent s) (modified s) (expired s) (x_d s) (x_c s) (x_e s) v (bid_d s) (bid_e s) (b_d s) (b_c s) (c_d s) (c_c s) (db_x s) (db_b s) (db_c s).
Definition set_bid_d (v : bool) (s : st) : st :=
  mkst (persistent s) (modified s) (expired s) (x_d s) (x_c s) (x_e s) (id_e s) v (bid_e s) (b_d s) (b_c s) (c_d s) (c_c s) (db_x s) (db_b s) (db_c s).
Definition set_bid_e (v : bool) (s : st) : st :=
  mkst (persistent s) (modified s) (expired s) (x_d s) (x_c s) (x_e s) (id_e s) (bid_d s) v (b_d s) (b_c s) (c_d s) (c_c s) (db_x s) (db_b s) (db_c s).
Definition set_b_d (v : option val) (s : st) : st :=
  mkst (persistent s) (modified s) (expired s) (x_d s) (x_c s) (x_e s) (id_e s) (bid_d s) (bid_e s) v (b_c s) (c_d s) (c_c s) (db_x s) (db_b s) (db_c s).
Definition set_b_c (v : comm val) (s : st) : st :=
  mkst (persistent s) (modified s) (expired s) (x_d s) (x_c s) (x_e s) (id_e s) (bid_d s) (bid_e s) (b_d s) v (c_d s) (c_c s) (db_x s) (db_b s) (db_c s).
Definition set_c_d (v : option (list val)) (s : st) : st :=
  mkst (persistent s) (modified s) (expired s) (x_d s) (x_c s) (x_e s) (id_e s) (bid_d s) (bid_e s) (b_d s) (b_c s) v (c_c s) (db_x s) (db_b s) (db_c s).
Definition set_c_c (v : comm (list val)) (s : st) : st :=
  mkst (persistent s) (modified s) (expired s) (x_d s) (x_c s) (x_e s) (id_e s) (bid_d s) (bid_e s) (b_d s) (b_c s) (c_d s) v (db_x s) (db_b s) (db_c s).
Definition set_db_x (v : val) (s : st) : st :=
  mkst (persistent s) (modified s) (expired s) (x_d s) (x_c s) (x_e s) (id_e s) (bid_d s) (bid_e s) (b_d s) (b_c s) (c_d s) (c_c s) v (db_b s) (db_c s).
Definition set_db_b (v : val) (s : st) : st :=
  mkst (persistent s) (modified s) (expired s) (x_d s) (x_c s) (x_e s) (id_e s) (bid_d s) (bid_e s) (b_d s) (b_c s) (c_d s) (c_c s) (db_x s) v (db_c s).
Definition set_db_c (v : list val) (s : st) : st :=
  mkst (persistent s) (modified s) (expired s) (x_d s) (x_c s) (x_e s) (id_e s) (bid_d s) (bid_e s) (b_d s) (b_c s) (c_d s) (c_c s) (db_x s) (db_b s) v.


(* PassiveFlag, reduced to the three bits the modelled code tests *)
Record passive := mkp { callables_ok : bool; sql_ok : bool; init_ok : bool }.
Definition P_OFF := mkp true true true.                 (* PASSIVE_OFF *)
Definition P_NO_INIT := mkp false false false.          (* PASSIVE_NO_INITIALIZE *)
Definition P_NO_FETCH_NO_INIT := mkp true false false.  (* PASSIVE_NO_FETCH ^ INIT_OK *)

(* results of _fire_loader_callables / of get() *)
Inductive lres (A : Type) := LNoResult | LNoValue | LWasSet | LEmpty | LVal (v : A).
Arguments LNoResult {A}. Arguments LNoValue {A}. Arguments LWasSet {A}. Arguments LEmpty {A}.
Arguments LVal {A} v.
Inductive gres (A : Type) := GVal (v : A) | GNoValue | GNoResult | GRaise (e : exn).
Arguments GVal {A} v. Arguments GNoValue {A}. Arguments GNoResult {A}. Arguments GRaise {A} e.

Definition is_nohist {A} (c : comm A) : bool := match c with NoHist => true | _ => false end.
Definition is_some {A} (o : option A) : bool := match o with Some _ => true | None => false end.

(* ---------------- InstanceState._modified_event ---------------- *)
Definition mod_x (prev : comm val) (s : st) : st :=
  set_modified true (if is_nohist (x_c s) then set_x_c prev s else s).
Definition mod_b (prev : comm val) (s : st) : st :=
  set_modified true (if is_nohist (b_c s) then set_b_c prev s else s).
(* collection=True: NO_VALUE (== NEVER_SET) is replaced by a copy of the collection in the dict *)
Definition mod_c (prev : comm (list val)) (s : st) : st :=
  set_modified true
    (if is_nohist (c_c s)
     then set_c_c (match prev, c_d s with CNoValue, Some l => CVal l | _, _ => prev end) s
     else s).

(* ---------------- InstanceState._load_expired (+ _commit of the loaded keys) ---------------- *)
Definition load_expired (p : passive) (s : st) : st * lres val :=
  if negb (sql_ok p) then (s, LNoResult) else
  let s1 := if x_e s && is_nohist (x_c s) then set_x_d (Some (db_x s)) s else s in
  let s2 := if bid_e s1 then set_bid_d true s1 else s1 in
  (set_x_e false (set_id_e false (set_bid_e false (set_expired false s2))), LWasSet).

(* get() of the column attribute bid (never modified outside a flush) *)
Definition col_bid (p : passive) (s : st) : st * gres val :=
  if bid_d s then (s, GVal (db_b s))
  else if negb (callables_ok p) then (s, GNoResult)
  else if bid_e s then
    let (s1, r) := load_expired p s in
    match r with LNoResult => (s1, GNoResult) | _ => (s1, GVal (db_b s1)) end
  else if init_ok p then (s, GVal 0) else (s, GNoValue).

(* ---------------- loader callables ---------------- *)
Definition loader_x (p : passive) (s : st) : st * lres val :=
  if x_e s then load_expired p s else (s, LEmpty).

(* _LazyLoader._load_for_state for the many-to-one (use_get): committed value of bid, then an
   identity-map lookup, which always hits *)
Definition loader_b (p : passive) (s : st) : st * lres val :=
  if negb (persistent s) then (s, LEmpty) else
  let (s1, r) := col_bid p s in
  match r with
  | GNoResult => (s1, LNoResult)
  | GNoValue => (s1, LNoValue)
  | GVal v => (s1, LVal v)
  | GRaise _ => (s1, LNoResult)
  end.

(* one-to-many: needs SQL and the primary key of the parent *)
Definition loader_c (p : passive) (s : st) : st * lres (list val) :=
  if negb (persistent s) then (s, LEmpty) else
  if negb (sql_ok p) then (s, LNoResult) else
  let s1 := if id_e s then fst (load_expired p s) else s in
  (s1, LVal (db_c s1)).

(* ---------------- _AttributeImpl.get ---------------- *)
Section Get.
  Variable A : Type.
  Variable gd : st -> option A.                    (* dict_.get(key) *)
  Variable gc : st -> comm A.                      (* committed_state.get(key) *)
  Variable loader : passive -> st -> st * lres A.  (* _fire_loader_callables *)
  Variable commit_set : A -> st -> st.             (* set_committed_value *)
  Variable dflt : A.                               (* _default_value *)

  Definition get (p : passive) (s : st) : st * gres A :=
    match gd s with
    | Some v => (s, GVal v)
    | None =>
      let fall (s' : st) := if init_ok p then (s', GVal dflt) else (s', GNoValue) in
      match gc s with
      | NoHist | CNoValue =>
        if negb (callables_ok p) then (s, GNoResult) else
        let (s1, r) := loader p s in
        match r with
        | LNoResult => (s1, GNoResult)
        | LNoValue => (s1, GNoValue)
        | LWasSet => match gd s1 with Some v => (s1, GVal v) | None => (s1, GRaise KeyError) end
        | LEmpty => fall s1
        | LVal v => (commit_set v s1, GVal v)
        end
      | _ => fall s
      end
    end.
End Get.

(* set_committed_value: dict_[key] = value; state._commit(dict_, [key]) *)
Definition commit_x (v : val) (s : st) : st :=
  set_x_e false (set_expired false (set_x_c NoHist (set_x_d (Some v) s))).
Definition commit_b (v : val) (s : st) : st :=
  set_expired false (set_b_c NoHist (set_b_d (Some v) s)).
Definition commit_c (l : list val) (s : st) : st :=
  set_expired false (set_c_c NoHist (set_c_d (Some l) s)).

Definition get_x := get val x_d x_c loader_x commit_x 0.
Definition get_b := get val b_d b_c loader_b commit_b 0.
Definition get_c := get (list val) c_d c_c loader_c commit_c [].

(* ---------------- scalar column attribute ---------------- *)
Definition old_plain (s : st) : comm val := match x_d s with Some v => CVal v | None => CNoValue end.

Definition set_x (v : val) (s : st) : st * outcome :=
  (set_x_d (Some v) (mod_x (old_plain s) s), Done RNone).

(* the AttributeError for an attribute without a value is raised before any event is recorded *)
Definition del_x (s : st) : st * outcome :=
  if negb (is_some (x_d s)) && negb (expired s) && negb (x_e s)
  then (s, Fail AttributeError)
  else (set_x_d None (mod_x (old_plain s) s), Done RNone).

Definition of_gres (r : gres val) : ret := match r with GVal v => RVal v | _ => RNone end.
Definition read {A} (f : A -> ret) (sr : st * gres A) : st * outcome :=
  match snd sr with
  | GVal v => (fst sr, Done (f v))
  | GRaise e => (fst sr, Fail e)
  | _ => (fst sr, Fail Unreachable)
  end.

(* ---------------- many-to-one ---------------- *)
Definition comm_of_gres (r : gres val) : comm val :=
  match r with GVal v => CVal v | GNoValue => CNoValue | _ => CNoResult end.

Definition set_b (v : val) (s : st) : st * outcome :=
  let (s1, old) := get_b P_NO_FETCH_NO_INIT s in
  (set_b_d (Some v) (mod_b (comm_of_gres old) s1), Done RNone).

Definition del_b (s : st) : st * outcome :=
  let (s1, old) := get_b P_NO_FETCH_NO_INIT s in
  let s2 := mod_b (comm_of_gres old) s1 in
  let s3 := set_b_d None s2 in
  if negb (is_some (b_d s2)) && negb (match old with GNoResult => true | _ => false end)
     && negb (persistent s)
  then (s3, Fail AttributeError) else (s3, Done RNone).

(* ---------------- collection ---------------- *)
Inductive ckind := KList | KSet | KDict.

(* key function of the keyed dict: children 1 and 3 share a key *)
Definition ckey (o : val) : val := if o =? 3 then 1 else if o =? 4 then 3 else o.

Definition memb (o : val) (l : list val) : bool := existsb (N.eqb o) l.
Fixpoint insert_uniq (o : val) (l : list val) : list val :=
  match l with
  | [] => [o]
  | y :: r => if o =? y then l else if o <? y then o :: l else y :: insert_uniq o r
  end.
Definition sort_uniq (l : list val) : list val := fold_right insert_uniq [] l.
Fixpoint remove1 (o : val) (l : list val) : list val :=
  match l with [] => [] | y :: r => if o =? y then r else y :: remove1 o r end.

(* reading a.cs: the special "empty" collection is not stored in the dict *)
Definition coll_touch (s : st) : st * bool :=
  match c_d s with
  | Some _ => (s, true)
  | None => let (s1, r) := get_c P_OFF s in
            (s1, match r with GVal _ => true | _ => false end)
  end.
Definition cur_coll (s : st) : list val := match c_d s with Some l => l | None => [] end.

(* CollectionAdapter.fire_append_event / fire_remove_event: _reset_empty, then _modified_event *)
Definition coll_event (s : st) : st :=
  mod_c CNoValue (match c_d s with Some _ => s | None => set_c_d (Some []) s end).

Definition same_key (o : val) (l : list val) : bool := existsb (fun p => ckey p =? ckey o) l.
Definition holder (o : val) (l : list val) : option val := find (fun p => ckey p =? ckey o) l.

Definition c_add (k : ckind) (o : val) (s : st) : st * outcome :=
  let (s1, ok) := coll_touch s in
  if negb ok then (s1, Fail Unreachable) else
  let cur := cur_coll s1 in
  match k with
  | KList => (set_c_d (Some (cur ++ [o])) (coll_event s1), Done RNone)
  | KSet => if memb o cur then (s1, Done RNone)
            else (set_c_d (Some (insert_uniq o cur)) (coll_event s1), Done RNone)
  | KDict =>
      if same_key o cur
      then (set_c_d (Some (map (fun p => if ckey p =? ckey o then o else p) cur))
              (coll_event (coll_event s1)), Done RNone)
      else (set_c_d (Some (cur ++ [o])) (coll_event s1), Done RNone)
  end.

Definition c_rem (k : ckind) (o : val) (s : st) : st * outcome :=
  let (s1, ok) := coll_touch s in
  if negb ok then (s1, Fail Unreachable) else
  let cur := cur_coll s1 in
  match k with
  | KList => if memb o cur then (set_c_d (Some (remove1 o cur)) (coll_event s1), Done RNone)
             else (s1, Fail ValueError)
  | KSet => if memb o cur then (set_c_d (Some (remove1 o cur)) (coll_event s1), Done RNone)
            else (s1, Fail KeyError)
  | KDict => match holder o cur with
             | None => (s1, Fail KeyError)
             | Some p => if p =? o then (set_c_d (Some (remove1 o cur)) (coll_event s1), Done RNone)
                         else (s1, Fail InvalidRequestError)
             end
  end.

(* the new collection built by bulk_replace from the assigned values *)
Definition build (k : ckind) (l : list val) : list val :=
  match k with KSet => sort_uniq l | _ => l end.

Definition c_replace (k : ckind) (l : list val) (s : st) : st * outcome :=
  let (s1, r) := get_c P_OFF s in
  match r with
  | GVal old => (set_c_d (Some (build k l)) (mod_c (CVal old) s1), Done RNone)
  | _ => (s1, Fail Unreachable)
  end.

Definition c_del (s : st) : st * outcome :=
  match c_d s with
  | None => (s, Done RNone)
  | Some _ => (set_c_d None (mod_c CNoValue s), Done RNone)
  end.

(* ---- keyed dict: the remaining instrumented methods of _dict_decorators ---- *)
(* __before_pop -> fire_pre_remove_event: _modified_event only, no _reset_empty *)
Definition before_pop (s : st) : st := mod_c CNoValue s.

(* d[key(o)] = o  on a collection that has been read *)
Definition dict_setitem (o : val) (s1 : st) : st :=
  let cur := cur_coll s1 in
  if same_key o cur
  then set_c_d (Some (map (fun p => if ckey p =? ckey o then o else p) cur)) (coll_event (coll_event s1))
  else set_c_d (Some (cur ++ [o])) (coll_event s1).

(* d.pop(key(o)) / d.pop(key(o), None): the pre-remove event comes first, the remove event last *)
Definition c_pop (dflt : bool) (o : val) (s : st) : st * outcome :=
  let (s1, ok) := coll_touch s in
  if negb ok then (s1, Fail Unreachable) else
  let cur := cur_coll s1 in
  let s2 := before_pop s1 in
  match holder o cur with
  | Some p => (set_c_d (Some (remove1 p cur)) (coll_event s2), Done RNone)
  | None => if dflt then (s2, Done RNone) else (s2, Fail KeyError)
  end.

Definition last_of (l : list val) : option val := match rev l with x :: _ => Some x | [] => None end.

Definition c_popitem (s : st) : st * outcome :=
  let (s1, ok) := coll_touch s in
  if negb ok then (s1, Fail Unreachable) else
  let cur := cur_coll s1 in
  let s2 := before_pop s1 in
  match last_of cur with
  | Some p => (set_c_d (Some (removelast cur)) (coll_event s2), Done RNone)
  | None => (s2, Fail KeyError)
  end.

(* del d[key(o)]: remove event when the key is present, then the builtin raises or deletes *)
Definition c_delkey (o : val) (s : st) : st * outcome :=
  let (s1, ok) := coll_touch s in
  if negb ok then (s1, Fail Unreachable) else
  let cur := cur_coll s1 in
  match holder o cur with
  | Some p => (set_c_d (Some (remove1 p cur)) (coll_event s1), Done RNone)
  | None => (s1, Fail KeyError)
  end.

(* d.setdefault(key(o), o): a present key is no mutation *)
Definition c_setdefault (o : val) (s : st) : st * outcome :=
  let (s1, ok) := coll_touch s in
  if negb ok then (s1, Fail Unreachable) else
  if same_key o (cur_coll s1) then (s1, Done RNone)
  else (set_c_d (Some (cur_coll s1 ++ [o])) (coll_event s1), Done RNone).

(* d.update({key(o): o ...}): an entry that already maps the key to the same object is no mutation *)
Definition update_one (t : st) (o : val) : st :=
  match holder o (cur_coll t) with
  | Some p => if p =? o then t else dict_setitem o t
  | None => dict_setitem o t
  end.
Definition c_update (l : list val) (s : st) : st * outcome :=
  let (s1, ok) := coll_touch s in
  if negb ok then (s1, Fail Unreachable) else (fold_left update_one l s1, Done RNone).

(* d.clear(): a remove event per member, then the builtin *)
Definition c_clear (s : st) : st * outcome :=
  let (s1, ok) := coll_touch s in
  if negb ok then (s1, Fail Unreachable) else
  match cur_coll s1 with
  | [] => (s1, Done RNone)
  | _ :: _ => (set_c_d (Some []) (coll_event s1), Done RNone)
  end.

Definition c_get (s : st) : st * outcome :=
  let (s1, ok) := coll_touch s in
  if ok then (s1, Done (RColl (c_d s1))) else (s1, Fail Unreachable).

(* ---------------- Session.expire(a) -> InstanceState._expire ---------------- *)
Definition expire (s : st) : st * outcome :=
  if negb (persistent s) then (s, Fail InvalidRequestError) else
  let s1 := if modified s
            then set_modified false (set_x_c NoHist (set_b_c NoHist (set_c_c NoHist s))) else s in
  (set_expired true (set_x_e true (set_id_e true (set_bid_e true
     (set_x_d None (set_b_d None (set_c_d None (set_bid_d false s1))))))), Done RNone).

(* ---------------- History ---------------- *)
Definition hist := (list val * list val * list val)%type.
Definition blank : hist := ([], [], []).
Definition is_nostate {A} (c : comm A) : bool :=
  match c with CNoValue | CNoResult => true | _ => false end.

(* History.from_scalar_attribute; [cur = None] is NO_VALUE *)
Definition from_scalar (orig : comm val) (cur : option val) : hist :=
  if is_nohist orig then
    match cur with None => blank | Some c => ([], [c], []) end
  else if (match cur, orig with Some c, CVal p => c =? p | _, _ => false end) then
    ([], match cur with Some c => [c] | None => [] end, [])
  else
    let deleted := match orig with CVal p => [p] | _ => [] end in
    let cur' := if is_nostate orig then (match cur with None => Some 0 | _ => cur end) else cur in
    match cur' with None => ([], [], deleted) | Some c => ([c], [], deleted) end.

(* History.from_object_attribute: None is never reported as deleted *)
Definition from_object (orig : comm val) (cur : option val) : hist :=
  if is_nohist orig then
    match cur with None => blank | Some c => ([], [c], []) end
  else if (match cur, orig with Some c, CVal p => c =? p | _, _ => false end) then
    ([], match cur with Some c => [c] | None => [] end, [])
  else
    let none_like := is_nostate orig || (match orig with CVal 0 => true | _ => false end) in
    let deleted := if none_like then [] else match orig with CVal p => [p] | _ => [] end in
    let cur' := if none_like then (match cur with None => Some 0 | _ => cur end) else cur in
    match cur' with None => ([], [], deleted) | Some c => ([c], [], deleted) end.

(* History.from_collection: identity-based *)
Definition from_collection (orig : comm (list val)) (cur : option (list val)) : hist :=
  match cur with
  | None => blank
  | Some c =>
    match orig with
    | CNoValue => (c, [], [])
    | NoHist => ([], c, [])
    | CVal o => (filter (fun x => negb (memb x o)) c, filter (fun x => memb x o) c,
                 filter (fun x => negb (memb x c)) o)
    | CNoResult => (c, [], [])
    end
  end.

(* get_history(PASSIVE_NO_INITIALIZE) of the three impl classes *)
Definition hist_x (s : st) : hist :=
  match x_d s with
  | Some v => from_scalar (x_c s) (Some v)
  | None =>
    if negb (is_nohist (x_c s)) then from_scalar (x_c s) None
    else match snd (get_x P_NO_INIT s) with
         | GNoResult => blank
         | GVal v => from_scalar (x_c s) (Some v)
         | _ => from_scalar (x_c s) None
         end
  end.
Definition hist_b (s : st) : hist :=
  match snd (get_b P_NO_INIT s) with
  | GNoResult => blank
  | GVal v => from_object (b_c s) (Some v)
  | _ => from_object (b_c s) None
  end.
Definition hist_c (s : st) : hist :=
  match snd (get_c P_NO_INIT s) with
  | GNoResult => blank
  | GVal l => from_collection (c_c s) (Some l)
  | _ => from_collection (c_c s) None
  end.

(* ---------------- Session.flush() for this object ---------------- *)
Definition opt_or {A} (o : option A) (d : A) : A := match o with Some v => v | None => d end.

(* one-to-many process_saves: children added get the foreign key, children deleted lose it *)
Definition flush_dbc (s : st) : list val :=
  let '(added, _, deleted) := hist_c s in
  sort_uniq (filter (fun o => negb (memb o deleted)) (db_c s ++ added)).

(* ... followed by _commit_all_states *)
Definition finish_flush (s : st) : st :=
  let s1 := set_db_c (flush_dbc s) (set_x_c NoHist (set_b_c NoHist (set_c_c NoHist s))) in
  let s2 := if is_some (x_d s1) then set_x_e false s1 else s1 in
  let s3 := if bid_d s2 then set_bid_e false s2 else s2 in
  set_modified false (set_expired false s3).

Definition db_ret (s : st) : ret := RDb (db_x s) (db_b s) (db_c s).

(* many-to-one process_saves: the value synchronised into bid, taken from the history *)
Definition sync_b (s : st) : option val :=
  match hist_b s with
  | (a :: _, _, _) => Some a
  | ([], _, _ :: _) => Some 0
  | _ => None
  end.

(* _collect_update_commands: x is sent when its committed value differs from the current one *)
(* state_dict.get(propkey, None): a deleted attribute is sent as NULL *)
Definition upd_x (s : st) : option val :=
  let v := opt_or (x_d s) 0 in
  match x_c s with
  | NoHist => None
  | CVal p => if v =? p then None else Some v
  | _ => Some v
  end.

Definition insert_row (nb : option val) (s : st) : st :=
  set_persistent true
    (set_db_x (opt_or (x_d s) 0) (set_db_b (opt_or nb 0) (set_bid_d (bid_d s || is_some nb) s))).

Definition update_row (nb : option val) (s : st) : st :=
  let newx := upd_x s in
  let bchg := match nb with
              | Some v => negb (bid_d s) || negb (v =? db_b s)
              | None => false end in
  (* the primary key lookup of an UPDATE loads the expired, unmodified column attributes *)
  let s1 := if (is_some newx || bchg) && id_e s then
              let t1 := if x_e s && is_nohist (x_c s) then set_x_d (Some (db_x s)) s else s in
              let t2 := if bid_e t1 && negb (is_some nb) then set_bid_d true t1 else t1 in
              set_x_e false (set_id_e false (set_bid_e false t2))
            else s in
  let s2 := match newx with Some v => set_db_x v s1 | None => s1 end in
  match nb with Some v => set_bid_d true (set_db_b v s2) | None => s2 end.

Definition flush (s : st) : st * outcome :=
  if persistent s && negb (modified s) then (s, Done (db_ret s)) else
  let nb := sync_b s in
  if negb (persistent s) then
    let s2 := finish_flush (insert_row nb s) in (s2, Done (db_ret s2))
  else
    let s4 := finish_flush (update_row nb s) in (s4, Done (db_ret s4)).

(* ---------------- operations ---------------- *)
Inductive op :=
| SetX (v : val) | DelX | GetX
| SetB (v : val) | DelB | GetB
| CAdd (o : val) | CRem (o : val) | CReplace (l : list val) | CDel | CGet
| Flush | Expire
| CPop (o : val) | CPopD (o : val) | CPopItem | CDelKey (o : val) | CSetDefault (o : val)
| CUpdate (l : list val) | CClear.

Definition step (k : ckind) (o : op) (s : st) : st * outcome :=
  match o with
  | SetX v => set_x v s
  | DelX => del_x s
  | GetX => read RVal (get_x P_OFF s)
  | SetB v => set_b v s
  | DelB => del_b s
  | GetB => read RVal (get_b P_OFF s)
  | CAdd c => c_add k c s
  | CRem c => c_rem k c s
  | CReplace l => c_replace k l s
  | CDel => c_del s
  | CGet => c_get s
  | Flush => flush s
  | Expire => expire s
  | CPop c => c_pop false c s
  | CPopD c => c_pop true c s
  | CPopItem => c_popitem s
  | CDelKey c => c_delkey c s
  | CSetDefault c => c_setdefault c s
  | CUpdate l => c_update l s
  | CClear => c_clear s
  end.

(* a failed flush rolls the session back: the run stops there *)
Definition is_flush (o : op) : bool := match o with Flush => true | _ => false end.
Definition failed (r : outcome) : bool := match r with Fail _ => true | _ => false end.

(* observation after each operation: outcome, the three histories, the modified flag *)
Record obs := mkobs { o_res : outcome; o_hx : hist; o_hb : hist; o_hc : hist; o_mod : bool;
                      o_term : bool (* the run was ended by a failed flush *) }.
Definition observe (r : outcome) (s : st) : obs :=
  mkobs r (hist_x s) (hist_b s) (hist_c s) (modified s) false.

Fixpoint run (k : ckind) (ops : list op) (s : st) : st * list obs :=
  match ops with
  | [] => (s, [])
  | o :: rest =>
    let (s1, r) := step k o s in
    if is_flush o && failed r then (s1, [mkobs r blank blank blank false true])
    else let (s2, l) := run k rest s1 in (s2, observe r s1 :: l)
  end.

(* ---------------- initial states ---------------- *)
Inductive okind := ONew | OLoaded | OUnloadedRel.
Definition init (ok : okind) (x0 b0 : val) (c0 : list val) : st :=
  match ok with
  | ONew => mkst false false false None NoHist false false false false None NoHist None NoHist 0 0 []
  | OLoaded => mkst true false false (Some x0) NoHist false false true false
                 (Some b0) NoHist (Some (sort_uniq c0)) NoHist x0 b0 (sort_uniq c0)
  | OUnloadedRel => mkst true false false (Some x0) NoHist false false true false
                 None NoHist None NoHist x0 b0 (sort_uniq c0)
  end.
