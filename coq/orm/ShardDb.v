(* C53 - lemmas about the reference tables (one shard) and small list utilities *)
From Coq Require Import List ZArith NArith Bool Lia Permutation.
Import ListNotations.
From SAV.orm Require Import Shard.
Open Scope Z_scope.

Definition pks (t : table) : list Z := map r_pk t.

Lemma upd_same : forall d s t, upd d s t s = t.
Proof. intros. unfold upd. now rewrite N.eqb_refl. Qed.
Lemma upd_other : forall d s t s', s' <> s -> upd d s t s' = d s'.
Proof. intros. unfold upd. destruct (N.eqb_spec s' s); congruence. Qed.

Lemma has_pk_true : forall k t, has_pk k t = true <-> In k (pks t).
Proof.
  intros k t. unfold has_pk, pks. rewrite existsb_exists, in_map_iff. split.
  - intros [r [Hi He]]. apply Z.eqb_eq in He. eauto.
  - intros [r [He Hi]]. exists r. split; auto. now apply Z.eqb_eq.
Qed.
Lemma has_pk_false : forall k t, has_pk k t = false <-> ~ In k (pks t).
Proof.
  intros. rewrite <- has_pk_true. destruct (has_pk k t); intuition congruence.
Qed.

Lemma same_pk_same_row : forall (t : table) a b,
  NoDup (pks t) -> In a t -> In b t -> r_pk a = r_pk b -> a = b.
Proof.
  induction t as [|x t IH]; simpl; intros a b Hn Ha Hb He; [tauto|].
  inversion Hn as [|? ? Hx Hn']; subst.
  destruct Ha as [Ha|Ha], Hb as [Hb|Hb]; subst; auto.
  - exfalso. apply Hx. rewrite He. now apply in_map.
  - exfalso. apply Hx. rewrite <- He. now apply in_map.
Qed.

(* INSERT *)
Lemma sql_insert_spec : forall r t t', sql_insert r t = Some t' ->
  t' = t ++ [r] /\ ~ In (r_pk r) (pks t).
Proof.
  unfold sql_insert. intros r t t' H. destruct (has_pk (r_pk r) t) eqn:E; [discriminate|].
  inversion H. split; auto. now apply has_pk_false.
Qed.
Lemma pks_app : forall a b, pks (a ++ b) = pks a ++ pks b.
Proof. intros. unfold pks. now rewrite map_app. Qed.
Lemma NoDup_snoc : forall {A} (l : list A) x, NoDup l -> ~ In x l -> NoDup (l ++ [x]).
Proof.
  induction l; simpl; intros x Hn Hx.
  - constructor; auto.
  - inversion Hn; subst. constructor.
    + rewrite in_app_iff. simpl. intros [H|[H|[]]]; subst; tauto.
    + apply IHl; tauto.
Qed.

(* UPDATE *)
Lemma pks_update : forall r t, pks (sql_update r t) = pks t.
Proof.
  intros r t. unfold pks, sql_update. rewrite map_map. apply map_ext_in. intros x _.
  destruct (Z.eqb_spec (r_pk x) (r_pk r)); auto.
Qed.
Lemma in_update_other : forall r t x, In x t -> r_pk x <> r_pk r -> In x (sql_update r t).
Proof.
  intros r t x Hi Hn. unfold sql_update. apply in_map_iff. exists x. split; auto.
  destruct (Z.eqb_spec (r_pk x) (r_pk r)); congruence.
Qed.
Lemma in_update_hit : forall r t x, In x t -> r_pk x = r_pk r -> In r (sql_update r t).
Proof.
  intros r t x Hi He. unfold sql_update. apply in_map_iff. exists x. split; auto.
  destruct (Z.eqb_spec (r_pk x) (r_pk r)); congruence.
Qed.

(* DELETE *)
Lemma in_delete : forall k t x, In x (sql_delete k t) <-> In x t /\ r_pk x <> k.
Proof.
  intros. unfold sql_delete. rewrite filter_In. destruct (Z.eqb_spec (r_pk x) k); simpl; split; intros [? ?]; split; auto; congruence.
Qed.
Lemma NoDup_map_filter : forall {A B} (f : A -> B) p (l : list A), NoDup (map f l) -> NoDup (map f (filter p l)).
Proof.
  induction l; simpl; intros Hn; auto. inversion Hn; subst.
  destruct (p a); simpl; auto. constructor; auto.
  intros Hi. apply H1. apply in_map_iff in Hi. destruct Hi as [x [He Hx]]. apply filter_In in Hx.
  apply in_map_iff. exists x. tauto.
Qed.
Lemma NoDup_pks_delete : forall k t, NoDup (pks t) -> NoDup (pks (sql_delete k t)).
Proof. intros. apply NoDup_map_filter. auto. Qed.

(* SELECT ... ORDER BY pk *)
Lemma ins_sorted_perm : forall r l, Permutation (ins_sorted r l) (r :: l).
Proof.
  induction l as [|x l IH]; simpl; auto.
  destruct (r_pk r <=? r_pk x); auto.
  eapply perm_trans; [apply perm_skip, IH|]. apply perm_swap.
Qed.
Lemma sort_pk_perm : forall l, Permutation (sort_pk l) l.
Proof.
  induction l; simpl; auto. eapply perm_trans; [apply ins_sorted_perm|]. now apply perm_skip.
Qed.
Lemma in_sort_pk : forall l x, In x (sort_pk l) <-> In x l.
Proof.
  intros. split; apply Permutation_in; [apply sort_pk_perm | apply Permutation_sym, sort_pk_perm].
Qed.
Lemma in_select : forall q t x, In x (sql_select q t) <-> In x t /\ qmatch q x = true.
Proof. intros. unfold sql_select. rewrite in_sort_pk, filter_In. tauto. Qed.
Lemma select_perm : forall q t, Permutation (sql_select q t) (filter (qmatch q) t).
Proof. intros. apply sort_pk_perm. Qed.

Lemma select_pk_nil : forall k t, sql_select (QPk k) t = [] -> has_pk k t = false.
Proof.
  intros k t H. apply has_pk_false. intros Hi. apply in_map_iff in Hi. destruct Hi as [r [He Hr]].
  assert (In r (sql_select (QPk k) t)) by (apply in_select; split; auto; simpl; now apply Z.eqb_eq).
  rewrite H in H0. inversion H0.
Qed.

Lemma find_pk_some : forall k t r, find_pk k t = Some r -> In r t /\ r_pk r = k.
Proof.
  unfold find_pk. intros k t r H. apply find_some in H. destruct H. split; auto. now apply Z.eqb_eq.
Qed.

(* upd_nth *)
Lemma upd_nth_split : forall {A} (f : A -> A) (pre post : list A) x,
  upd_nth (length pre) f (pre ++ x :: post) = pre ++ f x :: post.
Proof. induction pre; simpl; intros; auto. now rewrite IHpre. Qed.
Lemma upd_nth_length : forall {A} (f : A -> A) n (l : list A), length (upd_nth n f l) = length l.
Proof. intros A f n l. revert n. induction l; destruct n; simpl; auto. Qed.

(* find_idx *)
Lemma find_idx_some : forall {A} (p : A -> bool) l n o,
  find_idx p l n = Some o -> exists x, nth_error l (o - n) = Some x /\ p x = true /\ (n <= o)%nat.
Proof.
  induction l as [|a l IH]; simpl; intros n o H; [discriminate|].
  destruct (p a) eqn:E.
  - inversion H; subst. exists a. rewrite Nat.sub_diag. simpl. auto.
  - apply IH in H. destruct H as [x [Hn [Hp Hle]]]. exists x. split; [|split; auto; lia].
    replace (o - n)%nat with (S (o - S n)) by lia. exact Hn.
Qed.
Lemma find_idx_none : forall {A} (p : A -> bool) l n, find_idx p l n = None -> forall x, In x l -> p x = false.
Proof.
  induction l as [|a l IH]; simpl; intros n H x Hi; [tauto|].
  destruct (p a) eqn:E; [discriminate|]. destruct Hi; subst; eauto.
Qed.

(* dedup *)
Lemma in_dedup : forall l x, In x (dedup l) <-> In x l.
Proof.
  induction l as [|a l IH]; simpl; intros x; [tauto|].
  rewrite filter_In, IH. destruct (Nat.eqb_spec x a); simpl; split; intros; intuition congruence.
Qed.
Lemma NoDup_dedup : forall l, NoDup (dedup l).
Proof.
  induction l as [|a l IH]; simpl; constructor.
  - rewrite filter_In. rewrite Nat.eqb_refl. simpl. intros [_ H]. discriminate.
  - apply NoDup_filter. auto.
Qed.
