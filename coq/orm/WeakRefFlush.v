(* C48 - the flush: what the emitted statements do to the table, and preservation of the invariant *)
From Coq Require Import List ZArith NArith Bool Arith Lia.
Import ListNotations.
From SAV.orm Require Import WeakRef WeakRefBase WeakRefInv.

Definition akey (a : dbact) : option N :=
  match a with ANone => None | AIns k _ => Some k | AUpd k _ _ => Some k | ADel k => Some k end.
Definition keys (acts : list dbact) : list N :=
  flat_map (fun a => match akey a with Some k => [k] | None => [] end) acts.
Definition run_acts (acts : list dbact) (df : dbt * bool) : dbt * bool :=
  fold_left (fun df a => apply_act a df) acts df.
Definition pre (a : dbact) (d : dbt) : Prop :=
  match a with AIns k _ => db_get k d = None | AUpd k _ _ => db_get k d <> None | _ => True end.
(* what a statement makes of the row with its key *)
Definition eff (a : dbact) (old : option row) : option row :=
  match a with
  | ANone => old
  | AIns _ r => Some r
  | AUpd _ v w => match old with Some o => Some (merge v w o) | None => None end
  | ADel _ => None
  end.

Lemma apply_other : forall a d f k, akey a <> Some k -> db_get k (fst (apply_act a (d, f))) = db_get k d.
Proof.
  intros a d f k H. destruct a as [|k' v|k' v w|k']; simpl in *; auto.
  - destruct (db_has k' d); simpl; auto. apply db_get_set_other. congruence.
  - destruct (db_get k' d); simpl; auto. apply db_get_set_other. congruence.
  - apply db_get_del_other. congruence.
Qed.
Lemma run_acts_cons : forall a acts df, run_acts (a :: acts) df = run_acts acts (apply_act a df).
Proof. reflexivity. Qed.
Lemma run_other : forall acts d f k, (forall a, In a acts -> akey a <> Some k) ->
  db_get k (fst (run_acts acts (d, f))) = db_get k d.
Proof.
  induction acts as [|a acts IH]; intros d f k H; [reflexivity|]. rewrite run_acts_cons.
  destruct (apply_act a (d, f)) as [d1 f1] eqn:E.
  rewrite IH; [|intros; apply H; right; auto].
  replace d1 with (fst (apply_act a (d, f))) by (rewrite E; reflexivity).
  apply apply_other. apply H. left. reflexivity.
Qed.
Lemma apply_pre : forall a d f, pre a d -> snd (apply_act a (d, f)) = f /\
  forall k, akey a = Some k -> db_get k (fst (apply_act a (d, f))) = eff a (db_get k d).
Proof.
  intros a d f P. destruct a as [|k v|k v w|k]; simpl in *.
  - split; [reflexivity|intros; discriminate].
  - unfold db_has. rewrite P. simpl. split; auto. intros k' E. inversion E. subst. apply db_get_set_same.
  - destruct (db_get k d) eqn:E; [|contradiction]. simpl. split; auto. intros k' E'. inversion E'. subst.
    rewrite E. apply db_get_set_same.
  - split; auto. intros k' E. inversion E. subst. apply db_get_del_same.
Qed.
Lemma in_keys : forall a acts k, In a acts -> akey a = Some k -> In k (keys acts).
Proof.
  intros a acts k H E. unfold keys. apply in_flat_map. exists a. split; auto. rewrite E. left. reflexivity.
Qed.

Lemma run_ok : forall acts d f, NoDup (keys acts) -> (forall a, In a acts -> pre a d) ->
  snd (run_acts acts (d, f)) = f /\
  forall a, In a acts -> forall k, akey a = Some k -> db_get k (fst (run_acts acts (d, f))) = eff a (db_get k d).
Proof.
  induction acts as [|a acts IH]; intros d f ND P; [split; auto; intros a []|]. rewrite run_acts_cons.
  destruct (apply_pre a d f (P a (or_introl eq_refl))) as [Ef Po].
  destruct (apply_act a (d, f)) as [d1 f1] eqn:E. simpl in Ef, Po. subst f1.
  assert (ND' : NoDup (keys acts)).
  { unfold keys in *. simpl in ND. destruct (akey a); auto. simpl in ND. inversion ND; auto. }
  assert (Fresh : forall k, akey a = Some k -> ~ In k (keys acts)).
  { intros k Ek. unfold keys in *. simpl in ND. rewrite Ek in ND. simpl in ND. inversion ND; auto. }
  assert (K : forall a' k, In a' acts -> akey a' = Some k -> db_get k d1 = db_get k d).
  { intros a' k H' Ek. replace d1 with (fst (apply_act a (d, f))) by (rewrite E; reflexivity).
    apply apply_other. intro Ea. apply (Fresh k Ea). apply (in_keys a' acts k H' Ek). }
  assert (P' : forall a', In a' acts -> pre a' d1).
  { intros a' H'. assert (Pa := P a' (or_intror H')).
    destruct a'; simpl in *; auto; rewrite (K _ k H' eq_refl); auto. }
  destruct (IH d1 f ND' P') as [Ef Po']. split; auto.
  intros a' [H|H] k Ek.
  - subst a'. rewrite run_other; [apply Po; auto|].
    intros a' H' Ea. apply (Fresh k Ek). apply (in_keys a' acts k H' Ea).
  - rewrite (Po' a' H k Ek). rewrite (K a' k H Ek). reflexivity.
Qed.

Lemma keys_map_nodup : forall (g : nat -> dbact) (l : list nat), NoDup l ->
  (forall o1 o2 k, In o1 l -> In o2 l -> akey (g o1) = Some k -> akey (g o2) = Some k -> o1 = o2) ->
  NoDup (keys (map g l)).
Proof.
  intros g l ND. induction ND as [|x l Hx ND IH]; intros Inj; simpl; [constructor|].
  assert (IH' : NoDup (keys (map g l))).
  { apply IH. intros o1 o2 k H1 H2. apply Inj; right; auto. }
  unfold keys in *. simpl. destruct (akey (g x)) as [k|] eqn:E; auto.
  simpl. constructor; auto.
  intro H. apply in_flat_map in H. destruct H as [a [Ha Hk]].
  apply in_map_iff in Ha. destruct Ha as [o [Eo Ho]]. subst a.
  destruct (akey (g o)) as [k'|] eqn:E'; [|destruct Hk]. destruct Hk as [Hk|[]]. subst k'.
  assert (x = o) by (apply (Inj x o k); auto; [left; auto|right; auto]). subst o. contradiction.
Qed.

(* ---------------------------------------------------------------- instantiation with the session *)
Definition acts_of (s : st) : list dbact := map (fun o => act_of (heap s o)) (oids s).
Lemma flush_db_eq : forall s, flush_db s = run_acts (acts_of s) (db s, false).
Proof. reflexivity. Qed.

Lemma act_key : forall ob k, okb ob = true -> akey (act_of ob) = Some k ->
  pk ob = k /\ (in_map ob = true \/ in_new ob = true).
Proof.
  intros ob k H E. unfold act_of in E. destruct (okb_fields ob H) as (F1 & F2 & F3 & F4).
  destruct (in_del ob) eqn:D; [simpl in E; inversion E; auto|].
  destruct (in_new ob) eqn:N; [simpl in E; inversion E; auto|].
  destruct (in_mod ob && in_map ob) eqn:M; [|discriminate].
  apply andb_prop in M. destruct M as [_ M]. destruct (pend ob), (pendw ob); simpl in E; inversion E; auto.
Qed.

Lemma acts_inj : forall s, Inv s -> forall o1 o2 k,
  akey (act_of (heap s o1)) = Some k -> akey (act_of (heap s o2)) = Some k -> o1 = o2.
Proof.
  intros s I o1 o2 k E1 E2.
  destruct (act_key _ _ (i_ok s I o1) E1) as [P1 [M1|N1]];
  destruct (act_key _ _ (i_ok s I o2) E2) as [P2 [M2|N2]].
  - apply (i_map_inj s I); auto. congruence.
  - exfalso. apply (i_map_row s I o1 M1). rewrite P1, <- P2. apply (i_new_row s I o2 N2).
  - exfalso. apply (i_map_row s I o2 M2). rewrite P2, <- P1. apply (i_new_row s I o1 N1).
  - apply (i_new_inj s I); auto. congruence.
Qed.

Lemma acts_nodup : forall s, Inv s -> NoDup (keys (acts_of s)).
Proof.
  intros s I. unfold acts_of. apply keys_map_nodup; [apply seq_NoDup|].
  intros o1 o2 k _ _. apply (acts_inj s I).
Qed.
Lemma acts_pre : forall s, Inv s -> forall a, In a (acts_of s) -> pre a (db s).
Proof.
  intros s I a H. unfold acts_of in H. apply in_map_iff in H. destruct H as [o [E _]]. subst a.
  assert (OK := i_ok s I o). destruct (okb_fields _ OK) as (F1 & F2 & F3 & F4).
  unfold act_of. destruct (in_del (heap s o)) eqn:D; [exact Logic.I|].
  destruct (in_new (heap s o)) eqn:N; [simpl; apply (i_new_row s I o N)|].
  destruct (in_mod (heap s o) && in_map (heap s o)) eqn:M; [|exact Logic.I].
  apply andb_prop in M. destruct M as [_ M].
  destruct (pend (heap s o)), (pendw (heap s o)); simpl; auto; apply (i_map_row s I o M).
Qed.

Lemma flush_db_facts : forall s, Inv s ->
  snd (flush_db s) = false /\
  (forall o, o < nobj s -> forall k, akey (act_of (heap s o)) = Some k ->
     db_get k (fst (flush_db s)) = eff (act_of (heap s o)) (db_get k (db s))) /\
  (forall k, (forall o, akey (act_of (heap s o)) <> Some k) -> db_get k (fst (flush_db s)) = db_get k (db s)).
Proof.
  intros s I. rewrite flush_db_eq.
  destruct (run_ok (acts_of s) (db s) false (acts_nodup s I) (acts_pre s I)) as [A B].
  split; auto. split.
  - intros o L. apply B. unfold acts_of. apply in_map_iff. exists o. split; auto.
    apply in_seq. lia.
  - intros k H. apply run_other. intros a Ha. unfold acts_of in Ha. apply in_map_iff in Ha.
    destruct Ha as [o [E _]]. subst a. apply H.
Qed.

Lemma act_dead0 : act_of dead0 = ANone. Proof. reflexivity. Qed.

(* a key is touched by some object's statement or by none *)
Lemma key_dec : forall s k, (exists o, o < nobj s /\ akey (act_of (heap s o)) = Some k) \/
                            (forall o, o < nobj s -> akey (act_of (heap s o)) <> Some k).
Proof.
  intros s k. generalize (nobj s). induction n as [|n IH].
  - right. intros o L. lia.
  - destruct IH as [[o [L E]]|IH]; [left; exists o; split; auto|].
    destruct (akey (act_of (heap s n))) as [k'|] eqn:E.
    + destruct (N.eq_dec k' k) as [->|Ne].
      * left. exists n. split; auto.
      * right. intros o L. destruct (Nat.eq_dec o n) as [->|Nn]; [congruence|apply IH; lia].
    + right. intros o L. destruct (Nat.eq_dec o n) as [->|Nn]; [congruence|apply IH; lia].
Qed.

Lemma inv_flush : forall s, Inv s -> Inv (flush s).
Proof.
  intros s I. unfold flush. destruct (has_work s); auto.
  destruct (flush_db_facts s I) as (Ff & Fpost & Fother).
  destruct (flush_db s) as [d f] eqn:E. simpl in Ff, Fpost, Fother. subst f.
  assert (FO : forall o, flush_obj_spec (heap s o) = true).
  { intros o. apply (imp_true _ _ (flush_obj_ok (heap s o))). apply (i_ok s I). }
  assert (FS : forall o, let ob := heap s o in let ob' := flush_obj ob in
     okb ob' = true /\ alive ob' = alive ob /\ in_new ob' = false /\
     (in_map ob' = true -> (in_map ob = true /\ in_del ob = false) \/ in_new ob = true)).
  { intros o. specialize (FO o). unfold flush_obj_spec in FO. cbv zeta in *.
    do 7 (apply andb_prop in FO; destruct FO as [FO ?]).
    split; [exact FO|]. split; [apply eqb_prop; assumption|]. split; [apply negb_true_iff; assumption|].
    intro M.
    match goal with X : imp (in_map (flush_obj _)) _ = true |- _ => pose proof (imp_true _ _ X M) as Y end.
    apply orb_true_iff in Y. destruct Y as [Y|Y]; auto.
    apply andb_prop in Y. destruct Y as [Y1 Y2]. apply negb_true_iff in Y2. auto. }
  assert (Lt : forall o, (in_map (heap s o) = true \/ in_new (heap s o) = true) -> o < nobj s).
  { intros o H. apply (alive_lt s o I). destruct (okb_fields _ (i_ok s I o)) as (F1 & F2 & _).
    destruct H as [H|H]; [apply F1|apply F2]; auto. }
  (* rows after the flush *)
  assert (Row : forall o, in_map (flush_obj (heap s o)) = true -> db_get (pk (heap s o)) d <> None).
  { intros o M. destruct (FS o) as (_ & _ & _ & C). destruct (C M) as [[M0 D0]|N0].
    - destruct (akey (act_of (heap s o))) as [k|] eqn:Ek.
      + destruct (act_key _ _ (i_ok s I o) Ek) as [Pk _]. subst k.
        rewrite (Fpost o (Lt o (or_introl M0)) _ Ek).
        assert (R := i_map_row s I o M0).
        unfold act_of in *. rewrite D0 in *.
        destruct (in_new (heap s o)); [discriminate|].
        destruct (in_mod (heap s o) && in_map (heap s o)); [|discriminate].
        destruct (pend (heap s o)), (pendw (heap s o)); try discriminate;
          simpl; destruct (db_get (pk (heap s o)) (db s)); try contradiction; discriminate.
      + rewrite Fother; [apply (i_map_row s I o M0)|].
        intros o' E'. assert (o' = o).
        { destruct (act_key _ _ (i_ok s I o') E') as [Pk [M'|N']].
          - apply (i_map_inj s I); auto.
          - exfalso. apply (i_map_row s I o M0). rewrite <- Pk. apply (i_new_row s I o' N'). }
        subst o'. congruence.
    - destruct (okb_fields _ (i_ok s I o)) as (_ & F2 & _). destruct (F2 N0) as (_ & _ & _ & D0 & _).
      assert (Ek : akey (act_of (heap s o)) = Some (pk (heap s o))) by (unfold act_of; rewrite D0, N0; reflexivity).
      rewrite (Fpost o (Lt o (or_intror N0)) _ Ek). unfold act_of. rewrite D0, N0. discriminate. }
  constructor; cbn [heap nobj slots local db next_pk next_val failed].
  - intros o L. rewrite (i_dead s I o L). reflexivity.
  - intros o. apply (FS o).
  - intros o M. rewrite flush_obj_pk. apply Row. exact M.
  - intros o1 o2 M1 M2 Ep. rewrite !flush_obj_pk in Ep.
    destruct (FS o1) as (_ & _ & _ & C1). destruct (FS o2) as (_ & _ & _ & C2).
    destruct (C1 M1) as [[A1 _]|A1]; destruct (C2 M2) as [[A2 _]|A2].
    + apply (i_map_inj s I); auto.
    + exfalso. apply (i_map_row s I o1 A1). rewrite Ep. apply (i_new_row s I o2 A2).
    + exfalso. apply (i_map_row s I o2 A2). rewrite <- Ep. apply (i_new_row s I o1 A1).
    + apply (i_new_inj s I); auto.
  - intros o N. destruct (FS o) as (_ & _ & N' & _). congruence.
  - intros o1 o2 N. destruct (FS o1) as (_ & _ & N' & _). congruence.
  - intros o A. rewrite flush_obj_pk. destruct (FS o) as (_ & A' & _). rewrite A' in A. apply (i_pk s I o A).
  - intros k v G. destruct (key_dec s k) as [[o [L Ek]]|Nk].
    + destruct (act_key _ _ (i_ok s I o) Ek) as [Pk H]. subst k. apply (i_pk s I).
      destruct (okb_fields _ (i_ok s I o)) as (F1 & F2 & _). destruct H as [H|H]; [apply F1|apply F2]; auto.
    + apply (i_db s I k v). rewrite <- G. symmetry. apply Fother.
      intros o. destruct (le_lt_dec (nobj s) o) as [L|L]; [rewrite (i_dead s I o L); discriminate|apply Nk; auto].
  - intros o H. destruct (FS o) as (_ & A' & _). rewrite A'. apply (i_slots s I o H).
  - intros o H. destruct (FS o) as (_ & A' & _). rewrite A'. apply (i_local s I o H).
  - rewrite (i_failed s I). reflexivity.
Qed.

(* what a flush writes: the pending values of every object that is new or persistent-and-dirty *)
Lemma flush_writes : forall s o, Inv s ->
  alive (heap s o) = true -> has_pend (heap s o) = true -> in_del (heap s o) = false ->
  (in_new (heap s o) = true \/ in_map (heap s o) = true) ->
  exists r, db_get (pk (heap s o)) (db (flush s)) = Some r /\
    (forall v, pend (heap s o) = Some v -> fst r = v) /\ (forall v, pendw (heap s o) = Some v -> snd r = v) /\
    failed (flush s) = false.
Proof.
  intros s o I A P D H.
  assert (R := okb_pending_rooted (heap s o) (i_ok s I o) A P).
  assert (H' : in_new (heap s o) || in_map (heap s o) = true) by (destruct H as [H|H]; rewrite H; auto using orb_true_r).
  specialize (R H'). clear H'.
  assert (W : has_work s = true).
  { unfold has_work. apply existsb_exists. exists o. split.
    - apply in_seq. split; [lia|]. simpl. apply (alive_lt s o I A).
    - cbv zeta. apply orb_true_iff in R. destruct R as [R|R]; [rewrite R; reflexivity|].
      apply andb_prop in R. destruct R as [_ R]. rewrite R. repeat rewrite orb_true_r. reflexivity. }
  unfold flush. rewrite W.
  destruct (flush_db_facts s I) as (Ff & Fpost & _).
  destruct (flush_db s) as [d f] eqn:E. simpl in *. subst f. rewrite (i_failed s I).
  assert (Po := Fpost o (alive_lt s o I A)). unfold act_of in Po. rewrite D in Po.
  unfold has_pend in P.
  apply orb_true_iff in R. destruct R as [R|R].
  - rewrite R in Po. rewrite (Po _ eq_refl). simpl. eexists; split; [reflexivity|].
    repeat split; simpl; intros v Ev; rewrite Ev; reflexivity.
  - apply andb_prop in R. destruct R as [R R3]. apply andb_prop in R. destruct R as [R1 R2].
    assert (Row := i_map_row s I o R2).
    destruct (in_new (heap s o)).
    + rewrite (Po _ eq_refl). simpl. eexists; split; [reflexivity|].
      repeat split; simpl; intros v Ev; rewrite Ev; reflexivity.
    + rewrite R2, R3 in Po. simpl in Po.
      destruct (db_get (pk (heap s o)) (db s)) as [old|] eqn:G; [|contradiction].
      destruct (pend (heap s o)) as [v1|] eqn:E1; destruct (pendw (heap s o)) as [v2|] eqn:E2; try discriminate;
        rewrite (Po _ eq_refl); simpl; rewrite G; eexists; (split; [reflexivity|]);
        repeat split; simpl; intros v Ev; inversion Ev; reflexivity.
Qed.
