(* C46: the statements of props/C46.v *)
From Coq Require Import List ZArith NArith Bool Arith Lia.
Import ListNotations.
From SAV.orm Require Import Expire ExpireProofs.
Open Scope Z_scope.

Section P.
Variables (eoc : bool) (pks : list Z) (attrs : list nat).
Notation stepT := (step eoc pks attrs).
Notation runT := (run eoc pks attrs).

Lemma run_app : forall l1 l2 s, runT (l1 ++ l2) s = runT l2 (runT l1 s).
Proof. induction l1 as [|o t IH]; intros; cbn [run app]; [reflexivity|apply IH]. Qed.

Lemma reach_wf : forall r0 s, reach eoc pks attrs r0 s -> wf s.
Proof. intros r0 s [l ->]. apply wf_run, wf_init. Qed.

Theorem main_read_after_expire : forall r0 s0 o l k a,
  reach eoc pks attrs r0 s0 -> expires eoc o s0 k a -> Forall (keeps eoc k a) l ->
  let s := runT l (fst (stepT o s0)) in
  snd (stepT (Read k a) s) = RVal (Some (view s k a)) /\
  (snap s = None -> view s k a = com s k a) /\
  (forall g r, snap s = Some (g, r) -> view s k a = r k a).
Proof.
  intros r0 s0 o l k a HR HE HK. cbv zeta. split; [|split].
  - apply read_synced.
    + apply wf_run, wf_step, (reach_wf r0), HR.
    + apply synced_run; [exact HK|]. apply expires_synced, HE.
  - intros E. unfold view. rewrite E. reflexivity.
  - intros g r E. unfold view. rewrite E. reflexivity.
Qed.

Theorem main_pending_kept : forall s l k a v,
  pending s k a v -> Forall (undisturbed k a) l ->
  stepT (Read k a) (runT l s) = (runT l s, RVal (Some v)) /\ pending (runT l s) k a v /\
  selects pks attrs (Read k a) (runT l s) (RVal (Some v)) = 0%nat.
Proof.
  intros s l k a v P F. pose proof (pending_run eoc pks attrs l s k a v F P) as P'.
  split; [apply read_pending, P'|]. split; [exact P'|]. cbn [selects]. destruct P' as [_ ->]. reflexivity.
Qed.

(* a set makes the change pending, whatever the attribute's state was (loaded, expired, already pending) *)
Theorem main_set_pending : forall s k a v, pending (fst (stepT (SetA k a v) s)) k a v.
Proof.
  intros s k a v. cbn [step fst]. unfold pending. cbn [objs]. rewrite upd_obj_same. cbn [oval orig]. rewrite Nat.eqb_refl.
  split; [destruct (orig (objs s k) a); discriminate|reflexivity].
Qed.
End P.

(* concrete histories (non-vacuity; "for the transaction") *)
Definition r123 : rowsf := fun k a => Z.of_nat a.
Definition two : list Z := [1; 2].
Definition four : list nat := [0; 1; 2; 3]%nat.

(* no transaction open: the read after expire sees the external update *)
Lemma ex_outside_txn :
  snd (step false two four (Read 1 1) (run false two four [Commit; Expire 1 [1%nat]; Ext 1 1 50] (init r123))) = RVal (Some 50).
Proof. vm_compute. reflexivity. Qed.
(* inside the transaction that loaded the instance the snapshot value is returned *)
Lemma ex_inside_txn :
  snd (step false two four (Read 1 1) (run false two four [Expire 1 [1%nat]; Ext 1 1 50] (init r123))) = RVal (Some 1).
Proof. vm_compute. reflexivity. Qed.
(* a pending change on y survives expire(x), refresh(x), an external update of y and reads *)
Lemma ex_pending_kept :
  snd (step false two four (Read 1 2)
         (run false two four [SetA 1 2 77; Expire 1 [1%nat]; Ext 1 2 50; Refresh 1 [1%nat; 3%nat]; Read 1 1] (init r123)))
  = RVal (Some 77).
Proof. vm_compute. reflexivity. Qed.
(* ... and is discarded by expiring exactly that attribute *)
Lemma ex_pending_discarded :
  snd (step false two four (Read 1 2)
         (run false two four [Commit; SetA 1 2 77; Ext 1 2 50; Expire 1 [2%nat]] (init r123)))
  = RVal (Some 50).
Proof. vm_compute. reflexivity. Qed.
(* commit with expire_on_commit: the next read sees what another connection wrote after the commit *)
Lemma ex_commit_eoc :
  snd (step true two four (Read 1 1) (run true two four [SetA 1 1 5; Commit; Ext 1 1 50] (init r123))) = RVal (Some 50) /\
  snd (step false two four (Read 1 1) (run false two four [SetA 1 1 5; Commit; Ext 1 1 50] (init r123))) = RVal (Some 5).
Proof. vm_compute. split; reflexivity. Qed.
(* the database refuses a flush from an outdated snapshot; everything is expired afterwards *)
Lemma ex_busy :
  snd (step false two four Commit (run false two four [Ext 1 1 50; SetA 1 2 7] (init r123))) = RBusy /\
  snd (step false two four (Read 1 2) (run false two four [Ext 1 1 50; SetA 1 2 7; Commit] (init r123))) = RVal (Some 2).
Proof. vm_compute. split; reflexivity. Qed.
Lemma ex_reach : reach false two four r123 (run false two four [Commit; Ext 1 1 50] (init r123)).
Proof. exists [Commit; Ext 1 1 50]. reflexivity. Qed.

(* an instance that left the session and came back without any SQL (expunge ... add), then commit with expire_on_commit
   in a transaction that never touched the database: the next read shows what the other connection wrote *)
Lemma ex_reattach :
  snd (step true two four (Read 1 1)
         (run true two four [Expunge 1; Commit; Ext 1 1 50; Add 1; Commit] (init r123))) = RVal (Some 50) /\
  snd (step true two four (Read 1 1)
         (run true two four [Expunge 1; Commit; Ext 1 1 50] (init r123))) = RVal (Some 1).
Proof. vm_compute. split; reflexivity. Qed.
(* populate_existing from rows that carry only id and x: y loses its pending change and is re-read from the database *)
Lemma ex_popex_cols :
  snd (step false two four (Read 1 2)
         (run false two four [Commit; Ext 1 2 50; SetA 1 2 77; PopExCols [1%nat]] (init r123))) = RVal (Some 50).
Proof. vm_compute. reflexivity. Qed.
