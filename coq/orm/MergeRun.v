(* C45 - run_case for the merge model.  Packed exchange format (parsing literals dominates the cost of a shard):
   input  = [cfg; [rowA..]; [rowB..]; [srcA..]; [srcB..]; [op..]]
     cfg  = mf + 2*hb + 4*mb
     value (option Z): None -> 0 | Some v -> v+1 ;  attribute: unloaded -> 0 | None -> 1 | Some v -> v+2
     rowA = pk + 8*(x + 256*y)           rowB = pk + 8*(aid(None 0 | a+1) + 8*v)
     srcB = detached + 2*(pk(None 0|pk+1) + 8*(v attr + 512*a))        a: 0 unloaded, 1 None, 2 the owning A
     srcA = detached + 2*(pk + 8*(x attr + 512*(y attr + 512*(bs loaded + 2*(len + 8*children base 8)))))
     op   = code + 8*(a + 8*b): 0 get A a | 1 get B a | 2 load A(a).bs | 3 A(a).x = b | 4 B(a).v = b | 5 merge srcA[a], load=b
   output = one list per op: [name] for get, [names] for load bs, [0] for set,
            [name; sql; i1; i2; i3; ...] for a merge (three integers per instance of the session, persistent A by pk,
            persistent B by pk, session.new in order), [-5] for InvalidRequestError (terminal), [-9] after it *)
From Coq Require Import List Bool Arith ZArith.
From SAV.base Require Import Tree.
From SAV.orm Require Import Merge.
Import ListNotations.

Definition fld (z d m : Z) : Z := ((z / d) mod m)%Z.
Definition dec_val (z : Z) : option Z := if (z =? 0)%Z then None else Some (z - 1)%Z.
Definition dec_attr (z : Z) : sattr (option Z) :=
  if (z =? 0)%Z then SU else if (z =? 1)%Z then SV None else SV (Some (z - 2)%Z).
Definition dec_pk (z : Z) : option nat := if (z =? 0)%Z then None else Some (Z.to_nat (z - 1)).

Fixpoint unpack (n : nat) (base z : Z) : list nat :=
  match n with 0 => [] | S n' => Z.to_nat (z mod base) :: unpack n' base (z / base) end.

Definition as_Zs (t : tree) : option (list Z) := as_list_of as_Z t.

Definition dec_rowA (z : Z) : nat * (option Z * option Z) :=
  (Z.to_nat (fld z 1 8), (dec_val (fld z 8 256), dec_val (fld z 2048 256))).
Definition dec_rowB (z : Z) : nat * (option nat * option Z) :=
  (Z.to_nat (fld z 1 8), (dec_pk (fld z 8 8), dec_val (fld z 64 256))).
Definition dec_srcB (z : Z) : srcB :=
  mkSB (Z.odd z) (dec_pk (fld z 2 8)) (dec_attr (fld z 16 512))
       (let a := fld z 8192 4 in if (a =? 0)%Z then BPunloaded else if (a =? 1)%Z then BPnone else BPparent).
Definition dec_srcA (z : Z) : srcA :=
  let rest := (z / 4194304)%Z in   (* 2*8*512*512 *)
  mkSA (Z.odd z) (dec_pk (fld z 2 8)) (dec_attr (fld z 16 512)) (dec_attr (fld z 8192 512))
       (if Z.odd rest then SV (unpack (Z.to_nat (fld rest 2 8)) 8 (rest / 16)) else SU).
Definition dec_op (z : Z) : option mop :=
  let a := Z.to_nat (fld z 8 8) in let b := (z / 64)%Z in
  match (z mod 8)%Z with
  | 0%Z => Some (MGetA a) | 1%Z => Some (MGetB a) | 2%Z => Some (MLoadBs a)
  | 3%Z => Some (MSetX a (dec_val b)) | 4%Z => Some (MSetV a (dec_val b))
  | 5%Z => Some (MMerge a (Z.odd b))
  | _ => None
  end.

(* ---- observation ---- *)
Definition pks : list nat := seq 0 8.

Fixpoint index_of (x : nat) (l : list nat) (k : nat) : option nat :=
  match l with [] => None | y :: r => if Nat.eqb x y then Some k else index_of x r (S k) end.

Definition name_of (s : mstate) (t : nat) : Z :=
  match tkey s t with
  | Some pk => if optnat_eqb (idA s pk) (Some t) then Z.of_nat pk else Z.of_nat (8 + pk)
  | None => match index_of t (pendings s) 0 with Some k => Z.of_nat (16 + k) | None => 31%Z end
  end.

Definition enc_col (v : option (option Z)) : Z :=
  match v with None => 0%Z | Some None => 1%Z | Some (Some z) => (z + 2)%Z end.

Definition cval_differs (orig : cval) (cur : option (option Z)) : bool :=
  match orig, cur with
  | CNov, _ => true
  | CVal a, Some b => negb (match a, b with Some x, Some y => Z.eqb x y | None, None => true | _, _ => false end)
  | CVal _, None => true
  end.

(* Session.is_modified: some attribute has a net change against its committed value *)
Definition is_modified (s : mstate) (t : nat) : bool :=
  existsb (fun k => match ccomm s t k with Some o => cval_differs o (cols s t k) | None => false end) [0; 1; 2]
  || match bscomm s t with
     | Some orig => let cur := match bs s t with Some l => l | None => [] end in
                    existsb (fun c => negb (mem c orig)) cur || existsb (fun c => negb (mem c cur)) orig
     | None => false
     end
  || match pcomm s t with
     | Some o => match par s t with Some v => negb (oldp_is o v) | None => true end
     | None => false
     end.

Definition b2z (b : bool) : Z := if b then 1%Z else 0%Z.
Definition pack (base : Z) (l : list Z) : Z := fold_right (fun x acc => (x + base * acc)%Z) 0%Z l.

Definition desc (s : mstate) (t : nat) : list tree :=
  let stt := if tpend s t then 1%Z else 2%Z in
  let dirty := modf s t && negb (tpend s t) in
  [I (name_of s t + 32 * (stt + 4 * (enc_col (cols s t 0) + 256 * (enc_col (cols s t 1) + 256 *
        (enc_col (cols s t 2) + 256 * (b2z dirty + 2 * b2z (is_modified s t)))))))%Z;
   I (match bs s t with
      | None => 0%Z
      | Some l => (1 + 2 * (Z.of_nat (length l) + 8 * pack 32 (map (name_of s) l)))%Z
      end);
   I (match par s t with None => 0%Z | Some None => 1%Z | Some (Some q) => (2 + name_of s q)%Z end)].

Definition snapshot (s : mstate) : list tree :=
  flat_map (fun pk => match idA s pk with Some t => desc s t | None => [] end) pks
  ++ flat_map (fun pk => match idB s pk with Some t => desc s t | None => [] end) pks
  ++ flat_map (desc s) (pendings s).

Definition opt_name (s : mstate) (r : option nat) : Z := match r with Some t => name_of s t | None => (-1)%Z end.

Fixpoint run_ops (cfg : mconfig) (sas : list srcA) (sbs : list srcB) (s : mstate) (dead : bool) (ops : list mop) : list tree :=
  match ops with
  | [] => []
  | o :: rest =>
      if dead then L [I (-9)%Z] :: run_ops cfg sas sbs s true rest
      else
        match o with
        | MGetA pk => let '(s1, r) := get_A cfg s pk in L [I (opt_name s1 r)] :: run_ops cfg sas sbs s1 false rest
        | MGetB pk => let '(s1, r) := get_B cfg s pk in L [I (opt_name s1 r)] :: run_ops cfg sas sbs s1 false rest
        | MLoadBs pk =>
            let '(s1, r) := get_A cfg s pk in
            match r with
            | Some t => let s2 := lazy_bs cfg s1 t in
                        L (map (fun c => I (name_of s2 c)) (match bs s2 t with Some l => l | None => [] end))
                        :: run_ops cfg sas sbs s2 false rest
            | None => L [I (-1)%Z] :: run_ops cfg sas sbs s1 false rest
            end
        | MSetX _ _ | MSetV _ _ =>
            match mstep cfg sas sbs s o with
            | Some s1 => L [I 0%Z] :: run_ops cfg sas sbs s1 false rest
            | None => L [I (-5)%Z] :: run_ops cfg sas sbs s true rest
            end
        | MMerge i load =>
            match merge_A cfg load sbs s (nth i sas dummyA) with
            | None => L [I (-5)%Z] :: run_ops cfg sas sbs s true rest
            | Some (s1, t) =>
                if poison s1 then L [I (-7)%Z] :: run_ops cfg sas sbs s1 true rest
                else L (I (name_of s1 t) :: I (Z.of_nat (sql s1 - sql s)) :: snapshot s1) :: run_ops cfg sas sbs s1 false rest
            end
        end
  end.

Definition run_case (t : tree) : tree :=
  match t with
  | L [I c; ra; rb; sa; sb; ops] =>
      match as_Zs ra, as_Zs rb, as_Zs sa, as_Zs sb, as_Zs ops with
      | Some ra, Some rb, Some sa, Some sb, Some ops =>
          match all_some (map dec_op ops) with
          | Some ops =>
              let cfg := mkMC (Z.odd c) (Z.odd (c / 2)) (Z.odd (c / 4)) (map dec_rowA ra) (map dec_rowB rb) in
              L (run_ops cfg (map dec_srcA sa) (map dec_srcB sb) m0 false ops)
          | None => bad_input
          end
      | _, _, _, _, _ => bad_input
      end
  | _ => bad_input
  end.
