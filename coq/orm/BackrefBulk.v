(* C37 - proofs, part 4: bulk replacement (collections.bulk_replace) preserves the invariants. *)
From Coq Require Import List NArith Bool Lia Arith.
Import ListNotations.
From SAV.orm Require Import Backref BackrefSpec BackrefBase BackrefO2M BackrefM2M.
Open Scope N_scope.

Lemma dedup_NoDup_id : forall l, NoDup l -> dedup l = l.
Proof.
  induction l as [|y t IH]; intros N; [reflexivity|]. inversion N as [|? ? NI ND]; subst. cbn [dedup].
  apply memb_false in NI. rewrite NI, IH by exact ND. reflexivity.
Qed.
Lemma NoDup_rev' : forall (l : list N), NoDup l -> NoDup (rev l).
Proof.
  induction l as [|y t IH]; intros N; cbn; [constructor|]. inversion N; subst.
  apply NoDup_snoc; [apply IH; assumption|]. rewrite <- in_rev. assumption.
Qed.
Lemma dedup_first_NoDup_id : forall l, NoDup l -> dedup_first l = l.
Proof. intros l N. unfold dedup_first. rewrite dedup_NoDup_id by (apply NoDup_rev'; exact N). apply rev_involutive. Qed.
Lemma NoDup_filter' : forall (f : N -> bool) l, NoDup l -> NoDup (filter f l).
Proof.
  induction l as [|y t IH]; intros N; cbn; [constructor|]. inversion N; subst.
  destruct (f y); [constructor; [rewrite filter_In; tauto|]|]; apply IH; assumption.
Qed.

(* ================= many-to-many ================= *)
Section M2M.
  Variables (sd : side) (o : N).

  Definition stepA (cs : list N) (t : st) (v : N) : st :=
    let t1 := if memb v cs then t else attach_m t sd o v in
    set_cell t1 sd o (CList (coll_of t1 sd o ++ [v])).

  Lemma bulk_appends_m2m : forall cs vs t, (forall v, In v vs -> v <> 0) ->
    bulk_appends M2M sd o cs vs t = Ok (fold_left (stepA cs) vs t).
  Proof.
    intros cs vs. induction vs as [|v rest IH]; intros t NZ; [reflexivity|].
    cbn [bulk_appends fold_left]. unfold stepA at 2.
    destruct (memb v cs) eqn:M; cbn [bind].
    - apply IH. intros x Hx. apply NZ. right. exact Hx.
    - unfold run_call, FUEL. rewrite exec_fire_append.
      assert (T : tok_bulk M2M sd = Some (sd, TBulk)) by (destruct sd; reflexivity). rewrite T.
      rewrite (fire_append_m2m 6 t sd o v (sd, TBulk)); [|apply NZ; left; reflexivity|right; reflexivity].
      cbn [bind]. apply IH. intros x Hx. apply NZ. right. exact Hx.
  Qed.

  Lemma bulk_removes_m2m : forall vs t, (forall v, In v vs -> v <> 0) ->
    bulk_removes M2M sd o vs t = Ok (fold_left (fun t v => detach_m t sd o v) vs t).
  Proof.
    induction vs as [|v rest IH]; intros t NZ; [reflexivity|].
    cbn [bulk_removes fold_left]. unfold run_call, FUEL. rewrite exec_fire_remove.
    assert (T : tok_bulk M2M sd = Some (sd, TBulk)) by (destruct sd; reflexivity). rewrite T.
    rewrite (fire_remove_m2m 6 t sd o v (sd, TBulk)); [|apply NZ; left; reflexivity|right; reflexivity].
    cbn [bind]. apply IH. intros x Hx. apply NZ. right. exact Hx.
  Qed.

  (* effect of the append loop on every collection *)
  Lemma foldA_same : forall cs vs t, coll_of (fold_left (stepA cs) vs t) sd o = coll_of t sd o ++ vs.
  Proof.
    intros cs vs. induction vs as [|v rest IH]; intros t; cbn [fold_left]; [rewrite app_nil_r; reflexivity|].
    rewrite IH. unfold stepA. rewrite coll_set_same.
    destruct (memb v cs); [|rewrite attach_m_coll]; rewrite <- app_assoc; reflexivity.
  Qed.
  Lemma foldA_other_obj : forall cs vs t o', o' <> o ->
    coll_of (fold_left (stepA cs) vs t) sd o' = coll_of t sd o'.
  Proof.
    intros cs vs. induction vs as [|v rest IH]; intros t o' NE; cbn [fold_left]; [reflexivity|].
    rewrite IH by exact NE. unfold stepA. rewrite coll_set_other_obj by exact NE.
    destruct (memb v cs); [reflexivity|]. unfold attach_m. apply coll_set_other_side. apply other_neq'.
  Qed.
  Lemma foldA_other_side : forall cs vs t w, NoDup vs ->
    coll_of (fold_left (stepA cs) vs t) (other sd) w =
    coll_of t (other sd) w ++ (if memb w vs && negb (memb w cs) then [o] else []).
  Proof.
    intros cs vs. induction vs as [|v rest IH]; intros t w ND; cbn [fold_left].
    { cbn. rewrite app_nil_r. reflexivity. }
    inversion ND as [|? ? NI ND']; subst. rewrite IH by exact ND'.
    unfold stepA. rewrite coll_set_other_side by apply other_neq.
    cbn [memb existsb]. fold (memb w rest).
    destruct (w =? v) eqn:E.
    - apply N.eqb_eq in E. subst w. apply memb_false in NI. rewrite NI. cbn [orb andb].
      destruct (memb v cs); cbn [negb]; [rewrite app_nil_r; reflexivity|].
      unfold attach_m. rewrite coll_set_same, app_nil_r. reflexivity.
    - cbn [orb]. apply N.eqb_neq in E.
      destruct (memb v cs); [reflexivity|]. unfold attach_m. rewrite coll_set_other_obj by exact E. reflexivity.
  Qed.

  Lemma detach_m_other : forall t v w,
    coll_of (detach_m t sd o v) (other sd) w =
    if w =? v then remove1 o (coll_of t (other sd) w) else coll_of t (other sd) w.
  Proof.
    intros t v w. unfold detach_m. destruct (w =? v) eqn:E.
    - apply N.eqb_eq in E. subst w. destruct (memb o (coll_of t (other sd) v)) eqn:M.
      + apply coll_set_same.
      + apply memb_false in M. rewrite remove1_notin by exact M. reflexivity.
    - apply N.eqb_neq in E. destruct (memb o (coll_of t (other sd) v)); [|reflexivity].
      apply coll_set_other_obj. exact E.
  Qed.
  Lemma foldR_same_side : forall vs t o', coll_of (fold_left (fun t v => detach_m t sd o v) vs t) sd o' = coll_of t sd o'.
  Proof.
    induction vs as [|v rest IH]; intros t o'; cbn [fold_left]; [reflexivity|]. rewrite IH.
    unfold detach_m. destruct (memb o (coll_of t (other sd) v)); [|reflexivity].
    apply coll_set_other_side. apply other_neq'.
  Qed.
  Lemma foldR_other_side : forall vs t w, NoDup vs ->
    coll_of (fold_left (fun t v => detach_m t sd o v) vs t) (other sd) w =
    if memb w vs then remove1 o (coll_of t (other sd) w) else coll_of t (other sd) w.
  Proof.
    induction vs as [|v rest IH]; intros t w ND; cbn [fold_left]; [reflexivity|].
    inversion ND as [|? ? NI ND']; subst. rewrite IH by exact ND'. rewrite detach_m_other.
    cbn [memb existsb]. fold (memb w rest). destruct (w =? v) eqn:E; cbn [orb].
    - apply N.eqb_eq in E. subst w. apply memb_false in NI. rewrite NI. reflexivity.
    - reflexivity.
  Qed.
End M2M.

Lemma m2m_replace : forall s sd o vs, inv_m2m s -> o <> 0 -> NoDup vs -> ~ In 0 vs ->
  exists s', step_prim M2M (PReplace sd o vs) s = Ok s' /\ inv_m2m s'.
Proof.
  intros s sd o vs I O ND NZ. destruct (inv_m2m_sd s sd I) as (A & N1 & N2 & Z1 & Z2).
  set (old := coll_of s sd o). set (cs := filter (fun v => memb v vs) old).
  set (R := filter (fun v => negb (memb v cs)) old).
  assert (NDold : NoDup old) by apply N1.
  assert (NDR : NoDup R) by (apply NoDup_filter'; exact NDold).
  assert (INcs : forall w, memb w cs = true <-> In w old /\ In w vs).
  { intros w. unfold cs. rewrite memb_In, filter_In, memb_In. tauto. }
  assert (INR : forall w, memb w R = true <-> In w old /\ ~ In w vs).
  { intros w. unfold R. rewrite memb_In, filter_In, negb_true_iff. split.
    - intros [H K]. split; [exact H|]. intros V. destruct (memb w cs) eqn:M; [discriminate|].
      assert (memb w cs = true) by (apply INcs; tauto). congruence.
    - intros [H K]. split; [exact H|]. destruct (memb w cs) eqn:M; [|reflexivity].
      apply INcs in M. tauto. }
  unfold step_prim. fold old. fold cs. fold R. rewrite (dedup_first_NoDup_id R NDR).
  rewrite bulk_appends_m2m by (intros v Hv ->; contradiction). cbn [bind].
  rewrite bulk_removes_m2m.
  2:{ intros v Hv ->. apply memb_In in Hv. apply INR in Hv. destruct Hv as [Hv _]. apply (Z1 o Hv). }
  eexists. split; [reflexivity|].
  set (F := fold_left (fun t v => detach_m t sd o v) R (fold_left (stepA sd o cs) vs (set_cell s sd o (CList [])))).
  assert (F1 : coll_of F sd o = vs).
  { unfold F. rewrite foldR_same_side, foldA_same, coll_set_same. reflexivity. }
  assert (F2 : forall o', o' <> o -> coll_of F sd o' = coll_of s sd o').
  { intros o' NE. unfold F. rewrite foldR_same_side, foldA_other_obj by exact NE. apply coll_set_other_obj. exact NE. }
  assert (F3 : forall w, coll_of F (other sd) w =
                 if memb w R then remove1 o (coll_of s (other sd) w)
                 else coll_of s (other sd) w ++ (if memb w vs && negb (memb w cs) then [o] else [])).
  { intros w. unfold F. rewrite foldR_other_side by exact NDR. rewrite foldA_other_side by exact ND.
    rewrite coll_set_other_side by apply other_neq.
    destruct (memb w R) eqn:MR; [|reflexivity].
    apply INR in MR. destruct MR as [_ NV]. apply memb_false in NV. rewrite NV. cbn. rewrite app_nil_r. reflexivity. }
  (* membership of o on the other side *)
  assert (G : forall w, In o (coll_of F (other sd) w) <-> In w vs).
  { intros w. rewrite F3. destruct (memb w R) eqn:MR.
    - apply INR in MR. destruct MR as [HO NV]. rewrite remove1_In by apply N2. tauto.
    - destruct (memb w vs) eqn:MV.
      + apply memb_In in MV. destruct (memb w cs) eqn:MC; cbn [andb negb].
        * apply INcs in MC. rewrite app_nil_r. split; [tauto|]. intros _. apply A. tauto.
        * rewrite in_app_iff. cbn. tauto.
      + cbn [andb]. rewrite app_nil_r. apply memb_false in MV. split; [|tauto]. intros H. apply A in H.
        exfalso. assert (memb w R = true) by (apply INR; tauto). congruence. }
  assert (G' : forall w x, x <> o -> (In x (coll_of F (other sd) w) <-> In x (coll_of s (other sd) w))).
  { intros w x NE. rewrite F3. destruct (memb w R).
    - rewrite remove1_In by apply N2. tauto.
    - rewrite in_app_iff. destruct (memb w vs && negb (memb w cs)); cbn; intuition congruence. }
  apply (inv_m2m_of_sd _ sd).
  - intros o' v'. destruct (N.eq_dec o' o) as [->|NE].
    + rewrite F1, G. tauto.
    + rewrite F2 by exact NE. rewrite G' by exact NE. apply A.
  - intros o'. destruct (N.eq_dec o' o) as [->|NE]; [rewrite F1; exact ND|rewrite F2 by exact NE; apply N1].
  - intros w. rewrite F3. destruct (memb w R); [apply remove1_NoDup; apply N2|].
    destruct (memb w vs && negb (memb w cs)) eqn:Q; [|rewrite app_nil_r; apply N2].
    apply NoDup_snoc; [apply N2|]. apply andb_true_iff in Q. destruct Q as [QV Q]. apply negb_true_iff in Q.
    intros H. apply A in H. assert (memb w cs = true); [|congruence]. apply INcs. split; [exact H|].
    apply memb_In. exact QV.
  - intros o'. destruct (N.eq_dec o' o) as [->|NE]; [rewrite F1; exact NZ|rewrite F2 by exact NE; apply Z1].
  - intros w H. destruct (N.eq_dec 0 o) as [E|NE]; [congruence|]. apply G' in H; [|exact NE]. apply (Z2 w H).
Qed.

(* ================= one-to-many ================= *)
Section O2M.
  Variables (s : st) (p : N) (vs : list N).
  Hypothesis I : inv_o2m s.
  Hypothesis P0 : p <> 0.
  Hypothesis NDvs : NoDup vs.
  Hypothesis NZvs : ~ In 0 vs.

  Definition old := coll_of s SA p.
  Definition cs := filter (fun v => memb v vs) old.

  Definition stepAo (t : st) (v : N) : st :=
    let t1 := if memb v cs then t else attach_child t p v in
    set_cell t1 SA p (CList (coll_of t1 SA p ++ [v])).

  Lemma bulk_appends_o2m : forall ws t, (forall v, In v ws -> v <> 0) ->
    bulk_appends O2M SA p cs ws t = Ok (fold_left stepAo ws t).
  Proof.
    induction ws as [|v rest IH]; intros t NZ; [reflexivity|].
    cbn [bulk_appends fold_left]. unfold stepAo at 2.
    destruct (memb v cs) eqn:M; cbn [bind].
    - apply IH. intros x Hx. apply NZ. right. exact Hx.
    - unfold run_call, FUEL. rewrite exec_fire_append. cbn [tok_bulk kind_of].
      rewrite (fire_append_o2m 2 t p v (SA, TBulk)); [|apply NZ; left; reflexivity|right; reflexivity].
      cbn [bind]. apply IH. intros x Hx. apply NZ. right. exact Hx.
  Qed.

  (* the loop invariant of the appends: [done] is the processed prefix *)
  Record Jinv (done : list N) (t : st) : Prop := {
    J1 : coll_of t SA p = done;
    J2 : forall p' x, p' <> p ->
         (In x (coll_of t SA p') <-> In x (coll_of s SA p') /\ ~ (In x done /\ ~ In x old));
    J3 : forall x, sb t x = if memb x done && negb (memb x old) then CVal p else sb s x;
    J4 : forall p', p' <> p -> NoDup (coll_of t SA p')
  }.

  Lemma cs_spec : forall w, memb w cs = true <-> In w old /\ In w vs.
  Proof. intros w. unfold cs. rewrite memb_In, filter_In, memb_In. tauto. Qed.

  Lemma Jstep : forall done t v, Jinv done t -> In v vs -> ~ In v done -> v <> 0 ->
    Jinv (done ++ [v]) (stepAo t v).
  Proof.
    intros done t v J V ND VZ. unfold stepAo.
    assert (SBV : sb t v = sb s v).
    { rewrite (J3 _ _ J). apply memb_false in ND. rewrite ND. reflexivity. }
    destruct (memb v cs) eqn:M.
    - (* a constant: only p's collection grows *)
      apply cs_spec in M. destruct M as [MO _]. constructor.
      + rewrite coll_set_same, (J1 _ _ J). reflexivity.
      + intros p' x NE. rewrite coll_set_other_obj by exact NE. rewrite (J2 _ _ J p' x NE), in_app_iff. cbn.
        assert (VX : v = x -> In x old) by (intros <-; exact MO). tauto.
      + intros x. rewrite sb_set_A, (J3 _ _ J). f_equal.
        destruct (memb x (done ++ [v])) eqn:A1, (memb x done) eqn:A2; try reflexivity.
        * apply memb_In in A1. apply in_app_iff in A1. destruct A1 as [A1|[E|[]]];
            [apply memb_In in A1; congruence|]. subst x. apply memb_In in MO. rewrite MO. reflexivity.
        * apply memb_In in A2. apply memb_false in A1. exfalso. apply A1. apply in_app_iff. tauto.
      + intros p' NE. rewrite coll_set_other_obj by exact NE. apply (J4 _ _ J p' NE).
    - (* an addition: the child is moved from its old parent *)
      assert (NO : ~ In v old).
      { intros H. assert (memb v cs = true) by (apply cs_spec; tauto). congruence. }
      assert (NP : sb s v <> CVal p).
      { intros H. apply NO. apply (o2m_agree s I p v). tauto. }
      assert (OVF : oldv_is (scalar_old t SB v) p = false).
      { unfold scalar_old. cbn [cells]. rewrite SBV. destruct (sb s v) as [| |w|]; try reflexivity.
        cbn. apply N.eqb_neq. intros ->. apply NP. reflexivity. }
      (* shape of attach_child *)
      assert (AC : attach_child t p v =
                   set_cell (match old_parent t v with Some p0 => detach t p0 v | None => t end) SB v (CVal p)).
      { unfold attach_child. rewrite OVF. reflexivity. }
      set (t1 := match old_parent t v with Some p0 => detach t p0 v | None => t end) in *.
      assert (T1p : coll_of t1 SA p = coll_of t SA p).
      { unfold t1, old_parent, scalar_old. cbn [cells]. rewrite SBV.
        destruct (sb s v) as [| |w|] eqn:Q; cbn [real_obj]; try reflexivity.
        destruct w as [|w']; [reflexivity|]. unfold detach.
        destruct (memb v (coll_of t SA (N.pos w'))); [|reflexivity].
        apply coll_set_other_obj. intros E. apply NP. rewrite <- E. reflexivity. }
      assert (T1sb : sb t1 = sb t).
      { unfold t1. destruct (old_parent t v); [apply detach_sb|reflexivity]. }
      assert (T1c : forall p' x, p' <> p ->
                (In x (coll_of t1 SA p') <-> In x (coll_of t SA p') /\ ~ (x = v))).
      { intros p' x NE.
        assert (K : In v (coll_of t SA p') -> sb s v = CVal p' /\ p' <> 0).
        { intros H. apply (J2 _ _ J p' v NE) in H. destruct H as [H _].
          apply (o2m_agree s I) in H. tauto. }
        unfold t1, old_parent, scalar_old. cbn [cells]. rewrite SBV.
        destruct (real_obj match sb s v with CAbsent => ONoValue | CUnl => ONoResult | CVal w => OV w | CList _ => ONoValue end)
          as [p0|] eqn:R.
        - assert (SB0 : sb s v = CVal p0).
          { destruct (sb s v) as [| |w|]; try discriminate R. destruct w; [discriminate|]. injection R as <-. reflexivity. }
          assert (NDp0 : NoDup (coll_of t SA p0)).
          { apply (J4 _ _ J). intros E. apply NP. rewrite <- E. exact SB0. }
          rewrite detach_coll by exact NDp0. split.
          + intros [H Q]. split; [exact H|]. intros ->. apply Q. split; [|reflexivity].
            destruct (K H) as [K1 _]. congruence.
          + intros [H Q]. split; [exact H|]. intros [_ E]. contradiction.
        - split; [|tauto]. intros H. split; [exact H|]. intros ->. destruct (K H) as [K1 K2].
          rewrite K1 in R. destruct p'; [congruence|discriminate]. }
      rewrite AC. constructor.
      + rewrite coll_set_same, coll_set_other_side by discriminate. rewrite T1p, (J1 _ _ J). reflexivity.
      + intros p' x NE. rewrite coll_set_other_obj by exact NE. rewrite coll_set_other_side by discriminate.
        rewrite (T1c p' x NE), (J2 _ _ J p' x NE), in_app_iff. cbn.
        assert (VX : x = v -> ~ In x old) by (intros ->; exact NO).
        assert (VX' : v = x <-> x = v) by (split; congruence). tauto.
      + intros x. rewrite sb_set_A. destruct (N.eq_dec x v) as [->|NE].
        * rewrite sb_set_B_same. assert (M1 : memb v (done ++ [v]) = true) by (apply memb_In; apply in_app_iff; cbn; tauto).
          apply memb_false in NO. rewrite M1, NO. reflexivity.
        * rewrite sb_set_B_other by exact NE. rewrite T1sb, (J3 _ _ J). f_equal. f_equal.
          destruct (memb x (done ++ [v])) eqn:A1, (memb x done) eqn:A2; try reflexivity.
          -- apply memb_In in A1. apply in_app_iff in A1. destruct A1 as [A1|[E|[]]]; [apply memb_In in A1|]; congruence.
          -- apply memb_In in A2. apply memb_false in A1. exfalso. apply A1. apply in_app_iff. tauto.
      + intros p' NE. rewrite coll_set_other_obj by exact NE. rewrite coll_set_other_side by discriminate.
        unfold t1. destruct (old_parent t v) as [p0|]; [|apply (J4 _ _ J p' NE)].
        unfold detach. destruct (memb v (coll_of t SA p0)); [|apply (J4 _ _ J p' NE)].
        destruct (N.eq_dec p' p0) as [->|NE']; [rewrite coll_set_same; apply remove1_NoDup|rewrite coll_set_other_obj by exact NE'];
          apply (J4 _ _ J); exact NE.
  Qed.

  Lemma Jfold : forall ws done t, Jinv done t -> (forall v, In v ws -> In v vs /\ v <> 0) ->
    NoDup (done ++ ws) -> Jinv (done ++ ws) (fold_left stepAo ws t).
  Proof.
    induction ws as [|v rest IH]; intros done t J H ND; cbn [fold_left]; [rewrite app_nil_r; exact J|].
    replace (done ++ v :: rest) with ((done ++ [v]) ++ rest) by (rewrite <- app_assoc; reflexivity).
    apply IH.
    - destruct (H v (or_introl eq_refl)) as [HV HZ]. apply Jstep; auto.
      intros D. apply NoDup_remove_2 in ND. apply ND. apply in_app_iff. tauto.
    - intros x Hx. apply H. right. exact Hx.
    - rewrite <- app_assoc. exact ND.
  Qed.
End O2M.

Lemma bulk_removes_o2m : forall p vs ws t, p <> 0 -> NoDup vs -> NoDup ws ->
  coll_of t SA p = vs ->
  (forall v, In v ws -> v <> 0 /\ ~ In v vs /\ sb t v = CVal p) ->
  bulk_removes O2M SA p ws t = Ok (fold_left (fun t v => set_cell t SB v (CVal 0)) ws t).
Proof.
  intros p vs ws. induction ws as [|v rest IH]; intros t P NDvs NDws CP H; [reflexivity|].
  cbn [bulk_removes fold_left]. destruct (H v (or_introl eq_refl)) as (VZ & NV & SBV).
  unfold run_call, FUEL. rewrite exec_fire_remove. cbn [tok_bulk kind_of].
  rewrite (fire_remove_bulk_o2m 2 t p v VZ P); [|rewrite CP; apply has_dupes_NoDup; exact NDvs|rewrite SBV; discriminate].
  cbn [bind]. unfold unparent_bulk. rewrite SBV, N.eqb_refl. unfold detach.
  assert (M : memb v (coll_of t SA p) = false) by (apply memb_false; rewrite CP; exact NV). rewrite M.
  inversion NDws as [|? ? NI ND']; subst. apply IH; auto.
  - intros w Hw. destruct (H w (or_intror Hw)) as (A & B & C). repeat split; auto.
    rewrite sb_set_B_other; [exact C|]. intros ->. contradiction.
Qed.

Lemma fold_zero_sb : forall ws t x,
  sb (fold_left (fun t v => set_cell t SB v (CVal 0)) ws t) x = if memb x ws then CVal 0 else sb t x.
Proof.
  induction ws as [|v rest IH]; intros t x; cbn [fold_left]; [reflexivity|]. rewrite IH.
  cbn [memb existsb]. fold (memb x rest). destruct (memb x rest); [rewrite orb_true_r; reflexivity|].
  rewrite orb_false_r. destruct (x =? v) eqn:E.
  - apply N.eqb_eq in E. subst. apply sb_set_B_same.
  - apply N.eqb_neq in E. apply sb_set_B_other. exact E.
Qed.
Lemma fold_zero_coll : forall ws t p', coll_of (fold_left (fun t v => set_cell t SB v (CVal 0)) ws t) SA p' = coll_of t SA p'.
Proof.
  induction ws as [|v rest IH]; intros t p'; cbn [fold_left]; [reflexivity|]. rewrite IH.
  apply coll_set_other_side. discriminate.
Qed.

Theorem o2m_replace : forall s p vs, inv_o2m s -> p <> 0 -> NoDup vs -> ~ In 0 vs ->
  exists s', step_prim O2M (PReplace SA p vs) s = Ok s' /\ inv_o2m s'.
Proof.
  intros s p vs I P ND NZ.
  pose (oldl := coll_of s SA p). pose (csl := filter (fun v => memb v vs) oldl).
  pose (R := filter (fun v => negb (memb v csl)) oldl).
  assert (NDold : NoDup oldl) by apply (o2m_nodup s I).
  assert (NDR : NoDup R) by (apply NoDup_filter'; exact NDold).
  assert (INcs : forall w, memb w csl = true <-> In w oldl /\ In w vs).
  { intros w. unfold csl. rewrite memb_In, filter_In, memb_In. tauto. }
  assert (INR : forall w, In w R <-> In w oldl /\ ~ In w vs).
  { intros w. unfold R. rewrite filter_In, negb_true_iff. split.
    - intros [H K]. split; [exact H|]. intros V. assert (memb w csl = true) by (apply INcs; tauto). congruence.
    - intros [H K]. split; [exact H|]. destruct (memb w csl) eqn:M; [|reflexivity]. apply INcs in M. tauto. }
  unfold step_prim. fold oldl. fold csl. fold R. rewrite (dedup_first_NoDup_id R NDR).
  change csl with (cs s p vs). rewrite (bulk_appends_o2m s p vs) by (intros v Hv ->; contradiction).
  cbn [bind].
  set (t0 := set_cell s SA p (CList [])).
  assert (J0 : Jinv s p [] t0).
  { constructor.
    - apply coll_set_same.
    - intros p' x NE. unfold t0. rewrite coll_set_other_obj by exact NE. cbn. tauto.
    - intros x. reflexivity.
    - intros p' NE. unfold t0. rewrite coll_set_other_obj by exact NE. apply (o2m_nodup s I). }
  pose proof (Jfold s p vs I P vs [] t0 J0) as JF. cbn [app] in JF.
  assert (JV : Jinv s p vs (fold_left (stepAo s p vs) vs t0)).
  { apply JF; [|exact ND]. intros v Hv. split; [exact Hv|]. intros ->. contradiction. }
  clear JF. set (t1 := fold_left (stepAo s p vs) vs t0) in *.
  rewrite (bulk_removes_o2m p vs R t1 P ND NDR (J1 _ _ _ _ JV)).
  2:{ intros v Hv. apply INR in Hv. destruct Hv as [HO NV]. repeat split.
      - intros ->. apply (o2m_nonzero s I p HO).
      - exact NV.
      - rewrite (J3 _ _ _ _ JV). apply memb_false in NV. rewrite NV. cbn [andb].
        apply (o2m_agree s I p v). exact HO. }
  eexists. split; [reflexivity|].
  set (F := fold_left (fun t v => set_cell t SB v (CVal 0)) R t1).
  assert (FS : forall x, sb F x = if memb x R then CVal 0
                                 else if memb x vs && negb (memb x oldl) then CVal p else sb s x).
  { intros x. unfold F. rewrite fold_zero_sb. rewrite (J3 _ _ _ _ JV). reflexivity. }
  unfold old in FS. fold oldl in FS.
  assert (FC : forall p', coll_of F SA p' = coll_of t1 SA p') by (intros; apply fold_zero_coll).
  pose proof (J2 _ _ _ _ JV) as JV2. unfold old in JV2. fold oldl in JV2.
  constructor.
  - intros p' x. rewrite FS, FC. destruct (N.eq_dec p' p) as [->|NE].
    + rewrite (J1 _ _ _ _ JV). destruct (memb x R) eqn:MR.
      * apply memb_In in MR. apply INR in MR. split; [tauto|]. intros [_ K]. injection K as K. congruence.
      * apply memb_false in MR. destruct (memb x vs) eqn:MV.
        -- apply memb_In in MV. destruct (memb x oldl) eqn:MO; cbn [andb negb]; [|tauto].
           apply memb_In in MO. pose proof (proj1 (o2m_agree s I p x) MO). tauto.
        -- apply memb_false in MV. cbn [andb]. split; [tauto|]. intros [_ K].
           pose proof (proj2 (o2m_agree s I p x) (conj P K)) as K'. exfalso. apply MR. apply INR. tauto.
    + rewrite (JV2 p' x NE). destruct (memb x R) eqn:MR.
      * apply memb_In in MR. apply INR in MR. destruct MR as [HO NV]. split.
        -- intros [H _]. apply (o2m_agree s I) in H. apply (o2m_agree s I) in HO. destruct H, HO. congruence.
        -- intros [Z K]. injection K as K. congruence.
      * destruct (memb x vs && negb (memb x oldl)) eqn:Q.
        -- apply andb_true_iff in Q. destruct Q as [Q1 Q2]. apply memb_In in Q1. apply negb_true_iff in Q2.
           apply memb_false in Q2. split; [tauto|]. intros [_ K]. injection K as K. congruence.
        -- rewrite (o2m_agree s I p' x). split; [tauto|]. intros H. split; [exact H|].
           intros [H1 H2]. apply memb_In in H1. apply memb_false in H2. rewrite H1, H2 in Q. discriminate.
  - intros p'. rewrite FC. destruct (N.eq_dec p' p) as [->|NE]; [rewrite (J1 _ _ _ _ JV); exact ND|apply (J4 _ _ _ _ JV p' NE)].
  - intros p'. rewrite FC. destruct (N.eq_dec p' p) as [->|NE]; [rewrite (J1 _ _ _ _ JV); exact NZ|].
    intros H. apply (JV2 p' 0 NE) in H. destruct H as [H _]. apply (o2m_nonzero s I p' H).
  - intros x. cbn [cells]. rewrite FS. destruct (memb x R); [discriminate|].
    destruct (memb x vs && negb (memb x oldl)); [discriminate|]. apply (o2m_loaded s I).
Qed.
