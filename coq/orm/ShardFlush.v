(* C53 - what one flush does: invariant, routing of every statement, effect on every object *)
From Coq Require Import List ZArith NArith Bool Lia Permutation.
Import ListNotations.
From SAV.orm Require Import Shard ShardDb ShardInv.
Open Scope Z_scope.

Lemma Forall2_compose : forall {A} (R1 R2 R : A -> A -> Prop) a b c,
  (forall x y z, R1 x y -> R2 y z -> R x z) -> Forall2 R1 a b -> Forall2 R2 b c -> Forall2 R a c.
Proof.
  intros A R1 R2 R a b c HR H1. revert c. induction H1; intros c H2; inversion H2; subst; constructor; eauto.
Qed.
Lemma Forall2_in_r : forall {A} (R : A -> A -> Prop) l l' y,
  Forall2 R l l' -> In y l' -> exists x, In x l /\ R x y.
Proof.
  intros A R l l' y H. induction H; simpl; intros Hy; [tauto|].
  destruct Hy as [->|Hy]; [eauto|]. destruct (IHForall2 Hy) as [x0 [? ?]]. eauto.
Qed.
Lemma Forall2_nth : forall {A} (R : A -> A -> Prop) l l' o x,
  Forall2 R l l' -> nth_error l o = Some x -> exists y, nth_error l' o = Some y /\ R x y.
Proof.
  intros A R l l' o x H. revert o. induction H; intros [|o] Hn; simpl in *; try discriminate.
  - inversion Hn; subst. eauto.
  - eauto.
Qed.
Lemma Forall2_length' : forall {A} (R : A -> A -> Prop) l l', Forall2 R l l' -> length l = length l'.
Proof. intros A R l l' H. induction H; simpl; auto. Qed.

Section Flush.
  Variable sc : row -> N.

  (* effect of a flush on one object *)
  Definition frel (i i' : inst) : Prop :=
    match i_life i with
    | Pending => i' = mkInst (i_cur i) (i_cur i) Persistent (Some (target sc i))
    | _ => i_life i' = i_life i /\ i_tok i' = i_tok i /\ i_cur i' = i_cur i
    end.

  (* the object a statement was emitted for *)
  Definition just1 (i : inst) (w : write) : Prop :=
    match w with
    | WIns pre s r => i_life i = Pending /\ i_cur i = r /\ i_tok i = pre /\
                      s = match pre with Some t => t | None => sc r end
    | WUpd s r => i_life i = Persistent /\ i_tok i = Some s /\ i_cur i = r
    | WDel s k => i_life i = Persistent /\ i_tok i = Some s /\ r_pk (i_cur i) = k
    end.
  Definition justified (l : list inst) (w : write) : Prop := exists i, In i l /\ just1 i w.

  Definition r_upd (i i' : inst) : Prop :=
    i_life i' = i_life i /\ i_tok i' = i_tok i /\ i_cur i' = i_cur i /\
    (i_life i = Persistent -> i_tok i <> None -> i_cur i' = i_old i').
  Definition r_ins (i i' : inst) : Prop :=
    match i_life i with
    | Pending => i' = mkInst (i_cur i) (i_cur i) Persistent (Some (target sc i))
    | _ => i' = i
    end.

  Lemma flush_upd_cases : forall i d i' d' w, flush_upd i d = Ok (i', d', w) ->
    (i' = i /\ d' = d /\ w = [] /\
       (i_life i = Persistent -> i_tok i <> None -> i_cur i = i_old i)) \/
    (exists t, i_life i = Persistent /\ i_tok i = Some t /\
       i' = mkInst (i_cur i) (i_cur i) Persistent (Some t) /\
       d' = upd d t (sql_update (i_cur i) (d t)) /\ w = [WUpd t (i_cur i)]).
  Proof.
    intros i d i' d' w H. unfold flush_upd in H.
    destruct (i_life i) eqn:El; try (inversion H; subst; left; repeat split; auto; discriminate).
    destruct (i_tok i) as [t|] eqn:Et; [|inversion H; subst; left; repeat split; auto; congruence].
    destruct (row_eqb (i_cur i) (i_old i)) eqn:Er.
    - inversion H; subst. left. repeat split; auto. intros _ _. now apply row_eqb_eq.
    - inversion H; subst. right. exists t. repeat split; auto.
  Qed.

  Lemma flush_ins_cases : forall i d i' d' w, flush_ins sc i d = Ok (i', d', w) ->
    (i_life i <> Pending /\ i' = i /\ d' = d /\ w = []) \/
    (exists t', i_life i = Pending /\ sql_insert (i_cur i) (d (target sc i)) = Some t' /\
       i' = mkInst (i_cur i) (i_cur i) Persistent (Some (target sc i)) /\
       d' = upd d (target sc i) t' /\ w = [WIns (i_tok i) (target sc i) (i_cur i)]).
  Proof.
    intros i d i' d' w H. unfold flush_ins in H.
    destruct (i_life i) eqn:El; try (inversion H; subst; left; repeat split; auto; discriminate).
    destruct (sql_insert (i_cur i) (d (target sc i))) as [t'|] eqn:Es; [|discriminate].
    inversion H; subst. right. exists t'. repeat split; auto.
  Qed.

  Lemma flush_upd_inv : forall pre i post d i' d' w,
    Inv (pre ++ i :: post) d -> flush_upd i d = Ok (i', d', w) -> Inv (pre ++ i' :: post) d'.
  Proof.
    intros pre i post d i' d' w HI H. apply flush_upd_cases in H.
    destruct H as [[-> [-> _]]|[t [Hl [Ht [-> [-> _]]]]]]; auto. now apply inv_update.
  Qed.
  Lemma flush_ins_inv : forall pre i post d i' d' w,
    Inv (pre ++ i :: post) d -> flush_ins sc i d = Ok (i', d', w) -> Inv (pre ++ i' :: post) d'.
  Proof.
    intros pre i post d i' d' w HI H. apply flush_ins_cases in H.
    destruct H as [[_ [-> [-> _]]]|[t' [Hl [Hs [-> [-> _]]]]]]; auto. now apply inv_insert.
  Qed.

  Lemma flush_upd_rel : forall i d i' d' w, flush_upd i d = Ok (i', d', w) -> r_upd i i'.
  Proof.
    intros i d i' d' w H. apply flush_upd_cases in H. unfold r_upd.
    destruct H as [[-> [_ [_ Hc]]]|[t [Hl [Ht [-> _]]]]]; simpl; repeat split; auto.
  Qed.
  Lemma flush_ins_rel : forall i d i' d' w, flush_ins sc i d = Ok (i', d', w) -> r_ins i i'.
  Proof.
    intros i d i' d' w H. apply flush_ins_cases in H. unfold r_ins.
    destruct H as [[Hl [-> _]]|[t' [Hl [_ [-> _]]]]].
    - destruct (i_life i); auto. congruence.
    - now rewrite Hl.
  Qed.

  Lemma flush_upd_writes : forall i d i' d' w, flush_upd i d = Ok (i', d', w) -> apply_writes w d = Ok d'.
  Proof.
    intros i d i' d' w H. apply flush_upd_cases in H.
    destruct H as [[_ [-> [-> _]]]|[t [_ [_ [_ [-> ->]]]]]]; reflexivity.
  Qed.
  Lemma flush_ins_writes : forall i d i' d' w, flush_ins sc i d = Ok (i', d', w) -> apply_writes w d = Ok d'.
  Proof.
    intros i d i' d' w H. apply flush_ins_cases in H.
    destruct H as [[_ [_ [-> ->]]]|[t' [_ [Hs [_ [-> ->]]]]]]; [reflexivity|]. simpl. now rewrite Hs.
  Qed.

  Lemma flush_upd_just : forall i d i' d' w, flush_upd i d = Ok (i', d', w) -> Forall (just1 i) w.
  Proof.
    intros i d i' d' w H. apply flush_upd_cases in H.
    destruct H as [[_ [_ [-> _]]]|[t [Hl [Ht [_ [_ ->]]]]]]; constructor; simpl; auto.
  Qed.
  Lemma flush_ins_just : forall i d i' d' w, flush_ins sc i d = Ok (i', d', w) -> Forall (just1 i) w.
  Proof.
    intros i d i' d' w H. apply flush_ins_cases in H.
    destruct H as [[_ [_ [_ ->]]]|[t' [Hl [_ [_ [_ ->]]]]]]; [constructor|].
    constructor; [|constructor]. simpl. repeat split; auto.
  Qed.

  (* ---- the whole flush ---- *)
  Lemma flush_parts : forall st st', flush sc st = Ok st' ->
    exists l1 d1 w1 w2,
      pass flush_upd (insts st) (db st) = Ok (l1, d1, w1) /\
      pass (flush_ins sc) l1 d1 = Ok (insts st', db st', w2) /\
      wlog st' = wlog st ++ w1 ++ w2 /\ committed st' = committed st /\ rlog st' = rlog st.
  Proof.
    intros st st' H. unfold flush in H.
    destruct (pass flush_upd (insts st) (db st)) as [[[l1 d1] w1]|] eqn:E1; [|discriminate].
    destruct (pass (flush_ins sc) l1 d1) as [[[l2 d2] w2]|] eqn:E2; [|discriminate].
    inversion H; subst; simpl. exists l1, d1, w1, w2. auto.
  Qed.

  Lemma flush_inv : forall st st', flush sc st = Ok st' -> Inv (insts st) (db st) -> Inv (insts st') (db st').
  Proof.
    intros st st' H HI. destruct (flush_parts _ _ H) as [l1 [d1 [w1 [w2 [E1 [E2 _]]]]]].
    apply (pass_inv Inv (flush_ins sc) flush_ins_inv _ [] _ _ _ _) with (2 := E2). simpl.
    apply (pass_inv Inv flush_upd flush_upd_inv _ [] _ _ _ _) with (2 := E1). exact HI.
  Qed.

  Lemma flush_frel : forall st st', flush sc st = Ok st' -> Forall2 frel (insts st) (insts st').
  Proof.
    intros st st' H. destruct (flush_parts _ _ H) as [l1 [d1 [w1 [w2 [E1 [E2 _]]]]]].
    eapply Forall2_compose; [| eapply pass_rel; [apply flush_upd_rel | exact E1]
                             | eapply pass_rel; [apply flush_ins_rel | exact E2]].
    intros x y z [Hl [Ht [Hc _]]] Hz. unfold r_ins in Hz. unfold frel. rewrite <- Hl.
    destruct (i_life y) eqn:Ey.
    - subst z. unfold target. now rewrite Ht, Hc.
    - subst z. auto.
    - subst z. auto.
  Qed.

  Lemma flush_clean : forall st st', flush sc st = Ok st' -> Inv (insts st) (db st) -> Forall clean (insts st').
  Proof.
    intros st st' H HI. destruct (flush_parts _ _ H) as [l1 [d1 [w1 [w2 [E1 [E2 _]]]]]].
    pose proof (pass_rel _ _ flush_upd_rel _ _ _ _ _ E1) as F1.
    pose proof (pass_rel _ _ flush_ins_rel _ _ _ _ _ E2) as F2.
    apply Forall_forall. intros z Hz.
    destruct (Forall2_in_r _ _ _ _ F2 Hz) as [y [Hy Ryz]].
    destruct (Forall2_in_r _ _ _ _ F1 Hy) as [x [Hx [Hl [Ht [Hc Ho]]]]].
    unfold r_ins in Ryz. unfold clean. destruct (i_life y) eqn:Ey.
    - subst z. simpl. split; [discriminate | auto].
    - subst z. rewrite Ey. split; [discriminate|]. intros _. apply Ho; [congruence|].
      destruct (inv_row _ _ HI x Hx) as [t [Hxt _]]; congruence.
    - subst z. rewrite Ey. split; discriminate.
  Qed.

  Lemma flush_log : forall st st', flush sc st = Ok st' ->
    exists delta, wlog st' = wlog st ++ delta /\ apply_writes delta (db st) = Ok (db st') /\
                  Forall (justified (insts st)) delta.
  Proof.
    intros st st' H. destruct (flush_parts _ _ H) as [l1 [d1 [w1 [w2 [E1 [E2 [Hw _]]]]]]].
    exists (w1 ++ w2). split; auto. split.
    - rewrite (apply_writes_app _ _ _ _ (pass_writes _ flush_upd_writes _ _ _ _ _ E1)).
      apply (pass_writes _ flush_ins_writes _ _ _ _ _ E2).
    - apply Forall_app. split.
      + apply (pass_just just1 _ flush_upd_just _ _ _ _ _ E1).
      + pose proof (pass_rel _ _ flush_upd_rel _ _ _ _ _ E1) as F1.
        eapply Forall_impl; [|apply (pass_just just1 _ flush_ins_just _ _ _ _ _ E2)].
        intros w [y [Hy Jy]]. destruct (Forall2_in_r _ _ _ _ F1 Hy) as [x [Hx [Hl [Ht [Hc _]]]]].
        exists x. split; auto. destruct w; simpl in *; rewrite <- Hl, <- Ht, <- Hc; exact Jy.
  Qed.
End Flush.
