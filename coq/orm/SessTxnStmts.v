(* C33 - the statements of one flush against the table: every object's row stays its own. *)
From Coq Require Import List ZArith Bool Arith Lia.
Import ListNotations.
From SAV.orm Require Import SessTxn SessTxnBase SessTxnSpec SessTxnInv SessTxnOps SessTxnRestore.
Open Scope nat_scope.

(* everything but the objects and the working table *)
Definition same_but_ow (s t : sess) : Prop :=
  eoc s = eoc t /\ nobj s = nobj t /\ snew s = snew t /\ sdel s = sdel t /\ stack s = stack t /\
  handles s = handles t /\ committed s = committed t /\ saves s = saves t /\ nfid s = nfid t.
Lemma sbo_refl : forall s, same_but_ow s s.
Proof. intros; repeat split. Qed.
Lemma sbo_trans : forall a b c, same_but_ow a b -> same_but_ow b c -> same_but_ow a c.
Proof. unfold same_but_ow. intros a b c H1 H2. intuition congruence. Qed.

(* what a load may do to an object: fill in unloaded values *)
Definition obj_le (x y : obj) : Prop :=      (* y is x, possibly with more values loaded *)
  okey y = okey x /\ oatt y = oatt x /\ odelf y = odelf x /\ oin y = oin x /\
  omod y = omod x /\ ocid y = ocid x /\ ocv y = ocv x /\
  (odid x <> None -> odid y = odid x) /\ (odv x <> None -> odv y = odv x).
Lemma obj_le_refl : forall x, obj_le x x.
Proof. intros; repeat split; auto. Qed.
Lemma obj_le_trans : forall x y z, obj_le x y -> obj_le y z -> obj_le x z.
Proof.
  unfold obj_le. intros x y z [A1 [A2 [A3 [A4 [A5 [A6 [A7 [A8 A9]]]]]]]] [B1 [B2 [B3 [B4 [B5 [B6 [B7 [B8 B9]]]]]]]].
  repeat split; try congruence.
  - intros H. rewrite <- (A8 H). apply B8. rewrite (A8 H). exact H.
  - intros H. rewrite <- (A9 H). apply B9. rewrite (A9 H). exact H.
Qed.

(* the object after load_row found the row (k, v) *)
Definition loaded (ob : obj) (k v : Z) : obj :=
  o_exp (o_dv (o_did ob (match ocid ob, odid ob with None, None => Some k | _, d => d end))
              (match ocv ob, odv ob with None, None => Some v | _, d => d end)) false.

Lemma loaded_le : forall ob k v, obj_le ob (loaded ob k v).
Proof.
  intros ob k v. unfold obj_le, loaded. cbn. repeat split; auto.
  - intros H. destruct (ocid ob), (odid ob); congruence.
  - intros H. destruct (ocv ob), (odv ob); congruence.
Qed.
Lemma loaded_VA : forall ob k v, VA ob k v -> VA (loaded ob k v) k v.
Proof.
  intros ob k v [V1 [V2 [V3 [V4 [V5 V6]]]]]. unfold VA, loaded. cbn.
  split; [|split; [|split; [|split; [|split]]]].
  - intros H. destruct (ocid ob) eqn:E1; [congruence|]. destruct (odid ob) eqn:E2; auto.
  - intros old H. destruct (V2 old H) as [A B]. split; auto. rewrite H. exact B.
  - intros H. destruct (ocv ob) eqn:E1; [congruence|]. destruct (odv ob) eqn:E2; auto.
  - intros old H. apply V4; auto.
  - intros H. destruct (ocv ob) eqn:E1; [|congruence]. apply V5. congruence.
  - exact V6.
Qed.
Lemma loaded_J : forall ob k v,
  ((odv ob = None -> odid ob = None) /\ (ocid ob <> None -> odid ob <> None) /\ (omod ob = false -> ocid ob = None /\ ocv ob = None)) ->
  (ocv ob <> None -> odv ob <> None) ->
  let x := loaded ob k v in
  (odv x = None -> odid x = None) /\ (ocid x <> None -> odid x <> None) /\ (omod x = false -> ocid x = None /\ ocv x = None).
Proof.
  intros ob k v [J1 [J2 J3]] Hcv. unfold loaded; cbn. split; [|split].
  - intros H. destruct (ocv ob) eqn:E1.
    + exfalso. apply Hcv; [discriminate|exact H].
    + destruct (odv ob); discriminate.
  - intros H. specialize (J2 H). destruct (ocid ob), (odid ob); congruence.
  - exact J3.
Qed.

Section Stmts.
  (* the state before the first statement, the frame and its snapshot *)
  Variables (s0 : sess) (g : ghost) (f : frame).
  Let n := nobj s0.
  Let W0 := work s0.
  Let sn := snew s0.
  Let sd := sdel s0.
  Hypothesis GC : GClean g.

  (* what survives a failing statement: only loads happened to the objects *)
  Record SigL (s : sess) : Prop := mkSigL {
    sl_rest : same_but_ow s s0;
    sl_good : Good (objs s) n W0 sn sd;
    sl_j : J (objs s) n;
    sl_rel : Rel g f (objs s) n sn sd W0;
    sl_le : forall x, obj_le (objs s0 x) (objs s x)
  }.

  (* ghost: where the row of each object currently is, and its value *)
  Record Sig (todo : list stmt) (s : sess) (rho : nat -> option Z) (rv : nat -> Z) : Prop := mkSig {
    sg_l : SigL s;
    sg_row : forall x p, rho x = Some p -> work s p = Some (rv x);
    sg_inj : forall x y p, rho x = Some p -> rho y = Some p -> x = y;
    sg_cover : forall p, work s p <> None ->
                 (exists x, rho x = Some p) \/
                 (work s p = W0 p /\ forall x, oin (objs s0 x) = true -> okey (objs s0 x) <> Some p);
    (* statements still to come find the object's row where the identity key says *)
    sg_todo_ud : forall o, In (SUpd o) todo \/ In (SDel o) todo ->
                   oin (objs s o) = true /\ exists k, okey (objs s o) = Some k /\ rho o = Some k /\ W0 k = Some (rv o);
    sg_todo_ins : forall o, In (SIns o) todo -> In o sn /\ rho o = None;
    (* objects whose row is placed: their loaded values describe it *)
    sg_vals : forall x p, rho x = Some p ->
                In (SUpd x) todo \/ In (SDel x) todo \/
                ((odid (objs s x) = None \/ odid (objs s x) = Some p) /\
                 (odv (objs s x) = None \/ odv (objs s x) = Some (rv x)));
    sg_dom : forall x, rho x <> None -> x < n /\ (oin (objs s x) = true \/ In x sn)
  }.

  Lemma sigl_n : forall s, SigL s -> nobj s = n /\ snew s = sn /\ sdel s = sd.
  Proof. intros s [[_ [A [B [C _]]]] _ _ _ _]. auto. Qed.

  (* a load of an object of the identity map whose row is still the original one *)
  Lemma load_step : forall s o k v, SigL s -> oin (objs s o) = true -> okey (objs s o) = Some k ->
    work s k = Some v -> W0 k = Some v ->
    exists s1, load_in_flush o s = (Ok, s1) /\ objs s1 = updN (objs s) o (loaded (objs s o) k v) /\
               work s1 = work s /\ same_but_ow s1 s /\ SigL s1.
  Proof.
    intros s o k v L Hin Hk Hw Hw0. destruct L as [L1 L2 L3 L4 L5].
    destruct (g_in _ _ _ _ _ L2 o Hin) as [Hn [Ha [Hd _]]].
    unfold load_in_flush. rewrite Ha. cbn [negb]. unfold load_row. rewrite Hk, Hw.
    eexists. split; [reflexivity|]. split; [reflexivity|]. split; [reflexivity|]. split; [repeat split|].
    destruct (g_rows _ _ _ _ _ L2 o k Hin Hk) as [v' [Hv' Hva]].
    assert (v' = v) by congruence. subst v'.
    assert (SI : same_id (loaded (objs s o) k v) (objs s o)) by (repeat split).
    constructor.
    - eapply sbo_trans; [|exact L1]. repeat split.
    - cbn [objs set_obj set_objs]. apply Good_upd; auto.
      + intros _ k' v'' Hk' Hw'. assert (k' = k) by congruence. subst k'.
        assert (v'' = v) by congruence. subst v''. apply loaded_VA; auto.
      + intros _ _ X. unfold loaded in X. cbn in X. congruence.
    - cbn [objs set_obj set_objs]. apply J_upd; auto. apply loaded_J.
      + apply L3; auto.
      + destruct Hva as [_ [_ [_ [_ [V5 _]]]]]. exact V5.
    - cbn [objs set_obj set_objs]. eapply Rel_upd; eauto.
    - intros x. cbn [objs set_obj set_objs]. unfold updN. destruct (Nat.eqb_spec x o).
      + subst. eapply obj_le_trans; [apply L5|apply loaded_le].
      + apply L5.
  Qed.

  Definition upd {A} (r : nat -> A) (o : nat) (v : A) : nat -> A := fun x => if Nat.eqb x o then v else r x.
  Lemma upd_same : forall {A} (r : nat -> A) o v, upd r o v o = v.
  Proof. intros. unfold upd. rewrite Nat.eqb_refl. reflexivity. Qed.
  Lemma upd_other : forall {A} (r : nat -> A) o v x, x <> o -> upd r o v x = r x.
  Proof. intros. unfold upd. destruct (Nat.eqb_spec x o); congruence. Qed.

  (* the UPDATE of [o] *)
  Lemma update_step : forall todo s rho rv o r s',
    Sig (SUpd o :: todo) s rho rv -> ~ In (SUpd o) todo -> ~ In (SDel o) todo ->
    do_update o s = (r, s') -> r <> Unmodelled ->
    (r = Ok -> exists rho' rv', Sig todo s' rho' rv' /\
                 (forall x, x <> o -> rho' x = rho x /\ rv' x = rv x /\ objs s' x = objs s x) /\ rho' o <> None) /\
    (r <> Ok -> SigL s').
  Proof.
    intros todo s rho rv o r s' S Hnu Hnd H Hr.
    destruct S as [L Srow Sinj Scov Sud Sins Svals Sdom].
    destruct (Sud o (or_introl (or_introl eq_refl))) as [Hin [k [Hk [Hrho Hw0]]]].
    pose proof (Srow o k Hrho) as Hwk.
    destruct (g_rows _ _ _ _ _ (sl_good _ L) o k Hin Hk) as [v' [Hv' Hva]].
    assert (v' = rv o) by congruence. subst v'.
    (* statements still to come concern other objects *)
    assert (Hsub : forall x, In (SUpd x) todo \/ In (SDel x) todo -> x <> o).
    { intros x [X|X] E; subst; contradiction. }
    unfold do_update in H.
    destruct (negb (upd_sets_id (objs s o) || upd_sets_v (objs s o))) eqn:Esets.
    - (* nothing to write: the row stays *)
      inversion H; subst s' r. split; [|congruence]. intros _.
      exists rho, rv. split; [|split; [auto|congruence]].
      apply negb_true_iff in Esets. apply orb_false_elim in Esets. destruct Esets as [E1 E2].
      constructor; auto.
      + intros x Hx. apply Sud. destruct Hx; [left; right; auto|right; right; auto].
      + intros x Hx. apply Sins. right; auto.
      + intros x p Hp. destruct (Nat.eqb_spec x o).
        * subst x. right; right. assert (p = k) by congruence. subst p.
          destruct Hva as [V1 [V2 [V3 [V4 [V5 V6]]]]].
          split.
          -- unfold upd_sets_id in E1. destruct (ocid (objs s o)) as [old|] eqn:Ec; [|auto].
             destruct (V2 old eq_refl) as [A B]. subst old.
             destruct (odid (objs s o)) as [d|] eqn:Ed; [|congruence].
             apply negb_false_iff in E1. apply Z.eqb_eq in E1. subst. auto.
          -- unfold upd_sets_v in E2. destruct (ocv (objs s o)) as [[old|]|] eqn:Ec; [| |auto].
             ++ destruct (odv (objs s o)) as [d|] eqn:Ed; [|discriminate].
                apply negb_false_iff in E2. apply Z.eqb_eq in E2. subst. rewrite (V4 d eq_refl). auto.
             ++ discriminate.
        * destruct (Svals x p Hp) as [X|[X|X]]; auto.
          -- destruct X; [congruence|auto].
          -- destruct X; [congruence|auto].
    - (* an UPDATE is emitted *)
      apply negb_false_iff in Esets.
      (* the load of an expired primary key *)
      assert (HL : exists s1, (if needs_pk_load (objs s o) then load_in_flush o s else (Ok, s)) = (Ok, s1) /\
                   SigL s1 /\ work s1 = work s /\ same_but_ow s1 s /\
                   (forall x, x <> o -> objs s1 x = objs s x) /\ obj_le (objs s o) (objs s1 o) /\
                   (needs_pk_load (objs s o) = true -> odid (objs s1 o) = Some k) /\
                   (needs_pk_load (objs s o) = false -> objs s1 o = objs s o)).
      { destruct (needs_pk_load (objs s o)) eqn:En.
        - destruct (load_step s o k (rv o) L Hin Hk Hwk Hw0) as [s1 [A [B [C [D E]]]]].
          exists s1. split; [exact A|]. split; [exact E|]. split; [exact C|]. split; [exact D|].
          split; [|split; [|split]].
          + intros x Hx. rewrite B. apply updN_other; auto.
          + rewrite B, updN_same. apply loaded_le.
          + intros _. rewrite B, updN_same. unfold needs_pk_load in En. unfold loaded. cbn.
            destruct (ocid (objs s o)), (odid (objs s o)); try discriminate. reflexivity.
          + intros X; discriminate.
        - exists s. split; [reflexivity|]. split; [exact L|]. split; [reflexivity|]. split; [apply sbo_refl|].
          split; [auto|]. split; [apply obj_le_refl|]. split; [intros X; discriminate|auto]. }
      destruct HL as [s1 [HL1 [L1 [HW1 [HS1 [HO1 [HLE [HD1 HD2]]]]]]]].
      rewrite HL1 in H.
      set (ob1 := objs s1 o) in *.
      destruct HLE as [Q1 [Q2 [Q3 [Q4 [Q5 [Q6 [Q7 [Q8 Q9]]]]]]]].
      fold ob1 in Q1, Q2, Q3, Q4, Q5, Q6, Q7, Q8, Q9.
      assert (Hin1 : oin ob1 = true) by congruence.
      assert (Hk1 : okey ob1 = Some k) by congruence.
      destruct (g_rows _ _ _ _ _ (sl_good _ L1) o k Hin1 Hk1) as [v1 [Hv1 Hva1]].
      assert (v1 = rv o) by congruence. subst v1.
      destruct Hva1 as [V1 [V2 [V3 [V4 [V5 V6]]]]].
      assert (Hwh : where_pk ob1 = Some k).
      { unfold where_pk. destruct (ocid ob1) as [old|] eqn:Ec.
        - destruct (V2 old Ec). congruence.
        - destruct (V1 Ec) as [X|X]; auto. exfalso.
          destruct (needs_pk_load (objs s o)) eqn:En.
          + pose proof (HD1 eq_refl) as Y. unfold ob1 in Y. congruence.
          + pose proof (HD2 eq_refl) as Y. unfold ob1 in Y, Ec. rewrite Y in X, Ec.
            unfold needs_pk_load in En. rewrite Ec, X in En. discriminate. }
      rewrite Hwh in H. rewrite HW1, Hwk in H.
      destruct (upd_sets_v (objs s o) && match odv ob1 with None => true | Some _ => false end) eqn:Eu;
        [inversion H; subst; congruence|].
      set (newpk := if upd_sets_id (objs s o) then match odid ob1 with Some x => x | None => k end else k) in *.
      set (newv := if upd_sets_v (objs s o) then match odv ob1 with Some x => x | None => rv o end else rv o) in *.
      destruct (negb (Z.eqb newpk k) && match work s newpk with Some _ => true | None => false end) eqn:Ei.
      { inversion H; subst s' r. split; [congruence|]. intros _. exact L1. }
      inversion H; subst s' r. split; [|congruence]. intros _.
      (* the new primary key is free, or is the old one *)
      assert (Hfree : newpk = k \/ work s newpk = None).
      { destruct (Z.eqb_spec newpk k); auto. cbn in Ei. destruct (work s newpk); [discriminate|auto]. }
      exists (upd rho o (Some newpk)), (upd rv o newv).
      split; [|split; [intros x Hx; rewrite !upd_other by auto; cbn [objs set_work set_db]; rewrite HO1 by auto; auto|rewrite upd_same; discriminate]].
      assert (Hoth : forall x p, x <> o -> rho x = Some p -> p <> k /\ p <> newpk).
      { intros x p Hx Hp. split.
        - intros E. subst p. apply Hx. eapply Sinj; eauto.
        - intros E. subst p. destruct Hfree as [Hf|Hf].
          + rewrite Hf in Hp. apply Hx. eapply Sinj; eauto.
          + rewrite (Srow x newpk Hp) in Hf. discriminate. }
      constructor.
      + (* SigL: only the table changed *)
        destruct L1 as [A1 A2 A3 A4 A5]. constructor; auto.
      + intros x p Hp. cbn [work set_work set_db]. destruct (Nat.eqb_spec x o).
        * subst x. rewrite upd_same in Hp. inversion Hp; subst p. rewrite upd_same. apply updZ_same.
        * rewrite upd_other in Hp by auto. rewrite upd_other by auto.
          destruct (Hoth x p n0 Hp) as [P1 P2].
          rewrite updZ_other by auto. rewrite updZ_other by auto. apply Srow; auto.
      + intros x y p Hx Hy. destruct (Nat.eqb_spec x o), (Nat.eqb_spec y o); subst; auto.
        * rewrite upd_same in Hx. rewrite upd_other in Hy by auto. inversion Hx; subst p.
          destruct (Hoth y newpk n0 Hy) as [_ X]. congruence.
        * rewrite upd_same in Hy. rewrite upd_other in Hx by auto. inversion Hy; subst p.
          destruct (Hoth x newpk n0 Hx) as [_ X]. congruence.
        * rewrite upd_other in Hx, Hy by auto. eapply Sinj; eauto.
      + intros p Hp. cbn [work set_work set_db] in *.
        destruct (Z.eqb_spec p newpk).
        * subst p. left. exists o. apply upd_same.
        * rewrite updZ_other in Hp by auto. rewrite updZ_other by auto.
          destruct (Z.eqb_spec p k).
          -- subst p. rewrite updZ_same in Hp. congruence.
          -- rewrite updZ_other in Hp by auto. rewrite updZ_other by auto.
             destruct (Scov p Hp) as [[x Hx]|X]; [|right; exact X].
             left. exists x. rewrite upd_other; auto. intros E; subst x. congruence.
      + intros x Hx. assert (x <> o) by (apply Hsub; auto).
        destruct (Sud x) as [A [k' [B [C D]]]]; [destruct Hx; [left; right; auto|right; right; auto]|].
        cbn [objs set_work set_db]. rewrite HO1 by auto. split; auto. exists k'. rewrite !upd_other by auto. auto.
      + intros x Hx. destruct (Sins x (or_intror Hx)) as [A B]. split; auto.
        rewrite upd_other; auto. intros E; subst x. congruence.
      + intros x p Hp. destruct (Nat.eqb_spec x o).
        * subst x. rewrite upd_same in Hp. inversion Hp; subst p. right; right.
          cbn [objs set_work set_db]. fold ob1. rewrite upd_same. unfold newpk, newv.
          split.
          -- destruct (upd_sets_id (objs s o)) eqn:Eid.
             ++ destruct (odid ob1); auto.
             ++ unfold upd_sets_id in Eid. rewrite <- Q6 in Eid. destruct (ocid ob1) as [old|] eqn:Ec.
                ** destruct (V2 old Ec) as [A B]. subst old.
                   destruct (odid (objs s o)) as [d|] eqn:Ed.
                   --- apply negb_false_iff in Eid. apply Z.eqb_eq in Eid. subst d.
                       rewrite Q8 by discriminate. auto.
                   --- exfalso. destruct (g_in _ _ _ _ _ (sl_good _ L) o Hin) as [Hlt _].
                       destruct (sl_j _ L o Hlt) as [_ [J2 _]]. apply J2; [rewrite <- Q6; discriminate|exact Ed].
                ** destruct (V1 Ec); auto.
          -- destruct (upd_sets_v (objs s o)) eqn:Ev.
             ++ destruct (odv ob1); auto.
             ++ unfold upd_sets_v in Ev. rewrite <- Q7 in Ev. destruct (ocv ob1) as [[old|]|] eqn:Ec.
                ** destruct (odv (objs s o)) as [d|] eqn:Ed; [|discriminate].
                   apply negb_false_iff in Ev. apply Z.eqb_eq in Ev. subst d.
                   rewrite Q9 by discriminate. rewrite (V4 old Ec). auto.
                ** discriminate.
                ** apply (V3 Ec).
        * rewrite upd_other in Hp by auto. rewrite upd_other by auto.
          cbn [objs set_work set_db]. rewrite HO1 by auto.
          destruct (Svals x p Hp) as [X|[X|X]]; auto.
          -- destruct X; [congruence|auto].
          -- destruct X; [congruence|auto].
      + intros x Hx. cbn [objs set_work set_db]. destruct (Nat.eqb_spec x o).
        * subst x. fold ob1. destruct (g_in _ _ _ _ _ (sl_good _ L1) o Hin1) as [A _]. split; auto.
        * rewrite upd_other in Hx by auto. rewrite HO1 by auto. apply Sdom; auto.
  Qed.

  (* the INSERT of the pending object [o] *)
  Lemma insert_step : forall todo s rho rv o r s',
    Sig (SIns o :: todo) s rho rv -> ~ In (SIns o) todo ->
    do_insert o s = (r, s') -> r <> Unmodelled ->
    (r = Ok -> exists rho' rv', Sig todo s' rho' rv' /\
                 (forall x, x <> o -> rho' x = rho x /\ rv' x = rv x /\ objs s' x = objs s x) /\ rho' o <> None) /\
    (r <> Ok -> SigL s').
  Proof.
    intros todo s rho rv o r s' S Hni H Hr.
    destruct S as [L Srow Sinj Scov Sud Sins Svals Sdom].
    destruct (Sins o (or_introl eq_refl)) as [Hsn Hrho].
    unfold do_insert in H.
    destruct (odid (objs s o)) as [pk|] eqn:Ed; [|inversion H; subst; congruence].
    destruct (odv (objs s o)) as [v|] eqn:Ev; [|inversion H; subst; congruence].
    destruct (work s pk) eqn:Ew.
    { inversion H; subst s' r. split; [congruence|]. intros _. exact L. }
    inversion H; subst s' r. split; [|congruence]. intros _.
    exists (upd rho o (Some pk)), (upd rv o v).
    split; [|split; [intros x Hx; rewrite !upd_other by auto; auto|rewrite upd_same; discriminate]].
    assert (Hoth : forall x p, rho x = Some p -> p <> pk).
    { intros x p Hp E. subst p. rewrite (Srow x pk Hp) in Ew. discriminate. }
    assert (Hpend : oin (objs s o) = false /\ o < n).
    { destruct (sigl_n s L) as [N1 [N2 N3]].
      apply (g_new _ _ _ _ _ (sl_good _ L)) in Hsn. destruct Hsn as [A [B C]]. split; auto.
      destruct (oin (objs s o)) eqn:E; auto. destruct (g_in _ _ _ _ _ (sl_good _ L) o E) as [_ [_ [_ X]]]. congruence. }
    constructor.
    - destruct L as [A1 A2 A3 A4 A5]. constructor; auto.
    - intros x p Hp. cbn [work set_work set_db]. destruct (Nat.eqb_spec x o).
      + subst x. rewrite upd_same in Hp. inversion Hp; subst p. rewrite upd_same. apply updZ_same.
      + rewrite upd_other in Hp by auto. rewrite upd_other by auto.
        rewrite updZ_other by (eapply Hoth; eauto). apply Srow; auto.
    - intros x y p Hx Hy. destruct (Nat.eqb_spec x o), (Nat.eqb_spec y o); subst; auto.
      + rewrite upd_same in Hx. rewrite upd_other in Hy by auto. inversion Hx; subst p.
        exfalso. eapply Hoth; eauto.
      + rewrite upd_same in Hy. rewrite upd_other in Hx by auto. inversion Hy; subst p.
        exfalso. eapply Hoth; eauto.
      + rewrite upd_other in Hx, Hy by auto. eapply Sinj; eauto.
    - intros p Hp. cbn [work set_work set_db] in *. destruct (Z.eqb_spec p pk).
      + subst p. left. exists o. apply upd_same.
      + rewrite updZ_other in Hp by auto. rewrite updZ_other by auto.
        destruct (Scov p Hp) as [[x Hx]|X]; [|right; exact X].
        left. exists x. rewrite upd_other; auto. intros E; subst x. congruence.
    - intros x Hx.
      destruct (Sud x) as [A [k' [B [C D]]]]; [destruct Hx; [left; right; auto|right; right; auto]|].
      assert (x <> o). { intros E; subst x. destruct Hpend. congruence. }
      cbn [objs set_work set_db]. split; auto. exists k'. rewrite !upd_other by auto. auto.
    - intros x Hx. destruct (Sins x (or_intror Hx)) as [A B]. split; auto.
      rewrite upd_other; auto. intros E; subst x. contradiction.
    - intros x p Hp. cbn [objs set_work set_db]. destruct (Nat.eqb_spec x o).
      + subst x. rewrite upd_same in Hp. inversion Hp; subst p. right; right. rewrite upd_same.
        rewrite Ed, Ev. auto.
      + rewrite upd_other in Hp by auto. rewrite upd_other by auto.
        destruct (Svals x p Hp) as [X|[X|X]]; auto.
        * destruct X; [discriminate|auto].
        * destruct X; [discriminate|auto].
    - intros x Hx. cbn [objs set_work set_db]. destruct (Nat.eqb_spec x o).
      + subst x. destruct Hpend. split; auto.
      + rewrite upd_other in Hx by auto. apply Sdom; auto.
  Qed.

  (* the DELETE of [o] *)
  Lemma delete_step : forall todo s rho rv o r s',
    Sig (SDel o :: todo) s rho rv -> ~ In (SUpd o) todo -> ~ In (SDel o) todo ->
    do_delete o s = (r, s') -> r <> Unmodelled ->
    (r = Ok -> exists rho' rv', Sig todo s' rho' rv' /\
                 (forall x, x <> o -> rho' x = rho x /\ rv' x = rv x /\ objs s' x = objs s x) /\ rho' o = None /\
                 odid (objs s' o) <> None /\ odv (objs s' o) <> None) /\
    (r <> Ok -> SigL s').
  Proof.
    intros todo s rho rv o r s' S Hnu Hnd H Hr.
    destruct S as [L Srow Sinj Scov Sud Sins Svals Sdom].
    destruct (Sud o (or_intror (or_introl eq_refl))) as [Hin [k [Hk [Hrho Hw0]]]].
    pose proof (Srow o k Hrho) as Hwk.
    assert (Hsub : forall x, In (SUpd x) todo \/ In (SDel x) todo -> x <> o).
    { intros x [X|X] E; subst; contradiction. }
    unfold do_delete in H.
    assert (HL : exists s1, (if needs_pk_load (objs s o) then load_in_flush o s else (Ok, s)) = (Ok, s1) /\
                 SigL s1 /\ work s1 = work s /\
                 (forall x, x <> o -> objs s1 x = objs s x) /\ obj_le (objs s o) (objs s1 o) /\
                 (needs_pk_load (objs s o) = true -> objs s1 o = loaded (objs s o) k (rv o)) /\
                 (needs_pk_load (objs s o) = false -> objs s1 o = objs s o)).
    { destruct (needs_pk_load (objs s o)) eqn:En.
      - destruct (load_step s o k (rv o) L Hin Hk Hwk Hw0) as [s1 [A [B [C [D E]]]]].
        exists s1. split; [exact A|]. split; [exact E|]. split; [exact C|].
        split; [|split; [|split]].
        + intros x Hx. rewrite B. apply updN_other; auto.
        + rewrite B, updN_same. apply loaded_le.
        + intros _. rewrite B, updN_same. reflexivity.
        + intros X; discriminate.
      - exists s. split; [reflexivity|]. split; [exact L|]. split; [reflexivity|].
        split; [auto|]. split; [apply obj_le_refl|]. split; [intros X; discriminate|auto]. }
    destruct HL as [s1 [HL1 [L1 [HW1 [HO1 [HLE [HD1 HD2]]]]]]].
    rewrite HL1 in H.
    destruct HLE as [Q1 [Q2 [Q3 [Q4 [Q5 [Q6 [Q7 [Q8 Q9]]]]]]]].
    assert (Hin1 : oin (objs s1 o) = true) by congruence.
    assert (Hk1 : okey (objs s1 o) = Some k) by congruence.
    destruct (g_rows _ _ _ _ _ (sl_good _ L1) o k Hin1 Hk1) as [v1 [Hv1 Hva1]].
    destruct Hva1 as [V1 [V2 [V3 [V4 [V5 V6]]]]].
    assert (Hwh : where_pk (objs s1 o) = Some k /\ odid (objs s1 o) <> None /\ odv (objs s1 o) <> None).
    { destruct (needs_pk_load (objs s o)) eqn:En.
      - rewrite (HD1 eq_refl). unfold needs_pk_load in En. unfold where_pk, loaded. cbn.
        destruct (ocid (objs s o)) eqn:E1; [discriminate|]. destruct (odid (objs s o)) eqn:E2; [discriminate|].
        split; [reflexivity|]. split; [discriminate|].
        destruct (ocv (objs s o)) eqn:E3.
        + destruct (g_rows _ _ _ _ _ (sl_good _ L) o k Hin Hk) as [v0 [_ [_ [_ [_ [_ [X _]]]]]]]. apply X. congruence.
        + destruct (odv (objs s o)); discriminate.
      - rewrite (HD2 eq_refl). unfold needs_pk_load in En.
        destruct (g_in _ _ _ _ _ (sl_good _ L) o Hin) as [Hlt _].
        destruct (sl_j _ L o Hlt) as [J1 [J2 J3]].
        destruct (g_rows _ _ _ _ _ (sl_good _ L) o k Hin Hk) as [v0 [_ [U1 [U2 _]]]].
        unfold where_pk. destruct (ocid (objs s o)) as [old|] eqn:E1.
        + destruct (U2 old eq_refl) as [A B]. subst old. split; [reflexivity|]. split; [exact B|].
          intros X. apply B. apply J1. exact X.
        + destruct (odid (objs s o)) as [d|] eqn:E2; [|discriminate].
          destruct (U1 eq_refl) as [X|X]; [discriminate|]. split; [congruence|]. split; [discriminate|].
          intros X'. specialize (J1 X'). congruence. }
    destruct Hwh as [Hwh [Hdid Hdv]]. rewrite Hwh in H.
    inversion H; subst s' r. split; [|congruence]. intros _.
    exists (upd rho o None), rv.
    split; [|split; [intros x Hx; rewrite !upd_other by auto; cbn [objs set_work set_db]; rewrite HO1 by auto; auto|split; [apply upd_same|auto]]].
    assert (Hoth : forall x p, x <> o -> rho x = Some p -> p <> k).
    { intros x p Hx Hp E. subst p. apply Hx. eapply Sinj; eauto. }
    constructor.
    - destruct L1 as [A1 A2 A3 A4 A5]. constructor; auto.
    - intros x p Hp. cbn [work set_work set_db]. destruct (Nat.eqb_spec x o).
      + subst x. rewrite upd_same in Hp. discriminate.
      + rewrite upd_other in Hp by auto. rewrite HW1.
        rewrite updZ_other by (eapply Hoth; eauto). apply Srow; auto.
    - intros x y p Hx Hy. destruct (Nat.eqb_spec x o), (Nat.eqb_spec y o); subst; auto.
      + rewrite upd_same in Hx. discriminate.
      + rewrite upd_same in Hy. discriminate.
      + rewrite upd_other in Hx, Hy by auto. eapply Sinj; eauto.
    - intros p Hp. cbn [work set_work set_db] in *. rewrite HW1 in *. destruct (Z.eqb_spec p k).
      + subst p. rewrite updZ_same in Hp. congruence.
      + rewrite updZ_other in Hp by auto. rewrite updZ_other by auto.
        destruct (Scov p Hp) as [[x Hx]|X]; [|right; exact X].
        left. exists x. rewrite upd_other; auto. intros E; subst x. congruence.
    - intros x Hx. assert (x <> o) by (apply Hsub; auto).
      destruct (Sud x) as [A [k' [B [C D]]]]; [destruct Hx; [left; right; auto|right; right; auto]|].
      cbn [objs set_work set_db]. rewrite HO1 by auto. split; auto. exists k'. rewrite !upd_other by auto. auto.
    - intros x Hx. destruct (Sins x (or_intror Hx)) as [A B]. split; auto.
      rewrite upd_other; auto. intros E; subst x. congruence.
    - intros x p Hp. destruct (Nat.eqb_spec x o).
      + subst x. rewrite upd_same in Hp. discriminate.
      + rewrite upd_other in Hp by auto. cbn [objs set_work set_db]. rewrite HO1 by auto.
        destruct (Svals x p Hp) as [X|[X|X]]; auto.
        * destruct X; [discriminate|auto].
        * destruct X; [congruence|auto].
    - intros x Hx. cbn [objs set_work set_db]. destruct (Nat.eqb_spec x o).
      + subst x. rewrite upd_same in Hx. congruence.
      + rewrite upd_other in Hx by auto. rewrite HO1 by auto. apply Sdom; auto.
  Qed.

  (* a statement list of one flush: no statement twice, no object both updated and deleted *)
  Definition WfL (l : list stmt) : Prop :=
    NoDup l /\ forall o, In (SUpd o) l -> ~ In (SDel o) l.
  Lemma WfL_tail : forall a l, WfL (a :: l) -> WfL l.
  Proof.
    intros a l [H1 H2]. split.
    - inversion H1; auto.
    - intros o Ho Hd. apply (H2 o); right; auto.
  Qed.

  Definition stmt_obj (a : stmt) : nat := match a with SUpd o | SIns o | SDel o => o end.

  Lemma stmt_step : forall a l s rho rv, Sig (a :: l) s rho rv -> WfL (a :: l) ->
    forall ra sa, do_stmt a s = (ra, sa) -> ra <> Unmodelled ->
                (ra = Ok -> exists rho1 rv1, Sig l sa rho1 rv1 /\
                    (forall x, x <> stmt_obj a -> rho1 x = rho x /\ rv1 x = rv x /\ objs sa x = objs s x) /\
                    (match a with SDel o => rho1 o = None /\ odid (objs sa o) <> None /\ odv (objs sa o) <> None
                                | _ => rho1 (stmt_obj a) <> None end)) /\
                (ra <> Ok -> SigL sa).
  Proof.
    intros a l s rho rv S W. assert (Wt := WfL_tail _ _ W). destruct W as [W1 W2].
    assert (Hna : ~ In a l) by (inversion W1; auto).
    intros ra sa Ha Hra. destruct a as [o|o|o]; cbn [do_stmt stmt_obj] in *.
        - destruct (update_step l s rho rv o ra sa S) as [A B]; auto;
            try (intros X; apply (W2 o); [left; auto|right; auto]);
            try (split; auto; intros E; destruct (A E) as [r1 [v1 [A1 [A2 A3]]]]; exists r1, v1; auto).
        - destruct (insert_step l s rho rv o ra sa S) as [A B]; auto;
            try (split; auto; intros E; destruct (A E) as [r1 [v1 [A1 [A2 A3]]]]; exists r1, v1; auto).
        - destruct (delete_step l s rho rv o ra sa S) as [A B]; auto;
            try (intros X; apply (W2 o); [right; auto|left; auto]);
            try (split; auto; intros E; destruct (A E) as [r1 [v1 [A1 [A2 A3]]]]; exists r1, v1; auto).
  Qed.

  (* a run that stops inside the list (C32: an injected failure) *)
  Lemma stmts_prefix : forall pre suf s rho rv r s',
    Sig (pre ++ suf) s rho rv -> WfL (pre ++ suf) -> foldM do_stmt pre s = (r, s') -> r <> Unmodelled -> SigL s'.
  Proof.
    induction pre as [|a pre IH]; intros suf s rho rv r s' S W H Hr.
    - inversion H; subst. exact (sg_l _ _ _ _ S).
    - cbn [foldM] in H. apply bind_inv in H. cbn [app] in S, W.
      destruct H as [[s1 [H1 H2]]|[H1 Hn]].
      + destruct (stmt_step a (pre ++ suf) s rho rv S W Ok s1 H1) as [A _]; [discriminate|].
        destruct (A eq_refl) as [rho1 [rv1 [S1 _]]].
        exact (IH suf s1 rho1 rv1 r s' S1 (WfL_tail _ _ W) H2 Hr).
      + destruct (stmt_step a (pre ++ suf) s rho rv S W r s' H1 Hr) as [_ B]. apply B. exact Hn.
  Qed.

  Lemma stmts_fold : forall l s rho rv r s',
    Sig l s rho rv -> WfL l -> foldM do_stmt l s = (r, s') -> r <> Unmodelled ->
    (r = Ok -> exists rho' rv', Sig [] s' rho' rv' /\
       (forall x, (forall a, In a l -> stmt_obj a <> x) -> rho' x = rho x /\ rv' x = rv x /\ objs s' x = objs s x) /\
       (forall x, In (SUpd x) l \/ In (SIns x) l -> rho' x <> None) /\
       (forall x, In (SDel x) l -> rho' x = None /\ odid (objs s' x) <> None /\ odv (objs s' x) <> None)) /\
    (r <> Ok -> SigL s').
  Proof.
    induction l as [|a l IH]; intros s rho rv r s' S W H Hr.
    - inversion H; subst. split; [|congruence]. intros _. exists rho, rv.
      split; auto. split; [auto|]. split; [intros x [[]|[]]|intros x []].
    - cbn [foldM] in H. apply bind_inv in H.
      assert (Wt := WfL_tail _ _ W). destruct W as [W1 W2].
      assert (Hna : ~ In a l) by (inversion W1; auto).
      (* one step *)
      assert (Step : forall ra sa, do_stmt a s = (ra, sa) -> ra <> Unmodelled ->
                (ra = Ok -> exists rho1 rv1, Sig l sa rho1 rv1 /\
                    (forall x, x <> stmt_obj a -> rho1 x = rho x /\ rv1 x = rv x /\ objs sa x = objs s x) /\
                    (match a with SDel o => rho1 o = None /\ odid (objs sa o) <> None /\ odv (objs sa o) <> None
                                | _ => rho1 (stmt_obj a) <> None end)) /\
                (ra <> Ok -> SigL sa)).
      { intros ra sa Ha Hra. destruct a as [o|o|o]; cbn [do_stmt stmt_obj] in *.
        - destruct (update_step l s rho rv o ra sa S) as [A B]; auto;
            try (intros X; apply (W2 o); [left; auto|right; auto]);
            try (split; auto; intros E; destruct (A E) as [r1 [v1 [A1 [A2 A3]]]]; exists r1, v1; auto).
        - destruct (insert_step l s rho rv o ra sa S) as [A B]; auto;
            try (split; auto; intros E; destruct (A E) as [r1 [v1 [A1 [A2 A3]]]]; exists r1, v1; auto).
        - destruct (delete_step l s rho rv o ra sa S) as [A B]; auto;
            try (intros X; apply (W2 o); [right; auto|left; auto]);
            try (split; auto; intros E; destruct (A E) as [r1 [v1 [A1 [A2 A3]]]]; exists r1, v1; auto). }
      destruct H as [[s1 [H1 H2]]|[H1 Hn]].
      + destruct (Step Ok s1 H1) as [A _]; [discriminate|].
        destruct (A eq_refl) as [rho1 [rv1 [S1 [O1 P1]]]].
        destruct (IH s1 rho1 rv1 r s' S1 Wt H2 Hr) as [B C]. split; auto.
        intros E. destruct (B E) as [rho' [rv' [S' [U1 [U2 U3]]]]].
        exists rho', rv'. split; auto. split; [|split].
        * intros x Hx. destruct (U1 x) as [X1 [X2 X3]]; [intros b Hb; apply Hx; right; auto|].
          destruct (O1 x) as [Y1 [Y2 Y3]]; [intros Z; apply (Hx a); [left; auto|auto]|].
          repeat split; congruence.
        * intros x [Hx|Hx].
          -- destruct Hx as [Hx|Hx]; [|apply U2; auto].
             subst a. cbn in P1.
             destruct (U1 x) as [X1 _]; [|congruence].
             intros b Hb Eb. destruct b as [o'|o'|o']; cbn in Eb; subst o'.
             ++ contradiction.
             ++ (* an insert of an updated object: impossible, it would be pending *)
                destruct (sg_todo_ins _ _ _ _ S1 x Hb) as [Q1 Q2]. congruence.
             ++ apply (W2 x); [left; auto|right; auto].
          -- destruct Hx as [Hx|Hx]; [|apply U2; auto].
             subst a. cbn in P1.
             destruct (U1 x) as [X1 _]; [|congruence].
             intros b Hb Eb. destruct b as [o'|o'|o']; cbn in Eb; subst o'.
             ++ destruct (sg_todo_ud _ _ _ _ S1 x (or_introl Hb)) as [Q1 _].
                destruct (sg_todo_ins _ _ _ _ S x (or_introl eq_refl)) as [Q2 _].
                destruct (sigl_n _ (sg_l _ _ _ _ S1)) as [N1 [N2 N3]].
                apply (g_new _ _ _ _ _ (sl_good _ (sg_l _ _ _ _ S1))) in Q2. destruct Q2 as [_ [Q2 _]].
                destruct (g_in _ _ _ _ _ (sl_good _ (sg_l _ _ _ _ S1)) x Q1) as [_ [_ [_ Q3]]]. congruence.
             ++ contradiction.
             ++ destruct (sg_todo_ud _ _ _ _ S1 x (or_intror Hb)) as [Q1 _].
                destruct (sg_todo_ins _ _ _ _ S x (or_introl eq_refl)) as [Q2 _].
                apply (g_new _ _ _ _ _ (sl_good _ (sg_l _ _ _ _ S1))) in Q2. destruct Q2 as [_ [Q2 _]].
                destruct (g_in _ _ _ _ _ (sl_good _ (sg_l _ _ _ _ S1)) x Q1) as [_ [_ [_ Q3]]]. congruence.
        * intros x [Hx|Hx]; [|apply U3; auto].
          subst a. cbn in P1. destruct P1 as [P1 [P2 P3]].
          destruct (U1 x) as [X1 [X2 X3]]; [|rewrite X1, X3; auto].
          intros b Hb Eb. destruct b as [o'|o'|o']; cbn in Eb; subst o'.
          -- apply (W2 x); [right; auto|left; auto].
          -- destruct (sg_todo_ins _ _ _ _ S1 x Hb) as [Q2 _].
             destruct (sg_todo_ud _ _ _ _ S x (or_intror (or_introl eq_refl))) as [Q1 _].
             apply (g_new _ _ _ _ _ (sl_good _ (sg_l _ _ _ _ S))) in Q2. destruct Q2 as [_ [Q2 _]].
             destruct (g_in _ _ _ _ _ (sl_good _ (sg_l _ _ _ _ S)) x Q1) as [_ [_ [_ Q3]]]. congruence.
          -- contradiction.
      + destruct (Step r s' H1 Hr) as [_ B]. split; [congruence|auto].
  Qed.
End Stmts.
