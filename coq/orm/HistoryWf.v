(* C36 - proofs, part 2: the invariant [wf] is preserved by every operation. *)
From Coq Require Import List NArith Bool Lia.
Import ListNotations.
From SAV.orm Require Import History HistorySpec HistoryProofs.
Open Scope N_scope.

Ltac dstate s := destruct s as [pe mo ex xd xc xe ide bdd bde bd bc cd cc dbx dbb dbc].

Ltac brk :=
  repeat match goal with
  | |- context [match ?x with _ => _ end] => destruct x eqn:?
  | H : context [match ?x with _ => _ end] |- _ => destruct x eqn:?
  end.

Ltac wfsolve :=
  repeat match goal with
  | H : wf _ |- _ => destruct H
  end;
  constructor; cbn in *; intros;
  repeat match goal with
  | H : _ /\ _ |- _ => destruct H
  | H : Some _ = Some _ |- _ => injection H as H; subst
  | H : CVal _ = CVal _ |- _ => injection H as H; subst
  end; subst;
  try discriminate; try congruence; auto;
  try solve [intuition (try discriminate; try congruence; eauto)].

Lemma load_expired_wf : forall p s, wf s -> wf (fst (load_expired p s)).
Proof.
  intros [co so io] s W. unfold load_expired. cbn [sql_ok].
  destruct so; cbn [negb fst]; [|exact W].
  dstate s. destruct W. cbn in *.
  destruct xe, xc, bde; cbn; constructor; cbn in *; intros;
    repeat match goal with
    | H : _ /\ _ |- _ => destruct H
    | H : Some _ = Some _ |- _ => injection H as H; subst
    end; subst; try discriminate; try congruence; auto;
    try solve [intuition (try discriminate; try congruence; eauto)].
Qed.

Ltac spec :=
  repeat match goal with
  | H : ?a = ?a -> _ |- _ => specialize (H eq_refl)
  | H : forall v, ?a = ?a -> _ |- _ =>
      let H' := fresh in pose proof (fun v => H v eq_refl) as H'; cbv beta in H'; clear H
  | H : forall v, Some ?x = Some v -> _ |- _ => specialize (H x eq_refl)
  | H : forall v, CVal ?x = CVal v -> _ |- _ => specialize (H x eq_refl)
  | H : _ /\ _ |- _ => destruct H
  end.
Ltac fin := try discriminate; try congruence; auto;
  try solve [intuition (try discriminate; try congruence; eauto)];
  try solve [spec; subst; try discriminate; try congruence; auto;
             intuition (try discriminate; try congruence; eauto)].

Lemma col_bid_wf : forall p s, wf s -> wf (fst (col_bid p s)).
Proof.
  intros p s W. unfold col_bid.
  destruct (bid_d s); [exact W|].
  destruct (negb (callables_ok p)); [exact W|].
  destruct (bid_e s).
  - pose proof (load_expired_wf p s W) as W1.
    destruct (load_expired p s) as [s1 r]. cbn [fst] in *. destruct r; exact W1.
  - destruct (init_ok p); exact W.
Qed.

Lemma col_bid_val : forall p s s1 v, wf s -> col_bid p s = (s1, GVal v) -> v = db_b s1.
Proof.
  intros p s s1 v W. unfold col_bid.
  destruct (bid_d s) eqn:D. { intros H; inversion H; subst; reflexivity. }
  destruct (negb (callables_ok p)). { discriminate. }
  destruct (bid_e s) eqn:E.
  - destruct (load_expired p s) as [s2 r]. destruct r; intros H; inversion H; subst; reflexivity.
  - destruct (init_ok p); [|discriminate]. intros H; inversion H; subst.
    symmetry. apply (wf_bid s1 W D E).
Qed.

Lemma col_bid_nv : forall p s s1, wf s -> col_bid p s = (s1, GNoValue) -> db_b s1 = 0.
Proof.
  intros p s s1 W. unfold col_bid.
  destruct (bid_d s) eqn:D. { discriminate. }
  destruct (negb (callables_ok p)). { discriminate. }
  destruct (bid_e s) eqn:E.
  - destruct (load_expired p s) as [s2 r]. destruct r; discriminate.
  - destruct (init_ok p); [discriminate|]. intros H; inversion H; subst. apply (wf_bid s1 W D E).
Qed.

Lemma commit_b_wf : forall s v, wf s -> v = db_b s -> wf (commit_b v s).
Proof. intros s v W ->. dstate s. unfold commit_b. wfsolve. Qed.

Lemma commit_c_wf : forall s, wf s -> wf (commit_c (db_c s) s).
Proof.
  intros s W. dstate s. unfold commit_c. wfsolve. unfold same_set; tauto.
Qed.

Lemma get_x_wf : forall p s, wf s -> wf (fst (get_x p s)).
Proof.
  intros p s W. unfold get_x, get.
  destruct (x_d s); [exact W|].
  assert (L : wf (fst (loader_x p s))).
  { unfold loader_x. destruct (x_e s); [apply load_expired_wf; exact W|exact W]. }
  assert (R : forall v, snd (loader_x p s) <> LVal v).
  { intros v. unfold loader_x, load_expired. destruct (x_e s); [|discriminate].
    destruct (negb (sql_ok p)); discriminate. }
  destruct (x_c s); try (destruct (init_ok p); exact W);
  (destruct (negb (callables_ok p)); [exact W|]);
  destruct (loader_x p s) as [s1 r]; cbn [fst snd] in *;
  destruct r; try exact L; try (destruct (x_d s1); exact L); try (destruct (init_ok p); exact L);
  exfalso; apply (R v); reflexivity.
Qed.

Lemma loader_b_wf : forall p s, wf s -> wf (fst (loader_b p s)).
Proof.
  intros p s W. unfold loader_b. destruct (negb (persistent s)); [exact W|].
  pose proof (col_bid_wf p s W). destruct (col_bid p s) as [s1 r]. destruct r; exact H.
Qed.

Lemma loader_b_val : forall p s s1 v, wf s -> loader_b p s = (s1, LVal v) -> v = db_b s1.
Proof.
  intros p s s1 v W. unfold loader_b. destruct (negb (persistent s)); [discriminate|].
  destruct (col_bid p s) as [s2 r] eqn:E. destruct r; try discriminate.
  intros H; inversion H; subst. eapply col_bid_val; eauto.
Qed.

Lemma loader_b_nv : forall p s s1, wf s -> loader_b p s = (s1, LNoValue) -> db_b s1 = 0.
Proof.
  intros p s s1 W. unfold loader_b. destruct (negb (persistent s)); [discriminate|].
  destruct (col_bid p s) as [s2 r] eqn:E. destruct r; try discriminate.
  intros H; inversion H; subst. eapply col_bid_nv; eauto.
Qed.

Lemma get_b_wf : forall p s, wf s -> wf (fst (get_b p s)).
Proof.
  intros p s W. unfold get_b, get.
  destruct (b_d s); [exact W|].
  pose proof (loader_b_wf p s W) as L.
  pose proof (loader_b_val p s) as V.
  destruct (b_c s); try (destruct (init_ok p); exact W);
  (destruct (negb (callables_ok p)); [exact W|]);
  destruct (loader_b p s) as [s1 r]; cbn [fst snd] in *;
  destruct r; try exact L; try (destruct (b_d s1); exact L); try (destruct (init_ok p); exact L);
  (apply commit_b_wf; [exact L|eapply V; eauto]).
Qed.

Lemma loader_c_wf : forall p s, wf s -> wf (fst (loader_c p s)).
Proof.
  intros p s W. unfold loader_c. destruct (negb (persistent s)); [exact W|].
  destruct (negb (sql_ok p)); [exact W|]. cbn [fst].
  destruct (id_e s); [apply load_expired_wf; exact W|exact W].
Qed.

Lemma loader_c_val : forall p s s1 l, loader_c p s = (s1, LVal l) -> l = db_c s1.
Proof.
  intros p s s1 l. unfold loader_c. destruct (negb (persistent s)); [discriminate|].
  destruct (negb (sql_ok p)); [discriminate|]. intros H; inversion H; subst. reflexivity.
Qed.

Lemma get_c_wf : forall p s, wf s -> wf (fst (get_c p s)).
Proof.
  intros p s W. unfold get_c, get.
  destruct (c_d s); [exact W|].
  pose proof (loader_c_wf p s W) as L.
  pose proof (loader_c_val p s) as V.
  destruct (c_c s); try (destruct (init_ok p); exact W);
  (destruct (negb (callables_ok p)); [exact W|]);
  destruct (loader_c p s) as [s1 r]; cbn [fst snd] in *;
  destruct r; try exact L; try (destruct (c_d s1); exact L); try (destruct (init_ok p); exact L);
  (rewrite (V s1 v eq_refl); apply commit_c_wf; exact L).
Qed.

(* ---------- scalar ---------- *)
Lemma set_x_wf : forall v s, wf s -> wf (fst (set_x v s)).
Proof.
  intros v s W. dstate s. unfold set_x, mod_x, old_plain. cbn.
  destruct xc, xd; cbn; wfsolve.
Qed.

Lemma del_x_wf : forall s, wf s -> wf (fst (del_x s)).
Proof.
  intros s W. unfold del_x.
  assert (wf (set_x_d None (mod_x (old_plain s) s))).
  { dstate s. unfold mod_x, old_plain. cbn. destruct xc, xd; cbn; wfsolve. }
  destruct (negb (is_some (x_d s)) && negb (expired s) && negb (x_e s)); [exact W|exact H].
Qed.

(* ---------- many-to-one ---------- *)
Ltac unf := unfold set_b, del_b, get_b, get_x, get_c, get, loader_b, loader_x, loader_c, col_bid, load_expired,
  mod_b, mod_x, mod_c, commit_b, commit_x, commit_c, comm_of_gres, P_NO_FETCH_NO_INIT, P_OFF, read in *.

Lemma set_b_wf : forall v s, wf s -> wf (fst (set_b v s)).
Proof.
  intros v s W. dstate s. unf. cbn.
  destruct bd, bc, pe, bdd, bde; cbn; wfsolve.
Qed.

Lemma del_b_wf : forall s, wf s -> wf (fst (del_b s)).
Proof.
  intros s W. dstate s. unf. cbn.
  destruct bd, bc, pe, bdd, bde; cbn; wfsolve.
Qed.

Lemma read_fst : forall A (f : A -> ret) (sr : st * gres A), fst (read f sr) = fst sr.
Proof. intros A f [s r]. unfold read. cbn. destruct r; reflexivity. Qed.

(* ---------- collection ---------- *)
Lemma same_set_refl : forall l, same_set l l.
Proof. unfold same_set; tauto. Qed.
#[export] Hint Resolve same_set_refl : core.

(* after reading a.cs the collection is absent from the dict only for a new object or when the
   attribute already has history *)
Lemma get_c_off_cases : forall s, wf s ->
  let s1 := fst (get_c P_OFF s) in
  (exists l, snd (get_c P_OFF s) = GVal l /\ (c_d s1 = Some l \/ (c_d s1 = None /\ l = []))) /\
  (c_d s1 = None -> c_c s1 = NoHist -> db_c s1 = []).
Proof.
  intros s W. dstate s. unf. cbn.
  destruct cd, cc, pe, ide; cbn; (split; [eexists; split; [reflexivity|]; auto|]); intros; fin;
    destruct W; cbn in *; fin.
Qed.

Lemma coll_touch_wf : forall s, wf s -> wf (fst (coll_touch s)).
Proof.
  intros s W. unfold coll_touch. destruct (c_d s); [exact W|].
  pose proof (get_c_wf P_OFF s W). destruct (get_c P_OFF s). exact H.
Qed.

Lemma coll_touch_ok : forall s, wf s -> snd (coll_touch s) = true.
Proof.
  intros s W. unfold coll_touch. destruct (c_d s); [reflexivity|].
  destruct (get_c_off_cases s W) as [[l [E _]] _]. destruct (get_c P_OFF s). cbn in *. rewrite E. reflexivity.
Qed.

Lemma coll_touch_none : forall s, wf s -> let s1 := fst (coll_touch s) in
  c_d s1 = None -> c_c s1 = NoHist -> db_c s1 = [].
Proof.
  intros s W. unfold coll_touch. destruct (c_d s) eqn:D; cbn. { congruence. }
  destruct (get_c_off_cases s W) as [_ H]. destruct (get_c P_OFF s). exact H.
Qed.

(* the event leaves a dirty collection attribute whose captured value is the database value *)
Lemma coll_event_wf : forall s, wf s -> (c_d s = None -> c_c s = NoHist -> db_c s = []) ->
  wf (coll_event s) /\ (exists l, c_d (coll_event s) = Some l /\ l = cur_coll s) /\
  (forall l', wf (set_c_d (Some l') (coll_event s))).
Proof.
  intros s W N. dstate s. unfold coll_event, mod_c, cur_coll in *. cbn in *.
  destruct cd, cc; cbn in *; (split; [|split; [eexists; split; reflexivity|intros l']]); wfsolve;
    try (rewrite N by reflexivity; auto).
Qed.

Lemma coll_event_idem_wf : forall s, wf s -> (c_d s = None -> c_c s = NoHist -> db_c s = []) ->
  forall l', wf (set_c_d (Some l') (coll_event (coll_event s))).
Proof.
  intros s W N. dstate s. unfold coll_event, mod_c, cur_coll in *. cbn in *.
  destruct cd, cc; cbn in *; intros l'; wfsolve; try (rewrite N by reflexivity; auto).
Qed.

Lemma c_add_wf : forall k o s, wf s -> wf (fst (c_add k o s)).
Proof.
  intros k o s W. unfold c_add.
  pose proof (coll_touch_wf s W) as W1. pose proof (coll_touch_ok s W) as OK.
  pose proof (coll_touch_none s W) as N.
  destruct (coll_touch s) as [s1 ok]. cbn [fst snd] in *. subst ok. cbn [negb].
  destruct (coll_event_wf s1 W1 N) as [We [_ Ws]].
  destruct k.
  - apply Ws.
  - destruct (memb o (cur_coll s1)); [exact W1|apply Ws].
  - destruct (same_key o (cur_coll s1)); [apply coll_event_idem_wf; assumption|apply Ws].
Qed.

Lemma c_rem_wf : forall k o s, wf s -> wf (fst (c_rem k o s)).
Proof.
  intros k o s W. unfold c_rem.
  pose proof (coll_touch_wf s W) as W1. pose proof (coll_touch_ok s W) as OK.
  pose proof (coll_touch_none s W) as N.
  destruct (coll_touch s) as [s1 ok]. cbn [fst snd] in *. subst ok. cbn [negb].
  destruct (coll_event_wf s1 W1 N) as [We [_ Ws]].
  destruct k.
  - destruct (memb o (cur_coll s1)); [apply Ws|exact W1].
  - destruct (memb o (cur_coll s1)); [apply Ws|exact W1].
  - destruct (holder o (cur_coll s1)); [|exact W1]. destruct (v =? o); [apply Ws|exact W1].
Qed.

Lemma c_replace_wf : forall k l s, wf s -> wf (fst (c_replace k l s)).
Proof.
  intros k l s W. unfold c_replace.
  pose proof (get_c_wf P_OFF s W) as W1.
  destruct (get_c_off_cases s W) as [[old [E D]] N].
  destruct (get_c P_OFF s) as [s1 r]. cbn [fst snd] in *. subst r.
  dstate s1. unfold mod_c. cbn in *.
  destruct D as [D|[D ->]]; subst; destruct cc; cbn; wfsolve.
  rewrite N by reflexivity. auto.
Qed.

Lemma c_del_wf : forall s, wf s -> wf (fst (c_del s)).
Proof.
  intros s W. dstate s. unfold c_del, mod_c. cbn. destruct cd, cc; cbn; wfsolve.
Qed.

Lemma c_get_wf : forall s, wf s -> wf (fst (c_get s)).
Proof.
  intros s W. unfold c_get. pose proof (coll_touch_wf s W).
  destruct (coll_touch s) as [s1 ok]. destruct ok; exact H.
Qed.

Lemma expire_wf : forall s, wf s -> wf (fst (expire s)).
Proof.
  intros s W. dstate s. unfold expire. cbn. destruct pe, mo; cbn; wfsolve.
Qed.

(* ---------- flush ---------- *)
Lemma memb_In : forall o l, memb o l = true <-> In o l.
Proof.
  intros o l. unfold memb. rewrite existsb_exists. split.
  - intros [x [I E]]. apply N.eqb_eq in E. subst. exact I.
  - intros I. exists o. split; [exact I|apply N.eqb_refl].
Qed.

Lemma insert_uniq_In : forall x l o, In o (insert_uniq x l) <-> o = x \/ In o l.
Proof.
  intros x l o. induction l as [|y r IH]; cbn [insert_uniq].
  - cbn. intuition.
  - destruct (x =? y) eqn:E.
    + apply N.eqb_eq in E. subst. cbn. intuition.
    + destruct (x <? y); cbn; [intuition|]. rewrite IH. intuition.
Qed.

Lemma sort_uniq_In : forall l o, In o (sort_uniq l) <-> In o l.
Proof.
  intros l o. induction l as [|y r IH]; cbn [sort_uniq fold_right]; [tauto|].
  fold (sort_uniq r). rewrite insert_uniq_In, IH. cbn. intuition.
Qed.

Lemma sort_uniq_same : forall l, same_set (sort_uniq l) l.
Proof. intros l o. apply sort_uniq_In. Qed.

Lemma flush_dbc_In : forall s o, In o (flush_dbc s) <->
  (In o (db_c s) \/ In o (fst (fst (hist_c s)))) /\ ~ In o (snd (hist_c s)).
Proof.
  intros s o. unfold flush_dbc. destruct (hist_c s) as [[a u] d]. cbn [fst snd].
  rewrite sort_uniq_In, filter_In, in_app_iff, negb_true_iff.
  rewrite <- memb_In with (l := d). destruct (memb o d); intuition congruence.
Qed.

(* with the captured value equal (as a set) to the database, the flush leaves exactly the current
   members; a clean attribute leaves the database untouched; a removed attribute too (the defect) *)
Lemma flush_dbc_spec : forall s, wf s ->
  same_set (flush_dbc s)
    (match c_d s, c_c s with
     | Some l, CVal _ => l
     | Some l, CNoValue => l
     | _, _ => db_c s
     end).
Proof.
  intros s W o. rewrite flush_dbc_In, hist_c_eq.
  destruct (c_d s) as [l|] eqn:D; [|cbn; destruct (c_c s); tauto].
  destruct (c_c s) as [| | |p] eqn:C; cbn [from_collection fst snd].
  - cbn. tauto.
  - destruct (wf_c_kind s W) as [_ H]. rewrite (H C). cbn. tauto.
  - destruct (wf_c_kind s W) as [H _]. congruence.
  - pose proof (wf_c_comm s W p C o) as S.
    rewrite !filter_In, !negb_true_iff.
    rewrite <- S. rewrite <- !memb_In.
    destruct (memb o p), (memb o l); intuition congruence.
Qed.

Lemma finish_flush_wf : forall s,
  persistent s = true ->
  (forall v, x_d s = Some v -> v = db_x s) ->
  (forall v, b_d s = Some v -> v = db_b s) ->
  (forall l, c_d s = Some l -> same_set l (flush_dbc s)) ->
  (bid_d s = false -> bid_e s = false -> db_b s = 0) ->
  wf (finish_flush s).
Proof.
  intros s P X B C I. unfold finish_flush. generalize dependent (flush_dbc s). intros dbc' C.
  dstate s. cbn in *. destruct xd, bdd; cbn; constructor; cbn; intros; fin.
Qed.

Lemma flush_dbc_ext : forall s s', c_d s' = c_d s -> c_c s' = c_c s -> db_c s' = db_c s ->
  flush_dbc s' = flush_dbc s.
Proof. intros s s' D C B. unfold flush_dbc. rewrite !hist_c_eq, D, C, B. reflexivity. Qed.

Lemma flush_dbc_cur : forall s l, wf s -> c_d s = Some l -> same_set l (flush_dbc s).
Proof.
  intros s l W D o. rewrite (flush_dbc_spec s W o), D.
  destruct (c_c s) eqn:C; try tauto.
  - apply (wf_c_clean s W l C D).
  - destruct (wf_c_kind s W); congruence.
Qed.

(* what process_saves writes into bid agrees with the current value of b *)
Lemma sync_b_spec : forall s, wf s ->
  forall v, b_d s = Some v -> v = opt_or (sync_b s) (db_b s).
Proof.
  intros s W v D. unfold sync_b. rewrite hist_b_eq, D.
  destruct (b_c s) as [| | |p] eqn:C; unfold from_object; cbn.
  - eapply wf_b_clean; eauto.
  - reflexivity.
  - reflexivity.
  - destruct (v =? p) eqn:E.
    + apply N.eqb_eq in E. subst. cbn. eapply wf_b_comm; eauto.
    + destruct p; reflexivity.
Qed.

Lemma sync_b_none_db : forall s, wf s -> sync_b s = None -> b_c s = CNoValue \/ b_c s = NoHist \/ b_c s = CVal (db_b s).
Proof.
  intros s W. unfold sync_b. rewrite hist_b_eq.
  destruct (b_d s) as [v|] eqn:D, (b_c s) as [| | |p] eqn:C; unfold from_object; cbn; auto; try discriminate.
  - destruct (v =? p) eqn:E; [|destruct p; discriminate]. intros _. right; right.
    f_equal. eapply wf_b_comm; eauto.
  - destruct p; discriminate.
Qed.

Lemma insert_row_ok : forall nb s, wf s -> persistent s = false -> nb = sync_b s ->
  let s1 := insert_row nb s in
  persistent s1 = true /\
  (forall v, x_d s1 = Some v -> v = db_x s1) /\
  (forall v, b_d s1 = Some v -> v = db_b s1) /\
  (bid_d s1 = false -> bid_e s1 = false -> db_b s1 = 0) /\
  c_d s1 = c_d s /\ c_c s1 = c_c s /\ db_c s1 = db_c s.
Proof.
  intros nb s W P E. pose proof (sync_b_spec s W) as SB. rewrite <- E in SB. clear E.
  dstate s. destruct W. cbn in *. subst pe. repeat split; auto; intros.
  - destruct xd; cbn; congruence.
  - rewrite (SB v H). spec. subst. destruct nb; reflexivity.
  - destruct nb; cbn in *; [destruct bdd; discriminate|reflexivity].
Qed.

Lemma update_row_proj : forall nb s,
  let s1 := update_row nb s in
  persistent s1 = persistent s /\ b_d s1 = b_d s /\ db_b s1 = opt_or nb (db_b s) /\
  c_d s1 = c_d s /\ c_c s1 = c_c s /\ db_c s1 = db_c s /\ b_c s1 = b_c s /\ x_c s1 = x_c s /\
  db_x s1 = opt_or (upd_x s) (db_x s) /\ modified s1 = modified s.
Proof.
  intros nb s. dstate s. unfold update_row. cbn.
  destruct nb; cbn; repeat split;
  repeat match goal with |- context [if ?b then _ else _] => destruct b end; cbn;
  repeat match goal with |- context [match ?b with _ => _ end] => destruct b end; reflexivity.
Qed.

Lemma update_row_ok : forall nb s, wf s -> persistent s = true -> nb = sync_b s ->
  let s1 := update_row nb s in
  persistent s1 = true /\
  (forall v, x_d s1 = Some v -> v = db_x s1) /\
  (forall v, b_d s1 = Some v -> v = db_b s1) /\
  (bid_d s1 = false -> bid_e s1 = false -> db_b s1 = 0) /\
  c_d s1 = c_d s /\ c_c s1 = c_c s /\ db_c s1 = db_c s.
Proof.
  intros nb s W P E. pose proof (sync_b_spec s W) as SB. rewrite <- E in SB. clear E.
  destruct (update_row_proj nb s) as (P1 & BD & DB & CD & CC & DC & _).
  cbn zeta. repeat split; try congruence.
  - clear SB P1 BD DB CD CC DC. dstate s. destruct W. unfold update_row, upd_x. cbn in *. subst pe.
    destruct nb, xd as [v0|], xc as [| | |p], xe, ide, bdd, bde; cbn in *;
      try (destruct (v0 =? p) eqn:EE; [apply N.eqb_eq in EE|]);
      try (match goal with |- context [match ?q with 0 => _ | N.pos _ => _ end] => is_var q; destruct q end); cbn;
      try (destruct (_ =? dbb)); cbn; intros; fin.
  - intros v D. rewrite BD in D. rewrite DB. apply SB. exact D.
  - rewrite DB. clear SB P1 BD DB CD CC DC. dstate s. destruct W. unfold update_row, upd_x. cbn in *. subst pe.
    destruct nb, xd as [v0|], xc as [| | |p], xe, ide, bdd, bde; cbn in *;
      try (destruct (v0 =? p) eqn:EE);
      try (match goal with |- context [match ?q with 0 => _ | N.pos _ => _ end] => is_var q; destruct q end); cbn;
      try (destruct (_ =? dbb)); cbn; intros; fin.
Qed.

Lemma flush_wf : forall s, wf s -> wf (fst (flush s)).
Proof.
  intros s W. unfold flush.
  destruct (persistent s && negb (modified s)) eqn:NOOP; [exact W|].
  destruct (negb (persistent s)) eqn:NP.
  - apply negb_true_iff in NP. cbn [fst].
    destruct (insert_row_ok (sync_b s) s W NP eq_refl) as (P & X & B & I & CD & CC & DC).
    apply finish_flush_wf; auto.
    intros l D. rewrite (flush_dbc_ext s _ CD CC DC). apply flush_dbc_cur; [exact W|congruence].
  - apply negb_false_iff in NP.
    cbn [fst].
    destruct (update_row_ok (sync_b s) s W NP eq_refl) as (P & X & B & I & CD & CC & DC).
    apply finish_flush_wf; auto.
    intros l D. rewrite (flush_dbc_ext s _ CD CC DC). apply flush_dbc_cur; [exact W|congruence].
Qed.

(* ---------- keyed dict operations ---------- *)
Lemma before_pop_wf : forall s, wf s -> (c_d s = None -> c_c s = NoHist -> db_c s = []) ->
  wf (before_pop s) /\ c_c (before_pop s) <> NoHist /\ c_d (before_pop s) = c_d s.
Proof.
  intros s W N. dstate s. unfold before_pop, mod_c in *. cbn in *.
  destruct cd, cc; cbn in *; (split; [|split; [discriminate || congruence|reflexivity]]); wfsolve;
    try (rewrite N by reflexivity; auto).
Qed.

Lemma dirty_none : forall s, c_c s <> NoHist -> (c_d s = None -> c_c s = NoHist -> db_c s = []).
Proof. intros s H _ K. contradiction. Qed.

Lemma dict_setitem_wf : forall o s, wf s -> (c_d s = None -> c_c s = NoHist -> db_c s = []) ->
  wf (dict_setitem o s) /\ c_c (dict_setitem o s) <> NoHist.
Proof.
  intros o s W N. unfold dict_setitem.
  assert (D : forall l' t, c_c (set_c_d (Some l') (coll_event t)) <> NoHist).
  { intros l' t. dstate t. unfold coll_event, mod_c. cbn. destruct cd, cc; cbn; discriminate. }
  destruct (same_key o (cur_coll s)).
  - split; [apply coll_event_idem_wf; assumption|].
    pose proof (D (map (fun p => if ckey p =? ckey o then o else p) (cur_coll s)) (coll_event s)) as H. exact H.
  - split; [apply (coll_event_wf s W N)|apply D].
Qed.

Lemma update_fold_wf : forall l s, wf s -> (c_d s = None -> c_c s = NoHist -> db_c s = []) ->
  wf (fold_left update_one l s).
Proof.
  induction l as [|o rest IH]; intros s W N; cbn [fold_left]; [exact W|].
  assert (K : wf (update_one s o) /\ (c_d (update_one s o) = None -> c_c (update_one s o) = NoHist -> db_c (update_one s o) = [])).
  { unfold update_one. destruct (holder o (cur_coll s)) as [p|].
    - destruct (p =? o); [split; assumption|].
      destruct (dict_setitem_wf o s W N) as [A B]. split; [exact A|apply dirty_none; exact B].
    - destruct (dict_setitem_wf o s W N) as [A B]. split; [exact A|apply dirty_none; exact B]. }
  destruct K as [K1 K2]. apply IH; assumption.
Qed.

Lemma c_pop_wf : forall d o s, wf s -> wf (fst (c_pop d o s)).
Proof.
  intros d o s W. unfold c_pop.
  pose proof (coll_touch_wf s W) as W1. pose proof (coll_touch_ok s W) as OK.
  pose proof (coll_touch_none s W) as N.
  destruct (coll_touch s) as [s1 ok]. cbn [fst snd] in *. subst ok. cbn [negb].
  destruct (before_pop_wf s1 W1 N) as (W2 & D2 & _).
  destruct (holder o (cur_coll s1)); [|destruct d; exact W2].
  apply (coll_event_wf _ W2 (dirty_none _ D2)).
Qed.

Lemma c_popitem_wf : forall s, wf s -> wf (fst (c_popitem s)).
Proof.
  intros s W. unfold c_popitem.
  pose proof (coll_touch_wf s W) as W1. pose proof (coll_touch_ok s W) as OK.
  pose proof (coll_touch_none s W) as N.
  destruct (coll_touch s) as [s1 ok]. cbn [fst snd] in *. subst ok. cbn [negb].
  destruct (before_pop_wf s1 W1 N) as (W2 & D2 & _).
  destruct (last_of (cur_coll s1)); [|exact W2].
  apply (coll_event_wf _ W2 (dirty_none _ D2)).
Qed.

Lemma c_delkey_wf : forall o s, wf s -> wf (fst (c_delkey o s)).
Proof.
  intros o s W. unfold c_delkey.
  pose proof (coll_touch_wf s W) as W1. pose proof (coll_touch_ok s W) as OK.
  pose proof (coll_touch_none s W) as N.
  destruct (coll_touch s) as [s1 ok]. cbn [fst snd] in *. subst ok. cbn [negb].
  destruct (holder o (cur_coll s1)); [|exact W1]. apply (coll_event_wf _ W1 N).
Qed.

Lemma c_setdefault_wf : forall o s, wf s -> wf (fst (c_setdefault o s)).
Proof.
  intros o s W. unfold c_setdefault.
  pose proof (coll_touch_wf s W) as W1. pose proof (coll_touch_ok s W) as OK.
  pose proof (coll_touch_none s W) as N.
  destruct (coll_touch s) as [s1 ok]. cbn [fst snd] in *. subst ok. cbn [negb].
  destruct (same_key o (cur_coll s1)); [exact W1|]. apply (coll_event_wf _ W1 N).
Qed.

Lemma c_update_wf : forall l s, wf s -> wf (fst (c_update l s)).
Proof.
  intros l s W. unfold c_update.
  pose proof (coll_touch_wf s W) as W1. pose proof (coll_touch_ok s W) as OK.
  pose proof (coll_touch_none s W) as N.
  destruct (coll_touch s) as [s1 ok]. cbn [fst snd] in *. subst ok. cbn [negb fst].
  apply update_fold_wf; assumption.
Qed.

Lemma c_clear_wf : forall s, wf s -> wf (fst (c_clear s)).
Proof.
  intros s W. unfold c_clear.
  pose proof (coll_touch_wf s W) as W1. pose proof (coll_touch_ok s W) as OK.
  pose proof (coll_touch_none s W) as N.
  destruct (coll_touch s) as [s1 ok]. cbn [fst snd] in *. subst ok. cbn [negb].
  destruct (cur_coll s1); [exact W1|]. apply (coll_event_wf _ W1 N).
Qed.

Lemma step_wf : forall k o s, wf s -> wf (fst (step k o s)).
Proof.
  intros k o s W. destruct o; cbn [step].
  - apply set_x_wf; exact W.
  - apply del_x_wf; exact W.
  - rewrite read_fst. apply get_x_wf; exact W.
  - apply set_b_wf; exact W.
  - apply del_b_wf; exact W.
  - rewrite read_fst. apply get_b_wf; exact W.
  - apply c_add_wf; exact W.
  - apply c_rem_wf; exact W.
  - apply c_replace_wf; exact W.
  - apply c_del_wf; exact W.
  - apply c_get_wf; exact W.
  - apply flush_wf; exact W.
  - apply expire_wf; exact W.
  - apply c_pop_wf; exact W.
  - apply c_pop_wf; exact W.
  - apply c_popitem_wf; exact W.
  - apply c_delkey_wf; exact W.
  - apply c_setdefault_wf; exact W.
  - apply c_update_wf; exact W.
  - apply c_clear_wf; exact W.
Qed.

Lemma run_wf : forall k ops s, wf s -> wf (fst (run k ops s)).
Proof.
  intros k ops. induction ops as [|o rest IH]; intros s W; cbn [run]; [exact W|].
  pose proof (step_wf k o s W) as W1. destruct (step k o s) as [s1 r]. cbn [fst] in W1.
  destruct (is_flush o && failed r); [exact W1|].
  specialize (IH s1 W1). destruct (run k rest s1). exact IH.
Qed.

Lemma init_wf : forall ok x0 b0 c0, wf (init ok x0 b0 c0).
Proof.
  intros [| |] x0 b0 c0; cbn; constructor; cbn; intros;
    repeat match goal with H : Some _ = Some _ |- _ => injection H as H; subst end;
    fin; try (split; discriminate).
Qed.
