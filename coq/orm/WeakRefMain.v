(* C48 - every operation preserves the invariant; the theorems *)
From Coq Require Import List ZArith NArith Bool Arith Lia.
Import ListNotations.
From SAV.orm Require Import WeakRef WeakRefBase WeakRefInv WeakRefFlush.

(* ---------------------------------------------------------------- allocation *)
Lemma inv_alloc_gen : forall s s' ob, Inv s ->
  (forall x, heap s' x = if Nat.eqb x (nobj s) then ob else heap s x) ->
  nobj s' = S (nobj s) -> db s' = db s -> slots s' = slots s -> local s' = local s -> failed s' = failed s ->
  (next_pk s <= next_pk s')%N -> (pk ob < next_pk s')%N -> okb ob = true ->
  (in_map ob = true -> db_get (pk ob) (db s) <> None /\ forall o, in_map (heap s o) = true -> pk (heap s o) <> pk ob) ->
  (in_new ob = true -> db_get (pk ob) (db s) = None /\ forall o, in_new (heap s o) = true -> pk (heap s o) <> pk ob) ->
  Inv s'.
Proof.
  intros s s' ob I Hh En Ed Es El Ef Le Lp Ok Hm Hn.
  assert (Old : forall x, x <> nobj s -> heap s' x = heap s x).
  { intros x Hx. rewrite Hh. destruct (Nat.eqb x (nobj s)) eqn:E; auto. apply Nat.eqb_eq in E. contradiction. }
  assert (New : heap s' (nobj s) = ob) by (rewrite Hh, Nat.eqb_refl; reflexivity).
  assert (NotOld : forall x, alive (heap s x) = true -> x <> nobj s).
  { intros x A. assert (L := alive_lt s x I A). lia. }
  constructor.
  - intros o L. rewrite Old by lia. apply (i_dead s I). lia.
  - intros o. destruct (Nat.eq_dec o (nobj s)) as [->|N]; [rewrite New; auto|rewrite Old; auto; apply (i_ok s I)].
  - intros o M. rewrite Ed. destruct (Nat.eq_dec o (nobj s)) as [->|N].
    + rewrite New in *. apply Hm; auto.
    + rewrite Old in * by auto. apply (i_map_row s I); auto.
  - intros o1 o2 M1 M2 E.
    destruct (Nat.eq_dec o1 (nobj s)) as [->|N1]; destruct (Nat.eq_dec o2 (nobj s)) as [->|N2]; auto.
    + rewrite New in *. rewrite Old in * by auto. destruct (Hm M1) as [_ F]. exfalso. apply (F o2 M2). auto.
    + rewrite New in *. rewrite Old in * by auto. destruct (Hm M2) as [_ F]. exfalso. apply (F o1 M1). auto.
    + rewrite !Old in * by auto. apply (i_map_inj s I); auto.
  - intros o M. rewrite Ed. destruct (Nat.eq_dec o (nobj s)) as [->|N].
    + rewrite New in *. apply Hn; auto.
    + rewrite Old in * by auto. apply (i_new_row s I); auto.
  - intros o1 o2 M1 M2 E.
    destruct (Nat.eq_dec o1 (nobj s)) as [->|N1]; destruct (Nat.eq_dec o2 (nobj s)) as [->|N2]; auto.
    + rewrite New in *. rewrite Old in * by auto. destruct (Hn M1) as [_ F]. exfalso. apply (F o2 M2). auto.
    + rewrite New in *. rewrite Old in * by auto. destruct (Hn M2) as [_ F]. exfalso. apply (F o1 M1). auto.
    + rewrite !Old in * by auto. apply (i_new_inj s I); auto.
  - intros o A. destruct (Nat.eq_dec o (nobj s)) as [->|N].
    + rewrite New. exact Lp.
    + rewrite Old in * by auto. assert (P := i_pk s I o A). lia.
  - intros k v G. rewrite Ed in G. assert (P := i_db s I k v G). lia.
  - intros o H. rewrite Es in H. assert (A := i_slots s I o H). rewrite Old; auto.
  - intros o H. rewrite El in H. assert (A := i_local s I o H). rewrite Old; auto.
  - rewrite Ef. apply (i_failed s I).
Qed.

Lemma db_get_fresh : forall s, Inv s -> db_get (next_pk s) (db s) = None.
Proof.
  intros s I. destruct (db_get (next_pk s) (db s)) eqn:E; auto.
  assert (P := i_db s I _ _ E). lia.
Qed.

Lemma inv_new : forall s, Inv s -> Inv (bump_pk (alloc (new_obj s) s)).
Proof.
  intros s I. destruct (ok_new_obj s) as (Ok & A & P & M & N & _).
  apply (inv_alloc_gen s (bump_pk (alloc (new_obj s) s)) (new_obj s) I); try reflexivity; auto.
  - cbn [next_pk bump_pk alloc]. lia.
  - cbn [next_pk bump_pk alloc]. rewrite P. lia.
  - rewrite M. discriminate.
  - intros _. rewrite P. split; [apply (db_get_fresh s I)|].
    intros o N'. destruct (okb_fields _ (i_ok s I o)) as (_ & F2 & _). destruct (F2 N') as (A' & _).
    assert (Q := i_pk s I o A'). lia.
Qed.

(* ---------------------------------------------------------------- identity map lookup *)
Lemma lookup_some : forall s k o, lookup k s = Some o -> in_map (heap s o) = true /\ pk (heap s o) = k.
Proof.
  intros s k o H. unfold lookup in H. apply find_some in H. destruct H as [_ H].
  cbv zeta in H. apply andb_prop in H. destruct H as [H1 H2]. apply N.eqb_eq in H2. auto.
Qed.
Lemma lookup_none : forall s k, Inv s -> lookup k s = None ->
  forall o, in_map (heap s o) = true -> pk (heap s o) <> k.
Proof.
  intros s k I H o M E. unfold lookup in H.
  assert (L : o < nobj s).
  { apply (alive_lt s o I). destruct (okb_fields _ (i_ok s I o)) as (F1 & _). apply F1; auto. }
  assert (Hin : In o (oids s)) by (apply in_seq; lia).
  assert (X := find_none _ _ H o Hin). cbv beta zeta in X. rewrite M, E, N.eqb_refl in X. discriminate.
Qed.
Lemma find_first : forall (f : nat -> bool) l o, In o l -> f o = true ->
  (forall x, In x l -> f x = true -> x = o) -> find f l = Some o.
Proof.
  intros f l o. induction l as [|y l IH]; intros H F U; [destruct H|]. simpl.
  destruct (f y) eqn:E.
  - f_equal. apply U; [left; reflexivity|exact E].
  - apply IH; [|exact F|].
    + destruct H as [H|H]; auto. subst y. congruence.
    + intros x Hx. apply U. right. auto.
Qed.
Lemma lookup_unique : forall s o, Inv s -> in_map (heap s o) = true -> lookup (pk (heap s o)) s = Some o.
Proof.
  intros s o I M. unfold lookup. apply find_first.
  - apply in_seq. split; [lia|]. simpl. apply (alive_lt s o I).
    destruct (okb_fields _ (i_ok s I o)) as (F1 & _). apply F1; auto.
  - cbv zeta. rewrite M, N.eqb_refl. reflexivity.
  - intros x _ H. cbv zeta in H. apply andb_prop in H. destruct H as [H1 H2]. apply N.eqb_eq in H2.
    apply (i_map_inj s I); auto.
Qed.
Lemma map_alive : forall s o, Inv s -> in_map (heap s o) = true -> alive (heap s o) = true.
Proof. intros s o I M. destruct (okb_fields _ (i_ok s I o)) as (F1 & _). apply F1; auto. Qed.

Lemma upd_same : forall s o f, heap (upd o f s) o = f (heap s o).
Proof. intros. cbn. rewrite Nat.eqb_refl. reflexivity. Qed.
Lemma upd_other : forall s o f x, x <> o -> heap (upd o f s) x = heap s x.
Proof. intros. cbn. destruct (Nat.eqb x o) eqn:E; auto. apply Nat.eqb_eq in E. contradiction. Qed.
Lemma alive_unexpire : forall ob, alive (set_in_val true (set_expired false ob)) = alive ob.
Proof. intros []; reflexivity. Qed.

(* ---------------------------------------------------------------- get *)
Lemma inv_load : forall i k s, Inv s -> Inv (load i k s).
Proof.
  intros i k s I. unfold load.
  destruct (lookup k s) as [o|] eqn:Lk.
  - destruct (lookup_some s k o Lk) as [M P]. assert (A := map_alive s o I M).
    destruct (expired (heap s o)).
    + set (s1 := set_local None (rc_collect (flush (set_local (Some o) s)))).
      assert (I1 : Inv s1).
      { unfold s1. apply inv_set_local; [|intros ? H; discriminate].
        apply inv_rc_collect. apply inv_flush. apply inv_set_local; auto.
        intros o' H. inversion H. subst o'. exact A. }
      destruct (in_map (heap s1 o)) eqn:M1.
      * assert (A1 := map_alive s1 o I1 M1).
        apply inv_slot_set.
        -- apply inv_upd; auto. intros Ok. split; [apply tr_unexpire; auto|rewrite alive_unexpire; exact A1].
        -- intros o' H. inversion H. subst o'. rewrite upd_same, alive_unexpire. exact A1.
      * apply inv_slot_set; auto. intros ? H; discriminate.
    + apply inv_slot_set; auto. intros o' H. inversion H. subst o'. exact A.
  - set (s1 := rc_collect (flush s)).
    assert (I1 : Inv s1) by (unfold s1; apply inv_rc_collect; apply inv_flush; exact I).
    destruct (lookup k s1) as [o|] eqn:Lk1.
    + destruct (lookup_some s1 k o Lk1) as [M P].
      apply inv_slot_set; auto. intros o' H. inversion H. subst o'. apply (map_alive s1 o I1 M).
    + destruct (db_has k (db s1)) eqn:Dh.
      * assert (Ia : Inv (alloc (loaded_obj k) s1)).
        { assert (Row : db_get k (db s1) <> None).
          { unfold db_has in Dh. destruct (db_get k (db s1)); [discriminate|discriminate]. }
          apply (inv_alloc_gen s1 (alloc (loaded_obj k) s1) (loaded_obj k) I1); try reflexivity.
          - cbn [next_pk alloc loaded_obj pk].
            destruct (db_get k (db s1)) eqn:G; [|contradiction]. apply (i_db s1 I1 _ _ G).
          - intros _. split; auto. apply (lookup_none s1 k I1 Lk1).
          - cbn. discriminate. }
        apply inv_slot_set; auto. intros o' H. inversion H. subst o'. cbn. rewrite Nat.eqb_refl. reflexivity.
      * apply inv_slot_set; auto. intros ? H; discriminate.
Qed.

Lemma inv_modev : forall s o w, Inv s -> In (Some o) (slots s) -> Inv (upd o (modified_event w (next_val s)) s).
Proof.
  intros s o w I Hin.
  assert (Al : alive (heap s o) = true) by (apply (i_slots s I); exact Hin).
  apply inv_upd; auto.
  intros Ok. split; [apply tr_modified_event; auto|].
  revert Al. generalize (heap s o). intros ob Al. unfold modified_event. destruct w, ob; cbn in *;
  repeat match goal with |- context [if ?c then _ else _] => destruct c end; exact Al.
Qed.

(* ---------------------------------------------------------------- every operation *)
Lemma inv_step : forall o s, Inv s -> Inv (fst (step o s)).
Proof.
  intros o s I. destruct o as [i k|i|i|i|i|i w0|i| | | |i| |i|i j]; cbn [step fst].
  - apply inv_load. exact I.
  - apply inv_slot_set.
    + apply inv_bump_val. apply inv_new. exact I.
    + intros o H. inversion H. subst o. cbn. rewrite Nat.eqb_refl. reflexivity.
  - destruct (slot_get s i) as [o|] eqn:G; cbn [fst]; auto.
    apply inv_bump_val. apply (inv_modev s o false); auto. apply (slot_get_In s i o G).
  - destruct (slot_get s i) as [o|] eqn:G; cbn [fst]; auto.
    apply inv_bump_val. apply (inv_modev s o true); auto. apply (slot_get_In s i o G).
  - destruct (slot_get s i) as [o|] eqn:G; cbn [fst]; auto.
    destruct (in_val (heap s o)); cbn [fst]; auto.
    apply inv_bump_val. apply (inv_modev s o false); auto. apply (slot_get_In s i o G).
  - destruct (slot_get s i) as [o|] eqn:G; cbn [fst]; auto.
    destruct (persistent (heap s o)) eqn:P; cbn [fst]; auto.
    apply inv_upd; auto.
    + apply (i_slots s I). apply (slot_get_In s i o G).
    + assert (Al : alive (heap s o) = true) by (apply (i_slots s I); apply (slot_get_In s i o G)).
      intros Ok. split; [apply tr_expire_attr; auto|].
      revert Al. generalize (heap s o). intros ob Al. unfold expire_attr. destruct w0, ob; exact Al.
  - apply inv_slot_set; auto. intros ? H; discriminate.
  - apply inv_collect. exact I.
  - apply inv_flush. exact I.
  - apply inv_hmap; [apply inv_flush; exact I| |reflexivity].
    intros ob Ok. split; [apply tr_commit_obj; auto|].
    unfold commit_obj, expire_obj. destruct ob; cbn.
    repeat match goal with |- context [if ?c then _ else _] => destruct c end; reflexivity.
  - destruct (slot_get s i) as [o|] eqn:G; cbn [fst]; auto.
    destruct (persistent (heap s o)) eqn:P; cbn [fst]; auto.
    apply inv_upd; auto.
    + apply (i_slots s I). apply (slot_get_In s i o G).
    + assert (Al : alive (heap s o) = true) by (apply (i_slots s I); apply (slot_get_In s i o G)).
      intros Ok. split; [apply tr_expire_obj; auto|].
      revert Al. generalize (heap s o). intros ob Al. unfold expire_obj. destruct ob; cbn in *.
      repeat match goal with |- context [if ?c then _ else _] => destruct c end; exact Al.
  - apply inv_hmap; auto.
    intros ob Ok. split; [apply tr_expire_if; auto|].
    unfold expire_obj. destruct ob; cbn.
    repeat match goal with |- context [if ?c then _ else _] => destruct c end; reflexivity.
  - destruct (slot_get s i) as [o|] eqn:G; cbn [fst]; auto.
    destruct (persistent (heap s o)) eqn:P; cbn [fst]; auto.
    assert (A : alive (heap s o) = true) by (apply (i_slots s I); apply (slot_get_In s i o G)).
    apply inv_upd; auto.
    intros Ok. split; [apply tr_set_in_del; auto|].
    revert A. generalize (heap s o). intros ob A. destruct ob; exact A.
  - destruct (slot_get s i) as [o|] eqn:G; cbn [fst]; auto.
    apply inv_upd; auto.
    + apply (i_slots s I). apply (slot_get_In s i o G).
    + assert (Al : alive (heap s o) = true) by (apply (i_slots s I); apply (slot_get_In s i o G)).
      intros Ok. split; [apply tr_set_link; auto|].
      revert Al. generalize (heap s o). intros ob Al. destruct ob; exact Al.
Qed.

Lemma inv_step_cpy : forall o s, Inv s -> Inv (fst (step_cpy o s)).
Proof.
  intros o s I. unfold step_cpy. destruct (step o s) as [s1 rc] eqn:E. cbn [fst].
  apply inv_compact. apply inv_rc_collect. replace s1 with (fst (step o s)) by (rewrite E; reflexivity).
  apply inv_step. exact I.
Qed.

(* ---------------------------------------------------------------- initial state *)
Lemma inv_init : forall rows ns npk, (forall k v, db_get k rows = Some v -> (k < npk)%N) -> Inv (init rows ns npk).
Proof.
  intros rows ns npk H. constructor; cbn; auto; try discriminate.
  intros o Hin. apply repeat_spec in Hin. discriminate.
Qed.

(* ---------------------------------------------------------------- reachable states *)
Inductive reachable (s0 : st) : st -> Prop :=
| r_init : reachable s0 s0
| r_op : forall s o, reachable s0 s -> reachable s0 (fst (step o s))
| r_collect : forall s l, reachable s0 s -> reachable s0 (collect l s)
| r_compact : forall s, reachable s0 s -> reachable s0 (compact s).

Lemma reachable_inv : forall s0 s, Inv s0 -> reachable s0 s -> Inv s.
Proof.
  intros s0 s I0 R. induction R; auto using inv_step, inv_collect, inv_compact.
Qed.
Lemma reachable_rc_iter : forall s0 n s, reachable s0 s -> reachable s0 (rc_iter n s).
Proof.
  induction n; intros s R; simpl; auto. destruct (rc_zero s); auto. apply IHn. apply r_collect. exact R.
Qed.
Lemma reachable_step_cpy : forall s0 o s, reachable s0 s -> reachable s0 (fst (step_cpy o s)).
Proof.
  intros s0 o s R. unfold step_cpy. destruct (step o s) as [s1 rc] eqn:E. cbn [fst].
  apply r_compact. apply reachable_rc_iter. replace s1 with (fst (step o s)) by (rewrite E; reflexivity).
  apply r_op. exact R.
Qed.
Fixpoint run_cpy (ops : list op) (s : st) : st :=
  match ops with [] => s | o :: r => run_cpy r (fst (step_cpy o s)) end.
Lemma reachable_run_cpy : forall s0 ops s, reachable s0 s -> reachable s0 (run_cpy ops s).
Proof. induction ops; intros s R; simpl; auto. apply IHops. apply reachable_step_cpy. exact R. Qed.
