(* C36 - proofs, part 5: capture-on-first-change.  The value an attribute had when it was loaded
   is remembered through every sequence of mutations and reads that contains no synchronisation
   point (flush / expire); hence the history is the net difference against that value. *)
From Coq Require Import List NArith Bool Lia.
Import ListNotations.
From SAV.orm Require Import History HistorySpec HistoryProofs HistoryWf HistoryFrame HistoryOps.
Open Scope N_scope.

Ltac unfops := unfold step, set_x, del_x, set_b, del_b, c_add, c_rem, c_replace, c_del, c_get, coll_touch,
  coll_event, cur_coll, get_b, get_x, get_c, get, loader_b, loader_x, loader_c, col_bid, load_expired,
  mod_b, mod_x, mod_c, commit_b, commit_x, commit_c, comm_of_gres, old_plain,
  P_NO_FETCH_NO_INIT, P_OFF, read in *.

(* ---------- x ---------- *)
Lemma tracks_x_step : forall k o s v0, wf s -> is_sync o = false ->
  tracks_x v0 s -> tracks_x v0 (fst (step k o s)).
Proof.
  intros k o s v0 W NS T.
  destruct (on_x o) eqn:OX.
  - clear W. unfold tracks_x in *. dstate s. cbn in T.
    destruct o; try discriminate OX; unfops; (destruct T as [[-> ->]| ->]); brv; auto.
  - destruct (step_loadX k o s NS OX) as [C D]. unfold tracks_x in *. rewrite C.
    destruct T as [[TC TD]|TC]; [left|right; exact TC]. split; [exact TC|].
    destruct D as [D|[_ D]]; [congruence|]. rewrite D. f_equal. symmetry. eapply wf_x_clean; eauto.
Qed.

Lemma unknown_x_step : forall k o s, is_sync o = false -> is_nostate (x_c s) = true ->
  x_c (fst (step k o s)) = x_c s.
Proof.
  intros k o s NS U.
  destruct (on_x o) eqn:OX.
  - dstate s. cbn in U. destruct o; try discriminate OX; unfops; destruct xc; try discriminate U; brv; auto.
  - apply (step_loadX k o s NS OX).
Qed.

(* ---------- b ---------- *)
Lemma tracks_b_step : forall k o s v0, is_sync o = false ->
  tracks_b v0 s -> tracks_b v0 (fst (step k o s)).
Proof.
  intros k o s v0 NS T.
  destruct (on_b o) eqn:OB.
  - unfold tracks_b in *. dstate s. cbn in T.
    destruct o; try discriminate OB; unfops; (destruct T as [[-> ->]| ->]); brv; auto.
  - destruct (step_keepB k o s NS OB) as [C D]. unfold tracks_b in *. rewrite C, D. exact T.
Qed.

Lemma unknown_b_nr_step : forall k o s, is_sync o = false -> b_c s = CNoResult ->
  b_c (fst (step k o s)) = CNoResult.
Proof.
  intros k o s NS U.
  destruct (on_b o) eqn:OB.
  - dstate s. cbn in U. subst bc. destruct o; try discriminate OB; unfops; brv; auto.
  - destruct (step_keepB k o s NS OB) as [C D]. congruence.
Qed.

(* NO_VALUE as the captured value: it stays, or the attribute gets (re)loaded from the database *)
Lemma unknown_b_nv_step : forall k o s, wf s -> is_sync o = false -> b_c s = CNoValue ->
  let s' := fst (step k o s) in
  b_c s' = CNoValue \/ tracks_b (db_b s) s'.
Proof.
  intros k o s W NS U.
  destruct (on_b o) eqn:OB.
  - pose proof (wf_bid s W) as WB. pose proof (wf_b_nv s W U) as W0. clear W.
    unfold tracks_b. dstate s. cbn in *. subst bc dbb.
    destruct o; try discriminate OB; unfops; brv; auto;
      try (right; left; split; [reflexivity|]; rewrite WB by reflexivity; reflexivity).
  - destruct (step_keepB k o s NS OB) as [C D]. left. cbn. congruence.
Qed.

(* ---------- cs ---------- *)
Definition captured (l0 : list val) (s : st) : Prop := c_c s = CVal l0.
Lemma captured_tracks : forall l0 s, captured l0 s -> tracks_c l0 s.
Proof. intros. right. assumption. Qed.

Lemma coll_touch_tracks : forall s l0, tracks_c l0 s -> tracks_c l0 (fst (coll_touch s)).
Proof.
  intros s l0 T. unfold tracks_c in *. dstate s. cbn in T. unfold coll_touch, get_c, get. cbn.
  destruct T as [[-> ->]| ->]; cbn; auto. destruct cd; cbn; auto.
Qed.
Lemma coll_event_captured : forall s l0, tracks_c l0 s -> captured l0 (coll_event s).
Proof.
  intros s l0 T. unfold tracks_c, captured in *. dstate s. cbn in T. unfold coll_event, mod_c.
  destruct T as [[-> ->]| ->]; cbn; auto. destruct cd; reflexivity.
Qed.
Lemma before_pop_captured : forall s l0, tracks_c l0 s -> captured l0 (before_pop s).
Proof.
  intros s l0 T. unfold tracks_c, captured in *. dstate s. cbn in T. unfold before_pop, mod_c.
  destruct T as [[-> ->]| ->]; cbn; auto.
Qed.
Lemma set_c_d_captured : forall s l0 x, captured l0 s -> captured l0 (set_c_d x s).
Proof. intros s l0 x C. dstate s. exact C. Qed.
Lemma dict_setitem_captured : forall o s l0, tracks_c l0 s -> captured l0 (dict_setitem o s).
Proof.
  intros o s l0 T. unfold dict_setitem. destruct (same_key o (cur_coll s)); apply set_c_d_captured.
  - apply coll_event_captured. apply captured_tracks. apply coll_event_captured. exact T.
  - apply coll_event_captured. exact T.
Qed.
Lemma update_fold_tracks : forall l s l0, tracks_c l0 s -> tracks_c l0 (fold_left update_one l s).
Proof.
  induction l as [|o rest IH]; intros s l0 T; cbn [fold_left]; [exact T|]. apply IH. unfold update_one.
  destruct (holder o (cur_coll s)) as [p|]; [destruct (p =? o); [exact T|]|];
    apply captured_tracks; apply dict_setitem_captured; exact T.
Qed.

Definition dict_op (o : op) : bool :=
  match o with
  | CPop _ | CPopD _ | CPopItem | CDelKey _ | CSetDefault _ | CUpdate _ | CClear => true
  | _ => false
  end.

Lemma tracks_c_dict_ops : forall k o s l0, dict_op o = true ->
  tracks_c l0 s -> tracks_c l0 (fst (step k o s)).
Proof.
  intros k o s l0 DO T. pose proof (coll_touch_tracks s l0 T) as T1.
  destruct o; try discriminate DO; cbn [step]; unfold c_pop, c_popitem, c_delkey, c_setdefault, c_update, c_clear;
    destruct (coll_touch s) as [s1 ok]; cbn [fst] in *; destruct (negb ok); try exact T1.
  - destruct (holder o (cur_coll s1)); cbn [fst]; apply captured_tracks.
    + apply set_c_d_captured. apply coll_event_captured. apply captured_tracks. apply before_pop_captured. exact T1.
    + apply before_pop_captured. exact T1.
  - destruct (holder o (cur_coll s1)); cbn [fst]; apply captured_tracks.
    + apply set_c_d_captured. apply coll_event_captured. apply captured_tracks. apply before_pop_captured. exact T1.
    + apply before_pop_captured. exact T1.
  - destruct (last_of (cur_coll s1)); cbn [fst]; apply captured_tracks.
    + apply set_c_d_captured. apply coll_event_captured. apply captured_tracks. apply before_pop_captured. exact T1.
    + apply before_pop_captured. exact T1.
  - destruct (holder o (cur_coll s1)); cbn [fst]; [|exact T1].
    apply captured_tracks. apply set_c_d_captured. apply coll_event_captured. exact T1.
  - destruct (same_key o (cur_coll s1)); cbn [fst]; [exact T1|].
    apply captured_tracks. apply set_c_d_captured. apply coll_event_captured. exact T1.
  - cbn [fst]. apply update_fold_tracks. exact T1.
  - destruct (cur_coll s1); cbn [fst]; [exact T1|].
    apply captured_tracks. apply set_c_d_captured. apply coll_event_captured. exact T1.
Qed.

Lemma tracks_c_step : forall k o s l0, is_sync o = false ->
  tracks_c l0 s -> tracks_c l0 (fst (step k o s)).
Proof.
  intros k o s l0 NS T.
  destruct (dict_op o) eqn:DO; [apply tracks_c_dict_ops; assumption|].
  destruct (on_c o) eqn:OC.
  - unfold tracks_c in *. dstate s. cbn in T.
    destruct o; try discriminate OC; try discriminate DO; unfops; (destruct T as [[-> ->]| ->]); destruct k; brv; auto.
  - destruct (step_keepC k o s NS OC) as [C D]. unfold tracks_c in *. rewrite C, D. exact T.
Qed.

(* ---------- sequences ---------- *)
Lemma run_cons : forall k o rest s,
  fst (run k (o :: rest) s) =
  if is_flush o && failed (snd (step k o s)) then fst (step k o s)
  else fst (run k rest (fst (step k o s))).
Proof.
  intros. cbn [run]. destruct (step k o s) as [s1 r]. cbn [fst snd].
  destruct (is_flush o && failed r); [reflexivity|]. destruct (run k rest s1). reflexivity.
Qed.

Lemma sync_flush : forall o, is_sync o = false -> is_flush o = false.
Proof. destruct o; cbn; congruence. Qed.

Lemma run_nosync_ind : forall k (P : st -> Prop),
  (forall o s, is_sync o = false -> P s -> P (fst (step k o s))) ->
  forall ops s, nosync ops = true -> P s -> P (fst (run k ops s)).
Proof.
  intros k P H ops. induction ops as [|o rest IH]; intros s NS Ps; [exact Ps|].
  cbn [nosync forallb] in NS. apply andb_true_iff in NS. destruct NS as [NO NR].
  apply negb_true_iff in NO. rewrite run_cons, (sync_flush o NO). cbn [andb].
  apply IH; [exact NR|]. apply H; assumption.
Qed.

Lemma tracks_x_run : forall k ops s v0, wf s -> nosync ops = true ->
  tracks_x v0 s -> tracks_x v0 (fst (run k ops s)).
Proof.
  intros k ops s v0 W NS T.
  apply (run_nosync_ind k (fun s => wf s /\ tracks_x v0 s)); auto.
  intros o s1 NO [W1 T1]. split; [apply step_wf; exact W1|apply tracks_x_step; assumption].
Qed.

Lemma tracks_b_run : forall k ops s v0, nosync ops = true ->
  tracks_b v0 s -> tracks_b v0 (fst (run k ops s)).
Proof.
  intros k ops s v0 NS T. apply (run_nosync_ind k (tracks_b v0)); auto.
  intros; apply tracks_b_step; assumption.
Qed.

Lemma tracks_c_run : forall k ops s l0, nosync ops = true ->
  tracks_c l0 s -> tracks_c l0 (fst (run k ops s)).
Proof.
  intros k ops s l0 NS T. apply (run_nosync_ind k (tracks_c l0)); auto.
  intros; apply tracks_c_step; assumption.
Qed.

Lemma unknown_x_run : forall k ops s, nosync ops = true -> is_nostate (x_c s) = true ->
  x_c (fst (run k ops s)) = x_c s.
Proof.
  intros k ops s NS U.
  apply (run_nosync_ind k (fun s' => x_c s' = x_c s)); auto.
  intros o s1 NO E. rewrite <- E. apply unknown_x_step; [exact NO|rewrite E; exact U].
Qed.

Lemma unknown_b_nr_run : forall k ops s, nosync ops = true -> b_c s = CNoResult ->
  b_c (fst (run k ops s)) = CNoResult.
Proof.
  intros k ops s NS U. apply (run_nosync_ind k (fun s' => b_c s' = CNoResult)); auto.
  intros; apply unknown_b_nr_step; assumption.
Qed.

Lemma step_db_b : forall k o s, is_sync o = false -> db_b (fst (step k o s)) = db_b s.
Proof. intros k o s NS. apply (step_keepDB k o s (sync_flush o NS)). Qed.

Lemma unknown_b_nv_run : forall k ops s, wf s -> nosync ops = true -> b_c s = CNoValue ->
  let s' := fst (run k ops s) in
  b_c s' = CNoValue \/ tracks_b (db_b s) s'.
Proof.
  intros k ops s W NS U.
  apply (run_nosync_ind k (fun s' => wf s' /\ db_b s' = db_b s /\
                                     (b_c s' = CNoValue \/ tracks_b (db_b s) s'))); auto.
  intros o s1 NO (W1 & D1 & [U1|T1]); (split; [apply step_wf; exact W1|]);
    (split; [rewrite step_db_b by exact NO; exact D1|]).
  - rewrite <- D1. apply unknown_b_nv_step; assumption.
  - right. apply tracks_b_step; assumption.
Qed.

(* ---------- the history is the net difference ---------- *)
Lemma hist_x_tracked : forall s v0, tracks_x v0 s ->
  hist_x s = net_diff_scalar (Known v0) (x_d s).
Proof.
  intros s v0 [[C D]|C]; rewrite hist_x_eq, C.
  - rewrite D. cbn. rewrite N.eqb_refl. reflexivity.
  - apply from_scalar_known.
Qed.

Lemma hist_b_tracked : forall s v0, tracks_b v0 s ->
  hist_b s = net_diff_object (Known v0) (b_d s).
Proof.
  intros s v0 [[C D]|C]; rewrite hist_b_eq, C.
  - rewrite D. cbn. rewrite N.eqb_refl. reflexivity.
  - rewrite <- from_object_known. destruct (b_d s); reflexivity.
Qed.

Lemma filter_memb_self : forall l, filter (fun x => memb x l) l = l.
Proof.
  intros l. assert (H : forall l', incl l' l -> filter (fun x => memb x l) l' = l').
  { induction l' as [|y r IH]; intros I; [reflexivity|]. cbn [filter].
    assert (M : memb y l = true) by (apply memb_In; apply I; left; reflexivity).
    rewrite M, IH; [reflexivity|]. intros z Hz. apply I. right. exact Hz. }
  apply H. apply incl_refl.
Qed.
Lemma filter_nmemb_self : forall l, filter (fun x => negb (memb x l)) l = [].
Proof.
  intros l. assert (H : forall l', incl l' l -> filter (fun x => negb (memb x l)) l' = []).
  { induction l' as [|y r IH]; intros I; [reflexivity|]. cbn [filter].
    assert (M : memb y l = true) by (apply memb_In; apply I; left; reflexivity).
    rewrite M. cbn. apply IH. intros z Hz. apply I. right. exact Hz. }
  apply H. apply incl_refl.
Qed.

Lemma hist_c_tracked : forall s l0, tracks_c l0 s ->
  hist_c s = net_diff_coll (Known l0) (c_d s).
Proof.
  intros s l0 [[C D]|C]; rewrite hist_c_eq, C.
  - rewrite D. cbn. rewrite filter_memb_self, filter_nmemb_self. reflexivity.
  - apply from_collection_known.
Qed.
