(* C38 - model of orm/collections.py::_set_decorators (InstrumentedSet) and the builtin set.

   A set is a duplicate-free list whose order is not observable.  Wherever the code iterates a
   builtin set (`for item in value` with a set argument, `list(self)`, `for item in remove`, and
   set.pop()) the order is given by the Section variable [ord]; the theorems hold for every [ord]
   that returns a permutation of its argument. *)
From Coq Require Import List ZArith Bool.
Import ListNotations.
From SAV.base Require Import PySlice.
From SAV.orm Require Import CollBase.
Open Scope Z_scope.

(* the argument of a bulk method / in-place operator *)
Inductive sarg :=
| ASet (v : list item)      (* a set or frozenset *)
| AList (v : list item)     (* any other iterable, in iteration order, duplicates possible *)
| ASelf                     (* the collection itself *)
| ANonIter.                 (* not iterable *)

Inductive sop :=
| SAdd (x : item) | SDiscard (x : item) | SRemove (x : item) | SPop | SClear
| SUpdate (a : sarg) | SDiffUpdate (a : sarg) | SInterUpdate (a : sarg) | SSymDiffUpdate (a : sarg)
| SIor (a : sarg) | SIsub (a : sarg) | SIand (a : sarg) | SIxor (a : sarg).

(* ---------- builtin set on duplicate-free lists ---------- *)
Definition set_add (x : item) (s : list item) : list item := if mem x s then s else s ++ [x].
Definition set_discard (x : item) (s : list item) : list item := filter (fun y => negb (Z.eqb x y)) s.
Definition dedup (l : list item) : list item :=
  fold_left (fun acc x => set_add x acc) l [].
Definition set_union (s o : list item) : list item := fold_left (fun acc x => set_add x acc) o s.
Definition set_diff (s o : list item) : list item := filter (fun y => negb (mem y o)) s.
Definition set_inter (s o : list item) : list item := filter (fun y => mem y o) s.
Definition set_symdiff (s o : list item) : list item := set_diff s o ++ set_diff (dedup o) s.

(* _set_binops_check_strict: set, frozenset or the collection's own class *)
Definition is_setlike (a : sarg) : bool :=
  match a with ASet _ | ASelf => true | AList _ | ANonIter => false end.

Section Ord.
Variable ord : list item -> list item.    (* iteration order of a builtin set *)

Definition arg_items (s : list item) (a : sarg) : option (list item) :=
  match a with
  | ASet v => Some (ord v)
  | AList v => Some v
  | ASelf => Some (ord s)
  | ANonIter => None
  end.

(* the builtin set, operation by operation: result and contents afterwards *)
Definition py_set_op (s : list item) (op : sop) : res retv * list item :=
  let bulk (a : sarg) (f : list item -> list item -> list item) (rv : retv) :=
      match arg_items s a with
      | None => (Raise TypeError, s)
      | Some o => (Ok rv, f s o)
      end in
  let inplace (a : sarg) (f : list item -> list item -> list item) :=
      if is_setlike a then bulk a f RSelf else (Ok RNotImpl, s) in
  match op with
  | SAdd x => (Ok RNone, set_add x s)
  | SDiscard x => (Ok RNone, set_discard x s)
  | SRemove x => if mem x s then (Ok RNone, set_discard x s) else (Raise KeyError, s)
  | SPop => match ord s with
            | [] => (Raise KeyError, s)
            | x :: _ => (Ok (RItem x), set_discard x s)
            end
  | SClear => (Ok RNone, [])
  | SUpdate a => bulk a set_union RNone
  | SDiffUpdate a => bulk a set_diff RNone
  | SInterUpdate a => bulk a set_inter RNone
  | SSymDiffUpdate a => bulk a set_symdiff RNone
  | SIor a => inplace a set_union
  | SIsub a => inplace a set_diff
  | SIand a => inplace a set_inter
  | SIxor a => inplace a set_symdiff
  end.

(* ---------- the instrumented set ---------- *)
Definition SM := M (list item).

Definition b_set (f : list item -> list item) : SM unit :=
  lift (fun s => Ok (tt, f s)).

(* add: if value not in self: __set(..) else: __set_wo_mutation(..);  fn(self, value) *)
Definition sa_sadd (x : item) : SM unit :=
  s <- get ;;
  (if mem x s then fire (ESame x) else fire (EAdd x)) ;;;
  b_set (set_add x).

(* discard: if value in self: __del(..);  fn(self, value) *)
Definition sa_sdiscard (x : item) : SM unit :=
  s <- get ;;
  (if mem x s then fire (ERem x) else ret tt) ;;;
  b_set (set_discard x).

(* remove: if value in self: __del(..);  fn(self, value)   -- KeyError from the builtin *)
Definition sa_sremove (x : item) : SM unit :=
  s <- get ;;
  (if mem x s then fire (ERem x) else ret tt) ;;;
  lift (fun s => if mem x s then Ok (tt, set_discard x s) else Raise KeyError).

(* pop: __before_pop(self); item = fn(self); __del(self, item, ..); return item *)
Definition sa_spop : SM item :=
  it <- lift (fun s => match ord s with
                       | [] => Raise KeyError
                       | x :: _ => Ok (x, set_discard x s)
                       end) ;;
  fire (ERem it) ;;;
  ret it.

(* clear: for item in list(self): self.remove(item) *)
Definition sa_sclear : SM unit :=
  s <- get ;;
  for_each (ord s) sa_sremove.

(* `for item in value: body(item)` over the argument.  Iterating the collection itself while the
   body changes its size raises RuntimeError at the next step of the iterator. *)
Fixpoint iter_self (n : nat) (xs : list item) (body : item -> SM unit) : SM unit :=
  s <- get ;;
  if negb (Nat.eqb (length s) n) then raise RuntimeError      (* checked by every next() *)
  else match xs with
       | [] => ret tt
       | x :: r => body x ;;; iter_self n r body
       end.
Definition sa_iter (a : sarg) (body : item -> SM unit) : SM unit :=
  s <- get ;;
  match a with
  | ANonIter => raise TypeError
  | ASelf =>
      iter_self (length s) (ord s) body
  | ASet v => for_each (ord v) body
  | AList v => for_each v body
  end.

(* update / __ior__: for item in value: self.add(item) *)
Definition sa_supdate (a : sarg) : SM unit := sa_iter a sa_sadd.
(* difference_update / __isub__: for item in value: self.discard(item) *)
Definition sa_sdiffupdate (a : sarg) : SM unit := sa_iter a sa_sdiscard.

(* intersection_update / __iand__ / symmetric_difference_update / __ixor__:
     want, have = self.<intersection|symmetric_difference>(other), set(self)
     remove, add = have - want, want - have
     for item in remove: self.remove(item)
     for item in add: self.add(item) *)
Definition sa_swant (f : list item -> list item -> list item) (a : sarg) : SM unit :=
  s <- get ;;
  match arg_items s a with
  | None => raise TypeError
  | Some o =>
      let want := f s o in
      let have := s in
      let remove := set_diff have want in
      let add := set_diff want have in
      for_each (ord remove) sa_sremove ;;;
      for_each (ord add) sa_sadd
  end.

Definition sa_inplace (a : sarg) (m : SM unit) : SM retv :=
  if is_setlike a then m ;;; ret RSelf else ret RNotImpl.

Definition sa_set_op (op : sop) : SM retv :=
  match op with
  | SAdd x => sa_sadd x ;;; ret RNone
  | SDiscard x => sa_sdiscard x ;;; ret RNone
  | SRemove x => sa_sremove x ;;; ret RNone
  | SPop => it <- sa_spop ;; ret (RItem it)
  | SClear => sa_sclear ;;; ret RNone
  | SUpdate a => sa_supdate a ;;; ret RNone
  | SDiffUpdate a => sa_sdiffupdate a ;;; ret RNone
  | SInterUpdate a => sa_swant set_inter a ;;; ret RNone
  | SSymDiffUpdate a => sa_swant set_symdiff a ;;; ret RNone
  | SIor a => sa_inplace a (sa_supdate a)
  | SIsub a => sa_inplace a (sa_sdiffupdate a)
  | SIand a => sa_inplace a (sa_swant set_inter a)
  | SIxor a => sa_inplace a (sa_swant set_symdiff a)
  end.

Definition sa_set_run1 (s : list item) (op : sop) : res retv * list item * list ev :=
  match sa_set_op op (s, []) with (r, (s', g)) => (r, s', g) end.

Fixpoint sa_set_run (ops : list sop) (s : st (list item)) : list (res retv) * st (list item) :=
  match ops with
  | [] => ([], s)
  | op :: r => match sa_set_op op s with
               | (x, s') => let '(xs, s'') := sa_set_run r s' in (x :: xs, s'')
               end
  end.

End Ord.

(* contents/result/exception differ from the builtin only for  s -= s / s.difference_update(s)
   on a non-empty collection (RuntimeError: Set changed size during iteration) *)
Definition set_eq_guard (s : list item) (op : sop) : bool :=
  match op with
  | SDiffUpdate ASelf | SIsub ASelf => Nat.eqb (length s) 0
  | _ => true
  end.
