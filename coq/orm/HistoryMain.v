(* C36 - the statements used by props/C36.v, assembled from the previous parts. *)
From Coq Require Import List NArith Bool Lia.
Import ListNotations.
From SAV.orm Require Import History HistorySpec HistoryProofs HistoryWf HistoryFrame HistoryOps
  HistoryTrack HistoryFlush HistoryFail.
Open Scope N_scope.

Theorem net_diff_scalar_run : forall k ops s0 v0,
  wf s0 -> tracks_x v0 s0 -> nosync ops = true ->
  let s := fst (run k ops s0) in hist_x s = net_diff_scalar (Known v0) (x_d s).
Proof. intros. apply hist_x_tracked. apply tracks_x_run; assumption. Qed.

Theorem net_diff_object_run : forall k ops s0 v0,
  tracks_b v0 s0 -> nosync ops = true ->
  let s := fst (run k ops s0) in hist_b s = net_diff_object (Known v0) (b_d s).
Proof. intros. apply hist_b_tracked. apply tracks_b_run; assumption. Qed.

Theorem net_diff_coll_run : forall k ops s0 l0,
  tracks_c l0 s0 -> nosync ops = true ->
  let s := fst (run k ops s0) in hist_c s = net_diff_coll (Known l0) (c_d s).
Proof. intros. apply hist_c_tracked. apply tracks_c_run; assumption. Qed.

Theorem unknown_scalar_run : forall k ops s0,
  is_nostate (x_c s0) = true -> nosync ops = true ->
  let s := fst (run k ops s0) in hist_x s = net_diff_scalar Unknown (x_d s).
Proof.
  intros k ops s0 U NS s. rewrite hist_x_eq. subst s. rewrite unknown_x_run by assumption.
  apply from_scalar_unknown. exact U.
Qed.

Theorem unknown_object_nr_run : forall k ops s0,
  b_c s0 = CNoResult -> nosync ops = true ->
  let s := fst (run k ops s0) in hist_b s = net_diff_object Unknown (b_d s).
Proof.
  intros k ops s0 U NS s. rewrite hist_b_eq. subst s. rewrite unknown_b_nr_run by assumption.
  destruct (b_d (fst (run k ops s0))); reflexivity.
Qed.

Theorem unknown_object_nv_run : forall k ops s0,
  wf s0 -> b_c s0 = CNoValue -> nosync ops = true ->
  let s := fst (run k ops s0) in
  hist_b s = match b_d s with Some c => ([c], [], []) | None => blank end \/
  hist_b s = net_diff_object (Known (db_b s0)) (b_d s).
Proof.
  intros k ops s0 W U NS s. destruct (unknown_b_nv_run k ops s0 W NS U) as [E|T].
  - left. rewrite hist_b_eq. subst s. rewrite E. destruct (b_d (fst (run k ops s0))); reflexivity.
  - right. apply hist_b_tracked. exact T.
Qed.

Theorem set_back_scalar : forall k ops s0 v0,
  wf s0 -> tracks_x v0 s0 -> nosync ops = true ->
  let s := fst (run k ops s0) in x_d s = Some v0 -> hist_x s = ([], [v0], []).
Proof.
  intros k ops s0 v0 W T NS s D. subst s. rewrite (net_diff_scalar_run k ops s0 v0) by assumption.
  rewrite D. cbn. rewrite N.eqb_refl. reflexivity.
Qed.

Theorem set_back_object : forall k ops s0 v0,
  tracks_b v0 s0 -> nosync ops = true ->
  let s := fst (run k ops s0) in b_d s = Some v0 -> hist_b s = ([], [v0], []).
Proof.
  intros k ops s0 v0 T NS s D. subst s. rewrite (net_diff_object_run k ops s0 v0) by assumption.
  rewrite D. cbn. rewrite N.eqb_refl. reflexivity.
Qed.

Lemma filter_nil_iff : forall (f : val -> bool) l, (forall x, In x l -> f x = false) -> filter f l = [].
Proof.
  intros f l H. induction l as [|y r IH]; [reflexivity|]. cbn. rewrite (H y) by (left; reflexivity).
  apply IH. intros x Hx. apply H. right. exact Hx.
Qed.

Theorem set_back_coll : forall k ops s0 l0,
  tracks_c l0 s0 -> nosync ops = true ->
  let s := fst (run k ops s0) in
  forall l, c_d s = Some l -> same_set l l0 -> changes (hist_c s) = ([], []).
Proof.
  intros k ops s0 l0 T NS s l D S. subst s. rewrite (net_diff_coll_run k ops s0 l0) by assumption.
  rewrite D. cbn. f_equal.
  - apply filter_nil_iff. intros x Hx. apply negb_false_iff. apply memb_In. apply S. exact Hx.
  - apply filter_nil_iff. intros x Hx. apply negb_false_iff. apply memb_In. apply S. exact Hx.
Qed.

Theorem wf_reachable : forall ok x0 b0 c0 k ops, wf (fst (run k ops (init ok x0 b0 c0))).
Proof. intros. apply run_wf. apply init_wf. Qed.

Theorem flush_resets_history : forall s s' r, wf s -> flush s = (s', Done r) ->
  modified s' = false /\
  changes (hist_x s') = ([], []) /\ changes (hist_b s') = ([], []) /\ changes (hist_c s') = ([], []).
Proof.
  intros s s' r W H. destruct (flush_resets s s' r W H) as (X & B & C & M).
  split; [exact M|]. apply clean_changes; assumption.
Qed.

Theorem run_never_unreachable : forall k ops s, wf s ->
  forall o, In o (snd (run k ops s)) -> o_res o <> Fail Unreachable.
Proof.
  intros k ops. induction ops as [|op rest IH]; intros s W o I; cbn [run] in I; [contradiction|].
  pose proof (step_never_unreachable k op s W) as NU. pose proof (step_wf k op s W) as W1.
  destruct (step k op s) as [s1 r]. cbn [fst snd] in *.
  destruct (is_flush op && failed r).
  - destruct I as [<-|[]]. exact NU.
  - specialize (IH s1 W1 o). destruct (run k rest s1) as [s2 l]. cbn [snd] in *.
    destruct I as [<-|I]; [exact NU|apply IH; exact I].
Qed.
