(* C39 - Mapper.cascade_iterator computes exactly the objects reachable through relationships that carry the
   cascade, each once (the shared visited set), for every object graph - cyclic ones included. *)
From Coq Require Import List Bool Arith Lia.
From SAV.orm Require Import Cascade.
Import ListNotations.

Lemma mem_In : forall x l, mem x l = true <-> In x l.
Proof.
  intros x l. unfold mem. rewrite existsb_exists. split.
  - intros [y [Hy He]]. apply Nat.eqb_eq in He. subst. exact Hy.
  - intros H. exists x. split; auto. apply Nat.eqb_refl.
Qed.
Lemma mem_false_notIn : forall x l, mem x l = false <-> ~ In x l.
Proof.
  intros x l. split.
  - intros H Hi. apply mem_In in Hi. congruence.
  - intros H. destruct (mem x l) eqn:E; auto. apply mem_In in E. contradiction.
Qed.

Lemma NoDup_app_snoc : forall (l : list nat) c, NoDup l -> ~ In c l -> NoDup (l ++ [c]).
Proof.
  induction l as [|x l IH]; intros c Hnd Hn; simpl.
  - constructor; [intros []|constructor].
  - inversion Hnd; subst. constructor.
    + rewrite in_app_iff. intros [H|[H|[]]]; [contradiction|]. subst. apply Hn. left. reflexivity.
    + apply IH; auto. intros H. apply Hn. right. exact H.
Qed.

Section Iter.
Variable cfg : config.
Variable s : state.
Variable t : ctype.
Variable halt : nat -> bool.

(* one cascade step: [c] is yielded when expanding [n] *)
Definition edge (n c : nat) : Prop :=
  exists p, In p (props_of cfg (cls cfg n)) /\ has (prop_casc cfg p) t = true /\
            In c (children s t n p) /\ admissible cfg s t halt (prop_casc cfg p) c = true.

Inductive creach : nat -> nat -> Prop :=
| cr_one : forall n c, edge n c -> creach n c
| cr_step : forall n m c, creach n m -> edge m c -> creach n c.

Definition bounded (l : list nat) : Prop := forall x, In x l -> x < nobj cfg.

Lemma edge_bound : forall n c, edge n c -> c < nobj cfg.
Proof.
  intros n c [p [_ [_ [_ Ha]]]]. unfold admissible in Ha.
  apply andb_true_iff in Ha. destruct Ha as [Ha _]. apply andb_true_iff in Ha. destruct Ha as [Ha _].
  apply Nat.ltb_lt in Ha. exact Ha.
Qed.

(* ---- new_children ---- *)
Lemma new_children_gen : forall pc cs vis q0,
  NoDup (vis ++ q0) ->
  let q := fold_left (fun q c => if negb (mem c (vis ++ q)) && admissible cfg s t halt pc c then q ++ [c] else q) cs q0 in
  NoDup (vis ++ q) /\
  (exists ext, q = q0 ++ ext /\ forall c, In c ext -> In c cs /\ admissible cfg s t halt pc c = true) /\
  (forall c, In c cs -> admissible cfg s t halt pc c = true -> In c (vis ++ q)).
Proof.
  intros pc cs. induction cs as [|c cs IH]; intros vis q0 Hnd; cbn [fold_left].
  - split; [exact Hnd|]. split; [exists []; rewrite app_nil_r; split; [reflexivity|intros ? []]|intros ? []].
  - destruct (negb (mem c (vis ++ q0)) && admissible cfg s t halt pc c) eqn:E.
    + apply andb_true_iff in E. destruct E as [E1 E2]. apply negb_true_iff in E1. apply mem_false_notIn in E1.
      assert (Hnd' : NoDup (vis ++ q0 ++ [c])).
      { rewrite app_assoc. apply NoDup_app_snoc; auto. }
      specialize (IH vis (q0 ++ [c]) Hnd'). cbv zeta in IH. destruct IH as [I1 [[ext [I2 I3]] I4]].
      split; [exact I1|]. split.
      * exists (c :: ext). split. { rewrite I2, <- app_assoc. reflexivity. }
        intros x [->|Hx]; [split; [left; reflexivity|exact E2]|]. destruct (I3 x Hx). split; [right|]; assumption.
      * intros x [->|Hx] Ha.
        { rewrite I2, !in_app_iff. simpl. tauto. }
        apply I4; assumption.
    + specialize (IH vis q0 Hnd). cbv zeta in IH. destruct IH as [I1 [[ext [I2 I3]] I4]].
      split; [exact I1|]. split.
      * exists ext. split; [exact I2|]. intros x Hx. destruct (I3 x Hx). split; [right|]; assumption.
      * intros x [->|Hx] Ha; [|apply I4; assumption].
        rewrite Ha, andb_true_r in E. apply negb_false_iff in E. apply mem_In in E.
        rewrite I2. rewrite in_app_iff in E. rewrite !in_app_iff. tauto.
Qed.


Lemma bounded_length : forall l, NoDup l -> bounded l -> length l <= nobj cfg.
Proof.
  intros l Hnd Hb. rewrite <- (seq_length (nobj cfg) 0). apply NoDup_incl_length; auto.
  intros x Hx. apply in_seq. specialize (Hb x Hx). lia.
Qed.

Lemma creach_prepend : forall n c x, edge n c -> creach c x -> creach n x.
Proof.
  intros n c x He Hr. induction Hr.
  - eapply cr_step; [apply cr_one; exact He|exact H].
  - eapply cr_step; [apply IHHr; exact He|exact H].
Qed.

Definition closed_for (R : list nat) (m : nat) : Prop := forall c, edge m c -> In c R.

Lemma closed_mono : forall R R' m, closed_for R m -> incl R R' -> closed_for R' m.
Proof. intros R R' m H Hi c He. apply Hi, H, He. Qed.

Definition visit_ok (n : nat) (vis R : list nat) : Prop :=
  (exists ext, R = vis ++ ext) /\ NoDup R /\ bounded R /\ closed_for R n /\
  (forall m, In m R -> ~ In m vis -> closed_for R m /\ creach n m).

(* visiting a list of freshly discovered nodes one after the other *)
Lemma inner_fold : forall f,
  (forall n vis, NoDup vis -> bounded vis -> nobj cfg < f + length vis -> visit_ok n vis (visit cfg s t halt f n vis)) ->
  forall qs A, NoDup A -> bounded A -> (qs <> [] -> nobj cfg < f + length A) ->
  let R := fold_left (fun vis c => visit cfg s t halt f c vis) qs A in
  (exists ext, R = A ++ ext) /\ NoDup R /\ bounded R /\ (forall c, In c qs -> closed_for R c) /\
  (forall m, In m R -> ~ In m A -> closed_for R m /\ exists c, In c qs /\ creach c m).
Proof.
  intros f IH qs. induction qs as [|c qs IHq]; intros A Hnd Hb Hf; cbn [fold_left].
  - split; [exists []; rewrite app_nil_r; reflexivity|]. split; [exact Hnd|]. split; [exact Hb|].
    split; [intros ? []|]. intros m Hm Hn. contradiction.
  - assert (Hf' : nobj cfg < f + length A) by (apply Hf; discriminate).
    destruct (IH c A Hnd Hb Hf') as [[e1 E1] [N1 [B1 [C1 M1]]]].
    set (A1 := visit cfg s t halt f c A) in *.
    assert (Hf1 : qs <> [] -> nobj cfg < f + length A1).
    { intros _. rewrite E1, app_length. lia. }
    specialize (IHq A1 N1 B1 Hf1). cbv zeta in IHq.
    destruct IHq as [[e2 E2] [N2 [B2 [C2 M2]]]].
    set (R := fold_left (fun vis c0 => visit cfg s t halt f c0 vis) qs A1) in *.
    assert (Hinc : incl A1 R). { intros x Hx. rewrite E2. apply in_app_iff. left. exact Hx. }
    split. { exists (e1 ++ e2). rewrite E2, E1, app_assoc. reflexivity. }
    split; [exact N2|]. split; [exact B2|]. split.
    + intros x [->|Hx]; [eapply closed_mono; [exact C1|exact Hinc]|apply C2; exact Hx].
    + intros m Hm HnA. destruct (in_dec Nat.eq_dec m A1) as [Hin|Hnin].
      * destruct (M1 m Hin HnA) as [Hc Hr]. split; [eapply closed_mono; [exact Hc|exact Hinc]|].
        exists c. split; [left; reflexivity|exact Hr].
      * destruct (M2 m Hm Hnin) as [Hc [c' [Hc' Hr]]]. split; [exact Hc|]. exists c'. split; [right; exact Hc'|exact Hr].
Qed.

(* the loop over the properties of the expanded node *)
Lemma props_fold : forall f n vis0,
  (forall n vis, NoDup vis -> bounded vis -> nobj cfg < f + length vis -> visit_ok n vis (visit cfg s t halt f n vis)) ->
  nobj cfg < S f + length vis0 ->
  forall ps A, (forall p, In p ps -> In p (props_of cfg (cls cfg n))) ->
  (exists ext, A = vis0 ++ ext) -> NoDup A -> bounded A ->
  (forall m, In m A -> ~ In m vis0 -> closed_for A m /\ creach n m) ->
  let R := fold_left (fun vis p =>
                        if has (prop_casc cfg p) t then
                          let q := new_children cfg s t halt (prop_casc cfg p) (children s t n p) vis in
                          fold_left (fun vis c => visit cfg s t halt f c vis) q (vis ++ q)
                        else vis) ps A in
  (exists ext, R = vis0 ++ ext) /\ NoDup R /\ bounded R /\
  (forall m, In m R -> ~ In m vis0 -> closed_for R m /\ creach n m) /\
  incl A R /\
  (forall p c, In p ps -> has (prop_casc cfg p) t = true -> In c (children s t n p) ->
               admissible cfg s t halt (prop_casc cfg p) c = true -> In c R).
Proof.
  intros f n vis0 IH Hfuel ps. induction ps as [|p ps IHp]; intros A Hps [e0 E0] Hnd Hb HM; cbn [fold_left].
  - split; [exists e0; exact E0|]. split; [exact Hnd|]. split; [exact Hb|]. split; [exact HM|].
    split; [apply incl_refl|]. intros ? ? [].
  - assert (Hps' : forall p0, In p0 ps -> In p0 (props_of cfg (cls cfg n))) by (intros; apply Hps; right; assumption).
    destruct (has (prop_casc cfg p) t) eqn:Hhas.
    + unfold new_children.
      pose proof (new_children_gen (prop_casc cfg p) (children s t n p) A []) as NC.
      rewrite app_nil_r in NC. specialize (NC Hnd). cbv zeta in NC.
      set (q := fold_left (fun q c => if negb (mem c (A ++ q)) && admissible cfg s t halt (prop_casc cfg p) c then q ++ [c] else q)
                          (children s t n p) []) in *.
      destruct NC as [NDq [[ext [Eq Hq]] Hall]]. simpl in Eq. subst ext.
      assert (Hedge : forall c, In c q -> edge n c).
      { intros c Hc. destruct (Hq c Hc) as [Hch Ha]. exists p. split; [apply Hps; left; reflexivity|].
        split; [exact Hhas|]. split; assumption. }
      assert (Bq : bounded (A ++ q)).
      { intros x Hx. apply in_app_iff in Hx. destruct Hx as [Hx|Hx]; [apply Hb; exact Hx|]. eapply edge_bound, Hedge, Hx. }
      assert (Hf : q <> [] -> nobj cfg < f + length (A ++ q)).
      { intros Hne. rewrite E0, !app_length. destruct q; [contradiction|]. simpl. lia. }
      pose proof (inner_fold f IH q (A ++ q) NDq Bq Hf) as IN. cbv zeta in IN.
      set (A2 := fold_left (fun vis c => visit cfg s t halt f c vis) q (A ++ q)) in *.
      destruct IN as [[e2 E2] [N2 [B2 [C2 M2]]]].
      assert (HincA : incl A A2). { intros x Hx. rewrite E2, !in_app_iff. tauto. }
      assert (Hincq : incl q A2). { intros x Hx. rewrite E2, !in_app_iff. tauto. }
      assert (HM2 : forall m, In m A2 -> ~ In m vis0 -> closed_for A2 m /\ creach n m).
      { intros m Hm Hn0. destruct (in_dec Nat.eq_dec m A) as [HA|HnA].
        - destruct (HM m HA Hn0) as [Hc Hr]. split; [eapply closed_mono; eauto|exact Hr].
        - destruct (in_dec Nat.eq_dec m q) as [Hmq|Hnq].
          + split; [apply C2; exact Hmq|apply cr_one, Hedge, Hmq].
          + assert (Hn : ~ In m (A ++ q)) by (rewrite in_app_iff; tauto).
            destruct (M2 m Hm Hn) as [Hc [c [Hcq Hr]]]. split; [exact Hc|].
            eapply creach_prepend; [apply Hedge; exact Hcq|exact Hr]. }
      assert (E02 : exists ext, A2 = vis0 ++ ext).
      { exists (e0 ++ q ++ e2). rewrite E2, E0, <- !app_assoc. reflexivity. }
      specialize (IHp A2 Hps' E02 N2 B2 HM2). cbv zeta in IHp.
      destruct IHp as [X1 [X2 [X3 [X4 [X5 X6]]]]].
      split; [exact X1|]. split; [exact X2|]. split; [exact X3|]. split; [exact X4|].
      split; [eapply incl_tran; eauto|].
      intros p0 c [->|Hp0] Hh Hch Ha; [|eapply X6; eauto].
      apply X5. rewrite E2. rewrite <- app_assoc. apply in_app_iff.
      specialize (Hall c Hch Ha). apply in_app_iff in Hall. rewrite in_app_iff. tauto.
    + specialize (IHp A Hps' (ex_intro _ e0 E0) Hnd Hb HM). cbv zeta in IHp.
      destruct IHp as [X1 [X2 [X3 [X4 [X5 X6]]]]].
      split; [exact X1|]. split; [exact X2|]. split; [exact X3|]. split; [exact X4|]. split; [exact X5|].
      intros p0 c [->|Hp0] Hh Hch Ha; [congruence|eapply X6; eauto].
Qed.

Lemma visit_spec : forall fuel n vis, NoDup vis -> bounded vis -> nobj cfg < fuel + length vis ->
  visit_ok n vis (visit cfg s t halt fuel n vis).
Proof.
  induction fuel as [|f IH]; intros n vis Hnd Hb Hf.
  - pose proof (bounded_length vis Hnd Hb). simpl in Hf. lia.
  - cbn [visit].
    pose proof (props_fold f n vis IH Hf (props_of cfg (cls cfg n)) vis (fun p H => H)
                  (ex_intro _ [] (eq_sym (app_nil_r vis))) Hnd Hb) as PF.
    assert (H0 : forall m, In m vis -> ~ In m vis -> closed_for vis m /\ creach n m) by (intros; contradiction).
    specialize (PF H0). cbv zeta in PF. destruct PF as [X1 [X2 [X3 [X4 [X5 X6]]]]].
    split; [exact X1|]. split; [exact X2|]. split; [exact X3|]. split; [|exact X4].
    intros c [p [Hp [Hh [Hch Ha]]]]. eapply X6; eauto.
Qed.

(* ---- the iterator yields exactly the reachable objects, each once ---- *)
Theorem cascade_iter_reach : forall o x, In x (cascade_iter cfg s t halt o) <-> creach o x.
Proof.
  intros o x. unfold cascade_iter.
  assert (Hf : nobj cfg < S (nobj cfg) + length (@nil nat)) by (simpl; lia).
  destruct (visit_spec (S (nobj cfg)) o [] (NoDup_nil _) (fun y (H : In y []) => match H with end) Hf)
    as [_ [_ [_ [Cn M]]]].
  split.
  - intros H. apply (M x H). intros [].
  - intros H. induction H.
    + apply Cn. exact H.
    + specialize (IHcreach Cn M). destruct (M m IHcreach (fun F : In m [] => match F with end)) as [Hc _]. apply Hc. exact H0.
Qed.

Theorem cascade_iter_nodup : forall o, NoDup (cascade_iter cfg s t halt o).
Proof.
  intros o. unfold cascade_iter.
  assert (Hf : nobj cfg < S (nobj cfg) + length (@nil nat)) by (simpl; lia).
  destruct (visit_spec (S (nobj cfg)) o [] (NoDup_nil _) (fun y (H : In y []) => match H with end) Hf)
    as [_ [N _]]. exact N.
Qed.

Theorem cascade_iter_bound : forall o x, In x (cascade_iter cfg s t halt o) -> x < nobj cfg.
Proof.
  intros o x H. apply cascade_iter_reach in H. inversion H; subst; eapply edge_bound; eauto.
Qed.
End Iter.
