(* C34 - generic lemmas about passes over the object list and the functional identity map *)
From Coq Require Import List ZArith Bool Arith Lia.
Import ListNotations.
From SAV.orm Require Import IdMap IdMapSpec.
Open Scope Z_scope.

Lemma key_eqb_eq : forall a b, key_eqb a b = true <-> a = b.
Proof. intros [a1 a2] [b1 b2]. unfold key_eqb. simpl. rewrite andb_true_iff, !Z.eqb_eq. split.
  - intros [-> ->]. reflexivity.
  - intro H. inversion H. auto. Qed.
Lemma okey_eqb_some : forall a k, okey_eqb a (Some k) = true <-> a = Some k.
Proof. intros [a|] k; simpl.
  - rewrite key_eqb_eq. split; congruence.
  - split; discriminate. Qed.

Lemma mapi_length : forall f l n, length (mapi f n l) = length l.
Proof. induction l; simpl; intros; auto. Qed.
Lemma mapi_nth : forall f l n k, nth_error (mapi f n l) k = option_map (f (n + k)%nat) (nth_error l k).
Proof. induction l; simpl; intros n k. { destruct k; reflexivity. }
  destruct k; simpl. { rewrite Nat.add_0_r. reflexivity. }
  rewrite IHl. replace (n + S k)%nat with (S n + k)%nat by lia. reflexivity. Qed.
Lemma app_all_nth : forall f st k, nth_error (objs (app_all f st)) k = option_map (f k) (nth_error (objs st) k).
Proof. intros. unfold app_all. simpl. rewrite mapi_nth. reflexivity. Qed.
Lemma app_all_tx : forall f st, tx (app_all f st) = tx st. Proof. reflexivity. Qed.
Lemma app_all_length : forall f st, length (objs (app_all f st)) = length (objs st).
Proof. intros. unfold app_all. simpl. apply mapi_length. Qed.

Lemma get_nth : forall st i o, nth_error (objs st) i = Some o -> get st i = o.
Proof. intros. unfold get. apply nth_error_nth. exact H. Qed.

(* what an object of the new state was before the pass *)
Lemma app_all_inv_nth : forall f st k o', nth_error (objs (app_all f st)) k = Some o' ->
  exists o, nth_error (objs st) k = Some o /\ o' = f k o.
Proof. intros f st k o' H. rewrite app_all_nth in H. destruct (nth_error (objs st) k); [|discriminate].
  inversion H. eauto. Qed.

(* A: a pass that maps no new object and changes no key of a mapped object *)
Lemma pass_mono : forall f st,
  (forall k o, nth_error (objs st) k = Some o -> jb o = true ->
     jb (f k o) = true /\ (iimap (f k o) = true -> iimap o = true /\ okey (f k o) = okey o)) ->
  Inv st -> Inv (app_all f st).
Proof.
  intros f st Hf [HJ HU]. split.
  - intros k o' Hk. apply app_all_inv_nth in Hk as [o [Hk ->]]. apply Hf; auto. apply (HJ k o Hk).
  - intros key i j [oi' [Hi [Ii Ki]]] [oj' [Hj [Ij Kj]]].
    apply app_all_inv_nth in Hi as [oi [Hi ->]]. apply app_all_inv_nth in Hj as [oj [Hj ->]].
    destruct (Hf i oi Hi (HJ i oi Hi)) as [_ Ai]. destruct (Hf j oj Hj (HJ j oj Hj)) as [_ Aj].
    destruct (Ai Ii) as [Ii' Ki']. destruct (Aj Ij) as [Ij' Kj'].
    apply (HU key i j); [exists oi|exists oj]; repeat split; auto; congruence.
Qed.

(* B: state [i] is (re)mapped under [key], every other state mapped under [key] is evicted *)
Lemma pass_claiming : forall i key g st,
  (forall o, nth_error (objs st) i = Some o -> jb o = true ->
     jb (g o) = true /\ (iimap (g o) = true -> okey (g o) = Some key)) ->
  Inv st -> Inv (app_all (claiming i key g) st).
Proof.
  intros i key g st Hg [HJ HU]. split.
  - intros k o' Hk. apply app_all_inv_nth in Hk as [o [Hk ->]]. unfold claiming.
    destruct (Nat.eqb_spec k i); [subst; apply Hg; auto; apply (HJ i o Hk)|].
    pose proof (HJ k o Hk) as Hj. simpl in Hj.
    destruct (iimap o && okey_eqb (okey o) (Some key)); auto.
    revert Hj. unfold jb. simpl. destruct (inew o), (iimap o), (okey o); simpl; auto.
  - intros k a b [oa' [Ha [Ia Ka]]] [ob' [Hb [Ib Kb]]].
    apply app_all_inv_nth in Ha as [oa [Ha ->]]. apply app_all_inv_nth in Hb as [ob [Hb ->]].
    unfold claiming in *.
    destruct (Nat.eqb_spec a i) as [Ea|Ea]; destruct (Nat.eqb_spec b i) as [Eb|Eb]; subst; auto.
    + (* a = i, b <> i *)
      exfalso. destruct (Hg oa Ha (HJ i oa Ha)) as [_ A]. rewrite (A Ia) in Ka. inversion Ka; subst k.
      destruct (iimap ob && okey_eqb (okey ob) (Some key)) eqn:E; [simpl in Ib; discriminate|].
      rewrite Ib in E. simpl in E. apply (proj2 (okey_eqb_some _ _)) in Kb. congruence.
    + exfalso. destruct (Hg ob Hb (HJ i ob Hb)) as [_ A]. rewrite (A Ib) in Kb. inversion Kb; subst k.
      destruct (iimap oa && okey_eqb (okey oa) (Some key)) eqn:E; [simpl in Ia; discriminate|].
      rewrite Ia in E. simpl in E. apply (proj2 (okey_eqb_some _ _)) in Ka. congruence.
    + destruct (iimap oa && okey_eqb (okey oa) (Some key)); [simpl in Ia; discriminate|].
      destruct (iimap ob && okey_eqb (okey ob) (Some key)); [simpl in Ib; discriminate|].
      apply (HU k a b); [exists oa|exists ob]; auto.
Qed.

(* the first state mapped under a key *)
Lemma holder_from_some : forall k l n h, holder_from k n l = Some h ->
  exists o, nth_error l (h - n) = Some o /\ (n <= h)%nat /\ iimap o = true /\ okey o = Some k.
Proof.
  induction l as [|a l IH]; simpl; intros n h H; [discriminate|].
  destruct (iimap a && okey_eqb (okey a) (Some k)) eqn:E.
  - inversion H; subst. exists a. rewrite Nat.sub_diag. apply andb_prop in E as [E1 E2].
    apply okey_eqb_some in E2. auto.
  - apply IH in H as [o [H1 [H2 H3]]]. exists o. split; [|split; auto; lia].
    replace (h - n)%nat with (S (h - S n)) by lia. exact H1.
Qed.
Lemma holder_from_none : forall k l n, holder_from k n l = None ->
  forall j o, nth_error l j = Some o -> iimap o = true -> okey o <> Some k.
Proof.
  induction l as [|a l IH]; simpl; intros n H j o Hj Ii Ki; [destruct j; discriminate|].
  destruct (iimap a && okey_eqb (okey a) (Some k)) eqn:E; [discriminate|].
  destruct j; simpl in Hj.
  - inversion Hj; subst. rewrite Ii in E. simpl in E. apply (proj2 (okey_eqb_some _ _)) in Ki. congruence.
  - eapply IH; eauto.
Qed.
Lemma holder_some : forall k st h, holder k st = Some h -> imap st k h.
Proof. intros k st h H. apply holder_from_some in H as [o [H1 [_ [H3 H4]]]]. rewrite Nat.sub_0_r in H1.
  exists o. auto. Qed.
Lemma holder_none : forall k st, holder k st = None -> forall j, ~ imap st k j.
Proof. intros k st H j [o [H1 [H2 H3]]]. eapply holder_from_none; eauto. Qed.

(* C: state [i] is mapped under its own key, which nobody else holds *)
Lemma pass_add : forall i g st key,
  okey (get st i) = Some key -> conflict i st = false ->
  (forall o, jb o = true -> okey o = Some key -> jb (g o) = true /\ okey (g o) = Some key) ->
  Inv st -> Inv (app_all (only i g) st).
Proof.
  intros i g st key Hk Hc Hg [HJ HU].
  assert (Hfree : forall j, imap st key j -> j = i).
  { intros j Hj. unfold conflict in Hc. rewrite Hk in Hc. destruct (holder key st) as [h|] eqn:Eh.
    - apply negb_false_iff, Nat.eqb_eq in Hc. subst h. apply holder_some in Eh. apply (HU key j i); auto.
    - exfalso. eapply holder_none; eauto. }
  split.
  - intros k o' Hko. apply app_all_inv_nth in Hko as [o [Hko ->]]. unfold only.
    destruct (Nat.eqb_spec k i); [subst|apply (HJ k o Hko)].
    apply Hg; [apply (HJ i o Hko)|]. rewrite <- (get_nth _ _ _ Hko). exact Hk.
  - intros k a b [oa' [Ha [Ia Ka]]] [ob' [Hb [Ib Kb]]].
    apply app_all_inv_nth in Ha as [oa [Ha ->]]. apply app_all_inv_nth in Hb as [ob [Hb ->]].
    unfold only in *.
    destruct (Nat.eqb_spec a i) as [Ea|Ea]; destruct (Nat.eqb_spec b i) as [Eb|Eb]; subst; auto.
    + assert (Ko : okey oa = Some key) by (rewrite <- (get_nth _ _ _ Ha); exact Hk).
      destruct (Hg oa (HJ i oa Ha) Ko) as [_ K']. rewrite K' in Ka. inversion Ka; subst k.
      symmetry. apply Hfree. exists ob. auto.
    + assert (Ko : okey ob = Some key) by (rewrite <- (get_nth _ _ _ Hb); exact Hk).
      destruct (Hg ob (HJ i ob Hb) Ko) as [_ K']. rewrite K' in Kb. inversion Kb; subst k.
      apply Hfree. exists oa. auto.
    + apply (HU k a b); [exists oa|exists ob]; auto.
Qed.

(* D: a new object at the end of the list *)
Lemma add_obj_nth : forall o st k x, nth_error (objs (add_obj o st)) k = Some x ->
  (nth_error (objs st) k = Some x /\ (k < length (objs st))%nat) \/ (k = length (objs st) /\ x = o).
Proof.
  intros o st k x H. unfold add_obj in H. simpl in H.
  destruct (Nat.lt_ge_cases k (length (objs st))).
  - rewrite nth_error_app1 in H by auto. auto.
  - rewrite nth_error_app2 in H by auto. destruct (k - length (objs st))%nat eqn:E; simpl in H.
    + inversion H; subst. right. split; [lia|reflexivity].
    + destruct n; discriminate.
Qed.
Lemma add_obj_inv : forall o st, jb o = true ->
  (iimap o = true -> forall k, okey o = Some k -> forall j, ~ imap st k j) ->
  Inv st -> Inv (add_obj o st).
Proof.
  intros o st Ho Hfree [HJ HU]. split.
  - intros k x Hk. apply add_obj_nth in Hk as [[Hk _]|[_ ->]]; auto. apply (HJ k x Hk).
  - intros k a b [oa [Ha [Ia Ka]]] [ob [Hb [Ib Kb]]].
    apply add_obj_nth in Ha as [[Ha La]|[Ea ->]]; apply add_obj_nth in Hb as [[Hb Lb]|[Eb ->]].
    + apply (HU k a b); [exists oa|exists ob]; auto.
    + exfalso. apply (Hfree Ib k Kb a). exists oa. auto.
    + exfalso. apply (Hfree Ia k Ka b). exists ob. auto.
    + congruence.
Qed.

Lemma Inv_set_tx : forall t st, Inv (set_tx t st) <-> Inv st.
Proof. intros. unfold Inv, SP, functional, imap. simpl. tauto. Qed.
Lemma Inv_set_flushed : forall b st, Inv (set_flushed b st) <-> Inv st.
Proof. intros. unfold Inv, SP, functional, imap. simpl. tauto. Qed.
Lemma Inv_flag_bad : forall b st, Inv (flag_bad b st) <-> Inv st.
Proof. intros. unfold Inv, SP, functional, imap. simpl. tauto. Qed.
Lemma autobegin_inv : forall st, Inv st -> Inv (autobegin st).
Proof. intros. unfold autobegin. destruct (tx st); auto. Qed.
