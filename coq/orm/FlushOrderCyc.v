(* C31 - the three facts about find_cycles that the main theorem needs ([cyc_ok]) hold for the cycle set of
   the model, for every graph: they follow from the shape of the per-property dependency tables *)
From Coq Require Import List NArith Bool Lia Arith.
Import ListNotations.
From SAV.util Require Import Topo Cycles TopoRun TopoProofs CyclesSound CyclesComplete CyclesExact.
From SAV.orm Require Import FlushOrder FlushOrderSpec FlushOrderBase FlushOrderCover FlushOrderCovered FlushOrderTotal.
Local Open Scope N_scope.

(* ---------------------------------------------------------------- classes of records *)
Inductive acl := CSave | CDel | CProcF | CProcT | CPostF | CPostT | COther.
Definition acls (a : action) : acl :=
  match a with
  | SaveAll _ => CSave | DelAll _ => CDel
  | ProcAll _ false => CProcF | ProcAll _ true => CProcT
  | PostAll _ false => CPostF | PostAll _ true => CPostT
  | _ => COther end.
Definition rcls (r : role) : acl :=
  match r with
  | PSaves | CSaves => CSave | PDels | CDels => CDel | AfterSave => CProcF | BeforeDel => CProcT
  | CPost | PPost => CPostF | CPre | PPre => CPostT end.
Lemma rcls_act d r : acls (role_act d r) = rcls r.
Proof. destruct r; reflexivity. Qed.

Definition acl_eqb (a b : acl) : bool :=
  match a, b with CSave, CSave | CDel, CDel | CProcF, CProcF | CProcT, CProcT | CPostF, CPostF | CPostT, CPostT | COther, COther => true | _, _ => false end.
Definition role_eqb (a b : role) : bool :=
  match a, b with PSaves, PSaves | CSaves, CSaves | PDels, PDels | CDels, CDels | AfterSave, AfterSave | BeforeDel, BeforeDel
                | CPost, CPost | CPre, CPre | PPost, PPost | PPre, PPre => true | _, _ => false end.
Lemma role_eqb_eq a b : role_eqb a b = true -> a = b.
Proof. destruct a, b; simpl; intros H; try reflexivity; discriminate. Qed.

(* what the tables allow, as one boolean per entry *)
Definition trans_ok (c1 c2 : acl) : bool :=
  match c1, c2 with
  | CSave, CDel | CSave, CProcF | CProcF, CSave | CProcF, CDel | CDel, CDel | CProcT, CSave | CProcT, CDel
  | CProcF, CPostF | CProcF, CPostT | CProcT, CPostT | CPostT, CDel => true
  | _, _ => false end.
Definition entry_ok (e : N * bool * list (role * role)) : bool :=
  let k := fst (fst e) in let p := snd (fst e) in
  forallb (fun rr =>
    trans_ok (rcls (fst rr)) (rcls (snd rr)) &&
    (* into AfterSave: from the saves; the one-to-many table only from the parent, the many-to-one one only from the child *)
    (negb (role_eqb (snd rr) AfterSave) ||
       (if N.eqb k 0 && negb p then role_eqb (fst rr) PSaves
        else if N.eqb k 1 && negb p then role_eqb (fst rr) CSaves
        else role_eqb (fst rr) PSaves || role_eqb (fst rr) CSaves)) &&
    (* from AfterSave to a save *)
    (negb (role_eqb (fst rr) AfterSave && acl_eqb (rcls (snd rr)) CSave) ||
       (N.eqb k 0 && negb p && role_eqb (snd rr) CSaves) || (N.eqb k 1 && negb p && role_eqb (snd rr) PSaves)) &&
    (* between deletes *)
    (negb (acl_eqb (rcls (fst rr)) CDel && acl_eqb (rcls (snd rr)) CDel) ||
       (N.eqb k 0 && negb p && role_eqb (fst rr) CDels && role_eqb (snd rr) PDels) ||
       (N.eqb k 1 && negb p && role_eqb (fst rr) PDels && role_eqb (snd rr) CDels))) (snd e).
Lemma tables_ok : forallb entry_ok (t_prop std_tables) = true.
Proof. vm_compute. reflexivity. Qed.

Lemma prop_edges_entry k p rr : In rr (prop_edges std_tables k p) ->
  exists e, In e (t_prop std_tables) /\ fst (fst e) = k /\ snd (fst e) = p /\ In rr (snd e).
Proof. unfold prop_edges. destruct (find _ (t_prop std_tables)) as [e|] eqn:F; [|intros []]. intros H.
  apply find_some in F. destruct F as [F1 F2]. apply andb_true_iff in F2. destruct F2 as [A B].
  apply N.eqb_eq in A. apply eqb_prop in B. exists e. auto. Qed.

Lemma edge_facts k p r1 r2 : In (r1, r2) (prop_edges std_tables k p) ->
  trans_ok (rcls r1) (rcls r2) = true /\
  (r2 = AfterSave -> (k = 0 /\ p = false -> r1 = PSaves) /\ (k = 1 /\ p = false -> r1 = CSaves) /\ (r1 = PSaves \/ r1 = CSaves)) /\
  (r1 = AfterSave -> rcls r2 = CSave -> (k = 0 /\ p = false /\ r2 = CSaves) \/ (k = 1 /\ p = false /\ r2 = PSaves)) /\
  (rcls r1 = CDel -> rcls r2 = CDel -> (k = 0 /\ p = false /\ r1 = CDels /\ r2 = PDels) \/ (k = 1 /\ p = false /\ r1 = PDels /\ r2 = CDels)).
Proof.
  intros H. destruct (prop_edges_entry _ _ _ H) as [e [He [Hk [Hp Hin]]]].
  pose proof tables_ok as T. rewrite forallb_forall in T. specialize (T e He). unfold entry_ok in T. rewrite forallb_forall in T.
  specialize (T _ Hin). rewrite Hk, Hp in T. simpl fst in T; simpl snd in T.
  apply andb_true_iff in T. destruct T as [T TD]. apply andb_true_iff in T. destruct T as [T TC].
  apply andb_true_iff in T. destruct T as [T TB]. split; [exact T|]. split; [|split].
  - intros ->. simpl in TB. destruct (N.eqb k 0 && negb p) eqn:E0.
    + apply role_eqb_eq in TB. apply andb_true_iff in E0. destruct E0 as [E0 E0']. apply N.eqb_eq in E0. apply negb_true_iff in E0'.
      subst. split; [auto|]. split; [intros [X _]; lia|auto].
    + destruct (N.eqb k 1 && negb p) eqn:E1.
      * apply role_eqb_eq in TB. apply andb_true_iff in E1. destruct E1 as [E1 E1']. apply N.eqb_eq in E1. apply negb_true_iff in E1'.
        subst. split; [intros [X _]; lia|]. split; [auto|auto].
      * split; [intros [-> ->]; simpl in E0; discriminate|]. split; [intros [-> ->]; simpl in E1; discriminate|].
        apply orb_true_iff in TB. destruct TB as [X|X]; apply role_eqb_eq in X; auto.
  - intros -> Hc. simpl in TC. rewrite Hc in TC. simpl in TC. apply orb_true_iff in TC. destruct TC as [X|X].
    + apply andb_true_iff in X. destruct X as [X X3]. apply andb_true_iff in X. destruct X as [X X2].
      apply N.eqb_eq in X. apply negb_true_iff in X2. apply role_eqb_eq in X3. auto.
    + apply andb_true_iff in X. destruct X as [X X3]. apply andb_true_iff in X. destruct X as [X X2].
      apply N.eqb_eq in X. apply negb_true_iff in X2. apply role_eqb_eq in X3. auto.
  - intros C1 C2. rewrite C1, C2 in TD. simpl in TD. apply orb_true_iff in TD. destruct TD as [X|X].
    + apply andb_true_iff in X. destruct X as [X X4]. apply andb_true_iff in X. destruct X as [X X3]. apply andb_true_iff in X. destruct X as [X X2].
      apply N.eqb_eq in X. apply negb_true_iff in X2. apply role_eqb_eq in X3, X4. auto.
    + apply andb_true_iff in X. destruct X as [X X4]. apply andb_true_iff in X. destruct X as [X X3]. apply andb_true_iff in X. destruct X as [X X2].
      apply N.eqb_eq in X. apply negb_true_iff in X2. apply role_eqb_eq in X3, X4. auto 10.
Qed.

Lemma code_mod a : code a mod 7 = match a with SaveAll _ => 0 | DelAll _ => 1 | ProcAll _ _ => 2 | PostAll _ _ => 3
                                             | SaveSt _ => 4 | DelSt _ => 5 | ProcSt _ _ _ => 6 end.
Proof. destruct a; unfold code; try (apply mod7; lia). replace (7 * m) with (7 * m + 0) by lia. apply mod7. lia. Qed.

(* ---------------------------------------------------------------- the per-mapper dependency graph *)
Section Graph.
Variable g : graph.
Hypothesis Hnd : NoDup (map d_id (g_deps g)).
Notation E0 := (edges0 std_tables g).

Lemma edge0_inv a b : In (a, b) E0 ->
  (exists m, a = SaveAll m /\ b = DelAll m) \/
  (exists d r1 r2, In d (g_deps g) /\ d_active d = true /\ In (r1, r2) (prop_edges std_tables (d_kind d) (d_post d)) /\
                   a = role_act d r1 /\ b = role_act d r2).
Proof. unfold edges0. intros H. apply in_app_or in H. destruct H as [H|H].
  - apply in_map_iff in H. destruct H as [m [E _]]. inversion E. left. eauto.
  - apply in_flat_map in H. destruct H as [d [Hd H]]. unfold active in Hd. apply filter_In in Hd. destruct Hd as [Hd Ha].
    unfold dep_edges0 in H. apply in_map_iff in H. destruct H as [[r1 r2] [E H]]. inversion E. right. exists d, r1, r2. auto. Qed.

Lemma edge_trans a b : In (a, b) E0 -> trans_ok (acls a) (acls b) = true.
Proof. intros H. destruct (edge0_inv _ _ H) as [[m [-> ->]]|[d [r1 [r2 [_ [_ [Hr [-> ->]]]]]]]]; [reflexivity|].
  rewrite !rcls_act. apply (edge_facts _ _ _ _ Hr). Qed.

Lemma coarse_inj a a' : acls a <> COther -> code a' = code a -> a' = a.
Proof. destruct a; simpl; intros H E; try (exfalso; apply H; reflexivity).
  - apply code_SaveAll, E. - apply code_DelAll, E. - apply code_ProcAll, E. - apply code_PostAll, E. Qed.

Lemma edge_coarse a b : In (a, b) E0 -> acls a <> COther /\ acls b <> COther.
Proof. intros H. pose proof (edge_trans _ _ H) as T. destruct (acls a), (acls b); simpl in T; try discriminate; split; discriminate. Qed.

Inductive areach : action -> action -> Prop :=
| ar1 a b : In (a, b) E0 -> areach a b
| arS a b c : In (a, b) E0 -> areach b c -> areach a c.

Lemma areach_trans a b c : areach a b -> areach b c -> areach a c.
Proof. induction 1; intros; [eapply arS; eassumption|eapply arS; [eassumption|auto]]. Qed.
Lemma areach_first a c : areach a c -> exists z, In (a, z) E0 /\ (z = c \/ areach z c).
Proof. destruct 1; eauto. Qed.
Lemma areach_last a c : areach a c -> exists y, In (y, c) E0 /\ (y = a \/ areach a y).
Proof. induction 1 as [a b H|a b c H _ IH]; [eauto|]. destruct IH as [y [Hy Hr]]. exists y. split; [exact Hy|right].
  destruct Hr as [->|Hr]; [apply ar1, H|eapply arS; eassumption]. Qed.
Lemma areach_coarse a c : areach a c -> acls a <> COther /\ acls c <> COther.
Proof. induction 1 as [a b H|a b c H _ IH]; [apply edge_coarse, H|]. split; [apply (edge_coarse _ _ H)|apply IH]. Qed.

Lemma in_cedges x y l : In (x, y) (cedges l) <-> exists a b, In (a, b) l /\ x = code a /\ y = code b.
Proof. unfold cedges. rewrite in_map_iff. split.
  - intros [[a b] [E H]]. inversion E. eauto.
  - intros [a [b [H [-> ->]]]]. exists (a, b). auto. Qed.

Lemma reach_areach x y : reach (cedges E0) x y -> exists a b, x = code a /\ y = code b /\ areach a b.
Proof. induction 1 as [x y H|x y z H _ IH].
  - apply in_cedges in H. destruct H as [a [b [H [-> ->]]]]. exists a, b. split; [reflexivity|]. split; [reflexivity|apply ar1, H].
  - apply in_cedges in H. destruct H as [a [b [H [-> ->]]]]. destruct IH as [b' [c [E1 [E2 R]]]].
    assert (b' = b) by (apply coarse_inj; [apply (edge_coarse _ _ H)|congruence]). subst b'.
    exists a, c. split; [reflexivity|]. split; [exact E2|eapply arS; eassumption]. Qed.
Lemma areach_reach a b : areach a b -> reach (cedges E0) (code a) (code b).
Proof. induction 1 as [a b H|a b c H _ IH].
  - apply r1. apply in_cedges. eauto.
  - eapply rS; [|exact IH]. apply in_cedges. eauto. Qed.

Lemma on_cycle_action x : on_cycle (cedges E0) x -> exists a, x = code a /\ areach a a.
Proof. intros H. destruct (reach_areach _ _ H) as [a [b [E1 [E2 R]]]]. assert (b = a).
  { apply coarse_inj; [apply (areach_coarse _ _ R)|congruence]. }
  subst b. eauto. Qed.

(* ---- closure properties *)
Lemma del_closed a b : areach a b -> acls a = CDel -> acls b = CDel.
Proof. induction 1 as [a b H|a b c H _ IH]; intros Ha.
  - pose proof (edge_trans _ _ H) as T. rewrite Ha in T. destruct (acls b); simpl in T; try discriminate; reflexivity.
  - apply IH. pose proof (edge_trans _ _ H) as T. rewrite Ha in T. destruct (acls b); simpl in T; try discriminate; reflexivity. Qed.

Lemma cycle_class a : areach a a -> acls a = CSave \/ acls a = CDel \/ acls a = CProcF.
Proof. intros H. destruct (acls a) eqn:C; auto; exfalso.
  - destruct (areach_last _ _ H) as [y [Hy _]]. pose proof (edge_trans _ _ Hy) as T. rewrite C in T. destruct (acls y); discriminate.
  - destruct (areach_first _ _ H) as [z [Hz _]]. pose proof (edge_trans _ _ Hz) as T. rewrite C in T. destruct (acls z); discriminate.
  - destruct (areach_first _ _ H) as [z [Hz Hr]]. pose proof (edge_trans _ _ Hz) as T. rewrite C in T.
    assert (Dz : acls z = CDel) by (destruct (acls z); simpl in T; try discriminate; reflexivity).
    destruct Hr as [->|Hr]; [congruence|]. pose proof (del_closed _ _ Hr Dz). congruence.
  - apply (areach_coarse _ _ H). exact C. Qed.

Theorem cycles_shape cy : cycles std_tables g = Some cy -> cyc_shape cy = true.
Proof. intros Hc. destruct (cycles_exact std_tables g) as [cy' [E Hx]]. rewrite Hc in E. inversion E; subst cy'.
  unfold cyc_shape. apply forallb_forall. intros x Hin. apply Hx in Hin. destruct (on_cycle_action _ Hin) as [a [-> R]].
  apply N.ltb_lt. rewrite code_mod. destruct (cycle_class a R) as [C|[C|C]]; destruct a as [m|m|d b|m b|s|s|d b s]; try destruct b; simpl in C; try discriminate; lia. Qed.

(* ---- a processor is on a cycle only together with the save record of its parent mapper *)
Lemma role_is_procF d r i : role_act d r = ProcAll i false -> r = AfterSave /\ d_id d = i.
Proof. destruct r; simpl; intros H; inversion H; auto. Qed.

Lemma dead_end z a : areach z a -> acls a = CProcF \/ acls a = CSave -> acls z = CSave \/ acls z = CProcF \/ acls z = CProcT.
Proof. intros R Ha. destruct (acls z) eqn:C; auto; exfalso.
  - pose proof (del_closed _ _ R C). destruct Ha; congruence.
  - destruct (areach_first _ _ R) as [w [Hw _]]. pose proof (edge_trans _ _ Hw) as T. rewrite C in T. destruct (acls w); discriminate.
  - destruct (areach_first _ _ R) as [w [Hw Hr]]. pose proof (edge_trans _ _ Hw) as T. rewrite C in T.
    assert (Dw : acls w = CDel) by (destruct (acls w); simpl in T; try discriminate; reflexivity).
    destruct Hr as [->|Hr]; [destruct Ha; congruence|]. pose proof (del_closed _ _ Hr Dw). destruct Ha; congruence.
  - destruct (areach_coarse _ _ R) as [X _]. apply X. exact C. Qed.

Lemma proc_cycle_parent d : In d (g_deps g) -> areach (ProcAll (d_id d) false) (ProcAll (d_id d) false) ->
  areach (SaveAll (d_parent d)) (SaveAll (d_parent d)).
Proof.
  intros Hd R. set (a := ProcAll (d_id d) false) in *.
  destruct (areach_first _ _ R) as [z [Hz Hr]]. pose proof (edge_trans _ _ Hz) as Tz.
  assert (Rz : areach z a).
  { destruct Hr as [->|Hr]; [|exact Hr]. simpl in Tz. discriminate. }
  assert (Cz : acls z = CSave).
  { destruct (dead_end _ _ Rz (or_introl eq_refl)) as [C|[C|C]]; [exact C| |]; rewrite C in Tz; simpl in Tz; discriminate. }
  destruct (edge0_inv _ _ Hz) as [[m [E _]]|[d' [r1 [r2 [Hd' [_ [Hr12 [E1 E2]]]]]]]]; [discriminate|].
  symmetry in E1. apply role_is_procF in E1. destruct E1 as [-> Eid].
  assert (d' = d) by (apply (dep_by_id g Hnd); assumption). subst d'.
  destruct (edge_facts _ _ _ _ Hr12) as [_ [_ [F3 _]]].
  assert (Cr2 : rcls r2 = CSave) by (rewrite <- (rcls_act d r2), <- E2; exact Cz).
  destruct (F3 eq_refl Cr2) as [[Hk [Hp ->]]|[Hk [Hp ->]]].
  - (* one-to-many: the predecessor is the parent's save *)
    destruct (areach_last _ _ R) as [y [Hy Hry]].
    destruct (edge0_inv _ _ Hy) as [[m [_ E]]|[d' [r1' [r2' [Hd'' [_ [Hr12' [E1' E2']]]]]]]]; [discriminate|].
    symmetry in E2'. apply role_is_procF in E2'. destruct E2' as [-> Eid'].
    assert (d' = d) by (apply (dep_by_id g Hnd); assumption). subst d'.
    destruct (edge_facts _ _ _ _ Hr12') as [_ [F2 _]]. destruct (F2 eq_refl) as [F2a _]. rewrite (F2a (conj Hk Hp)) in E1'. simpl in E1'.
    subst y. destruct Hry as [X|Hry]; [discriminate|]. eapply arS; eassumption.
  - simpl in E2. subst z. eapply areach_trans; [exact Rz|apply ar1, Hz].
Qed.

Theorem cycles_procs_follow cy : cycles std_tables g = Some cy -> procs_follow g cy = true.
Proof. intros Hc. destruct (cycles_exact std_tables g) as [cy' [E Hx]]. rewrite Hc in E. inversion E; subst cy'.
  unfold procs_follow. apply forallb_forall. intros d Hd. apply andb_true_iff. split.
  - destruct (incyc cy (ProcAll (d_id d) false)) eqn:I; [|reflexivity]. simpl. unfold incyc in *. apply memb_In in I. apply Hx in I.
    destruct (on_cycle_action _ I) as [a [Ea R]]. symmetry in Ea. apply code_ProcAll in Ea. subst a.
    apply memb_In. apply Hx. apply areach_reach. apply proc_cycle_parent; assumption.
  - destruct (incyc cy (ProcAll (d_id d) true)) eqn:I; [|reflexivity]. exfalso. unfold incyc in I. apply memb_In in I. apply Hx in I.
    destruct (on_cycle_action _ I) as [a [Ea R]]. symmetry in Ea. apply code_ProcAll in Ea. subst a.
    destruct (cycle_class _ R) as [C|[C|C]]; discriminate. Qed.

(* ---- the saves and the deletes of a mapper are on cycles together (the assertion of
        per_state_flush_actions): a save cycle is a cycle of "X must be saved before Y" steps, each of which
        has a mirrored edge between the deletes *)
Definition sstep (X Y : N) : Prop :=
  exists d, In d (g_deps g) /\ d_active d = true /\ d_post d = false /\
    ((d_kind d = 0 /\ d_parent d = X /\ d_child d = Y) \/ (d_kind d = 1 /\ d_child d = X /\ d_parent d = Y)).
Inductive splus : N -> N -> Prop :=
| sp1 X Y : sstep X Y -> splus X Y
| spS X Y Z : sstep X Y -> splus Y Z -> splus X Z.
Lemma splus_snoc X Y Z : splus X Y -> sstep Y Z -> splus X Z.
Proof. induction 1; intros; [eapply spS; [eassumption|apply sp1; assumption]|eapply spS; [eassumption|auto]]. Qed.

Lemma sstep_edges X Y : sstep X Y -> areach (SaveAll X) (SaveAll Y) /\ In (DelAll Y, DelAll X) E0.
Proof. intros [d [Hd [Ha [Hp [[Hk [<- <-]]|[Hk [<- <-]]]]]]].
  - split.
    + apply arS with (b := ProcAll (d_id d) false); [|apply ar1].
      * change (In (role_act d PSaves, role_act d AfterSave) E0).
        apply edges0_dep; [assumption|assumption|]. rewrite Hk, Hp. simpl. tauto.
      * change (In (role_act d AfterSave, role_act d CSaves) E0). apply edges0_dep; [assumption|assumption|]. rewrite Hk, Hp. simpl. tauto.
    + change (In (role_act d CDels, role_act d PDels) E0). apply edges0_dep; [assumption|assumption|]. rewrite Hk, Hp. simpl. tauto.
  - split.
    + apply arS with (b := ProcAll (d_id d) false); [|apply ar1].
      * change (In (role_act d CSaves, role_act d AfterSave) E0). apply edges0_dep; [assumption|assumption|]. rewrite Hk, Hp. simpl. tauto.
      * change (In (role_act d AfterSave, role_act d PSaves) E0). apply edges0_dep; [assumption|assumption|]. rewrite Hk, Hp. simpl. tauto.
    + change (In (role_act d PDels, role_act d CDels) E0). apply edges0_dep; [assumption|assumption|]. rewrite Hk, Hp. simpl. tauto.
Qed.

Lemma splus_paths X Y : splus X Y -> areach (SaveAll X) (SaveAll Y) /\ areach (DelAll Y) (DelAll X).
Proof. induction 1 as [X Y H|X Y Z H _ [IH1 IH2]].
  - destruct (sstep_edges _ _ H) as [A B]. split; [exact A|apply ar1, B].
  - destruct (sstep_edges _ _ H) as [A B]. split; [eapply areach_trans; eassumption|]. eapply areach_trans; [exact IH2|apply ar1, B]. Qed.

Lemma role_is_del d r m : role_act d r = DelAll m -> (r = PDels /\ d_parent d = m) \/ (r = CDels /\ d_child d = m).
Proof. destruct r; simpl; intros H; inversion H; auto. Qed.
Lemma role_is_save d r m : role_act d r = SaveAll m -> (r = PSaves /\ d_parent d = m) \/ (r = CSaves /\ d_child d = m).
Proof. destruct r; simpl; intros H; inversion H; auto. Qed.

Lemma del_edge_step A M : In (DelAll A, DelAll M) E0 -> sstep M A.
Proof. intros H. destruct (edge0_inv _ _ H) as [[m [E _]]|[d [r1 [r2 [Hd [Ha [Hr [E1 E2]]]]]]]]; [discriminate|].
  destruct (edge_facts _ _ _ _ Hr) as [_ [_ [_ F4]]].
  assert (C1 : rcls r1 = CDel) by (rewrite <- (rcls_act d r1), <- E1; reflexivity).
  assert (C2 : rcls r2 = CDel) by (rewrite <- (rcls_act d r2), <- E2; reflexivity).
  symmetry in E1, E2. destruct (F4 C1 C2) as [[Hk [Hp [-> ->]]]|[Hk [Hp [-> ->]]]]; simpl in E1, E2; inversion E1; inversion E2; subst;
  exists d; repeat split; auto. Qed.

Lemma del_paths : forall a b, areach a b -> forall A, a = DelAll A -> exists B, b = DelAll B /\ splus B A.
Proof. induction 1 as [a b H|a b c H R IH]; intros A ->.
  - pose proof (edge_trans _ _ H) as T. destruct b as [m|m|? ?|? ?|?|?|? ? ?]; try (destruct isdel); simpl in T; try discriminate.
    exists m. split; [reflexivity|]. apply sp1, del_edge_step, H.
  - pose proof (edge_trans _ _ H) as T. destruct b as [m|m|? ?|? ?|?|?|? ? ?]; try (destruct isdel); simpl in T; try discriminate.
    destruct (IH m eq_refl) as [B [-> S]]. exists B. split; [reflexivity|]. eapply splus_snoc; [exact S|apply del_edge_step, H]. Qed.

(* the target of a processor's save edge *)
Definition ptarget (i Z : N) : Prop :=
  exists d, In d (g_deps g) /\ d_active d = true /\ d_id d = i /\ d_post d = false /\
            ((d_kind d = 0 /\ Z = d_child d) \/ (d_kind d = 1 /\ Z = d_parent d)).

Lemma proc_save_edge i Z : In (ProcAll i false, SaveAll Z) E0 -> ptarget i Z.
Proof. intros H. destruct (edge0_inv _ _ H) as [[m [E _]]|[d [r1 [r2 [Hd [Ha [Hr [E1 E2]]]]]]]]; [discriminate|].
  symmetry in E1. apply role_is_procF in E1. destruct E1 as [-> Eid].
  destruct (edge_facts _ _ _ _ Hr) as [_ [_ [F3 _]]].
  assert (C2 : rcls r2 = CSave) by (rewrite <- (rcls_act d r2), <- E2; reflexivity).
  destruct (F3 eq_refl C2) as [[Hk [Hp ->]]|[Hk [Hp ->]]]; simpl in E2; inversion E2; exists d; repeat split; auto. Qed.

Lemma save_proc_edge X i Z : In (SaveAll X, ProcAll i false) E0 -> ptarget i Z -> sstep X Z.
Proof. intros H [d [Hd [Ha [Eid [Hp Hk]]]]].
  destruct (edge0_inv _ _ H) as [[m [_ E]]|[d' [r1 [r2 [Hd' [Ha' [Hr [E1 E2]]]]]]]]; [discriminate|].
  symmetry in E2. apply role_is_procF in E2. destruct E2 as [-> Eid'].
  assert (d' = d) by (apply (dep_by_id g Hnd); [assumption|assumption|congruence]). subst d'.
  destruct (edge_facts _ _ _ _ Hr) as [_ [F2 _]]. destruct (F2 eq_refl) as [F2a [F2b _]]. symmetry in E1.
  destruct Hk as [[Hk ->]|[Hk ->]].
  - rewrite (F2a (conj Hk Hp)) in E1. simpl in E1. inversion E1. exists d. repeat split; auto.
  - rewrite (F2b (conj Hk Hp)) in E1. simpl in E1. inversion E1. exists d. repeat split; auto. Qed.

Lemma save_paths : forall a b, areach a b -> forall Y, b = SaveAll Y ->
  match a with
  | SaveAll X => splus X Y
  | ProcAll i false => exists Z, ptarget i Z /\ (Z = Y \/ splus Z Y)
  | _ => True end.
Proof. induction 1 as [a b H|a b c H R IH]; intros Y ->.
  - pose proof (edge_trans _ _ H) as T. destruct a as [m|m|i b|? ?|?|?|? ? ?]; try exact I; [simpl in T; discriminate|].
    destruct b; [exact I|]. exists Y. split; [apply proc_save_edge, H|left; reflexivity].
  - specialize (IH Y eq_refl). pose proof (edge_trans _ _ H) as T.
    destruct a as [X|m|i bb|? ?|?|?|? ? ?]; try exact I.
    + (* from a save: through a processor *)
      destruct (dead_end _ _ R (or_intror eq_refl)) as [C|[C|C]]; rewrite C in T; simpl in T; try discriminate.
      destruct b as [?|?|i bb|? pb|?|?|? ? ?]; try (destruct bb); try (destruct pb); simpl in C; try discriminate.
      destruct IH as [Z [PT HZ]]. destruct HZ as [HZ|S].
      { subst Z. apply sp1. eapply save_proc_edge; eassumption. }
      { eapply spS; [eapply save_proc_edge; eassumption|exact S]. }
    + destruct bb; [exact I|].
      destruct (dead_end _ _ R (or_intror eq_refl)) as [C|[C|C]]; rewrite C in T; simpl in T; try discriminate.
      destruct b as [Z|?|? bb|? pb|?|?|? ? ?]; try (destruct bb); try (destruct pb); simpl in C; try discriminate.
      exists Z. split; [apply proc_save_edge, H|right; exact IH].
Qed.

Theorem cycles_paired cy : cycles std_tables g = Some cy -> paired g cy = true.
Proof. intros Hc. destruct (cycles_exact std_tables g) as [cy' [E Hx]]. rewrite Hc in E. inversion E; subst cy'.
  unfold paired. apply forallb_forall. intros m _. apply eqb_true_iff.
  assert (A : incyc cy (SaveAll m) = true <-> incyc cy (DelAll m) = true).
  { unfold incyc. rewrite !memb_In, !Hx. split; intros H.
    - destruct (on_cycle_action _ H) as [a [Ea R]]. symmetry in Ea. apply code_SaveAll in Ea. subst a.
      pose proof (save_paths _ _ R m eq_refl) as S. simpl in S. apply areach_reach. apply (splus_paths _ _ S).
    - destruct (on_cycle_action _ H) as [a [Ea R]]. symmetry in Ea. apply code_DelAll in Ea. subst a.
      destruct (del_paths _ _ R m eq_refl) as [B [EB S]]. inversion EB; subst B. apply areach_reach. apply (splus_paths _ _ S). }
  destruct (incyc cy (SaveAll m)), (incyc cy (DelAll m)); try reflexivity; [symmetry; apply A; reflexivity|apply A; reflexivity]. Qed.

Theorem cycles_ok cy : cycles std_tables g = Some cy -> cyc_ok g cy = true.
Proof. intros H. unfold cyc_ok. rewrite (cycles_shape cy H), (cycles_paired cy H), (cycles_procs_follow cy H). reflexivity. Qed.
End Graph.
