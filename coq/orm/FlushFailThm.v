(* C32 - the theorems: a flush that fails at any point (statement k, flush events, real statement errors)
   commits nothing, and Session.rollback() afterwards leaves a session that agrees with the database. *)
From Coq Require Import List ZArith Bool Arith Lia.
Import ListNotations.
From SAV.orm Require Import SessTxn SessTxnBase SessTxnSpec SessTxnInv SessTxnOps SessTxnRestore SessTxnRestore2
  SessTxnShift SessTxnStmts SessTxnFlush SessTxnDbInv SessTxnCore SessTxnFlushCore SessTxnTx SessTxnMain FlushFail FlushFailInv.
Open Scope nat_scope.

(* Session.rollback() from any state of the invariant *)
Lemma rollback_from_inv : forall st, Inv st ->
  exists s2, do_op ORollback st = (Ok, s2) /\ Inv s2 /\ stack s2 = [] /\ is_clean s2 = true /\
    committed s2 = committed st /\ work s2 = committed st /\ agrees s2 = true /\ no_pending s2 = true /\
    nobj s2 = nobj st /\ handles s2 = handles st /\ eoc s2 = eoc st.
Proof.
  intros st [gs C]. cbn [do_op].
  destruct (rollback_all_core (S (length (stack st))) st gs C) as (s2 & E & C2 & S2 & Cl & K1 & K2 & K3 & K4 & K5); [lia|].
  exists s2. split; [exact E|]. split; [exists []; exact C2|]. split; [exact S2|]. split; [exact Cl|]. split; [exact K1|].
  assert (Hw : work s2 = committed s2).
  { destruct C2 as [_ _ D _ _]. apply (d_noconn _ _ D). rewrite S2. intros f [] . }
  split; [congruence|]. split; [apply Good_agrees; exact (c_good _ _ C2)|].
  split; [|repeat split; congruence].
  apply Good_no_pending; [exact (c_good _ _ C2)|].
  unfold is_clean in Cl. apply andb_prop in Cl. destruct Cl as [_ X]. destruct (snew s2); [reflexivity|discriminate].
Qed.

(* ---- the three statements of C32, for a state of the C33 invariant ---- *)

(* nothing is committed: neither by the failing flush nor by the rollback after it; after the rollback the
   connection's rows are the committed rows (no partial effect survives) *)
Theorem nothing_committed : forall ft st r s1, Inv st -> flush_fault ft st = (r, s1) -> r <> Unmodelled ->
  committed s1 = committed st /\
  exists s2, do_op ORollback s1 = (Ok, s2) /\ committed s2 = committed st /\ work s2 = committed st /\ stack s2 = [].
Proof.
  intros ft st r s1 [gs C] H Hr.
  destruct (flush_fault_core ft st gs r s1 C H Hr) as (C1 & _ & _ & Hc & _).
  split; [exact Hc|].
  destruct (rollback_from_inv s1 (ex_intro _ gs C1)) as (s2 & E & _ & S2 & _ & K1 & K2 & _).
  exists s2. repeat split; congruence.
Qed.

(* after the rollback every object agrees with the database and nothing is pending or modified *)
Theorem after_rollback_objects_agree_with_db : forall ft st r s1, Inv st -> flush_fault ft st = (r, s1) -> r <> Unmodelled ->
  exists s2, do_op ORollback s1 = (Ok, s2) /\ agrees s2 = true /\ no_pending s2 = true /\ is_clean s2 = true.
Proof.
  intros ft st r s1 [gs C] H Hr.
  destruct (flush_fault_core ft st gs r s1 C H Hr) as (C1 & _).
  destruct (rollback_from_inv s1 (ex_intro _ gs C1)) as (s2 & E & _ & _ & Cl & _ & _ & A & P & _).
  exists s2. auto.
Qed.

(* the session is recoverable: the failing flush itself keeps the invariant (so every C33 theorem applies
   to whatever the application does next, e.g. the re-run), the transaction is either untouched or
   DEACTIVE with its snapshot restored, and the rollback ends in a clean session outside a transaction *)
Theorem session_recoverable : forall ft st r s1, Inv st -> flush_fault ft st = (r, s1) -> r <> Unmodelled ->
  Inv s1 /\ nobj s1 = nobj st /\ handles s1 = handles st /\
  (r <> Ok -> hd_state s1 = hd_state st \/ (hd_state st = Some ACTIVE /\ hd_state s1 = Some DEACTIVE /\ is_clean s1 = true)) /\
  exists s2, do_op ORollback s1 = (Ok, s2) /\ Inv s2 /\ stack s2 = [] /\ is_clean s2 = true.
Proof.
  intros ft st r s1 [gs C] H Hr.
  destruct (flush_fault_core ft st gs r s1 C H Hr) as (C1 & _ & _ & _ & N & Hh & _ & _ & F).
  split; [exists gs; exact C1|]. split; [exact N|]. split; [exact Hh|]. split; [exact F|].
  destruct (rollback_from_inv s1 (ex_intro _ gs C1)) as (s2 & E & I2 & S2 & Cl & _).
  exists s2. auto.
Qed.

(* ---- histories: the guarded operations of C33 and faulty flushes (no restriction on the fault) ---- *)
Definition fguard (st : sess) (p : fop) : bool := match p with Plain q => guard st q | Faulty _ => true end.
Inductive FReach (e : bool) : sess -> Prop :=
  | freach_init : FReach e (sess0 e)
  | freach_step : forall st p r st', FReach e st -> fguard st p = true -> do_fop p st = (r, st') ->
      r <> Unmodelled -> FReach e st'.

Theorem freach_inv : forall e st, FReach e st -> Inv st.
Proof.
  intros e st H. induction H; [apply inv_init|].
  destruct p as [q|ft]; cbn [do_fop fguard] in *.
  - eapply do_op_inv; eauto.
  - destruct IHFReach as [gs C]. destruct (flush_fault_core ft st gs r st' C H1 H2) as [C' _]. exists gs. exact C'.
Qed.

Theorem nothing_committed_reach : forall e ft st r s1, FReach e st -> flush_fault ft st = (r, s1) -> r <> Unmodelled ->
  committed s1 = committed st /\
  exists s2, do_op ORollback s1 = (Ok, s2) /\ committed s2 = committed st /\ work s2 = committed st /\ stack s2 = [].
Proof. intros e ft st r s1 R. apply nothing_committed. eapply freach_inv; eauto. Qed.

Theorem after_rollback_agree_reach : forall e ft st r s1, FReach e st -> flush_fault ft st = (r, s1) -> r <> Unmodelled ->
  exists s2, do_op ORollback s1 = (Ok, s2) /\ agrees s2 = true /\ no_pending s2 = true /\ is_clean s2 = true.
Proof. intros e ft st r s1 R. apply after_rollback_objects_agree_with_db. eapply freach_inv; eauto. Qed.

(* the failing flush and the rollback after it stay inside the guarded histories: everything C33 proves
   about guarded histories holds for whatever follows (the re-run) *)
Theorem recoverable_reach : forall e ft st r s1, FReach e st -> flush_fault ft st = (r, s1) -> r <> Unmodelled ->
  FReach e s1 /\ nobj s1 = nobj st /\ handles s1 = handles st /\
  (r <> Ok -> hd_state s1 = hd_state st \/ (hd_state st = Some ACTIVE /\ hd_state s1 = Some DEACTIVE /\ is_clean s1 = true)) /\
  exists s2, do_op ORollback s1 = (Ok, s2) /\ FReach e s2 /\ stack s2 = [] /\ is_clean s2 = true.
Proof.
  intros e ft st r s1 R H Hr.
  assert (R1 : FReach e s1) by (eapply (freach_step e st (Faulty ft)); eauto).
  destruct (session_recoverable ft st r s1 (freach_inv e st R) H Hr) as (_ & N & Hh & F & s2 & E2 & _ & S2 & Cl2).
  split; [exact R1|]. split; [exact N|]. split; [exact Hh|]. split; [exact F|].
  exists s2. split; [exact E2|]. split; [|auto].
  eapply (freach_step e s1 (Plain ORollback)); eauto; discriminate.
Qed.

Open Scope Z_scope.
Definition finalf (e : bool) (ps : list fop) : res * sess := last (runf (sess0 e) ps) (Ok, sess0 e).
Definition res_is (r : res) (c : Z) : bool := match r with Err c' => Z.eqb c c' | _ => false end.
Definition is_none {A} (x : option A) : bool := match x with None => true | _ => false end.

(* the crash oracle is not vacuous: the driver failure after the second statement of the flush comes out,
   the transaction is DEACTIVE, the INSERT that had run is gone from the connection's rows *)
Definition w_fault : list fop :=
  [Plain (ONew 1 0); Plain (ONew 2 1); Plain OCommit; Plain (OSetV 0 2); Plain (ONew 3 1); Faulty (FStmt 1)].
Definition fault_fires_check : bool :=
  let (r, st) := finalf true w_fault in
  res_is r E_FAULT && match stack st with f :: _ => tstate_eqb (fstate f) DEACTIVE | [] => false end &&
  is_none (work st 3) && is_none (committed st 3).
Lemma fault_fires : fault_fires_check = true.
Proof. vm_compute. reflexivity. Qed.

(* ---- repaired defect (finding C32-expunged-object-with-key-switch-left-detached, commit 6d10bc4) ---- *)
(* new(1,0); flush; o.id = 2; flush failing in after_flush_postexec; rollback: the object, added in the
   rolled back transaction, is transient again (before the repair _restore_snapshot gave it identity key 1
   back: "detached" with the key of a row that never was committed) *)
Definition w_d7 : list fop :=
  [Plain (ONew 1 0); Plain OFlush; Plain (OSetPK 0 2); Faulty FPost; Plain ORollback].
Definition all_keyless (st : sess) : bool := forallb (fun o => is_none (okey (objs st o))) (all_objs st).
Theorem added_object_transient_again :
  fst (finalf false w_d7) = Ok /\ all_keyless (snd (finalf false w_d7)) = true /\
  oatt (objs (snd (finalf false w_d7)) 0%nat) = false /\ committed (snd (finalf false w_d7)) 1 = None.
Proof. vm_compute. repeat split; reflexivity. Qed.
