(* C31 - theorem C: a statement sequence that meets every ordering need executes on the reference
   database (immediate foreign key and NOT NULL checks) without error.  Pure database reasoning: no
   reference to the unit of work. *)
From Coq Require Import List NArith Bool Lia Permutation Arith.
Import ListNotations.
From SAV.util Require Import Topo TopoProofs TopoRun.
From SAV.orm Require Import FlushOrder FlushOrderSpec FlushOrderBase FlushOrderSort FlushOrderCover FlushOrderCovered.
Local Open Scope N_scope.

Definition ev_eqb (a b : ev) : bool :=
  match a, b with
  | ESave s, ESave s' | EPost s, EPost s' | EDel s, EDel s' => N.eqb s s'
  | ESecIns x, ESecIns y | ESecDel x, ESecDel y => t3eqb x y
  | _, _ => false
  end.
Lemma t3eqb_eq x y : t3eqb x y = true <-> x = y.
Proof. destruct x as [[a b] c], y as [[a' b'] c']. unfold t3eqb. simpl. rewrite !andb_true_iff, !N.eqb_eq. split.
  - intros [[-> ->] ->]. reflexivity.
  - intros H. inversion H. auto. Qed.
Lemma ev_eqb_eq a b : ev_eqb a b = true <-> a = b.
Proof. destruct a, b; simpl; try (split; intros; discriminate); rewrite ?N.eqb_eq, ?t3eqb_eq; split; intros H; try (inversion H; reflexivity); subst; reflexivity. Qed.
Definition evb (e : ev) (l : list ev) : bool := existsb (ev_eqb e) l.
Lemma evb_In e l : evb e l = true <-> In e l.
Proof. unfold evb. rewrite existsb_exists. split.
  - intros [x [H1 H2]]. apply ev_eqb_eq in H2. subst. exact H1.
  - intros H. exists e. split; [exact H|apply ev_eqb_eq; reflexivity]. Qed.
Lemma evb_false e l : evb e l = false <-> ~ In e l.
Proof. rewrite <- evb_In. destruct (evb e l); split; intros H.
  - discriminate. - exfalso; apply H; reflexivity. - intros X; discriminate. - reflexivity. Qed.
Lemma evb_app e l x : evb e (l ++ [x]) = evb e l || ev_eqb e x.
Proof. unfold evb. rewrite existsb_app. simpl. rewrite orb_false_r. reflexivity. Qed.
Lemma mem3_In x l : mem3 x l = true <-> In x l.
Proof. unfold mem3. rewrite existsb_exists. split.
  - intros [y [H1 H2]]. apply t3eqb_eq in H2. subst. exact H1.
  - intros H. exists x. split; [exact H|apply t3eqb_eq; reflexivity]. Qed.

(* e1 occurs strictly before e2 *)
Definition before (tr : list ev) (e1 e2 : ev) : Prop := exists l1 l2, tr = l1 ++ e2 :: l2 /\ In e1 l1.

Lemma nodup_split_unique {A} (l1 l2 l1' l2' : list A) e : NoDup (l1 ++ e :: l2) ->
  l1 ++ e :: l2 = l1' ++ e :: l2' -> l1 = l1'.
Proof. revert l1'. induction l1 as [|a l1 IH]; intros l1' Hn He.
  - destruct l1' as [|b l1']; [reflexivity|]. simpl in He. inversion He; subst. simpl in Hn. inversion Hn; subst.
    exfalso. apply H1. apply in_or_app. right. left. reflexivity.
  - destruct l1' as [|b l1']; simpl in He; inversion He; subst.
    + simpl in Hn. inversion Hn; subst. exfalso. apply H1. apply in_or_app. right. left. reflexivity.
    + f_equal. apply IH; [simpl in Hn; inversion Hn; assumption|assumption]. Qed.

Lemma before_pre tr pre suf e1 e2 : NoDup tr -> tr = pre ++ e2 :: suf -> before tr e1 e2 -> In e1 pre.
Proof. intros Hn -> [l1 [l2 [He Hi]]]. assert (pre = l1) by (eapply nodup_split_unique; eassumption). subst. exact Hi. Qed.

(* ---------------------------------------------------------------- lookups *)
Section Lookup.
Variable g : graph.
Hypothesis Hwf : wf g = true.

Lemma wf_parts : NoDup (map s_id (g_sts g)) /\
  (forall s, In s (g_sts g) -> s_role s <= 2 /\ (s_role s = 2 -> s_key s = true)) /\
  functional (g_ref0 g) = true /\ functional (g_ref1 g) = true /\ NoDup (g_sec0 g) /\ NoDup (g_sec1 g) /\
  (forall r c t, In (r, c, t) (g_ref0 g) -> key_of g r = true /\ key_of g t = true) /\
  (forall x, In x (g_sec0 g) -> key_of g (snd (fst x)) = true /\ key_of g (snd x) = true) /\
  (forall r c t cm, In (r, c, t) (g_ref0 g ++ g_ref1 g) -> In cm (g_notnull g) -> fst cm = c -> snd cm = map_of g r).
Proof.
  pose proof Hwf as H. unfold wf in H. bands. split; [apply nodupb_NoDup; assumption|].
  split. { intros s Hs. rewrite forallb_forall in H7. specialize (H7 _ Hs). apply andb_true_iff in H7. destruct H7 as [A B].
    apply N.leb_le in A. split; [exact A|]. intros E. rewrite E in B. simpl in B. exact B. }
  split; [assumption|]. split; [assumption|].
  assert (N3 : forall l, nodup3 l = true -> NoDup l).
  { induction l as [|a l IH]; simpl; intros X; [constructor|]. apply andb_true_iff in X. destruct X as [X1 X2].
    constructor; [intros Hi; apply mem3_In in Hi; rewrite Hi in X1; discriminate|apply IH, X2]. }
  split; [apply N3; assumption|]. split; [apply N3; assumption|].
  split. { intros r c t Hi. rewrite forallb_forall in H2. specialize (H2 _ Hi). simpl in H2. apply andb_true_iff in H2. exact H2. }
  split. { intros x Hi. rewrite forallb_forall in H1. specialize (H1 _ Hi). apply andb_true_iff in H1. exact H1. }
  intros r c t cm Hi Hc E. rewrite forallb_forall in H0. specialize (H0 _ Hi). rewrite forallb_forall in H0. specialize (H0 _ Hc).
  simpl in H0. rewrite E, N.eqb_refl in H0. simpl in H0. apply N.eqb_eq in H0. exact H0.
Qed.

Lemma st_of_in x : In x (g_sts g) -> st_of g (s_id x) = Some x.
Proof. destruct wf_parts as [Hn _]. unfold st_of. revert Hn. induction (g_sts g) as [|a l IH]; simpl; intros Hn Hi; [contradiction|].
  inversion Hn; subst. destruct Hi as [->|Hi]; [rewrite N.eqb_refl; reflexivity|].
  destruct (N.eqb (s_id a) (s_id x)) eqn:E; [|apply IH; assumption].
  apply N.eqb_eq in E. exfalso. apply H1. rewrite E. apply in_map, Hi. Qed.

Lemma ids_with_spec f t : In t (ids_with g f) <-> exists x, st_of g t = Some x /\ f x = true.
Proof. unfold ids_with. rewrite in_map_iff. split.
  - intros [x [<- H]]. apply filter_In in H. destruct H as [H1 H2]. exists x. split; [apply st_of_in, H1|exact H2].
  - intros [x [H1 H2]]. apply st_of_some in H1. destruct H1 as [H1 H3]. exists x. split; [exact H3|apply filter_In; split; assumption]. Qed.

Lemma functional_get l r c t : functional l = true -> In (r, c, t) l -> ref_get l r c = Some t.
Proof. unfold ref_get. induction l as [|a l IH]; simpl; intros Hf Hi; [contradiction|].
  apply andb_true_iff in Hf. destruct Hf as [Hf1 Hf2]. destruct Hi as [->|Hi].
  - simpl. rewrite !N.eqb_refl. reflexivity.
  - destruct (N.eqb (fst (fst a)) r && N.eqb (snd (fst a)) c) eqn:E; [|apply IH; assumption].
    exfalso. apply andb_true_iff in E. destruct E as [E1 E2]. apply N.eqb_eq in E1, E2.
    apply negb_true_iff in Hf1. assert (X : existsb (fun y => N.eqb (fst (fst a)) (fst (fst y)) && N.eqb (snd (fst a)) (snd (fst y))) l = true).
    { apply existsb_exists. exists (r, c, t). split; [exact Hi|]. simpl. rewrite E1, E2, !N.eqb_refl. reflexivity. }
    congruence. Qed.
Lemma get_in l r c t : ref_get l r c = Some t -> In (r, c, t) l.
Proof. unfold ref_get. intros H. match type of H with match ?f with _ => _ end = _ => destruct f as [[[r' c'] t']|] eqn:E end; [|discriminate].
  inversion H; subst.
  apply find_some in E. destruct E as [E1 E2]. simpl in E2. apply andb_true_iff in E2. destruct E2 as [A B].
  apply N.eqb_eq in A, B. subst. exact E1. Qed.

Lemma cols_of_spec r c : In c (cols_of g r) <-> exists t, In (r, c, t) (g_ref0 g ++ g_ref1 g).
Proof. unfold cols_of. rewrite In_dedup, in_map_iff. split.
  - intros [[[r' c'] t] [E H]]. simpl in E. subst. apply filter_In in H. destruct H as [H1 H2]. simpl in H2. apply N.eqb_eq in H2. subst. eauto.
  - intros [t H]. exists (r, c, t). split; [reflexivity|]. apply filter_In. split; [exact H|]. simpl. apply N.eqb_refl. Qed.
End Lookup.

(* ---------------------------------------------------------------- the invariant *)
Section Exec.
Variable g : graph.
Hypothesis Hwf : wf g = true.
Hypothesis Hcons : consistent g = true.
Variable tr : list ev.
Hypothesis Hnd : NoDup tr.
Hypothesis Hev : incl tr (events g).
Hypothesis Hord : forall e1 e2, In (e1, e2) (needs g) -> In e2 tr -> before tr e1 e2.

Definition cur (pre : list ev) (r c : N) : option N :=
  if postcol g c then (if evb (EPost r) pre then fin g r c else ref_get (g_ref0 g) r c)
  else (if evb (ESave r) pre then ref_get (g_ref1 g) r c else ref_get (g_ref0 g) r c).

Definition livep (pre : list ev) (t : N) : Prop :=
  (key_of g t = true /\ ~ In (EDel t) pre) \/ (key_of g t = false /\ In (ESave t) pre).

Record Inv (pre : list ev) (d : db) : Prop := {
  I1 : forall t, In t (live d) <-> livep pre t;
  I2 : forall r c t, In (r, c, t) (refs d) <-> In r (live d) /\ cur pre r c = Some t;
  I3 : forall x, In x (secs d) <-> (In x (g_sec0 g) /\ ~ In (ESecDel x) pre) \/ In (ESecIns x) pre
}.

Let wfp := wf_parts g Hwf.

(* ---- what the events of the trace are *)
Lemma role_of_id x : In x (g_sts g) -> role_of g (s_id x) = s_role x /\ key_of g (s_id x) = s_key x /\ map_of g (s_id x) = s_map x.
Proof. intros H. pose proof (st_of_in g Hwf x H) as E. unfold role_of, key_of, map_of. unfold st_of in *. rewrite E. repeat split. Qed.

Lemma ev_save s : In (ESave s) tr -> role_of g s = 1.
Proof. intros H. apply Hev in H. unfold events in H. repeat (apply in_app_or in H; destruct H as [H|H]);
  apply in_map_iff in H; destruct H as [y [E H]]; try discriminate. inversion E; subst.
  unfold ids_with in H. apply in_map_iff in H. destruct H as [x [<- H]]. apply filter_In in H. destruct H as [H1 H2].
  apply N.eqb_eq in H2. rewrite <- H2. apply role_of_id, H1. Qed.
Lemma ev_del s : In (EDel s) tr -> role_of g s = 2.
Proof. intros H. apply Hev in H. unfold events in H. repeat (apply in_app_or in H; destruct H as [H|H]);
  apply in_map_iff in H; destruct H as [y [E H]]; try discriminate. inversion E; subst.
  unfold ids_with in H. apply in_map_iff in H. destruct H as [x [<- H]]. apply filter_In in H. destruct H as [H1 H2].
  apply N.eqb_eq in H2. rewrite <- H2. apply role_of_id, H1. Qed.
Lemma ev_post s : In (EPost s) tr -> role_of g s <> 0 /\ has_post g s = true.
Proof. intros H. apply Hev in H. unfold events in H. repeat (apply in_app_or in H; destruct H as [H|H]);
  apply in_map_iff in H; destruct H as [y [E H]]; try discriminate. inversion E; subst.
  unfold ids_with in H. apply in_map_iff in H. destruct H as [x [<- H]]. apply filter_In in H. destruct H as [H1 H2].
  apply andb_true_iff in H2. destruct H2 as [H2 H3]. split; [|exact H3].
  destruct (role_of_id x H1) as [-> _]. unfold in_uow in H2. apply negb_true_iff, N.eqb_neq in H2. exact H2. Qed.
Lemma ev_secins x : In (ESecIns x) tr -> In x (g_sec1 g) /\ ~ In x (g_sec0 g).
Proof. intros H. apply Hev in H. unfold events in H. repeat (apply in_app_or in H; destruct H as [H|H]);
  apply in_map_iff in H; destruct H as [y [E H]]; try discriminate. inversion E; subst.
  apply filter_In in H. destruct H as [H1 H2]. split; [exact H1|]. intros Hi. apply mem3_In in Hi. rewrite Hi in H2. discriminate. Qed.
Lemma ev_secdel x : In (ESecDel x) tr -> In x (g_sec0 g) /\ ~ In x (g_sec1 g).
Proof. intros H. apply Hev in H. unfold events in H. repeat (apply in_app_or in H; destruct H as [H|H]);
  apply in_map_iff in H; destruct H as [y [E H]]; try discriminate. inversion E; subst.
  apply filter_In in H. destruct H as [H1 H2]. split; [exact H1|]. intros Hi. apply mem3_In in Hi. rewrite Hi in H2. discriminate. Qed.

Lemma role2_key s : role_of g s = 2 -> key_of g s = true.
Proof. intros H. destruct (role_nonzero g s) as [x [_ [H1 [H2 [H3 [_ H5]]]]]]; [rewrite H; discriminate|].
  destruct wfp as [_ [W _]]. destruct (W x H1) as [_ W2]. rewrite <- H5. apply W2. rewrite H3. exact H. Qed.

(* ---- consistency *)
Lemma cons_parts :
  (forall s c t, In (s, c, t) (g_ref1 g) -> survives g s = true /\ survives g t = true) /\
  (forall x, In x (g_sec1 g) -> survives g (snd (fst x)) = true /\ survives g (snd x) = true) /\
  (forall cm, In cm (g_notnull g) -> postcol g (fst cm) = false) /\
  (forall s cm, role_of g s = 1 -> In cm (g_notnull g) -> snd cm = map_of g s -> ref_get (g_ref1 g) s (fst cm) <> None).
Proof.
  pose proof Hcons as H. unfold consistent in H. bands.
  split. { intros s c t Hi. rewrite forallb_forall in H. specialize (H _ Hi). simpl in H. apply andb_true_iff in H. exact H. }
  split. { intros x Hi. rewrite forallb_forall in H3. specialize (H3 _ Hi). apply andb_true_iff in H3. exact H3. }
  split. { intros cm Hi. rewrite forallb_forall in H1. specialize (H1 _ Hi). apply negb_true_iff in H1. exact H1. }
  intros s cm Hr Hi Hm. destruct (role_nonzero g s) as [x [_ [X1 [X2 [X3 [X4 _]]]]]]; [rewrite Hr; discriminate|].
  rewrite forallb_forall in H0. specialize (H0 _ X1). rewrite X3, Hr in H0. simpl in H0.
  rewrite forallb_forall in H0. specialize (H0 _ Hi). rewrite X4, Hm, N.eqb_refl, X2 in H0. simpl in H0.
  destruct (ref_get (g_ref1 g) s (fst cm)); [discriminate|discriminate].
Qed.

Lemma survives_spec t : survives g t = true ->
  (key_of g t = true /\ role_of g t <> 2) \/ (key_of g t = false /\ pending g t = true).
Proof. unfold survives, key_of, role_of, pending, key_of, role_of, st_of. destruct (find _ (g_sts g)) as [x|]; [|discriminate].
  destruct (s_key x); intros H.
  - left. split; [reflexivity|]. intros E. rewrite E in H. discriminate.
  - right. split; [reflexivity|]. simpl. exact H. Qed.

(* ---------------------------------------------------------------- steps *)
Notation nn := (g_notnull g).

Lemma need_pre pre suf e1 e : tr = pre ++ e :: suf -> In (e1, e) (needs g) -> In e1 pre.
Proof. intros Htr Hn. eapply before_pre; [exact Hnd|exact Htr|apply Hord; [exact Hn|rewrite Htr; apply in_or_app; right; left; reflexivity]]. Qed.

Lemma split_facts pre suf e : tr = pre ++ e :: suf -> ~ In e pre /\ In e tr /\ incl pre tr.
Proof. intros Htr. split; [|split].
  - intros Hi. rewrite Htr in Hnd. apply NoDup_remove_2 in Hnd. apply Hnd. apply in_or_app. left. exact Hi.
  - rewrite Htr. apply in_or_app. right. left. reflexivity.
  - intros x Hx. rewrite Htr. apply in_or_app. left. exact Hx. Qed.

Lemma live_of_survivor pre d t : Inv pre d -> incl pre tr -> survives g t = true ->
  (pending g t = true -> In (ESave t) pre) -> In t (live d).
Proof. intros Hi Hinc Hs Hp. apply (I1 _ _ Hi). destruct (survives_spec t Hs) as [[K R]|[K P]].
  - left. split; [exact K|]. intros Hd. apply R. apply ev_del. apply Hinc, Hd.
  - right. split; [exact K|apply Hp, P]. Qed.

Lemma needs_in1 x e : In x (g_ref1 g) -> In e (needs_ref1 g x) -> In e (needs g).
Proof. intros H1 H2. unfold needs. apply in_or_app. left. apply in_flat_map. exists x. auto. Qed.
Lemma needs_in0 x e : In x (g_ref0 g) -> In e (needs_ref0 g x) -> In e (needs g).
Proof. intros H1 H2. unfold needs. apply in_or_app. right. apply in_or_app. left. apply in_flat_map. exists x. auto. Qed.

Lemma cur_other pre e r c : (forall s, e = ESave s \/ e = EPost s -> s <> r) -> cur (pre ++ [e]) r c = cur pre r c.
Proof. intros H. unfold cur. rewrite !evb_app.
  assert (A : ev_eqb (EPost r) e = false).
  { destruct (ev_eqb (EPost r) e) eqn:E; [|reflexivity]. apply ev_eqb_eq in E. subst e. exfalso. apply (H r); auto. }
  assert (B : ev_eqb (ESave r) e = false).
  { destruct (ev_eqb (ESave r) e) eqn:E; [|reflexivity]. apply ev_eqb_eq in E. subst e. exfalso. apply (H r); auto. }
  rewrite A, B, !orb_false_r. reflexivity. Qed.

Lemma livep_other pre e t : (forall s, e = ESave s \/ e = EDel s -> s <> t) -> livep (pre ++ [e]) t <-> livep pre t.
Proof. intros H. unfold livep. split; intros [[K X]|[K X]].
  - left. split; [exact K|]. intros Hi. apply X. apply in_or_app. left. exact Hi.
  - right. split; [exact K|]. apply in_app_or in X. destruct X as [X|[X|[]]]; [exact X|]. exfalso. apply (H t); auto.
  - left. split; [exact K|]. intros Hi. apply in_app_or in Hi. destruct Hi as [Hi|[Hi|[]]]; [apply X, Hi|]. apply (H t); auto.
  - right. split; [exact K|]. apply in_or_app. left. exact X. Qed.

(* ---- DELETE *)
Lemma step_del pre suf s d : tr = pre ++ EDel s :: suf -> Inv pre d ->
  exists d', exec1 nn d (Delete s) = Some d' /\ Inv (pre ++ [EDel s]) d'.
Proof.
  intros Htr Hi. destruct (split_facts _ _ _ Htr) as [Hnp [Hin Hinc]].
  pose proof (ev_del s Hin) as Rs. pose proof (role2_key s Rs) as Ks.
  destruct cons_parts as [C1 [C2 [C3 C4]]]. destruct wfp as [W1 [W2 [W3 [W4 [W5 [W6 [W7 [W8 W9]]]]]]]].
  assert (NS : survives g s = false).
  { unfold survives. unfold key_of, role_of, st_of in *. destruct (find _ (g_sts g)) as [x|]; [|reflexivity]. rewrite Ks, Rs. reflexivity. }
  assert (L : memb s (live d) = true).
  { apply memb_In. apply (I1 _ _ Hi). left. split; assumption. }
  assert (R : forallb (fun x => negb (N.eqb (snd x) s) || N.eqb (fst (fst x)) s) (refs d) = true).
  { apply forallb_forall. intros [[r c] t] Hx. simpl. destruct (N.eqb t s) eqn:Ets; [|reflexivity]. apply N.eqb_eq in Ets. subst t.
    destruct (N.eqb r s) eqn:Ers; [reflexivity|]. apply N.eqb_neq in Ers. exfalso.
    apply (I2 _ _ Hi) in Hx. destruct Hx as [Lr Cu]. unfold cur in Cu.
    destruct (postcol g c) eqn:Pc.
    - destruct (evb (EPost r) pre) eqn:Ep.
      + unfold fin in Cu. destruct (N.eqb (role_of g r) 2) eqn:Rr.
        * destruct (ref_get (g_ref0 g) r c) as [t0|]; [|discriminate].
          destruct (m2o_post_col g c || N.eqb (role_of g t0) 2) eqn:X; [discriminate|]. inversion Cu; subst t0.
          rewrite Rs in X. rewrite orb_true_r in X. discriminate.
        * apply get_in in Cu. destruct (C1 _ _ _ Cu) as [_ X]. congruence.
      + apply get_in in Cu. apply evb_false in Ep. apply Ep.
        apply (need_pre pre suf _ _ Htr). apply (needs_in0 (r, c, s) _ Cu). unfold needs_ref0. simpl.
        rewrite Rs, Pc. simpl. assert (N.eqb r s = false) as -> by (apply N.eqb_neq; exact Ers). simpl. left. reflexivity.
    - destruct (evb (ESave r) pre) eqn:Es.
      + apply get_in in Cu. destruct (C1 _ _ _ Cu) as [_ X]. congruence.
      + apply get_in in Cu. apply evb_false in Es.
        assert (Nd : In (if N.eqb (role_of g r) 2 then (EDel r, EDel s) else (ESave r, EDel s)) (needs g)).
        { apply (needs_in0 (r, c, s) _ Cu). unfold needs_ref0. simpl. rewrite Rs, Pc. simpl.
          assert (N.eqb r s = false) as -> by (apply N.eqb_neq; exact Ers). simpl.
          destruct (N.eqb (role_of g r) 2); left; reflexivity. }
        destruct (N.eqb (role_of g r) 2) eqn:Rr.
        * apply (need_pre pre suf _ _ Htr) in Nd. apply (I1 _ _ Hi) in Lr. destruct Lr as [[_ X]|[K _]]; [apply X, Nd|].
          destruct (W7 _ _ _ Cu) as [K' _]. congruence.
        * apply Es. apply (need_pre pre suf _ _ Htr). exact Nd. }
  assert (S : forallb (fun x => negb (N.eqb (snd (fst x)) s) && negb (N.eqb (snd x) s)) (secs d) = true).
  { apply forallb_forall. intros x Hx. apply (I3 _ _ Hi) in Hx.
    destruct (negb (N.eqb (snd (fst x)) s) && negb (N.eqb (snd x) s)) eqn:E; [reflexivity|]. exfalso.
    assert (M : snd (fst x) = s \/ snd x = s).
    { apply andb_false_iff in E. destruct E as [E|E]; apply negb_false_iff, N.eqb_eq in E; auto. }
    assert (N1 : ~ In x (g_sec1 g)).
    { intros X. destruct (C2 _ X) as [A B]. destruct M as [M|M]; rewrite M in *; congruence. }
    destruct Hx as [[X0 Xd]|Xi].
    - apply Xd. apply (need_pre pre suf _ _ Htr). unfold needs. do 4 (apply in_or_app; right).
      apply in_flat_map. exists x. split.
      + apply filter_In. split; [exact X0|]. apply negb_true_iff. destruct (mem3 x (g_sec1 g)) eqn:Y; [|reflexivity].
        apply mem3_In in Y. contradiction.
      + unfold needs_secdel. destruct M as [M|M]; rewrite M, Rs; simpl; [left; reflexivity|].
        apply in_or_app. right. left. reflexivity.
    - apply N1. apply ev_secins. apply Hinc, Xi. }
  unfold exec1. rewrite L, R, S. simpl. eexists. split; [reflexivity|]. constructor; simpl.
  - intros t. rewrite filter_In. destruct (N.eqb t s) eqn:E.
    + apply N.eqb_eq in E. subst t. split; [intros [_ X]; discriminate|].
      intros [[_ X]|[K _]]; [exfalso; apply X, in_or_app; right; left; reflexivity|congruence].
    + apply N.eqb_neq in E. rewrite (livep_other pre (EDel s) t).
      * rewrite (I1 _ _ Hi). simpl. tauto.
      * intros s0 [X|X]; inversion X; subst; auto.
  - intros r c t. rewrite !filter_In. simpl. rewrite (cur_other pre (EDel s) r c) by (intros s0 [X|X]; discriminate).
    rewrite (I2 _ _ Hi). tauto.
  - intros x. rewrite (I3 _ _ Hi). split.
    + intros [[A B]|A]; [left; split; [exact A|]|right; apply in_or_app; left; exact A].
      intros X. apply in_app_or in X. destruct X as [X|[X|[]]]; [apply B, X|discriminate].
    + intros [[A B]|A]; [left; split; [exact A|]; intros X; apply B, in_or_app; left; exact X|].
      apply in_app_or in A. destruct A as [A|[A|[]]]; [right; exact A|discriminate].
Qed.

(* ---- UPDATE (by the regular save of a persistent row, or by post_update) *)
Definition upd_refs (d : db) (r : N) (sets : list (N * option N)) : list trip :=
  flat_map (fun v => match snd v with Some t => [(r, fst v, t)] | None => [] end) sets
  ++ filter (fun x => negb (N.eqb (fst (fst x)) r && memb (snd (fst x)) (map fst sets))) (refs d).

Lemma upd_refs_spec d r sets r' c' t' : In (r', c', t') (upd_refs d r sets) <->
  (r' = r /\ In (c', Some t') sets) \/ (In (r', c', t') (refs d) /\ ~ (r' = r /\ In c' (map fst sets))).
Proof. unfold upd_refs. rewrite in_app_iff, in_flat_map, filter_In. simpl. split.
  - intros [[[c v] [H1 H2]]|[H1 H2]].
    + left. simpl in H2. destruct v as [t|]; [|contradiction]. destruct H2 as [H2|[]]. inversion H2; subst. auto.
    + right. split; [exact H1|]. intros [-> Hc]. rewrite N.eqb_refl in H2. simpl in H2. apply negb_true_iff in H2.
      apply memb_false in H2. contradiction.
  - intros [[-> H]|[H1 H2]].
    + left. exists (c', Some t'). split; [exact H|]. simpl. left. reflexivity.
    + right. split; [exact H1|]. apply negb_true_iff. destruct (N.eqb r' r) eqn:E; [|reflexivity]. simpl.
      apply N.eqb_eq in E. apply memb_false. intros Hc. apply H2. auto. Qed.

Lemma optN_dec (a b : option N) : {a = b} + {a <> b}.
Proof. decide equality. apply N.eq_dec. Qed.

Lemma opt_eqb_eq a b : opt_eqb a b = true <-> a = b.
Proof. destruct a, b; simpl; try (split; intros; congruence). rewrite N.eqb_eq. split; intros; congruence. Qed.

Lemma update_I2 pre d s (sel : N -> bool) (nv : N -> option N) e :
  Inv pre d -> In s (live d) ->
  (forall c, sel c = true -> cur pre s c = ref_get (g_ref0 g) s c) ->
  (forall c, cur (pre ++ [e]) s c = if sel c then nv c else cur pre s c) ->
  (forall r c, r <> s -> cur (pre ++ [e]) r c = cur pre r c) ->
  (forall c t, nv c = Some t -> In c (cols_of g s)) ->
  forall r c t,
  In (r, c, t) (upd_refs d s (map (fun c => (c, nv c))
                   (filter (fun c => sel c && negb (opt_eqb (ref_get (g_ref0 g) s c) (nv c))) (cols_of g s))))
  <-> In r (live d) /\ cur (pre ++ [e]) r c = Some t.
Proof.
  intros Hi Ls Hsel Hcur Hoth Hnv r c t. rewrite upd_refs_spec. rewrite map_map. simpl.
  assert (Hset : forall c0 v, In (c0, v) (map (fun c => (c, nv c)) (filter (fun c => sel c && negb (opt_eqb (ref_get (g_ref0 g) s c) (nv c))) (cols_of g s)))
                 <-> In c0 (cols_of g s) /\ sel c0 = true /\ ref_get (g_ref0 g) s c0 <> nv c0 /\ v = nv c0).
  { intros c0 v. rewrite in_map_iff. split.
    - intros [c1 [E H]]. inversion E; subst. apply filter_In in H. destruct H as [H1 H2]. apply andb_true_iff in H2.
      destruct H2 as [H2 H3]. repeat split; try assumption. intros X. apply opt_eqb_eq in X. rewrite X in H3. discriminate.
    - intros [H1 [H2 [H3 ->]]]. exists c0. split; [reflexivity|]. apply filter_In. split; [exact H1|]. rewrite H2. simpl.
      apply negb_true_iff. destruct (opt_eqb _ _) eqn:X; [|reflexivity]. apply opt_eqb_eq in X. contradiction. }
  assert (Hcol : forall c0, In c0 (map (fun x => x) (filter (fun c => sel c && negb (opt_eqb (ref_get (g_ref0 g) s c) (nv c))) (cols_of g s)))
                 <-> In c0 (cols_of g s) /\ sel c0 = true /\ ref_get (g_ref0 g) s c0 <> nv c0).
  { intros c0. rewrite map_id, filter_In, andb_true_iff. split.
    - intros [H1 [H2 H3]]. repeat split; try assumption. intros X. apply opt_eqb_eq in X. rewrite X in H3. discriminate.
    - intros [H1 [H2 H3]]. repeat split; try assumption. apply negb_true_iff. destruct (opt_eqb _ _) eqn:X; [|reflexivity]. apply opt_eqb_eq in X. contradiction. }
  rewrite Hset, Hcol. destruct (N.eq_dec r s) as [->|Hne].
  - rewrite Hcur. split.
    + intros [[_ [H1 [H2 [H3 H4]]]]|[H1 H2]].
      * split; [exact Ls|]. rewrite H2. auto.
      * apply (I2 _ _ Hi) in H1. destruct H1 as [_ H1]. split; [exact Ls|].
        destruct (sel c) eqn:Sc; [|exact H1]. rewrite (Hsel _ Sc) in H1.
        destruct (optN_dec (ref_get (g_ref0 g) s c) (nv c)) as [E|E]; [rewrite <- E; exact H1|].
        exfalso. apply H2. split; [reflexivity|]. split; [|split; first [assumption|reflexivity]].
        apply cols_of_spec. exists t. apply in_or_app. left. apply get_in. exact H1.
    + intros [_ H]. destruct (sel c) eqn:Sc.
      * destruct (optN_dec (ref_get (g_ref0 g) s c) (nv c)) as [E|E].
        -- right. split; [|intros [_ [_ [_ X]]]; contradiction]. apply (I2 _ _ Hi). split; [exact Ls|]. rewrite (Hsel _ Sc), E. exact H.
        -- left. split; [reflexivity|]. split; [eapply Hnv; exact H|]. split; [reflexivity|]. split; [exact E|]. symmetry. exact H.
      * right. split; [apply (I2 _ _ Hi); split; assumption|]. intros [_ [_ [X _]]]. congruence.
  - rewrite (Hoth _ _ Hne). rewrite <- (I2 _ _ Hi). split.
    + intros [[X _]|[H1 _]]; [contradiction|exact H1].
    + intros H. right. split; [exact H|]. intros [X _]. contradiction.
Qed.

Lemma in_app1 {A} (x e : A) l : x <> e -> (In x (l ++ [e]) <-> In x l).
Proof. intros H. rewrite in_app_iff. simpl. split; [intros [X|[X|[]]]; [exact X|congruence]|auto]. Qed.

Lemma I3_other pre d e : Inv pre d -> (forall x, e <> ESecIns x /\ e <> ESecDel x) ->
  forall x, In x (secs d) <-> (In x (g_sec0 g) /\ ~ In (ESecDel x) (pre ++ [e])) \/ In (ESecIns x) (pre ++ [e]).
Proof. intros Hi He x. rewrite (I3 _ _ Hi). destruct (He x) as [A B].
  rewrite (in_app1 (ESecDel x) e pre) by congruence. rewrite (in_app1 (ESecIns x) e pre) by congruence. tauto. Qed.

Lemma cur_other_row pre e s : (e = ESave s \/ e = EPost s) -> forall r c, r <> s -> cur (pre ++ [e]) r c = cur pre r c.
Proof. intros He r c Hne. apply cur_other. intros s0 [X|X]; destruct He as [Y|Y]; rewrite Y in X; inversion X; subst; auto. Qed.

Lemma livep_noneffect pre e : (forall t, e <> EDel t) -> (forall t, e = ESave t -> key_of g t = true) ->
  forall t, livep (pre ++ [e]) t <-> livep pre t.
Proof. intros H1 H2 t. unfold livep. rewrite (in_app1 (EDel t) e pre) by (intros X; symmetry in X; exact (H1 _ X)).
  split; intros [X|[K X]]; try (left; exact X).
  - apply in_app_or in X. destruct X as [X|[X|[]]]; [right; auto|]. apply H2 in X. congruence.
  - right. split; [exact K|apply in_or_app; left; exact X]. Qed.

Lemma step_update pre suf s d e (sel : N -> bool) (nv : N -> option N) :
  tr = pre ++ e :: suf -> Inv pre d -> (e = ESave s /\ key_of g s = true) \/ e = EPost s ->
  In s (live d) ->
  (forall c, sel c = true -> cur pre s c = ref_get (g_ref0 g) s c) ->
  (forall c, cur (pre ++ [e]) s c = if sel c then nv c else cur pre s c) ->
  (forall c t, nv c = Some t -> In c (cols_of g s)) ->
  (forall c t, In c (cols_of g s) -> sel c = true -> nv c = Some t -> In t (live d)) ->
  (forall c, In c (cols_of g s) -> sel c = true -> nv c = None -> memb c (map fst nn) = false) ->
  exists d', exec1 nn d (Update s (map (fun c => (c, nv c))
                   (filter (fun c => sel c && negb (opt_eqb (ref_get (g_ref0 g) s c) (nv c))) (cols_of g s)))) = Some d'
             /\ Inv (pre ++ [e]) d'.
Proof.
  intros Htr Hi He Ls Hsel Hcur Hnv Hlive Hnull.
  assert (L : memb s (live d) = true) by (apply memb_In; exact Ls).
  assert (F : forallb (fun v => match snd v with Some t => memb t (live d) | None => negb (memb (fst v) (map fst nn)) end)
                (map (fun c => (c, nv c)) (filter (fun c => sel c && negb (opt_eqb (ref_get (g_ref0 g) s c) (nv c))) (cols_of g s))) = true).
  { apply forallb_forall. intros [c v] Hx. apply in_map_iff in Hx. destruct Hx as [c0 [E Hx]]. inversion E; subst. simpl.
    apply filter_In in Hx. destruct Hx as [Hc Hs]. apply andb_true_iff in Hs. destruct Hs as [Hs _].
    destruct (nv c) as [t|] eqn:Nv; [apply memb_In; eapply Hlive; eassumption|]. rewrite (Hnull c Hc Hs Nv). reflexivity. }
  unfold exec1. rewrite L, F. simpl. eexists. split; [reflexivity|]. constructor; simpl.
  - intros t. rewrite (I1 _ _ Hi). symmetry. apply livep_noneffect.
    + intros t0 X. destruct He as [[Y _]|Y]; rewrite Y in X; discriminate.
    + intros t0 X. destruct He as [[Y K]|Y]; rewrite Y in X; [inversion X; subst; exact K|discriminate].
  - intros r c t. apply (update_I2 pre d s sel nv e Hi Ls Hsel Hcur); [|exact Hnv].
    apply cur_other_row. destruct He as [[Y _]|Y]; auto.
  - apply I3_other; [exact Hi|]. intros x. destruct He as [[Y _]|Y]; rewrite Y; split; discriminate.
Qed.

Lemma before_not_after pre suf e e2 : tr = pre ++ e :: suf -> before tr e e2 -> ~ In e2 pre.
Proof. intros Htr [l1 [l2 [E Hi]]] Hp. apply in_split in Hp. destruct Hp as [p1 [p2 Ep]]. subst pre.
  assert (E2 : tr = p1 ++ e2 :: (p2 ++ e :: suf)) by (rewrite Htr, <- app_assoc; reflexivity).
  assert (X : p1 = l1).
  { apply (nodup_split_unique p1 (p2 ++ e :: suf) l1 l2 e2); [rewrite <- E2; exact Hnd|rewrite <- E2; exact E]. }
  subst l1. pose proof Hnd as N. rewrite E2 in N.
  apply (nodup_app_disj p1 (e2 :: p2 ++ e :: suf) e N Hi). right. apply in_or_app. right. left. reflexivity. Qed.

(* ---- the regular save of a persistent row *)
Lemma cur_self_save pre s c : ~ In (ESave s) pre ->
  cur (pre ++ [ESave s]) s c = if negb (postcol g c) then ref_get (g_ref1 g) s c else cur pre s c.
Proof. intros H. unfold cur. rewrite !evb_app. destruct (postcol g c); simpl.
  - rewrite orb_false_r. reflexivity.
  - rewrite N.eqb_refl, orb_true_r. reflexivity. Qed.
Lemma cur_self_post pre s c : ~ In (EPost s) pre ->
  cur (pre ++ [EPost s]) s c = if postcol g c then fin g s c else cur pre s c.
Proof. intros H. unfold cur. rewrite !evb_app. destruct (postcol g c); simpl.
  - rewrite N.eqb_refl, orb_true_r. reflexivity.
  - rewrite orb_false_r. reflexivity. Qed.

Lemma not_nn c s : In c (cols_of g s) -> role_of g s = 1 -> ref_get (g_ref1 g) s c = None -> memb c (map fst nn) = false.
Proof. intros Hc Hr Hn. apply memb_false. intros Hi. apply in_map_iff in Hi. destruct Hi as [cm [E Hi]].
  destruct cons_parts as [_ [_ [_ C4]]]. destruct wfp as [_ [_ [_ [_ [_ [_ [_ [_ W9]]]]]]]].
  apply cols_of_spec in Hc. destruct Hc as [t Ht]. specialize (W9 _ _ _ _ Ht Hi E).
  apply (C4 s cm Hr Hi W9). rewrite E. exact Hn. Qed.

Lemma step_save_key pre suf s d : tr = pre ++ ESave s :: suf -> Inv pre d -> key_of g s = true ->
  exists d', exec1 nn d (stmt_of g (ESave s)) = Some d' /\ Inv (pre ++ [ESave s]) d'.
Proof.
  intros Htr Hi Ks. destruct (split_facts _ _ _ Htr) as [Hnp [Hin Hinc]]. pose proof (ev_save s Hin) as Rs.
  destruct cons_parts as [C1 [C2 [C3 C4]]].
  unfold stmt_of. rewrite Ks. unfold save_sets.
  apply (step_update pre suf s d (ESave s) (fun c => negb (postcol g c)) (fun c => ref_get (g_ref1 g) s c) Htr Hi); auto.
  - apply (I1 _ _ Hi). left. split; [exact Ks|]. intros X. apply Hinc, ev_del in X. congruence.
  - intros c Hc. apply negb_true_iff in Hc. unfold cur. rewrite Hc. apply evb_false in Hnp. rewrite Hnp. reflexivity.
  - intros c. apply cur_self_save, Hnp.
  - intros c t H. apply cols_of_spec. exists t. apply in_or_app. right. apply get_in, H.
  - intros c t Hc Hs Hn. apply get_in in Hn. destruct (C1 _ _ _ Hn) as [_ St].
    apply (live_of_survivor pre d t Hi Hinc St). intros Pt.
    apply (need_pre pre suf _ _ Htr). apply (needs_in1 (s, c, t) _ Hn). unfold needs_ref1. simpl.
    apply negb_true_iff in Hs. rewrite Rs, Hs, Pt. simpl.
    assert (N.eqb s t = false) as ->. { apply N.eqb_neq. intros ->. unfold pending in Pt. rewrite Ks in Pt. discriminate. }
    simpl. left. reflexivity.
  - intros c Hc Hs Hn. apply (not_nn c s Hc Rs Hn).
Qed.

(* ---- the UPDATE by _post_update *)
Lemma fin_cols s c t : fin g s c = Some t -> In c (cols_of g s).
Proof. unfold fin. intros H. apply cols_of_spec. destruct (N.eqb (role_of g s) 2).
  - destruct (ref_get (g_ref0 g) s c) as [t0|] eqn:E; [|discriminate]. exists t0. apply in_or_app. left. apply get_in, E.
  - exists t. apply in_or_app. right. apply get_in, H. Qed.

Lemma has_post_spec s : has_post g s = true ->
  exists c, In c (cols_of g s) /\ postcol g c = true /\ ref_get (g_ref0 g) s c <> fin g s c.
Proof. unfold has_post, post_sets. destruct (filter _ (cols_of g s)) as [|c l] eqn:E; [discriminate|]. intros _.
  assert (H : In c (filter (fun c => postcol g c && negb (opt_eqb (ref_get (g_ref0 g) s c) (fin g s c))) (cols_of g s))) by (rewrite E; left; reflexivity).
  apply filter_In in H. destruct H as [H1 H2]. apply andb_true_iff in H2. destruct H2 as [H2 H3]. exists c. repeat split; try assumption.
  intros X. apply opt_eqb_eq in X. rewrite X in H3. discriminate. Qed.

Lemma step_post pre suf s d : tr = pre ++ EPost s :: suf -> Inv pre d ->
  exists d', exec1 nn d (stmt_of g (EPost s)) = Some d' /\ Inv (pre ++ [EPost s]) d'.
Proof.
  intros Htr Hi. destruct (split_facts _ _ _ Htr) as [Hnp [Hin Hinc]]. destruct (ev_post s Hin) as [Rs Hp].
  destruct cons_parts as [C1 [C2 [C3 C4]]]. destruct wfp as [W1 [W2 [W3 [W4 [W5 [W6 [W7 [W8 W9]]]]]]]].
  destruct (role_nonzero g s Rs) as [x [_ [X1 [X2 [X3 [X4 X5]]]]]]. destruct (W2 x X1) as [Rle Rk]. rewrite X3 in Rle, Rk.
  unfold stmt_of, post_sets.
  apply (step_update pre suf s d (EPost s) (fun c => postcol g c) (fun c => fin g s c) Htr Hi); auto.
  - (* the row exists *)
    apply (I1 _ _ Hi). destruct (key_of g s) eqn:Ks.
    + left. split; [exact Ks|]. intros Xd. pose proof (ev_del s (Hinc _ Xd)) as R2.
      apply (before_not_after pre suf (EPost s) (EDel s) Htr); [|exact Xd]. apply Hord; [|apply Hinc, Xd].
      unfold needs. apply in_or_app. right. apply in_or_app. right. apply in_or_app. left.
      apply in_flat_map. exists s. split; [rewrite <- X2; apply in_map, X1|]. unfold needs_postdel. rewrite R2, Hp. simpl. left. reflexivity.
    + right. split; [exact Ks|].
      assert (R1 : role_of g s = 1).
      { destruct (N.eq_dec (role_of g s) 2) as [E|E]; [rewrite X5 in Rk; specialize (Rk E); congruence|lia]. }
      destruct (has_post_spec s Hp) as [c [Hc [Pc Hne]]].
      assert (R0 : ref_get (g_ref0 g) s c = None).
      { destruct (ref_get (g_ref0 g) s c) eqn:E; [|reflexivity]. apply get_in in E. destruct (W7 _ _ _ E) as [K _]. congruence. }
      rewrite R0 in Hne. unfold fin in Hne. rewrite R1 in Hne. simpl in Hne.
      destruct (ref_get (g_ref1 g) s c) as [t|] eqn:E1; [|congruence]. apply get_in in E1.
      apply (need_pre pre suf _ _ Htr). apply (needs_in1 (s, c, t) _ E1). unfold needs_ref1. simpl. rewrite R1, Pc. simpl.
      unfold pending at 1. rewrite Ks, R1. simpl. left. reflexivity.
  - intros c Hc. unfold cur. rewrite Hc. apply evb_false in Hnp. rewrite Hnp. reflexivity.
  - intros c. apply cur_self_post, Hnp.
  - intros c t. apply fin_cols.
  - intros c t Hc Pc Hf. unfold fin in Hf. destruct (N.eqb (role_of g s) 2) eqn:R2.
    + destruct (ref_get (g_ref0 g) s c) as [t0|] eqn:E0; [|discriminate].
      destruct (m2o_post_col g c || N.eqb (role_of g t0) 2) eqn:Y; [discriminate|]. inversion Hf; subst t0.
      apply orb_false_iff in Y. destruct Y as [_ Y]. apply N.eqb_neq in Y. apply get_in in E0. destruct (W7 _ _ _ E0) as [_ Kt].
      apply (I1 _ _ Hi). left. split; [exact Kt|]. intros Xd. apply Y. apply ev_del. apply Hinc, Xd.
    + apply get_in in Hf. destruct (C1 _ _ _ Hf) as [_ St]. apply (live_of_survivor pre d t Hi Hinc St). intros Pt.
      apply N.eqb_neq in R2. assert (R1 : role_of g s = 1) by lia.
      apply (need_pre pre suf _ _ Htr). apply (needs_in1 (s, c, t) _ Hf). unfold needs_ref1. simpl. rewrite R1, Pc, Pt. simpl.
      apply in_or_app. right. left. reflexivity.
  - intros c Hc Pc _. apply memb_false. intros Hx. apply in_map_iff in Hx. destruct Hx as [cm [E Hx]]. specialize (C3 _ Hx). congruence.
Qed.

(* ---- INSERT *)
Lemma ins_vals_spec s c t : In (c, t) (ins_vals g s) <->
  In c (cols_of g s) /\ postcol g c = false /\ ref_get (g_ref1 g) s c = Some t.
Proof. unfold ins_vals. rewrite in_flat_map. split.
  - intros [c0 [H1 H2]]. apply filter_In in H1. destruct H1 as [H1 H3]. apply negb_true_iff in H3.
    destruct (ref_get (g_ref1 g) s c0) as [t0|] eqn:E; [|contradiction]. destruct H2 as [H2|[]]. inversion H2; subst. auto.
  - intros [H1 [H2 H3]]. exists c. split; [apply filter_In; split; [exact H1|rewrite H2; reflexivity]|]. rewrite H3. left. reflexivity. Qed.

Lemma step_insert pre suf s d : tr = pre ++ ESave s :: suf -> Inv pre d -> key_of g s = false ->
  exists d', exec1 nn d (stmt_of g (ESave s)) = Some d' /\ Inv (pre ++ [ESave s]) d'.
Proof.
  intros Htr Hi Ks. destruct (split_facts _ _ _ Htr) as [Hnp [Hin Hinc]]. pose proof (ev_save s Hin) as Rs.
  destruct cons_parts as [C1 [C2 [C3 C4]]]. destruct wfp as [W1 [W2 [W3 [W4 [W5 [W6 [W7 [W8 W9]]]]]]]].
  assert (NL : ~ In s (live d)).
  { intros X. apply (I1 _ _ Hi) in X. destruct X as [[K _]|[_ X]]; [congruence|contradiction]. }
  assert (R0 : forall c, ref_get (g_ref0 g) s c = None).
  { intros c. destruct (ref_get (g_ref0 g) s c) eqn:E; [|reflexivity]. apply get_in in E. destruct (W7 _ _ _ E) as [K _]. congruence. }
  assert (NP : ~ In (EPost s) pre).
  { intros X. destruct (ev_post s (Hinc _ X)) as [_ Hp]. destruct (has_post_spec s Hp) as [c [Hc [Pc Hne]]].
    rewrite R0 in Hne. unfold fin in Hne. rewrite Rs in Hne. simpl in Hne.
    destruct (ref_get (g_ref1 g) s c) as [t|] eqn:E1; [|congruence]. apply get_in in E1.
    apply (before_not_after pre suf (ESave s) (EPost s) Htr); [|exact X]. apply Hord; [|apply Hinc, X].
    apply (needs_in1 (s, c, t) _ E1). unfold needs_ref1. simpl. rewrite Rs, Pc. simpl.
    unfold pending at 1. rewrite Ks, Rs. simpl. left. reflexivity. }
  unfold stmt_of. rewrite Ks.
  assert (A : negb (memb s (live d)) = true) by (apply negb_true_iff, memb_false; exact NL).
  assert (B : forallb (fun v => memb (snd v) (live d) || N.eqb (snd v) s) (ins_vals g s) = true).
  { apply forallb_forall. intros [c t] Hx. simpl. apply ins_vals_spec in Hx. destruct Hx as [Hc [Pc Hr]].
    destruct (N.eqb t s) eqn:E; [apply orb_true_r|]. apply N.eqb_neq in E. apply orb_true_iff. left. apply memb_In.
    apply get_in in Hr. destruct (C1 _ _ _ Hr) as [_ St]. apply (live_of_survivor pre d t Hi Hinc St). intros Pt.
    apply (need_pre pre suf _ _ Htr). apply (needs_in1 (s, c, t) _ Hr). unfold needs_ref1. simpl. rewrite Rs, Pc, Pt. simpl.
    assert (N.eqb s t = false) as -> by (apply N.eqb_neq; congruence). simpl. left. reflexivity. }
  assert (C : forallb (fun cm => negb (N.eqb (snd cm) (map_of g s)) || memb (fst cm) (map fst (ins_vals g s))) nn = true).
  { apply forallb_forall. intros cm Hx. destruct (N.eqb (snd cm) (map_of g s)) eqn:E; [|reflexivity]. simpl. apply N.eqb_eq in E.
    pose proof (C4 s cm Rs Hx E) as Hn. destruct (ref_get (g_ref1 g) s (fst cm)) as [t|] eqn:E1; [|exfalso; apply Hn; first [exact E1|reflexivity]].
    apply memb_In. apply in_map_iff. exists (fst cm, t). split; [reflexivity|]. apply ins_vals_spec. split; [|split; [apply C3, Hx|exact E1]].
    apply cols_of_spec. exists t. apply in_or_app. right. apply get_in, E1. }
  unfold exec1. rewrite A, B, C. simpl. eexists. split; [reflexivity|]. constructor; simpl.
  - intros t. destruct (N.eq_dec t s) as [->|Hne].
    + split; [intros _; right; split; [exact Ks|apply in_or_app; right; left; reflexivity]|auto].
    + rewrite (livep_other pre (ESave s) t) by (intros s0 [X|X]; inversion X; subst; auto).
      rewrite <- (I1 _ _ Hi). split; [intros [X|X]; [congruence|exact X]|auto].
  - intros r c t. rewrite in_app_iff, in_map_iff. destruct (N.eq_dec r s) as [->|Hne].
    + rewrite (cur_self_save pre s c Hnp). split.
      * intros [[[c0 t0] [E Hx]]|Hx].
        -- simpl in E. inversion E; subst. apply ins_vals_spec in Hx. destruct Hx as [_ [Pc Hr]]. rewrite Pc. simpl. auto.
        -- apply (I2 _ _ Hi) in Hx. destruct Hx as [X _]. contradiction.
      * intros [_ Hx]. left. exists (c, t). split; [reflexivity|]. apply ins_vals_spec. destruct (postcol g c) eqn:Pc; simpl in Hx.
        -- exfalso. unfold cur in Hx. rewrite Pc in Hx. apply evb_false in NP. rewrite NP, R0 in Hx. discriminate.
        -- split; [|split; [reflexivity|exact Hx]]. apply cols_of_spec. exists t. apply in_or_app. right. apply get_in, Hx.
    + rewrite (cur_other_row pre (ESave s) s (or_introl eq_refl) r c Hne). split.
      * intros [[[c0 t0] [E _]]|Hx]; [simpl in E; inversion E; congruence|].
        apply (I2 _ _ Hi) in Hx. destruct Hx as [X Y]. split; [right; exact X|exact Y].
      * intros [[X|X] Hx]; [congruence|]. right. apply (I2 _ _ Hi). split; assumption.
  - apply I3_other; [exact Hi|]. intros x. split; discriminate.
Qed.

(* ---- secondary rows *)
Lemma noneffect_sec pre e d : Inv pre d -> (exists x, e = ESecIns x \/ e = ESecDel x) ->
  (forall t, In t (live d) <-> livep (pre ++ [e]) t) /\
  (forall r c t, In (r, c, t) (refs d) <-> In r (live d) /\ cur (pre ++ [e]) r c = Some t).
Proof. intros Hi [x He]. split.
  - intros t. rewrite (I1 _ _ Hi). symmetry. apply livep_noneffect; intros t0 X; destruct He as [Y|Y]; rewrite Y in X; discriminate.
  - intros r c t. rewrite (I2 _ _ Hi). rewrite (cur_other pre e r c); [tauto|].
    intros s0 [X|X]; destruct He as [Y|Y]; rewrite Y in X; discriminate. Qed.

Lemma step_secins pre suf x d : tr = pre ++ ESecIns x :: suf -> Inv pre d ->
  exists d', exec1 nn d (SecInsert x) = Some d' /\ Inv (pre ++ [ESecIns x]) d'.
Proof.
  intros Htr Hi. destruct (split_facts _ _ _ Htr) as [Hnp [Hin Hinc]]. destruct (ev_secins x Hin) as [X1 X0].
  destruct cons_parts as [C1 [C2 [C3 C4]]]. destruct (C2 _ X1) as [Sl Sr].
  assert (Hneed : forall y, (y = snd (fst x) \/ y = snd x) -> pending g y = true -> In (ESave y) pre).
  { intros y Hy Py. apply (need_pre pre suf _ _ Htr). unfold needs. do 3 (apply in_or_app; right). apply in_or_app. left.
    apply in_flat_map. exists x. split.
    - apply filter_In. split; [exact X1|]. apply negb_true_iff. destruct (mem3 x (g_sec0 g)) eqn:Y; [|reflexivity]. apply mem3_In in Y. contradiction.
    - unfold needs_secins. destruct Hy as [->| ->]; rewrite Py; [left; reflexivity|apply in_or_app; right; left; reflexivity]. }
  assert (A : memb (snd (fst x)) (live d) = true) by (apply memb_In, (live_of_survivor pre d _ Hi Hinc Sl); apply Hneed; auto).
  assert (B : memb (snd x) (live d) = true) by (apply memb_In, (live_of_survivor pre d _ Hi Hinc Sr); apply Hneed; auto).
  assert (C : negb (mem3 x (secs d)) = true).
  { apply negb_true_iff. destruct (mem3 x (secs d)) eqn:Y; [|reflexivity]. apply mem3_In in Y. apply (I3 _ _ Hi) in Y.
    destruct Y as [[Y _]|Y]; contradiction. }
  unfold exec1. rewrite A, B, C. simpl. eexists. split; [reflexivity|].
  destruct (noneffect_sec pre (ESecIns x) d Hi) as [N1 N2]; [eauto|]. constructor; simpl; [exact N1|exact N2|].
  intros y. rewrite (in_app1 (ESecDel y) (ESecIns x) pre) by discriminate. rewrite in_app_iff. simpl. rewrite (I3 _ _ Hi). split.
  - intros [<-|[Y|Y]]; [right; right; left; reflexivity|left; exact Y|right; left; exact Y].
  - intros [Y|[Y|[Y|[]]]]; [right; left; exact Y|right; right; exact Y|inversion Y; left; reflexivity].
Qed.

Lemma step_secdel pre suf x d : tr = pre ++ ESecDel x :: suf -> Inv pre d ->
  exists d', exec1 nn d (SecDelete x) = Some d' /\ Inv (pre ++ [ESecDel x]) d'.
Proof.
  intros Htr Hi. destruct (split_facts _ _ _ Htr) as [Hnp [Hin Hinc]]. destruct (ev_secdel x Hin) as [X0 X1].
  assert (A : mem3 x (secs d) = true) by (apply mem3_In, (I3 _ _ Hi); left; split; assumption).
  unfold exec1. rewrite A. eexists. split; [reflexivity|].
  destruct (noneffect_sec pre (ESecDel x) d Hi) as [N1 N2]; [eauto|]. constructor; simpl; [exact N1|exact N2|].
  intros y. rewrite filter_In. rewrite (in_app1 (ESecIns y) (ESecDel x) pre) by discriminate. rewrite in_app_iff. simpl. rewrite (I3 _ _ Hi).
  destruct (t3eqb x y) eqn:E.
  - apply t3eqb_eq in E. subst y. split; [intros [_ Y]; discriminate|]. intros [[_ Y]|Y]; [exfalso; apply Y; right; left; reflexivity|].
    exfalso. apply X1. apply ev_secins. apply Hinc, Y.
  - split.
    + intros [[[Y Z]|Y] _]; [left; split; [exact Y|]|right; exact Y]. intros [W|[W|[]]]; [apply Z, W|]. inversion W; subst.
      assert (t3eqb y y = true) by (apply t3eqb_eq; reflexivity). congruence.
    + intros [[Y Z]|Y]; (split; [|reflexivity]); [left; split; [exact Y|intros W; apply Z; left; exact W]|right; exact Y].
Qed.

(* ---------------------------------------------------------------- theorem C *)
Lemma step pre suf e d : tr = pre ++ e :: suf -> Inv pre d ->
  exists d', exec1 nn d (stmt_of g e) = Some d' /\ Inv (pre ++ [e]) d'.
Proof. intros Htr Hi. destruct e as [s|s|s|x|x].
  - destruct (key_of g s) eqn:K; [apply (step_save_key pre suf)|apply (step_insert pre suf)]; assumption.
  - apply (step_post pre suf); assumption.
  - apply (step_del pre suf); assumption.
  - apply (step_secins pre suf); assumption.
  - apply (step_secdel pre suf); assumption. Qed.

Lemma exec_suffix : forall suf pre d, tr = pre ++ suf -> Inv pre d ->
  exists d', exec nn d (map (stmt_of g) suf) = Some d' /\ Inv tr d'.
Proof. induction suf as [|e suf IH]; intros pre d Htr Hi.
  - rewrite app_nil_r in Htr. subst pre. exists d. split; [reflexivity|exact Hi].
  - destruct (step pre suf e d Htr Hi) as [d1 [E1 I1']]. simpl. rewrite E1.
    apply (IH (pre ++ [e])); [rewrite <- app_assoc; exact Htr|exact I1']. Qed.

Lemma inv_init : Inv [] (db0 g).
Proof. destruct wfp as [W1 [W2 [W3 [W4 [W5 [W6 [W7 [W8 W9]]]]]]]]. constructor; simpl.
  - intros t. rewrite (ids_with_spec g Hwf). unfold livep. simpl. split.
    + intros [x [H1 H2]]. left. unfold key_of. rewrite H1. auto.
    + intros [[K _]|[_ []]]. unfold key_of in K. destruct (st_of g t) as [x|] eqn:E; [|discriminate]. eauto.
  - intros r c t. unfold cur. simpl. rewrite (ids_with_spec g Hwf). assert (X : forall a b : option N, (if postcol g c then a else a) = a) by (intros; destruct (postcol g c); reflexivity).
    rewrite X by exact None. split.
    + intros H. split; [|apply functional_get; assumption]. destruct (W7 _ _ _ H) as [K _]. unfold key_of in K.
      destruct (st_of g r) as [x|] eqn:E; [|discriminate]. eauto.
    + intros [_ H]. apply get_in, H.
  - intros x. tauto.
Qed.

Theorem exec_ok : exists d', exec nn (db0 g) (map (stmt_of g) tr) = Some d' /\ Inv tr d'.
Proof. apply (exec_suffix tr [] (db0 g)); [reflexivity|exact inv_init]. Qed.
End Exec.
