(* C45 - well-formedness of the session state is an invariant of every history of get / load / set / merge
   operations (induction over the operation list), so the merge theorems apply after any history. *)
From Coq Require Import List Bool Arith ZArith Lia.
From SAV.orm Require Import Merge MergeProofs MergeValues.
Import ListNotations.

Lemma wf_frame : forall s s', next s' = next s -> idA s' = idA s -> idB s' = idB s -> cols s' = cols s -> wf s -> wf s'.
Proof.
  intros s s' N A B C [W1 W2 W3 W4]. constructor; intros.
  - rewrite N. rewrite A in H. eauto.
  - rewrite N. rewrite B in H. eauto.
  - rewrite A in H. rewrite B in H0. eauto.
  - rewrite C. apply W4. rewrite <- N. exact H.
Qed.

(* writing a column of an allocated instance *)
Lemma wf_set_cols : forall s t k v, t < next s -> wf s -> wf (set_cols s t k v).
Proof.
  intros s t k v Ht [W1 W2 W3 W4]. constructor; intros; eauto.
  cbn [cols set_cols next] in *. rewrite upd2_other by lia. apply W4. exact H.
Qed.
Lemma wf_set_col : forall s t k v, t < next s -> wf s -> wf (set_col s t k v).
Proof.
  intros s t k v Ht W. unfold set_col.
  assert (W1 : wf (match ccomm s t k with None => set_ccomm s t k (Some (match cols s t k with Some x => CVal x | None => CNov end)) | Some _ => s end)).
  { destruct (ccomm s t k); [exact W|]. eapply wf_frame; [| | | |exact W]; reflexivity. }
  apply wf_set_cols; [destruct (ccomm s t k); exact Ht|].
  eapply wf_frame; [| | | |exact W1]; reflexivity.
Qed.
Lemma wf_merge_col : forall load s t k v, t < next s -> wf s -> wf (merge_col load s t k v).
Proof.
  intros load s t k v Ht W. destruct v as [|x]; cbn [merge_col]; [exact W|].
  destruct load; [apply wf_set_col|apply wf_set_cols]; assumption.
Qed.
Lemma next_merge_col : forall load s t k v, next (merge_col load s t k v) = next s.
Proof. intros. destruct v; cbn [merge_col]; [reflexivity|]. destruct load; [unfold set_col; destruct (ccomm s t k)|]; reflexivity. Qed.
Lemma idA_merge_col : forall load s t k v, idA (merge_col load s t k v) = idA s.
Proof. intros. destruct v; cbn [merge_col]; [reflexivity|]. destruct load; [unfold set_col; destruct (ccomm s t k)|]; reflexivity. Qed.
Lemma idB_merge_col : forall load s t k v, idB (merge_col load s t k v) = idB s.
Proof. intros. destruct v; cbn [merge_col]; [reflexivity|]. destruct load; [unfold set_col; destruct (ccomm s t k)|]; reflexivity. Qed.

(* a monotone step: keeps wf, never frees an instance, never changes an identity-map entry of class A *)
Definition grows (s s' : mstate) : Prop := next s <= next s' /\ idA s' = idA s.
Lemma grows_refl : forall s, grows s s. Proof. intros; split; [lia|reflexivity]. Qed.
Lemma grows_trans : forall a b c, grows a b -> grows b c -> grows a c.
Proof. intros a b c [A1 A2] [B1 B2]. split; [lia|congruence]. Qed.

Lemma wf_load_B : forall cfg s pk row, wf s -> wf (fst (load_B cfg s pk row)) /\ grows s (fst (load_B cfg s pk row)) /\
  snd (load_B cfg s pk row) < next (fst (load_B cfg s pk row)) /\
  (forall pa, idA (fst (load_B cfg s pk row)) pa <> Some (snd (load_B cfg s pk row))).
Proof.
  intros cfg s pk row W. unfold load_B. destruct (idB s pk) as [t|] eqn:Ib.
  - cbn [fst snd]. destruct W as [W1 W2 W3 W4]. split; [constructor; assumption|]. split; [apply grows_refl|].
    split; [eauto|]. intros pa F. eapply W3; eauto.
  - cbn [alloc fst snd]. destruct W as [W1 W2 W3 W4]. split; [|split; [split; [cbn; lia|reflexivity]|split; [cbn; lia|]]].
    + constructor.
      * intros pa t H. cbn in H. apply W1 in H. cbn. lia.
      * intros pb t H. cbn [idB set_idB set_cols set_tkey set_next] in H. unfold upd in H. cbn [next set_idB set_cols set_tkey set_next].
        destruct (Nat.eqb pb pk); [inversion H; lia|apply W2 in H; lia].
      * intros pa pb ta tb Ha Hb. cbn in Ha. cbn [idB set_idB set_cols set_tkey set_next] in Hb. unfold upd in Hb.
        destruct (Nat.eqb pb pk); [inversion Hb; subst; apply W1 in Ha; lia|eauto].
      * intros x k Hx. cbn [cols set_idB set_cols set_tkey set_next next] in *. rewrite !upd2_other by lia. apply W4. lia.
    + intros pa F. cbn in F. apply W1 in F. lia.
Qed.

Lemma wf_inc_sql : forall s, wf s -> wf (inc_sql s).
Proof. intros s W. eapply wf_frame; [| | | |exact W]; reflexivity. Qed.

Lemma wf_get_B : forall cfg s pk, wf s -> wf (fst (get_B cfg s pk)) /\ grows s (fst (get_B cfg s pk)) /\
  (forall c, snd (get_B cfg s pk) = Some c -> c < next (fst (get_B cfg s pk)) /\ forall pa, idA (fst (get_B cfg s pk)) pa <> Some c).
Proof.
  intros cfg s pk W. unfold get_B. destruct (idB s pk) as [t|] eqn:Ib.
  - cbn [fst snd]. split; [exact W|]. split; [apply grows_refl|]. intros c E. inversion E; subst. destruct W as [W1 W2 W3 W4].
    split; [eauto|]. intros pa F. eapply W3; eauto.
  - destruct (assoc pk (rowsB cfg)) as [row|].
    + destruct (wf_load_B cfg (inc_sql s) pk row (wf_inc_sql s W)) as [L1 [L2 [L3 L4]]].
      destruct (load_B cfg (inc_sql s) pk row) as [s1 t1]. cbn [fst snd] in *. split; [exact L1|].
      split; [destruct L2 as [X Y]; split; [exact X|exact Y]|].
      intros c E. inversion E; subst. auto.
    + cbn [fst snd]. split; [apply wf_inc_sql, W|]. split; [split; [cbn; lia|reflexivity]|]. intros c E. discriminate.
Qed.

Lemma wf_get_A : forall cfg s pk, wf s -> wf (fst (get_A cfg s pk)) /\ next s <= next (fst (get_A cfg s pk)) /\
  (forall c, snd (get_A cfg s pk) = Some c -> c < next (fst (get_A cfg s pk))).
Proof.
  intros cfg s pk W. unfold get_A. destruct (idA s pk) as [t|] eqn:Ia.
  - cbn [fst snd]. split; [exact W|]. split; [lia|]. intros c E. inversion E; subst. destruct W as [W1 _ _ _]. eauto.
  - destruct (assoc pk (rowsA cfg)) as [row|].
    + unfold load_A. cbn [alloc fst snd]. destruct W as [W1 W2 W3 W4]. split; [|split; [cbn; lia|intros c E; inversion E; cbn; lia]].
      constructor.
      * intros pa t H. cbn [idA set_idA set_cols set_tkey set_next inc_sql] in H. unfold upd in H. cbn [next set_idA set_cols set_tkey set_next inc_sql].
        destruct (Nat.eqb pa pk); [inversion H; lia|apply W1 in H; lia].
      * intros pb t H. cbn in H. apply W2 in H. cbn. lia.
      * intros pa pb ta tb Ha Hb. cbn [idA set_idA set_cols set_tkey set_next inc_sql] in Ha. unfold upd in Ha. cbn in Hb.
        destruct (Nat.eqb pa pk); [inversion Ha; subst; apply W2 in Hb; lia|eauto].
      * intros x k Hx. cbn [cols set_idA set_cols set_tkey set_next inc_sql next] in *. rewrite !upd2_other by lia. apply W4. lia.
    + cbn [fst snd]. split; [apply wf_inc_sql, W|]. split; [cbn; lia|]. intros c E. discriminate.
Qed.

Lemma wf_lazy_bs : forall cfg s t, wf s -> wf (lazy_bs cfg s t) /\ grows s (lazy_bs cfg s t).
Proof.
  intros cfg s t W. unfold lazy_bs. destruct (bs s t); [split; [exact W|apply grows_refl]|].
  destruct (tkey s t) as [pk|].
  2:{ split; [eapply wf_frame; [| | | |exact W]; reflexivity|split; [cbn; lia|reflexivity]]. }
  assert (G : forall rows a l, wf a ->
            wf (fst (fold_left (fun sl r => let '(s, l) := sl in
                  match fst (snd r) with
                  | Some a => if Nat.eqb a pk then let '(s', c) := load_B cfg s (fst r) (snd r) in (s', l ++ [c]) else (s, l)
                  | None => (s, l) end) rows (a, l))) /\
            grows a (fst (fold_left (fun sl r => let '(s, l) := sl in
                  match fst (snd r) with
                  | Some a => if Nat.eqb a pk then let '(s', c) := load_B cfg s (fst r) (snd r) in (s', l ++ [c]) else (s, l)
                  | None => (s, l) end) rows (a, l)))).
  { induction rows as [|r rows IH]; intros a l Wa; cbn [fold_left]; [split; [exact Wa|apply grows_refl]|].
    destruct (fst (snd r)) as [a0|]; [|apply IH; exact Wa]. destruct (Nat.eqb a0 pk); [|apply IH; exact Wa].
    destruct (wf_load_B cfg a (fst r) (snd r) Wa) as [L1 [L2 _]].
    destruct (load_B cfg a (fst r) (snd r)) as [s' c]. cbn [fst] in L1, L2.
    destruct (IH s' (l ++ [c]) L1) as [I1 I2]. split; [exact I1|eapply grows_trans; eauto]. }
  destruct (G (rowsB cfg) (inc_sql s) [] (wf_inc_sql s W)) as [G1 G2].
  destruct (fold_left _ (rowsB cfg) (inc_sql s, [])) as [s1 l]. cbn [fst] in G1, G2.
  split; [eapply wf_frame; [| | | |exact G1]; reflexivity|]. destruct G2 as [G2 G3]. split; [cbn in *; lia|exact G3].
Qed.

(* steps that touch neither next, idA, idB nor any column *)
Definition inert (s s' : mstate) : Prop := next s' = next s /\ idA s' = idA s /\ idB s' = idB s /\ cols s' = cols s.
Lemma inert_refl : forall s, inert s s. Proof. intros; repeat split. Qed.
Lemma inert_trans : forall a b c, inert a b -> inert b c -> inert a c.
Proof. intros a b c [A1 [A2 [A3 A4]]] [B1 [B2 [B3 B4]]]. repeat split; congruence. Qed.
Lemma inert_wf : forall s s', inert s s' -> wf s -> wf s'.
Proof. intros s s' [A1 [A2 [A3 A4]]] W. eapply wf_frame; eauto. Qed.

Lemma inert_set_parent : forall s c newp b chk, inert s (set_parent s c newp b chk).
Proof.
  intros. unfold inert, set_parent.
  repeat match goal with |- context [match ?x with _ => _ end] => destruct x end; repeat split; reflexivity.
Qed.
Lemma inert_fold : forall (f : mstate -> nat -> mstate) l a, (forall a m, inert a (f a m)) -> inert a (fold_left f l a).
Proof. intros f. induction l as [|m l IH]; intros a H; cbn [fold_left]; [apply inert_refl|]. eapply inert_trans; [apply H|apply IH; exact H]. Qed.
Lemma inert_coll_set : forall cfg s t new, inert s (coll_set cfg s t new).
Proof.
  intros cfg s t new. unfold coll_set.
  eapply inert_trans; [|apply inert_fold]. eapply inert_trans; [|apply inert_fold].
  - destruct (bscomm s t); repeat split; reflexivity.
  - intros a m. cbv zeta.
    set (a' := if mem m (filter (fun c => mem c new) (match bs s t with Some l => l | None => [] end)) then a
               else if hb cfg then set_parent a m (Some t) true None else a).
    apply (inert_trans a a'); [|repeat split; reflexivity]. unfold a'.
    destruct (mem m _); [apply inert_refl|]. destruct (hb cfg); [apply inert_set_parent|apply inert_refl].
  - intros a m. destruct (mem m _); [apply inert_refl|]. destruct (hb cfg); [apply inert_set_parent|apply inert_refl].
Qed.

(* one child *)
Definition cmap_ok (s : mstate) (ctx : mctx) : Prop :=
  (forall pk c, assoc pk (cmap ctx) = Some c -> c < next s /\ forall pa, idA s pa <> Some c).

Lemma wf_merge_B : forall cfg load root sbs s ctx dest j s' ctx' dest',
  merge_B cfg load root sbs (Some (s, ctx, dest)) j = Some (s', ctx', dest') ->
  wf s -> cmap_ok s ctx -> wf s' /\ grows s s' /\ cmap_ok s' ctx'.
Proof.
  intros cfg load root sbs s ctx dest j s' ctx' dest' H W Hc. cbn [merge_B] in H.
  destruct (assoc j (memo ctx)) as [t0|].
  { inversion H; subst. split; [exact W|]. split; [apply grows_refl|exact Hc]. }
  destruct (nth_error sbs j) as [src|].
  2:{ inversion H; subst. split; [eapply wf_frame; [| | | |exact W]; reflexivity|]. split; [split; [cbn; lia|reflexivity]|exact Hc]. }
  destruct (negb (sb_detached src) && negb load); [discriminate|].
  set (res := match match sb_pk src with Some pk => idB s pk | None => None end with
              | Some t0 => (s, Some t0)
              | None => match sb_pk src with
                        | Some pk => match assoc pk (cmap ctx) with
                                     | Some t0 => (s, Some t0)
                                     | None => if negb load then
                                                 let '(sa, t0) := alloc s in (set_idB (set_tkey sa t0 (Some pk)) pk (Some t0), Some t0)
                                               else get_B cfg s pk
                                     end
                        | None => (s, None)
                        end
              end) in *.
  assert (Res : wf (fst res) /\ grows s (fst res) /\
                (forall c, snd res = Some c -> c < next (fst res) /\ forall pa, idA (fst res) pa <> Some c)).
  { unfold res. destruct (sb_pk src) as [pk|].
    - destruct (idB s pk) as [t0|] eqn:Ib.
      + cbn [fst snd]. split; [exact W|]. split; [apply grows_refl|]. intros c E. inversion E; subst.
        destruct W as [W1 W2 W3 W4]. split; [eauto|]. intros pa F. eapply W3; eauto.
      + destruct (assoc pk (cmap ctx)) as [t0|] eqn:Ic.
        * cbn [fst snd]. split; [exact W|]. split; [apply grows_refl|]. intros c E. inversion E; subst. eapply Hc; eauto.
        * destruct load; cbn [negb]; [apply wf_get_B; exact W|].
          cbn [alloc fst snd]. destruct W as [W1 W2 W3 W4]. split; [|split; [split; [cbn; lia|reflexivity]|]].
          { constructor.
            - intros pa t H0. cbn in H0. apply W1 in H0. cbn. lia.
            - intros pb t H0. cbn [idB set_idB set_tkey set_next] in H0. unfold upd in H0. cbn [next set_idB set_tkey set_next].
              destruct (Nat.eqb pb pk); [inversion H0; lia|apply W2 in H0; lia].
            - intros pa pb ta tb Ha Hb. cbn in Ha. cbn [idB set_idB set_tkey set_next] in Hb. unfold upd in Hb.
              destruct (Nat.eqb pb pk); [inversion Hb; subst; apply W1 in Ha; lia|eauto].
            - intros x k Hx. cbn [cols set_idB set_tkey set_next next] in *. apply W4. lia. }
          { intros c E. inversion E; subst. split; [cbn; lia|]. intros pa F. cbn in F. apply W1 in F. lia. }
    - cbn [fst snd]. split; [exact W|]. split; [apply grows_refl|]. intros c E. discriminate. }
  destruct res as [s1 tgt]. cbn [fst snd] in Res. destruct Res as [W1 [G1 Htgt]].
  set (al := match tgt with Some t0 => (s1, t0) | None => let '(sa, t0) := alloc s1 in (set_pending sa t0, t0) end) in *.
  assert (Al : wf (fst al) /\ grows s (fst al) /\ snd al < next (fst al) /\ forall pa, idA (fst al) pa <> Some (snd al)).
  { unfold al. destruct tgt as [t0|].
    - cbn [fst snd]. destruct (Htgt t0 eq_refl). auto.
    - cbn [alloc fst snd]. destruct W1 as [X1 X2 X3 X4]. destruct G1 as [G1 G2]. split; [|split; [split; [cbn; lia|exact G2]|split; [cbn; lia|]]].
      + constructor.
        * intros pa t H0. cbn in H0. apply X1 in H0. cbn. lia.
        * intros pb t H0. cbn in H0. apply X2 in H0. cbn. lia.
        * intros pa pb ta tb Ha Hb. cbn in Ha, Hb. eauto.
        * intros x k Hx. cbn [cols set_pending set_next next] in *. apply X4. lia.
      + intros pa F. cbn in F. apply X1 in F. lia. }
  destruct al as [s2 tc]. cbn [fst snd] in Al. destruct Al as [W2 [G2 [B2 S2]]].
  inversion H; subst; clear H.
  set (s3 := match sb_pk src with Some pk => merge_col load s2 tc 0 (SV (zpk pk)) | None => s2 end).
  assert (W3 : wf s3 /\ next s3 = next s2 /\ idA s3 = idA s2).
  { unfold s3. destruct (sb_pk src); [|auto]. split; [apply wf_merge_col; assumption|]. split; [apply next_merge_col|apply idA_merge_col]. }
  destruct W3 as [W3 [N3 A3]].
  set (s4 := merge_col load s3 tc 1 (sb_v src)).
  assert (W4 : wf s4 /\ next s4 = next s2 /\ idA s4 = idA s2).
  { unfold s4. split; [apply wf_merge_col; [lia|exact W3]|]. split; [rewrite next_merge_col; exact N3|rewrite idA_merge_col; exact A3]. }
  destruct W4 as [W4 [N4 A4]].
  set (s5 := if hb cfg && mb cfg && negb load then
               match sb_a src with BPunloaded => s4 | BPnone => set_par s4 tc (Some None) | BPparent => set_par s4 tc (Some (Some root)) end
             else s4).
  assert (I5 : inert s4 s5).
  { unfold s5. destruct (hb cfg && mb cfg && negb load); [|apply inert_refl]. destruct (sb_a src); [apply inert_refl| |]; repeat split; reflexivity. }
  assert (I6 : inert s5 (if load then s5 else commit_all s5 tc)) by (destruct load; [apply inert_refl|repeat split; reflexivity]).
  pose proof (inert_trans _ _ _ I5 I6) as [J1 [J2 [J3 J4]]].
  assert (W6 : wf (if load then s5 else commit_all s5 tc)) by (apply (inert_wf s4); [exact (inert_trans _ _ _ I5 I6)|exact W4]).
  assert (N6 : next (if load then s5 else commit_all s5 tc) = next s2) by (rewrite J1; exact N4).
  assert (A6 : idA (if load then s5 else commit_all s5 tc) = idA s2) by (rewrite J2; exact A4).
  destruct G2 as [G21 G22].
  split; [exact W6|]. split.
  { split; [apply Nat.le_trans with (next s2); [exact G21|apply Nat.eq_le_incl; symmetry; exact N6]
           |transitivity (idA s2); [exact A6|exact G22]]. }
  intros pk c E.
  assert (Old : forall c0, (c0 < next s /\ forall pa, idA s pa <> Some c0) ->
                c0 < next (if load then s5 else commit_all s5 tc) /\
                forall pa, idA (if load then s5 else commit_all s5 tc) pa <> Some c0).
  { intros c0 [Q1 Q2]. split; [rewrite N6; lia|]. intros pa. rewrite A6, G22. apply Q2. }
  assert (New : tc < next (if load then s5 else commit_all s5 tc) /\
                forall pa, idA (if load then s5 else commit_all s5 tc) pa <> Some tc).
  { split; [rewrite N6; exact B2|]. intros pa. rewrite A6. apply S2. }
  cbn [cmap] in E. destruct (sb_pk src) as [pk0|].
  - rewrite assoc_cons in E. destruct (Nat.eqb pk pk0).
    + inversion E; subst. exact New.
    + apply Old. eapply Hc; eauto.
  - apply Old. eapply Hc; eauto.
Qed.

Lemma wf_fold_merge_B : forall cfg load root sbs js s ctx dest s' ctx' dest',
  fold_left (merge_B cfg load root sbs) js (Some (s, ctx, dest)) = Some (s', ctx', dest') ->
  wf s -> cmap_ok s ctx -> wf s' /\ grows s s'.
Proof.
  intros cfg load root sbs. induction js as [|j js IH]; intros s ctx dest s' ctx' dest' H W Hc; cbn [fold_left] in H.
  - inversion H; subst. split; [exact W|apply grows_refl].
  - destruct (merge_B cfg load root sbs (Some (s, ctx, dest)) j) as [[[s1 ctx1] dest1]|] eqn:E.
    + destruct (wf_merge_B _ _ _ _ _ _ _ _ _ _ _ E W Hc) as [W1 [G1 Hc1]].
      destruct (IH _ _ _ _ _ _ H W1 Hc1) as [W2 G2]. split; [exact W2|eapply grows_trans; eauto].
    + exfalso. clear -H. induction js; cbn [fold_left] in H; [discriminate|auto].
Qed.

Theorem wf_merge_A : forall cfg load sbs s src s' t, wf s -> merge_A cfg load sbs s src = Some (s', t) -> wf s'.
Proof.
  intros cfg load sbs s src s' t W H. unfold merge_A in H.
  destruct (negb (sa_detached src) && negb load); [discriminate|].
  set (res := match match sa_pk src with Some pk => idA s pk | None => None end with
              | Some t0 => (s, Some t0)
              | None => match sa_pk src with
                        | Some pk => if negb load then
                                       let '(sa, t0) := alloc s in (set_idA (set_tkey sa t0 (Some pk)) pk (Some t0), Some t0)
                                     else get_A cfg s pk
                        | None => (s, None)
                        end
              end) in *.
  assert (Res : wf (fst res) /\ (forall c, snd res = Some c -> c < next (fst res))).
  { unfold res. destruct (sa_pk src) as [pk|].
    - destruct (idA s pk) as [t0|] eqn:Ia.
      + cbn [fst snd]. split; [exact W|]. intros c E. inversion E; subst. destruct W as [W1 _ _ _]. eauto.
      + destruct load; cbn [negb].
        * destruct (wf_get_A cfg s pk W) as [G1 [_ G3]]. split; [exact G1|exact G3].
        * cbn [alloc fst snd]. destruct W as [W1 W2 W3 W4]. split; [|intros c E; inversion E; cbn; lia].
          constructor.
          { intros pa t1 H0. cbn [idA set_idA set_tkey set_next] in H0. unfold upd in H0. cbn [next set_idA set_tkey set_next].
            destruct (Nat.eqb pa pk); [inversion H0; lia|apply W1 in H0; lia]. }
          { intros pb t1 H0. cbn in H0. apply W2 in H0. cbn. lia. }
          { intros pa pb ta tb Ha Hb. cbn [idA set_idA set_tkey set_next] in Ha. unfold upd in Ha. cbn in Hb.
            destruct (Nat.eqb pa pk); [inversion Ha; subst; apply W2 in Hb; lia|eauto]. }
          { intros x k Hx. cbn [cols set_idA set_tkey set_next next] in *. apply W4. lia. }
    - cbn [fst snd]. split; [exact W|]. intros c E. discriminate. }
  clearbody res. destruct res as [s1 tgt]. cbn [fst snd] in Res. destruct Res as [W1 Htgt]. cbv iota beta in H.
  set (al := match tgt with Some t1 => (s1, t1) | None => let '(sa, t2) := alloc s1 in (set_pending sa t2, t2) end) in *.
  assert (Al : wf (fst al) /\ snd al < next (fst al)).
  { unfold al. destruct tgt as [t0|]; [cbn [fst snd]; auto|]. cbn [alloc fst snd]. destruct W1 as [X1 X2 X3 X4].
    split; [|cbn; lia]. constructor.
    - intros pa t1 H0. cbn in H0. apply X1 in H0. cbn. lia.
    - intros pb t1 H0. cbn in H0. apply X2 in H0. cbn. lia.
    - intros pa pb ta tb Ha Hb. cbn in Ha, Hb. eauto.
    - intros x k Hx. cbn [cols set_pending set_next next] in *. apply X4. lia. }
  clearbody al. destruct al as [s2 t0]. cbn [fst snd] in Al. destruct Al as [W2 B2].
  set (s3 := match sa_pk src with Some pk => merge_col load s2 t0 0 (SV (zpk pk)) | None => s2 end) in *.
  assert (W3 : wf s3 /\ next s3 = next s2).
  { unfold s3. destruct (sa_pk src); [|auto]. split; [apply wf_merge_col; assumption|apply next_merge_col]. }
  destruct W3 as [W3 N3].
  set (s4 := merge_col load (merge_col load s3 t0 1 (sa_x src)) t0 2 (sa_y src)) in *.
  assert (W4 : wf s4).
  { unfold s4. apply wf_merge_col; [rewrite next_merge_col; lia|]. apply wf_merge_col; [lia|exact W3]. }
  assert (Fin : forall s7, (match sa_bs src with
                  | SV js => if mf cfg then
                               match fold_left (merge_B cfg load t0 sbs) js (Some (if load then lazy_bs cfg s4 t0 else s4, mkCtx [] [], [])) with
                               | None => None
                               | Some (s6, _, dest) => Some (if load then coll_set cfg s6 t0 dest else set_bs s6 t0 (Some dest))
                               end
                             else Some s4
                  | SU => Some s4 end) = Some s7 -> wf s7).
  { intros s7 E. destruct (sa_bs src) as [|js]; [inversion E; subst; exact W4|].
    destruct (mf cfg); [|inversion E; subst; exact W4].
    set (s5 := if load then lazy_bs cfg s4 t0 else s4) in *.
    assert (W5 : wf s5) by (unfold s5; destruct load; [apply wf_lazy_bs; exact W4|exact W4]).
    destruct (fold_left (merge_B cfg load t0 sbs) js (Some (s5, mkCtx [] [], []))) as [[[s6 ctx6] dest]|] eqn:Fo; [|discriminate].
    assert (Hc0 : cmap_ok s5 (mkCtx [] [])) by (intros pk c E0; discriminate).
    destruct (wf_fold_merge_B _ _ _ _ _ _ _ _ _ _ _ Fo W5 Hc0) as [W6 _].
    inversion E; subst. destruct load; [eapply inert_wf; [apply inert_coll_set|exact W6]|eapply wf_frame; [| | | |exact W6]; reflexivity]. }
  destruct (match sa_bs src with SV js => _ | SU => Some s4 end) as [s7|] eqn:E7; [|discriminate].
  specialize (Fin s7 eq_refl). inversion H; subst.
  destruct load; [exact Fin|eapply wf_frame; [| | | |exact Fin]; reflexivity].
Qed.

(* ---------- every history ---------- *)
Fixpoint mrun (cfg : mconfig) (sas : list srcA) (sbs : list srcB) (s : mstate) (ops : list mop) : mstate :=
  match ops with
  | [] => s
  | o :: rest => match mstep cfg sas sbs s o with Some s1 => mrun cfg sas sbs s1 rest | None => s end
  end.

Lemma wf_mstep : forall cfg sas sbs s o s1, wf s -> mstep cfg sas sbs s o = Some s1 -> wf s1.
Proof.
  intros cfg sas sbs s o s1 W H. destruct o; cbn [mstep] in H.
  - inversion H; subst. apply wf_get_A, W.
  - inversion H; subst. apply wf_get_B, W.
  - destruct (wf_get_A cfg s pk W) as [G1 _]. destruct (get_A cfg s pk) as [s2 r]. cbn [fst] in G1. inversion H; subst.
    destruct r; [apply wf_lazy_bs; exact G1|exact G1].
  - destruct (wf_get_A cfg s pk W) as [G1 [_ G3]]. destruct (get_A cfg s pk) as [s2 r]. cbn [fst snd] in *. inversion H; subst.
    destruct r as [t|]; [|exact G1]. apply wf_set_col; [apply G3; reflexivity|exact G1].
  - destruct (wf_get_B cfg s pk W) as [G1 [_ G3]]. destruct (get_B cfg s pk) as [s2 r]. cbn [fst snd] in *. inversion H; subst.
    destruct r as [t|]; [|exact G1]. apply wf_set_col; [apply G3; reflexivity|exact G1].
  - destruct (merge_A cfg load sbs s (nth i sas dummyA)) as [[s2 t]|] eqn:E; [|discriminate]. inversion H; subst.
    eapply wf_merge_A; eauto.
Qed.

Theorem wf_all_histories : forall cfg sas sbs ops, wf (mrun cfg sas sbs m0 ops).
Proof.
  intros cfg sas sbs ops. assert (G : forall l s, wf s -> wf (mrun cfg sas sbs s l)).
  { induction l as [|o l IH]; intros s W; cbn [mrun]; [exact W|].
    destruct (mstep cfg sas sbs s o) as [s1|] eqn:E; [|exact W]. apply IH. eapply wf_mstep; eauto. }
  apply G, wf_m0.
Qed.
