(* C33 - releasing a savepoint: the parent frame, with the child's collections merged into it
   (SessionTransaction._remove_snapshot), is related to the current state as the parent's snapshot
   demands (the merge keeps the key an object had when the parent began: repaired in f8f802f). *)
From Coq Require Import List ZArith Bool Arith Lia.
Import ListNotations.
From SAV.orm Require Import SessTxn SessTxnBase SessTxnSpec SessTxnInv SessTxnOps SessTxnShift SessTxnStmts SessTxnFlush.
Open Scope nat_scope.

Lemma expunged_nil : forall f o, expunged f [] o = mem o (fnew f).
Proof. intros. unfold expunged. cbn. apply orb_false_r. Qed.
Lemma pdelf_nil : forall f ob o, pdelf f ob [] o = if mem o (fdel f) then false else odelf (ob o).
Proof. intros. unfold pdelf. cbn. rewrite orb_false_r. reflexivity. Qed.

Definition ks_merge (l : list (nat * (Z * Z))) (e : nat * (Z * Z)) : list (nat * (Z * Z)) :=
  ks_set (fst e) (match ks_find (fst e) l with Some (po, _) => po | None => fst (snd e) end, snd (snd e)) l.

Lemma ks_fold_nodup : forall l base, NoDup (map fst base) -> NoDup (map fst (fold_left ks_merge l base)).
Proof. induction l as [|e l IH]; intros base H; cbn; auto. apply IH. apply ks_set_nodup. exact H. Qed.

Lemma ks_find_notin : forall x l, ~ In x (map fst l) -> ks_find x l = None.
Proof.
  intros x l. induction l as [|[a p] l IH]; cbn; intros H; auto.
  destruct (Nat.eqb_spec a x); [exfalso; apply H; left; auto|]. apply IH. intros X; apply H; right; auto.
Qed.

Lemma ks_find_fold : forall l base x, NoDup (map fst l) ->
  ks_find x (fold_left ks_merge l base) =
  match ks_find x l with
  | Some (old, nw) => Some (match ks_find x base with Some (po, _) => po | None => old end, nw)
  | None => ks_find x base
  end.
Proof.
  induction l as [|[a [old nw]] l IH]; intros base x H; cbn [fold_left ks_find]; auto.
  inversion H; subst. rewrite IH by auto. unfold ks_merge. cbn [fst snd].
  destruct (Nat.eqb_spec a x).
  - subst. rewrite (ks_find_notin x l) by auto. rewrite ks_find_set. rewrite Nat.eqb_refl. reflexivity.
  - destruct (ks_find x l) as [[o1 n1]|]; rewrite ks_find_set; (destruct (Nat.eqb_spec x a); [congruence|reflexivity]).
Qed.

Section Merge.
  Variables (gp g : ghost) (p f : frame) (ob : nat -> obj) (n : nat) (W : tbl).
  Hypothesis GCp : GClean gp.
  Hypothesis GCg : GClean g.
  Hypothesis G : Good ob n W [] [].
  Hypothesis L : Rel gp p (gobjs g) (gn g) [] [] (gW g).
  Hypothesis R : Rel g f ob n [] [] W.

  Let m := merge_into p f.

  Lemma Mn : forall x, mem x (fnew m) = mem x (fnew p) || mem x (fnew f).
  Proof. intros x. unfold m, merge_into. cbn. apply mem_fold_addm. Qed.
  Lemma Md : forall x, mem x (fdirty m) = mem x (fdirty p) || mem x (fdirty f).
  Proof. intros x. unfold m, merge_into. cbn. apply mem_fold_addm. Qed.
  Lemma Me : forall x, mem x (fdel m) = mem x (fdel p) || mem x (fdel f).
  Proof. intros x. unfold m, merge_into. cbn. apply mem_fold_addm. Qed.
  Lemma Mk : forall x, ks_find x (fks m) =
    match ks_find x (fks f) with
    | Some (old, nw) => Some (match ks_find x (fks p) with Some (po, _) => po | None => old end, nw)
    | None => ks_find x (fks p)
    end.
  Proof. intros x. unfold m, merge_into. cbn. apply (ks_find_fold (fks f) (fks p) x). apply (r_ksu _ _ _ _ _ _ _ R). Qed.

  Let GGp := proj1 GCp.
  Let GGg := proj1 GCg.
  Lemma le_pg : gn gp <= gn g. Proof. exact (r_n _ _ _ _ _ _ _ L). Qed.
  Lemma le_gn : gn g <= n. Proof. exact (r_n _ _ _ _ _ _ _ R). Qed.

  (* transfer through the parent's relation *)
  Lemma TP : forall x, x < gn gp -> mem x (fnew p) = false ->
    oatt (gobjs g x) = oatt (gobjs gp x) /\
    (oatt (gobjs gp x) = true ->
       pkey p (gobjs g) x = okey (gobjs gp x) /\ (if mem x (fdel p) then false else odelf (gobjs g x)) = odelf (gobjs gp x)).
  Proof.
    intros x Hx Hn. destruct (r_id _ _ _ _ _ _ _ L x Hx) as [A B]; [rewrite expunged_nil; exact Hn|].
    split; auto. intros Ha. destruct (B Ha) as [B1 B2]. rewrite pdelf_nil in B2. auto.
  Qed.
  Lemma TF : forall x, x < gn g -> mem x (fnew f) = false ->
    oatt (ob x) = oatt (gobjs g x) /\
    (oatt (gobjs g x) = true ->
       pkey f ob x = okey (gobjs g x) /\ (if mem x (fdel f) then false else odelf (ob x)) = odelf (gobjs g x)).
  Proof.
    intros x Hx Hn. destruct (r_id _ _ _ _ _ _ _ R x Hx) as [A B]; [rewrite expunged_nil; exact Hn|].
    split; auto. intros Ha. destruct (B Ha) as [B1 B2]. rewrite pdelf_nil in B2. auto.
  Qed.
  (* an object attached in g is not new in f *)
  Lemma att_not_new_f : forall x, x < gn g -> oatt (gobjs g x) = true -> mem x (fnew f) = false.
  Proof.
    intros x Hx Ha. destruct (mem x (fnew f)) eqn:E; auto.
    pose proof (r_exp _ _ _ _ _ _ _ R x Hx) as X. rewrite expunged_nil in X. specialize (X E). congruence.
  Qed.
  Lemma att_not_new_p : forall x, x < gn gp -> oatt (gobjs gp x) = true -> mem x (fnew p) = false.
  Proof.
    intros x Hx Ha. destruct (mem x (fnew p)) eqn:E; auto.
    pose proof (r_exp _ _ _ _ _ _ _ L x Hx) as X. rewrite expunged_nil in X. specialize (X E). congruence.
  Qed.
  (* no key switch in p for an object p neither created nor flushed *)
  Lemma ks_p_none : forall x, mem x (fnew p) = false -> mem x (fdirty p) = false -> ks_find x (fks p) = None.
  Proof.
    intros x A B. destruct (ks_find x (fks p)) as [[old nw]|] eqn:E; auto.
    destruct (r_ks _ _ _ _ _ _ _ L x old nw E) as [_ [_ [_ [X|X]]]]; congruence.
  Qed.
  Lemma ks_f_none : forall x, mem x (fnew f) = false -> mem x (fdirty f) = false -> ks_find x (fks f) = None.
  Proof.
    intros x A B. destruct (ks_find x (fks f)) as [[old nw]|] eqn:E; auto.
    destruct (r_ks _ _ _ _ _ _ _ R x old nw E) as [_ [_ [_ [X|X]]]]; congruence.
  Qed.
  (* an object of the parent's identity map that the parent did not touch is in g's identity map, same key *)
  Lemma untouched_p : forall x k, x < gn gp -> oin (gobjs gp x) = true -> okey (gobjs gp x) = Some k ->
    mem x (fnew p) = false -> mem x (fdirty p) = false -> mem x (fdel p) = false ->
    oin (gobjs g x) = true /\ okey (gobjs g x) = Some k /\ oatt (gobjs g x) = true.
  Proof.
    intros x k Hx Hi Hk N1 N2 N3.
    destruct (g_in _ _ _ _ _ GGp x Hi) as [_ [Ha [Hd _]]].
    destruct (TP x Hx N1) as [T1 T2]. destruct (T2 Ha) as [K D].
    unfold pkey in K. rewrite (ks_p_none x N1 N2) in K. rewrite N3 in D.
    assert (Hag : oatt (gobjs g x) = true) by congruence.
    assert (Hkg : okey (gobjs g x) = Some k) by congruence.
    split; [|auto]. apply (g_pers _ _ _ _ _ GGg x k); auto; try congruence. pose proof le_pg. lia.
  Qed.

  Theorem Rel_merge : Rel gp m ob n [] [] W.
  Proof.
    pose proof le_pg as Hpg. pose proof le_gn as Hgn.
    constructor.
    - lia.
    - (* r_exp *)
      intros x Hx He. rewrite expunged_nil, Mn in He.
      destruct (mem x (fnew p)) eqn:E1.
      + pose proof (r_exp _ _ _ _ _ _ _ L x Hx) as X. rewrite expunged_nil in X. auto.
      + cbn in He. destruct (TP x Hx E1) as [T1 _]. rewrite <- T1.
        pose proof (r_exp _ _ _ _ _ _ _ R x) as X. rewrite expunged_nil in X. apply X; auto. lia.
    - (* r_id *)
      intros x Hx He. rewrite expunged_nil, Mn in He. apply orb_false_iff in He. destruct He as [E1 E2].
      destruct (TP x Hx E1) as [T1 T2]. destruct (TF x) as [F1 F2]; [lia|exact E2|].
      split; [congruence|]. intros Ha. destruct (T2 Ha) as [K1 D1].
      assert (Hag : oatt (gobjs g x) = true) by congruence. destruct (F2 Hag) as [K2 D2].
      split.
      + unfold pkey in *. rewrite Mk. destruct (ks_find x (fks f)) as [[old nw]|] eqn:Ef.
        * destruct (ks_find x (fks p)) as [[po pn]|]; congruence.
        * destruct (ks_find x (fks p)) as [[old nw]|]; congruence.
      + rewrite pdelf_nil, Me. destruct (mem x (fdel p)); cbn; [exact D1|]. congruence.
    - (* r_fresh *)
      intros x H1 H2. rewrite expunged_nil, Mn.
      destruct (Nat.lt_ge_cases x (gn g)) as [Hxg|Hxg].
      + destruct (r_fresh _ _ _ _ _ _ _ L x H1 Hxg) as [X|[X1 X2]].
        * rewrite expunged_nil in X. rewrite X. auto.
        * destruct (mem x (fnew f)) eqn:E2; [left; apply orb_true_r|]. right.
          destruct (TF x Hxg E2) as [F1 _]. split; [congruence|].
          destruct (oin (ob x)) eqn:Ei; auto. destruct (g_in _ _ _ _ _ G x Ei) as [_ [A _]]. congruence.
      + destruct (r_fresh _ _ _ _ _ _ _ R x Hxg H2) as [X|X]; [|right; exact X].
        rewrite expunged_nil in X. rewrite X. left. apply orb_true_r.
    - (* r_row *)
      intros x k Hx He Hi Hd Hde Hk. rewrite expunged_nil, Mn in He. apply orb_false_iff in He. destruct He as [E1 E2].
      rewrite Md in Hd. apply orb_false_iff in Hd. destruct Hd as [D1 D2].
      rewrite Me in Hde. apply orb_false_iff in Hde. destruct Hde as [X1 X2].
      destruct (untouched_p x k Hx Hi Hk E1 D1 X1) as [Ig [Kg Ag]].
      rewrite (r_row _ _ _ _ _ _ _ R x k); auto; [|lia|rewrite expunged_nil; exact E2].
      apply (r_row _ _ _ _ _ _ _ L x k); auto. rewrite expunged_nil; exact E1.
    - (* r_delv *)
      intros x k v Hx He Hde Hd Hm Hk Hw. rewrite expunged_nil, Mn in He. apply orb_false_iff in He. destruct He as [E1 E2].
      rewrite Md in Hd. apply orb_false_iff in Hd. destruct Hd as [D1 D2].
      rewrite Me in Hde.
      destruct (mem x (fdel p)) eqn:X1.
      + destruct (r_del _ _ _ _ _ _ _ L x X1) as [A1 [A2 [A3 [A4 A5]]]].
        destruct (r_keep _ _ _ _ _ _ _ R x A1 A4 A2 Hm) as [K1 [K2 K3]]. rewrite K1, K2.
        apply (r_delv _ _ _ _ _ _ _ L x k v); auto. rewrite expunged_nil; exact E1.
      + cbn in Hde.
        destruct (r_del _ _ _ _ _ _ _ R x Hde) as [A1 [A2 [A3 [A4 A5]]]].
        destruct (TF x) as [F1 F2]; [lia|exact E2|]. assert (Hag : oatt (gobjs g x) = true) by congruence.
        destruct (F2 Hag) as [K2 Dl2]. rewrite Hde in Dl2.
        destruct (TP x Hx E1) as [T1 T2]. assert (Hap : oatt (gobjs gp x) = true) by congruence.
        destruct (T2 Hap) as [K1 Dl1]. rewrite X1 in Dl1.
        unfold pkey in K1. rewrite (ks_p_none x E1 D1) in K1.
        assert (Hip : oin (gobjs gp x) = true).
        { apply (g_pers _ _ _ _ _ GGp x k); auto. congruence. }
        assert (Hwg : gW g k = gW gp k).
        { apply (r_row _ _ _ _ _ _ _ L x k); auto. rewrite expunged_nil; exact E1. }
        apply (r_delv _ _ _ _ _ _ _ R x k v); auto; try congruence; try lia. rewrite expunged_nil; exact E2.
    - (* r_ks *)
      intros x old nw Hk. rewrite Mk in Hk. rewrite Mn, Md.
      destruct (ks_find x (fks f)) as [[o1 n1]|] eqn:Ef.
      + inversion Hk; subst. destruct (r_ks _ _ _ _ _ _ _ R x o1 nw Ef) as [A1 [A2 [A3 A4]]].
        repeat split; auto. destruct A4 as [A4|A4]; rewrite A4; [left|right]; apply orb_true_r.
      + destruct (r_ks _ _ _ _ _ _ _ L x old nw Hk) as [A1 [A2 [A3 A4]]].
        pose proof (att_not_new_f x A1 A3) as E2.
        destruct (TF x A1 E2) as [F1 F2]. destruct (F2 A3) as [K2 _].
        unfold pkey in K2. rewrite Ef in K2.
        split; [lia|]. split; [congruence|]. split; [congruence|].
        destruct A4 as [A4|A4]; rewrite A4; auto.
    - (* r_del *)
      intros x Hde. rewrite Me in Hde.
      destruct (mem x (fdel f)) eqn:X2; [apply (r_del _ _ _ _ _ _ _ R x X2)|].
      rewrite orb_false_r in Hde.
      destruct (r_del _ _ _ _ _ _ _ L x Hde) as [A1 [A2 [A3 [A4 A5]]]].
      pose proof (att_not_new_f x A1 A4) as E2.
      destruct (TF x A1 E2) as [F1 F2]. destruct (F2 A4) as [K2 Dl2]. rewrite X2 in Dl2.
      assert (Hdf : mem x (fdirty f) = false).
      { destruct (mem x (fdirty f)) eqn:E; auto.
        destruct (r_dirty _ _ _ _ _ _ _ R x E) as [Y|[_ Y]]; congruence. }
      unfold pkey in K2. rewrite (ks_f_none x E2 Hdf) in K2.
      split; [lia|]. split.
      { destruct (oin (ob x)) eqn:Ei; auto. destruct (g_in _ _ _ _ _ G x Ei) as [_ [_ [Y _]]]. congruence. }
      split; [congruence|]. split; [congruence|]. congruence.
    - (* r_lists *)
      intros x H. rewrite Mn, Md in H. destruct H as [H|H]; apply orb_true_iff in H; destruct H as [H|H].
      + pose proof (r_lists _ _ _ _ _ _ _ L x (or_introl H)). lia.
      + apply (r_lists _ _ _ _ _ _ _ R x (or_introl H)).
      + pose proof (r_lists _ _ _ _ _ _ _ L x (or_intror H)). lia.
      + apply (r_lists _ _ _ _ _ _ _ R x (or_intror H)).
    - (* r_ksu *)
      unfold m, merge_into. cbn. apply ks_fold_nodup. apply (r_ksu _ _ _ _ _ _ _ L).
    - (* r_dirty *)
      intros x H. rewrite Md in H. rewrite Mn.
      destruct (mem x (fdirty p)) eqn:D1.
      + destruct (r_dirty _ _ _ _ _ _ _ L x D1) as [Y|Y]; [left; rewrite Y; reflexivity|right; exact Y].
      + cbn in H. destruct (r_dirty _ _ _ _ _ _ _ R x H) as [Y|[Y1 Y2]]; [left; rewrite Y; apply orb_true_r|].
        destruct (mem x (fnew p)) eqn:E1; [left; reflexivity|]. right.
        destruct (g_in _ _ _ _ _ GGg x Y2) as [_ [Ag [Dg Kg]]].
        assert (Hx : x < gn gp).
        { destruct (Nat.lt_ge_cases x (gn gp)) as [A|A]; auto.
          destruct (r_fresh _ _ _ _ _ _ _ L x A Y1) as [Z|[Z _]]; [rewrite expunged_nil in Z|]; congruence. }
        split; auto.
        destruct (TP x Hx E1) as [T1 T2]. assert (Hap : oatt (gobjs gp x) = true) by congruence.
        destruct (T2 Hap) as [K1 Dl1].
        assert (Hdp : odelf (gobjs gp x) = false).
        { rewrite <- Dl1. destruct (mem x (fdel p)); auto. }
        destruct (okey (gobjs gp x)) as [k|] eqn:Ek.
        * apply (g_pers _ _ _ _ _ GGp x k); auto.
        * exfalso. unfold pkey in K1. destruct (ks_find x (fks p)) as [[o1 n1]|]; [discriminate|]. congruence.
    - (* r_keep *)
      intros x Hx Ha Hi Hm.
      pose proof (att_not_new_p x Hx Ha) as E1.
      destruct (TP x Hx E1) as [T1 _]. assert (Hag : oatt (gobjs g x) = true) by congruence.
      assert (Hig : oin (gobjs g x) = false).
      { apply (Rel_notin gp p (gobjs g) (gn g) [] [] (gW g) x); auto. }
      assert (Hxg : x < gn g) by lia.
      destruct (r_keep _ _ _ _ _ _ _ R x Hxg Hag Hig Hm) as [K1 [K2 K3]].
      destruct (r_keep _ _ _ _ _ _ _ L x Hx Ha Hi K3) as [L1 [L2 L3]].
      repeat split; congruence.
  Qed.
End Merge.
