(* C53 - the shard of an object is chosen once: identity token and primary key never change afterwards *)
From Coq Require Import List ZArith NArith Bool Lia.
Import ListNotations.
From SAV.orm Require Import Shard ShardDb ShardInv ShardFlush ShardLoad ShardOps ShardDelete.
Open Scope Z_scope.

Definition keep (i i' : inst) : Prop :=
  i_tok i' = i_tok i /\ r_pk (i_cur i') = r_pk (i_cur i) /\ i_life i' <> Pending.

(* every non-pending object of [l] is still there in [l'], same number, same token, same pk *)
Definition ext (l l' : list inst) : Prop :=
  forall o i, nth_error l o = Some i -> i_life i <> Pending ->
  exists i', nth_error l' o = Some i' /\ keep i i'.

Lemma ext_refl : forall l, ext l l.
Proof. intros l o i H Hl. exists i. unfold keep. auto. Qed.

Lemma ext_trans : forall a b c, ext a b -> ext b c -> ext a c.
Proof.
  intros a b c H1 H2 o i Hn Hl. destruct (H1 _ _ Hn Hl) as [i1 [Hn1 [T1 [P1 L1]]]].
  destruct (H2 _ _ Hn1 L1) as [i2 [Hn2 [T2 [P2 L2]]]]. exists i2. unfold keep. split; auto.
  repeat split; congruence.
Qed.

Lemma ext_app : forall l x, ext l (l ++ x).
Proof.
  intros l x o i Hn Hl. exists i. split; [|unfold keep; auto].
  rewrite nth_error_app1; auto. apply nth_error_Some. congruence.
Qed.

Lemma ext_frel : forall sc l l', Forall2 (frel sc) l l' -> ext l l'.
Proof.
  intros sc l l' H o i Hn Hl. destruct (Forall2_nth _ _ _ _ _ H Hn) as [i' [Hn' Hr]]. exists i'. split; auto.
  unfold frel in Hr. unfold keep. destruct (i_life i) eqn:E; [congruence| |]; destruct Hr as [? [? ?]]; repeat split; congruence.
Qed.

Lemma nth_upd_nth_same : forall {A} (f : A -> A) l n y, nth_error l n = Some y -> nth_error (upd_nth n f l) n = Some (f y).
Proof. induction l as [|a l IH]; intros [|n] y H; simpl in *; try discriminate; auto. now injection H as ->. Qed.
Lemma nth_upd_nth_other : forall {A} (f : A -> A) l n o, o <> n -> nth_error (upd_nth n f l) o = nth_error l o.
Proof. induction l as [|a l IH]; intros [|n] [|o] H; simpl in *; auto; try congruence. Qed.

Lemma ext_upd_nth : forall f l n y, nth_error l n = Some y -> (i_life y <> Pending -> keep y (f y)) ->
  ext l (upd_nth n f l).
Proof.
  intros f l n y Hy Hk o i Hn Hl. destruct (Nat.eq_dec o n) as [->|Hne].
  - rewrite Hy in Hn. injection Hn as <-. exists (f y). split; [now apply nth_upd_nth_same | auto].
  - exists i. rewrite nth_upd_nth_other by auto. split; auto. unfold keep. auto.
Qed.

Section Sticky.
  Variable sc : row -> N.
  Variable ic : Z -> list N.
  Variable ec : qry -> list N.

  Lemma flush_ext : forall st st', flush sc st = Ok st' -> ext (insts st) (insts st').
  Proof. intros. eapply ext_frel. eapply flush_frel; eauto. Qed.

  Lemma query_ext : forall st q tgt st' os, Inv (insts st) (db st) -> do_query sc ec st q tgt = Ok (st', os) ->
    ext (insts st) (insts st').
  Proof.
    intros st q tgt st' os HI H.
    destruct (do_query_spec _ _ _ _ _ _ _ HI H) as [_ [st1 [Ef [_ [_ [_ [_ [_ [_ [[x Hx] _]]]]]]]]]].
    eapply ext_trans; [eapply flush_ext; eauto|]. rewrite Hx. apply ext_app.
  Qed.

  Lemma delete_all_ext : forall os st st', delete_all st os = Ok st' -> ext (insts st) (insts st').
  Proof.
    induction os as [|o os IH]; simpl; intros st st' H.
    - injection H as <-. apply ext_refl.
    - destruct (delete_one st o) as [s1|] eqn:E; [|discriminate].
      destruct (delete_one_spec _ _ _ E) as [i0 [t [En [_ [_ [Hi _]]]]]].
      eapply ext_trans; [|eapply IH; eauto]. rewrite Hi.
      eapply ext_upd_nth; eauto. unfold keep. simpl. intros _. repeat split; auto. discriminate.
  Qed.

  Lemma get_ext : forall st k t st' ro, Inv (insts st) (db st) -> do_get sc ic ec st k t = Ok (st', ro) ->
    ext (insts st) (insts st').
  Proof.
    intros st k t st' ro HI E.
    destruct (do_get_cases _ _ _ _ _ _ _ _ E) as [[-> _]|[os [Eq _]]]; [apply ext_refl | eapply query_ext; eauto].
  Qed.

  Lemma set_ext : forall st o g v st', do_set st o g v = Ok st' -> ext (insts st) (insts st').
  Proof.
    intros st o g v st' H. unfold do_set in H. destruct (nth_error (insts st) o) as [i0|] eqn:En; [|discriminate].
    assert (ext (insts st) (upd_nth o (fun i => mkInst (mkRow (r_pk (i_cur i)) g v) (i_old i) (i_life i) (i_tok i)) (insts st)))
      by (eapply ext_upd_nth; eauto; unfold keep; simpl; auto).
    destruct (i_life i0); try discriminate; injection H as <-; simpl; auto.
  Qed.

  Lemma step_ext : forall st o st' r, Inv (insts st) (db st) -> step sc ic ec st o = Ok (st', r) ->
    ext (insts st) (insts st').
  Proof.
    intros st o st' r HI H. destruct o; simpl in H.
    - injection H as <- <-. simpl. apply ext_app.
    - unfold do_set in H. destruct (nth_error (insts st) o) as [i0|] eqn:En; [|discriminate].
      assert (ext (insts st) (upd_nth o (fun i => mkInst (mkRow (r_pk (i_cur i)) g v) (i_old i) (i_life i) (i_tok i)) (insts st)))
        by (eapply ext_upd_nth; eauto; unfold keep; simpl; auto).
      destruct (i_life i0); try discriminate; injection H as <- <-; simpl; auto.
    - destruct (flush sc st) as [s|] eqn:E; [|discriminate]. injection H as <- <-. eapply flush_ext; eauto.
    - unfold do_commit in H. destruct (flush sc st) as [s|] eqn:E; [|discriminate]. injection H as <- <-. simpl.
      eapply flush_ext; eauto.
    - unfold do_delete in H. destruct (forallb (valid_del st) os); [|discriminate].
      destruct (flush sc st) as [st1|] eqn:Ef; [|discriminate].
      destruct (delete_all st1 (dedup os)) as [s2|] eqn:Ed; [|discriminate]. injection H as <- <-.
      eapply ext_trans; [eapply flush_ext; eauto | eapply delete_all_ext; eauto].
    - destruct (do_query sc ec st q tgt) as [[s os]|] eqn:E; [|discriminate]. injection H as <- <-.
      eapply query_ext; eauto.
    - destruct (do_get sc ic ec st k t) as [[s ro]|] eqn:E; [|discriminate]. injection H as <- <-.
      destruct (do_get_cases _ _ _ _ _ _ _ _ E) as [[-> _]|[os [Eq _]]]; [apply ext_refl | eapply query_ext; eauto].
    - unfold do_refresh in H. destruct (nth_error (insts st) o) as [i0|] eqn:En; [|discriminate].
      destruct (i_life i0) eqn:El; try discriminate. destruct (i_tok i0) as [t|] eqn:Et; [|discriminate].
      match type of H with context [flush sc ?s0] => destruct (flush sc s0) as [st1|] eqn:Ef; [|discriminate] end.
      destruct (find_pk (r_pk (i_cur i0)) (db st1 t)) as [rw|] eqn:Er; [|discriminate]. injection H as <- <-. simpl.
      destruct (inv_row _ _ HI i0 (nth_error_In _ _ En) El) as [t0 [_ [_ Hpk]]].
      apply find_pk_some in Er. destruct Er as [_ Hrpk].
      eapply ext_trans; [eapply ext_upd_nth with (f := fun i => mkInst (i_old i) (i_old i) (i_life i) (i_tok i)); eauto|].
      { unfold keep. simpl. intros ?. repeat split; auto. }
      eapply ext_trans; [apply (flush_ext _ _ Ef)|]. simpl.
      pose proof (nth_upd_nth_same (fun i => mkInst (i_old i) (i_old i) (i_life i) (i_tok i)) _ _ _ En) as En0.
      destruct (Forall2_nth _ _ _ _ _ (flush_frel _ _ _ Ef) En0) as [i1 [En1 Hr]].
      unfold frel in Hr. simpl in Hr. rewrite El in Hr. destruct Hr as [L1 [T1 C1]].
      eapply ext_upd_nth; eauto. unfold keep. simpl. intros ?. repeat split; auto. congruence.
    - unfold do_merge in H. destruct (flush sc st) as [st1|] eqn:Ef; [|discriminate].
      pose proof (flush_inv _ _ _ Ef HI) as HI1.
      destruct (do_get sc ic ec st1 (r_pk r0) (Some t)) as [[st2 ro]|] eqn:Eg; [|discriminate].
      pose proof (get_ext _ _ _ _ _ HI1 Eg) as He2.
      destruct ro as [o|].
      + destruct (do_set st2 o (r_grp r0) (r_val r0)) as [st3|] eqn:Es; [|discriminate]. injection H as <- <-.
        eapply ext_trans; [eapply flush_ext; eauto|]. eapply ext_trans; [exact He2 | eapply set_ext; eauto].
      + injection H as <- <-. simpl.
        eapply ext_trans; [eapply flush_ext; eauto|]. eapply ext_trans; [exact He2 | apply ext_app].
  Qed.

  Lemma run_ext : forall d0 ops st st', Good d0 st -> run sc ic ec st ops = Ok st' -> ext (insts st) (insts st').
  Proof.
    intros d0. induction ops as [|o ops IH]; simpl; intros st st' HG H.
    - injection H as <-. apply ext_refl.
    - destruct (step sc ic ec st o) as [[s r]|] eqn:E; [|discriminate].
      eapply ext_trans; [eapply step_ext; eauto; apply HG|]. eapply IH; eauto. eapply step_good; eauto.
  Qed.

  (* once an object is persistent (or deleted) its identity token and primary key are fixed for the rest
     of the program, whatever is assigned to its attributes and whatever the choosers would say later *)
  Theorem token_is_sticky : forall d0 st ops st' o i, wf_db d0 -> reachable sc ic ec d0 st ->
    run sc ic ec st ops = Ok st' -> nth_error (insts st) o = Some i -> i_life i <> Pending ->
    exists i', nth_error (insts st') o = Some i' /\ i_tok i' = i_tok i /\ r_pk (i_cur i') = r_pk (i_cur i).
  Proof.
    intros d0 st ops st' o i Hw HR H Hn Hl.
    destruct (run_ext d0 _ _ _ (reachable_good _ _ _ _ _ Hw HR) H _ _ Hn Hl) as [i' [Hn' [? [? _]]]]. eauto.
  Qed.
End Sticky.
