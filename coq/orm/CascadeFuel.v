(* C39 - the fuel of the presort loop suffices: it never returns the distinguished "out of fuel" result when the
   processors are a sub-list of the relationship processors and the session holds only objects of the universe. *)
From Coq Require Import List Bool Arith Lia.
From SAV.orm Require Import Cascade CascadeIterProofs CascadeOpsProofs CascadeFlushProofs.
Import ListNotations.

Definition pair_eqb (a b : prop * nat) : bool := prop_eqb (fst a) (fst b) && Nat.eqb (snd a) (snd b).
Lemma prop_eqb_eq : forall a b, prop_eqb a b = true <-> a = b.
Proof.
  intros [x|x] [y|y]; cbn [prop_eqb]; split; intros H; try discriminate; try (apply Nat.eqb_eq in H; subst; reflexivity);
    inversion H; apply Nat.eqb_refl.
Qed.
Lemma done_mem_In : forall pr o d, done_mem pr o d = true <-> In (pr, o) d.
Proof.
  intros pr o d. unfold done_mem. rewrite existsb_exists. split.
  - intros [[p x] [Hi He]]. cbn [fst snd] in He. apply andb_true_iff in He. destruct He as [E1 E2].
    apply prop_eqb_eq in E1. apply Nat.eqb_eq in E2. subst. exact Hi.
  - intros H. exists (pr, o). split; [exact H|]. cbn [fst snd]. apply andb_true_iff. split; [apply prop_eqb_eq; reflexivity|apply Nat.eqb_refl].
Qed.

Lemma NoDup_app_intro : forall A (a b : list A), NoDup a -> NoDup b -> (forall x, In x a -> In x b -> False) -> NoDup (a ++ b).
Proof.
  intros A. induction a as [|x a IH]; intros b Ha Hb H; cbn [app]; [exact Hb|].
  inversion Ha; subst. constructor.
  - rewrite in_app_iff. intros [F|F]; [contradiction|]. apply (H x); [left; reflexivity|exact F].
  - apply IH; auto. intros y Hy. apply H. right. exact Hy.
Qed.

Section Fuel.
Variable cfg : config.
Variable s : state.
Variable procs : list prop.
Variable universe : list prop.          (* the processors that may occur *)
Hypothesis procs_incl : incl procs universe.
Hypothesis session_bounded : forall x, in_session s x = true -> x < nobj cfg.

(* bookkeeping invariant of the loop *)
Definition fuel_inv (u : uow) : Prop :=
  uow_wf s u /\ NoDup (done_ u) /\ (forall pr o, In (pr, o) (done_ u) -> In pr universe /\ o < nobj cfg).

Lemma fuel_inv_register : forall u rq, fuel_inv u -> fuel_inv (register s u rq).
Proof.
  intros u rq [W [N D]]. split; [apply uow_wf_register; exact W|].
  assert (E : done_ (register s u rq) = done_ u).
  { destruct rq as [[x b] c]. unfold register. destruct (in_session s x); cbn [negb]; [|reflexivity].
    destruct (reg u x); [destruct (b || c)|]; reflexivity. }
  rewrite E. split; assumption.
Qed.
Lemma fuel_inv_fold_register : forall rqs u, fuel_inv u -> fuel_inv (fold_left (register s) rqs u).
Proof. induction rqs as [|rq rqs IH]; intros u H; cbn [fold_left]; auto. apply IH, fuel_inv_register, H. Qed.
Lemma done_fold_register : forall rqs u, done_ (fold_left (register s) rqs u) = done_ u.
Proof.
  induction rqs as [|rq rqs IH]; intros u; cbn [fold_left]; [reflexivity|]. rewrite IH.
  destruct rq as [[x b] c]. unfold register. destruct (in_session s x); cbn [negb]; [|reflexivity].
  destruct (reg u x); [destruct (b || c)|]; reflexivity.
Qed.

Definition todo_of (u : uow) (pr : prop) : list nat :=
  filter (fun o => Nat.eqb (cls cfg o) (prop_class cfg pr) && negb (done_mem pr o (done_ u))) (order u).

Lemma batch_spec : forall u ch pr, In pr universe -> fuel_inv u ->
  let r := batch cfg s (u, ch) pr in
  fuel_inv (fst r) /\ length (done_ (fst r)) = length (todo_of u pr) + length (done_ u) /\
  snd r = (match todo_of u pr with [] => ch | _ => true end).
Proof.
  intros u ch pr Hpr [W [N D]]. unfold batch. cbn [fst snd]. fold (todo_of u pr).
  set (todo := todo_of u pr).
  set (u1 := mkUow (reg u) (order u) (map (fun o => (pr, o)) todo ++ done_ u)).
  assert (Htodo : forall o, In o todo -> In o (order u) /\ ~ In (pr, o) (done_ u)).
  { intros o Ho. unfold todo, todo_of in Ho. apply filter_In in Ho. destruct Ho as [H1 H2]. split; [exact H1|].
    apply andb_true_iff in H2. destruct H2 as [_ H2]. apply negb_true_iff in H2. intros F. apply done_mem_In in F. congruence. }
  assert (Ntodo : NoDup todo) by (apply NoDup_filter; apply W).
  assert (I1 : fuel_inv u1).
  { split; [exact W|]. split.
    - cbn [done_ u1]. apply NoDup_app_intro.
      + clear -Ntodo. induction todo as [|o l IHl]; cbn [map]; [constructor|]. inversion Ntodo; subst. constructor; [|apply IHl; assumption].
        intros F. apply in_map_iff in F. destruct F as [o' [E Ho']]. inversion E; subst. contradiction.
      + exact N.
      + intros [p o] H1 H2. apply in_map_iff in H1. destruct H1 as [o' [E Ho']]. inversion E; subst. apply (Htodo o Ho'). exact H2.
    - intros p o H. cbn [done_ u1] in H. apply in_app_iff in H. destruct H as [H|H]; [|apply D; exact H].
      apply in_map_iff in H. destruct H as [o' [E Ho']]. inversion E; subst. split; [exact Hpr|].
      apply session_bounded. destruct W as [_ [W2 W3]]. apply W3, W2. apply Htodo. exact Ho'. }
  split; [apply fuel_inv_fold_register; exact I1|]. split; [|reflexivity].
  rewrite done_fold_register. cbn [done_ u1]. rewrite app_length, map_length. reflexivity.
Qed.

Lemma procs_spec : forall ps u ch, incl ps universe -> fuel_inv u ->
  let r := fold_left (batch cfg s) ps (u, ch) in
  fuel_inv (fst r) /\ length (done_ u) <= length (done_ (fst r)) /\
  (snd r = true -> ch = true \/ length (done_ u) < length (done_ (fst r))) /\
  (ch = true -> snd r = true).
Proof.
  induction ps as [|pr ps IH]; intros u ch Hi Hu; cbn [fold_left].
  - cbn [fst snd]. split; [exact Hu|]. split; [lia|]. split; [intros E; left; exact E|auto].
  - assert (Hpr : In pr universe) by (apply Hi; left; reflexivity).
    pose proof (batch_spec u ch pr Hpr Hu) as B. cbv zeta in B. destruct B as [B1 [B2 B3]].
    destruct (batch cfg s (u, ch) pr) as [u1 ch1]. cbn [fst snd] in *.
    assert (Hi' : incl ps universe) by (intros x Hx; apply Hi; right; exact Hx).
    pose proof (IH u1 ch1 Hi' B1) as I. cbv zeta in I. destruct I as [I1 [I2 [I3 I4]]].
    split; [exact I1|]. split; [lia|]. split.
    + intros E. destruct (I3 E) as [E1|E1]; [|right; lia]. rewrite B3 in E1.
      destruct (todo_of u pr) as [|o l] eqn:T; [left; exact E1|right]. cbn [length] in B2. lia.
    + intros E. apply I4. rewrite B3. destruct (todo_of u pr); [exact E|reflexivity].
Qed.

Lemma NoDup_pairs_bound : forall (d : list (prop * nat)) (us : list prop) (n : nat),
  NoDup d -> (forall pr o, In (pr, o) d -> In pr us /\ o < n) -> length d <= length us * n.
Proof.
  intros d us n Hnd H. rewrite <- (seq_length n 0), <- prod_length.
  apply NoDup_incl_length; [exact Hnd|]. intros [pr o] Hi. apply in_prod; [apply (H pr o Hi)|].
  apply in_seq. destruct (H pr o Hi). lia.
Qed.

Lemma presort_enough_fuel : forall fuel u,
  fuel_inv u -> length universe * nobj cfg < fuel + length (done_ u) -> presort cfg s procs fuel u <> None.
Proof.
  induction fuel as [|f IH]; intros u Hu Hf.
  - destruct Hu as [_ [N D]]. pose proof (NoDup_pairs_bound (done_ u) universe (nobj cfg) N D). cbn [plus] in Hf. lia.
  - cbn [presort]. pose proof (procs_spec procs u false procs_incl Hu) as PS. cbv zeta in PS. destruct PS as [P1 [P2 [P3 _]]].
    destruct (fold_left (batch cfg s) procs (u, false)) as [u1 ch]. cbn [fst snd] in *.
    destruct ch; [|discriminate]. apply IH; [exact P1|]. destruct (P3 eq_refl) as [E|E]; [discriminate|lia].
Qed.
End Fuel.

Lemma uow0_fuel_inv : forall cfg s universe, fuel_inv cfg s universe uow0.
Proof. intros. split; [apply uow_wf0|]. split; [constructor|intros pr o []]. Qed.

Lemma top_fuel_inv : forall cfg s universe,
  fuel_inv cfg (fst (flush_top cfg s)) universe (snd (flush_top cfg s)).
Proof.
  intros cfg s universe. split; [apply uow_wf_top|].
  assert (E : done_ (snd (flush_top cfg s)) = []).
  { unfold flush_top. cbn [snd].
    set (s1 := fold_left (fun a o => if top_expunge cfg s o then expunge1 a o else a) (top_proc cfg s) s).
    assert (A : forall l u, done_ (fold_left (top_register cfg s s1) l u) = done_ u).
    { induction l as [|c l IH]; intros u; cbn [fold_left]; [reflexivity|]. rewrite IH. unfold top_register.
      destruct (top_expunge cfg s c); [reflexivity|]. unfold register. destruct (in_session s1 c); cbn [negb]; [|reflexivity].
      destruct (reg u c); [destruct (is_orphan cfg s c && has_key s c || false)|]; reflexivity. }
    assert (B : forall l u, done_ (fold_left (top_marked s1) l u) = done_ u).
    { induction l as [|c l IH]; intros u; cbn [fold_left]; [reflexivity|]. rewrite IH. unfold top_marked.
      destruct (marked s1 c && in_session s1 c); [|reflexivity]. destruct (reg u c) eqn:R; [reflexivity|].
      unfold register. destruct (in_session s1 c); cbn [negb]; [rewrite R|]; reflexivity. }
    rewrite B, A. reflexivity. }
  rewrite E. split; [constructor|intros pr o []].
Qed.

(* the flush never runs out of fuel *)
Theorem flush_fuel_suffices : forall cfg procs s,
  incl procs (all_procs cfg) -> (forall x, in_session s x = true -> x < nobj cfg) ->
  presort cfg (fst (flush_top cfg s)) procs (presort_fuel cfg) (snd (flush_top cfg s)) <> None.
Proof.
  intros cfg procs s Hi Hb. apply (presort_enough_fuel cfg (fst (flush_top cfg s)) procs (all_procs cfg) Hi).
  - intros x Hx. apply Hb. unfold in_session in *. rewrite flush_top_st in Hx.
    destruct (mem x (top_proc cfg s) && top_expunge cfg s x); [|exact Hx]. destruct (st s x); try discriminate; reflexivity.
  - apply top_fuel_inv.
  - unfold presort_fuel. lia.
Qed.
