(* executable entry point for the correspondence check of C34 *)
From Coq Require Import List ZArith Bool Arith.
Import ListNotations.
From SAV.base Require Import Tree.
From SAV.orm Require Import IdMap.
Open Scope Z_scope.

Definition b2z (b : bool) : Z := if b then 1 else 0.
(* new | deleted<<1 | in identity map<<2 | persistent<<3 | attached<<4 | 32 * (0 or 2*pk + (token?) + 1) *)
Definition obj_code (o : obj) : Z :=
  b2z (inew o) + 2 * b2z (isdel o) + 4 * b2z (iimap o)
  + 8 * b2z (match okey o with Some _ => osess o && negb (odel o) | None => false end)
  + 16 * b2z (osess o)
  + 32 * match okey o with Some (k, t) => 2 * k + (if Z.eqb t 0 then 0 else 1) + 1 | None => 0 end.

Definition tok_of (b : Z) : Z := if Z.eqb b 0 then 0 else 7.
Definition decode_op (code a b : Z) (n : nat) : option op :=
  let i := Nat.modulo (Z.to_nat a) n in
  match code with
  | 0 => Some (Query a (tok_of b)) | 1 => Some (Get a (tok_of b)) | 2 => Some (Refresh i) | 3 => Some (Merge i)
  | 4 => Some (Expunge i) | 5 => Some (Add i) | 6 => Some (PkSet i b) | 7 => Some Flush | 8 => Some Commit
  | 9 => Some Rollback | 10 => Some (Delete i) | 11 => Some (ExtDelete a) | _ => None
  end.

(* w = code + 16 * a + 128 * b + 1024 * (bit mask of the visible rows: bit k-1 for pk k <= 4)
   fw = sum_j 16^j * (expired_j + 2 * pk_expired_j + 4 * pk_loaded_j + 8 * modified_j) *)
Definition flag_at (fw : Z) (bit : Z) (i : nat) : bool := Z.testbit fw (4 * Z.of_nat i + bit).
Definition rows_of (mask : Z) : list Z := filter (fun k => Z.testbit mask (k - 1)) [1; 2; 3; 4].
Definition decode_env (w fw : Z) : env :=
  mkEnv (rows_of (Z.shiftr w 10)) (flag_at fw 0) (flag_at fw 1) (flag_at fw 2) (flag_at fw 3).

Definition observe (r : result) : tree :=
  L (I (rerr r + 16 * b2z (rnosql r))
     :: I (fold_right (fun o acc => obj_code o + 512 * acc) 0 (objs (rst r)))
     :: map (fun h => I (Z.of_nat h)) (robjs r)).

Fixpoint run_ops (ops : list tree) (st : state) : option (list tree) :=
  match ops with
  | [] => Some []
  | L [I w; I fw] :: r =>
      if (w <? 0) || (fw <? 0) then None
      else
        match decode_op (Z.land w 15) (Z.land (Z.shiftr w 4) 7) (Z.land (Z.shiftr w 7) 7) (length (objs st)) with
        | Some o =>
            let e := decode_env w fw in
            if stop e st then Some [L [I 99]]
            else
              let res := step e o st in
              let cut := match o with Rollback => negb (Z.eqb (rerr res) 0) | _ => false end in
              if cut then Some [observe res; L [I 99]]
              else match run_ops r (rst res) with
                   | Some out => Some (observe res :: out)
                   | None => None
                   end
        | None => None
        end
  | _ => None
  end.

(* input  L [I eoc; L pks; L ops]   op = L [I w; I fw] *)
Definition run_case (t : tree) : tree :=
  match t with
  | L [teoc; tpks; L ops] =>
      match as_bool teoc, as_list_of as_Z tpks with
      | Some b, Some (p :: pks) =>
          match run_ops ops (init b (p :: pks)) with Some out => L out | None => bad_input end
      | _, _ => bad_input
      end
  | _ => bad_input
  end.
