(* C45 - merging the same source again: changes nothing when the source resolves to a persistent instance
   (proved here for the column part of the merge); refuted when the first merge created a pending copy. *)
From Coq Require Import List Bool Arith ZArith Lia.
From SAV.orm Require Import Merge MergeProofs MergeValues.
Import ListNotations.

(* observable equality of two session states: everything except the statement counter *)
Record same_session (a b : mstate) : Prop := mkSame {
  ss_next : next a = next b;
  ss_tkey : forall x, tkey a x = tkey b x;
  ss_tpend : forall x, tpend a x = tpend b x;
  ss_cols : forall x k, cols a x k = cols b x k;
  ss_ccomm : forall x k, ccomm a x k = ccomm b x k;
  ss_bs : forall x, bs a x = bs b x;
  ss_bscomm : forall x, bscomm a x = bscomm b x;
  ss_par : forall x, par a x = par b x;
  ss_pcomm : forall x, pcomm a x = pcomm b x;
  ss_modf : forall x, modf a x = modf b x;
  ss_idA : forall x, idA a x = idA b x;
  ss_idB : forall x, idB a x = idB b x;
  ss_pend : pendings a = pendings b
}.

Lemma same_refl : forall a, same_session a a.
Proof. intros; constructor; reflexivity. Qed.
Lemma same_trans : forall a b c, same_session a b -> same_session b c -> same_session a c.
Proof. intros a b c [] []; constructor; intros; congruence. Qed.

(* re-merging a column whose value is already the source value *)
Lemma merge_col_again : forall load s t k v,
  (match v with SV x => cols s t k = Some x /\ (load = true -> ccomm s t k <> None /\ modf s t = true) | SU => True end) ->
  same_session (merge_col load s t k v) s.
Proof.
  intros load s t k v H. destruct v as [|x]; cbn [merge_col]; [apply same_refl|]. destruct H as [Hc Hl].
  destruct load.
  - destruct (Hl eq_refl) as [Hcc Hm]. unfold set_col. destruct (ccomm s t k) eqn:Ec; [|contradiction].
    constructor; try reflexivity.
    + intros y k0. cbn [cols set_cols set_modf]. unfold upd2. destruct (Nat.eqb y t) eqn:E1; destruct (Nat.eqb k0 k) eqn:E2; cbn [andb]; try reflexivity.
      apply Nat.eqb_eq in E1. apply Nat.eqb_eq in E2. subst. symmetry. exact Hc.
    + intros y. cbn [modf set_cols set_modf]. unfold upd. destruct (Nat.eqb y t) eqn:E1; [|reflexivity].
      apply Nat.eqb_eq in E1. subst. symmetry. exact Hm.
  - constructor; try reflexivity. intros y k0. cbn [cols set_cols]. unfold upd2.
    destruct (Nat.eqb y t) eqn:E1; destruct (Nat.eqb k0 k) eqn:E2; cbn [andb]; try reflexivity.
    apply Nat.eqb_eq in E1. apply Nat.eqb_eq in E2. subst. symmetry. exact Hc.
Qed.

(* what the first merge of a column establishes, and that it survives the merge of the other columns *)
Definition col_done (load : bool) (s : mstate) (t k : nat) (v : sattr (option Z)) : Prop :=
  match v with SV x => cols s t k = Some x /\ (load = true -> ccomm s t k <> None /\ modf s t = true) | SU => True end.

Lemma col_done_after : forall load s t k v, col_done load (merge_col load s t k v) t k v.
Proof.
  intros load s t k v. destruct v as [|x]; cbn [col_done merge_col]; [exact I|]. destruct load.
  - unfold set_col. split.
    + destruct (ccomm s t k); cbn [cols set_cols set_modf set_ccomm]; unfold upd2; rewrite !Nat.eqb_refl; reflexivity.
    + intros _. split.
      * destruct (ccomm s t k) eqn:E; cbn [ccomm set_cols set_modf set_ccomm]; [rewrite E; discriminate|].
        unfold upd2. rewrite !Nat.eqb_refl. discriminate.
      * destruct (ccomm s t k); cbn [modf set_cols set_modf set_ccomm]; unfold upd; rewrite Nat.eqb_refl; reflexivity.
  - split; [cbn [cols set_cols]; unfold upd2; rewrite !Nat.eqb_refl; reflexivity|discriminate].
Qed.

Lemma col_done_kept : forall load s t k v k' v', k <> k' -> col_done load s t k v -> col_done load (merge_col load s t k' v') t k v.
Proof.
  intros load s t k v k' v' Hk H. destruct v as [|x]; [exact I|]. destruct H as [Hc Hl].
  destruct v' as [|x']; cbn [merge_col]; [split; assumption|]. destruct load.
  - destruct (Hl eq_refl) as [Hcc Hm]. unfold set_col. split.
    + destruct (ccomm s t k'); cbn [cols set_cols set_modf set_ccomm]; unfold upd2; rewrite Nat.eqb_refl; cbn [andb];
        (destruct (Nat.eqb k k') eqn:E; [apply Nat.eqb_eq in E; contradiction|exact Hc]).
    + intros _. split.
      * destruct (ccomm s t k'); cbn [ccomm set_cols set_modf set_ccomm]; [exact Hcc|].
        unfold upd2. rewrite Nat.eqb_refl. cbn [andb]. destruct (Nat.eqb k k') eqn:E; [apply Nat.eqb_eq in E; contradiction|exact Hcc].
      * destruct (ccomm s t k'); cbn [modf set_cols set_modf set_ccomm]; unfold upd; rewrite Nat.eqb_refl; reflexivity.
  - split; [|discriminate]. cbn [cols set_cols]. unfold upd2. rewrite Nat.eqb_refl. cbn [andb].
    destruct (Nat.eqb k k') eqn:E; [apply Nat.eqb_eq in E; contradiction|exact Hc].
Qed.

Lemma same_commit_congr : forall a b t, same_session a b -> same_session (commit_all a t) (commit_all b t).
Proof.
  intros a b t [A1 A2 A3 A4 A5 A6 A7 A8 A9 A10 A11 A12 A13].
  constructor; cbn [next tkey tpend cols ccomm bs bscomm par pcomm modf idA idB pendings commit_all]; auto.
  - intros x k. destruct (Nat.eqb x t); [reflexivity|apply A5].
  - intros x. unfold upd. destruct (Nat.eqb x t); [reflexivity|apply A7].
  - intros x. unfold upd. destruct (Nat.eqb x t); [reflexivity|apply A9].
  - intros x. unfold upd. destruct (Nat.eqb x t); [reflexivity|apply A10].
Qed.

Lemma same_commit_all_again : forall s t, same_session (commit_all (commit_all s t) t) (commit_all s t).
Proof.
  intros s t. constructor; try reflexivity.
  - intros x k. cbn [ccomm commit_all]. destruct (Nat.eqb x t); reflexivity.
  - intros x. cbn [bscomm commit_all]. unfold upd. destruct (Nat.eqb x t); reflexivity.
  - intros x. cbn [pcomm commit_all]. unfold upd. destruct (Nat.eqb x t); reflexivity.
  - intros x. cbn [modf commit_all]. unfold upd. destruct (Nat.eqb x t); reflexivity.
Qed.

(* merge_idempotent, column part: the source has a primary key that resolves to a persistent instance after the
   first merge and no relationship is merged (bs not loaded on the source, or no merge cascade) *)
Theorem merge_idempotent_columns_partial : forall cfg load sbs s src s1 t,
  wf s -> merge_A cfg load sbs s src = Some (s1, t) ->
  (forall pk, sa_pk src = Some pk -> load = false \/ idA s pk <> None \/ assoc pk (rowsA cfg) <> None) ->
  sa_pk src <> None ->
  (sa_bs src = SU \/ mf cfg = false) ->
  exists s2, merge_A cfg load sbs s1 src = Some (s2, t) /\ same_session s2 s1 /\ sql s2 = sql s1.
Proof.
  intros cfg load sbs s src s1 t W H Hres Hpk Hnorel.
  destruct (sa_pk src) as [pk|] eqn:Epk; [|contradiction].
  destruct (merge_identity_and_values cfg load sbs s src s1 t W H) as [Hid _].
  destruct (Hid pk Epk) as [_ Hid2]. specialize (Hid2 (Hres pk eq_refl)).
  (* shape of the first merge: s1 = (commit) (merge of the three columns) on some state s0 with target t *)
  assert (Shape : exists s0, s1 = (if load then merge_col load (merge_col load (merge_col load s0 t 0 (SV (zpk pk))) t 1 (sa_x src)) t 2 (sa_y src)
                                   else commit_all (merge_col load (merge_col load (merge_col load s0 t 0 (SV (zpk pk))) t 1 (sa_x src)) t 2 (sa_y src)) t)).
  { unfold merge_A in H. rewrite Epk in H. destruct (negb (sa_detached src) && negb load); [discriminate|].
    match type of H with (let '(s1, tgt) := ?r in _) = _ => destruct r as [sa tgt] end.
    match type of H with (let '(s2, t) := ?r in _) = _ => destruct r as [sb t0] end.
    assert (E : (match sa_bs src with
                 | SV js => if mf cfg then
                              match fold_left (merge_B cfg load t0 sbs) js
                                      (Some (if load then lazy_bs cfg (merge_col load (merge_col load (merge_col load sb t0 0 (SV (zpk pk))) t0 1 (sa_x src)) t0 2 (sa_y src)) t0
                                             else merge_col load (merge_col load (merge_col load sb t0 0 (SV (zpk pk))) t0 1 (sa_x src)) t0 2 (sa_y src), mkCtx [] [], [])) with
                              | None => None
                              | Some (s6, _, dest) => Some (if load then coll_set cfg s6 t0 dest else set_bs s6 t0 (Some dest))
                              end
                            else Some (merge_col load (merge_col load (merge_col load sb t0 0 (SV (zpk pk))) t0 1 (sa_x src)) t0 2 (sa_y src))
                 | SU => Some (merge_col load (merge_col load (merge_col load sb t0 0 (SV (zpk pk))) t0 1 (sa_x src)) t0 2 (sa_y src)) end)
                = Some (merge_col load (merge_col load (merge_col load sb t0 0 (SV (zpk pk))) t0 1 (sa_x src)) t0 2 (sa_y src))).
    { destruct Hnorel as [Hn|Hn]; rewrite Hn; [reflexivity|]. destruct (sa_bs src); reflexivity. }
    rewrite E in H. inversion H; subst. exists sb. destruct load; reflexivity. }
  destruct Shape as [s0 Es1].
  set (c3 := merge_col load (merge_col load (merge_col load s0 t 0 (SV (zpk pk))) t 1 (sa_x src)) t 2 (sa_y src)) in *.
  (* what the three columns look like in c3 *)
  assert (D0 : col_done load c3 t 0 (SV (zpk pk))).
  { unfold c3. apply col_done_kept; [discriminate|]. apply col_done_kept; [discriminate|]. apply col_done_after. }
  assert (D1 : col_done load c3 t 1 (sa_x src)).
  { unfold c3. apply col_done_kept; [discriminate|]. apply col_done_after. }
  assert (D2 : col_done load c3 t 2 (sa_y src)) by (unfold c3; apply col_done_after).
  (* ... and in s1 (load=False: after the commit the columns keep their values, history is irrelevant) *)
  assert (E0 : col_done load s1 t 0 (SV (zpk pk)) /\ col_done load s1 t 1 (sa_x src) /\ col_done load s1 t 2 (sa_y src)).
  { rewrite Es1. destruct load; [auto|].
    assert (G : forall k v, col_done false c3 t k v -> col_done false (commit_all c3 t) t k v).
    { intros k v Hd. destruct v; [exact I|]. destruct Hd as [Hc _]. split; [exact Hc|discriminate]. }
    auto. }
  destruct E0 as [E0 [E1 E2]].
  (* second merge *)
  unfold merge_A. rewrite Epk.
  assert (Hdet : negb (sa_detached src) && negb load = false).
  { unfold merge_A in H. destruct (negb (sa_detached src) && negb load); [discriminate|reflexivity]. }
  rewrite Hdet, Hid2.
  set (d1 := merge_col load s1 t 0 (SV (zpk pk))).
  assert (S1 : same_session d1 s1) by (apply merge_col_again; exact E0).
  set (d2 := merge_col load d1 t 1 (sa_x src)).
  assert (S2 : same_session d2 d1).
  { apply merge_col_again. destruct (sa_x src) as [|x]; [exact I|]. destruct E1 as [Ec El].
    destruct S1 as [_ _ _ Sc Scc _ _ _ _ Sm _ _ _]. split; [rewrite Sc; exact Ec|]. intros Hl. destruct (El Hl). rewrite Scc, Sm. auto. }
  set (d3 := merge_col load d2 t 2 (sa_y src)).
  assert (S3 : same_session d3 d2).
  { apply merge_col_again. destruct (sa_y src) as [|x]; [exact I|]. destruct E2 as [Ec El].
    pose proof (same_trans _ _ _ S2 S1) as [_ _ _ Sc Scc _ _ _ _ Sm _ _ _]. split; [rewrite Sc; exact Ec|]. intros Hl. destruct (El Hl). rewrite Scc, Sm. auto. }
  assert (S123 : same_session d3 s1) by (eapply same_trans; [exact S3|eapply same_trans; [exact S2|exact S1]]).
  assert (Q : sql d3 = sql s1).
  { unfold d3, d2, d1. assert (G : forall a k v, sql (merge_col load a t k v) = sql a).
    { intros a k v. destruct v; cbn [merge_col]; [reflexivity|]. destruct load; [unfold set_col; destruct (ccomm a t k)|]; reflexivity. }
    rewrite !G. reflexivity. }
  assert (E : (match sa_bs src with
               | SV js => if mf cfg then
                            match fold_left (merge_B cfg load t sbs) js (Some (if load then lazy_bs cfg d3 t else d3, mkCtx [] [], [])) with
                            | None => None
                            | Some (s6, _, dest) => Some (if load then coll_set cfg s6 t dest else set_bs s6 t (Some dest))
                            end
                          else Some d3
               | SU => Some d3 end) = Some d3).
  { destruct Hnorel as [Hn|Hn]; rewrite Hn; [reflexivity|]. destruct (sa_bs src); reflexivity. }
  cbv zeta. fold d1. fold d2. fold d3. rewrite E.
  exists (if load then d3 else commit_all d3 t). split; [reflexivity|]. destruct load.
  - split; [exact S123|exact Q].
  - split; [|exact Q].
    (* commit_all of a state equal to an already committed one *)
    eapply same_trans; [apply same_commit_congr; exact S123|]. rewrite Es1. apply same_commit_all_again.
Qed.

(* ---------- refutation: a source whose key has no row ---------- *)
Definition idem_cfg : mconfig := mkMC true true true [(1, (Some 10%Z, Some 20%Z))] [].
Definition idem_src : srcA := mkSA false (Some 4) (SV (Some 15%Z)) (SV (Some 25%Z)) SU.

Theorem merge_idempotent_refuted :
  exists cfg sbs s src s1 t1 s2 t2,
    wf s /\ merge_A cfg true sbs s src = Some (s1, t1) /\ merge_A cfg true sbs s1 src = Some (s2, t2) /\
    t2 <> t1 /\ pendings s1 = [t1] /\ pendings s2 = [t1; t2] /\
    cols s2 t1 0 = cols s2 t2 0.     (* two pending objects with the same primary key *)
Proof.
  exists idem_cfg, [], m0, idem_src.
  eexists. eexists. eexists. eexists.
  split; [exact wf_m0|]. split; [vm_compute; reflexivity|]. split; [vm_compute; reflexivity|].
  vm_compute. repeat split; auto. discriminate.
Qed.
