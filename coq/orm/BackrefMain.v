(* C37 - the statements used by props/C37.v. *)
From Coq Require Import List NArith Bool Lia Arith.
Import ListNotations.
From SAV.orm Require Import Backref BackrefSpec BackrefBase BackrefO2M BackrefM2M BackrefBulk
  BackrefSetItem BackrefClear BackrefTotal.
Open Scope N_scope.

Definition ok_or_err (r : res) (s' : st) : Prop := r = Ok s' \/ exists e, r = Err e s'.

Lemma neqb : forall a, negb (a =? 0) = true -> a <> 0.
Proof. intros a H. apply negb_true_iff in H. apply N.eqb_neq. exact H. Qed.
Lemma nmemb : forall v l, negb (memb v l) = true -> ~ In v l.
Proof. intros v l H. apply memb_false. apply negb_true_iff. exact H. Qed.

Lemma setitem_guard : forall v l i,
  (negb (memb v l) || match nth_error l i with Some e => e =? v | None => true end) = true ->
  ~ In v l \/ nth_error l i = Some v \/ nth_error l i = None.
Proof.
  intros v l i H. apply orb_true_iff in H. destruct H as [H|H]; [left; apply nmemb; exact H|].
  destruct (nth_error l i) as [e|]; [|auto]. apply N.eqb_eq in H. subst. auto.
Qed.

(* ---------- one-to-many / many-to-one ---------- *)
Theorem o2m_step_guarded : forall s p, inv_o2m s -> guard_o2m s p = true ->
  exists s', ok_or_err (step_prim O2M p s) s' /\ inv_o2m s'.
Proof.
  intros s p I G. destruct p as [sd o v|sd o v|sd o i v|sd o i|sd o i|sd o i v|sd o vs|sd o v|sd o|sd o];
    cbn [guard_o2m guard_coll_prim] in G.
  - destruct sd; cbn in G; [|discriminate]. repeat (apply andb_true_iff in G; destruct G as [G ?]).
    destruct (o2m_append s o v I) as [s' [E I']]; [apply neqb; assumption|apply neqb; assumption|apply nmemb; assumption|].
    exists s'. split; [left; exact E|exact I'].
  - destruct sd; cbn in G; [|discriminate]. repeat (apply andb_true_iff in G; destruct G as [G ?]).
    destruct (o2m_remove s o v I) as [s' [[E|E] I']]; [apply neqb; assumption|apply neqb; assumption| |];
      exists s'; (split; [|exact I']); [left; exact E|right; eexists; exact E].
  - destruct sd; cbn in G; [|discriminate]. repeat (apply andb_true_iff in G; destruct G as [G ?]).
    destruct (o2m_insert s o i v I) as [s' [E I']]; [apply neqb; assumption|apply neqb; assumption|apply nmemb; assumption|].
    exists s'. split; [left; exact E|exact I'].
  - destruct sd; cbn in G; [|discriminate]. apply neqb in G.
    destruct (o2m_pop s o i I G) as [s' [[E|E] I']]; exists s'; (split; [|exact I']);
      [left; exact E|right; eexists; exact E].
  - destruct sd; cbn in G; [|discriminate]. apply neqb in G.
    destruct (o2m_delitem s o i I G) as [s' [[E|E] I']]; exists s'; (split; [|exact I']);
      [left; exact E|right; eexists; exact E].
  - destruct sd; cbn in G; [|discriminate]. repeat (apply andb_true_iff in G; destruct G as [G ?]).
    destruct (o2m_setitem s o i v I) as [s' [[E|E] I']];
      [apply neqb; assumption|apply neqb; assumption|apply setitem_guard; assumption| |];
      exists s'; (split; [|exact I']); [left; exact E|right; eexists; exact E].
  - destruct sd; cbn in G; [|discriminate]. repeat (apply andb_true_iff in G; destruct G as [G ?]).
    destruct (o2m_replace s o vs I) as [s' [E I']];
      [apply neqb; assumption|apply nodupb_NoDup; assumption|apply nmemb; assumption|].
    exists s'. split; [left; exact E|exact I'].
  - destruct sd; [discriminate|]. apply neqb in G.
    destruct (o2m_set_parent s o v I G) as [s' [E I']]. exists s'. split; [left; exact E|exact I'].
  - destruct sd; [discriminate|]. apply neqb in G.
    destruct (o2m_del_parent s o I G) as [s' [[E|E] I']]; exists s'; (split; [|exact I']);
      [left; exact E|right; eexists; exact E].
  - destruct sd; cbn in G; [|discriminate]. apply neqb in G.
    destruct (o2m_delcoll s o I G) as [s' [E I']]. exists s'. split; [left; exact E|exact I'].
Qed.

(* ---------- many-to-many ---------- *)
Lemma side_eqb_refl : forall sd, side_eqb sd sd = true. Proof. destruct sd; reflexivity. Qed.

Theorem m2m_step_guarded : forall s p, inv_m2m s -> guard_m2m s p = true ->
  exists s', ok_or_err (step_prim M2M p s) s' /\ inv_m2m s'.
Proof.
  intros s p I G. destruct p as [sd o v|sd o v|sd o i v|sd o i|sd o i|sd o i v|sd o vs|sd o v|sd o|sd o];
    cbn [guard_m2m guard_coll_prim] in G; try discriminate;
    rewrite side_eqb_refl in G; cbn [andb] in G.
  - repeat (apply andb_true_iff in G; destruct G as [G ?]).
    destruct (m2m_append s sd o v I) as [s' [E I']]; [apply neqb; assumption|apply neqb; assumption|apply nmemb; assumption|].
    exists s'. split; [left; exact E|exact I'].
  - repeat (apply andb_true_iff in G; destruct G as [G ?]).
    destruct (m2m_remove s sd o v I) as [s' [[E|E] I']]; [apply neqb; assumption| |];
      exists s'; (split; [|exact I']); [left; exact E|right; eexists; exact E].
  - repeat (apply andb_true_iff in G; destruct G as [G ?]).
    destruct (m2m_insert s sd o i v I) as [s' [E I']]; [apply neqb; assumption|apply neqb; assumption|apply nmemb; assumption|].
    exists s'. split; [left; exact E|exact I'].
  - destruct (m2m_pop s sd o i I) as [s' [[E|E] I']]; exists s'; (split; [|exact I']);
      [left; exact E|right; eexists; exact E].
  - destruct (m2m_delitem s sd o i I) as [s' [[E|E] I']]; exists s'; (split; [|exact I']);
      [left; exact E|right; eexists; exact E].
  - repeat (apply andb_true_iff in G; destruct G as [G ?]).
    destruct (m2m_setitem s sd o i v I) as [s' [[E|E] I']];
      [apply neqb; assumption|apply neqb; assumption|apply setitem_guard; assumption| |];
      exists s'; (split; [|exact I']); [left; exact E|right; eexists; exact E].
  - repeat (apply andb_true_iff in G; destruct G as [G ?]).
    destruct (m2m_replace s sd o vs I) as [s' [E I']];
      [apply neqb; assumption|apply nodupb_NoDup; assumption|apply nmemb; assumption|].
    exists s'. split; [left; exact E|exact I'].
  - destruct (m2m_delcoll s sd o I) as [s' [E I']]. exists s'. split; [left; exact E|exact I'].
Qed.

(* ---------- sequences ---------- *)
(* every guarded sequence preserves the invariant *)
Corollary o2m_guarded_agree : forall ps s s', inv_o2m s ->
  run_guarded O2M guard_o2m ps s = Some s' -> inv_o2m s'.
Proof.
  induction ps as [|p rest IH]; intros s s' I R; cbn [run_guarded] in R; [injection R as <-; exact I|].
  destruct (guard_o2m s p) eqn:G; [|discriminate].
  destruct (o2m_step_guarded s p I G) as [s1 [[E|[e E]] I1]]; rewrite E in R; eapply IH; eauto.
Qed.
Corollary m2m_guarded_agree : forall ps s s', inv_m2m s ->
  run_guarded M2M guard_m2m ps s = Some s' -> inv_m2m s'.
Proof.
  induction ps as [|p rest IH]; intros s s' I R; cbn [run_guarded] in R; [injection R as <-; exact I|].
  destruct (guard_m2m s p) eqn:G; [|discriminate].
  destruct (m2m_step_guarded s p I G) as [s1 [[E|[e E]] I1]]; rewrite E in R; eapply IH; eauto.
Qed.

(* ---------- initial states ---------- *)
Definition empty_state (r : rkind) (pers : bool) : st :=
  mkst pers (fun _ => match kind_of r SA with Coll => CList [] | Scal => if pers then CVal 0 else CAbsent end)
            (fun _ => match kind_of r SB with Coll => CList [] | Scal => if pers then CVal 0 else CAbsent end).
Lemma empty_inv_o2m : forall pers, inv_o2m (empty_state O2M pers).
Proof.
  intros pers. constructor.
  - intros p c. cbn. destruct pers; split; try tauto; intros [P H]; try discriminate. injection H as H. congruence.
  - intros p. cbn. constructor.
  - intros p. cbn. tauto.
  - intros c. cbn. destruct pers; discriminate.
Qed.
Lemma empty_inv_m2m : forall pers, inv_m2m (empty_state M2M pers).
Proof.
  intros pers. constructor.
  - intros l r0. cbn. tauto.
  - intros o. cbn. constructor.
  - intros o. cbn. constructor.
  - intros o. cbn. tauto.
  - intros o. cbn. tauto.
Qed.

(* ---------- the defects (witnesses) ---------- *)
Definition view (s : st) (sd : side) (o : N) : cell := cells s sd o.

(* (a) one-to-one: p1.one = o1; p2.one = o1  leaves p1.one = o1 while o1.p = p2 *)
Theorem o2o_reassign_parent_side :
  exists s, run_prims O2O [PSet SA 1 1; PSet SA 2 1] (empty_state O2O false) = Some s /\
            sa s 1 = CVal 1 /\ sa s 2 = CVal 1 /\ sb s 1 = CVal 2 /\ ~ agree_o2o s.
Proof.
  eexists. split; [vm_compute; reflexivity|]. repeat split; try reflexivity.
  intros A. specialize (A 1 1). cbn in A. assert (H : CVal 2 = CVal 1) by (apply A; [discriminate|discriminate|reflexivity]).
  discriminate.
Qed.
(* symmetric: o1.p = p1; o2.p = p1  leaves o1.p = p1 while p1.one = o2 *)
Theorem o2o_reassign_child_side :
  exists s, run_prims O2O [PSet SB 1 1; PSet SB 2 1] (empty_state O2O false) = Some s /\
            sb s 1 = CVal 1 /\ sb s 2 = CVal 1 /\ sa s 1 = CVal 2 /\ ~ agree_o2o s.
Proof.
  eexists. split; [vm_compute; reflexivity|]. repeat split; try reflexivity.
  intros A. specialize (A 1 1). cbn in A. assert (H : CVal 2 = CVal 1) by (apply A; [discriminate|discriminate|reflexivity]).
  discriminate.
Qed.

(* (b) duplicates: a child present twice stays once after being re-parented / popped once *)
Theorem o2m_duplicate_reparent :
  exists s1 s, run_prims O2M [PAppend SA 1 1] (empty_state O2M false) = Some s1 /\
    guard_o2m s1 (PAppend SA 1 1) = false /\
    run_prims O2M [PAppend SA 1 1; PSet SB 1 2] s1 = Some s /\
    coll_of s SA 1 = [1] /\ coll_of s SA 2 = [1] /\ sb s 1 = CVal 2 /\ ~ agree_o2m s.
Proof.
  eexists. eexists. split; [vm_compute; reflexivity|]. split; [vm_compute; reflexivity|].
  split; [vm_compute; reflexivity|]. repeat split; try reflexivity.
  intros A. specialize (A 1 1). cbn in A. assert (H : 1 <> 0 /\ CVal 2 = CVal 1) by (apply A; left; reflexivity).
  destruct H as [_ H]. discriminate.
Qed.
Theorem o2m_duplicate_pop :
  exists s, run_prims O2M [PAppend SA 1 1; PAppend SA 1 1; PPop SA 1 0] (empty_state O2M false) = Some s /\
    coll_of s SA 1 = [1] /\ sb s 1 = CVal 0 /\ ~ agree_o2m s.
Proof.
  eexists. split; [vm_compute; reflexivity|]. repeat split; try reflexivity.
  intros A. specialize (A 1 1). cbn in A. assert (H : 1 <> 0 /\ CVal 0 = CVal 1) by (apply A; left; reflexivity).
  destruct H as [_ H]. discriminate.
Qed.
Theorem m2m_duplicate_replace :
  exists s, run_prims M2M [PAppend SA 1 1; PAppend SB 1 1; PReplace SA 1 []] (empty_state M2M false) = Some s /\
    coll_of s SA 1 = [] /\ coll_of s SB 1 = [1] /\ ~ agree_m2m s.
Proof.
  eexists. split; [vm_compute; reflexivity|]. repeat split; try reflexivity.
  intros A. specialize (A 1 1). cbn in A. apply A. left. reflexivity.
Qed.

(* the unloaded-side exception: the child's parent attribute is expired, its old parent's loaded
   collection is not updated when the child is appended elsewhere *)
Definition unloaded_example : st :=
  set_cell (set_cell (empty_state O2M true) SA 1 (CList [1])) SB 1 CUnl.
Theorem o2m_unloaded_side_exception :
  (forall p c, sb unloaded_example c <> CUnl ->
               (In c (coll_of unloaded_example SA p) <-> p <> 0 /\ sb unloaded_example c = CVal p)) /\
  guard_o2m unloaded_example (PAppend SA 2 1) = true /\
  exists s, step_prim O2M (PAppend SA 2 1) unloaded_example = Ok s /\
            coll_of s SA 1 = [1] /\ coll_of s SA 2 = [1] /\ sb s 1 = CVal 2.
Proof.
  split; [|split; [vm_compute; reflexivity|eexists; split; [vm_compute; reflexivity|repeat split; reflexivity]]].
  intros p c L.
  assert (SBc : sb unloaded_example c = if c =? 1 then CUnl else CVal 0) by reflexivity.
  assert (CO : coll_of unloaded_example SA p = if p =? 1 then [1] else []).
  { unfold unloaded_example, coll_of. cbn. unfold upd. destruct (p =? 1); reflexivity. }
  rewrite SBc in *. rewrite CO. destruct (c =? 1) eqn:C1; [congruence|]. apply N.eqb_neq in C1.
  destruct (p =? 1); cbn; split; try tauto.
  - intros [E|[]]. congruence.
  - intros [P H]. injection H as H. congruence.
  - intros [P H]. injection H as H. congruence.
Qed.

(* ---------- reload ---------- *)
Lemma rows_A_In : forall rows p c, In c (rows_of_side O2M SA rows p) <-> In (p, c) rows.
Proof.
  intros rows p c. unfold rows_of_side. rewrite in_map_iff. split.
  - intros [[x y] [E I]]. apply filter_In in I. destruct I as [I F]. cbn in *. apply N.eqb_eq in F. subst. exact I.
  - intros I. exists (p, c). split; [reflexivity|]. apply filter_In. split; [exact I|apply N.eqb_refl].
Qed.
Lemma rows_B_In : forall (rows : list (N * N)) (p c : N), In p (map fst (filter (fun q => N.eqb (snd q) c) rows)) <-> In (p, c) rows.
Proof.
  intros rows p c. rewrite in_map_iff. split.
  - intros [[x y] [E I]]. apply filter_In in I. destruct I as [I F]. cbn in *. apply N.eqb_eq in F. subst. exact I.
  - intros I. exists (p, c). split; [reflexivity|]. apply filter_In. split; [exact I|apply N.eqb_refl].
Qed.
Lemma rows_A_In' : forall r rows p c, In c (rows_of_side r SA rows p) <-> In (p, c) rows.
Proof. intros. apply rows_A_In. Qed.

Theorem reload_agree_o2m : forall rows, functional_rows rows -> nonzero_rows rows ->
  agree_o2m (reload O2M rows).
Proof.
  intros rows F NZ p c. unfold reload, coll_of. cbn [cells sa sb reload_cell kind_of].
  rewrite rows_A_In. unfold rows_of_side.
  destruct (map fst (filter (fun q => snd q =? c) rows)) as [|x t] eqn:E.
  - split; [intros I|intros [P H]].
    + apply rows_B_In in I. rewrite E in I. destruct I.
    + injection H as H. congruence.
  - assert (X : In (x, c) rows) by (apply rows_B_In; rewrite E; left; reflexivity). split.
    + intros I. split; [apply (NZ p c I)|]. f_equal. eapply F; eauto.
    + intros [_ H]. injection H as ->. exact X.
Qed.

Theorem reload_agree_m2m : forall rows, agree_m2m (reload M2M rows).
Proof.
  intros rows l r0. unfold reload, coll_of. cbn [cells sa sb reload_cell kind_of].
  rewrite rows_A_In'. unfold rows_of_side. rewrite rows_B_In. tauto.
Qed.

Theorem reload_agree_o2o : forall rows, functional_rows rows -> injective_rows rows -> nonzero_rows rows ->
  agree_o2o (reload O2O rows).
Proof.
  intros rows F J NZ p o P O. unfold reload. cbn [sa sb reload_cell kind_of]. unfold rows_of_side.
  destruct (map snd (filter (fun q => fst q =? p) rows)) as [|y t] eqn:EA;
  destruct (map fst (filter (fun q => snd q =? o) rows)) as [|x t'] eqn:EB.
  - split; intros H; injection H as H; congruence.
  - assert (X : In (x, o) rows) by (apply rows_B_In; rewrite EB; left; reflexivity).
    split; [intros H; injection H as H; congruence|intros H; injection H as ->].
    exfalso. assert (I : In o (rows_of_side O2O SA rows p)) by (apply rows_A_In'; exact X).
    unfold rows_of_side in I. rewrite EA in I. destruct I.
  - assert (Y : In (p, y) rows) by (apply (rows_A_In' O2O); unfold rows_of_side; rewrite EA; left; reflexivity).
    split; [intros H; injection H as ->|intros H; injection H as H; congruence].
    exfalso. assert (I : In p (map fst (filter (fun q => snd q =? o) rows))) by (apply rows_B_In; exact Y).
    rewrite EB in I. destruct I.
  - assert (X : In (x, o) rows) by (apply rows_B_In; rewrite EB; left; reflexivity).
    assert (Y : In (p, y) rows) by (apply (rows_A_In' O2O); unfold rows_of_side; rewrite EA; left; reflexivity).
    split; intros H; injection H as H; subst; f_equal.
    + eapply F; eauto.
    + eapply J; eauto.
Qed.

(* after the one-to-one defect both children carry the same foreign key: the reloaded sides disagree *)
Theorem reload_o2o_two_children_refuted :
  let s := reload O2O [(1, 1); (1, 2)] in sa s 1 = CVal 1 /\ sb s 2 = CVal 1 /\ ~ agree_o2o s.
Proof.
  cbn. repeat split. intros A. specialize (A 1 2). cbn in A.
  assert (H : CVal 1 = CVal 2) by (apply A; [discriminate|discriminate|reflexivity]). discriminate.
Qed.

(* ---------- commit: the whole invariant holds for the state loaded from the rows ---------- *)
Lemma NoDup_map_snd_filter : forall (rows : list (N * N)) p, NoDup rows ->
  NoDup (map snd (filter (fun q => N.eqb (fst q) p) rows)).
Proof.
  intros rows p ND. induction rows as [|[x y] t IH]; cbn; [constructor|].
  inversion ND as [|? ? NI ND']; subst. destruct (x =? p) eqn:E; cbn; [|apply IH; exact ND'].
  apply N.eqb_eq in E. subst. constructor; [|apply IH; exact ND'].
  intros H. apply in_map_iff in H. destruct H as [[a b] [Q H]]. apply filter_In in H. destruct H as [H F].
  cbn in *. apply N.eqb_eq in F. subst. contradiction.
Qed.
Lemma NoDup_map_fst_filter : forall (rows : list (N * N)) c, NoDup rows ->
  NoDup (map fst (filter (fun q => N.eqb (snd q) c) rows)).
Proof.
  intros rows c ND. induction rows as [|[x y] t IH]; cbn; [constructor|].
  inversion ND as [|? ? NI ND']; subst. destruct (y =? c) eqn:E; cbn; [|apply IH; exact ND'].
  apply N.eqb_eq in E. subst. constructor; [|apply IH; exact ND'].
  intros H. apply in_map_iff in H. destruct H as [[a b] [Q H]]. apply filter_In in H. destruct H as [H F].
  cbn in *. apply N.eqb_eq in F. subst. contradiction.
Qed.

Theorem reload_inv_o2m : forall rows, NoDup rows -> functional_rows rows -> nonzero_rows rows ->
  inv_o2m (reload O2M rows).
Proof.
  intros rows ND F NZ. constructor.
  - apply reload_agree_o2m; assumption.
  - intros p. unfold reload, coll_of. cbn. apply NoDup_map_snd_filter. exact ND.
  - intros p H. unfold reload, coll_of in H. cbn [cells sa reload_cell kind_of] in H.
    apply rows_A_In in H. destruct (NZ p 0 H) as [_ K]. congruence.
  - intros c. unfold reload. cbn [cells sb reload_cell kind_of].
    destruct (rows_of_side O2M SB rows c); discriminate.
Qed.

Theorem reload_inv_m2m : forall rows, NoDup rows -> nonzero_rows rows -> inv_m2m (reload M2M rows).
Proof.
  intros rows ND NZ. constructor.
  - apply reload_agree_m2m.
  - intros o. unfold reload, coll_of. cbn. apply NoDup_map_snd_filter. exact ND.
  - intros o. unfold reload, coll_of. cbn. apply NoDup_map_fst_filter. exact ND.
  - intros o H. unfold reload, coll_of in H. cbn [cells sa reload_cell kind_of] in H.
    apply rows_A_In' in H. destruct (NZ o 0 H) as [_ K]. congruence.
  - intros o H. unfold reload, coll_of in H. cbn [cells sb reload_cell kind_of] in H.
    unfold rows_of_side in H. apply rows_B_In in H. destruct (NZ 0 o H) as [K _]. congruence.
Qed.
