(* C50 - model of ext/orderinglist.py::OrderingList.

   State: the list contents (entity ids) and the `position` attribute of every entity
   (None = never set).  ordering_func = count_from_n: position = base + index.

   Two modes:
     attached = true   the list is the collection of a relationship: the class is instrumented by
                       orm/collections.py, so every call goes through the _list_decorators wrapper
                       first (slice assignment is decomposed by the WRAPPER into `del self[start]`,
                       `self.insert(..)` / `self.__setitem__(i, item)`; extend / += into
                       `self.append(..)`); sort / reverse / *= / clear reach the builtin list
     attached = false  the OrderingList methods as written (a list subclass used on its own, before
                       any mapping has instrumented the class): __setitem__ with a slice runs the
                       loop `for i in range(start, stop, step): self.__setitem__(i, entities[i])`
   Definitions only. *)
From Coq Require Import List ZArith Bool.
Import ListNotations.
From SAV.base Require Import PySlice.
From SAV.orm Require Import CollBase CollList.
Open Scope Z_scope.

Fixpoint zinsert (x : Z) (l : list Z) : list Z :=
  match l with [] => [x] | y :: r => if x <=? y then x :: l else y :: zinsert x r end.
Definition zsort (l : list Z) : list Z := fold_right zinsert [] l.

Record ol := mkOL { items : list Z; pos : Z -> option Z }.

Inductive oop :=
| OAppend (e : Z) | OInsert (i : Z) (e : Z) | ORemove (e : Z) | OPop (oi : option Z)
| OSetItem (i : Z) (e : Z) | OSetSlice (sl : pyslice) (v : list Z)
| ODelItem (i : Z) | ODelSlice (sl : pyslice)
| OExtend (v : list Z) | OIAdd (v : list Z)
| OClear | OSort | OReverse | OIMul (n : Z) | OReorder.

Section Params.
Variable base : Z.          (* count_from_n *)
Variable roa : bool.        (* reorder_on_append *)
Variable attached : bool.

Definition set_pos (p : Z -> option Z) (e : Z) (v : option Z) : Z -> option Z :=
  fun x => if x =? e then v else p x.

(* _order_entity(index, entity, reorder):
     have = getattr(entity, attr)
     if have is not None and not reorder: return
     should_be = ordering_func(index, self)
     if have != should_be: setattr(entity, attr, should_be) *)
Definition order_entity (i : Z) (e : Z) (reorder : bool) (p : Z -> option Z) : Z -> option Z :=
  match p e with
  | Some _ => if reorder then set_pos p e (Some (base + i)) else p
  | None => set_pos p e (Some (base + i))
  end.

(* reorder(): for index, entity in enumerate(self): self._order_entity(index, entity, True) *)
Fixpoint reorder_from (i : Z) (l : list Z) (p : Z -> option Z) : Z -> option Z :=
  match l with
  | [] => p
  | e :: r => reorder_from (i + 1) r (order_entity i e true p)
  end.
Definition reordered (l : list Z) (p : Z -> option Z) : ol := mkOL l (reorder_from 0 l p).

(* append: super().append(entity); self._order_entity(len(self) - 1, entity, self.reorder_on_append) *)
Definition ol_append (s : ol) (e : Z) : ol :=
  mkOL (items s ++ [e]) (order_entity (zlen (items s)) e roa (pos s)).

(* insert: super().insert(index, entity); self._reorder() *)
Definition ol_insert (s : ol) (i e : Z) : ol := reordered (py_insert (items s) i e) (pos s).

(* remove: super().remove(entity); if adapter and adapter._referenced_by_owner: self._reorder() *)
(* (attached collections only: on a bare instance collection_adapter(self) raises AttributeError,
   that case is outside the operation alphabet) *)
Definition ol_remove (s : ol) (e : Z) : res unit * ol :=
  match py_remove (items s) e with
  | Ok l' => (Ok tt, reordered l' (pos s))
  | Raise x => (Raise x, s)
  end.

(* pop: entity = super().pop(index); self._reorder() *)
Definition ol_pop (s : ol) (i : Z) : res unit * ol :=
  match py_pop (items s) i with
  | Ok (_, l') => (Ok tt, reordered l' (pos s))
  | Raise x => (Raise x, s)
  end.

(* __setitem__, int index (as repaired by 60dfe78):
     position = int(index)
     if position < 0: position += len(self)
     self._order_entity(position, entity, True)
     super().__setitem__(index, entity) *)
Definition ol_setitem (s : ol) (i e : Z) : res unit * ol :=
  let position := if i <? 0 then i + zlen (items s) else i in
  let p' := order_entity position e true (pos s) in
  match py_setitem (items s) i e with
  | Ok l' => (Ok tt, mkOL l' p')
  | Raise x => (Raise x, mkOL (items s) p')
  end.

(* __delitem__: super().__delitem__(index); self._reorder() *)
Definition ol_delitem (s : ol) (i : Z) : res unit * ol :=
  match py_delitem (items s) i with
  | Ok l' => (Ok tt, reordered l' (pos s))
  | Raise x => (Raise x, s)
  end.
Definition ol_delslice (s : ol) (sl : pyslice) : res unit * ol :=
  match py_delslice (items s) sl with
  | Ok l' => (Ok tt, reordered l' (pos s))
  | Raise x => (Raise x, s)
  end.

(* __setitem__, slice (the class's own code, reached only when the class is not instrumented):
     step = index.step or 1
     start = index.start or 0;  if start < 0: start += len(self)
     stop = index.stop or len(self);  if stop < 0: stop += len(self)
     entities = list(entity)
     for i in range(start, stop, step): self.__setitem__(i, entities[i]) *)
Definition or_default (o : option Z) (d : Z) : Z :=
  match o with None => d | Some v => if v =? 0 then d else v end.
Fixpoint raw_slice_loop (idx : list Z) (ents : list Z) (s : ol) : res unit * ol :=
  match idx with
  | [] => (Ok tt, s)
  | i :: r =>
      match py_getitem ents i with          (* entities[i]: the ABSOLUTE index *)
      | Raise x => (Raise x, s)
      | Ok e => match ol_setitem s i e with
                | (Ok _, s') => raw_slice_loop r ents s'
                | (Raise x, s') => (Raise x, s')
                end
      end
  end.
Definition ol_setslice_raw (s : ol) (sl : pyslice) (v : list Z) : res unit * ol :=
  let n := zlen (items s) in
  let step := or_default (sstep sl) 1 in
  let start := or_default (sstart sl) 0 in
  let start := if start <? 0 then start + n else start in
  let stop := or_default (sstop sl) n in
  let stop := if stop <? 0 then stop + n else stop in
  raw_slice_loop (range start stop step) v s.

(* ---- through the collections wrappers (attached) ---- *)
(* wrapper of __setitem__, int: existing = self[index] (IndexError before anything happens) *)
Definition at_setitem (s : ol) (i e : Z) : res unit * ol :=
  match py_getitem (items s) i with
  | Raise x => (Raise x, s)
  | Ok _ => ol_setitem s i e
  end.
(* wrapper of __delitem__, int: item = self[index] first *)
Definition at_delitem (s : ol) (i : Z) : res unit * ol :=
  match py_getitem (items s) i with
  | Raise x => (Raise x, s)
  | Ok _ => ol_delitem s i
  end.

(* wrapper of __setitem__, slice (orm/collections.py, as repaired by 1d9f897):
     start, stop, step = index.indices(len(self))
     if step == 1:
         for i in range(start, stop, step): if len(self) > start: del self[start]
         for i, item in enumerate(value): self.insert(i + start, item)
     else:
         rng = list(range(start, stop, step))
         if len(value) != len(rng): raise ValueError
         for i, item in zip(rng, value): self.__setitem__(i, item) *)
Fixpoint at_del_loop (n : nat) (start : Z) (s : ol) : res unit * ol :=
  match n with
  | O => (Ok tt, s)
  | S n' =>
      if start <? zlen (items s) then
        match at_delitem s start with
        | (Ok _, s') => at_del_loop n' start s'
        | (Raise x, s') => (Raise x, s')
        end
      else at_del_loop n' start s
  end.
Fixpoint at_ins_loop (p : Z) (v : list Z) (s : ol) : ol :=
  match v with
  | [] => s
  | x :: v' => at_ins_loop (p + 1) v' (ol_insert s p x)
  end.
Fixpoint at_set_loop (ivs : list (Z * Z)) (s : ol) : res unit * ol :=
  match ivs with
  | [] => (Ok tt, s)
  | (i, x) :: r => match at_setitem s i x with
                   | (Ok _, s') => at_set_loop r s'
                   | (Raise e, s') => (Raise e, s')
                   end
  end.
Definition at_setslice (s : ol) (sl : pyslice) (v : list Z) : res unit * ol :=
  match adjust sl (zlen (items s)) with
  | Raise x => (Raise x, s)
  | Ok (start, stop, step) =>
      if step =? 1 then
        match at_del_loop (length (range start stop step)) start s with
        | (Ok _, s') => (Ok tt, at_ins_loop start v s')
        | (Raise x, s') => (Raise x, s')
        end
      else
        let rng := range start stop step in
        if Nat.eqb (length v) (length rng) then at_set_loop (combine rng v) s
        else (Raise ValueError, s)
  end.

(* one operation *)
Definition ol_step (s : ol) (o : oop) : res unit * ol :=
  match o with
  | OAppend e => (Ok tt, ol_append s e)
  | OInsert i e => (Ok tt, ol_insert s i e)
  | ORemove e => ol_remove s e
  | OPop oi => ol_pop s (match oi with Some i => i | None => -1 end)
  | OSetItem i e => if attached then at_setitem s i e else ol_setitem s i e
  | OSetSlice sl v => if attached then at_setslice s sl v else ol_setslice_raw s sl v
  | ODelItem i => if attached then at_delitem s i else ol_delitem s i
  | ODelSlice sl => ol_delslice s sl
  | OExtend v | OIAdd v =>
      (* instrumented: for value in list(iterable): self.append(value); builtin otherwise *)
      (Ok tt, if attached then fold_left ol_append v s else mkOL (items s ++ v) (pos s))
  | OClear => (Ok tt, mkOL [] (pos s))                        (* inherited: builtin *)
  | OSort => (Ok tt, mkOL (zsort (items s)) (pos s))          (* inherited: builtin, by entity id *)
  | OReverse => (Ok tt, mkOL (rev (items s)) (pos s))         (* inherited: builtin *)
  | OIMul n => (Ok tt, mkOL (py_imul (items s) n) (pos s))    (* inherited: builtin *)
  | OReorder => (Ok tt, reordered (items s) (pos s))
  end.

Fixpoint ol_run (ops : list oop) (s : ol) : ol :=
  match ops with
  | [] => s
  | o :: r => ol_run r (snd (ol_step s o))
  end.

(* ---- the property ---- *)
Definition ordered (s : ol) : Prop :=
  forall i e, nth_error (items s) i = Some e -> pos s e = Some (base + Z.of_nat i).

(* what is read back after a flush: the members ordered by their position column *)
Fixpoint pinsert (p : Z -> option Z) (x : Z) (l : list Z) : list Z :=
  match l with
  | [] => [x]
  | y :: r =>
      match p x, p y with
      | Some a, Some b => if a <=? b then x :: l else y :: pinsert p x r
      | _, _ => x :: l
      end
  end.
Definition reload (s : ol) : list Z := fold_right (pinsert (pos s)) [] (items s).

(* ---- where the property is known to fail (each has a witness in OrderingListWitness.v) ---- *)
Definition memz (x : Z) (l : list Z) : bool := existsb (Z.eqb x) l.
Fixpoint nodupb (l : list Z) : bool :=
  match l with [] => true | x :: r => negb (memz x r) && nodupb r end.
Definition fresh_all (v l : list Z) : bool := forallb (fun x => negb (memz x l)) v && nodupb v.
Definition unpositioned (p : Z -> option Z) (e : Z) : bool :=
  match p e with None => true | Some _ => false end.

Definition ol_guard (s : ol) (o : oop) : bool :=
  match o with
  | OAppend e => negb (memz e (items s)) && (roa || unpositioned (pos s) e)
  | OExtend v | OIAdd v =>
      fresh_all v (items s) && (roa || forallb (unpositioned (pos s)) v)
  | OInsert _ e => negb (memz e (items s))
  | OSetItem _ e => negb (memz e (items s))
  | OSetSlice _ v => fresh_all v (items s)
  | OSort => Nat.leb (length (items s)) 1                       (* positions stay stale *)
  | OReverse => Nat.leb (length (items s)) 1
  | OIMul n => (n <=? 1) || Nat.eqb (length (items s)) 0
  | _ => true
  end.

Fixpoint ol_guarded (ops : list oop) (s : ol) : bool :=
  match ops with
  | [] => true
  | o :: r => ol_guard s o && ol_guarded r (snd (ol_step s o))
  end.
End Params.

Definition ol_empty : ol := mkOL [] (fun _ => None).

(* ---- T1: which in-place mutators of list the class overrides (regenerated table) ---- *)
Inductive lmeth :=
| LM_setitem | LM_delitem | LM_append | LM_extend | LM_insert | LM_pop | LM_remove | LM_clear
| LM_sort | LM_reverse | LM_iadd | LM_imul.
Definition all_lmeth : list lmeth :=
  [LM_setitem; LM_delitem; LM_append; LM_extend; LM_insert; LM_pop; LM_remove; LM_clear; LM_sort;
   LM_reverse; LM_iadd; LM_imul].
Definition lmeth_code (m : lmeth) : nat :=
  match m with
  | LM_setitem => 0 | LM_delitem => 1 | LM_append => 2 | LM_extend => 3 | LM_insert => 4 | LM_pop => 5
  | LM_remove => 6 | LM_clear => 7 | LM_sort => 8 | LM_reverse => 9 | LM_iadd => 10 | LM_imul => 11
  end%nat.
Definition lmeth_mem (m : lmeth) (l : list lmeth) : bool :=
  existsb (fun x => Nat.eqb (lmeth_code x) (lmeth_code m)) l.
(* what the model assumes: these six run the class's own code, the other six the inherited builtin
   (or, when attached, the collections wrapper around the builtin) *)
Definition ol_overridden (m : lmeth) : bool :=
  match m with
  | LM_setitem | LM_delitem | LM_append | LM_insert | LM_pop | LM_remove => true
  | _ => false
  end.
Definition overrides_ok (gen : list lmeth) : bool :=
  forallb (fun m => Bool.eqb (lmeth_mem m gen) (ol_overridden m)) all_lmeth.
