(* C35 - the invariant is preserved and the log stays well formed: simple operations *)
From Coq Require Import List ZArith Bool Arith Lia.
Import ListNotations.
From SAV.orm Require Import Lifecycle LifecycleSpec LifecycleLemmas.
Open Scope Z_scope.

Ltac obj_cases :=
  intros;
  repeat match goal with o : obj |- _ => destruct o as [? [] [] [] [] [] [] [] []] end;
  simpl in *; try discriminate; try (split; reflexivity); try reflexivity; auto.

Lemma objinv_begin : forall o, objinvb None o = true -> objinvb (Some false) o = true.
Proof. obj_cases. Qed.

Lemma autobegin_tx : forall st, tx (autobegin st) = match tx st with None => Some false | t => t end.
Proof. intros. unfold autobegin. destruct (tx st) eqn:E; simpl; auto. Qed.
Lemma autobegin_objs : forall st, objs (autobegin st) = objs st.
Proof. intros. unfold autobegin. destruct (tx st); reflexivity. Qed.
Lemma autobegin_slog : forall st, slog (autobegin st) = slog st.
Proof. intros. unfold autobegin. destruct (tx st); reflexivity. Qed.
Lemma autobegin_get : forall st i, get (autobegin st) i = get st i.
Proof. intros. unfold get. rewrite autobegin_objs. reflexivity. Qed.
Lemma autobegin_has_tx : forall st, has_tx (autobegin st) = true.
Proof. intros. unfold has_tx. rewrite autobegin_tx. destruct (tx st); reflexivity. Qed.
Lemma autobegin_deact : forall st, is_deact (autobegin st) = is_deact st.
Proof. intros. unfold is_deact. rewrite autobegin_tx. destruct (tx st); reflexivity. Qed.

Lemma autobegin_inv : forall st, Inv st -> Inv (autobegin st).
Proof.
  intros st [H1 H2]. split; [|rewrite autobegin_slog; auto].
  intros k o Hk. rewrite autobegin_objs in Hk. specialize (H1 k o Hk). simpl in H1.
  rewrite autobegin_tx. destruct (tx st); auto. apply objinv_begin; auto.
Qed.

(* one pass that keeps the transaction status *)
Lemma pass_inv : forall (p : nat -> obj -> bool) f st,
  SP p st -> wf (slog st) ->
  (forall k o, p k o = true -> objinvb (tx st) (fst (f k o)) = true /\ wfob (snd (f k o)) = true) ->
  Inv (app_all f st).
Proof.
  intros p f st HP Hw Hf.
  destruct (pass_spec p (fun _ => objinvb (tx st)) f st HP Hf) as [A B].
  split; [rewrite app_all_tx; exact A|auto].
Qed.

(* ---- add ------------------------------------------------------------------------------------------ *)
Lemma save_obj_ok : forall t i k o,
  objinvb t o && (if Nat.eqb k i then negb (okey o) else true) = true ->
  objinvb t (fst (only i save_obj k o)) = true /\
  wfob (snd (only i save_obj k o)) = true.
Proof. intros t i k o. unfold only. destruct (Nat.eqb k i); destruct t as [[]|]; obj_cases. Qed.

Lemma save_impl_inv : forall i st, Inv st -> Inv (fst (save_impl i st)).
Proof.
  intros i st HI. unfold save_impl. destruct (okey (get st i)) eqn:E; simpl; auto.
  apply autobegin_inv in HI. destruct HI as [H1 H2].
  eapply pass_inv; [|exact H2|apply save_obj_ok].
  apply (SP_get _ (fun o => negb (okey o))); auto. rewrite autobegin_get, E. reflexivity.
Qed.

Lemma update_obj_ok : forall t i k o,
  objinvb t o && (if Nat.eqb k i then okey o && negb (odel o) else true) = true ->
  objinvb t (fst (only i update_obj k o)) = true /\
  wfob (snd (only i update_obj k o)) = true.
Proof. intros t i k o. unfold only. destruct (Nat.eqb k i); destruct t as [[]|]; obj_cases. Qed.

Lemma update_impl_inv : forall i st, Inv st -> Inv (fst (update_impl i st)).
Proof.
  intros i st HI. unfold update_impl.
  destruct (okey (get st i)) eqn:E1; simpl; auto.
  destruct (odel (get st i)) eqn:E2; simpl; auto.
  destruct (conflict i (autobegin st)); simpl; [apply autobegin_inv; auto|].
  apply autobegin_inv in HI. destruct HI as [H1 H2].
  eapply pass_inv; [|exact H2|apply update_obj_ok].
  apply (SP_get _ (fun o => okey o && negb (odel o))); auto. rewrite autobegin_get, E1, E2. reflexivity.
Qed.

Lemma do_add_inv : forall i st, Inv st -> Inv (fst (do_add i st)).
Proof. intros. unfold do_add. destruct (okey (get st i)); [apply update_impl_inv|apply save_impl_inv]; auto. Qed.

(* ---- delete (guard: the object does not carry the _deleted flag) -------------------------------------- *)
Lemma delete_obj_ok : forall t i k o,
  objinvb t o && (if Nat.eqb k i then okey o && negb (odel o) else true) = true ->
  objinvb t (fst (only i delete_obj k o)) = true /\
  wfob (snd (only i delete_obj k o)) = true.
Proof. intros t i k o. unfold only. destruct (Nat.eqb k i); destruct t as [[]|]; obj_cases. Qed.

Lemma delete_impl_inv : forall i st, Inv st -> negb (okey (get st i) && odel (get st i)) = true ->
  Inv (fst (delete_impl i st)).
Proof.
  intros i st HI G. unfold delete_impl.
  destruct (okey (get st i)) eqn:E1; simpl; auto.
  destruct (isdel (get st i)); simpl; [apply autobegin_inv; auto|].
  destruct (conflict i (autobegin st)); simpl; [apply autobegin_inv; auto|].
  apply autobegin_inv in HI. destruct HI as [H1 H2].
  eapply pass_inv; [|exact H2|apply delete_obj_ok].
  apply (SP_get _ (fun o => okey o && negb (odel o))); auto. rewrite autobegin_get, E1.
  simpl in G. rewrite G. reflexivity.
Qed.

(* ---- expunge, make_transient, make_transient_to_detached ----------------------------------------------- *)
Lemma expunge_obj_ok : forall t i k o,
  objinvb t o && (if Nat.eqb k i then osess o else true) = true ->
  objinvb t (fst (only i (expunge_obj (match t with None => false | _ => true end) false) k o)) = true /\
  wfob (snd (only i (expunge_obj (match t with None => false | _ => true end) false) k o)) = true.
Proof. intros t i k o. unfold only. destruct (Nat.eqb k i); destruct t as [[]|]; obj_cases. Qed.

Lemma has_tx_match : forall st, has_tx st = match tx st with None => false | _ => true end.
Proof. intros. unfold has_tx. destruct (tx st); reflexivity. Qed.

Lemma do_expunge_inv : forall i st, Inv st -> Inv (fst (do_expunge i st)).
Proof.
  intros i st [H1 H2]. unfold do_expunge. destruct (osess (get st i)) eqn:E; simpl; [|split; auto].
  eapply pass_inv; [|exact H2|rewrite has_tx_match; apply expunge_obj_ok].
  apply (SP_get _ osess); auto.
Qed.

Lemma make_transient_obj_ok : forall t i k o,
  objinvb t o = true ->
  let g := only i (make_transient_obj (match t with None => false | _ => true end)) in
  objinvb t (fst (g k o)) = true /\ wfob (snd (g k o)) = true.
Proof. intros t i k o. unfold only. destruct (Nat.eqb k i); destruct t as [[]|]; obj_cases. Qed.

Lemma do_make_transient_inv : forall i st, Inv st -> Inv (fst (do_make_transient i st)).
Proof.
  intros i st [H1 H2]. unfold do_make_transient. simpl.
  eapply pass_inv; [exact H1|exact H2|]. intros k o Hp. rewrite has_tx_match. apply make_transient_obj_ok; auto.
Qed.

Lemma mttd_obj_ok : forall t i k o,
  objinvb t o && (if Nat.eqb k i then negb (osess o || okey o) else true) = true ->
  let g := only i mttd_obj in
  objinvb t (fst (g k o)) = true /\ wfob (snd (g k o)) = true.
Proof. intros t i k o. unfold only. destruct (Nat.eqb k i); destruct t as [[]|]; obj_cases. Qed.

Lemma do_mttd_inv : forall i st, Inv st -> Inv (fst (do_mttd i st)).
Proof.
  intros i st [H1 H2]. unfold do_mttd. destruct (osess (get st i) || okey (get st i)) eqn:E; simpl; [split; auto|].
  eapply pass_inv; [|exact H2|apply mttd_obj_ok].
  apply (SP_get _ (fun o => negb (osess o || okey o))); auto. rewrite E. reflexivity.
Qed.

(* ---- the end of a transaction object; close ------------------------------------------------------------------ *)
Lemma end_tx_obj_ok : forall t o, objinvb t o = true -> objinvb None (fst (end_tx_obj o)) = true.
Proof. intros t o. destruct t as [[]|]; obj_cases. Qed.

Lemma end_tx_inv : forall st, SP (fun _ => objinvb (tx st)) st -> wf (slog st) -> Inv (end_tx st).
Proof.
  intros st H1 H2. unfold end_tx.
  destruct (pass_spec (fun _ => objinvb (tx st)) (fun _ => objinvb None) (fun _ => end_tx_obj) st H1) as [A B].
  { intros k o Hp. split; [|reflexivity]. simpl. eapply end_tx_obj_ok; eauto. }
  split; simpl; [apply SP_set_tx; exact A|auto].
Qed.

Lemma end_tx_inv_t : forall t st, SP (fun _ => objinvb t) st -> wf (slog st) -> Inv (end_tx st).
Proof.
  intros t st H1 H2. unfold end_tx.
  destruct (pass_spec (fun _ => objinvb t) (fun _ => objinvb None) (fun _ => end_tx_obj) st H1) as [A B].
  { intros k o Hp. split; [|reflexivity]. eapply end_tx_obj_ok; eauto. }
  split; simpl; [apply SP_set_tx; exact A|auto].
Qed.

(* expunge_all detaches what is in the identity map, what is pending and the deleted-state members of the
   transaction; the latter keep their transaction._deleted entry until the transaction object goes (end_tx) *)
Lemma close_obj_ok : forall t o, objinvb t o = true ->
  objinvb (Some true) (fst (close_obj (match t with None => false | _ => true end) o)) = true /\
  wfob (snd (close_obj (match t with None => false | _ => true end) o)) = true.
Proof. intros t o. destruct t as [[]|]; obj_cases. Qed.

Lemma do_close_inv : forall st, Inv st -> Inv (fst (do_close st)).
Proof.
  intros st [H1 H2]. unfold do_close. simpl. rewrite has_tx_match.
  apply (end_tx_inv_t (Some true)).
  - apply (pass_spec (fun _ => objinvb (tx st)) (fun _ => objinvb (Some true))); [exact H1|].
    intros k o Hp. apply close_obj_ok; auto.
  - apply (pass_spec (fun _ => objinvb (tx st)) (fun _ => objinvb (Some true))); [exact H1| |exact H2].
    intros k o Hp. apply close_obj_ok; auto.
Qed.
