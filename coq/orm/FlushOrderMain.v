(* C31 - main theorem: A (layers respect paths) + B (needs are covered by paths) + C (sequences meeting
   the needs execute) *)
From Coq Require Import List NArith Bool Lia Permutation Arith Sorted.
Import ListNotations.
From SAV.util Require Import Topo Cycles TopoRun TopoProofs TopoCycle TopoExtra CyclesSound CyclesComplete CyclesExact.
From SAV.orm Require Import FlushOrder FlushOrderSpec FlushOrderBase FlushOrderSort FlushOrderCover FlushOrderNeeds FlushOrderCovered FlushOrderExec.
Local Open Scope N_scope.

(* the statements of a flush, layer by layer: every order inside a layer, every attribution of a
   secondary-row statement to one of the processors that may emit it *)
Definition linearizes (layers : list (list N)) (g : graph) (cy : list N) (tr : list ev) : Prop :=
  Permutation tr (events g) /\
  exists rank : ev -> nat,
    (forall e, In e tr -> exists h, In h (homes g cy e) /\ lidx layers (code h) = Some (rank e)) /\
    StronglySorted (fun a b => (rank a <= rank b)%nat) tr.

(* ---------------------------------------------------------------- events *)
Lemma NoDup_app_intro {A} (l1 l2 : list A) : NoDup l1 -> NoDup l2 -> (forall x, In x l1 -> In x l2 -> False) -> NoDup (l1 ++ l2).
Proof. induction l1 as [|a l1 IH]; simpl; intros H1 H2 Hd; [exact H2|]. inversion H1; subst. constructor.
  - intros X. apply in_app_or in X. destruct X as [X|X]; [contradiction|]. apply (Hd a); [left; reflexivity|exact X].
  - apply IH; [assumption|assumption|]. intros x X1 X2. apply (Hd x); [right; exact X1|exact X2]. Qed.

Lemma NoDup_map_inj {A B} (f : A -> B) l : (forall x y, f x = f y -> x = y) -> NoDup l -> NoDup (map f l).
Proof. intros Hf. induction 1 as [|a l Hn _ IH]; simpl; constructor; [|exact IH].
  intros X. apply in_map_iff in X. destruct X as [y [E Hy]]. apply Hf in E. subst. contradiction. Qed.

Lemma NoDup_filter {A} (f : A -> bool) l : NoDup l -> NoDup (filter f l).
Proof. induction 1 as [|a l Hn _ IH]; simpl; [constructor|]. destruct (f a); [|exact IH]. constructor; [|exact IH].
  intros X. apply filter_In in X. tauto. Qed.

Lemma NoDup_ids_with g f : NoDup (map s_id (g_sts g)) -> NoDup (ids_with g f).
Proof. unfold ids_with. induction (g_sts g) as [|a l IH]; simpl; intros H; [constructor|]. inversion H; subst.
  destruct (f a); simpl; [constructor|]; try (apply IH; assumption).
  intros X. apply in_map_iff in X. destruct X as [y [E Hy]]. apply filter_In in Hy. apply H2. rewrite <- E. apply in_map. tauto. Qed.

Lemma events_nodup g : wf g = true -> NoDup (events g).
Proof. intros Hwf. destruct (wf_parts g Hwf) as [W1 [_ [_ [_ [W5 [W6 _]]]]]]. unfold events.
  repeat (apply NoDup_app_intro);
  try (apply NoDup_map_inj; [intros x y E; inversion E; reflexivity|]);
  try (apply NoDup_ids_with; exact W1); try (apply NoDup_filter; assumption);
  intros x X1 X2; repeat (apply in_app_or in X2; destruct X2 as [X2|X2]);
  apply in_map_iff in X1; destruct X1 as [a [E1 _]]; apply in_map_iff in X2; destruct X2 as [b [E2 _]]; congruence. Qed.

(* the first statement of every need is a statement of the flush *)
Lemma needs_first_event g cy : wf g = true -> consistent g = true -> managed g cy = true ->
  forall e1 e2, In (e1, e2) (needs g) -> In e1 (events g).
Proof.
  intros Hwf Hcons Hm e1 e2 Hn.
  assert (SV : forall s, role_of g s = 1 -> In (ESave s) (events g)).
  { intros s R. unfold events. apply in_or_app. left. apply in_map. apply (ids_with_spec g Hwf).
    destruct (role_nonzero g s) as [x [X0 [_ [_ [X3 _]]]]]; [rewrite R; discriminate|]. exists x. split; [exact X0|]. rewrite X3, R. reflexivity. }
  assert (DL : forall s, role_of g s = 2 -> In (EDel s) (events g)).
  { intros s R. unfold events. do 2 (apply in_or_app; right). apply in_or_app. left. apply in_map. apply (ids_with_spec g Hwf).
    destruct (role_nonzero g s) as [x [X0 [_ [_ [X3 _]]]]]; [rewrite R; discriminate|]. exists x. split; [exact X0|]. rewrite X3, R. reflexivity. }
  assert (PS : forall s, role_of g s <> 0 -> has_post g s = true -> In (EPost s) (events g)).
  { intros s R H. unfold events. apply in_or_app. right. apply in_or_app. left. apply in_map. apply (ids_with_spec g Hwf).
    destruct (role_nonzero g s R) as [x [X0 [_ [X2 [X3 _]]]]]. exists x. split; [exact X0|]. rewrite X2, H. unfold in_uow. rewrite X3.
    rewrite andb_true_r. apply negb_true_iff, N.eqb_neq, R. }
  pose proof Hm as Hm'. unfold managed in Hm'. apply andb_true_iff in Hm'. destruct Hm' as [Hm12 Hm3].
  apply andb_true_iff in Hm12. destruct Hm12 as [Hm1 Hm2]. rewrite forallb_forall in Hm1, Hm2, Hm3.
  unfold needs in Hn. repeat (apply in_app_or in Hn; destruct Hn as [Hn|Hn]).
  - apply in_flat_map in Hn. destruct Hn as [[[s c] t] [Hx Hn]]. unfold needs_ref1 in Hn. simpl in Hn.
    destruct (N.eqb (role_of g s) 1) eqn:Rs; [|contradiction]. apply N.eqb_eq in Rs.
    destruct (postcol g c).
    + apply in_app_or in Hn. destruct Hn as [Hn|Hn].
      * destruct (pending g s); [|contradiction]. destruct Hn as [Hn|[]]. inversion Hn; subst. apply SV, Rs.
      * destruct (pending g t) eqn:P; [|contradiction]. destruct Hn as [Hn|[]]. inversion Hn; subst. apply SV, pending_role, P.
    + destruct (pending g t && negb (N.eqb s t)) eqn:P; [|contradiction]. destruct Hn as [Hn|[]]. inversion Hn; subst.
      apply andb_true_iff in P. destruct P as [P _]. apply SV, pending_role, P.
  - apply in_flat_map in Hn. destruct Hn as [[[s c] t] [Hx Hn]]. specialize (Hm2 _ Hx). unfold needs_ref0 in Hn. unfold mg_ref0 in Hm2.
    simpl in Hn, Hm2. destruct (N.eqb (role_of g t) 2 && negb (N.eqb s t)) eqn:Rt; [|contradiction].
    apply andb_true_iff in Rt. destruct Rt as [Rt _].
    destruct (postcol g c) eqn:Pc.
    + destruct Hn as [Hn|[]]. inversion Hn; subst. apply andb_true_iff in Hm2. destruct Hm2 as [Rs _]. apply N.eqb_eq in Rs.
      apply PS; [rewrite Rs; discriminate|]. unfold has_post, post_sets.
      assert (Hc : In c (filter (fun c0 => postcol g c0 && negb (opt_eqb (ref_get (g_ref0 g) s c0) (fin g s c0))) (cols_of g s))).
      { apply filter_In. split; [apply (cols_of_spec g); exists t; apply in_or_app; left; exact Hx|]. rewrite Pc. simpl.
        destruct (wf_parts g Hwf) as [_ [_ [W3 _]]]. rewrite (functional_get _ _ _ _ W3 Hx). unfold fin. rewrite Rs. simpl.
        rewrite (functional_get _ _ _ _ W3 Hx). rewrite Rt, orb_true_r. reflexivity. }
      destruct (filter _ (cols_of g s)); [contradiction|reflexivity].
    + destruct (N.eqb (role_of g s) 2) eqn:Rs; destruct Hn as [Hn|[]]; inversion Hn; subst.
      * apply DL, N.eqb_eq, Rs.
      * apply andb_true_iff in Hm2. destruct Hm2 as [R1 _]. apply SV, N.eqb_eq, R1.
  - apply in_flat_map in Hn. destruct Hn as [s [Hx Hn]]. unfold needs_postdel in Hn.
    destruct (N.eqb (role_of g s) 2 && has_post g s) eqn:R; [|contradiction]. destruct Hn as [Hn|[]]. inversion Hn; subst.
    apply andb_true_iff in R. destruct R as [R H]. apply N.eqb_eq in R. apply PS; [rewrite R; discriminate|exact H].
  - apply in_flat_map in Hn. destruct Hn as [x [Hx Hn]]. unfold needs_secins in Hn. apply in_app_or in Hn. destruct Hn as [Hn|Hn].
    + destruct (pending g (snd (fst x))) eqn:P; [|contradiction]. destruct Hn as [Hn|[]]. inversion Hn; subst. apply SV, pending_role, P.
    + destruct (pending g (snd x)) eqn:P; [|contradiction]. destruct Hn as [Hn|[]]. inversion Hn; subst. apply SV, pending_role, P.
  - apply in_flat_map in Hn. destruct Hn as [x [Hx Hn]].
    assert (E : e1 = ESecDel x).
    { unfold needs_secdel in Hn. apply in_app_or in Hn. destruct Hn as [Hn|Hn];
      [destruct (N.eqb (role_of g (snd (fst x))) 2)|destruct (N.eqb (role_of g (snd x)) 2)]; try contradiction;
      destruct Hn as [Hn|[]]; inversion Hn; reflexivity. }
    subst e1. unfold events. do 4 (apply in_or_app; right). apply in_map. exact Hx.
Qed.

(* ---------------------------------------------------------------- sorted by layer => ordered *)
Lemma sorted_before (rank : ev -> nat) tr e1 e2 : StronglySorted (fun a b => (rank a <= rank b)%nat) tr ->
  In e1 tr -> In e2 tr -> (rank e1 < rank e2)%nat -> before tr e1 e2.
Proof. induction 1 as [|a l Hs IH Hf]; intros H1 H2 Hlt; [contradiction|]. rewrite Forall_forall in Hf.
  destruct H2 as [->|H2].
  - exfalso. destruct H1 as [->|H1]; [lia|]. specialize (Hf _ H1). lia.
  - destruct H1 as [->|H1].
    + apply in_split in H2. destruct H2 as [l1 [l2 ->]]. exists (e1 :: l1), l2. split; [reflexivity|left; reflexivity].
    + destruct (IH H1 H2 Hlt) as [l1 [l2 [-> Hi]]]. exists (a :: l1), l2. split; [reflexivity|right; exact Hi]. Qed.

(* ---------------------------------------------------------------- the main theorem *)
Theorem plan_respects_fk_guarded_main : forall g cy layers tr,
  wf g = true -> consistent g = true ->
  cycles std_tables g = Some cy -> cyc_ok g cy = true -> managed g cy = true ->
  plan std_tables g = Layers layers -> linearizes layers g cy tr ->
  exists d', exec (g_notnull g) (db0 g) (map (stmt_of g) tr) = Some d'.
Proof.
  intros g cy layers tr Hwf Hcons Hcy Hok Hm Hplan [Hperm [rank [Hrank Hsort]]].
  destruct (plan_inv _ _ _ Hplan) as [cy' [Hcy' [_ Hs]]]. rewrite Hcy in Hcy'. inversion Hcy'; subst cy'.
  assert (Hnd : NoDup tr) by (eapply Permutation_NoDup; [apply Permutation_sym, Hperm|apply events_nodup, Hwf]).
  assert (Hev : incl tr (events g)) by (intros x Hx; eapply Permutation_in; eassumption).
  destruct (exec_ok g Hwf Hcons tr Hnd Hev) as [d' [E _]]; [|exists d'; exact E].
  intros e1 e2 Hn H2.
  assert (H1 : In e1 tr).
  { eapply Permutation_in; [apply Permutation_sym, Hperm|]. eapply needs_first_event; eassumption. }
  apply (sorted_before rank); try assumption.
  destruct (Hrank _ H1) as [h1 [Hh1 L1]]. destruct (Hrank _ H2) as [h2 [Hh2 L2]].
  pose proof (needs_covered g cy Hwf Hok Hm Hcons e1 e2 Hn h1 h2 Hh1 Hh2) as Hp.
  destruct (fpath_rank std_tables g cy layers Hs h1 h2 Hp) as [i [j [A [B C]]]].
  rewrite L1 in A. rewrite L2 in B. inversion A; inversion B; subst. exact C.
Qed.
