(* C41: the Core query compiled for each ORM query shape computes the relational meaning of the query *)
From Coq Require Import List ZArith Bool Arith Lia.
Import ListNotations.
From SAV.sql Require Import Val3.
From SAV.orm Require Import Query QueryCrit.

Lemma flat_map_map : forall (A B C : Type) (f : A -> B) (g : B -> list C) (l : list A),
  flat_map g (map f l) = flat_map (fun x => g (f x)) l.
Proof. intros. induction l as [|x l IH]; [reflexivity|]. cbn [map flat_map]. rewrite IH. reflexivity. Qed.

Lemma map_flat_map : forall (A B C : Type) (f : B -> C) (g : A -> list B) (l : list A),
  map f (flat_map g l) = flat_map (fun x => map f (g x)) l.
Proof. intros. induction l as [|x l IH]; [reflexivity|]. cbn [flat_map]. rewrite map_app, IH. reflexivity. Qed.

Lemma flat_map_ext' : forall (A B : Type) (f g : A -> list B) (l : list A),
  (forall x, f x = g x) -> flat_map f l = flat_map g l.
Proof. intros A B f g l H. induction l as [|x l IH]; [reflexivity|]. cbn [flat_map]. rewrite H, IH. reflexivity. Qed.

Lemma map_ext' : forall (A B : Type) (f g : A -> B) (l : list A),
  (forall x, f x = g x) -> map f l = map g l.
Proof. intros A B f g l H. induction l as [|x l IH]; [reflexivity|]. cbn [map]. rewrite H, IH. reflexivity. Qed.

Section Shapes.
Variable d : db.

(* ---------- SELECT .. FROM p WHERE w ---------- *)
Definition env_p (p : prow) : env := [(0, grow_p p)].
Definition env_c (c : crow) : env := [(0, grow_c c)].

Lemma sel_envs_p : forall w cols,
  sel_envs d (sel_p w cols) = map env_p (filter (fun p => is_true (beval d (env_p p) w)) (ps d)).
Proof.
  intros w cols. unfold sel_envs, sel_p. cbn [s_joins s_tab s_alias s_where fold_left rows_of].
  rewrite map_map. rewrite filter_map_swap. reflexivity.
Qed.

Lemma sel_envs_c : forall w cols ord,
  sel_envs d {| s_tab := TabC; s_alias := 0; s_joins := []; s_where := w; s_cols := cols; s_order := ord |} =
  map env_c (filter (fun c => is_true (beval d (env_c c) w)) (cs d)).
Proof.
  intros w cols ord. unfold sel_envs. cbn [s_joins s_tab s_alias s_where fold_left rows_of].
  rewrite map_map. rewrite filter_map_swap. reflexivity.
Qed.

(* ---------- SELECT .. FROM p [LEFT OUTER] JOIN c ON <primaryjoin [AND single-table criterion]> WHERE w ---------- *)
Definition orow (c : option crow) : grow := match c with Some c => grow_c c | None => null_row end.
Definition env_pc (pc : prow * option crow) : env := [(1, orow (snd pc)); (0, grow_p (fst pc))].

Lemma on_pc_meaning : forall t p c,
  is_true (beval d ((1, grow_c c) :: env_p p) (on_pc t)) = child_of c p && tgt_ok t c.
Proof.
  intros t p c. destruct t; unfold on_pc, pj, sub_crit, env_p; cbn [beval eeval lookup Nat.eqb gcol grow_p grow_c g_id g_pid g_kind map tgt_ok].
  - rewrite pj_child, andb_true_r. reflexivity.
  - rewrite pj_child, andb_true_r. reflexivity.
  - rewrite is_true_and3, pj_child, sub_crit_is_sub. reflexivity.
  - rewrite is_true_and3, pj_child, sub_crit_is_sub. reflexivity.
Qed.

Lemma is_nilg_map : forall l, is_nilg (map grow_c l) = is_nilc l.
Proof. intros [|x l]; reflexivity. Qed.

Lemma sel_envs_pc : forall outer t w cols,
  sel_envs d (sel_pc outer (on_pc t) w cols) =
  map env_pc (filter (fun pc => is_true (beval d (env_pc pc) w)) (pairs_pc d outer t)).
Proof.
  intros outer t w cols. unfold sel_envs, sel_pc.
  cbn [s_joins s_tab s_alias s_where fold_left rows_of]. unfold join_step.
  cbn [f_alias f_on f_tab f_outer rows_of].
  rewrite map_map, flat_map_map.
  rewrite <- (filter_map_swap _ _ env_pc (fun e => is_true (beval d e w))). f_equal.
  unfold pairs_pc. rewrite map_flat_map. apply flat_map_ext'. intros p.
  rewrite filter_map_swap.
  rewrite (filter_ext' _ (fun x => is_true (beval d [(1, grow_c x); (0, grow_p p)] (on_pc t)))
                         (fun c => child_of c p && tgt_ok t c)).
  2:{ intros c. apply on_pc_meaning. }
  rewrite is_nilg_map.
  destruct (outer && is_nilc (filter (fun c => child_of c p && tgt_ok t c) (cs d))).
  - reflexivity.
  - rewrite !map_map. reflexivity.
Qed.

(* the plain primaryjoin is on_pc TgC *)
Lemma sel_envs_pc_plain : forall outer w cols,
  sel_envs d (sel_pc outer (pj 0 1) w cols) =
  map env_pc (filter (fun pc => is_true (beval d (env_pc pc) w)) (pairs_pc d outer TgC)).
Proof. intros. exact (sel_envs_pc outer TgC w cols). Qed.

(* ---------- SELECT .. FROM c [LEFT OUTER] JOIN p ON p.id = c.pid WHERE w ---------- *)
Definition oprow (p : option prow) : grow := match p with Some p => grow_p p | None => null_row end.
Definition env_cp (cp : crow * option prow) : env := [(1, oprow (snd cp)); (0, grow_c (fst cp))].
Definition sel_cp (outer : bool) (w : bx) : sel :=
  {| s_tab := TabC; s_alias := 0;
     s_joins := [ {| f_outer := outer; f_tab := TabP; f_alias := 1;
                     f_on := BCmp OEq (ECol 1 ColId) (ECol 0 ColPid) |} ];
     s_where := w; s_cols := [ECol 0 ColId; ECol 1 ColId]; s_order := [ECol 0 ColId] |}.

Lemma is_nilg_map_p : forall l, is_nilg (map grow_p l) = is_nilp l.
Proof. intros [|x l]; reflexivity. Qed.

Lemma sel_envs_cp : forall outer w,
  sel_envs d (sel_cp outer w) =
  map env_cp (filter (fun cp => is_true (beval d (env_cp cp) w)) (pairs_cp d outer)).
Proof.
  intros outer w. unfold sel_envs, sel_cp.
  cbn [s_joins s_tab s_alias s_where fold_left rows_of]. unfold join_step.
  cbn [f_alias f_on f_tab f_outer rows_of].
  rewrite map_map, flat_map_map.
  rewrite <- (filter_map_swap _ _ env_cp (fun e => is_true (beval d e w))). f_equal.
  unfold pairs_cp. rewrite map_flat_map. apply flat_map_ext'. intros c.
  rewrite filter_map_swap.
  rewrite (filter_ext' _ (fun x => is_true (beval d [(1, grow_p x); (0, grow_c c)] (BCmp OEq (ECol 1 ColId) (ECol 0 ColPid))))
                         (fun p => child_of c p)).
  2:{ intros p. cbn [beval eeval lookup Nat.eqb gcol grow_p grow_c g_id g_pid]. apply pj_child. }
  rewrite is_nilg_map_p.
  destruct (outer && is_nilp (filter (fun p => child_of c p) (ps d))).
  - reflexivity.
  - rewrite !map_map. reflexivity.
Qed.

(* ---------- SELECT .. FROM node WHERE w ---------- *)
Definition sel_n (w : bx) : sel :=
  {| s_tab := TabN; s_alias := 0; s_joins := []; s_where := w; s_cols := [ECol 0 ColId]; s_order := [ECol 0 ColId] |}.
Lemma sel_envs_n : forall w,
  sel_envs d (sel_n w) = map env_c (filter (fun n => is_true (beval d (env_c n) w)) (ns d)).
Proof.
  intros w. unfold sel_envs, sel_n. cbn [s_joins s_tab s_alias s_where fold_left rows_of].
  rewrite map_map. rewrite filter_map_swap. reflexivity.
Qed.

(* ---------- SELECT .. FROM c, c AS c_1 WHERE w ---------- *)
Definition env_cc (ab : crow * crow) : env := [(1, grow_c (snd ab)); (0, grow_c (fst ab))].
Lemma sel_envs_sibs : forall sc,
  sel_envs d (sel_sibs sc) =
  map env_cc (filter (fun ab => is_true (beval d (env_cc ab) (s_where (sel_sibs sc)))) (pairs_cc d)).
Proof.
  intros sc. unfold sel_envs. cbn [sel_sibs s_joins s_tab s_alias fold_left rows_of]. unfold join_step.
  cbn [f_alias f_on f_tab f_outer rows_of andb beval is_true].
  rewrite map_map, flat_map_map.
  rewrite <- (filter_map_swap _ _ env_cc (fun e => is_true (beval d e (s_where (sel_sibs sc))))). f_equal.
  unfold pairs_cc. rewrite map_flat_map. apply flat_map_ext'. intros a.
  assert (Hf : forall l : list grow, filter (fun _ => true) l = l).
  { induction l as [|x l IH]; [reflexivity|]. cbn [filter]. rewrite IH. reflexivity. }
  rewrite Hf, !map_map. reflexivity.
Qed.

Lemma same_parent_cmp : forall a b, is_true (cmp3 OEq (c_pid a) (c_pid b)) = same_parent a b.
Proof.
  intros a b. unfold same_parent. destruct (c_pid a), (c_pid b); try reflexivity.
  cbn [cmp3 cmpZ]. apply is_true_tv_of_bool.
Qed.

(* ---------- SELECT * FROM c WHERE w  (a member of the union over C) ---------- *)
Lemma filter_ext_in2 : forall (A : Type) (P Q : A -> bool) (l : list A),
  (forall x, In x l -> P x = Q x) -> filter P l = filter Q l.
Proof.
  intros A P Q l H. induction l as [|x l IH]; [reflexivity|]. cbn [filter].
  rewrite (H x (or_introl eq_refl)), IH; [reflexivity|]. intros y Hy. apply H. right. exact Hy.
Qed.

Lemma dedup_rows_in : forall l seen r, In r (dedup_rows l seen) -> In r l.
Proof.
  induction l as [|x l IH]; intros seen r H; [destruct H|]. cbn [dedup_rows] in H.
  destruct (mem_row x seen).
  - right. exact (IH _ _ H).
  - destruct H as [H|H]; [left; exact H | right; exact (IH _ _ H)].
Qed.

Lemma sel_rows_call : forall a,
  map snd (sel_rows d (sel_call (tr_sx 0 ColY a))) =
  map cvals (filter (fun c => is_true (sxeval a (c_y c))) (cs d)).
Proof.
  intros a. unfold sel_rows, sel_call. rewrite sel_envs_c, !map_map.
  rewrite (filter_ext' _ (fun c => is_true (beval d (env_c c) (tr_sx 0 ColY a))) (fun c => is_true (sxeval a (c_y c)))).
  2:{ intros c. rewrite sx_tr. reflexivity. }
  apply map_ext'. intros c. reflexivity.
Qed.

Lemma crow_of_cvals : forall c, crow_of_vals (cvals c) = c.
Proof. intros []. reflexivity. Qed.

(* ---------- every shape ---------- *)
Theorem core_rows_meaning : forall q, query_ok d q = true ->
  core_rows d (orm_to_core d q) = meaning_rows d q.
Proof.
  intros q Hok. destruct q as [c|k|outer t sp sc m|outer sc sp|sc|a b|c|a b post|vals sc]; cbn [orm_to_core core_rows meaning_rows].
  - (* select(P).where(c) *)
    unfold sel_rows. rewrite sel_envs_p, map_map. cbn [query_ok] in Hok.
    rewrite (filter_ext' _ (fun p => is_true (beval d (env_p p) (tr_pcrit d 0 c))) (fun p => is_true (peval d p c))).
    2:{ intros p. f_equal. apply pcrit_tr; [reflexivity | unfold sub_alias; lia | exact Hok]. }
    apply map_ext'. intros p. reflexivity.
  - (* select(C).where(k) *)
    unfold sel_rows. rewrite sel_envs_c, map_map.
    rewrite (filter_ext' _ (fun c => is_true (beval d (env_c c) (tr_ccrit 0 k))) (fun c => is_true (ceval d c k))).
    2:{ intros c. f_equal. apply ccrit_tr; [reflexivity | unfold sub_alias; lia]. }
    apply map_ext'. intros c. reflexivity.
  - (* join along P.children *)
    unfold sel_rows. rewrite sel_envs_pc, map_map.
    rewrite (filter_ext' _ (fun pc => is_true (beval d (env_pc pc) (BAnd (tr_sx 0 ColX sp) (tr_sx 1 ColY sc))))
               (fun pc => is_true (and3 (sxeval sp (p_x (fst pc))) (sxeval sc (oc_y (snd pc)))))).
    2:{ intros [p oc]. cbn [beval]. rewrite !sx_tr. destruct oc; reflexivity. }
    apply map_ext'. intros [p oc]. destruct m, oc; reflexivity.
  - (* join along C.parent *)
    change (sel_rows d (sel_cp outer (BAnd (tr_sx 0 ColY sc) (tr_sx 1 ColX sp))) =
            map (fun cp => ([Some (c_id (fst cp))], [Some (c_id (fst cp)); op_id (snd cp)]))
              (filter (fun cp => is_true (and3 (sxeval sc (c_y (fst cp))) (sxeval sp (op_x (snd cp))))) (pairs_cp d outer))).
    unfold sel_rows. rewrite sel_envs_cp, map_map.
    rewrite (filter_ext' _ (fun cp => is_true (beval d (env_cp cp) (BAnd (tr_sx 0 ColY sc) (tr_sx 1 ColX sp))))
               (fun cp => is_true (and3 (sxeval sc (c_y (fst cp))) (sxeval sp (op_x (snd cp)))))).
    2:{ intros [c op]. cbn [beval]. rewrite !sx_tr. destruct op; reflexivity. }
    apply map_ext'. intros [c op]. destruct op; reflexivity.
  - (* group by P with count(C.id) *)
    f_equal. unfold kv_of. rewrite sel_envs_pc_plain, map_map.
    rewrite (filter_ext' _ (fun pc => is_true (beval d (env_pc pc) (tr_sx 1 ColY sc)))
               (fun pc => is_true (sxeval sc (oc_y (snd pc))))).
    2:{ intros [p oc]. rewrite sx_tr. destruct oc; reflexivity. }
    apply map_ext'. intros [p oc]. destruct oc; reflexivity.
  - (* union *)
    cbn [query_ok] in Hok. apply andb_true_iff in Hok. destruct Hok as [Ha Hb].
    f_equal. f_equal. unfold sel_rows. rewrite !sel_envs_p, !map_map. f_equal.
    + rewrite (filter_ext' _ (fun p => is_true (beval d (env_p p) (tr_pcrit d 0 a))) (fun p => is_true (peval d p a))).
      2:{ intros p. f_equal. apply pcrit_tr; [reflexivity | unfold sub_alias; lia | exact Ha]. }
      apply map_ext'. intros p. reflexivity.
    + rewrite (filter_ext' _ (fun p => is_true (beval d (env_p p) (tr_pcrit d 0 b))) (fun p => is_true (peval d p b))).
      2:{ intros p. f_equal. apply pcrit_tr; [reflexivity | unfold sub_alias; lia | exact Hb]. }
      apply map_ext'. intros p. reflexivity.
  - (* select(Node).where(c) *)
    change (sel_rows d (sel_n (tr_ncrit 0 c)) =
            map (fun n => ([Some (c_id n)], [Some (c_id n)])) (filter (fun n => is_true (neval d n c)) (ns d))).
    unfold sel_rows. rewrite sel_envs_n, map_map.
    rewrite (filter_ext' _ (fun n => is_true (beval d (env_c n) (tr_ncrit 0 c))) (fun n => is_true (neval d n c))).
    2:{ intros n. f_equal. apply ncrit_tr; [reflexivity | discriminate]. }
    apply map_ext'. intros n. reflexivity.
  - (* union over C with a criterion added after the union *)
    rewrite !sel_rows_call. f_equal. apply filter_ext_in2. intros r Hr.
    apply dedup_rows_in in Hr. apply in_app_or in Hr.
    assert (Hc : exists c, r = cvals c).
    { destruct Hr as [Hr|Hr]; apply in_map_iff in Hr; destruct Hr as [c [Hc _]]; exists c; symmetry; exact Hc. }
    destruct Hc as [c Hc]. subst r. rewrite crow_of_cvals. f_equal.
    apply ccrit_tr; [reflexivity | unfold sub_alias; lia].
  - (* the single-table subclass twice *)
    unfold sel_rows. rewrite sel_envs_sibs, map_map.
    rewrite (filter_ext' _ (fun ab => is_true (beval d (env_cc ab) (s_where (sel_sibs sc))))
               (fun ab => (same_parent (fst ab) (snd ab) && is_true (sxeval sc (c_y (snd ab)))) &&
                          (is_sub (fst ab) && is_sub (snd ab)))).
    2:{ intros [a b]. cbn [sel_sibs s_where beval]. rewrite !is_true_and3, sx_tr. unfold sub_crit.
        cbn [beval eeval lookup Nat.eqb env_cc fst snd gcol grow_c g_pid g_y g_kind map].
        rewrite same_parent_cmp, !sub_crit_is_sub. reflexivity. }
    apply map_ext'. intros [a b]. reflexivity.
Qed.

End Shapes.

Theorem core_exec_meaning : forall d q, query_ok d q = true -> core_exec d (orm_to_core d q) = meaning d q.
Proof. intros d q H. unfold core_exec, meaning. rewrite (core_rows_meaning d q H). reflexivity. Qed.
